/-
  FcProofs.Lemmas.ResidLadder — re-running one `MeshFieldsComparator` object (C19), with the two
  canonicity facts of `C19.LadderFacts` replaced by LOCAL, data-level fixed-point facts about the
  two views that actually enter the reordering rungs of the FIRST call.

  `preReorder L fl st` = the state after the (optional) dimension retry of a call from `st`.
  `FixAt L x`          = on the fully sorted view `x₃ = sortc (perm x)`:  `perm x₃ = x₃`, `sortc x₃ = x₃`.

  `run_fixpoint`: under the three dimension facts and `FixAt` of both views of `preReorder`, the
  state a call leaves behind is a FIXED POINT of `__call__`, and a call from it returns the same
  suite.  Hence (`rerun_of_fixAt`) every one of `k` consecutive calls returns the first call's suite.
-/
import FcModel.Spec.C19
namespace Fc.Resid
open Fc.C19

variable {D S : Type}

/-- the state after the (optional) dimension retry of one `__call__` from `st` -/
def preReorder (L : LadderOps D S) (fl : CmpFlags) (st : CmpState D) : CmpState D :=
  if (L.dim st.src != L.dim st.ref && !fl.noDimMatch) = true then
    ⟨L.ext (max (L.dim st.src) (L.dim st.ref)) st.src, L.ext (max (L.dim st.src) (L.dim st.ref)) st.ref⟩
  else st

/-- the fully sorted view of `x` is left unchanged by another `_permute` and by another `sort_cells` -/
def FixAt (L : LadderOps D S) (x : D) : Prop :=
  L.perm (L.sortc (L.perm x)) = L.sortc (L.perm x) ∧ L.sortc (L.sortc (L.perm x)) = L.sortc (L.perm x)

/-- the three dimension facts of `C19.LadderFacts` -/
structure DimFacts (L : LadderOps D S) : Prop where
  dim_ext : ∀ m x, L.dim (L.ext m x) = m
  dim_perm : ∀ x, L.dim (L.perm x) = L.dim x
  dim_sortc : ∀ x, L.dim (L.sortc x) = L.dim x

/-- from a state whose two views are fully sorted fixed points (no dimension retry pending) a call
    returns the suite of that state and leaves the state as it is -/
theorem run_at_fix (L : LadderOps D S) (fl : CmpFlags) (x y : D)
    (hd : (L.dim x != L.dim y && !fl.noDimMatch) = false)
    (hpx : L.perm x = x) (hcx : L.sortc x = x) (hpy : L.perm y = y) (hcy : L.sortc y = y) :
    (runComparator L fl ⟨x, y⟩).suite = L.cmp x y ∧ (runComparator L fl ⟨x, y⟩).state = ⟨x, y⟩ := by
  by_cases h0 : L.ok (L.cmp x y) = true
  · simp [runComparator, h0]
  · by_cases hr : fl.noReorder = true
    · simp [runComparator, h0, hd, hr]
    · by_cases hs : (L.structured x = true ∧ L.structured y = true)
      · simp [runComparator, h0, hd, hr, hs.1, hs.2]
      · simp [runComparator, h0, hd, hr, hs, hpx, hpy, hcx, hcy]

/-- a state from which no dimension retry happens, not changed by the call -/
theorem run_same_state (L : LadderOps D S) (fl : CmpFlags) (st : CmpState D) (s : S)
    (h : (runComparator L fl st).suite = s ∧ (runComparator L fl st).state = st) :
    ∀ k, ∀ t ∈ rerun L fl k st, t = s := by
  intro k
  induction k with
  | zero => simp [rerun]
  | succ k ih =>
    intro t ht
    simp only [rerun, List.mem_cons] at ht
    rcases ht with rfl | ht
    · exact h.1
    · rw [h.2] at ht
      exact ih t ht

/-- **the state a call leaves behind is a fixed point of `__call__`** and a second call from it
    returns the same suite — under the dimension facts and `FixAt` of the two views that enter the
    reordering rungs of the first call -/
theorem run_fixpoint (L : LadderOps D S) (F : DimFacts L) (fl : CmpFlags) (st : CmpState D)
    (hx : FixAt L (preReorder L fl st).src) (hy : FixAt L (preReorder L fl st).ref) :
    (runComparator L fl (runComparator L fl st).state).suite = (runComparator L fl st).suite ∧
    (runComparator L fl (runComparator L fl st).state).state = (runComparator L fl st).state := by
  by_cases h0 : L.ok (L.cmp st.src st.ref) = true
  · simp [runComparator, h0]
  · by_cases hxd : (L.dim st.src != L.dim st.ref && !fl.noDimMatch) = true
    · -- the dimension retry happens
      have hpre : preReorder L fl st = ⟨L.ext (max (L.dim st.src) (L.dim st.ref)) st.src,
          L.ext (max (L.dim st.src) (L.dim st.ref)) st.ref⟩ := by
        unfold preReorder; rw [if_pos hxd]
      rw [hpre] at hx hy
      simp only at hx hy
      generalize hX : L.ext (max (L.dim st.src) (L.dim st.ref)) st.src = X at hx
      generalize hY : L.ext (max (L.dim st.src) (L.dim st.ref)) st.ref = Y at hy
      have hdX : L.dim X = max (L.dim st.src) (L.dim st.ref) := by rw [← hX, F.dim_ext]
      have hdY : L.dim Y = max (L.dim st.src) (L.dim st.ref) := by rw [← hY, F.dim_ext]
      have hne : (L.dim X != L.dim Y && !fl.noDimMatch) = false := by simp [hdX, hdY]
      by_cases h1 : L.ok (L.cmp X Y) = true
      · simp [runComparator, h0, hxd, hX, hY, h1]
      · by_cases hr : fl.noReorder = true
        · simp [runComparator, h0, hxd, hX, hY, h1, hr, hne]
        · by_cases hs : (L.structured X = true ∧ L.structured Y = true)
          · simp [runComparator, h0, hxd, hX, hY, h1, hr, hne, hs.1, hs.2]
          · by_cases h2 : L.ok (L.cmp (L.perm X) (L.perm Y)) = true
            · simp [runComparator, h0, hxd, hX, hY, h1, hr, hs, h2]
            · have hd3 : (L.dim (L.sortc (L.perm X)) != L.dim (L.sortc (L.perm Y)) && !fl.noDimMatch) = false := by
                rw [F.dim_sortc, F.dim_sortc, F.dim_perm, F.dim_perm]; exact hne
              have := run_at_fix L fl _ _ hd3 hx.1 hx.2 hy.1 hy.2
              simp [runComparator, h0, hxd, hX, hY, h1, hr, hs, h2] at this ⊢
              exact this
    · -- no dimension retry
      have hxd' : (L.dim st.src != L.dim st.ref && !fl.noDimMatch) = false := by simpa using hxd
      have hpre : preReorder L fl st = st := by
        unfold preReorder; rw [if_neg hxd]
      rw [hpre] at hx hy
      by_cases hr : fl.noReorder = true
      · simp [runComparator, h0, hxd', hr]
      · by_cases hs : (L.structured st.src = true ∧ L.structured st.ref = true)
        · simp [runComparator, h0, hxd', hr, hs.1, hs.2]
        · by_cases h2 : L.ok (L.cmp (L.perm st.src) (L.perm st.ref)) = true
          · simp [runComparator, h0, hxd', hr, hs, h2]
          · have hd3 : (L.dim (L.sortc (L.perm st.src)) != L.dim (L.sortc (L.perm st.ref)) && !fl.noDimMatch) = false := by
              rw [F.dim_sortc, F.dim_sortc, F.dim_perm, F.dim_perm]; exact hxd'
            have := run_at_fix L fl _ _ hd3 hx.1 hx.2 hy.1 hy.2
            simp [runComparator, h0, hxd', hr, hs, h2] at this ⊢
            exact this

/-- **`k` consecutive calls of one comparator object all return the first call's suite** — from the
    dimension facts and the LOCAL fixed-point facts only -/
theorem rerun_of_fixAt (L : LadderOps D S) (F : DimFacts L) (fl : CmpFlags) (st : CmpState D)
    (hx : FixAt L (preReorder L fl st).src) (hy : FixAt L (preReorder L fl st).ref) (k : Nat) :
    ∀ s ∈ rerun L fl k st, s = (runComparator L fl st).suite := by
  cases k with
  | zero => simp [rerun]
  | succ k =>
    intro s hs
    simp only [rerun, List.mem_cons] at hs
    rcases hs with rfl | hs
    · rfl
    · exact run_same_state L fl _ _ (run_fixpoint L F fl st hx hy) k s hs

end Fc.Resid
