/-
  FcProofs.Lemmas.Permuted — helper lemmas for property C08:
  list plumbing (chunks of a flat array, gathers), the inverse-permutation table, and the abstract
  "relabeling preserves the geometric content" lemma behind `C08_permuted_iso`.
-/
import Mathlib.Data.List.Nodup
import Mathlib.Data.List.Perm.Basic
import FcModel.Transform
import FcModel.Extend
import FcModel.Spec.C08
namespace Fc

/-! ### list plumbing -/

theorem optAll_map_some {α β} (f : α → Option β) (g : α → β) (l : List α)
    (h : ∀ x ∈ l, f x = some (g x)) : optAll (l.map f) = some (l.map g) := by
  induction l with
  | nil => rfl
  | cons x t ih =>
    have hx := h x (by simp)
    have ht := ih (fun y hy => h y (by simp [hy]))
    simp only [List.map_cons, hx, optAll, ht]

theorem optAll_eq_some {α} (l : List (Option α)) (r : List α) (h : optAll l = some r) :
    l = r.map some := by
  induction l generalizing r with
  | nil => simp [optAll] at h; subst h; rfl
  | cons x t ih =>
    cases x with
    | none => simp [optAll] at h
    | some a =>
      cases ht : optAll t with
      | none => simp [optAll, ht] at h
      | some r' =>
        simp only [optAll, ht, Option.some.injEq] at h
        subst h
        simp [ih r' ht]

theorem getD_map_range {α} (l : List α) (d : α) : (List.range l.length).map (l.getD · d) = l := by
  apply List.ext_getElem
  · simp
  · intro i h1 h2
    simp [List.getD_eq_getElem?_getD, h2]

theorem getD_of_lt {α} (l : List α) (d : α) {i : Nat} (h : i < l.length) : l.getD i d = l[i] := by
  simp [List.getD_eq_getElem?_getD, h]

/-- the `j`-th chunk of a concatenation of equally long chunks -/
theorem flatMap_chunk {α β} (l : List α) (g : α → List β) (k : Nat)
    (h : ∀ x ∈ l, (g x).length = k) (j : Nat) (hj : j < l.length) :
    ((l.flatMap g).drop (j * k)).take k = g l[j] := by
  induction l generalizing j with
  | nil => simp at hj
  | cons x t ih =>
    have hx : (g x).length = k := h x (by simp)
    cases j with
    | zero =>
      simp only [List.flatMap_cons, Nat.zero_mul, List.drop_zero, List.getElem_cons_zero]
      exact List.take_left' hx
    | succ j =>
      have e : (j + 1) * k = k + j * k := by rw [Nat.succ_mul, Nat.add_comm]
      simp only [List.flatMap_cons, List.getElem_cons_succ, e]
      rw [← List.drop_drop, List.drop_left' hx]
      exact ih (fun y hy => h y (by simp [hy])) j (by simpa using hj)

theorem prodList_foldl_perm (a : Nat) (l : List Nat) : l.foldl (· * ·) a = a * l.foldl (· * ·) 1 := by
  induction l generalizing a with
  | nil => simp
  | cons x t ih =>
    simp only [List.foldl_cons]
    rw [ih (a * x), ih (1 * x)]
    simp [Nat.mul_assoc]

theorem prodList_cons (n : Nat) (t : List Nat) : prodList (n :: t) = n * prodList t := by
  unfold prodList
  simp only [List.foldl_cons]
  rw [prodList_foldl_perm]
  simp

/-- an array whose leading axis has `n` entries: shape `n :: tail`, `n * rowSize` scalars -/
def NdArr.hasRows (a : NdArr) (n : Nat) : Prop :=
  a.shape.head? = some n ∧ a.data.length = prodList a.shape

theorem NdArr.hasRows_data {a : NdArr} {n : Nat} (h : a.hasRows n) :
    a.data.length = n * a.rowSize ∧ a.numRows = n := by
  obtain ⟨h1, h2⟩ := h
  cases hs : a.shape with
  | nil => rw [hs] at h1; simp at h1
  | cons m t =>
    rw [hs] at h1 h2
    simp at h1
    subst h1
    refine ⟨?_, by simp [NdArr.numRows, hs]⟩
    rw [h2, prodList_cons]
    simp [NdArr.rowSize, hs]

theorem NdArr.row_length {a : NdArr} {n : Nat} (h : a.hasRows n) {i : Nat} (hi : i < n) :
    (a.row i).length = a.rowSize := by
  have hd := (NdArr.hasRows_data h).1
  unfold NdArr.row
  simp only [List.length_take, List.length_drop]
  have : (i + 1) * a.rowSize ≤ n * a.rowSize := Nat.mul_le_mul_right _ hi
  rw [Nat.succ_mul] at this
  omega

/-- row `j` of `values[idx]` is row `idx[j]` of `values` -/
theorem NdArr.gather_row {a : NdArr} {n : Nat} (h : a.hasRows n) (idx : List Nat)
    (hidx : ∀ i ∈ idx, i < n) (b : NdArr) (hb : a.gather idx = some b) (j : Nat) (hj : j < idx.length) :
    b.row j = a.row idx[j] ∧ b.hasRows idx.length := by
  unfold NdArr.gather at hb
  have hn := (NdArr.hasRows_data h).2
  have hall : idx.all (· < a.numRows) = true := by
    simp only [List.all_eq_true, decide_eq_true_eq]
    intro i hi; rw [hn]; exact hidx i hi
  simp only [hall, if_true, Option.some.injEq] at hb
  subst hb
  have hrs : ({ dtype := a.dtype, shape := idx.length :: a.shape.tail, data := idx.flatMap a.row } : NdArr).rowSize
      = a.rowSize := by simp [NdArr.rowSize]
  have hlen : ∀ i ∈ idx, (a.row i).length = a.rowSize := fun i hi => NdArr.row_length h (hidx i hi)
  constructor
  · show ((idx.flatMap a.row).drop (j * _)).take _ = _
    rw [hrs]
    exact flatMap_chunk idx a.row a.rowSize hlen j hj
  · refine ⟨by simp, ?_⟩
    show (idx.flatMap a.row).length = prodList (idx.length :: a.shape.tail)
    rw [prodList_cons, List.length_flatMap]
    have : (idx.map fun i => (a.row i).length) = idx.map fun _ => a.rowSize :=
      List.map_congr_left hlen
    rw [this]
    simp [NdArr.rowSize]

/-! ### connectedness as a proposition -/

theorem connected_iff (m : Mesh) (p : Nat) :
    m.connected p = true ↔ ∃ b ∈ m.cells, ∃ row ∈ b.2, p ∈ row := by
  unfold Mesh.connected
  simp only [List.any_eq_true, List.contains_iff_mem]

/-! ### relabeling preserves the geometric content -/

/-- `f'` is `f` with its points listed in the order `perm` (new → old; points outside `perm`
    dropped), corner indices renamed by `g`, cells of each block listed in the order `cpf block`,
    and every field row moved along with its point / cell. -/
structure Relabel (f f' : MeshFields) (perm : List Nat) (g : Nat → Nat)
    (cpf : String × List (List Nat) → List Nat) : Prop where
  nodup : perm.Nodup
  inRange : ∀ p ∈ perm, p < f.mesh.numPoints
  covers : ∀ p, f.mesh.connected p = true → p ∈ perm
  ginv : ∀ j (h : j < perm.length), g perm[j] = j
  points : f'.mesh.points = perm.map (f.mesh.points.getD · [])
  cells : f'.mesh.cells = f.mesh.cells.map fun b => (b.1, (cpf b).map fun c => (b.2.getD c []).map g)
  cperm : ∀ b ∈ f.mesh.cells, (cpf b).Perm (List.range b.2.length)
  prow : ∀ j (h : j < perm.length),
    f'.pointFields.map (fun pf => (pf.name, pf.values.row j)) =
    f.pointFields.map (fun pf => (pf.name, pf.values.row perm[j]))
  crow : ∀ b ∈ f.mesh.cells, ∀ c' (h : c' < (cpf b).length),
    (f'.cellFields.filter (·.ctype == b.1)).map (fun cf => (cf.name, cf.values.row c')) =
    (f.cellFields.filter (·.ctype == b.1)).map (fun cf => (cf.name, cf.values.row (cpf b)[c']))

namespace Relabel
variable {f f' : MeshFields} {perm : List Nat} {g : Nat → Nat}
  {cpf : String × List (List Nat) → List Nat}

theorem g_eq_iff (R : Relabel f f' perm g cpf) {p : Nat} (hp : p ∈ perm) (j : Nat) (hj : j < perm.length) :
    g p = j ↔ p = perm[j] := by
  obtain ⟨i, hi, rfl⟩ := List.getElem_of_mem hp
  rw [R.ginv i hi, R.nodup.getElem_inj_iff]

theorem numPoints' (R : Relabel f f' perm g cpf) : f'.mesh.numPoints = perm.length := by
  simp [Mesh.numPoints, R.points]

theorem points_get (R : Relabel f f' perm g cpf) (j : Nat) (hj : j < perm.length) :
    f'.mesh.points.getD j [] = f.mesh.points.getD perm[j] [] := by
  rw [R.points]
  simp [List.getD_eq_getElem?_getD, hj]

theorem pointItem_eq (R : Relabel f f' perm g cpf) (j : Nat) (hj : j < perm.length) :
    f'.pointItem j = f.pointItem perm[j] := by
  unfold MeshFields.pointItem
  rw [R.points_get j hj, R.prow j hj]

theorem connected_eq (R : Relabel f f' perm g cpf) (j : Nat) (hj : j < perm.length) :
    f'.mesh.connected j = f.mesh.connected perm[j] := by
  rw [Bool.eq_iff_iff, connected_iff, connected_iff, R.cells]
  constructor
  · rintro ⟨b', hb', row', hrow', hj'⟩
    obtain ⟨b, hb, rfl⟩ := List.mem_map.mp hb'
    obtain ⟨c, hc, rfl⟩ := List.mem_map.mp hrow'
    obtain ⟨p, hp, hgp⟩ := List.mem_map.mp hj'
    have hclt : c < b.2.length := by
      have := (R.cperm b hb).mem_iff.mp hc
      simpa using this
    have hrow : b.2.getD c [] ∈ b.2 := by
      rw [getD_of_lt _ _ hclt]; exact List.getElem_mem hclt
    have hconn : f.mesh.connected p = true := (connected_iff _ _).mpr ⟨b, hb, _, hrow, hp⟩
    have hpp := R.covers p hconn
    have := (R.g_eq_iff hpp j hj).mp hgp
    exact ⟨b, hb, _, hrow, this ▸ hp⟩
  · rintro ⟨b, hb, row, hrow, hp⟩
    obtain ⟨c, hc, rfl⟩ := List.getElem_of_mem hrow
    refine ⟨_, List.mem_map.mpr ⟨b, hb, rfl⟩, _, List.mem_map.mpr ⟨c, ?_, rfl⟩, ?_⟩
    · exact (R.cperm b hb).mem_iff.mpr (by simpa using hc)
    · rw [getD_of_lt _ _ hc]
      have hconn : f.mesh.connected perm[j] = true := (connected_iff _ _).mpr ⟨b, hb, _, hrow, hp⟩
      exact List.mem_map.mpr ⟨perm[j], hp, R.ginv j hj⟩

/-- point part of the content -/
theorem pointContent_perm (R : Relabel f f' perm g cpf) : f'.pointContent.Perm f.pointContent := by
  unfold MeshFields.pointContent
  rw [R.numPoints']
  have e1 : (List.range perm.length).filter f'.mesh.connected =
      (List.range perm.length).filter (f.mesh.connected ∘ (perm.getD · 0)) := by
    apply List.filter_congr
    intro j hj
    have hj' : j < perm.length := List.mem_range.mp hj
    show f'.mesh.connected j = f.mesh.connected (perm.getD j 0)
    rw [getD_of_lt _ _ hj', R.connected_eq j hj']
  have e2 : ((List.range perm.length).filter (f.mesh.connected ∘ (perm.getD · 0))).map f'.pointItem =
      ((List.range perm.length).filter (f.mesh.connected ∘ (perm.getD · 0))).map
        (f.pointItem ∘ (perm.getD · 0)) := by
    apply List.map_congr_left
    intro j hj
    have hj' : j < perm.length := List.mem_range.mp (List.mem_filter.mp hj).1
    show f'.pointItem j = f.pointItem (perm.getD j 0)
    rw [getD_of_lt _ _ hj', R.pointItem_eq j hj']
  rw [e1, e2, ← List.map_map, ← List.filter_map, getD_map_range]
  apply List.Perm.map
  apply (List.perm_ext_iff_of_nodup (R.nodup.filter _) (List.nodup_range.filter _)).mpr
  intro p
  simp only [List.mem_filter, List.mem_range]
  constructor
  · rintro ⟨hp, hc⟩; exact ⟨R.inRange p hp, hc⟩
  · rintro ⟨_, hc⟩; exact ⟨R.covers p hc, hc⟩

theorem cellItem_eq (R : Relabel f f' perm g cpf) (b : String × List (List Nat)) (hb : b ∈ f.mesh.cells)
    (c' : Nat) (hc' : c' < (cpf b).length) :
    f'.cellItem b.1 c' (((cpf b).map fun c => (b.2.getD c []).map g).getD c' []) =
    f.cellItem b.1 (cpf b)[c'] (b.2.getD (cpf b)[c'] []) := by
  have hclt : (cpf b)[c'] < b.2.length := by
    have := (R.cperm b hb).mem_iff.mp (List.getElem_mem hc')
    simpa using this
  unfold MeshFields.cellItem
  rw [R.crow b hb c' hc']
  congr 1
  rw [getD_of_lt _ _ (by simpa using hc'), List.getElem_map, List.map_map]
  apply List.map_congr_left
  intro p hp
  have hrow : b.2.getD (cpf b)[c'] [] ∈ b.2 := by
    rw [getD_of_lt _ _ hclt]; exact List.getElem_mem hclt
  have hconn : f.mesh.connected p = true := (connected_iff _ _).mpr ⟨b, hb, _, hrow, hp⟩
  obtain ⟨i, hi, rfl⟩ := List.getElem_of_mem (R.covers p hconn)
  simp only [Function.comp]
  rw [R.ginv i hi, R.points_get i hi]

/-- cell part of the content -/
theorem cellContent_perm (R : Relabel f f' perm g cpf) : f'.cellContent.Perm f.cellContent := by
  unfold MeshFields.cellContent
  rw [R.cells, List.flatMap_map]
  apply List.Perm.flatMap_left
  intro b hb
  simp only [List.length_map]
  have e : (List.range (cpf b).length).map (fun c =>
        f'.cellItem b.1 c (((cpf b).map fun c => (b.2.getD c []).map g).getD c [])) =
      (List.range (cpf b).length).map
        ((fun c => f.cellItem b.1 c (b.2.getD c [])) ∘ ((cpf b).getD · 0)) := by
    apply List.map_congr_left
    intro c' hc'
    have h' : c' < (cpf b).length := List.mem_range.mp hc'
    show _ = f.cellItem b.1 ((cpf b).getD c' 0) (b.2.getD ((cpf b).getD c' 0) [])
    rw [getD_of_lt _ _ h', R.cellItem_eq b hb c' h']
  rw [e, ← List.map_map, getD_map_range]
  exact (R.cperm b hb).map _

end Relabel

end Fc

namespace Fc

/-! ### the inverse point permutation table -/

theorem fillInverse_length (ps : List Nat) (i : Nat) (inv : List (Option Nat)) :
    (fillInverse ps i inv).length = inv.length := by
  induction ps generalizing i inv with
  | nil => rfl
  | cons p t ih => simp [fillInverse, ih]

theorem fillInverse_getElem?_of_not_mem (ps : List Nat) (i : Nat) (inv : List (Option Nat)) (p : Nat)
    (h : p ∉ ps) : (fillInverse ps i inv)[p]? = inv[p]? := by
  induction ps generalizing i inv with
  | nil => rfl
  | cons q t ih =>
    have hq : q ≠ p := fun e => h (by simp [e])
    have ht : p ∉ t := fun e => h (by simp [e])
    simp only [fillInverse]
    rw [ih _ _ ht, List.getElem?_set]
    simp [hq]

/-- every slot named by the (injective) index map holds the position of its name -/
theorem fillInverse_getElem? (ps : List Nat) (i : Nat) (inv : List (Option Nat)) (hnd : ps.Nodup)
    (j : Nat) (hj : j < ps.length) (hlt : ps[j] < inv.length) :
    (fillInverse ps i inv)[ps[j]]? = some (some (i + j)) := by
  induction ps generalizing i inv j with
  | nil => simp at hj
  | cons q t ih =>
    have hnd' := List.nodup_cons.mp hnd
    cases j with
    | zero =>
      simp only [List.getElem_cons_zero, fillInverse, Nat.add_zero]
      rw [fillInverse_getElem?_of_not_mem _ _ _ _ hnd'.1, List.getElem?_set]
      simp at hlt
      simp [hlt]
    | succ j =>
      simp only [List.getElem_cons_succ, fillInverse]
      have := ih (i + 1) (inv.set q (some i)) hnd'.2 j (by simpa using hj) (by simpa using hlt)
      rw [this]
      congr 2; omega

theorem le_maxIdx {l : List Nat} {p : Nat} (h : p ∈ l) : p ≤ maxIdx l := by
  induction l with
  | nil => simp at h
  | cons x t ih =>
    simp only [maxIdx]
    rcases List.mem_cons.mp h with rfl | h'
    · omega
    · have := ih h'; omega

/-- **the inverse table is only read at assigned slots**: for an injective index map, reading the
    table at any index the map names yields that index's position — never `none` -/
theorem readInverse_makeInverse (perm : List Nat) (inv : List (Option Nat)) (hnd : perm.Nodup)
    (h : makeInverse perm = some inv) (j : Nat) (hj : j < perm.length) :
    readInverse inv perm[j] = some j := by
  unfold makeInverse at h
  split at h
  · cases h
  · simp only [Option.some.injEq] at h
    subst h
    unfold readInverse
    have hlt : perm[j] < (List.replicate (maxIdx perm + 1) (none : Option Nat)).length := by
      have := le_maxIdx (List.getElem_mem hj)
      simp; omega
    rw [fillInverse_getElem? perm 0 _ hnd j hj hlt]
    simp

theorem makeInverse_isSome (perm : List Nat) (h : perm ≠ []) : ∃ inv, makeInverse perm = some inv := by
  unfold makeInverse
  cases perm with
  | nil => exact absurd rfl h
  | cons x t => exact ⟨fillInverse (x :: t) 0 (List.replicate (maxIdx (x :: t) + 1) none), by
      simp only [List.isEmpty_cons, Bool.false_eq_true, if_false]⟩

/-! ### well-formedness as propositions -/

structure WFP (f : MeshFields) : Prop where
  rows : ∀ p ∈ f.mesh.points, p.length = f.mesh.dim
  inRange : ∀ b ∈ f.mesh.cells, ∀ row ∈ b.2, ∀ p ∈ row, p < f.mesh.numPoints
  pf : ∀ pf ∈ f.pointFields, pf.values.hasRows f.mesh.numPoints
  cf : ∀ cf ∈ f.cellFields, cf.values.hasRows (f.mesh.cellsOf cf.ctype).length
  types : f.mesh.cellTypes.Nodup
  cfTypes : ∀ cf ∈ f.cellFields, cf.ctype ∈ f.mesh.cellTypes

theorem wf2_WFP (f : MeshFields) (h : f.wf2 = true) : WFP f := by
  unfold MeshFields.wf2 MeshFields.wf at h
  simp only [Bool.and_eq_true, List.all_eq_true, beq_iff_eq, decide_eq_true_eq,
    List.contains_iff_mem] at h
  obtain ⟨⟨⟨⟨⟨h1, h2⟩, h3⟩, h4⟩, h5⟩, h6⟩ := h
  exact ⟨h1, h2, fun pf hpf => h3 pf hpf, fun cf hcf => h4 cf hcf, h5, h6⟩

theorem cellsOf_of_mem (m : Mesh) (hnd : m.cellTypes.Nodup) (b : String × List (List Nat))
    (hb : b ∈ m.cells) : m.cellsOf b.1 = b.2 := by
  unfold Mesh.cellsOf
  unfold Mesh.cellTypes at hnd
  generalize m.cells = cells at hnd hb
  induction cells with
  | nil => simp at hb
  | cons c t ih =>
    simp only [List.map_cons, List.nodup_cons] at hnd
    rcases List.mem_cons.mp hb with rfl | hb'
    · simp
    · have hne : c.1 ≠ b.1 := by
        intro e
        exact hnd.1 (e ▸ List.mem_map.mpr ⟨b, hb', rfl⟩)
      simp only [List.find?_cons]
      have : (c.1 == b.1) = false := by simpa using hne
      rw [this]
      exact ih hnd.2 hb'

theorem connected_of_mem {m : Mesh} {b : String × List (List Nat)} (hb : b ∈ m.cells)
    {row : List Nat} (hrow : row ∈ b.2) {p : Nat} (hp : p ∈ row) : m.connected p = true :=
  (connected_iff m p).mpr ⟨b, hb, row, hrow, hp⟩

end Fc

namespace Fc

/-! ### gathers, explicitly -/

/-- the result of `values[idx]` when it does not raise -/
def NdArr.gatherD (a : NdArr) (idx : List Nat) : NdArr :=
  ⟨a.dtype, idx.length :: a.shape.tail, idx.flatMap a.row⟩

theorem NdArr.gather_eq {a : NdArr} {n : Nat} (h : a.hasRows n) (idx : List Nat)
    (hidx : ∀ i ∈ idx, i < n) : a.gather idx = some (a.gatherD idx) := by
  unfold NdArr.gather NdArr.gatherD
  have hn := (NdArr.hasRows_data h).2
  have hall : idx.all (· < a.numRows) = true := by
    simp only [List.all_eq_true, decide_eq_true_eq]
    intro i hi; rw [hn]; exact hidx i hi
  simp [hall]

theorem NdArr.gatherD_spec {a : NdArr} {n : Nat} (h : a.hasRows n) (idx : List Nat)
    (hidx : ∀ i ∈ idx, i < n) :
    (a.gatherD idx).hasRows idx.length ∧
    ∀ j (hj : j < idx.length), (a.gatherD idx).row j = a.row idx[j] := by
  have hg := NdArr.gather_eq h idx hidx
  constructor
  · cases idx with
    | nil =>
      refine ⟨by simp [NdArr.gatherD], ?_⟩
      simp [NdArr.gatherD, prodList_cons]
    | cons x t => exact (NdArr.gather_row h _ hidx _ hg 0 (by simp)).2
  · intro j hj
    exact (NdArr.gather_row h _ hidx _ hg j hj).1

theorem gatherList_eq {α} (d : α) (l : List α) (idx : List Nat) (h : ∀ i ∈ idx, i < l.length) :
    gatherList d l idx = some (idx.map (l.getD · d)) := by
  unfold gatherList
  have : idx.all (· < l.length) = true := by simpa using h
  simp [this]

/-! ### hypotheses of `C08_permuted_iso` as propositions -/

structure PointPermOk (m : Mesh) (perm : List Nat) : Prop where
  ne : perm ≠ []
  nodup : perm.Nodup
  inRange : ∀ p ∈ perm, p < m.numPoints
  covers : ∀ p, m.connected p = true → p ∈ perm

def CellPermsOk (m : Mesh) (cps : CellPerms) : Prop :=
  ∀ b ∈ m.cells, ∃ cp, cellPermOf cps b.1 = some cp ∧ cp.Perm (List.range b.2.length)

structure PermHyp (f : MeshFields) (pp : Option (List Nat)) (cp : Option CellPerms) : Prop where
  wf : WFP f
  pp : ∀ perm, pp = some perm → PointPermOk f.mesh perm
  cp : ∀ cps, cp = some cps → CellPermsOk f.mesh cps

theorem connected_lt {f : MeshFields} (h : WFP f) {p : Nat} (hp : f.mesh.connected p = true) :
    p < f.mesh.numPoints := by
  obtain ⟨b, hb, row, hrow, hpr⟩ := (connected_iff _ _).mp hp
  exact h.inRange b hb row hrow p hpr

/-- the driver's `hyp=1` is the hypothesis of the theorems -/
theorem permHypB_PermHyp (f : MeshFields) (pp : Option (List Nat)) (cp : Option CellPerms)
    (h : permHypB f pp cp = true) : PermHyp f pp cp := by
  unfold permHypB at h
  simp only [Bool.and_eq_true] at h
  obtain ⟨⟨hwf, hpp⟩, hcp⟩ := h
  have W := wf2_WFP f hwf
  refine ⟨W, ?_, ?_⟩
  · intro perm e
    subst e
    simp only [pointPermOk, Bool.and_eq_true, Bool.not_eq_true', List.isEmpty_eq_false_iff,
      decide_eq_true_eq, List.all_eq_true, List.mem_range, Bool.or_eq_true,
      List.contains_iff_mem] at hpp
    obtain ⟨⟨⟨h1, h2⟩, h3⟩, h4⟩ := hpp
    refine ⟨h1, h2, h3, ?_⟩
    intro p hp
    rcases h4 p (connected_lt W hp) with h5 | h5
    · rw [hp] at h5; cases h5
    · exact h5
  · intro cps e
    subst e
    simp only [cellPermsOk, List.all_eq_true] at hcp
    intro b hb
    have := hcp b hb
    cases hc : cellPermOf cps b.1 with
    | none => rw [hc] at this; cases this
    | some cpb =>
      rw [hc] at this
      exact ⟨cpb, rfl, List.isPerm_iff.mp this⟩

/-! ### what one PermutedMesh / TransformedMeshFields layer computes -/

def effPerm (f : MeshFields) (pp : Option (List Nat)) : List Nat :=
  match pp with
  | some perm => perm
  | none => List.range f.mesh.numPoints

def effG (pp : Option (List Nat)) : Nat → Nat :=
  match pp with
  | some perm => fun p => perm.idxOf p
  | none => id

def effCpf (cp : Option CellPerms) (b : String × List (List Nat)) : List Nat :=
  match cp with
  | some cps => (cellPermOf cps b.1).getD []
  | none => List.range b.2.length

def tpE (pp : Option (List Nat)) (a : NdArr) : NdArr :=
  match pp with
  | some perm => a.gatherD perm
  | none => a

def tcE (cp : Option CellPerms) (ct : String) (a : NdArr) : NdArr :=
  match cp with
  | some cps => a.gatherD ((cellPermOf cps ct).getD [])
  | none => a

/-- the data set one layer produces, written without tables and gathers on the mesh side -/
def layerResult (f : MeshFields) (pp : Option (List Nat)) (cp : Option CellPerms) : MeshFields :=
  ⟨⟨f.mesh.dim, (effPerm f pp).map (f.mesh.points.getD · []),
    f.mesh.cells.map fun b => (b.1, (effCpf cp b).map fun c => (b.2.getD c []).map (effG pp))⟩,
   f.pointFields.map fun pf => ⟨pf.name, tpE pp pf.values⟩,
   f.cellFields.map fun cf => ⟨cf.name, cf.ctype, tcE cp cf.ctype cf.values⟩⟩

theorem effPerm_spec {f : MeshFields} {pp : Option (List Nat)} {cp : Option CellPerms}
    (h : PermHyp f pp cp) :
    (effPerm f pp).Nodup ∧ (∀ p ∈ effPerm f pp, p < f.mesh.numPoints) ∧
    (∀ p, f.mesh.connected p = true → p ∈ effPerm f pp) ∧
    (∀ j (hj : j < (effPerm f pp).length), effG pp (effPerm f pp)[j] = j) := by
  cases pp with
  | none =>
    refine ⟨List.nodup_range, fun p hp => List.mem_range.mp hp,
      fun p hp => List.mem_range.mpr (connected_lt h.wf hp), ?_⟩
    intro j hj
    simp [effPerm, effG]
  | some perm =>
    have P := h.pp perm rfl
    refine ⟨P.nodup, P.inRange, P.covers, ?_⟩
    intro j hj
    exact P.nodup.idxOf_getElem j hj

theorem effCpf_perm {f : MeshFields} {pp : Option (List Nat)} {cp : Option CellPerms}
    (h : PermHyp f pp cp) (b : String × List (List Nat)) (hb : b ∈ f.mesh.cells) :
    (effCpf cp b).Perm (List.range b.2.length) ∧
    (∀ cps, cp = some cps → cellPermOf cps b.1 = some (effCpf cp b)) := by
  cases cp with
  | none => exact ⟨List.Perm.refl _, fun _ e => by cases e⟩
  | some cps =>
    obtain ⟨cpb, h1, h2⟩ := h.cp cps rfl b hb
    refine ⟨by simp [effCpf, h1, h2], ?_⟩
    intro cps' e
    cases e
    simp [effCpf, h1]

theorem mem_effCpf_lt {f : MeshFields} {pp : Option (List Nat)} {cp : Option CellPerms}
    (h : PermHyp f pp cp) (b : String × List (List Nat)) (hb : b ∈ f.mesh.cells)
    {c : Nat} (hc : c ∈ effCpf cp b) : c < b.2.length := by
  have := ((effCpf_perm h b hb).1).mem_iff.mp hc
  simpa using this

end Fc

namespace Fc

theorem getD_map_nil {α β} (l : List (List α)) (F : List α → List β) (hF : F [] = []) (c : Nat) :
    (l.map F).getD c [] = F (l.getD c []) := by
  simp only [List.getD_eq_getElem?_getD, List.getElem?_map]
  cases l[c]? <;> simp [hF]

theorem transformCellRows_eq {f : MeshFields} {pp : Option (List Nat)} {cp : Option CellPerms}
    (h : PermHyp f pp cp) (pm : PermutedMesh) (hc : pm.cellPerms = cp)
    (b : String × List (List Nat)) (hb : b ∈ f.mesh.cells) (rows' : List (List Nat))
    (hlen : rows'.length = b.2.length) :
    pm.transformCellRows b.1 rows' = some ((effCpf cp b).map (rows'.getD · [])) := by
  unfold PermutedMesh.transformCellRows
  rw [hc]
  cases cp with
  | none =>
    simp only [effCpf]
    rw [← hlen, getD_map_range]
  | some cps =>
    have e := (effCpf_perm h b hb).2 cps rfl
    simp only [e]
    apply gatherList_eq
    intro c hc'
    rw [hlen]
    exact mem_effCpf_lt h b hb hc'

theorem transformCellData_eq {f : MeshFields} {pp : Option (List Nat)} {cp : Option CellPerms}
    (h : PermHyp f pp cp) (pm : PermutedMesh) (hc : pm.cellPerms = cp)
    (b : String × List (List Nat)) (hb : b ∈ f.mesh.cells) (a : NdArr) (ha : a.hasRows b.2.length) :
    pm.transformCellData b.1 a = some (tcE cp b.1 a) ∧
    (tcE cp b.1 a).hasRows (effCpf cp b).length ∧
    ∀ c' (hc' : c' < (effCpf cp b).length), (tcE cp b.1 a).row c' = a.row (effCpf cp b)[c'] := by
  unfold PermutedMesh.transformCellData
  rw [hc]
  cases cp with
  | none =>
    refine ⟨rfl, by simpa [tcE, effCpf] using ha, ?_⟩
    intro c' hc'
    simp [tcE, effCpf]
  | some cps =>
    have e := (effCpf_perm h b hb).2 cps rfl
    have hidx : ∀ i ∈ effCpf (some cps) b, i < b.2.length := fun i hi => mem_effCpf_lt h b hb hi
    have hte : tcE (some cps) b.1 a = a.gatherD (effCpf (some cps) b) := by
      simp [tcE, effCpf]
    rw [hte]
    simp only [e]
    exact ⟨NdArr.gather_eq ha _ hidx, NdArr.gatherD_spec ha _ hidx⟩

theorem transformPointData_eq {f : MeshFields} {pp : Option (List Nat)} {cp : Option CellPerms}
    (h : PermHyp f pp cp) (pm : PermutedMesh) (hp : pm.pointPerm = pp)
    (a : NdArr) (ha : a.hasRows f.mesh.numPoints) :
    pm.transformPointData a = some (tpE pp a) ∧
    (tpE pp a).hasRows (effPerm f pp).length ∧
    ∀ j (hj : j < (effPerm f pp).length), (tpE pp a).row j = a.row (effPerm f pp)[j] := by
  unfold PermutedMesh.transformPointData
  rw [hp]
  cases pp with
  | none =>
    refine ⟨rfl, by simpa [tpE, effPerm] using ha, ?_⟩
    intro j hj
    simp [tpE, effPerm]
  | some perm =>
    have P := h.pp perm rfl
    exact ⟨NdArr.gather_eq ha _ P.inRange, NdArr.gatherD_spec ha _ P.inRange⟩

theorem points_eq {f : MeshFields} {pp : Option (List Nat)} {cp : Option CellPerms}
    (h : PermHyp f pp cp) (pm : PermutedMesh) (hb : pm.base = f.mesh) (hp : pm.pointPerm = pp) :
    pm.points = some ((effPerm f pp).map (f.mesh.points.getD · [])) := by
  unfold PermutedMesh.points
  rw [hp, hb]
  cases pp with
  | none => simp only [effPerm, Mesh.numPoints]; rw [getD_map_range]
  | some perm => exact gatherList_eq _ _ _ (h.pp perm rfl).inRange

theorem connectivityOf_eq {f : MeshFields} {pp : Option (List Nat)} {cp : Option CellPerms}
    (h : PermHyp f pp cp) (pm : PermutedMesh) (hc : pm.cellPerms = cp)
    (hinv : match pp with
      | none => pm.inverse = none
      | some perm => ∃ inv, pm.inverse = some inv ∧ makeInverse perm = some inv)
    (b : String × List (List Nat)) (hb : b ∈ f.mesh.cells) :
    pm.connectivityOf b.1 b.2 =
      some ((effCpf cp b).map fun c => (b.2.getD c []).map (effG pp)) := by
  unfold PermutedMesh.connectivityOf
  cases pp with
  | none =>
    simp only at hinv
    rw [hinv]
    simp only
    rw [transformCellRows_eq h pm hc b hb b.2 rfl]
    simp [effG]
  | some perm =>
    obtain ⟨inv, hi1, hi2⟩ := hinv
    have P := h.pp perm rfl
    rw [hi1]
    simp only
    have hmap : mapRowsInverse inv b.2 = some (b.2.map fun row => row.map (perm.idxOf ·)) := by
      unfold mapRowsInverse
      apply optAll_map_some
      intro row hrow
      apply optAll_map_some
      intro p hp
      obtain ⟨j, hj, rfl⟩ := List.getElem_of_mem (P.covers p (connected_of_mem hb hrow hp))
      rw [readInverse_makeInverse perm inv P.nodup hi2 j hj, P.nodup.idxOf_getElem j hj]
    rw [hmap]
    simp only
    rw [transformCellRows_eq h pm hc b hb _ (by simp)]
    congr 1
    apply List.map_congr_left
    intro c _
    exact getD_map_nil b.2 (fun row => row.map (perm.idxOf ·)) rfl c

/-- **model = explicit layer**: under the hypothesis nothing raises and the layer computes
    `layerResult` -/
theorem applyPermuted_eq {f : MeshFields} {pp : Option (List Nat)} {cp : Option CellPerms}
    (h : PermHyp f pp cp) : applyPermuted pp cp f = some (layerResult f pp cp) := by
  -- the constructor
  have hmk : ∃ pm, PermutedMesh.make f.mesh pp cp = some pm ∧ pm.base = f.mesh ∧ pm.pointPerm = pp ∧
      pm.cellPerms = cp ∧
      (match pp with
        | none => pm.inverse = none
        | some perm => ∃ inv, pm.inverse = some inv ∧ makeInverse perm = some inv) := by
    cases pp with
    | none => exact ⟨_, rfl, rfl, rfl, rfl, rfl⟩
    | some perm =>
      obtain ⟨inv, hinv⟩ := makeInverse_isSome perm (h.pp perm rfl).ne
      exact ⟨⟨f.mesh, some perm, cp, some inv⟩, by simp [PermutedMesh.make, hinv], rfl, rfl, rfl,
        inv, rfl, hinv⟩
  obtain ⟨pm, hmake, hb, hp, hc, hinv⟩ := hmk
  unfold applyPermuted
  rw [hmake]
  simp only
  unfold transformedMeshFields PermutedMesh.toMesh
  rw [points_eq h pm hb hp, hb]
  have hcells : optAll (f.mesh.cells.map fun b => (pm.connectivityOf b.1 b.2).map fun r => (b.1, r)) =
      some (f.mesh.cells.map fun b => (b.1, (effCpf cp b).map fun c => (b.2.getD c []).map (effG pp))) := by
    apply optAll_map_some
    intro b hb'
    rw [connectivityOf_eq h pm hc hinv b hb']
    rfl
  have hpf : optAll (f.pointFields.map fun pf =>
      (pm.transformPointData pf.values).map fun v => PointField.mk pf.name v) =
      some (f.pointFields.map fun pf => ⟨pf.name, tpE pp pf.values⟩) := by
    apply optAll_map_some
    intro pf hpf
    rw [(transformPointData_eq h pm hp pf.values (h.wf.pf pf hpf)).1]
    rfl
  have hcf : optAll (f.cellFields.map fun cf =>
      (pm.transformCellData cf.ctype cf.values).map fun v => CellField.mk cf.name cf.ctype v) =
      some (f.cellFields.map fun cf => ⟨cf.name, cf.ctype, tcE cp cf.ctype cf.values⟩) := by
    apply optAll_map_some
    intro cf hcf
    obtain ⟨b, hb', hbt⟩ := List.mem_map.mp (h.wf.cfTypes cf hcf)
    have hrows := h.wf.cf cf hcf
    rw [← hbt, cellsOf_of_mem _ h.wf.types b hb'] at hrows
    rw [← hbt, (transformCellData_eq h pm hc b hb' cf.values hrows).1]
    rfl
  rw [hcells, hpf, hcf]
  rfl

end Fc

namespace Fc

theorem layerResult_relabel {f : MeshFields} {pp : Option (List Nat)} {cp : Option CellPerms}
    (h : PermHyp f pp cp) :
    Relabel f (layerResult f pp cp) (effPerm f pp) (effG pp) (effCpf cp) := by
  obtain ⟨h1, h2, h3, h4⟩ := effPerm_spec h
  refine ⟨h1, h2, h3, h4, rfl, rfl, fun b hb => (effCpf_perm h b hb).1, ?_, ?_⟩
  · intro j hj
    simp only [layerResult, List.map_map]
    apply List.map_congr_left
    intro pf hpf
    have := (transformPointData_eq h ⟨f.mesh, pp, cp, none⟩ rfl pf.values (h.wf.pf pf hpf)).2.2 j hj
    simp only [Function.comp, this]
  · intro b hb c' hc'
    simp only [layerResult, List.filter_map, List.map_map]
    have hfil : (f.cellFields.filter
        ((fun x : CellField => x.ctype == b.1) ∘ fun cf => ⟨cf.name, cf.ctype, tcE cp cf.ctype cf.values⟩)) =
        f.cellFields.filter (fun x => x.ctype == b.1) := rfl
    rw [hfil]
    apply List.map_congr_left
    intro cf hcf
    obtain ⟨hcf1, hcf2⟩ := List.mem_filter.mp hcf
    have hct : cf.ctype = b.1 := by simpa using hcf2
    have hrows := h.wf.cf cf hcf1
    rw [hct, cellsOf_of_mem _ h.wf.types b hb] at hrows
    have := (transformCellData_eq h ⟨f.mesh, pp, cp, none⟩ rfl b hb cf.values hrows).2.2 c' hc'
    simp only [Function.comp, hct, this]

theorem layerResult_WFP {f : MeshFields} {pp : Option (List Nat)} {cp : Option CellPerms}
    (h : PermHyp f pp cp) : WFP (layerResult f pp cp) := by
  have R := layerResult_relabel h
  obtain ⟨h1, h2, h3, h4⟩ := effPerm_spec h
  have htypes : (layerResult f pp cp).mesh.cellTypes = f.mesh.cellTypes := by
    simp [layerResult, Mesh.cellTypes, Function.comp]
  refine ⟨?_, ?_, ?_, ?_, ?_, ?_⟩
  · intro p hp
    simp only [layerResult, List.mem_map] at hp
    obtain ⟨i, hi, rfl⟩ := hp
    have hlt := h2 i hi
    rw [getD_of_lt _ _ hlt]
    exact h.wf.rows _ (List.getElem_mem hlt)
  · intro b' hb' row' hrow' q hq
    simp only [layerResult, List.mem_map] at hb'
    obtain ⟨b, hb, rfl⟩ := hb'
    simp only [List.mem_map] at hrow'
    obtain ⟨c, hc, rfl⟩ := hrow'
    obtain ⟨p, hp, rfl⟩ := List.mem_map.mp hq
    have hclt := mem_effCpf_lt h b hb hc
    have hrow : b.2.getD c [] ∈ b.2 := by rw [getD_of_lt _ _ hclt]; exact List.getElem_mem hclt
    obtain ⟨j, hj, rfl⟩ := List.getElem_of_mem (h3 p (connected_of_mem hb hrow hp))
    rw [h4 j hj, R.numPoints']
    exact hj
  · intro pf' hpf'
    simp only [layerResult, List.mem_map] at hpf'
    obtain ⟨pf, hpf, rfl⟩ := hpf'
    rw [R.numPoints']
    exact (transformPointData_eq h ⟨f.mesh, pp, cp, none⟩ rfl pf.values (h.wf.pf pf hpf)).2.1
  · intro cf' hcf'
    simp only [layerResult, List.mem_map] at hcf'
    obtain ⟨cf, hcf, rfl⟩ := hcf'
    obtain ⟨b, hb, hbt⟩ := List.mem_map.mp (h.wf.cfTypes cf hcf)
    have hrows := h.wf.cf cf hcf
    rw [← hbt, cellsOf_of_mem _ h.wf.types b hb] at hrows
    have hb' : (b.1, (effCpf cp b).map fun c => (b.2.getD c []).map (effG pp)) ∈
        (layerResult f pp cp).mesh.cells := List.mem_map.mpr ⟨b, hb, rfl⟩
    have := cellsOf_of_mem (layerResult f pp cp).mesh (htypes ▸ h.wf.types) _ hb'
    simp only at this
    show (tcE cp cf.ctype cf.values).hasRows (((layerResult f pp cp).mesh.cellsOf cf.ctype).length)
    rw [← hbt, this, List.length_map]
    exact (transformCellData_eq h ⟨f.mesh, pp, cp, none⟩ rfl b hb cf.values hrows).2.1
  · rw [htypes]; exact h.wf.types
  · intro cf' hcf'
    simp only [layerResult, List.mem_map] at hcf'
    obtain ⟨cf, hcf, rfl⟩ := hcf'
    rw [htypes]
    exact h.wf.cfTypes cf hcf

end Fc
