/-
  FcProofs.Lemmas.ResidC19 — the three pieces named in the header of Props/C19_Glue.lean:

  (a) BRIDGE between the two models of `PermutedMesh` / `TransformedMeshFields`:
        C08's `Fc.applyPermuted (some τ) none f`   =  some (C02's `applyPointMap f τ`)
        C08's `Fc.applyPermuted none (some κ's) f` =  some (C02's `applyCellMaps f κ`)
      hence `strip_orphan_points` (stable argsort), `sort_points` (C02's sorter, `Glue.guardedSorter`)
      and `sort_cells` (`sorted(corners)` by merge sort = by insertion sort) of the C08 model are the
      C02 views;
  (b) `sort_cells` applied to its own result is the identity (hash separates the cells of a block);
  (c) the hypotheses of the point sort are invariant under the relabelling performed by the first
      sort (`Relabeled.pointHypP`), the tolerances too, and the index map of the SECOND point sort is
      the identity `range n`.

  Together: for `L = Glue.paramsOf as h strip` and a data set satisfying `SortHyp` the fully sorted
  view `g = sort_cells(_permute(f))` exists and `_permute g = g`, `sort_cells g = g`
  (`hidemP`, `hidemC` of `C19_rerun_idempotent_partial`, now derived).
-/
import FcProofs.Lemmas.GlueC19
import FcProofs.Lemmas.GlueC02
import FcProofs.Lemmas.ResidLadder
namespace Fc.Resid
open Fc Fc.C02 Fc.C02.Spec

/-! ### (a) the two models of one `PermutedMesh` layer agree -/

theorem map_range_getD_comp {α β : Type} (l : List α) (d : α) (F : α → β) :
    (List.range l.length).map (fun c => F (l.getD c d)) = l.map F := by
  have h : (List.range l.length).map (fun c => F (l.getD c d)) =
      ((List.range l.length).map (l.getD · d)).map F := by
    rw [List.map_map]; rfl
  rw [h, Fc.getD_map_range]

/-- a point layer: C08's `PermutedMesh(mesh, point_permutation=τ)` read out completely IS C02's
    `applyPointMap`, whenever `τ` is non-empty, injective, in range and covers every corner -/
theorem applyPermuted_pointMap {f : MeshFields} (hwf : WFP f) {τ : List Nat} (hc : Covers f τ) (hne : τ ≠ []) :
    applyPermuted (some τ) none f = some (applyPointMap f τ) ∧ WFP (applyPointMap f τ) := by
  have hyp : PermHyp f (some τ) none := by
    refine ⟨hwf, ?_, ?_⟩
    · intro perm e
      cases e
      refine ⟨hne, hc.nodup, hc.lt, ?_⟩
      intro p hp
      obtain ⟨b, hb, row, hrow, hpr⟩ := (Fc.connected_iff _ _).mp hp
      exact hc.corners b hb row hrow p hpr
    · intro cps e; cases e
  have hl : layerResult f (some τ) none = applyPointMap f τ := by
    unfold layerResult applyPointMap
    simp only [effPerm, effCpf, effG, tpE, tcE, MeshFields.mk.injEq, Mesh.mk.injEq, true_and]
    refine ⟨?_, ?_, ?_⟩
    · apply List.map_congr_left
      intro b _
      simp only [Prod.mk.injEq, true_and]
      exact map_range_getD_comp b.2 [] (fun row => row.map fun p => τ.idxOf p)
    · apply List.map_congr_left
      intro pf _
      rfl
    · conv_rhs => rw [← List.map_id f.cellFields]
      apply List.map_congr_left
      intro cf _
      rfl
  rw [← hl]
  exact ⟨applyPermuted_eq hyp, layerResult_WFP hyp⟩

theorem cellPermOf_map (κ : String → List Nat) (ct : String) :
    ∀ cells : List (String × List (List Nat)), ct ∈ cells.map (·.1) →
      cellPermOf (cells.map fun b => (b.1, κ b.1)) ct = some (κ ct)
  | [], h => by simp at h
  | b :: cells, h => by
    unfold cellPermOf
    simp only [List.map_cons, List.find?_cons]
    by_cases e : (b.1 == ct) = true
    · simp only [e, Option.map_some]
      rw [beq_iff_eq.mp e]
    · have e' : (b.1 == ct) = false := by simpa using e
      simp only [e']
      have hmem : ct ∈ cells.map (·.1) := by
        rcases List.mem_cons.mp h with h1 | h1
        · exact absurd (by rw [h1]; exact beq_self_eq_true _) e
        · exact h1
      exact cellPermOf_map κ ct cells hmem

/-- a cell layer: C08's `PermutedMesh(mesh, cell_permutations={ct: κ ct})` IS C02's `applyCellMaps` -/
theorem applyPermuted_cellMaps {f : MeshFields} (hwf : WFP f) {κ : String → List Nat}
    (hκ : ∀ b ∈ f.mesh.cells, (κ b.1).Perm (List.range b.2.length)) :
    applyPermuted none (some (f.mesh.cells.map fun b => (b.1, κ b.1))) f = some (applyCellMaps f κ) ∧
      WFP (applyCellMaps f κ) := by
  have hcp : ∀ ct ∈ f.mesh.cellTypes,
      cellPermOf (f.mesh.cells.map fun b => (b.1, κ b.1)) ct = some (κ ct) :=
    fun ct hct => cellPermOf_map κ ct f.mesh.cells hct
  have hyp : PermHyp f none (some (f.mesh.cells.map fun b => (b.1, κ b.1))) := by
    refine ⟨hwf, ?_, ?_⟩
    · intro perm e; cases e
    · intro cps e
      cases e
      intro b hb
      exact ⟨κ b.1, hcp b.1 (List.mem_map.mpr ⟨b, hb, rfl⟩), hκ b hb⟩
  have hl : layerResult f none (some (f.mesh.cells.map fun b => (b.1, κ b.1))) = applyCellMaps f κ := by
    unfold layerResult applyCellMaps
    simp only [effPerm, effCpf, effG, tpE, tcE, MeshFields.mk.injEq, Mesh.mk.injEq, true_and]
    refine ⟨⟨?_, ?_⟩, ?_, ?_⟩
    · exact Fc.getD_map_range f.mesh.points []
    · apply List.map_congr_left
      intro b hb
      rw [hcp b.1 (List.mem_map.mpr ⟨b, hb, rfl⟩)]
      simp only [Option.getD_some, List.map_id_fun, id_eq]
    · conv_rhs => rw [← List.map_id f.pointFields]
      apply List.map_congr_left
      intro pf _
      rfl
    · apply List.map_congr_left
      intro cf hcf
      rw [hcp cf.ctype (hwf.cfTypes cf hcf)]
      rfl
  rw [← hl]
  exact ⟨applyPermuted_eq hyp, layerResult_WFP hyp⟩

/-- `strip_orphan_points` with the stable argsort of the orphan mask (C08's model) IS C02's canonical
    stripped data set `baseOf f`; afterwards every point is connected -/
theorem strip_eq_baseOf {f : MeshFields} (hwf : WFP f) (hne : ∃ p, f.mesh.connected p = true) :
    stripOrphanPoints stableArgsortBool f = some (baseOf f) ∧ WFP (baseOf f) ∧
      ∀ j, j < (baseOf f).mesh.points.length → (baseOf f).mesh.connected j = true := by
  have hcov := (specStripMap_spec f).covers hwf
  have hnil : specStripMap f.mesh ≠ [] := by
    obtain ⟨p, hp⟩ := hne
    intro e
    have : p ∈ specStripMap f.mesh :=
      ((specStripMap_spec f).mem_iff p).mpr ⟨Fc.connected_lt hwf hp, hp⟩
    rw [e] at this
    cases this
  obtain ⟨e1, w1⟩ := applyPermuted_pointMap hwf hcov hnil
  have es : stripOrphanPoints stableArgsortBool f = some (baseOf f) := by
    unfold stripOrphanPoints
    rw [(C08_filter_map_stable f hwf).1]
    exact e1
  refine ⟨es, w1, ?_⟩
  obtain ⟨f', e', _, _, _, hall, _⟩ := C08_strip f hwf stableArgsortBool stableArgsortBool_isArgsort hne
  rw [es] at e'
  cases e'
  exact hall

/-- `sort_points` of the C08 model with C02's guarded sorter IS C02's `applyPointMap` with the index
    map of `_sorting_points_indices` -/
theorem sortPoints_guarded {as : List Int → List Nat} {f : MeshFields} (hwf : WFP f) {σ : List Nat}
    (hσ : sortPointsIdx as (meshTolOf f.mesh) f.mesh = some σ)
    (hperm : σ.Perm (List.range f.mesh.points.length)) (hne : f.mesh.points ≠ []) :
    Fc.sortPoints (Glue.guardedSorter as) f = some (applyPointMap f σ) ∧ WFP (applyPointMap f σ) := by
  have hσne : σ ≠ [] := by
    intro e
    rw [e] at hperm
    have := hperm.length_eq
    simp only [List.length_nil, List.length_range] at this
    exact hne (List.length_eq_zero_iff.mp this.symm)
  obtain ⟨e1, w1⟩ := applyPermuted_pointMap hwf (covers_of_perm hwf hperm) hσne
  refine ⟨?_, w1⟩
  unfold Fc.sortPoints Glue.guardedSorter
  rw [hσ]
  have hp : σ.isPerm (List.range f.mesh.numPoints) = true := List.isPerm_iff.mpr hperm
  simp only [hp, if_true]
  exact e1

/-- `tuple(sorted(corners))`: the merge sort of C08's model and the insertion sort of C02's model
    return the same list -/
theorem sortCellsKey_eq (row : List Nat) : sortCellsKey row = sortNat row := by
  unfold sortCellsKey
  rw [sortNat_eq]
  exact List.mergeSort_eq_insertionSort (r := (· ≤ ·)) row

/-- `sort_cells` of the C08 model IS C02's `sortCells` (same hash, same argsort) -/
theorem sortCells_bridge {as : List Int → List Nat} (has : IsArgsort as) (h : List Nat → Int) {f : MeshFields}
    (hwf : WFP f) :
    Fc.sortCells h as f = some (C02.sortCells as h f) ∧ WFP (C02.sortCells as h f) := by
  have hκ : ∀ b ∈ f.mesh.cells,
      ((fun ct => C02.cellSortMap as h (f.mesh.cellsOf ct)) b.1).Perm (List.range b.2.length) := by
    intro b hb
    show (C02.cellSortMap as h (f.mesh.cellsOf b.1)).Perm _
    rw [Fc.cellsOf_of_mem f.mesh hwf.types b hb]
    exact cellSortMap_perm has h b.2
  obtain ⟨e1, w1⟩ := applyPermuted_cellMaps hwf (κ := fun ct => C02.cellSortMap as h (f.mesh.cellsOf ct)) hκ
  refine ⟨?_, w1⟩
  unfold Fc.sortCells
  have hmaps : (f.mesh.cells.map fun b => (b.1, Fc.cellSortMap h as b.2)) =
      f.mesh.cells.map fun b => (b.1, (fun ct => C02.cellSortMap as h (f.mesh.cellsOf ct)) b.1) := by
    apply List.map_congr_left
    intro b hb
    simp only [Prod.mk.injEq, true_and]
    rw [Fc.cellsOf_of_mem f.mesh hwf.types b hb]
    unfold Fc.cellSortMap C02.cellSortMap
    congr 1
    apply List.map_congr_left
    intro r _
    rw [sortCellsKey_eq]
  rw [hmaps]
  exact e1

/-! ### (c) the second point sort of a sorted view -/

/-- `e` enters `sort_points`, `σ` is the index map, the cells are then re-ordered by any per-block
    permutations `κ`.  Under C02's hypotheses on `e` ALONE: `σ` is a permutation, the view
    `g = applyCellMaps (applyPointMap e σ) κ` has the tolerances of `e`, satisfies `PointHypP` with
    the same margins and candidates, and `_sorting_points_indices(g)` — with ANY argsort — is the
    identity index map. -/
theorem sortIdx_of_sorted_view {as1 as2 : List Int → List Nat} (h1 : IsArgsort as1) (h2 : IsArgsort as2)
    {e : MeshFields} (hwf : WFP e) (hn : e.mesh.points ≠ []) {A B M : Nat} {c : List (List Int)}
    (hy : PointHypP (meshTolOf e.mesh) A B M e.mesh c)
    (hdist : ∀ a ∈ pitems e.mesh, ∀ b ∈ pitems e.mesh,
      kvec (KC A e.mesh) e.mesh.dim 0 a = kvec (KC A e.mesh) e.mesh.dim 0 b →
      kvec (KM A c as1 (meshTolOf e.mesh) e.mesh) e.mesh.dim 0 a =
        kvec (KM A c as1 (meshTolOf e.mesh) e.mesh) e.mesh.dim 0 b → a = b)
    {κ : String → List Nat} (hκ : ∀ b ∈ e.mesh.cells, (κ b.1).Perm (List.range b.2.length)) :
    ∃ σ, sortPointsIdx as1 (meshTolOf e.mesh) e.mesh = some σ ∧ σ.Perm (List.range e.mesh.points.length) ∧
      meshTolOf (applyCellMaps (applyPointMap e σ) κ).mesh = meshTolOf e.mesh ∧
      PointHypP (meshTolOf e.mesh) A B M (applyCellMaps (applyPointMap e σ) κ).mesh c ∧
      sortPointsIdx as2 (meshTolOf (applyCellMaps (applyPointMap e σ) κ).mesh)
        (applyCellMaps (applyPointMap e σ) κ).mesh = some (List.range e.mesh.points.length) := by
  obtain ⟨L1, e1, p1, _⟩ := C02_sort_points_sorted h1 hy hn
  obtain ⟨_, hperm⟩ := Glue.items_perm_facts e.mesh L1 p1
  have hin : ∀ b ∈ e.mesh.cells, ∀ row ∈ b.2, ∀ p ∈ row, p < e.mesh.points.length := hwf.inRange
  have hrel : Relabeled e.mesh (applyCellMaps (applyPointMap e (L1.map (·.1))) κ).mesh (L1.map (·.1)) :=
    relabeled_of_view hin hperm hκ
  have htol : meshTolOf (applyCellMaps (applyPointMap e (L1.map (·.1))) κ).mesh = meshTolOf e.mesh := by
    have := meshTolOf_relabelF (f := e) (ρ := L1.map (·.1)) κ hperm
    unfold relabelF at this
    exact this
  have hy2 := hrel.pointHypP hy
  obtain ⟨L1', L2, e1', e2, hmap, _⟩ :=
    C02_canonical_points h1 h2 hy hy2 (fun _ => Iff.rfl) hrel hn hdist
  rw [e1] at e1'
  cases e1'
  have hσ1 : sortPointsIdx as1 (meshTolOf e.mesh) e.mesh = some (L1.map (·.1)) := by
    unfold sortPointsIdx
    rw [e1, Option.map_some]
  refine ⟨L1.map (·.1), hσ1, hperm, ?_, ?_, ?_⟩
  · exact htol
  · exact hy2
  rw [htol]
  unfold sortPointsIdx
  rw [e2, ← hmap]
  simp only [Option.map_some, List.map_map, Option.some.injEq]
  have hnd : (L1.map (·.1)).Nodup := hperm.nodup_iff.mpr List.nodup_range
  have := map_idxOf_self (L1.map (·.1)) hnd
  rw [List.map_map, hperm.length_eq, List.length_range] at this
  exact this

/-! ### the hypotheses on ONE data set, for the comparator parameters `Glue.paramsOf as h strip` -/

/-- what enters `sort_points`: the canonically stripped data set, or the data set itself when
    `disable_orphan_point_removal` is set -/
def entering (strip : Bool) (f : MeshFields) : MeshFields := if strip then baseOf f else f

theorem entering_true (f : MeshFields) : entering true f = baseOf f := rfl
theorem entering_false (f : MeshFields) : entering false f = f := rfl

/-- C02's hypotheses (`WellFormed ∧ Sep ∧ Distinguishable ∧` hash separates the cells) on ONE data
    set, in the form the comparator model `Glue.paramsOf as h strip` needs them: the tolerances are
    those of the mesh that enters `sort_points` (`Glue.guardedSorter` computes them from the view) -/
structure SortHyp (h : List Nat → Int) (strip : Bool) (f : MeshFields) (A B M : Nat) (c : List (List Int)) :
    Prop where
  wf : WFP f
  conn : ∃ p, f.mesh.connected p = true
  hy : PointHypP (meshTolOf (entering strip f).mesh) A B M (entering strip f).mesh c
  hdist : ∀ a ∈ pitems (entering strip f).mesh, ∀ b ∈ pitems (entering strip f).mesh,
    kvec (KC A (entering strip f).mesh) (entering strip f).mesh.dim 0 a =
      kvec (KC A (entering strip f).mesh) (entering strip f).mesh.dim 0 b →
    kvec (KM A c argsortStable (meshTolOf (entering strip f).mesh) (entering strip f).mesh)
        (entering strip f).mesh.dim 0 a =
      kvec (KM A c argsortStable (meshTolOf (entering strip f).mesh) (entering strip f).mesh)
        (entering strip f).mesh.dim 0 b → a = b
  hash : ∀ I, sortPointsIdx argsortStable (meshTolOf (entering strip f).mesh) (entering strip f).mesh = some I →
    ∀ b ∈ (applyPointMap (entering strip f) I).mesh.cells, (b.2.map fun r => h (sortNat r)).Nodup

/-- decidable form of `SortHyp` (with the margins `sepA`/`sepB` of the tolerances) -/
def sortHypB (h : List Nat → Int) (strip : Bool) (f : MeshFields) : Bool :=
  let e := entering strip f
  let t := meshTolOf e.mesh
  f.wf2 && (List.range f.mesh.numPoints).any f.mesh.connected && pointHyp t e.mesh &&
  match sortPointsIdx argsortStable t e.mesh with
  | some I => (applyPointMap e I).mesh.cells.all fun b => decide (b.2.map fun r => h (sortNat r)).Nodup
  | none => false

theorem sortHypB_sound {h : List Nat → Int} {strip : Bool} {f : MeshFields} (hb : sortHypB h strip f = true) :
    SortHyp h strip f (sepA (meshTolOf (entering strip f).mesh)) (sepB (meshTolOf (entering strip f).mesh))
      (pointData (sepA (meshTolOf (entering strip f).mesh)) (entering strip f).mesh).M
      (pointData (sepA (meshTolOf (entering strip f).mesh)) (entering strip f).mesh).cands := by
  unfold sortHypB at hb
  simp only [Bool.and_eq_true, List.any_eq_true, List.mem_range] at hb
  obtain ⟨⟨⟨hwf, ⟨p, _, hp⟩⟩, hpt⟩, hhash⟩ := hb
  obtain ⟨hy, hd⟩ := C02_hyp_sound hpt
  refine ⟨Fc.wf2_WFP f hwf, ⟨p, hp⟩, hy, hd, ?_⟩
  intro I hI b hbm
  rw [hI] at hhash
  simp only [List.all_eq_true, decide_eq_true_eq] at hhash
  exact hhash b hbm

/-- C02's `Spec.baseHyp` (tolerances of the STORED mesh) gives `SortHyp` for the default flags
    whenever stripping the orphan points does not change the mesh tolerances (e.g. no orphan points,
    or no orphan carries the largest coordinate) -/
theorem sortHyp_of_baseHyp {h : List Nat → Int} {f : MeshFields} {A B M : Nat} {c : List (List Int)}
    (bh : BaseHyp h f A B M c) (htol : meshTolOf (baseOf f).mesh = meshTolOf f.mesh) :
    SortHyp h true f A B M c := by
  have hconn : ∃ p, f.mesh.connected p = true := by
    cases hs : specStripMap f.mesh with
    | nil => exact absurd hs bh.conn
    | cons p t =>
      have : p ∈ specStripMap f.mesh := by rw [hs]; exact List.mem_cons_self ..
      exact ⟨p, (((specStripMap_spec f).mem_iff p).mp this).2⟩
  refine ⟨bh.wf, hconn, ?_, ?_, ?_⟩
  · rw [entering_true, htol]; exact bh.hy0
  · rw [entering_true, htol]; exact bh.hdist0
  · rw [entering_true, htol]
    intro I hI b hb
    have hIlt : ∀ j ∈ I, j < (specStripMap f.mesh).length := by
      obtain ⟨L, eL, pL, _⟩ := sortPointsItems_spec isArgsort_stable bh.hy0 (by
        intro e0
        have : ((specStripMap f.mesh).map fun i => f.mesh.points.getD i []) = [] := e0
        exact bh.conn (List.map_eq_nil_iff.mp this))
      unfold sortPointsIdx at hI
      rw [eL] at hI
      cases hI
      intro j hj
      obtain ⟨a, ha, rfl⟩ := List.mem_map.mp hj
      have := pitems_fst_lt (pL.mem_iff.mp ha)
      have hlen0 : (baseOf f).mesh.points.length = (specStripMap f.mesh).length := by
        show ((specStripMap f.mesh).map _).length = _
        rw [List.length_map]
      rwa [hlen0] at this
    have hcomp := applyPointMap_comp_mesh ((specStripMap_spec f).covers bh.wf) hIlt
    have hb' : b ∈ (pointSorted f I).mesh.cells := by
      show b ∈ (applyPointMap f (I.map ((specStripMap f.mesh).getD · 0))).mesh.cells
      rw [← hcomp]; exact hb
    exact bh.hash I hI b hb'

/-! ### the fully sorted view and its two fixed-point properties -/

section fix
variable {as : List Int → List Nat} {h : List Nat → Int} {strip : Bool} {f : MeshFields} {A B M : Nat}
  {c : List (List Int)}

/-- what enters `sort_points` in the C08 model is `entering strip f`; it is well-formed, not empty,
    and — if orphans are stripped — all of its points are connected -/
theorem SortHyp.entering_spec (sh : SortHyp h strip f A B M c) :
    (if strip then stripOrphanPoints stableArgsortBool f else some f) = some (entering strip f) ∧
    WFP (entering strip f) ∧ (entering strip f).mesh.points ≠ [] ∧
    (strip = true → ∀ j, j < (entering strip f).mesh.points.length → (entering strip f).mesh.connected j = true) := by
  cases strip with
  | true =>
    obtain ⟨es, w, hall⟩ := strip_eq_baseOf sh.wf sh.conn
    refine ⟨es, w, ?_, fun _ => hall⟩
    intro e0
    obtain ⟨p, hp⟩ := sh.conn
    have hmem : p ∈ specStripMap f.mesh :=
      ((specStripMap_spec f).mem_iff p).mpr ⟨Fc.connected_lt sh.wf hp, hp⟩
    have : ((specStripMap f.mesh).map fun i => f.mesh.points.getD i []) = [] := e0
    rw [List.map_eq_nil_iff.mp this] at hmem
    cases hmem
  | false =>
    refine ⟨rfl, sh.wf, ?_, fun e => by cases e⟩
    intro e0
    obtain ⟨p, hp⟩ := sh.conn
    have := Fc.connected_lt sh.wf hp
    show False
    have hz : (entering false f).mesh.points.length = 0 := by rw [e0]; rfl
    have : p < (entering false f).mesh.points.length := this
    omega

/-- the index map of the first point sort (any argsort) and the hypotheses on the cells of the
    point-sorted view -/
theorem SortHyp.sorted_spec (has : IsArgsort as) (sh : SortHyp h strip f A B M c) :
    ∃ σ, sortPointsIdx as (meshTolOf (entering strip f).mesh) (entering strip f).mesh = some σ ∧
      σ.Perm (List.range (entering strip f).mesh.points.length) ∧
      WFP (applyPointMap (entering strip f) σ) ∧ CellHypP h (applyPointMap (entering strip f) σ) := by
  obtain ⟨_, we, hne, _⟩ := sh.entering_spec
  obtain ⟨L1, e1, p1, _⟩ := C02_sort_points_sorted has sh.hy hne
  obtain ⟨_, hperm⟩ := Glue.items_perm_facts _ L1 p1
  have hσ : sortPointsIdx as (meshTolOf (entering strip f).mesh) (entering strip f).mesh = some (L1.map (·.1)) := by
    unfold sortPointsIdx
    rw [e1, Option.map_some]
  have hσ' : sortPointsIdx argsortStable (meshTolOf (entering strip f).mesh) (entering strip f).mesh =
      some (L1.map (·.1)) := by
    rw [C02_sort_points_tie_independent isArgsort_stable has sh.hy sh.hdist]; exact hσ
  obtain ⟨_, w1⟩ := sortPoints_guarded we hσ hperm hne
  refine ⟨_, hσ, hperm, w1, ⟨w1.types, w1.cf, sh.hash _ hσ'⟩⟩

/-- **the fully sorted view exists and is C02's sorted view** -/
theorem SortHyp.sortedView_eq (has : IsArgsort as) (sh : SortHyp h strip f A B M c) :
    ∃ σ, sortPointsIdx as (meshTolOf (entering strip f).mesh) (entering strip f).mesh = some σ ∧
      Glue.permuteFields (Glue.paramsOf as h strip) f = some (applyPointMap (entering strip f) σ) ∧
      Glue.sortedView (Glue.paramsOf as h strip) f =
        some (C02.sortCells as h (applyPointMap (entering strip f) σ)) := by
  obtain ⟨es, we, hne, _⟩ := sh.entering_spec
  obtain ⟨σ, hσ, hperm, w1, _⟩ := sh.sorted_spec has
  obtain ⟨e2, _⟩ := sortPoints_guarded we hσ hperm hne
  have hp : Glue.permuteFields (Glue.paramsOf as h strip) f = some (applyPointMap (entering strip f) σ) := by
    unfold Glue.permuteFields
    show (match (if strip then stripOrphanPoints stableArgsortBool f else some f) with
      | none => none
      | some f1 => Fc.sortPoints (Glue.guardedSorter as) f1) = _
    rw [es]
    exact e2
  refine ⟨σ, hσ, hp, ?_⟩
  unfold Glue.sortedView
  rw [hp]
  exact (sortCells_bridge has h w1).1

/-- **(b)+(c): the fully sorted view is a fixed point of `_permute` and of `sort_cells`** -/
theorem SortHyp.sortedView_fix (has : IsArgsort as) (sh : SortHyp h strip f A B M c) :
    ∃ g, Glue.sortedView (Glue.paramsOf as h strip) f = some g ∧
      Glue.permuteFields (Glue.paramsOf as h strip) g = some g ∧
      Fc.sortCells h as g = some g := by
  obtain ⟨_, we, hne, hall⟩ := sh.entering_spec
  obtain ⟨σ, hσ, hperm, w1, hcell⟩ := sh.sorted_spec has
  obtain ⟨σ', hσ', _, esv⟩ := sh.sortedView_eq has
  rw [hσ] at hσ'
  cases hσ'
  -- the cell maps of the first `sort_cells`
  set e := entering strip f with he
  set κ : String → List Nat := fun ct => C02.cellSortMap as h ((applyPointMap e σ).mesh.cellsOf ct) with hκdef
  have hg : C02.sortCells as h (applyPointMap e σ) = applyCellMaps (applyPointMap e σ) κ := rfl
  have hκ1 : ∀ ct, (κ ct).Perm (List.range ((applyPointMap e σ).mesh.cellsOf ct).length) :=
    fun ct => cellSortMap_perm has h _
  have hκe : ∀ b ∈ e.mesh.cells, (κ b.1).Perm (List.range b.2.length) := by
    intro b hb
    have := hκ1 b.1
    rwa [cellsOf_applyPointMap, Fc.cellsOf_of_mem e.mesh we.types b hb, List.length_map] at this
  obtain ⟨wg0, wg⟩ := sortCells_bridge has h w1
  rw [hg] at wg
  set g := applyCellMaps (applyPointMap e σ) κ with hgdef
  have hdist' := Glue.hdist_transfer isArgsort_stable has sh.hy sh.hdist
  obtain ⟨σ2, hσ2, _, htol, _, hidx⟩ := sortIdx_of_sorted_view has has we hne sh.hy hdist' hκe
  rw [hσ] at hσ2
  cases hσ2
  have hlen : g.mesh.points.length = e.mesh.points.length := by
    show (σ.map _).length = _
    rw [List.length_map, hperm.length_eq, List.length_range]
  have hgne : g.mesh.points ≠ [] := by
    intro e0
    rw [e0] at hlen
    exact hne (List.length_eq_zero_iff.mp hlen.symm)
  have hidx' : sortPointsIdx as (meshTolOf g.mesh) g.mesh = some (List.range g.mesh.points.length) := by
    rw [hlen]; exact hidx
  obtain ⟨esp, _⟩ := sortPoints_guarded wg hidx' (List.Perm.refl _) hgne
  rw [applyPointMap_id wg] at esp
  refine ⟨g, by rw [esv, hg], ?_, ?_⟩
  · -- `_permute g = g`
    unfold Glue.permuteFields
    show (match (if strip then stripOrphanPoints stableArgsortBool g else some g) with
      | none => none
      | some f1 => Fc.sortPoints (Glue.guardedSorter as) f1) = _
    cases hs : strip with
    | false => exact esp
    | true =>
      have hallg : ∀ j, j < g.mesh.points.length → g.mesh.connected j = true := by
        intro j hj
        have hnd : σ.Nodup := hperm.nodup_iff.mpr List.nodup_range
        have hjσ : j < σ.length := by rw [hperm.length_eq, List.length_range, ← hlen]; exact hj
        have hplt : σ.getD j 0 < e.mesh.points.length :=
          List.mem_range.mp (hperm.mem_iff.mp (getD_mem hjσ 0))
        exact (connected_relabelF (f := e) (ρ := σ) hκe j).mpr
          ⟨σ.getD j 0, hall hs _ hplt, (idxOf_getD hnd hjσ 0).symm⟩
      have hconn : ∃ p, g.mesh.connected p = true :=
        ⟨0, hallg 0 (List.length_pos_iff.mpr hgne)⟩
      obtain ⟨es2, _, _⟩ := strip_eq_baseOf wg hconn
      have hstrip : specStripMap g.mesh = List.range g.mesh.points.length := by
        unfold specStripMap Mesh.numPoints
        apply List.filter_eq_self.mpr
        intro j hj
        exact hallg j (List.mem_range.mp hj)
      have hbase : baseOf g = g := by
        show applyPointMap g (specStripMap g.mesh) = g
        rw [hstrip, applyPointMap_id wg]
      simp only [if_true]
      rw [es2, hbase]
      exact esp
  · -- `sort_cells g = g`
    rw [(sortCells_bridge has h wg).1]
    congr 1
    exact sortCells_view has has h hcell hκ1

end fix

/-! ### the comparator object over the concrete transformations -/

/-- a view held by the comparator is good when its data set — if it exists — satisfies `SortHyp` -/
def GoodView (h : List Nat → Int) (strip : Bool) (x : Glue.CView) : Prop :=
  ∀ f, x.2 = some f → ∃ A B M c, SortHyp h strip f A B M c

theorem goodView_viewOf {h : List Nat → Int} {strip : Bool} {f : MeshFields} {A B M : Nat} {c : List (List Int)}
    (sh : SortHyp h strip f A B M c) : GoodView h strip (Glue.viewOf f) := by
  intro g hg
  cases hg
  exact ⟨A, B, M, c, sh⟩

/-- `FixAt` (ResidLadder) for a good view: the data-level facts `hidemP`, `hidemC`, derived -/
theorem fixAt_of_good {as : List Int → List Nat} (has : IsArgsort as) {h : List Nat → Int} {strip : Bool}
    (cmp : MeshFields → MeshFields → Bool × Bool) {x : Glue.CView} (hx : GoodView h strip x) :
    FixAt (Glue.cmpOps (Glue.paramsOf as h strip) cmp) x := by
  have hview : (Glue.cmpOps (Glue.paramsOf as h strip) cmp).sortc ((Glue.cmpOps (Glue.paramsOf as h strip) cmp).perm x) =
      (x.1, x.2.bind (Glue.sortedView (Glue.paramsOf as h strip))) := by
    show (x.1, (x.2.bind (Glue.permuteFields _)).bind _) = _
    cases x.2 <;> rfl
  unfold FixAt
  rw [hview]
  cases hx2 : x.2 with
  | none => exact ⟨rfl, rfl⟩
  | some f =>
    obtain ⟨A, B, M, c, sh⟩ := hx f hx2
    obtain ⟨g, eg, hP, hC⟩ := sh.sortedView_fix has
    constructor
    · show (x.1, ((some f).bind (Glue.sortedView _)).bind (Glue.permuteFields _)) = _
      simp only [Option.bind_some, eg, hP]
    · show (x.1, ((some f).bind (Glue.sortedView _)).bind (Fc.sortCells h as)) = _
      simp only [Option.bind_some, eg, hC]

theorem dimFacts_cmpOps (L : Glue.LadderParams) (cmp : MeshFields → MeshFields → Bool × Bool) :
    DimFacts (Glue.cmpOps L cmp) :=
  ⟨fun _ _ => rfl, fun _ => rfl, fun _ => rfl⟩

end Fc.Resid
