/-
  FcProofs.Lemmas.Laws — algebraic laws of the scalar formula and of tolerance resolution
  (reflexive, symmetric, monotone), used by the C10 property theorems.
-/
import FcProofs.Lemmas.Fuzzy
namespace Fc
open Spec

theorem leInf_zero (y : Option Nat) : leInf (some 0) y = true := by
  cases y <;> simp [leInf]

/-- reflexivity of the scalar formula: any tolerances, any format -/
theorem docFormula_refl (F : Fmt) (a : Int) (rel abs : Nat) : docFormula F a a rel abs = true := by
  unfold docFormula
  have : (a - a).natAbs = 0 := by omega
  rw [this, rndMag_zero]
  exact leInf_zero _

/-- symmetry of the scalar formula -/
theorem docFormula_symm (F : Fmt) (a b : Int) (rel abs : Nat) :
    docFormula F a b rel abs = docFormula F b a rel abs := by
  unfold docFormula
  have h1 : (b - a).natAbs = (a - b).natAbs := by omega
  rw [h1, Nat.max_comm]

/-- monotonicity of the scalar formula in both tolerances (R1) -/
theorem docFormula_mono (F : Fmt) (a b : Int) {r1 r2 t1 t2 : Nat} (hr : r1 ≤ r2) (ht : t1 ≤ t2)
    (h : docFormula F a b r1 t1 = true) : docFormula F a b r2 t2 = true := by
  unfold docFormula at *
  refine leInf_trans h (maxInf_mono ?_ ?_)
  · exact rndMag_mono F UNIT (Nat.mul_le_mul_left _ hr)
  · simp [leInf, ht]

theorem prodList_foldl (l : List Nat) (x : Nat) : l.foldl (· * ·) x = x * l.foldl (· * ·) 1 := by
  induction l generalizing x with
  | nil => simp
  | cons y ys ih =>
    simp only [List.foldl_cons]
    rw [ih (x * y), ih (1 * y)]
    simp [Nat.mul_assoc]

theorem prodList_append_one (s : List Nat) : prodList (s ++ [1]) = prodList s := by
  unfold prodList
  rw [List.foldl_append]
  simp

theorem prodList_compatible {s1 s2 : List Nat} (h : shapesCompatible s1 s2 = true) :
    prodList s1 = prodList s2 := by
  rw [shapesCompatible_iff] at h
  rcases h with h | h | h
  · rw [h]
  · rw [h, prodList_append_one]
  · rw [h, prodList_append_one]

theorem shapesCompatible_symm (s1 s2 : List Nat) : shapesCompatible s1 s2 = shapesCompatible s2 s1 := by
  have h : ∀ x y, shapesCompatible x y = true → shapesCompatible y x = true := by
    intro x y hxy
    rw [shapesCompatible_iff] at *
    rcases hxy with h | h | h
    · exact Or.inl h.symm
    · exact Or.inr (Or.inr h)
    · exact Or.inr (Or.inl h)
  cases h1 : shapesCompatible s1 s2 <;> cases h2 : shapesCompatible s2 s1 <;> try rfl
  · have := h _ _ h2; rw [h1] at this; exact this
  · have := h _ _ h1; rw [h2] at this; exact this.symm

/-- the common (longer) shape chosen by the spec does not depend on the argument order -/
theorem longer_symm {s1 s2 : List Nat} (h : shapesCompatible s1 s2 = true) :
    (if s1.length ≥ s2.length then s1 else s2) = (if s2.length ≥ s1.length then s2 else s1) := by
  rw [shapesCompatible_iff] at h
  rcases h with h | h | h
  · subst h; simp
  · subst h; simp
  · subst h
    have h1 : ¬ (s1.length ≥ (s1 ++ [1]).length) := by simp
    have h2 : (s1 ++ [1]).length ≥ s1.length := by simp
    rw [if_neg h1, if_pos h2]

theorem zipWith_max_comm (l1 l2 : List Nat) : List.zipWith max l1 l2 = List.zipWith max l2 l1 := by
  induction l1 generalizing l2 with
  | nil => cases l2 <;> simp
  | cons x xs ih =>
    cases l2 with
    | nil => simp
    | cons y ys => simp [ih, Nat.max_comm]

/-- tolerance resolution is a symmetric function of the two operands (which share their shape) -/
theorem specTol_symm (F : Fmt) (t : Tol) (a b : NdArr) (hs : a.shape = b.shape) :
    specTol F t a b = specTol F t b a := by
  have hrs : a.rowSize = b.rowSize := by unfold NdArr.rowSize; rw [hs]
  cases t with
  | num u => rfl
  | arr s us => simp [specTol, hs, hrs]
  | dflt => rfl
  | scaled base =>
    unfold specTol
    have e1 : (a.data.isEmpty = true ∨ b.data.isEmpty = true) ↔ (b.data.isEmpty = true ∨ a.data.isEmpty = true) := Or.comm
    simp only [e1, Nat.max_comm (maxAbsUnits a) (maxAbsUnits b)]
  | scaledComp base =>
    unfold specTol
    have e1 : (a.data.isEmpty = true ∨ b.data.isEmpty = true) ↔ (b.data.isEmpty = true ∨ a.data.isEmpty = true) := Or.comm
    simp only [e1, zipWith_max_comm (maxAbsComp a) (maxAbsComp b), hrs]

end Fc
