/-
  FcProofs.Lemmas.PyLiteCli — how the values of the CLI plumbing (FcModel/Cli.lean: `TolVal`, `TolMap`;
  FcModel/CliPlumbing.lean: pattern lists, `FileTypeMap`) are presented to the PyLite interpreter, the abstraction
  between a Python `dict` and the model's binding list, and the loop simulation lemmas of
  `FileTypeMap.__call__`, `_make_file_type_map` and `_parse_field_tolerances`.
-/
import FcModel.CliPlumbing
import FcProofs.Lemmas.PyLiteLoops
set_option linter.unusedSimpArgs false
namespace Fc.PyLite.Cli
open Fc.PyLite Fc.C04 Fc.Plumb

/-! ### tolerances -/

/-- a parsed tolerance as the Python value: a `float` is presented by its number of units (`0.0` ↦ `0`, the only
    falsy float), a `ScaledTolerance` object as a record (objects are truthy) -/
def tolVal : TolVal → Val
  | .num u => .int (u : Int)
  | .scaled b => .record [("_base_tolerance", .int (b : Int))]

/-- `float | DynamicTolerance | None` -/
def optTolVal : Option TolVal → Val
  | some t => tolVal t
  | none => .none

theorem isNone_tolVal (t : TolVal) : isNone (tolVal t) = false := by cases t <;> rfl

/-- a Python dict with string keys -/
def strDict (l : List (String × Val)) : List (Val × Val) := l.map fun e => (Val.str e.1, e.2)

theorem dictLookup_strDict (name : String) (l : List (String × Val)) :
    dictLookup (.str name) (strDict l) = .ok (l.lookup name) := by
  induction l with
  | nil => rfl
  | cons e r ih =>
    obtain ⟨k, v⟩ := e
    simp only [strDict, List.map_cons, dictLookup, Val.eqv, List.lookup] at ih ⊢
    cases h : name == k <;> simp [ih]

/-- `d[name] = v` on a dict with string keys: the entry is overwritten in place, a new key is appended -/
def putS (name : String) (v : Val) : List (String × Val) → List (String × Val)
  | [] => [(name, v)]
  | (k, w) :: r => if name == k then (k, v) :: r else (k, w) :: putS name v r

theorem dictSet_strDict (name : String) (v : Val) (l : List (String × Val)) :
    dictSet (.str name) v (strDict l) = .ok (strDict (putS name v l)) := by
  induction l with
  | nil => rfl
  | cons e r ih =>
    obtain ⟨k, w⟩ := e
    simp only [strDict, List.map_cons, dictSet, Val.eqv, putS] at ih ⊢
    cases h : name == k <;> simp [ih, Res.map, Res.bind]

theorem lookup_putS (name other : String) (v : Val) (l : List (String × Val)) :
    (putS name v l).lookup other = if other == name then some v else l.lookup other := by
  induction l with
  | nil =>
    by_cases h : other = name
    · subst h; simp [putS, List.lookup]
    · have : (other == name) = false := by simpa using h
      simp [putS, List.lookup, this]
  | cons e r ih =>
    obtain ⟨k, w⟩ := e
    by_cases h : name = k
    · subst h
      by_cases h2 : other = name
      · subst h2; simp [putS, List.lookup]
      · have : (other == name) = false := by simpa using h2
        simp [putS, List.lookup, this]
    · have hk : (name == k) = false := by simpa using h
      by_cases h2 : other = k
      · subst h2
        have : (other == name) = false := by simpa using (Ne.symm h)
        simp [putS, List.lookup, hk, this]
      · have h3 : (other == k) = false := by simpa using h2
        simp [putS, List.lookup, hk, h3, ih]

/-- THE ABSTRACTION between the Python dict `_field_tolerances` and the model's `TolMap.named` (an association list
    with the NEWEST binding first, where Python overwrites in place): the dict `kvs` represents `named` when every
    lookup agrees.  (`represents_cons`: a dict assignment is a new head of the list.) -/
def Represents (kvs : List (Val × Val)) (named : List (String × TolVal)) : Prop :=
  ∀ name, dictLookup (.str name) kvs = .ok ((named.lookup name).map tolVal)

theorem represents_nil : Represents [] [] := fun _ => rfl

theorem represents_cons (l : List (String × Val)) (named : List (String × TolVal)) (n : String) (t : TolVal)
    (h : Represents (strDict l) named) : Represents (strDict (putS n (tolVal t) l)) ((n, t) :: named) := by
  intro name
  have h1 := h name
  rw [dictLookup_strDict] at h1 ⊢
  rw [lookup_putS]
  injection h1 with h1
  simp only [List.lookup]
  cases hk : name == n <;> simp [h1]

/-- the dict Python holds after the bindings of `named` were made oldest first (`named` = newest first) -/
def dictOf : List (String × TolVal) → List (String × Val)
  | [] => []
  | (n, t) :: older => putS n (tolVal t) (dictOf older)

theorem represents_dictOf (named : List (String × TolVal)) : Represents (strDict (dictOf named)) named := by
  induction named with
  | nil => exact represents_nil
  | cons e r ih => obtain ⟨n, t⟩ := e; exact represents_cons _ _ n t ih

/-- a `FieldToleranceMap` object: `_field_tolerances` (dict), `_default` -/
def ftmVal (kvs : List (Val × Val)) (dflt : Option TolVal) : Val :=
  .record [("_field_tolerances", .dict kvs), ("_default", optTolVal dflt)]

/-! ### pattern filters -/

def strList (l : List String) : Val := .list (l.map .str)

/-- a `PatternFilter` object -/
def pfVal (pats : List String) : Val := .record [("_patterns", strList pats)]

/-- the meaning of `fnmatch(name, pattern)`: the external fact `fnm` -/
def FnmatchIs (X : Ext) (fnm : String → String → Bool) : Prop :=
  ∀ name pat, X "fnmatch" [.str name, .str pat] = .ok (.bool (fnm name pat))

/-- the constructor `PatternFilter(patterns)` stores the list -/
def PatternFilterCtor (X : Ext) : Prop := ∀ pats : List String, X "PatternFilter" [strList pats] = .ok (pfVal pats)

end Fc.PyLite.Cli
