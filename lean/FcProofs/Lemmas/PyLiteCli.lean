/-
  FcProofs.Lemmas.PyLiteCli — how the values of the CLI plumbing (FcModel/Cli.lean: `TolVal`, `TolMap`;
  FcModel/CliPlumbing.lean: pattern lists, `FileTypeMap`) are presented to the PyLite interpreter, the abstraction
  between a Python `dict` and the model's binding list, and the loop simulation lemmas of
  `FileTypeMap.__call__`, `_make_file_type_map` and `_parse_field_tolerances`.
-/
import FcModel.CliPlumbing
import FcProofs.Lemmas.PyLiteLoops
set_option linter.unusedSimpArgs false
namespace Fc.PyLite.Cli
open Fc.PyLite Fc.C04 Fc.Plumb

/-! ### tolerances -/

/-- a parsed tolerance as the Python value: a `float` is presented by its number of units (`0.0` ↦ `0`, the only
    falsy float), a `ScaledTolerance` object as a record (objects are truthy) -/
def tolVal : TolVal → Val
  | .num u => .int (u : Int)
  | .scaled b => .record [("_base_tolerance", .int (b : Int))]

/-- `float | DynamicTolerance | None` -/
def optTolVal : Option TolVal → Val
  | some t => tolVal t
  | none => .none

theorem isNone_tolVal (t : TolVal) : isNone (tolVal t) = false := by cases t <;> rfl

/-- a Python dict with string keys -/
def strDict (l : List (String × Val)) : List (Val × Val) := l.map fun e => (Val.str e.1, e.2)

theorem dictLookup_strDict (name : String) (l : List (String × Val)) :
    dictLookup (.str name) (strDict l) = .ok (l.lookup name) := by
  induction l with
  | nil => rfl
  | cons e r ih =>
    obtain ⟨k, v⟩ := e
    simp only [strDict, List.map_cons, dictLookup, Val.eqv, List.lookup] at ih ⊢
    cases h : name == k <;> simp [ih]

/-- `d[name] = v` on a dict with string keys: the entry is overwritten in place, a new key is appended -/
def putS (name : String) (v : Val) : List (String × Val) → List (String × Val)
  | [] => [(name, v)]
  | (k, w) :: r => if name == k then (k, v) :: r else (k, w) :: putS name v r

theorem dictSet_strDict (name : String) (v : Val) (l : List (String × Val)) :
    dictSet (.str name) v (strDict l) = .ok (strDict (putS name v l)) := by
  induction l with
  | nil => rfl
  | cons e r ih =>
    obtain ⟨k, w⟩ := e
    simp only [strDict, List.map_cons, dictSet, Val.eqv, putS] at ih ⊢
    cases h : name == k <;> simp [ih, Res.map, Res.bind]

theorem lookup_putS (name other : String) (v : Val) (l : List (String × Val)) :
    (putS name v l).lookup other = if other == name then some v else l.lookup other := by
  induction l with
  | nil =>
    by_cases h : other = name
    · subst h; simp [putS, List.lookup]
    · have : (other == name) = false := by simpa using h
      simp [putS, List.lookup, this]
  | cons e r ih =>
    obtain ⟨k, w⟩ := e
    by_cases h : name = k
    · subst h
      by_cases h2 : other = name
      · subst h2; simp [putS, List.lookup]
      · have : (other == name) = false := by simpa using h2
        simp [putS, List.lookup, this]
    · have hk : (name == k) = false := by simpa using h
      by_cases h2 : other = k
      · subst h2
        have : (other == name) = false := by simpa using (Ne.symm h)
        simp [putS, List.lookup, hk, this]
      · have h3 : (other == k) = false := by simpa using h2
        simp [putS, List.lookup, hk, h3, ih]

/-- THE ABSTRACTION between the Python dict `_field_tolerances` and the model's `TolMap.named` (an association list
    with the NEWEST binding first, where Python overwrites in place): the dict `kvs` represents `named` when every
    lookup agrees.  (`represents_cons`: a dict assignment is a new head of the list.) -/
def Represents (kvs : List (Val × Val)) (named : List (String × TolVal)) : Prop :=
  ∀ name, dictLookup (.str name) kvs = .ok ((named.lookup name).map tolVal)

theorem represents_nil : Represents [] [] := fun _ => rfl

theorem represents_cons (l : List (String × Val)) (named : List (String × TolVal)) (n : String) (t : TolVal)
    (h : Represents (strDict l) named) : Represents (strDict (putS n (tolVal t) l)) ((n, t) :: named) := by
  intro name
  have h1 := h name
  rw [dictLookup_strDict] at h1 ⊢
  rw [lookup_putS]
  injection h1 with h1
  simp only [List.lookup]
  cases hk : name == n <;> simp [h1]

/-- the dict Python holds after the bindings of `named` were made oldest first (`named` = newest first) -/
def dictOf : List (String × TolVal) → List (String × Val)
  | [] => []
  | (n, t) :: older => putS n (tolVal t) (dictOf older)

theorem represents_dictOf (named : List (String × TolVal)) : Represents (strDict (dictOf named)) named := by
  induction named with
  | nil => exact represents_nil
  | cons e r ih => obtain ⟨n, t⟩ := e; exact represents_cons _ _ n t ih

/-- a `FieldToleranceMap` object: `_field_tolerances` (dict), `_default` -/
def ftmVal (kvs : List (Val × Val)) (dflt : Option TolVal) : Val :=
  .record [("_field_tolerances", .dict kvs), ("_default", optTolVal dflt)]

/-! ### pattern filters -/

def strList (l : List String) : Val := .list (l.map .str)

/-- a `PatternFilter` object -/
def pfVal (pats : List String) : Val := .record [("_patterns", strList pats)]

/-- the meaning of `fnmatch(name, pattern)`: the external fact `fnm` -/
def FnmatchIs (X : Ext) (fnm : String → String → Bool) : Prop :=
  ∀ name pat, X "fnmatch" [.str name, .str pat] = .ok (.bool (fnm name pat))

/-- the constructor `PatternFilter(patterns)` stores the list -/
def PatternFilterCtor (X : Ext) : Prop :=
  ∀ pats : List String, X "PatternFilter(patterns=)" [strList pats] = .ok (pfVal pats)

/-! ### generic loops: search ending the function with an arbitrary result; fold with early exit by an exception -/

/-- a searching loop whose body ends the function, on the first element with `p a`, with whatever `res a` is (a
    returned value, an exception, stuck) and otherwise goes on -/
theorem forLoop_findRes {α : Type} (emb : α → Val) (p : α → Bool) (res : α → Res Val) (Inv : St → Prop)
    (f : Val → St → Flow) (l : List α)
    (hstep : ∀ a ∈ l, ∀ st, Inv st →
      (p a = true → match res a with
        | .ok v => ∃ st', f (emb a) st = .ret v st'
        | .raise e => f (emb a) st = .raise e
        | .stuck => f (emb a) st = .stuck) ∧
      (p a = false → ∃ st', f (emb a) st = .next st' ∧ Inv st')) :
    ∀ (st : St), Inv st →
      match l.find? p with
      | some a => (match res a with
        | .ok v => ∃ st', forLoop f (l.map emb) st = .ret v st'
        | .raise e => forLoop f (l.map emb) st = .raise e
        | .stuck => forLoop f (l.map emb) st = .stuck)
      | none => ∃ st', forLoop f (l.map emb) st = .next st' ∧ Inv st' := by
  induction l with
  | nil => intro st h; exact ⟨st, rfl, h⟩
  | cons a r ih =>
    intro st h
    cases hp : p a with
    | true =>
      have h1 := (hstep a (List.mem_cons_self ..) st h).1 hp
      simp only [List.find?_cons, hp, List.map_cons, forLoop]
      cases hr : res a with
      | ok v => rw [hr] at h1; obtain ⟨st1, h1⟩ := h1; exact ⟨st1, by rw [h1]⟩
      | «raise» e => rw [hr] at h1; simp only [h1]
      | stuck => rw [hr] at h1; simp only [h1]
    | false =>
      obtain ⟨st1, h1, hi1⟩ := (hstep a (List.mem_cons_self ..) st h).2 hp
      have := ih (fun b hb => hstep b (List.mem_cons_of_mem _ hb)) st1 hi1
      simp only [List.find?_cons, hp, List.map_cons, forLoop, h1]
      exact this

/-- `forLoop_findRes` in the form used by the theorems: `r` is whatever the loop evaluates to -/
theorem forLoop_findRes_eq {α : Type} (emb : α → Val) (p : α → Bool) (res : α → Res Val) (Inv : St → Prop)
    {f : Val → St → Flow} {l : List α} {st : St} {r : Flow} (hr : forLoop f (l.map emb) st = r) (hinv : Inv st)
    (hstep : ∀ a ∈ l, ∀ st, Inv st →
      (p a = true → match res a with
        | .ok v => ∃ st', f (emb a) st = .ret v st'
        | .raise e => f (emb a) st = .raise e
        | .stuck => f (emb a) st = .stuck) ∧
      (p a = false → ∃ st', f (emb a) st = .next st' ∧ Inv st')) :
    match l.find? p with
    | some a => (match res a with
      | .ok v => ∃ st', r = .ret v st'
      | .raise e => r = .raise e
      | .stuck => r = .stuck)
    | none => ∃ st', r = .next st' ∧ Inv st' := by
  have := forLoop_findRes emb p res Inv f l hstep st hinv
  rw [hr] at this
  exact this

/-- left fold that stops at the first `none` -/
def foldOpt {α β : Type} (step : β → α → Option β) : List α → β → Option β
  | [], b => some b
  | a :: r, b =>
    match step b a with
    | some b' => foldOpt step r b'
    | none => none

/-- an accumulating loop whose body may raise `exc` (exactly when the model's step is `none`) -/
theorem forLoop_foldOpt {α β : Type} (emb : α → Val) (step : β → α → Option β) (exc : String) (Inv : β → St → Prop)
    (f : Val → St → Flow)
    (hstep : ∀ a b st, Inv b st →
      match step b a with
      | some b' => ∃ st', f (emb a) st = .next st' ∧ Inv b' st'
      | none => f (emb a) st = .raise exc) :
    ∀ (l : List α) (b : β) (st : St), Inv b st →
      match foldOpt step l b with
      | some b' => ∃ st', forLoop f (l.map emb) st = .next st' ∧ Inv b' st'
      | none => forLoop f (l.map emb) st = .raise exc := by
  intro l
  induction l with
  | nil => intro b st h; exact ⟨st, rfl, h⟩
  | cons a r ih =>
    intro b st h
    have h1 := hstep a b st h
    simp only [foldOpt, List.map_cons, forLoop]
    cases hs : step b a with
    | none => rw [hs] at h1; simp only [h1]
    | some b' =>
      rw [hs] at h1
      obtain ⟨st1, h1, hi1⟩ := h1
      simp only [h1]
      exact ih b' st1 hi1

/-- `forLoop_foldOpt` in the form used by the theorems -/
theorem forLoop_foldOpt_eq {α β : Type} (emb : α → Val) (step : β → α → Option β) (exc : String) (Inv : β → St → Prop)
    {f : Val → St → Flow} {l : List α} {st : St} {r : Flow} (hr : forLoop f (l.map emb) st = r) (b : β)
    (hinv : Inv b st)
    (hstep : ∀ a b st, Inv b st →
      match step b a with
      | some b' => ∃ st', f (emb a) st = .next st' ∧ Inv b' st'
      | none => f (emb a) st = .raise exc) :
    match foldOpt step l b with
    | some b' => ∃ st', r = .next st' ∧ Inv b' st'
    | none => r = .raise exc := by
  have := forLoop_foldOpt emb step exc Inv f hstep l b st hinv
  rw [hr] at this
  exact this

/-! ### `--read-as`: `FileTypeMap` -/

/-- one entry `(file_type_with_opts, PatternFilter(patterns))` of `FileTypeMap._mapping` -/
def entryVal (e : String × List String) : Val := .list [.str e.1, pfVal e.2]

/-- a `FileTypeMap` object -/
def ftMapVal (m : Plumb.FileTypeMap) : Val := .record [("_mapping", .list (m.map entryVal))]

/-- `list[str] | None` -/
def optStrList : Option (List String) → Val
  | some l => strList l
  | none => .none

theorem groupLoop_eq_foldOpt (split : String → Option (String × String)) (l : List String) (acc : Plumb.FileTypeMap) :
    groupLoop split l acc = foldOpt (fun acc a => (split a).map fun rp => addPattern acc rp.1 rp.2) l acc := by
  induction l generalizing acc with
  | nil => rfl
  | cons a r ih =>
    simp only [groupLoop, foldOpt]
    cases split a with
    | none => rfl
    | some rp => obtain ⟨x, y⟩ := rp; simp [ih]

/-- `r in keys` -/
theorem memOf_keys (r : String) (acc : Plumb.FileTypeMap) :
    memOf (.str r) (acc.map fun e => Val.str e.1) = .ok (acc.any fun e => e.1 == r) := by
  induction acc with
  | nil => rfl
  | cons e t ih =>
    obtain ⟨k, ps⟩ := e
    simp only [List.map_cons, memOf, Val.eqv, ih, List.any_cons]
    by_cases h : r = k
    · subst h; simp
    · have h1 : (r == k) = false := by simpa using h
      have h2 : (k == r) = false := by simpa using (Ne.symm h)
      simp [h1, h2]

/-- `any(_t == r for _t in keys)` -/
theorem anyM_keys (r : String) (acc : Plumb.FileTypeMap) (f : Val → Res Bool)
    (hf : ∀ k : String, f (.str k) = .ok (k == r)) :
    anyM f (acc.map fun e => Val.str e.1) = .ok (acc.any fun e => e.1 == r) := by
  have := anyM_map_ok f (fun e : String × List String => Val.str e.1) (fun e => e.1 == r) (fun e => hf e.1) acc
  exact this

theorem addPattern_new (acc : Plumb.FileTypeMap) (r p : String) (h : (acc.any fun e => e.1 == r) = false) :
    addPattern acc r p = acc ++ [(r, [p])] := by
  induction acc with
  | nil => rfl
  | cons e t ih =>
    obtain ⟨k, ps⟩ := e
    simp only [List.any_cons, Bool.or_eq_false_iff] at h
    have hk : ¬ k = r := by simpa using h.1
    simp [addPattern, hk, ih h.2]

/-- the `else` branch of the loop body of `_make_file_type_map`: `keys.index(r)` finds the entry, and storing its
    pattern list with `p` appended is the model's `addPattern` -/
theorem addPattern_sim (acc : Plumb.FileTypeMap) (r p : String) (h : (acc.any fun e => e.1 == r) = true) :
    ∃ (i : Nat) (ps : List String),
      indexFirst (.str r) (acc.map fun e => Val.str e.1) = .ok (some i) ∧ i < acc.length ∧
      (acc.map fun e => strList e.2)[i]? = some (strList ps) ∧
      (acc.map fun e => strList e.2).set i (strList (ps ++ [p])) = (addPattern acc r p).map (fun e => strList e.2) ∧
      (addPattern acc r p).map (·.1) = acc.map (·.1) := by
  induction acc with
  | nil => simp at h
  | cons e t ih =>
    obtain ⟨k, ps⟩ := e
    by_cases hk : k = r
    · subst hk
      exact ⟨0, ps, by simp [indexFirst, Val.eqv], by simp, by simp, by simp [addPattern], by simp [addPattern]⟩
    · have hk' : (k == r) = false := by simpa using hk
      simp only [List.any_cons, hk', Bool.false_or] at h
      obtain ⟨i, qs, h1, h2, h3, h4, h5⟩ := ih h
      refine ⟨i + 1, qs, ?_, by simp; omega, by simpa using h3, ?_, ?_⟩
      · simp [indexFirst, Val.eqv, hk', h1, Res.map, Res.bind]
      · simp [addPattern, hk, h4]
      · simp [addPattern, hk, h5]

/-! ### the model of `_make_file_type_map`: nothing is lost, nothing is invented -/

/-- pattern `p` is in the list of reader `r` -/
def Has (m : Plumb.FileTypeMap) (r p : String) : Prop := ∃ ps, (r, ps) ∈ m ∧ p ∈ ps

theorem has_addPattern_self (acc : Plumb.FileTypeMap) (r p : String) : Has (addPattern acc r p) r p := by
  induction acc with
  | nil => exact ⟨[p], by simp [addPattern], by simp⟩
  | cons e t ih =>
    obtain ⟨k, ps⟩ := e
    by_cases hk : k = r
    · subst hk; exact ⟨ps ++ [p], by simp [addPattern], by simp⟩
    · obtain ⟨qs, h1, h2⟩ := ih
      exact ⟨qs, by simp [addPattern, hk, h1], h2⟩

theorem has_addPattern_mono (acc : Plumb.FileTypeMap) (r p r' p' : String) (h : Has acc r' p') :
    Has (addPattern acc r p) r' p' := by
  induction acc with
  | nil => obtain ⟨ps, h1, _⟩ := h; simp at h1
  | cons e t ih =>
    obtain ⟨k, ps⟩ := e
    obtain ⟨qs, h1, h2⟩ := h
    by_cases hk : k = r
    · subst hk
      simp only [List.mem_cons, Prod.mk.injEq] at h1
      rcases h1 with ⟨rfl, rfl⟩ | h1
      · exact ⟨qs ++ [p], by simp [addPattern], by simp [h2]⟩
      · exact ⟨qs, by simp [addPattern, h1], h2⟩
    · simp only [List.mem_cons, Prod.mk.injEq] at h1
      rcases h1 with ⟨rfl, rfl⟩ | h1
      · exact ⟨qs, by simp [addPattern, hk], h2⟩
      · obtain ⟨qs', h3, h4⟩ := ih ⟨qs, h1, h2⟩
        exact ⟨qs', by simp [addPattern, hk, h3], h4⟩

theorem has_addPattern_inv (acc : Plumb.FileTypeMap) (r p r' p' : String) (h : Has (addPattern acc r p) r' p') :
    Has acc r' p' ∨ (r' = r ∧ p' = p) := by
  induction acc with
  | nil =>
    obtain ⟨ps, h1, h2⟩ := h
    simp only [addPattern, List.mem_singleton, Prod.mk.injEq] at h1
    obtain ⟨rfl, rfl⟩ := h1
    simp at h2
    exact Or.inr ⟨rfl, h2⟩
  | cons e t ih =>
    obtain ⟨k, ps⟩ := e
    obtain ⟨qs, h1, h2⟩ := h
    by_cases hk : k = r
    · subst hk
      simp only [addPattern, if_true, List.mem_cons, Prod.mk.injEq] at h1
      rcases h1 with ⟨rfl, rfl⟩ | h1
      · simp only [List.mem_append, List.mem_singleton] at h2
        rcases h2 with h2 | rfl
        · exact Or.inl ⟨ps, by simp, h2⟩
        · exact Or.inr ⟨rfl, rfl⟩
      · exact Or.inl ⟨qs, by simp [h1], h2⟩
    · simp only [addPattern, hk, if_false, List.mem_cons, Prod.mk.injEq] at h1
      rcases h1 with ⟨rfl, rfl⟩ | h1
      · exact Or.inl ⟨qs, by simp, h2⟩
      · rcases ih ⟨qs, h1, h2⟩ with ⟨qs', h3, h4⟩ | h3
        · exact Or.inl ⟨qs', by simp [h3], h4⟩
        · exact Or.inr h3

/-- the loop keeps what the accumulator has and adds exactly the (reader, pattern) pairs of its arguments -/
theorem has_groupLoop (split : String → Option (String × String)) (l : List String) (acc m : Plumb.FileTypeMap)
    (h : groupLoop split l acc = some m) (r p : String) :
    Has m r p ↔ Has acc r p ∨ ∃ a ∈ l, split a = some (r, p) := by
  induction l generalizing acc with
  | nil =>
    simp only [groupLoop, Option.some.injEq] at h
    subst h
    simp
  | cons a t ih =>
    simp only [groupLoop] at h
    cases hs : split a with
    | none => rw [hs] at h; cases h
    | some rp =>
      obtain ⟨r0, p0⟩ := rp
      rw [hs] at h
      rw [ih _ h]
      constructor
      · rintro (h1 | ⟨b, hb, h2⟩)
        · rcases has_addPattern_inv acc r0 p0 r p h1 with h3 | ⟨rfl, rfl⟩
          · exact Or.inl h3
          · exact Or.inr ⟨a, by simp, hs⟩
        · exact Or.inr ⟨b, by simp [hb], h2⟩
      · rintro (h1 | ⟨b, hb, h2⟩)
        · exact Or.inl (has_addPattern_mono acc r0 p0 r p h1)
        · simp only [List.mem_cons] at hb
          rcases hb with rfl | hb
          · rw [hs] at h2
            simp only [Option.some.injEq, Prod.mk.injEq] at h2
            obtain ⟨rfl, rfl⟩ := h2
            exact Or.inl (has_addPattern_self acc r0 p0)
          · exact Or.inr ⟨b, hb, h2⟩

/-- a name is mapped iff some pattern of some entry matches it -/
theorem mapped_iff_has (fnm : String → String → Bool) (m : Plumb.FileTypeMap) (name : String) :
    Plumb.mapped fnm m name = true ↔ ∃ r p, Has m r p ∧ fnm name p = true := by
  simp only [Plumb.mapped, Plumb.fileTypeOf, Option.isSome_map, List.find?_isSome, Plumb.patternFilter, List.any_eq_true]
  constructor
  · rintro ⟨e, he, p, hp, hf⟩
    exact ⟨e.1, p, ⟨e.2, he, hp⟩, hf⟩
  · rintro ⟨r, p, ⟨ps, h1, h2⟩, hf⟩
    exact ⟨(r, ps), h1, p, h2, hf⟩

theorem zipWith_entries (acc : Plumb.FileTypeMap) :
    List.zipWith (fun a b => Val.list [a, b]) (acc.map fun e => Val.str e.1) (acc.map fun e => strList e.2)
      = acc.map fun e => Val.list [.str e.1, strList e.2] := by
  induction acc with
  | nil => rfl
  | cons e t ih => simp [ih]

/-! ### `_parse_field_tolerances` -/

/-- a one-character string -/
def charV (c : Char) : Val := .str (String.ofList [c])

/-- a tolerance string (`"1e-3"`, `"p:0"`, `"1e-3*max"`) presented as the sequence of its characters, so that
    `":" in tol_string` is membership -/
def tokV (s : String) : Val := .list (s.toList.map charV)

theorem colon_eq (c : Char) : (":" == String.ofList [c]) = (':' == c) := by
  by_cases h : ':' = c
  · subst h; decide
  · have : ":" ≠ String.ofList [c] := by
      intro h2
      apply h
      have h3 := congrArg String.toList h2
      simp at h3
      exact h3
    have h5 : (":" == String.ofList [c]) = false := by simpa using this
    rw [h5]
    simp [h]

theorem memOf_colon (l : List Char) : memOf (.str ":") (l.map charV) = .ok (l.contains ':') := by
  induction l with
  | nil => rfl
  | cons c r ih =>
    simp only [List.map_cons, memOf, charV, Val.eqv, colon_eq, ih, List.contains_cons]
    by_cases h : ':' = c
    · subst h; simp
    · have : (':' == c) = false := by simpa using h
      simp [this]

theorem splitOnChar_no (c : Char) (l : List Char) (h : l.contains c = false) : splitOnChar c l = [l] := by
  induction l with
  | nil => rfl
  | cons x xs ih =>
    simp only [List.contains_cons, Bool.or_eq_false_iff] at h
    have hx : ¬ x = c := by intro e; subst e; simp at h
    simp [splitOnChar, ih h.2, hx]

theorem splitOnChar_yes (c : Char) (l : List Char) (h : l.contains c = true) : 2 ≤ (splitOnChar c l).length := by
  induction l with
  | nil => simp at h
  | cons x xs ih =>
    simp only [splitOnChar]
    cases hs : splitOnChar c xs with
    | nil => 
      exfalso
      clear ih h
      induction xs with
      | nil => simp [splitOnChar] at hs
      | cons y ys ih2 =>
        simp only [splitOnChar] at hs
        cases h2 : splitOnChar c ys with
        | nil => exact ih2 h2
        | cons p ps => rw [h2] at hs; by_cases hy : y = c <;> simp [hy] at hs
    | cons p ps =>
      by_cases hx : x = c
      · simp [hx]
      · simp only [hx, if_false, List.length_cons]
        have : xs.contains c = true := by
          simp only [List.contains_cons, Bool.or_eq_true] at h
          rcases h with h | h
          · exact absurd (by simpa using h) (Ne.symm hx)
          · exact h
        have := ih this
        rw [hs] at this
        simpa using this

/-- one token of the loop of `_parse_field_tolerances` in the model (no exotic literals): `none` = raises -/
def stepTok (pf : String → FloatLit) (dyn : Bool) (m : TolMap) (s : String) : Option TolMap :=
  match classifyTok s with
  | .malformed => none
  | .named n v =>
    match makeTolerance pf dyn v with
    | some (some t) => some { m with named := (n, t) :: m.named }
    | _ => none
  | .unnamed v =>
    match makeTolerance pf dyn v with
    | some (some t) => some { m with dflt := some t }
    | _ => none

theorem makeTolerance_noExotic (pf : String → FloatLit) (hpf : ∀ s, pf s ≠ .exotic) (dyn : Bool) (v : String) :
    makeTolerance pf dyn v ≠ some none := by
  unfold makeTolerance
  split
  · split <;> simp_all
  · split <;> simp_all

theorem parseLoop_eq_foldOpt (pf : String → FloatLit) (hpf : ∀ s, pf s ≠ .exotic) (dyn : Bool) (toks : List String)
    (m : TolMap) :
    parseLoop pf dyn toks m false =
      match foldOpt (stepTok pf dyn) toks m with
      | some m' => .ok m' false
      | none => .raised := by
  induction toks generalizing m with
  | nil => rfl
  | cons s r ih =>
    simp only [parseLoop, foldOpt, stepTok]
    cases classifyTok s with
    | malformed => rfl
    | named n v =>
      have := makeTolerance_noExotic pf hpf dyn v
      cases hm : makeTolerance pf dyn v with
      | none => simp [hm]
      | some o =>
        cases o with
        | none => exact absurd hm this
        | some t => simp [hm, ih]
    | unnamed v =>
      have := makeTolerance_noExotic pf hpf dyn v
      cases hm : makeTolerance pf dyn v with
      | none => simp [hm]
      | some o =>
        cases o with
        | none => exact absurd hm this
        | some t => simp [hm, ih]

/-- what the theorem about `_parse_field_tolerances` assumes about its callees (string methods, `float`, the two
    constructors); `pf` = what `float(str)` does with a literal -/
structure TolExt (X : Ext) (pf : String → FloatLit) : Prop where
  hsplit : ∀ s, X ".split" [tokV s, .str ":"] = .ok (.list
    (match splitOnChar ':' s.toList with
     | [n, v] => [.str (String.ofList n), tokV (String.ofList v)]
     | ps => ps.map fun p => tokV (String.ofList p)))
  hends : ∀ s, X ".endswith" [tokV s, .str "*max"] = .ok (.bool (endsWith s.toList maxSuffix))
  hrsplit : ∀ s, ∃ rest, X ".rsplit" [tokV s, .str "*max"] =
    .ok (.list (tokV (String.ofList ((beforeFirst maxSuffix s.toList).getD [])) :: rest))
  hfloat : ∀ s, X "float" [tokV s] =
    match pf s with
    | .bad => .raise "ValueError"
    | .num u => .ok (.int (u : Int))
    | .exotic => .stuck
  hscaled : ∀ u : Nat, X "ScaledTolerance(base_tolerance=)" [.int (u : Int)] = .ok (tolVal (.scaled u))
  hctor : ∀ kvs d, X "FieldToleranceMap(default_tol=,tolerances=)" [d, .dict kvs] =
    .ok (.record [("_field_tolerances", .dict kvs), ("_default", d)])
  hempty : X "FieldToleranceMap" [] = .ok (ftmVal [] none)

def optTokList : Option (List String) → Val
  | some l => .list (l.map tokV)
  | none => .none

end Fc.PyLite.Cli
