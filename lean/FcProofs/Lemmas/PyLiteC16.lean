/-
  FcProofs.Lemmas.PyLiteC16 — presentation of cell types and of the module-level table `_COMPATIBLES`
  (`Gen.C16.compatIdPairs`, regenerated from the source) to PyLite.
-/
import Mathlib.Data.List.Dedup
import FcModel.MeshEqual
import FcProofs.Lemmas.PyLiteLoops
namespace Fc.PyLite.C16
open Fc.PyLite

/-- a `CellType` object: the attribute `_id` and the property `id` (which returns `_id`) -/
def ctVal (i : Nat) : Val := .record [("_id", .int (i : Int)), ("id", .int (i : Int))]

/-- the dict `{id1: [id2, …]}` holding the directed pairs `ps` (keys in order of first insertion, values in
    order of insertion — what the module-level `_insert_compatibles` calls build) -/
def compatEntries (ps : List (Nat × Nat)) : List (Val × Val) :=
  (ps.map (·.1)).dedup.map fun (a : Nat) =>
    (Val.int (a : Int), Val.list (((ps.filter fun p => p.1 == a).map (·.2)).map fun (n : Nat) => Val.int (n : Int)))

def compatDict (ps : List (Nat × Nat)) : Val := .dict (compatEntries ps)

/-- `i2 in _COMPATIBLES.get(i1, [])` -/
theorem compatDict_get_mem (ps : List (Nat × Nat)) (a b : Nat) :
    (match dictLookup (.int (a : Int)) (compatEntries ps) with
      | .ok (some x) => x.asList.bind (memOf (.int (b : Int)))
      | .ok none => memOf (.int (b : Int)) []
      | .raise e => .raise e
      | .stuck => .stuck) = .ok (ps.contains (a, b)) := by
  unfold compatEntries
  rw [dictLookup_natKeys]
  have hmem : ∀ l : List (Nat × Nat), (((l.filter fun p => p.1 == a).map (·.2)).contains b) = l.contains (a, b) := by
    intro l
    apply Bool.eq_iff_iff.mpr
    simp only [List.contains_iff_mem, List.mem_map, List.mem_filter, beq_iff_eq]
    constructor
    · rintro ⟨⟨x, y⟩, ⟨hm, rfl⟩, rfl⟩; exact hm
    · intro h; exact ⟨(a, b), ⟨h, rfl⟩, rfl⟩
  by_cases hk : (ps.map (·.1)).dedup.contains a
  · simp only [hk, if_true, Val.asList, Res.bind, memOf_natList, hmem]
  · simp only [hk, memOf]
    have : ¬ ∃ y, (a, y) ∈ ps := by simpa [List.mem_dedup] using hk
    cases hc : ps.contains (a, b) with
    | false => simp
    | true => exact absurd ⟨b, by simpa using hc⟩ this

end Fc.PyLite.C16
