/-
  FcProofs.Lemmas.PyLiteC04 — how the values of the C04 model (FcModel/Cli.lean) are presented to the
  PyLite interpreter: enum members by class and member name, objects as records of the attributes the
  translated functions read.
-/
import FcModel.Cli
import FcProofs.Lemmas.PyLite
namespace Fc.PyLite.C04
open Fc.PyLite Fc.C04

/-- `TestStatus.<member>` -/
def tsVal (s : TestStatus) : Val := .enum "TestStatus" s.name

/-- `FieldComparisonStatus.<member>` -/
def fsVal (s : FcStatus) : Val := .enum "FieldComparisonStatus" s.name

/-- `TestStatus | None` -/
def optTsVal : Option TestStatus → Val
  | some s => tsVal s
  | none => .none

/-- a `FileComparison` object, as far as `_parse_status` reads it: `self._opts.<two flags>` -/
def fileComparisonVal (ignSrc ignRef : Bool) : Val :=
  .record [("_opts", .record [("ignore_missing_source_fields", .bool ignSrc),
                              ("ignore_missing_reference_fields", .bool ignRef)])]

/-- a `TestResult` -/
def testVal (t : Test) : Val := .record [("name", .str t.name), ("status", tsVal t.status)]

/-- a `TestSuite` object: `_tests`, `_status` -/
def suiteVal (s : Suite) : Val :=
  .record [("_tests", .list (s.tests.map testVal)), ("_status", optTsVal s.status)]

/-- the same object where it is used in a boolean context: its truth value is what `TestSuite.__bool__`
    returns (`b`; `C04_source_test_suite_bool` shows that this is `s.bool`) -/
def suiteValB (s : Suite) (b : Bool) : Val :=
  .record [("_tests", .list (s.tests.map testVal)), ("_status", optTsVal s.status), ("__bool__", .bool b)]

end Fc.PyLite.C04
