/-
  FcProofs.Lemmas.Resid2Extend — `extend_space_dimension_to` keeps a data set well-formed (`WFP`), and C02's
  hypotheses on one data set (`Resid.SortHyp`) are invariant under it.
-/
import FcProofs.Lemmas.Resid2Dims
import FcProofs.Lemmas.Extend
namespace Fc.Resid2
open Fc Fc.C02 Fc.C02.Spec Fc.Resid

/-! ### resized field arrays keep their leading axis -/

theorem flatMap_length_const {α β : Type} (f : α → List β) (L : Nat) : ∀ l : List α,
    (∀ i ∈ l, (f i).length = L) → (l.flatMap f).length = l.length * L
  | [], _ => by simp
  | a :: l, h => by
    rw [List.flatMap_cons, List.length_append, h a (List.mem_cons_self ..),
      flatMap_length_const f L l (fun i hi => h i (List.mem_cons_of_mem _ hi)), List.length_cons, Nat.succ_mul]
    omega

theorem resizeVectorRow_length {msd sd : Nat} {row : List Int} (hm : msd ≤ sd) (hrow : row.length = msd) :
    (resizeVectorRow msd sd msd row).length = sd := by
  unfold resizeVectorRow zeros
  simp only [if_true, List.length_append, List.length_replicate, hrow]
  omega

theorem resizeTensorRow_length {msd sd k1 k2 : Nat} {row : List Int} (hm : msd ≤ sd)
    (hrow : row.length = k1 * k2) : (resizeTensorRow msd sd k1 k2 row).length = sd * sd := by
  unfold resizeTensorRow
  split
  · rename_i hk
    have hrow' : row.length = msd * msd := by rw [hrow, hk.1, hk.2]
    rw [List.length_append]
    have h1 : ((matRows msd msd row).flatMap fun mr => mr ++ zeros (sd - msd)).length = msd * sd := by
      have := flatMap_length_const (fun mr : List Int => mr ++ zeros (sd - msd)) sd (matRows msd msd row) (by
        intro mr hmr
        unfold matRows at hmr
        obtain ⟨r, hr, rfl⟩ := List.mem_map.mp hmr
        have hr' := List.mem_range.mp hr
        have hge : (r + 1) * msd ≤ msd * msd := Nat.mul_le_mul_right _ hr'
        rw [Nat.succ_mul] at hge
        simp only [List.length_append, List.length_take, List.length_drop, zeros, List.length_replicate, hrow']
        omega)
      rw [this]
      unfold matRows
      simp
    rw [h1]
    simp only [zeros, List.length_replicate]
    rw [← Nat.add_mul, Nat.add_sub_cancel' hm]
  · have := flatMap_length_const (fun r => (List.range sd).map fun c =>
        if r < msd ∧ c < msd then
          row.getD ((if k1 = 1 then 0 else r) * k2 + (if k2 = 1 then 0 else c)) 0
        else (0 : Int)) sd (List.range sd) (by intro r _; simp)
    rw [this, List.length_range]

theorem resizedField_hasRows {msd sd : Nat} (hm : msd ≤ sd) {a v : NdArr} {n : Nat} (ha : a.hasRows n)
    (h : resizedField msd sd a = some v) : v.hasRows n := by
  have hhead := ha.1
  rcases hs : a.shape with _ | ⟨n', _ | ⟨k, _ | ⟨k2, _ | ⟨k3, rest⟩⟩⟩⟩
  · rw [hs] at hhead; simp at hhead
  · simp only [resizedField, fieldKind, hs, Option.some.injEq] at h
    subst h; exact ha
  · -- (n', k)
    have hn : n' = n := by rw [hs] at hhead; simpa using hhead
    subst hn
    by_cases hk1 : k = 1
    · simp only [resizedField, fieldKind, hs, hk1, if_true, Option.some.injEq] at h
      subst h; exact ha
    · simp only [resizedField, fieldKind, hs, hk1, if_false, resizedVector] at h
      by_cases hk : k < sd
      · simp only [hk, if_true] at h
        by_cases hb : bcastOk k msd = true
        · simp only [hb, if_true, Option.some.injEq] at h
          have hkm : k = msd := by
            unfold bcastOk at hb
            simp only [Bool.or_eq_true, beq_iff_eq] at hb
            rcases hb with e | e
            · exact e
            · exact absurd e hk1
          subst hkm
          subst h
          refine ⟨rfl, ?_⟩
          show ((List.range n').flatMap fun i => resizeVectorRow k sd k (a.row i)).length = prodList [n', sd]
          rw [flatMap_length_const _ sd _ (by
            intro i hi
            apply resizeVectorRow_length hm
            rw [NdArr.row_length ha (List.mem_range.mp hi), rowSize_vec a hs])]
          simp [prodList]
        · simp only [hb, Bool.false_eq_true, if_false] at h
          cases h
      · simp only [hk, if_false, Option.some.injEq] at h
        subst h; exact ha
  · -- (n', k, k2)
    have hn : n' = n := by rw [hs] at hhead; simpa using hhead
    subst hn
    simp only [resizedField, fieldKind, hs, resizedTensor] at h
    by_cases hk : k < sd ∧ k2 < sd
    · simp only [hk, and_self, if_true] at h
      by_cases hb : (bcastOk k msd && bcastOk k2 msd) = true
      · simp only [hb, if_true, Option.some.injEq] at h
        subst h
        refine ⟨rfl, ?_⟩
        show ((List.range n').flatMap fun i => resizeTensorRow msd sd k k2 (a.row i)).length = prodList [n', sd, sd]
        rw [flatMap_length_const _ (sd * sd) _ (by
          intro i hi
          apply resizeTensorRow_length hm
          rw [NdArr.row_length ha (List.mem_range.mp hi), rowSize_ten a hs])]
        simp [prodList, Nat.mul_assoc]
      · simp only [hb, Bool.false_eq_true, if_false] at h
        cases h
    · simp only [hk, if_false, Option.some.injEq] at h
      subst h; exact ha
  · simp [resizedField, fieldKind, hs] at h

/-! ### the extended data set -/

section ext
variable {f f' : MeshFields} {sd : Nat}

theorem extend_mesh_eq (hr : extendSpaceDim sd f = some f') (hne : sd ≠ f.mesh.dim) :
    f.mesh.dim < sd ∧ f'.mesh = padMesh (sd - f.mesh.dim) f.mesh := by
  obtain ⟨hlt, hm, _, _⟩ := extend_some hr hne
  refine ⟨hlt, ?_⟩
  rw [hm]
  unfold padMesh
  have : f.mesh.dim + (sd - f.mesh.dim) = sd := by omega
  rw [this]
  rfl

theorem mem_of_map_some {α β : Type} {l : List α} {l' : List β} {g : α → Option β}
    (h : l.map g = l'.map some) : ∀ y ∈ l', ∃ x ∈ l, g x = some y := by
  intro y hy
  have : some y ∈ l.map g := by rw [h]; exact List.mem_map_of_mem hy
  obtain ⟨x, hx, e⟩ := List.mem_map.mp this
  exact ⟨x, hx, e⟩

/-- **`extend_space_dimension_to` keeps a data set well-formed** -/
theorem extend_WFP (hwf : WFP f) (hr : extendSpaceDim sd f = some f') : WFP f' := by
  by_cases hne : sd = f.mesh.dim
  · have : f' = f := by
      unfold extendSpaceDim at hr
      simp only [hne, if_true, Option.some.injEq] at hr
      exact hr.symm
    rw [this]; exact hwf
  obtain ⟨hlt, hm, hpf, hcf⟩ := extend_some hr hne
  have hcells : f'.mesh.cells = f.mesh.cells := by rw [hm]
  have hnp : f'.mesh.numPoints = f.mesh.numPoints := by
    unfold Mesh.numPoints; rw [hm]; simp
  have hcellsOf : ∀ ct, f'.mesh.cellsOf ct = f.mesh.cellsOf ct := by
    intro ct; unfold Mesh.cellsOf; rw [hcells]
  have htypes : f'.mesh.cellTypes = f.mesh.cellTypes := by unfold Mesh.cellTypes; rw [hcells]
  refine ⟨?_, ?_, ?_, ?_, ?_, ?_⟩
  · intro p hp
    rw [hm] at hp ⊢
    obtain ⟨p0, hp0, rfl⟩ := List.mem_map.mp hp
    show (p0 ++ zeros (sd - f.mesh.dim)).length = sd
    simp only [List.length_append, zeros, List.length_replicate, hwf.rows p0 hp0]
    omega
  · intro b hb row hrow p hp
    rw [hnp]
    rw [hcells] at hb
    exact hwf.inRange b hb row hrow p hp
  · intro pf hpf'
    obtain ⟨pf0, hpf0, e⟩ := mem_of_map_some hpf pf hpf'
    rw [hnp]
    cases hv : resizedField f.mesh.dim sd pf0.values with
    | none => rw [hv] at e; cases e
    | some v =>
      rw [hv, Option.map_some, Option.some.injEq] at e
      subst e
      exact resizedField_hasRows (by omega) (hwf.pf pf0 hpf0) hv
  · intro cf hcf'
    obtain ⟨cf0, hcf0, e⟩ := mem_of_map_some hcf cf hcf'
    cases hv : resizedField f.mesh.dim sd cf0.values with
    | none => rw [hv] at e; cases e
    | some v =>
      rw [hv, Option.map_some, Option.some.injEq] at e
      subst e
      rw [hcellsOf]
      exact resizedField_hasRows (by omega) (hwf.cf cf0 hcf0) hv
  · rw [htypes]; exact hwf.types
  · intro cf hcf'
    obtain ⟨cf0, hcf0, e⟩ := mem_of_map_some hcf cf hcf'
    cases hv : resizedField f.mesh.dim sd cf0.values with
    | none => rw [hv] at e; cases e
    | some v =>
      rw [hv, Option.map_some, Option.some.injEq] at e
      subst e
      rw [htypes]
      exact hwf.cfTypes cf0 hcf0

end ext

/-! ### `SortHyp` is invariant under `extend_space_dimension_to` -/

theorem applyPointMap_mesh_congr {g1 g2 : MeshFields} (h : g1.mesh = g2.mesh) (τ : List Nat) :
    (applyPointMap g1 τ).mesh = (applyPointMap g2 τ).mesh := by
  unfold applyPointMap
  simp only [h]

theorem specStripMap_padMesh (k : Nat) (m : Mesh) : specStripMap (padMesh k m) = specStripMap m := by
  show (List.range (m.points.map (padRow k)).length).filter _ = (List.range m.points.length).filter _
  rw [List.length_map]
  rfl

theorem baseOf_padMesh {f f' : MeshFields} {k : Nat} (hm : f'.mesh = padMesh k f.mesh) :
    (baseOf f').mesh = padMesh k (baseOf f).mesh := by
  show (applyPointMap f' (specStripMap f'.mesh)).mesh = _
  rw [hm, specStripMap_padMesh,
    applyPointMap_mesh_congr (g1 := f') (g2 := ⟨padMesh k f.mesh, f.pointFields, f.cellFields⟩) hm]
  show (⟨f.mesh.dim + k, (specStripMap f.mesh).map (fun i => (f.mesh.points.map (padRow k)).getD i []), _⟩ : Mesh) =
    ⟨f.mesh.dim + k, ((specStripMap f.mesh).map fun i => f.mesh.points.getD i []).map (padRow k), _⟩
  congr 1
  rw [List.map_map]
  apply List.map_congr_left
  intro i hi
  have hlt : i < f.mesh.points.length := (((specStripMap_spec f).mem_iff i).mp hi).1
  show (f.mesh.points.map (padRow k)).getD i [] = padRow k (f.mesh.points.getD i [])
  rw [Fc.getD_of_lt _ _ (by rw [List.length_map]; exact hlt), List.getElem_map, Fc.getD_of_lt _ _ hlt]

theorem entering_padMesh {f f' : MeshFields} {k : Nat} (strip : Bool) (hm : f'.mesh = padMesh k f.mesh) :
    (entering strip f').mesh = padMesh k (entering strip f).mesh := by
  cases strip with
  | false => exact hm
  | true => exact baseOf_padMesh hm

theorem entering_dim (strip : Bool) (f : MeshFields) : (entering strip f).mesh.dim = f.mesh.dim := by
  cases strip <;> rfl

theorem applyPointMap_cells_congr {g1 g2 : MeshFields} (h : g1.mesh.cells = g2.mesh.cells) (τ : List Nat) :
    (applyPointMap g1 τ).mesh.cells = (applyPointMap g2 τ).mesh.cells := by
  unfold applyPointMap
  simp only [h]

theorem padRow_zero (z : List Int) : padRow 0 z = z := by
  unfold padRow zeros; simp

/-- **C02's hypotheses on one data set are invariant under `extend_space_dimension_to`**: same margins, same
    magnitude bound, same tolerances; the candidate centres get the zero columns -/
theorem sortHyp_extend {h : List Nat → Int} {strip : Bool} {f f' : MeshFields} {A B M : Nat} {c : List (List Int)}
    {sd : Nat} (sh : SortHyp h strip f A B M c) (hc : CandsDim c f.mesh.dim)
    (hr : extendSpaceDim sd f = some f') :
    SortHyp h strip f' A B M (c.map (padRow (sd - f.mesh.dim))) ∧
      CandsDim (c.map (padRow (sd - f.mesh.dim))) f'.mesh.dim := by
  by_cases hne : sd = f.mesh.dim
  · have : f' = f := by
      unfold extendSpaceDim at hr
      simp only [hne, if_true, Option.some.injEq] at hr
      exact hr.symm
    subst this
    have hc0 : c.map (padRow (sd - f'.mesh.dim)) = c := by
      rw [hne, Nat.sub_self]
      conv_rhs => rw [← List.map_id c]
      apply List.map_congr_left
      intro z _
      exact padRow_zero z
    rw [hc0]
    exact ⟨sh, hc⟩
  obtain ⟨hlt, hm⟩ := extend_mesh_eq hr hne
  set k := sd - f.mesh.dim with hk
  have he := entering_padMesh strip hm
  obtain ⟨_, we, hn, _⟩ := sh.entering_spec
  have hin : ∀ row ∈ allRows (entering strip f).mesh, ∀ q ∈ row, q < (entering strip f).mesh.points.length := by
    intro row hrow q hq
    unfold allRows at hrow
    obtain ⟨b, hb, hrb⟩ := List.mem_flatMap.mp hrow
    exact we.inRange b hb row hrb q hq
  have hc' : CandsDim c (entering strip f).mesh.dim := by rw [entering_dim]; exact hc
  constructor
  · refine ⟨extend_WFP sh.wf hr, ?_, ?_, ?_, ?_⟩
    · obtain ⟨p, hp⟩ := sh.conn
      exact ⟨p, by rw [hm]; exact hp⟩
    · rw [he, meshTolOf_padMesh]
      exact padMesh_pointHypP k sh.hy hin hc'
    · rw [he, meshTolOf_padMesh]
      exact padMesh_hdist isArgsort_stable isArgsort_stable sh.hy hin hc' sh.hdist
    · intro I hI b hb
      rw [he, meshTolOf_padMesh] at hI
      obtain ⟨I0, e1, e2⟩ := padMesh_sortIdx (k := k) isArgsort_stable isArgsort_stable sh.hy hin hc' hn sh.hdist
      rw [e2] at hI
      have hII : I = I0 := (Option.some.inj hI).symm
      rw [hII] at hb
      have hcells : (entering strip f').mesh.cells = (entering strip f).mesh.cells := by rw [he]; rfl
      rw [applyPointMap_cells_congr hcells] at hb
      exact sh.hash I0 e1 b hb
  · intro z' hz'
    obtain ⟨z, hz, rfl⟩ := List.mem_map.mp hz'
    rw [padRow_length, hc z hz, hm]
    show f.mesh.dim + k = f.mesh.dim + k
    rfl

/-- the candidate centres the decidable hypothesis works with are actual cell centres: `CandsDim` holds -/
theorem candsDim_pointData {A : Nat} {m : Mesh} (hrow : ∀ r ∈ m.points, r.length = m.dim)
    (hin : ∀ row ∈ allRows m, ∀ q ∈ row, q < m.points.length) : CandsDim (pointData A m).cands m.dim := by
  intro z hz
  unfold pointData at hz
  simp only at hz
  obtain ⟨x, _, hzx⟩ := List.mem_flatMap.mp hz
  cases hcs : centresOf m x.1.1 with
  | none => rw [hcs] at hzx; simp at hzx
  | some cs =>
    rw [hcs] at hzx
    exact centresOf_length hrow hin hcs z hzx

theorem sortHypB_candsDim {h : List Nat → Int} {strip : Bool} {f : MeshFields} (hb : sortHypB h strip f = true) :
    CandsDim (pointData (sepA (meshTolOf (entering strip f).mesh)) (entering strip f).mesh).cands f.mesh.dim := by
  have sh := sortHypB_sound hb
  obtain ⟨_, we, _, _⟩ := sh.entering_spec
  rw [← entering_dim strip f]
  apply candsDim_pointData we.rows
  intro row hrow q hq
  unfold allRows at hrow
  obtain ⟨b, hb', hrb⟩ := List.mem_flatMap.mp hrow
  exact we.inRange b hb' row hrb q hq

/-! ### the comparator object: good views after the dimension retry -/

/-- the two views that enter the reordering rungs of the first call on `(S, R)` are good views — for EVERY
    dimension pair and every setting of the flags — as soon as `SortHyp` holds for the ORIGINAL inputs -/
theorem goodView_preReorder {as : List Int → List Nat} {h : List Nat → Int} {strip : Bool}
    (cmp : MeshFields → MeshFields → Bool × Bool) (fl : C19.CmpFlags) {S R : MeshFields}
    {A1 B1 M1 A2 B2 M2 : Nat} {c1 c2 : List (List Int)}
    (hS : SortHyp h strip S A1 B1 M1 c1) (hR : SortHyp h strip R A2 B2 M2 c2)
    (hc1 : CandsDim c1 S.mesh.dim) (hc2 : CandsDim c2 R.mesh.dim) :
    GoodView h strip (preReorder (Glue.cmpOps (Glue.paramsOf as h strip) cmp) fl ⟨Glue.viewOf S, Glue.viewOf R⟩).src ∧
    GoodView h strip (preReorder (Glue.cmpOps (Glue.paramsOf as h strip) cmp) fl ⟨Glue.viewOf S, Glue.viewOf R⟩).ref := by
  unfold preReorder
  split
  · constructor
    · intro g hg
      have hg' : extendSpaceDim (max S.mesh.dim R.mesh.dim) S = some g := hg
      exact ⟨A1, B1, M1, _, (sortHyp_extend hS hc1 hg').1⟩
    · intro g hg
      have hg' : extendSpaceDim (max S.mesh.dim R.mesh.dim) R = some g := hg
      exact ⟨A2, B2, M2, _, (sortHyp_extend hR hc2 hg').1⟩
  · exact ⟨goodView_viewOf hS, goodView_viewOf hR⟩

/-! ### tolerances of the stripped view vs tolerances of the stored mesh -/

theorem rowMax_le_iff (r : List Int) : ∀ (m0 v : Nat),
    r.foldl (fun m x => max m x.natAbs) m0 ≤ v ↔ m0 ≤ v ∧ ∀ x ∈ r, x.natAbs ≤ v := by
  induction r with
  | nil => intro m0 v; simp
  | cons y t ih =>
    intro m0 v
    rw [List.foldl_cons, ih]
    simp only [List.mem_cons, forall_eq_or_imp]
    constructor
    · rintro ⟨h1, h2⟩; exact ⟨by omega, by omega, h2⟩
    · rintro ⟨h1, h2, h3⟩; exact ⟨by omega, h3⟩

theorem ptsMax_le_iff (pts : List (List Int)) : ∀ (m0 v : Nat),
    pts.foldl (fun m r => r.foldl (fun m x => max m x.natAbs) m) m0 ≤ v ↔
      m0 ≤ v ∧ ∀ r ∈ pts, ∀ x ∈ r, x.natAbs ≤ v := by
  induction pts with
  | nil => intro m0 v; simp
  | cons r t ih =>
    intro m0 v
    rw [List.foldl_cons, ih, rowMax_le_iff]
    simp only [List.mem_cons, forall_eq_or_imp]
    constructor
    · rintro ⟨⟨h1, h2⟩, h3⟩; exact ⟨h1, h2, h3⟩
    · rintro ⟨h1, h2, h3⟩; exact ⟨⟨h1, h2⟩, h3⟩

theorem maxAbsCoord_le_iff (pts : List (List Int)) (v : Nat) :
    maxAbsCoord pts ≤ v ↔ ∀ r ∈ pts, ∀ x ∈ r, x.natAbs ≤ v := by
  unfold maxAbsCoord
  rw [ptsMax_le_iff]
  simp

/-- `Glue.guardedSorter` computes the tolerances from the view that ENTERS `sort_points` (after the orphan
    points were stripped); the code's `PermutedMesh` keeps the tolerances of the STORED mesh.  The two agree
    whenever no orphan point carries a coordinate larger (in magnitude) than every coordinate of the connected
    points -/
theorem meshTolOf_baseOf_eq {f : MeshFields}
    (horph : ∀ p, p < f.mesh.points.length → f.mesh.connected p = false →
      ∀ x ∈ f.mesh.points.getD p [], x.natAbs ≤ maxAbsCoord (baseOf f).mesh.points) :
    meshTolOf (baseOf f).mesh = meshTolOf f.mesh := by
  have h1 : maxAbsCoord (baseOf f).mesh.points ≤ maxAbsCoord f.mesh.points := by
    rw [maxAbsCoord_le_iff]
    intro r hr x hx
    have hr' : r ∈ (specStripMap f.mesh).map fun i => f.mesh.points.getD i [] := hr
    obtain ⟨i, hi, rfl⟩ := List.mem_map.mp hr'
    have hlt : i < f.mesh.points.length := (((specStripMap_spec f).mem_iff i).mp hi).1
    rw [Fc.getD_of_lt _ _ hlt] at hx
    exact (maxAbsCoord_le_iff f.mesh.points _).mp (le_refl _) _ (List.getElem_mem hlt) x hx
  have h2 : maxAbsCoord f.mesh.points ≤ maxAbsCoord (baseOf f).mesh.points := by
    rw [maxAbsCoord_le_iff]
    intro r hr x hx
    obtain ⟨p, hp, rfl⟩ := List.getElem_of_mem hr
    cases hc : f.mesh.connected p with
    | false =>
      apply horph p hp hc x
      rw [Fc.getD_of_lt _ _ hp]; exact hx
    | true =>
      have hmem : p ∈ specStripMap f.mesh := ((specStripMap_spec f).mem_iff p).mpr ⟨hp, hc⟩
      have hr2 : f.mesh.points[p] ∈ (baseOf f).mesh.points := by
        show f.mesh.points[p] ∈ (specStripMap f.mesh).map fun i => f.mesh.points.getD i []
        exact List.mem_map.mpr ⟨p, hmem, Fc.getD_of_lt _ _ hp⟩
      exact (maxAbsCoord_le_iff _ _).mp (le_refl _) _ hr2 x hx
  unfold meshTolOf
  rw [Nat.le_antisymm h1 h2]

end Fc.Resid2
