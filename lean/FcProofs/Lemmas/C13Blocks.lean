/-
  Lemmas.C13Blocks — the cell-type blocks of a mesh (`WFields.cells`, names mapped to VTK type ids by an
  arbitrary `ix` that is injective on the mesh's names) against the arrays the writer produces from them:
  per block the reader's corner array and cell-data slice, the `np.unique` order of the ids, and the
  assembly of the per-type results in that order.
-/
import FcProofs.Lemmas.CellDataW
import FcProofs.Lemmas.C13Unique
namespace Fc.W
open Fc.W.Spec

abbrev Block := String × List (List Nat)

/-- the written `types` array (ids by `ix`) -/
def typesOf (ix : String → Nat) (cells : List Block) : List Nat := (allCells cells).map fun c => ix c.1

theorem allCells_typed (ix : String → Nat) (cells : List Block) :
    (allCells cells).map (fun c => (ix c.1, c.2))
      = (cells.map fun b => (ix b.1, b.2)).flatMap fun b => b.2.map fun r => (b.1, r) := by
  unfold allCells
  induction cells with
  | nil => rfl
  | cons b r ih => simp only [List.flatMap_cons, List.map_append, List.map_map, List.map_cons, ih]; rfl

theorem typesOf_replicate (ix : String → Nat) (cells : List Block) :
    typesOf ix cells = cells.flatMap fun b => List.replicate b.2.length (ix b.1) := by
  unfold typesOf allCells
  induction cells with
  | nil => rfl
  | cons b r ih =>
    simp only [List.flatMap_cons, List.map_append, List.map_map, ih]
    congr 1
    induction b.2 with
    | nil => rfl
    | cons x xs ih2 => simp only [List.map_cons, List.length_cons, List.replicate_succ, ih2]; rfl

theorem allCells_length (cells : List Block) : (allCells cells).length = sumL (cells.map (·.2.length)) := by
  unfold allCells
  induction cells with
  | nil => rfl
  | cons b r ih => simp only [List.flatMap_cons, List.length_append, List.length_map, ih, List.map_cons, sumL_cons]

theorem flatMap_vals_length {α} (cells : List α) (cnt : α → Nat) (vals : α → List Nat) (k : Nat)
    (h : ∀ c ∈ cells, (vals c).length = cnt c * k) :
    (cells.flatMap vals).length = sumL (cells.map cnt) * k := by
  induction cells with
  | nil => simp [sumL]
  | cons b r ih =>
    simp only [List.flatMap_cons, List.length_append, List.map_cons, sumL_cons, Nat.add_mul,
      h b (by simp), ih (fun c hc => h c (by simp [hc]))]

/-- splitting a list with pairwise distinct keys at one of its members -/
theorem split_distinct {α} (f : α → Nat) (l : List α) (b : α) (hb : b ∈ l)
    (hd : (l.map f).Pairwise (· ≠ ·)) :
    ∃ pre suf, l = pre ++ b :: suf ∧ (∀ x ∈ pre, f x ≠ f b) ∧ (∀ x ∈ suf, f x ≠ f b) := by
  obtain ⟨pre, suf, e⟩ := List.append_of_mem hb
  refine ⟨pre, suf, e, ?_, ?_⟩
  · intro x hx
    rw [e, List.map_append, List.pairwise_append] at hd
    exact hd.2.2 (f x) (List.mem_map.mpr ⟨x, hx, rfl⟩) (f b) (by simp)
  · intro x hx
    rw [e, List.map_append, List.pairwise_append, List.map_cons, List.pairwise_cons] at hd
    exact fun h => hd.2.1.1 (f x) (List.mem_map.mpr ⟨x, hx, rfl⟩) h.symm

/-- **cells of one block**: the reader's corner array of the id of block `b` is `b`'s rows -/
theorem cornersOf_block (ix : String → Nat) (cells : List Block) (b : Block) (hb : b ∈ cells)
    (hd : (cells.map fun b => ix b.1).Pairwise (· ≠ ·)) (k : Nat) (hk : ∀ r ∈ b.2, r.length = k) (hne : b.2 ≠ []) :
    cornersOf ((allCells cells).flatMap (·.2)) (runningSums 0 ((allCells cells).map (·.2.length)))
      (typesOf ix cells) (ix b.1) = some b.2 := by
  obtain ⟨pre, suf, e, hpre, hsuf⟩ := split_distinct (fun b : Block => ix b.1) cells b hb hd
  have h := cornersOf_blocks (ix b.1) k (pre.map fun b => (ix b.1, b.2)) (suf.map fun b => (ix b.1, b.2)) b.2
    (by intro c hc; obtain ⟨x, hx, e⟩ := List.mem_map.mp hc; subst e; exact hpre x hx)
    (by intro c hc; obtain ⟨x, hx, e⟩ := List.mem_map.mp hc; subst e; exact hsuf x hx) hk hne
  have e2 : (pre.map fun b => (ix b.1, b.2)) ++ (ix b.1, b.2) :: (suf.map fun b => (ix b.1, b.2))
      = cells.map fun b => (ix b.1, b.2) := by rw [e]; simp
  simp only [e2] at h
  rw [← allCells_typed] at h
  simp only [List.flatMap_map, List.map_map] at h
  exact h

/-- **cell data of one block**: the reader's index map of the id of block `b` selects `b`'s values -/
theorem gather_cells (ix : String → Nat) (cells : List Block) (vals : Block → List Nat) (k : Nat) (b : Block)
    (hb : b ∈ cells) (hd : (cells.map fun b => ix b.1).Pairwise (· ≠ ·))
    (hlen : ∀ c ∈ cells, (vals c).length = c.2.length * k) :
    gatherRows k (cells.flatMap vals) (typeIndices (typesOf ix cells) (ix b.1)) = vals b := by
  obtain ⟨pre, suf, e, hpre, hsuf⟩ := split_distinct (fun b : Block => ix b.1) cells b hb hd
  have h := gather_block (ix b.1) k (pre.map fun c => (ix c.1, c.2.length, vals c))
    (suf.map fun c => (ix c.1, c.2.length, vals c)) b.2.length (vals b)
    (by intro c hc; obtain ⟨x, hx, e⟩ := List.mem_map.mp hc; subst e; exact hpre x hx)
    (by intro c hc; obtain ⟨x, hx, e⟩ := List.mem_map.mp hc; subst e; exact hsuf x hx)
    (by intro c hc; obtain ⟨x, hx, e'⟩ := List.mem_map.mp hc; subst e'; exact hlen x (by rw [e]; simp [hx]))
    (hlen b hb)
  have e2 : (pre.map fun c => (ix c.1, c.2.length, vals c)) ++ (ix b.1, b.2.length, vals b)
      :: (suf.map fun c => (ix c.1, c.2.length, vals c)) = cells.map fun c => (ix c.1, c.2.length, vals c) := by
    rw [e]; simp
  simp only [e2, List.flatMap_map] at h
  rw [typesOf_replicate]
  exact h

/-! ### the order of the blocks -/

/-- the non-empty blocks keyed by id, as `normalise` sorts them -/
def keyed (ix : String → Nat) (cells : List Block) : List (Nat × String × List (List Nat)) :=
  (cells.filter fun b => !b.2.isEmpty).map fun b => (ix b.1, b.1, b.2)

theorem mem_keyed (ix : String → Nat) (cells : List Block) (sb : Nat × String × List (List Nat)) :
    sb ∈ keyed ix cells ↔ ∃ b ∈ cells, b.2 ≠ [] ∧ sb = (ix b.1, b.1, b.2) := by
  unfold keyed
  simp only [List.mem_map, List.mem_filter]
  constructor
  · rintro ⟨b, ⟨hb, hne⟩, e⟩
    refine ⟨b, hb, ?_, e.symm⟩
    intro h; rw [h] at hne; simp at hne
  · rintro ⟨b, hb, hne, e⟩
    refine ⟨b, ⟨hb, ?_⟩, e.symm⟩
    cases h : b.2 with
    | nil => exact absurd h hne
    | cons _ _ => rfl

theorem mem_typesOf (ix : String → Nat) (cells : List Block) (t : Nat) :
    t ∈ typesOf ix cells ↔ ∃ b ∈ cells, b.2 ≠ [] ∧ ix b.1 = t := by
  rw [typesOf_replicate]
  simp only [List.mem_flatMap, List.mem_replicate]
  constructor
  · rintro ⟨b, hb, hn, e⟩
    exact ⟨b, hb, by intro h; rw [h] at hn; simp at hn, e.symm⟩
  · rintro ⟨b, hb, hne, e⟩
    refine ⟨b, hb, ?_, e.symm⟩
    intro h; exact hne (List.eq_nil_of_length_eq_zero h)

/-- **`np.unique(types)` = the ids of the non-empty blocks in ascending order** -/
theorem uniqueTypes_keyed (ix : String → Nat) (cells : List Block)
    (hd : (cells.map fun b => ix b.1).Pairwise (· ≠ ·)) :
    uniqueTypes (typesOf ix cells) = (sortByIdx (keyed ix cells)).map (·.1) := by
  apply uniqueTypes_eq
  · apply sortByIdx_strict
    unfold keyed
    rw [List.map_map]
    have : ((cells.filter fun b => !b.2.isEmpty).map ((fun x : Nat × String × List (List Nat) => x.1) ∘ fun b => (ix b.1, b.1, b.2)))
        = (cells.filter fun b => !b.2.isEmpty).map fun b => ix b.1 := rfl
    rw [this]
    exact List.Pairwise.sublist (List.Sublist.map _ List.filter_sublist) hd
  · intro t
    rw [mem_typesOf]
    simp only [List.mem_map]
    constructor
    · rintro ⟨sb, hsb, e⟩
      obtain ⟨b, hb, hne, e2⟩ := (mem_keyed ix cells sb).mp ((mem_sortByIdx _ sb).mp hsb)
      subst e2
      exact ⟨b, hb, hne, e⟩
    · rintro ⟨b, hb, hne, e⟩
      exact ⟨(ix b.1, b.1, b.2), (mem_sortByIdx _ _).mpr ((mem_keyed ix cells _).mpr ⟨b, hb, hne, rfl⟩), e⟩

/-- **assembly**: a per-type reader `g` that returns `h b` on the id of every non-empty block `b`, mapped over
    `np.unique(types)`, yields the `h`-images of the non-empty blocks in ascending id order -/
theorem assemble {γ} (ix : String → Nat) (cells : List Block) (hd : (cells.map fun b => ix b.1).Pairwise (· ≠ ·))
    (g : Nat → Option γ) (h : Block → γ) (hg : ∀ b ∈ cells, b.2 ≠ [] → g (ix b.1) = some (h b)) :
    mapM' g (uniqueTypes (typesOf ix cells)) = some ((sortByIdx (keyed ix cells)).map fun sb => h (sb.2.1, sb.2.2)) := by
  rw [uniqueTypes_keyed ix cells hd, mapM'_map]
  apply mapM'_eq_some_map
  intro sb hsb
  obtain ⟨b, hb, hne, e⟩ := (mem_keyed ix cells sb).mp ((mem_sortByIdx _ sb).mp hsb)
  subst e
  exact hg b hb hne

end Fc.W
