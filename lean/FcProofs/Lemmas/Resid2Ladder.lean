/-
  FcProofs.Lemmas.Resid2Ladder — the comparator ladder on a noisy relabelled pair.

  `permuted_noisy`: `_permute` of `relabelF ρ₁ κ₁ (withPoints f P₁)` and of `relabelF ρ₂ κ₂ (withPoints f P₂)` (two
  coordinate variants of one data set whose stable point sorts return the same index map `I0`) are
  `withPoints (applyCellMaps s κᵢ) Qᵢ` for ONE point-sorted view `s = pointSorted f I0`: identical connectivity and
  field arrays, coordinates `Qᵢ = Pᵢ[J]` row by row, and the point check of `mesh_equal` accepts `Q₁` against `Q₂`
  under the tolerances of the source.  `reorder_noisy`: rungs 2/3 pass.  `rung0_noisy`: a domain check that
  already passes as stored forces `ρ₁ = ρ₂` (rigidity of the clean data set) and the fields pass.
-/
import FcProofs.Lemmas.Resid2Views
namespace Fc.Resid2
open Fc Fc.C02 Fc.C02.Spec Fc.Resid

section core
variable {asS asR : List Int → List Nat} {h : List Nat → Int} {f : MeshFields} {P1 P2 : List (List Int)}
  {A B M : Nat} {C : List (List Int)}

theorem cellHyp_withPoints {s : MeshFields} {Q : List (List Int)} (hs : CellHypP h (withPoints s Q)) :
    CellHypP h s := ⟨hs.types, hs.cf, hs.hash⟩

theorem sortIdx_mem {t : MeshTol} {m : Mesh} {c : List (List Int)} (hy : PointHypP t A B M m c)
    (hn : m.points ≠ []) {I0 : List Nat} (hI : sortPointsIdx argsortStable t m = some I0) :
    ∀ i ∈ I0, i < m.points.length := by
  obtain ⟨L, eL, pL, _⟩ := sortPointsItems_spec isArgsort_stable hy hn
  unfold sortPointsIdx at hI
  rw [eL] at hI
  cases hI
  intro i hi
  obtain ⟨a, ha, rfl⟩ := List.mem_map.mp hi
  exact pitems_fst_lt (pL.mem_iff.mp ha)

/-- **the two `_permute` results of a noisy relabelled pair**: one point-sorted view, two coordinate arrays
    that pass the point check -/
theorem permuted_noisy (hS : IsArgsort asS) (hR : IsArgsort asR)
    (bh1 : BaseHyp h (withPoints f P1) A B M C) (bh2 : BaseHyp h (withPoints f P2) A B M C)
    (hl1 : P1.length = f.mesh.points.length) (hl2 : P2.length = f.mesh.points.length) {I0 : List Nat}
    (hI1 : sortPointsIdx argsortStable (meshTolOf (withPoints f P1).mesh) (baseOf (withPoints f P1)).mesh = some I0)
    (hI2 : sortPointsIdx argsortStable (meshTolOf (withPoints f P2).mesh) (baseOf (withPoints f P2)).mesh = some I0)
    (hnear : ∀ i, i < f.mesh.points.length → ∀ j, j < f.mesh.dim →
      ((P1.getD i []).getD j 0 - (P2.getD i []).getD j 0).natAbs ≤ A)
    {ρ1 ρ2 : List Nat} {κ1 κ2 : String → List Nat}
    (hρ1 : ρ1.Perm (List.range f.mesh.points.length)) (hρ2 : ρ2.Perm (List.range f.mesh.points.length))
    (hκ1 : CellMapsOk f κ1) (hκ2 : CellMapsOk f κ2) :
    let J := I0.map ((specStripMap f.mesh).getD · 0)
    let s := pointSorted f I0
    let Q1 := J.map fun i => P1.getD i []
    let Q2 := J.map fun i => P2.getD i []
    let t1 := meshTolOf (relabelF ρ1 κ1 (withPoints f P1)).mesh
    let t2 := meshTolOf (relabelF ρ2 κ2 (withPoints f P2)).mesh
    CellHypP h s ∧
    (∀ ct, (κ1 ct).Perm (List.range (s.mesh.cellsOf ct).length)) ∧
    (∀ ct, (κ2 ct).Perm (List.range (s.mesh.cellsOf ct).length)) ∧
    permuteSide asS {} ⟨relabelF ρ1 κ1 (withPoints f P1), t1, false⟩ =
      some ⟨withPoints (applyCellMaps s κ1) Q1, t1, true⟩ ∧
    permuteSide asR {} ⟨relabelF ρ2 κ2 (withPoints f P2), t2, false⟩ =
      some ⟨withPoints (applyCellMaps s κ2) Q2, t2, true⟩ ∧
    fuzzyCheck (.num t1.rtol) (.num t1.atol) ⟨.flt f64, [Q1.length, s.mesh.dim], Q1.flatten⟩
      ⟨.flt f64, [Q2.length, s.mesh.dim], Q2.flatten⟩ = .ok true := by
  intro J s Q1 Q2 t1 t2
  have hρ1' : ρ1.Perm (List.range (withPoints f P1).mesh.points.length) := by
    show ρ1.Perm (List.range P1.length); rw [hl1]; exact hρ1
  have hρ2' : ρ2.Perm (List.range (withPoints f P2).mesh.points.length) := by
    show ρ2.Perm (List.range P2.length); rw [hl2]; exact hρ2
  have hκ1' : CellMapsOk (withPoints f P1) κ1 := hκ1
  have hκ2' : CellMapsOk (withPoints f P2) κ2 := hκ2
  obtain ⟨I1, e1, _, eS⟩ := permuteSide_relabelF hS bh1 hρ1' hκ1'
  obtain ⟨I2, e2, _, eR⟩ := permuteSide_relabelF hR bh2 hρ2' hκ2'
  rw [hI1] at e1
  rw [hI2] at e2
  cases e1
  cases e2
  have hs1 : CellHypP h (pointSorted (withPoints f P1) I0) := bh1.cellHyp hI1
  rw [pointSorted_withPoints hl1] at hs1
  have hs : CellHypP h s := cellHyp_withPoints hs1
  have hk1 : ∀ ct, (κ1 ct).Perm (List.range (s.mesh.cellsOf ct).length) := hκ1.pointMap _
  have hk2 : ∀ ct, (κ2 ct).Perm (List.range (s.mesh.cellsOf ct).length) := hκ2.pointMap _
  refine ⟨hs, hk1, hk2, ?_, ?_, ?_⟩
  · rw [eS, pointSorted_withPoints hl1]
    rfl
  · rw [eR, pointSorted_withPoints hl2]
    rfl
  · -- the point check
    have hd : 1 ≤ f.mesh.dim := bh1.hy0.dimPos
    have hn1 : (baseOf (withPoints f P1)).mesh.points ≠ [] := by
      intro e
      have : ((specStripMap (withPoints f P1).mesh).map fun i => P1.getD i []) = [] := e
      exact bh1.conn (List.map_eq_nil_iff.mp this)
    have hI0lt : ∀ i ∈ I0, i < (specStripMap f.mesh).length := by
      intro i hi
      have := sortIdx_mem bh1.hy0 hn1 hI1 i hi
      rwa [baseOf_points_length, specStripMap_withPoints hl1] at this
    have hJlt : ∀ q ∈ J, q < f.mesh.points.length := by
      intro q hq
      obtain ⟨i, hi, rfl⟩ := List.mem_map.mp hq
      exact (((specStripMap_spec f).mem_iff _).mp (getD_mem (hI0lt i hi) 0)).1
    have hrows : ∀ (P : List (List Int)), P.length = f.mesh.points.length →
        (∀ r ∈ P, r.length = f.mesh.dim) → ∀ r ∈ J.map (fun i => P.getD i []), r.length = f.mesh.dim := by
      intro P hl hP r hr
      obtain ⟨q, hq, rfl⟩ := List.mem_map.mp hr
      have hq' : q < P.length := by rw [hl]; exact hJlt q hq
      rw [Fc.getD_of_lt _ _ hq']
      exact hP _ (List.getElem_mem hq')
    have hlQ : Q1.length = Q2.length := by simp only [Q1, Q2, List.length_map]
    have ht1 : t1 = meshTolOf (withPoints f P1).mesh := meshTolOf_relabelF κ1 hρ1'
    have hb : boundsOk t1 A B M = true := by rw [ht1]; exact bh1.hy0.sepP.bounds
    refine pointsArr_close (t := t1) (d := f.mesh.dim) (P := Q2) (Q := Q1) hd hlQ
      (hrows P2 hl2 bh2.wf.rows) (hrows P1 hl1 bh1.wf.rows) ?_
    intro k hk j hj
    have hkJ : k < J.length := by simpa only [Q2, List.length_map] using hk
    have eq1 : Q1.getD k [] = P1.getD (J.getD k 0) [] := by
      simp only [Q1]
      rw [Fc.getD_of_lt _ _ (by rw [List.length_map]; exact hkJ), List.getElem_map, Fc.getD_of_lt J 0 hkJ]
    have eq2 : Q2.getD k [] = P2.getD (J.getD k 0) [] := by
      simp only [Q2]
      rw [Fc.getD_of_lt _ _ (by rw [List.length_map]; exact hkJ), List.getElem_map, Fc.getD_of_lt J 0 hkJ]
    rw [eq1, eq2]
    exact closeFz_of_near hb (hnear _ (hJlt _ (getD_mem hkJ 0)) j hj)

/-- **rungs 2/3 of the ladder pass on a noisy relabelled pair** (whatever happened on the earlier rungs) -/
theorem reorder_noisy (hS : IsArgsort asS) (hR : IsArgsort asR)
    (bh1 : BaseHyp h (withPoints f P1) A B M C) (bh2 : BaseHyp h (withPoints f P2) A B M C)
    (hl1 : P1.length = f.mesh.points.length) (hl2 : P2.length = f.mesh.points.length) {I0 : List Nat}
    (hI1 : sortPointsIdx argsortStable (meshTolOf (withPoints f P1).mesh) (baseOf (withPoints f P1)).mesh = some I0)
    (hI2 : sortPointsIdx argsortStable (meshTolOf (withPoints f P2).mesh) (baseOf (withPoints f P2)).mesh = some I0)
    (hnear : ∀ i, i < f.mesh.points.length → ∀ j, j < f.mesh.dim →
      ((P1.getD i []).getD j 0 - (P2.getD i []).getD j 0).natAbs ≤ A)
    {ρ1 ρ2 : List Nat} {κ1 κ2 : String → List Nat}
    (hρ1 : ρ1.Perm (List.range f.mesh.points.length)) (hρ2 : ρ2.Perm (List.range f.mesh.points.length))
    (hκ1 : CellMapsOk f κ1) (hκ2 : CellMapsOk f κ2) (lastRung : Nat) (last : Outcome) :
    ladderPasses (ladderReorder asS asR h {}
      ⟨relabelF ρ1 κ1 (withPoints f P1), meshTolOf (relabelF ρ1 κ1 (withPoints f P1)).mesh, false⟩
      ⟨relabelF ρ2 κ2 (withPoints f P2), meshTolOf (relabelF ρ2 κ2 (withPoints f P2)).mesh, false⟩
      lastRung last) = true := by
  obtain ⟨hs, hk1, hk2, eS, eR, hpts⟩ := permuted_noisy hS hR bh1 bh2 hl1 hl2 hI1 hI2 hnear hρ1 hρ2 hκ1 hκ2
  unfold ladderReorder
  simp only [Bool.false_eq_true, if_false, eS, eR]
  exact rungs23_noisy hS hR hs hk1 hk2 _ _ _ _ hpts

/-- the default ladder on a noisy relabelled pair passes as soon as a domain check that passes AS STORED is
    followed by passing fields (`hearly0`; discharged by `rung0_noisy`) -/
theorem ladder_noisy (hS : IsArgsort asS) (hR : IsArgsort asR)
    (bh1 : BaseHyp h (withPoints f P1) A B M C) (bh2 : BaseHyp h (withPoints f P2) A B M C)
    (hl1 : P1.length = f.mesh.points.length) (hl2 : P2.length = f.mesh.points.length) {I0 : List Nat}
    (hI1 : sortPointsIdx argsortStable (meshTolOf (withPoints f P1).mesh) (baseOf (withPoints f P1)).mesh = some I0)
    (hI2 : sortPointsIdx argsortStable (meshTolOf (withPoints f P2).mesh) (baseOf (withPoints f P2)).mesh = some I0)
    (hnear : ∀ i, i < f.mesh.points.length → ∀ j, j < f.mesh.dim →
      ((P1.getD i []).getD j 0 - (P2.getD i []).getD j 0).natAbs ≤ A)
    {ρ1 ρ2 : List Nat} {κ1 κ2 : String → List Nat}
    (hρ1 : ρ1.Perm (List.range f.mesh.points.length)) (hρ2 : ρ2.Perm (List.range f.mesh.points.length))
    (hκ1 : CellMapsOk f κ1) (hκ2 : CellMapsOk f κ2)
    (hearly0 : (C02.runComparison
        ⟨relabelF ρ1 κ1 (withPoints f P1), meshTolOf (relabelF ρ1 κ1 (withPoints f P1)).mesh, false⟩
        ⟨relabelF ρ2 κ2 (withPoints f P2), meshTolOf (relabelF ρ2 κ2 (withPoints f P2)).mesh, false⟩).domainEq = true →
      allPassed (C02.runComparison
        ⟨relabelF ρ1 κ1 (withPoints f P1), meshTolOf (relabelF ρ1 κ1 (withPoints f P1)).mesh, false⟩
        ⟨relabelF ρ2 κ2 (withPoints f P2), meshTolOf (relabelF ρ2 κ2 (withPoints f P2)).mesh, false⟩) = true) :
    ladderPasses (ladder asS asR h {} (relabelF ρ1 κ1 (withPoints f P1)) (relabelF ρ2 κ2 (withPoints f P2))) = true := by
  have hre := reorder_noisy hS hR bh1 bh2 hl1 hl2 hI1 hI2 hnear hρ1 hρ2 hκ1 hκ2
  unfold ladder
  have hdim : (relabelF ρ1 κ1 (withPoints f P1)).mesh.dim = (relabelF ρ2 κ2 (withPoints f P2)).mesh.dim := rfl
  simp only [hdim, ne_eq, not_true_eq_false, decide_false, Bool.false_and, Bool.false_eq_true, if_false]
  split
  · rename_i h0
    simp only [ladderPasses]
    exact hearly0 h0
  · exact hre _ _

end core
/-! ### rung 0: the pair as stored -/

/-- the coordinate values of column `j` of the clean data set and of both coordinate variants, as stored -/
def storedCol (f : MeshFields) (P1 P2 : List (List Int)) (j : Nat) : List Int :=
  (f.mesh.points ++ P1 ++ P2).map (rowKey j)

/-- joint `Sep` of the data AS STORED (orphan points included) — needed only for the as-is rung: the dichotomy
    for the stored coordinate values of the clean data set and of both variants, magnitudes `≤ M`, the float side
    conditions for the minimum tolerance the as-is rung uses and for the tolerances of the clean data set, and
    both variants within `A` of the clean coordinates -/
structure StoredJoint (f : MeshFields) (P1 P2 : List (List Int)) (A B M : Nat) : Prop where
  hAB : 2 * A ≤ B
  sep : ∀ j, j < f.mesh.dim → sepCol A B (storedCol f P1 P2 j) = true
  mag : ∀ j, j < f.mesh.dim → ∀ v ∈ storedCol f P1 P2 j, v.natAbs ≤ M
  boundsMin : boundsOk ⟨min (meshTolOf (withPoints f P1).mesh).atol (meshTolOf (withPoints f P2).mesh).atol,
      min (meshTolOf (withPoints f P1).mesh).rtol (meshTolOf (withPoints f P2).mesh).rtol⟩ A B M = true
  bounds0 : boundsOk (meshTolOf f.mesh) A B M = true
  near1 : NearPts f.mesh.dim f.mesh.points P1 A
  near2 : NearPts f.mesh.dim f.mesh.points P2 A

theorem storedCol_mem0 {f : MeshFields} {P1 P2 : List (List Int)} {i : Nat} (hi : i < f.mesh.points.length) (j : Nat) :
    (f.mesh.points.getD i []).getD j 0 ∈ storedCol f P1 P2 j := by
  unfold storedCol
  rw [Fc.getD_of_lt _ _ hi]
  exact List.mem_map.mpr ⟨_, List.mem_append_left _ (List.mem_append_left _ (List.getElem_mem hi)), rfl⟩

theorem storedCol_mem1 {f : MeshFields} {P1 P2 : List (List Int)} {i : Nat} (hi : i < P1.length) (j : Nat) :
    (P1.getD i []).getD j 0 ∈ storedCol f P1 P2 j := by
  unfold storedCol
  rw [Fc.getD_of_lt _ _ hi]
  exact List.mem_map.mpr ⟨_, List.mem_append_left _ (List.mem_append_right _ (List.getElem_mem hi)), rfl⟩

theorem storedCol_mem2 {f : MeshFields} {P1 P2 : List (List Int)} {i : Nat} (hi : i < P2.length) (j : Nat) :
    (P2.getD i []).getD j 0 ∈ storedCol f P1 P2 j := by
  unfold storedCol
  rw [Fc.getD_of_lt _ _ hi]
  exact List.mem_map.mpr ⟨_, List.mem_append_right _ (List.getElem_mem hi), rfl⟩

section rung0
variable {h : List Nat → Int} {f : MeshFields} {P1 P2 : List (List Int)} {A B M : Nat} {C : List (List Int)}

theorem map_getD_rows {d : Nat} {P : List (List Int)} (hP : ∀ r ∈ P, r.length = d) {ρ : List Nat}
    (hρ : ∀ q ∈ ρ, q < P.length) : ∀ r ∈ ρ.map (fun i => P.getD i []), r.length = d := by
  intro r hr
  obtain ⟨q, hq, rfl⟩ := List.mem_map.mp hr
  rw [Fc.getD_of_lt _ _ (hρ q hq)]
  exact hP _ (List.getElem_mem (hρ q hq))

theorem map_getD_getD {P : List (List Int)} {ρ : List Nat} {k : Nat} (hk : k < ρ.length) :
    (ρ.map fun i => P.getD i []).getD k [] = P.getD (ρ.getD k 0) [] := by
  rw [Fc.getD_of_lt _ _ (by rw [List.length_map]; exact hk), List.getElem_map, Fc.getD_of_lt ρ 0 hk]

/-- **the as-is rung on a noisy relabelled pair**: if `mesh_equal` (minimum tolerances) accepts the two data sets
    as stored, the two point orders agree (rigidity of the clean data set: `Sep ∧ Distinguishable` of `f.mesh` as
    stored + `CentreSlack`), the cell orders agree, and every field passes -/
theorem rung0_noisy (bh1 : BaseHyp h (withPoints f P1) A B M C) (bh2 : BaseHyp h (withPoints f P2) A B M C)
    {As Bs Ms : Nat} (sj : StoredJoint f P1 P2 As Bs Ms) (hwf : WFP f)
    {A' B' M' : Nat} {c' : List (List Int)} (hy : PointHypP (meshTolOf f.mesh) A' B' M' f.mesh c')
    (hslack : ∀ r ∈ allRows f.mesh, CentreSlack A' B' M' r.length)
    {as : List Int → List Nat} (has : IsArgsort as)
    (hdist : ∀ a ∈ pitems f.mesh, ∀ b ∈ pitems f.mesh,
      kvec (KC A' f.mesh) f.mesh.dim 0 a = kvec (KC A' f.mesh) f.mesh.dim 0 b →
      kvec (KM A' c' as (meshTolOf f.mesh) f.mesh) f.mesh.dim 0 a =
        kvec (KM A' c' as (meshTolOf f.mesh) f.mesh) f.mesh.dim 0 b → a = b)
    {ρ1 ρ2 : List Nat} {κ1 κ2 : String → List Nat}
    (hρ1 : ρ1.Perm (List.range f.mesh.points.length)) (hρ2 : ρ2.Perm (List.range f.mesh.points.length))
    (hκ1 : CellMapsOk f κ1) (hκ2 : CellMapsOk f κ2)
    (hd : (C02.runComparison
        ⟨relabelF ρ1 κ1 (withPoints f P1), meshTolOf (relabelF ρ1 κ1 (withPoints f P1)).mesh, false⟩
        ⟨relabelF ρ2 κ2 (withPoints f P2), meshTolOf (relabelF ρ2 κ2 (withPoints f P2)).mesh, false⟩).domainEq = true) :
    allPassed (C02.runComparison
        ⟨relabelF ρ1 κ1 (withPoints f P1), meshTolOf (relabelF ρ1 κ1 (withPoints f P1)).mesh, false⟩
        ⟨relabelF ρ2 κ2 (withPoints f P2), meshTolOf (relabelF ρ2 κ2 (withPoints f P2)).mesh, false⟩) = true := by
  have hl1 := sj.near1.len
  have hl2 := sj.near2.len
  have hρ1' : ρ1.Perm (List.range (withPoints f P1).mesh.points.length) := by
    show ρ1.Perm (List.range P1.length); rw [hl1]; exact hρ1
  have hρ2' : ρ2.Perm (List.range (withPoints f P2).mesh.points.length) := by
    show ρ2.Perm (List.range P2.length); rw [hl2]; exact hρ2
  have ht1 : meshTolOf (relabelF ρ1 κ1 (withPoints f P1)).mesh = meshTolOf (withPoints f P1).mesh :=
    meshTolOf_relabelF κ1 hρ1'
  have ht2 : meshTolOf (relabelF ρ2 κ2 (withPoints f P2)).mesh = meshTolOf (withPoints f P2).mesh :=
    meshTolOf_relabelF κ2 hρ2'
  have hlen1 : ρ1.length = f.mesh.points.length := by simpa using hρ1.length_eq
  have hlen2 : ρ2.length = f.mesh.points.length := by simpa using hρ2.length_eq
  have hlt1 : ∀ q ∈ ρ1, q < f.mesh.points.length := fun q hq => List.mem_range.mp (hρ1.mem_iff.mp hq)
  have hlt2 : ∀ q ∈ ρ2, q < f.mesh.points.length := fun q hq => List.mem_range.mp (hρ2.mem_iff.mp hq)
  have hd1 : 1 ≤ f.mesh.dim := bh1.hy0.dimPos
  -- the accepted as-is comparison, split
  have heq := (domainEq_iff _ _).mp hd
  simp only [Bool.false_eq_true, if_false, ht1, ht2] at heq
  rw [relabelF_withPoints, relabelF_withPoints, meshEqual_split, Bool.and_eq_true] at heq
  obtain ⟨hpts, hcells⟩ := heq
  have hpts' := beq_iff_eq.mp hpts
  -- (1) the clean pair is accepted under the tolerances of `f`
  have hclean : meshEqual (meshTolOf f.mesh) (relabelF ρ1 κ1 f).mesh (relabelF ρ2 κ2 f).mesh = true := by
    rw [meshEqual_split, Bool.and_eq_true]
    refine ⟨?_, hcells⟩
    rw [beq_iff_eq]
    show fuzzyCheck _ _ ⟨.flt f64, [(ρ1.map fun i => f.mesh.points.getD i []).length, f.mesh.dim],
        (ρ1.map fun i => f.mesh.points.getD i []).flatten⟩
      ⟨.flt f64, [(ρ2.map fun i => f.mesh.points.getD i []).length, f.mesh.dim],
        (ρ2.map fun i => f.mesh.points.getD i []).flatten⟩ = .ok true
    refine pointsArr_close hd1 (by rw [List.length_map, List.length_map, hlen1, hlen2])
      (map_getD_rows hwf.rows hlt2) (map_getD_rows hwf.rows hlt1) ?_
    intro k hk j hj
    have hk2 : k < ρ2.length := by simpa using hk
    have hk1 : k < ρ1.length := by rw [hlen1, ← hlen2]; exact hk2
    rw [map_getD_getD hk1, map_getD_getD hk2]
    have hq1 := hlt1 _ (getD_mem hk1 0)
    have hq2 := hlt2 _ (getD_mem hk2 0)
    -- what the noisy comparison says about position `k`
    have hc := pointsArr_close_inv (t := ⟨min (meshTolOf (withPoints f P1).mesh).atol (meshTolOf (withPoints f P2).mesh).atol,
        min (meshTolOf (withPoints f P1).mesh).rtol (meshTolOf (withPoints f P2).mesh).rtol⟩) (d := f.mesh.dim)
      (P := ρ2.map fun i => P2.getD i []) (Q := ρ1.map fun i => P1.getD i [])
      (by rw [List.length_map, List.length_map, hlen1, hlen2])
      (map_getD_rows bh2.wf.rows (fun q hq => by show q < P2.length; rw [hl2]; exact hlt2 q hq))
      (map_getD_rows bh1.wf.rows (fun q hq => by show q < P1.length; rw [hl1]; exact hlt1 q hq)) hpts'
      (k := k) (j := j) (by rw [List.length_map]; exact hk2) hj
    rw [map_getD_getD hk1, map_getD_getD hk2] at hc
    set u := (f.mesh.points.getD (ρ1.getD k 0) []).getD j 0 with hu
    set v := (f.mesh.points.getD (ρ2.getD k 0) []).getD j 0 with hv
    set u' := (P1.getD (ρ1.getD k 0) []).getD j 0 with hu'
    set v' := (P2.getD (ρ2.getD k 0) []).getD j 0 with hv'
    have mu : u ∈ storedCol f P1 P2 j := storedCol_mem0 hq1 j
    have mv : v ∈ storedCol f P1 P2 j := storedCol_mem0 hq2 j
    have mu' : u' ∈ storedCol f P1 P2 j := storedCol_mem1 (by rw [hl1]; exact hq1) j
    have mv' : v' ∈ storedCol f P1 P2 j := storedCol_mem2 (by rw [hl2]; exact hq2) j
    have hsep := sj.sep j hj
    have n1 : (u' - u).natAbs ≤ As := sj.near1.near _ hq1 j hj
    have n2 : (v' - v).natAbs ≤ As := sj.near2.near _ hq2 j hj
    have n3 : (u' - v').natAbs ≤ As := by
      rcases (sepCol_iff As Bs _).mp hsep u' mu' v' mv' with h' | h'
      · exact h'
      · have := closeFz_of_far sj.boundsMin (sj.mag j hj u' mu') (sj.mag j hj v' mv') h'
        rw [hc] at this
        cases this
    have n4 : (u - v').natAbs ≤ As := near_trans hsep sj.hAB mu mv' (by omega) n3
    have n5 : (u - v).natAbs ≤ As := near_trans hsep sj.hAB mu mv n4 n2
    exact closeFz_of_near sj.bounds0 n5
  -- (2) rigidity of the clean data set
  have hρ := rigid_of_distinguishable hwf hy hslack has hdist hρ1 hρ2 hκ1 hκ2 hclean
  subst hρ
  -- (3) same point order: two cell orders of one view
  have hcov := covers_of_perm bh1.wf hρ1'
  exact runComparison_noisy_views (s := applyPointMap f ρ1)
    (by rw [cellTypes_applyPointMap]; exact hwf.types) (bh1.vertexSets hcov)
    (hκ1.pointMap _) (hκ2.pointMap _) _ _ _ _ _ _ hd

end rung0

end Fc.Resid2
