/-
  FcProofs.Lemmas.Resid2Ladder — the comparator ladder on a noisy relabelled pair.

  `permuted_noisy`: `_permute` of `relabelF ρ₁ κ₁ (withPoints f P₁)` and of `relabelF ρ₂ κ₂ (withPoints f P₂)` (two
  coordinate variants of one data set whose stable point sorts return the same index map `I0`) are
  `withPoints (applyCellMaps s κᵢ) Qᵢ` for ONE point-sorted view `s = pointSorted f I0`: identical connectivity and
  field arrays, coordinates `Qᵢ = Pᵢ[J]` row by row, and the point check of `mesh_equal` accepts `Q₁` against `Q₂`
  under the tolerances of the source.  `reorder_noisy`: rungs 2/3 pass.  `rung0_noisy`: a domain check that
  already passes as stored forces `ρ₁ = ρ₂` (rigidity of the clean data set) and the fields pass.
-/
import FcProofs.Lemmas.Resid2Views
namespace Fc.Resid2
open Fc Fc.C02 Fc.C02.Spec Fc.Resid

section core
variable {asS asR : List Int → List Nat} {h : List Nat → Int} {f : MeshFields} {P1 P2 : List (List Int)}
  {A B M : Nat} {C : List (List Int)}

theorem cellHyp_withPoints {s : MeshFields} {Q : List (List Int)} (hs : CellHypP h (withPoints s Q)) :
    CellHypP h s := ⟨hs.types, hs.cf, hs.hash⟩

theorem sortIdx_mem {t : MeshTol} {m : Mesh} {c : List (List Int)} (hy : PointHypP t A B M m c)
    (hn : m.points ≠ []) {I0 : List Nat} (hI : sortPointsIdx argsortStable t m = some I0) :
    ∀ i ∈ I0, i < m.points.length := by
  obtain ⟨L, eL, pL, _⟩ := sortPointsItems_spec isArgsort_stable hy hn
  unfold sortPointsIdx at hI
  rw [eL] at hI
  cases hI
  intro i hi
  obtain ⟨a, ha, rfl⟩ := List.mem_map.mp hi
  exact pitems_fst_lt (pL.mem_iff.mp ha)

/-- **the two `_permute` results of a noisy relabelled pair**: one point-sorted view, two coordinate arrays
    that pass the point check -/
theorem permuted_noisy (hS : IsArgsort asS) (hR : IsArgsort asR)
    (bh1 : BaseHyp h (withPoints f P1) A B M C) (bh2 : BaseHyp h (withPoints f P2) A B M C)
    (hl1 : P1.length = f.mesh.points.length) (hl2 : P2.length = f.mesh.points.length) {I0 : List Nat}
    (hI1 : sortPointsIdx argsortStable (meshTolOf (withPoints f P1).mesh) (baseOf (withPoints f P1)).mesh = some I0)
    (hI2 : sortPointsIdx argsortStable (meshTolOf (withPoints f P2).mesh) (baseOf (withPoints f P2)).mesh = some I0)
    (hnear : ∀ i, i < f.mesh.points.length → ∀ j, j < f.mesh.dim →
      ((P1.getD i []).getD j 0 - (P2.getD i []).getD j 0).natAbs ≤ A)
    {ρ1 ρ2 : List Nat} {κ1 κ2 : String → List Nat}
    (hρ1 : ρ1.Perm (List.range f.mesh.points.length)) (hρ2 : ρ2.Perm (List.range f.mesh.points.length))
    (hκ1 : CellMapsOk f κ1) (hκ2 : CellMapsOk f κ2) :
    let J := I0.map ((specStripMap f.mesh).getD · 0)
    let s := pointSorted f I0
    let Q1 := J.map fun i => P1.getD i []
    let Q2 := J.map fun i => P2.getD i []
    let t1 := meshTolOf (relabelF ρ1 κ1 (withPoints f P1)).mesh
    let t2 := meshTolOf (relabelF ρ2 κ2 (withPoints f P2)).mesh
    CellHypP h s ∧
    (∀ ct, (κ1 ct).Perm (List.range (s.mesh.cellsOf ct).length)) ∧
    (∀ ct, (κ2 ct).Perm (List.range (s.mesh.cellsOf ct).length)) ∧
    permuteSide asS {} ⟨relabelF ρ1 κ1 (withPoints f P1), t1, false⟩ =
      some ⟨withPoints (applyCellMaps s κ1) Q1, t1, true⟩ ∧
    permuteSide asR {} ⟨relabelF ρ2 κ2 (withPoints f P2), t2, false⟩ =
      some ⟨withPoints (applyCellMaps s κ2) Q2, t2, true⟩ ∧
    fuzzyCheck (.num t1.rtol) (.num t1.atol) ⟨.flt f64, [Q1.length, s.mesh.dim], Q1.flatten⟩
      ⟨.flt f64, [Q2.length, s.mesh.dim], Q2.flatten⟩ = .ok true := by
  intro J s Q1 Q2 t1 t2
  have hρ1' : ρ1.Perm (List.range (withPoints f P1).mesh.points.length) := by
    show ρ1.Perm (List.range P1.length); rw [hl1]; exact hρ1
  have hρ2' : ρ2.Perm (List.range (withPoints f P2).mesh.points.length) := by
    show ρ2.Perm (List.range P2.length); rw [hl2]; exact hρ2
  have hκ1' : CellMapsOk (withPoints f P1) κ1 := hκ1
  have hκ2' : CellMapsOk (withPoints f P2) κ2 := hκ2
  obtain ⟨I1, e1, _, eS⟩ := permuteSide_relabelF hS bh1 hρ1' hκ1'
  obtain ⟨I2, e2, _, eR⟩ := permuteSide_relabelF hR bh2 hρ2' hκ2'
  rw [hI1] at e1
  rw [hI2] at e2
  cases e1
  cases e2
  have hs1 : CellHypP h (pointSorted (withPoints f P1) I0) := bh1.cellHyp hI1
  rw [pointSorted_withPoints hl1] at hs1
  have hs : CellHypP h s := cellHyp_withPoints hs1
  have hk1 : ∀ ct, (κ1 ct).Perm (List.range (s.mesh.cellsOf ct).length) := hκ1.pointMap _
  have hk2 : ∀ ct, (κ2 ct).Perm (List.range (s.mesh.cellsOf ct).length) := hκ2.pointMap _
  refine ⟨hs, hk1, hk2, ?_, ?_, ?_⟩
  · rw [eS, pointSorted_withPoints hl1]
    rfl
  · rw [eR, pointSorted_withPoints hl2]
    rfl
  · -- the point check
    have hd : 1 ≤ f.mesh.dim := bh1.hy0.dimPos
    have hn1 : (baseOf (withPoints f P1)).mesh.points ≠ [] := by
      intro e
      have : ((specStripMap (withPoints f P1).mesh).map fun i => P1.getD i []) = [] := e
      exact bh1.conn (List.map_eq_nil_iff.mp this)
    have hI0lt : ∀ i ∈ I0, i < (specStripMap f.mesh).length := by
      intro i hi
      have := sortIdx_mem bh1.hy0 hn1 hI1 i hi
      rwa [baseOf_points_length, specStripMap_withPoints hl1] at this
    have hJlt : ∀ q ∈ J, q < f.mesh.points.length := by
      intro q hq
      obtain ⟨i, hi, rfl⟩ := List.mem_map.mp hq
      exact (((specStripMap_spec f).mem_iff _).mp (getD_mem (hI0lt i hi) 0)).1
    have hrows : ∀ (P : List (List Int)), P.length = f.mesh.points.length →
        (∀ r ∈ P, r.length = f.mesh.dim) → ∀ r ∈ J.map (fun i => P.getD i []), r.length = f.mesh.dim := by
      intro P hl hP r hr
      obtain ⟨q, hq, rfl⟩ := List.mem_map.mp hr
      have hq' : q < P.length := by rw [hl]; exact hJlt q hq
      rw [Fc.getD_of_lt _ _ hq']
      exact hP _ (List.getElem_mem hq')
    have hlQ : Q1.length = Q2.length := by simp only [Q1, Q2, List.length_map]
    have ht1 : t1 = meshTolOf (withPoints f P1).mesh := meshTolOf_relabelF κ1 hρ1'
    have hb : boundsOk t1 A B M = true := by rw [ht1]; exact bh1.hy0.sepP.bounds
    refine pointsArr_close (t := t1) (d := f.mesh.dim) (P := Q2) (Q := Q1) hd hlQ
      (hrows P2 hl2 bh2.wf.rows) (hrows P1 hl1 bh1.wf.rows) ?_
    intro k hk j hj
    have hkJ : k < J.length := by simpa only [Q2, List.length_map] using hk
    have eq1 : Q1.getD k [] = P1.getD (J.getD k 0) [] := by
      simp only [Q1]
      rw [Fc.getD_of_lt _ _ (by rw [List.length_map]; exact hkJ), List.getElem_map, Fc.getD_of_lt J 0 hkJ]
    have eq2 : Q2.getD k [] = P2.getD (J.getD k 0) [] := by
      simp only [Q2]
      rw [Fc.getD_of_lt _ _ (by rw [List.length_map]; exact hkJ), List.getElem_map, Fc.getD_of_lt J 0 hkJ]
    rw [eq1, eq2]
    exact closeFz_of_near hb (hnear _ (hJlt _ (getD_mem hkJ 0)) j hj)

/-- **rungs 2/3 of the ladder pass on a noisy relabelled pair** (whatever happened on the earlier rungs) -/
theorem reorder_noisy (hS : IsArgsort asS) (hR : IsArgsort asR)
    (bh1 : BaseHyp h (withPoints f P1) A B M C) (bh2 : BaseHyp h (withPoints f P2) A B M C)
    (hl1 : P1.length = f.mesh.points.length) (hl2 : P2.length = f.mesh.points.length) {I0 : List Nat}
    (hI1 : sortPointsIdx argsortStable (meshTolOf (withPoints f P1).mesh) (baseOf (withPoints f P1)).mesh = some I0)
    (hI2 : sortPointsIdx argsortStable (meshTolOf (withPoints f P2).mesh) (baseOf (withPoints f P2)).mesh = some I0)
    (hnear : ∀ i, i < f.mesh.points.length → ∀ j, j < f.mesh.dim →
      ((P1.getD i []).getD j 0 - (P2.getD i []).getD j 0).natAbs ≤ A)
    {ρ1 ρ2 : List Nat} {κ1 κ2 : String → List Nat}
    (hρ1 : ρ1.Perm (List.range f.mesh.points.length)) (hρ2 : ρ2.Perm (List.range f.mesh.points.length))
    (hκ1 : CellMapsOk f κ1) (hκ2 : CellMapsOk f κ2) (lastRung : Nat) (last : Outcome) :
    ladderPasses (ladderReorder asS asR h {}
      ⟨relabelF ρ1 κ1 (withPoints f P1), meshTolOf (relabelF ρ1 κ1 (withPoints f P1)).mesh, false⟩
      ⟨relabelF ρ2 κ2 (withPoints f P2), meshTolOf (relabelF ρ2 κ2 (withPoints f P2)).mesh, false⟩
      lastRung last) = true := by
  obtain ⟨hs, hk1, hk2, eS, eR, hpts⟩ := permuted_noisy hS hR bh1 bh2 hl1 hl2 hI1 hI2 hnear hρ1 hρ2 hκ1 hκ2
  unfold ladderReorder
  simp only [Bool.false_eq_true, if_false, eS, eR]
  exact rungs23_noisy hS hR hs hk1 hk2 _ _ _ _ hpts

/-- the default ladder on a noisy relabelled pair passes as soon as a domain check that passes AS STORED is
    followed by passing fields (`hearly0`; discharged by `rung0_noisy`) -/
theorem ladder_noisy (hS : IsArgsort asS) (hR : IsArgsort asR)
    (bh1 : BaseHyp h (withPoints f P1) A B M C) (bh2 : BaseHyp h (withPoints f P2) A B M C)
    (hl1 : P1.length = f.mesh.points.length) (hl2 : P2.length = f.mesh.points.length) {I0 : List Nat}
    (hI1 : sortPointsIdx argsortStable (meshTolOf (withPoints f P1).mesh) (baseOf (withPoints f P1)).mesh = some I0)
    (hI2 : sortPointsIdx argsortStable (meshTolOf (withPoints f P2).mesh) (baseOf (withPoints f P2)).mesh = some I0)
    (hnear : ∀ i, i < f.mesh.points.length → ∀ j, j < f.mesh.dim →
      ((P1.getD i []).getD j 0 - (P2.getD i []).getD j 0).natAbs ≤ A)
    {ρ1 ρ2 : List Nat} {κ1 κ2 : String → List Nat}
    (hρ1 : ρ1.Perm (List.range f.mesh.points.length)) (hρ2 : ρ2.Perm (List.range f.mesh.points.length))
    (hκ1 : CellMapsOk f κ1) (hκ2 : CellMapsOk f κ2)
    (hearly0 : (C02.runComparison
        ⟨relabelF ρ1 κ1 (withPoints f P1), meshTolOf (relabelF ρ1 κ1 (withPoints f P1)).mesh, false⟩
        ⟨relabelF ρ2 κ2 (withPoints f P2), meshTolOf (relabelF ρ2 κ2 (withPoints f P2)).mesh, false⟩).domainEq = true →
      allPassed (C02.runComparison
        ⟨relabelF ρ1 κ1 (withPoints f P1), meshTolOf (relabelF ρ1 κ1 (withPoints f P1)).mesh, false⟩
        ⟨relabelF ρ2 κ2 (withPoints f P2), meshTolOf (relabelF ρ2 κ2 (withPoints f P2)).mesh, false⟩) = true) :
    ladderPasses (ladder asS asR h {} (relabelF ρ1 κ1 (withPoints f P1)) (relabelF ρ2 κ2 (withPoints f P2))) = true := by
  have hre := reorder_noisy hS hR bh1 bh2 hl1 hl2 hI1 hI2 hnear hρ1 hρ2 hκ1 hκ2
  unfold ladder
  have hdim : (relabelF ρ1 κ1 (withPoints f P1)).mesh.dim = (relabelF ρ2 κ2 (withPoints f P2)).mesh.dim := rfl
  simp only [hdim, ne_eq, not_true_eq_false, decide_false, Bool.false_and, Bool.false_eq_true, if_false]
  split
  · rename_i h0
    simp only [ladderPasses]
    exact hearly0 h0
  · exact hre _ _

end core
end Fc.Resid2
