/-
  FcProofs.Lemmas.LexsortLoop — refinement of the loop-with-positional-mask form of
  `get_fuzzy_lex_sorting_index_map` (the model `Fc.lexLoop` / `Fc.fuzzyLexSortBy`, what the Python
  code does) to the segment form `Fc.segSort`:

      fuzzyLexSortBy srt close key ncols l  =  segSort (fun j => srt (key j)) K ncols 0 l

  for EVERY sorter `srt` that returns permutations (sortedness is not even needed for the
  refinement), provided "close" on the occurring values of every column is equality of the cluster
  keys `K j`.  `logical_and` of the masks = splitting inside the segments (`mask_and_adjEq`).
-/
import FcProofs.Lemmas.LexsortSeg
import FcProofs.Lemmas.LexsortRuns
namespace Fc.C02
variable {α : Type}

/-- the adjacent-pair test along a list, with the trailing `False` -/
def adjEqBy (e : α → α → Bool) : List α → List Bool
  | a :: b :: t => e a b :: adjEqBy e (b :: t)
  | _ => [false]

/-- adjacent equality of keys, with the trailing `False` -/
abbrev adjEq (k : α → Int) : List α → List Bool := adjEqBy fun a b => k a == k b

/-- the run detection of the code computes `adjEq` of the cluster keys when "close" is equality
    of cluster keys on the items in play -/
theorem adjacentClose_eq_adjEq (close : Int → Int → Bool) (key k : α → Int) :
    ∀ l : List α, (∀ a ∈ l, ∀ b ∈ l, close (key a) (key b) = (k a == k b)) →
      adjacentClose close (l.map key) = adjEq k l
  | [], _ => rfl
  | [_], _ => rfl
  | a :: b :: t, h => by
    have ih := adjacentClose_eq_adjEq close key k (b :: t)
      (fun x hx y hy => h x (List.mem_cons_of_mem _ hx) y (List.mem_cons_of_mem _ hy))
    simp only [List.map_cons, adjacentClose, adjEq, adjEqBy] at ih ⊢
    rw [ih, h a (List.mem_cons_self ..) b (List.mem_cons_of_mem _ (List.mem_cons_self ..))]

/-- the mask of the split of one group is its adjacent-test mask -/
theorem adjEqBy_eq_maskOf_splitBy (e : α → α → Bool) :
    ∀ g : List α, g ≠ [] → adjEqBy e g = maskOf (splitBy e g)
  | [], h => absurd rfl h
  | [_], _ => by simp [adjEqBy, splitBy, maskOf1]
  | a :: b :: t, _ => by
    have ih := adjEqBy_eq_maskOf_splitBy e (b :: t) (by simp)
    obtain ⟨h, hs, hh⟩ := splitBy_cons_head e b t
    simp only [adjEqBy]
    rw [splitBy_cons_cons e a b t _ _ hh, ih, hh]
    cases hk : e a b <;> simp [maskOf1]

theorem adjEq_eq_maskOf_splitKey (k : α → Int) (g : List α) (hg : g ≠ []) :
    adjEq k g = maskOf (splitKey k g) := adjEqBy_eq_maskOf_splitBy _ g hg

/-- **`logical_and` of the masks = splitting inside the segments.** -/
theorem mask_and_adjEqBy (e : α → α → Bool) :
    ∀ (gs : List (List α)), (∀ g ∈ gs, g ≠ []) →
      List.zipWith (· && ·) (maskOf gs) (adjEqBy e gs.flatten) = maskOf (gs.flatMap (splitBy e))
  | [], _ => by simp
  | g :: gs, hne => by
    have hne' : ∀ g' ∈ gs, g' ≠ [] := fun g' h' => hne g' (List.mem_cons_of_mem _ h')
    have ihO := mask_and_adjEqBy e gs hne'
    have hg : g ≠ [] := hne g (List.mem_cons_self ..)
    -- inner induction over the first group
    have inner : ∀ (g : List α), g ≠ [] →
        List.zipWith (· && ·) (maskOf1 g ++ maskOf gs) (adjEqBy e (g ++ gs.flatten)) =
          maskOf (splitBy e g) ++ maskOf (gs.flatMap (splitBy e)) := by
      intro g
      induction g with
      | nil => intro h; exact absurd rfl h
      | cons a g' ih =>
        intro _
        cases g' with
        | nil =>
          simp only [maskOf1, List.cons_append, List.nil_append, splitBy, maskOf_cons, maskOf_nil,
            List.append_nil]
          cases hfl : gs.flatten with
          | nil =>
            have hgs : gs = [] := by
              cases gs with
              | nil => rfl
              | cons g2 gs2 =>
                have : g2 ≠ [] := hne' g2 (List.mem_cons_self ..)
                simp only [List.flatten_cons, List.append_eq_nil_iff] at hfl
                exact absurd hfl.1 this
            subst hgs
            simp [adjEqBy]
          | cons c u =>
            rw [hfl] at ihO
            simp only [adjEqBy, List.zipWith_cons_cons, Bool.false_and]
            rw [ihO]
        | cons b t =>
          have ih' := ih (by simp)
          obtain ⟨h, hs, hh⟩ := splitBy_cons_head e b t
          simp only [maskOf1, List.cons_append, adjEqBy, List.zipWith_cons_cons, Bool.true_and] at ih' ⊢
          rw [ih', splitBy_cons_cons e a b t (b :: h) hs hh, hh]
          cases hk : e a b <;> simp [maskOf1]
    simp only [maskOf_cons, List.flatten_cons, List.flatMap_cons]
    rw [inner g hg]
    simp [maskOf]

theorem mask_and_adjEq (k : α → Int) (gs : List (List α)) (hne : ∀ g ∈ gs, g ≠ []) :
    List.zipWith (· && ·) (maskOf gs) (adjEq k gs.flatten) = maskOf (gs.flatMap (splitKey k)) :=
  mask_and_adjEqBy _ gs hne

/-! ### breadth-first form of the segment sort -/

/-- one level of refinement: sort every group by column `j` and split it by the keys of column `j` -/
def refineSegs (srt : Nat → List α → List α) (K : Nat → α → Int) (j : Nat) (gs : List (List α)) :
    List (List α) :=
  gs.flatMap fun g => splitKey (K j) (srt j g)

theorem refineSegs_ne_nil (srt : Nat → List α → List α) (K : Nat → α → Int) (j : Nat) (gs : List (List α)) :
    ∀ g ∈ refineSegs srt K j gs, g ≠ [] := by
  intro g hg
  obtain ⟨g0, _, hg0⟩ := List.mem_flatMap.mp hg
  exact splitKey_ne_nil _ _ g hg0

theorem refineSegs_flatten (srt : Nat → List α → List α) (K : Nat → α → Int) (j : Nat) :
    ∀ gs : List (List α), (refineSegs srt K j gs).flatten = (gs.map (srt j)).flatten
  | [] => rfl
  | g :: gs => by
    have ih := refineSegs_flatten srt K j gs
    unfold refineSegs at ih ⊢
    simp only [List.flatMap_cons, List.flatten_append, List.map_cons, List.flatten_cons, splitKey_flatten, ih]

/-- depth-first = breadth-first: one more column on every group is one refinement level -/
theorem segSort_level (srt : Nat → List α → List α) (K : Nat → α → Int) (fuel j : Nat) :
    ∀ gs : List (List α),
      (gs.map (segSort srt K (fuel + 1) j)).flatten =
        ((refineSegs srt K j gs).map (segSort srt K fuel (j + 1))).flatten
  | [] => rfl
  | g :: gs => by
    have ih := segSort_level srt K fuel j gs
    unfold refineSegs at ih ⊢
    simp only [List.map_cons, List.flatten_cons, List.flatMap_cons, List.map_append, List.flatten_append, ih]
    rfl

theorem segSort_one (srt : Nat → List α → List α) (K : Nat → α → Int) (j : Nat) (g : List α) :
    segSort srt K 1 j g = srt j g := by
  simp [segSort, splitKey_flatten]

theorem map_segSort_one (srt : Nat → List α → List α) (K : Nat → α → Int) (j : Nat) (gs : List (List α)) :
    gs.map (segSort srt K 1 j) = gs.map (srt j) :=
  List.map_congr_left fun g _ => segSort_one srt K j g

/-! ### the loop -/

/-- what the refinement needs from the sorter: it returns permutations -/
def IsPermSorter (srt : (α → Int) → List α → List α) : Prop := ∀ k l, (srt k l).Perm l

theorem IsPermSorter.length {srt : (α → Int) → List α → List α} (h : IsPermSorter srt) (k l) :
    (srt k l).length = l.length := (h k l).length_eq

theorem IsPermSorter.singleton {srt : (α → Int) → List α → List α} (h : IsPermSorter srt) (k) (a : α) :
    srt k [a] = [a] := List.perm_singleton.mp (h k [a])

/-- hypothesis tying the code's closeness test to cluster keys on the items satisfying `P` -/
def CloseIsKey (P : α → Prop) (close : Int → Int → Bool) (key K : Nat → α → Int) (ncols : Nat) : Prop :=
  ∀ j, j < ncols → ∀ a b, P a → P b → close (key j a) (key j b) = (K j a == K j b)

/-- loop invariant ⇒ result: entering iteration `dim` with the groups `gs` (sorted by column
    `dim-1`, mask = group mask), `fuel` iterations later the list is the segment sort of the groups -/
theorem lexLoop_eq_segSort {P : α → Prop} {srt : (α → Int) → List α → List α} (hs : IsPermSorter srt)
    (close : Int → Int → Bool) (key K : Nat → α → Int) :
    ∀ (fuel dim : Nat) (gs : List (List α)), 1 ≤ dim → (∀ g ∈ gs, g ≠ []) → (∀ a ∈ gs.flatten, P a) →
      CloseIsKey P close key K (dim + fuel - 1) →
      lexLoop srt close key fuel dim (some (maskOf gs)) ((gs.map (srt (key (dim - 1)))).flatten) =
        (gs.map (segSort (fun j => srt (key j)) K (fuel + 1) (dim - 1))).flatten
  | 0, dim, gs, _, _, _, _ => by
    simp only [lexLoop]
    rw [map_segSort_one]
  | fuel + 1, dim, gs, hdim, hne, hP, hcl => by
    obtain ⟨d, rfl⟩ : ∃ d, dim = d + 1 := ⟨dim - 1, by omega⟩
    simp only [Nat.add_sub_cancel] at *
    -- the groups after sorting by column d
    set gs1 := gs.map (srt (key d)) with hgs1
    have hne1 : ∀ g ∈ gs1, g ≠ [] := by
      intro g hg
      obtain ⟨g0, hg0, rfl⟩ := List.mem_map.mp hg
      intro h0
      have := hs.length (key d) g0
      rw [h0] at this
      exact hne g0 hg0 (List.length_eq_zero_iff.mp this.symm)
    have hperm1 : gs1.flatten.Perm gs.flatten := flatten_map_perm (fun g => hs (key d) g) gs
    have hP1 : ∀ a ∈ gs1.flatten, P a := fun a ha => hP a (hperm1.mem_iff.mp ha)
    -- the new mask
    have hdimEq : adjacentClose close (gs1.flatten.map (key d)) = adjEq (K d) gs1.flatten :=
      adjacentClose_eq_adjEq close (key d) (K d) gs1.flatten
        (fun a ha b hb => hcl d (by omega) a b (hP1 a ha) (hP1 b hb))
    have hmask1 : maskOf gs1 = maskOf gs := maskOf_map_congr _ (fun g => hs.length (key d) g) gs
    set gs2 := refineSegs (fun j => srt (key j)) K d gs with hgs2
    have hgs2' : gs2 = gs1.flatMap (splitKey (K d)) := by
      simp only [hgs2, refineSegs, hgs1, List.flatMap_map]
    have hmask2 : List.zipWith (· && ·) (maskOf gs) (adjEq (K d) gs1.flatten) = maskOf gs2 := by
      rw [← hmask1, hgs2']
      exact mask_and_adjEq (K d) gs1 hne1
    have hne2 : ∀ g ∈ gs2, g ≠ [] := refineSegs_ne_nil _ K d gs
    have hfl2 : gs2.flatten = gs1.flatten := refineSegs_flatten (fun j => srt (key j)) K d gs
    have hP2 : ∀ a ∈ gs2.flatten, P a := by rw [hfl2]; exact hP1
    -- one iteration
    have hstep : (walkRuns (maskOf gs2)).foldl (applyRun (srt (key (d + 1)))) gs1.flatten =
        (gs2.map (srt (key (d + 1)))).flatten := by
      rw [← hfl2]
      exact foldl_applyRun_maskOf _ (fun g => hs.length _ g) (fun a => hs.singleton _ a) gs2 hne2
    have ih := lexLoop_eq_segSort hs close key K fuel (d + 1 + 1) gs2 (by omega) hne2 hP2
      (by
        have e : d + 1 + 1 + fuel - 1 = d + 1 + (fuel + 1) - 1 := by omega
        rw [e]; exact hcl)
    simp only [Nat.add_sub_cancel] at ih
    rw [lexLoop]
    simp only [Nat.add_sub_cancel]
    rw [hdimEq, hmask2, hstep, ih]
    exact (segSort_level (fun j => srt (key j)) K (fuel + 1) d gs).symm

/-- **(ii) the mask loop refines the segment form.**  For every permutation-valued sorter, a
    non-empty list, at least one column, and "close = equal cluster key" on the columns the loop
    tests (0 … ncols-2): the model of `get_fuzzy_lex_sorting_index_map` equals the segment sort. -/
theorem fuzzyLexSortBy_eq_segSort {P : α → Prop} {srt : (α → Int) → List α → List α} (hs : IsPermSorter srt)
    (close : Int → Int → Bool) (key K : Nat → α → Int) (ncols : Nat) (l : List α)
    (hn : 1 ≤ ncols) (hl : l ≠ []) (hP : ∀ a ∈ l, P a) (hcl : CloseIsKey P close key K (ncols - 1)) :
    fuzzyLexSortBy srt close key ncols l = segSort (fun j => srt (key j)) K ncols 0 l := by
  obtain ⟨f, rfl⟩ : ∃ f, ncols = f + 1 := ⟨ncols - 1, by omega⟩
  simp only [Nat.add_sub_cancel] at hcl
  unfold fuzzyLexSortBy
  simp only [Nat.add_sub_cancel]
  cases f with
  | zero => simp [lexLoop, segSort_one]
  | succ f =>
    set l0 := srt (key 0) l with hl0
    have hl0ne : l0 ≠ [] := by
      intro h0
      have := hs.length (key 0) l
      rw [← hl0, h0] at this
      exact hl (List.length_eq_zero_iff.mp this.symm)
    have hP0 : ∀ a ∈ l0, P a := fun a ha => hP a ((hs (key 0) l).mem_iff.mp ha)
    have hdimEq : adjacentClose close (l0.map (key 0)) = adjEq (K 0) l0 :=
      adjacentClose_eq_adjEq close (key 0) (K 0) l0
        (fun a ha b hb => hcl 0 (by omega) a b (hP0 a ha) (hP0 b hb))
    set gs := splitKey (K 0) l0 with hgs
    have hne : ∀ g ∈ gs, g ≠ [] := splitKey_ne_nil _ _
    have hfl : gs.flatten = l0 := splitKey_flatten _ _
    have hmask : adjEq (K 0) l0 = maskOf gs := adjEq_eq_maskOf_splitKey (K 0) l0 hl0ne
    have hstep : (walkRuns (maskOf gs)).foldl (applyRun (srt (key 1))) l0 = (gs.map (srt (key 1))).flatten := by
      rw [← hfl]
      exact foldl_applyRun_maskOf _ (fun g => hs.length _ g) (fun a => hs.singleton _ a) gs hne
    have hPg : ∀ a ∈ gs.flatten, P a := by rw [hfl]; exact hP0
    have main := lexLoop_eq_segSort (P := P) hs close key K f 2 gs (by omega) hne hPg
      (by
        have e : 2 + f - 1 = f + 1 := by omega
        rw [e]; exact hcl)
    rw [lexLoop]
    simp only [Nat.sub_self]
    rw [hdimEq, hmask, hstep]
    have e21 : (2 : Nat) - 1 = 1 := rfl
    rw [e21] at main
    rw [main]
    rfl

end Fc.C02
