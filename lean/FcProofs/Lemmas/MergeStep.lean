/-
  Helper lemmas for property C06: one `_merge` step — merged points (no duplicates, geometry of
  remapped indices), merged cells per type, merged cell / point field values.
-/
import FcProofs.Lemmas.Merge
namespace Fc.C06
open Fc.C06.Spec

/-! ### generalities -/

theorem getD_eq_of_getElem? {α} {l : List α} {i : Nat} {a d : α} (h : l[i]? = some a) : l.getD i d = a := by
  rw [List.getD_eq_getElem?_getD, h]; rfl

theorem getElem?_of_lt_getD {α} (l : List α) (i : Nat) (d : α) (h : i < l.length) :
    l[i]? = some (l.getD i d) := by
  rw [List.getD_eq_getElem?_getD, List.getElem?_eq_getElem h]; rfl

theorem nodupRows_iff (pts : List (List Int)) : NodupRows pts ↔ pts.Nodup := by
  rw [List.nodup_iff_pairwise_ne, List.pairwise_iff_getElem]
  constructor
  · intro h i j hi hj hij heq
    have := h i j hi hj (by
      rw [List.getD_eq_getElem?_getD, List.getD_eq_getElem?_getD, List.getElem?_eq_getElem hi,
        List.getElem?_eq_getElem hj]; simpa using heq)
    omega
  · intro h i j hi hj heq
    rw [List.getD_eq_getElem?_getD, List.getD_eq_getElem?_getD, List.getElem?_eq_getElem hi,
      List.getElem?_eq_getElem hj] at heq
    simp only [Option.getD_some] at heq
    rcases Nat.lt_trichotomy i j with hlt | heq' | hgt
    · exact absurd heq (h i j hi hj hlt)
    · exact heq'
    · exact absurd heq.symm (h j i hj hi hgt)

/-! ### mapExternal / filterExternal at top level -/

theorem mapExternal_dup (dups : List (Option Nat)) (offset k j : Nat) (h : dups[k]? = some (some j)) :
    (mapExternal dups offset)[k]? = some j := mapExternalGo_dup offset dups 0 0 k j h

theorem mapExternal_kept (dups : List (Option Nat)) (offset r k : Nat)
    (h : (filterExternal dups)[r]? = some k) : (mapExternal dups offset)[k]? = some (offset + r) := by
  have := mapExternalGo_kept offset dups 0 0 (Nat.le_refl _) r k h
  simpa [mapExternal] using this

theorem exists_filter_index (dups : List (Option Nat)) (k : Nat) (h : dups[k]? = some none) :
    ∃ r : Nat, (filterExternal dups)[r]? = some k := by
  obtain ⟨r, hr, hrk⟩ := List.getElem_of_mem ((mem_filterExternal dups k).mpr h)
  exact ⟨r, by rw [List.getElem?_eq_getElem hr, hrk]⟩

theorem filter_entry_lt (dups : List (Option Nat)) (r k : Nat) (h : (filterExternal dups)[r]? = some k) :
    k < dups.length ∧ dups[k]? = some none := by
  have hm := (mem_filterExternal dups k).mp (List.mem_of_getElem? h)
  refine ⟨?_, hm⟩
  cases Nat.lt_or_ge k dups.length with
  | inl h' => exact h'
  | inr h' => rw [List.getElem?_eq_none h'] at hm; cases hm

/-! ### merged points -/

/-- the merged point array of `_merge` -/
def mergedPoints (p1 p2 : List (List Int)) (dups : List (Option Nat)) : List (List Int) :=
  p1 ++ (filterExternal dups).map fun i => p2.getD i []

/-- **geometry of the index remapping**: local point `p` of the later piece and its image under
    `points2_map` in the merged point array have the same coordinates -/
theorem remap_point (p1 p2 : List (List Int)) (dups : List (Option Nat))
    (h : DupInv p2 p1 p1.length dups) (p : Nat) (hp : p < p2.length) :
    (mergedPoints p1 p2 dups).getD ((mapExternal dups p1.length).getD p 0) [] = p2.getD p [] := by
  have hp' : p < dups.length := by rw [h.len]; exact hp
  have hx : dups[p]? = some dups[p] := List.getElem?_eq_getElem hp'
  cases hd : dups[p] with
  | some j =>
    rw [hd] at hx
    obtain ⟨hj, _, heq⟩ := h.sound p j hx
    rw [getD_eq_of_getElem? (mapExternal_dup dups p1.length p j hx)]
    unfold mergedPoints
    rw [List.getD_eq_getElem?_getD, List.getElem?_append_left hj, ← List.getD_eq_getElem?_getD]
    exact heq.symm
  | none =>
    rw [hd] at hx
    obtain ⟨r, hr⟩ := exists_filter_index dups p hx
    rw [getD_eq_of_getElem? (mapExternal_kept dups p1.length r p hr)]
    unfold mergedPoints
    rw [List.getD_eq_getElem?_getD, List.getElem?_append_right (by omega)]
    simp only [Nat.add_sub_cancel_left, List.getElem?_map, hr, Option.map_some, Option.getD_some]

theorem remap_lt (p1 p2 : List (List Int)) (dups : List (Option Nat))
    (h : DupInv p2 p1 p1.length dups) (p : Nat) (hp : p < p2.length) :
    (mapExternal dups p1.length).getD p 0 < (mergedPoints p1 p2 dups).length := by
  have hp' : p < dups.length := by rw [h.len]; exact hp
  have hx : dups[p]? = some dups[p] := List.getElem?_eq_getElem hp'
  simp only [mergedPoints, List.length_append, List.length_map]
  cases hd : dups[p] with
  | some j =>
    rw [hd] at hx
    obtain ⟨hj, _, _⟩ := h.sound p j hx
    rw [getD_eq_of_getElem? (mapExternal_dup dups p1.length p j hx)]
    omega
  | none =>
    rw [hd] at hx
    obtain ⟨r, hr⟩ := exists_filter_index dups p hx
    rw [getD_eq_of_getElem? (mapExternal_kept dups p1.length r p hr)]
    have : r < (filterExternal dups).length := by
      cases Nat.lt_or_ge r (filterExternal dups).length with
      | inl h' => exact h'
      | inr h' => rw [List.getElem?_eq_none h'] at hr; cases hr
    omega

theorem mem_mergedPoints (p1 p2 : List (List Int)) (dups : List (Option Nat))
    (h : DupInv p2 p1 p1.length dups) (q : List Int) :
    q ∈ mergedPoints p1 p2 dups ↔ q ∈ p1 ∨ q ∈ p2 := by
  unfold mergedPoints
  simp only [List.mem_append, List.mem_map]
  constructor
  · rintro (hq | ⟨k, hk, rfl⟩)
    · exact Or.inl hq
    · right
      obtain ⟨r, hr, hrk⟩ := List.getElem_of_mem hk
      have := (filter_entry_lt dups r k (by rw [List.getElem?_eq_getElem hr, hrk])).1
      rw [h.len] at this
      rw [List.getD_eq_getElem?_getD, List.getElem?_eq_getElem this]
      exact List.getElem_mem this
  · rintro (hq | hq)
    · exact Or.inl hq
    · obtain ⟨k, hk, rfl⟩ := List.getElem_of_mem hq
      have hk' : k < dups.length := by rw [h.len]; exact hk
      have hx : dups[k]? = some dups[k] := List.getElem?_eq_getElem hk'
      cases hd : dups[k] with
      | some j =>
        rw [hd] at hx
        obtain ⟨hj, _, heq⟩ := h.sound k j hx
        left
        have : p2[k] = p1.getD j [] := by
          rw [← heq, List.getD_eq_getElem?_getD, List.getElem?_eq_getElem hk]; rfl
        rw [this, List.getD_eq_getElem?_getD, List.getElem?_eq_getElem hj]
        exact List.getElem_mem hj
      | none =>
        rw [hd] at hx
        right
        refine ⟨k, (mem_filterExternal dups k).mpr hx, ?_⟩
        rw [List.getD_eq_getElem?_getD, List.getElem?_eq_getElem hk]; rfl

/-- **points shared between pieces are present once**: the merged point array has no coincident
    points if neither side had any -/
theorem mergedPoints_nodup (p1 p2 : List (List Int)) (dups : List (Option Nat))
    (h : DupInv p2 p1 p1.length dups) (h1 : p1.Nodup) (h2 : p2.Nodup) :
    (mergedPoints p1 p2 dups).Nodup := by
  unfold mergedPoints
  rw [List.nodup_append]
  refine ⟨h1, ?_, ?_⟩
  · -- kept points are distinct points of the later piece
    rw [List.nodup_iff_pairwise_ne, List.pairwise_map]
    refine List.Pairwise.imp_of_mem ?_ (filterExternal_sorted dups)
    intro a b ha hb hab heq
    have ha' : a < p2.length := by
      obtain ⟨r, hr, hrk⟩ := List.getElem_of_mem ha
      have := (filter_entry_lt dups r a (by rw [List.getElem?_eq_getElem hr, hrk])).1
      rwa [h.len] at this
    have hb' : b < p2.length := by
      obtain ⟨r, hr, hrk⟩ := List.getElem_of_mem hb
      have := (filter_entry_lt dups r b (by rw [List.getElem?_eq_getElem hr, hrk])).1
      rwa [h.len] at this
    have := ((nodupRows_iff p2).mpr h2) a b ha' hb' heq
    omega
  · -- a kept point coincides with no earlier point (completeness of the duplicate search)
    intro a ha b hb hab
    simp only [List.mem_map] at hb
    obtain ⟨k, hk, rfl⟩ := hb
    have hkn := (mem_filterExternal dups k).mp hk
    have hk' : k < p2.length := by
      cases Nat.lt_or_ge k dups.length with
      | inl h' => rw [h.len] at h'; exact h'
      | inr h' => rw [List.getElem?_eq_none h'] at hkn; cases hkn
    obtain ⟨j, hj, hja⟩ := List.getElem_of_mem ha
    have : p2.getD k [] = p1.getD j [] := by
      rw [← hab, ← hja, List.getD_eq_getElem?_getD (l := p1), List.getElem?_eq_getElem hj]; rfl
    obtain ⟨j', hj'⟩ := h.complete k j hk' hj this
    rw [hkn] at hj'
    cases hj'

/-- the F3-excluding hypothesis makes `points2_filter` non-empty -/
theorem filter_nonempty_of_new (p1 p2 : List (List Int)) (dups : List (Option Nat))
    (h : DupInv p2 p1 p1.length dups) (hnew : bringsNewPoint p1 p2 = true) :
    (filterExternal dups).isEmpty = false := by
  simp only [bringsNewPoint, List.any_eq_true, Bool.not_eq_true', List.contains_eq_mem,
    decide_eq_false_iff_not] at hnew
  obtain ⟨q, hq, hnot⟩ := hnew
  obtain ⟨k, hk, rfl⟩ := List.getElem_of_mem hq
  have hk' : k < dups.length := by rw [h.len]; exact hk
  have hx : dups[k]? = some dups[k] := List.getElem?_eq_getElem hk'
  cases hd : dups[k] with
  | some j =>
    rw [hd] at hx
    obtain ⟨hj, _, heq⟩ := h.sound k j hx
    exfalso; apply hnot
    have : p2[k] = p1.getD j [] := by
      rw [← heq, List.getD_eq_getElem?_getD, List.getElem?_eq_getElem hk]; rfl
    rw [this, List.getD_eq_getElem?_getD, List.getElem?_eq_getElem hj]
    exact List.getElem_mem hj
  | none =>
    rw [hd] at hx
    have := (mem_filterExternal dups k).mpr hx
    cases hf : filterExternal dups with
    | nil => rw [hf] at this; cases this
    | cons _ _ => rfl

/-! ### merged cells per type -/

theorem cellsOf_eq_rowsOfType (m : Mesh) (ct : String) : m.cellsOf ct = rowsOfType m.cells ct := rfl

theorem find_filter_new (c1 c2 : List (String × List (List Nat))) (ct : String)
    (h : ∀ b ∈ c1, (b.1 == ct) = false) :
    (c2.filter fun b2 => !(c1.any (·.1 == b2.1))).find? (·.1 == ct) = c2.find? (·.1 == ct) := by
  induction c2 with
  | nil => rfl
  | cons b2 r ih =>
    by_cases hb : (b2.1 == ct) = true
    · have hct : b2.1 = ct := by simpa using hb
      have hnew : (!(c1.any (·.1 == b2.1))) = true := by
        simp only [Bool.not_eq_true', List.any_eq_false]
        intro b hbm
        rw [hct]
        simpa using h b hbm
      simp [hnew, hb]
    · simp only [Bool.not_eq_true] at hb
      rw [List.find?_cons, hb]
      simp only [List.filter_cons]
      split
      · rw [List.find?_cons, hb]; exact ih
      · exact ih

theorem find_map_fst {β} (g : String × β → String × β) (hg : ∀ b, (g b).1 = b.1)
    (l : List (String × β)) (ct : String) :
    (l.map g).find? (·.1 == ct) = (l.find? (·.1 == ct)).map g := by
  induction l with
  | nil => rfl
  | cons b r ih =>
    simp only [List.map_cons, List.find?_cons, hg]
    cases (b.1 == ct) with
    | true => rfl
    | false => exact ih

/-- **merged connectivity**: for every cell type the merged mesh lists the earlier mesh's cells
    followed by the later piece's cells with remapped corners — nothing lost, nothing twice -/
theorem rowsOfType_mergeCells (c1 c2 : List (String × List (List Nat))) (pmap : List Nat) (ct : String) :
    rowsOfType (mergeCells c1 c2 pmap) ct = rowsOfType c1 ct ++ remapRows pmap (rowsOfType c2 ct) := by
  unfold mergeCells
  rw [rowsOfType, List.find?_append,
    find_map_fst (fun b : String × List (List Nat) => (b.1, b.2 ++ remapRows pmap (rowsOfType c2 b.1)))
      (fun _ => rfl),
    find_map_fst (fun b2 : String × List (List Nat) => (b2.1, remapRows pmap b2.2)) (fun _ => rfl)]
  cases h1 : c1.find? (·.1 == ct) with
  | some b1 =>
    have hb1 : b1.1 = ct := by
      have := List.find?_some h1
      simpa using this
    simp only [Option.map_some, Option.some_or, hb1, rowsOfType, h1]
  | none =>
    have hnone : ∀ b ∈ c1, (b.1 == ct) = false := by
      intro b hb
      have := List.find?_eq_none.mp h1 b hb
      simpa using this
    rw [find_filter_new c1 c2 ct hnone]
    simp only [Option.map_none, Option.none_or, rowsOfType, h1, List.nil_append]
    cases c2.find? (·.1 == ct) with
    | some b2 => rfl
    | none => rfl

/-! ### merged cell fields -/

theorem mem_dedupNames (l : List String) (n : String) : n ∈ dedupNames l ↔ n ∈ l := by
  induction l with
  | nil => simp [dedupNames]
  | cons x r ih =>
    simp only [dedupNames, List.mem_cons, List.mem_filter, ih, bne_iff_ne, ne_eq]
    constructor
    · rintro (h | ⟨h, _⟩)
      · exact Or.inl h
      · exact Or.inr h
    · rintro (h | h)
      · exact Or.inl h
      · by_cases hx : n = x
        · exact Or.inl hx
        · exact Or.inr ⟨h, hx⟩

theorem mergeCellEntry_name_ctype (name ct : String) (a b : Option CellField) (e : CellField)
    (h : mergeCellEntry name ct a b = some e) : e.name = name ∧ e.ctype = ct := by
  cases a <;> cases b <;> simp [mergeCellEntry] at h <;> subst h <;> exact ⟨rfl, rfl⟩

theorem findCellField_none_of_not_mem (cfs : List CellField) (n ct : String)
    (h : n ∉ cfs.map (·.name)) : findCellField cfs n ct = none := by
  unfold findCellField
  rw [List.find?_eq_none]
  intro cf hcf hp
  simp only [Bool.and_eq_true, beq_iff_eq] at hp
  exact h (List.mem_map.mpr ⟨cf, hcf, hp.1⟩)

/-- lookup in one type block of the merged cell fields -/
theorem find_in_block (G : String → Option CellField) (ct n : String)
    (hG : ∀ m e, G m = some e → e.name = m ∧ e.ctype = ct) (ns : List String) :
    (ns.filterMap G).find? (fun cf => cf.name == n && cf.ctype == ct) =
      if n ∈ ns then G n else none := by
  induction ns with
  | nil => simp
  | cons m ms ih =>
    simp only [List.filterMap_cons]
    cases hm : G m with
    | none =>
      simp only [ih, List.mem_cons]
      by_cases hnm : n = m
      · subst hnm; simp [hm]
      · simp [hnm]
    | some e =>
      obtain ⟨he1, he2⟩ := hG m e hm
      simp only [List.find?_cons, he1, he2, beq_self_eq_true, Bool.and_true, List.mem_cons]
      by_cases hnm : m = n
      · subst hnm; simp [hm]
      · have : (m == n) = false := by simpa using hnm
        rw [this, ih]
        have hnm' : ¬ n = m := fun h => hnm h.symm
        simp [hnm']

theorem find_other_block (G : String → Option CellField) (t ct n : String) (htc : t ≠ ct)
    (hG : ∀ m e, G m = some e → e.ctype = t) (ns : List String) :
    (ns.filterMap G).find? (fun cf => cf.name == n && cf.ctype == ct) = none := by
  rw [List.find?_eq_none]
  intro cf hcf hp
  simp only [List.mem_filterMap] at hcf
  obtain ⟨m, _, hm⟩ := hcf
  simp only [Bool.and_eq_true, beq_iff_eq] at hp
  exact htc ((hG m cf hm).symm.trans hp.2)

/-- **merged cell data**: on every cell type of the merged mesh, field `n` is the concatenation of
    the two sides' values (or the one side that has it) -/
theorem findCellField_merge (types : List String) (cf1 cf2 : List CellField) (n ct : String)
    (hct : ct ∈ types) :
    findCellField (mergeCellFields types cf1 cf2) n ct =
      mergeCellEntry n ct (findCellField cf1 n ct) (findCellField cf2 n ct) := by
  have hblock : ∀ t, ((dedupNames (cf1.map (·.name) ++ cf2.map (·.name))).filterMap fun name =>
      mergeCellEntry name t (findCellField cf1 name t) (findCellField cf2 name t)).find?
        (fun cf => cf.name == n && cf.ctype == ct) =
      if t = ct then mergeCellEntry n ct (findCellField cf1 n ct) (findCellField cf2 n ct) else none := by
    intro t
    by_cases htc : t = ct
    · subst htc
      simp only [if_true]
      rw [find_in_block _ t n (fun m e h => mergeCellEntry_name_ctype m t _ _ e h)]
      by_cases hn : n ∈ dedupNames (cf1.map (·.name) ++ cf2.map (·.name))
      · simp [hn]
      · simp only [hn, if_false]
        rw [mem_dedupNames, List.mem_append, not_or] at hn
        rw [findCellField_none_of_not_mem cf1 n t hn.1, findCellField_none_of_not_mem cf2 n t hn.2]
        rfl
    · simp only [htc, if_false]
      exact find_other_block _ t ct n htc (fun m e h => (mergeCellEntry_name_ctype m t _ _ e h).2) _
  unfold mergeCellFields findCellField
  induction types with
  | nil => cases hct
  | cons t ts ih =>
    simp only [List.flatMap_cons, List.find?_append]
    have hb := hblock t
    simp only [findCellField] at hb
    rw [hb]
    by_cases htc : t = ct
    · simp only [htc, if_true]
      by_cases hts : ct ∈ ts
      · rw [ih hts]; cases mergeCellEntry n ct _ _ <;> rfl
      · cases hm : mergeCellEntry n ct (cf1.find? fun cf => cf.name == n && cf.ctype == ct)
            (cf2.find? fun cf => cf.name == n && cf.ctype == ct) with
        | some e => rfl
        | none =>
          simp only [Option.none_or]
          rw [List.find?_eq_none]
          intro cf hcf hp
          simp only [List.mem_flatMap, List.mem_filterMap] at hcf
          obtain ⟨t', ht', m, _, hm'⟩ := hcf
          simp only [Bool.and_eq_true, beq_iff_eq] at hp
          have := (mergeCellEntry_name_ctype m t' _ _ cf hm').2
          exact hts (by rw [← hp.2, this]; exact ht')
    · simp only [htc, if_false, Option.none_or]
      rcases List.mem_cons.mp hct with h | h
      · exact absurd h.symm htc
      · exact ih h

/-! ### rows of concatenated arrays -/

theorem row_concat_left (a b : NdArr) (l1 c : Nat) (ha : a.data.length = l1 * a.rowSize) (hc : c < l1) :
    (NdArr.concat a b).row c = a.row c := by
  have hrs : (NdArr.concat a b).rowSize = a.rowSize := by simp [NdArr.concat, NdArr.rowSize]
  simp only [NdArr.row, hrs]
  simp only [NdArr.concat]
  have h1 : (c + 1) * a.rowSize ≤ l1 * a.rowSize := Nat.mul_le_mul_right _ hc
  rw [Nat.add_mul, Nat.one_mul] at h1
  rw [List.drop_append_of_le_length (by omega), List.take_append_of_le_length (by simp; omega)]

theorem row_concat_right (a b : NdArr) (l1 c : Nat) (ha : a.data.length = l1 * a.rowSize)
    (hrs : b.rowSize = a.rowSize) : (NdArr.concat a b).row (l1 + c) = b.row c := by
  have hrs' : (NdArr.concat a b).rowSize = a.rowSize := by simp [NdArr.concat, NdArr.rowSize]
  simp only [NdArr.row, hrs', hrs]
  simp only [NdArr.concat]
  have : (l1 + c) * a.rowSize = a.data.length + c * a.rowSize := by rw [Nat.add_mul, ha]
  rw [this, List.drop_append]
  rw [List.drop_eq_nil_of_le (by omega)]
  simp

theorem row_out_of_range (a : NdArr) (l c : Nat) (ha : a.data.length = l * a.rowSize) (hc : l ≤ c) :
    a.row c = [] := by
  simp only [NdArr.row]
  have : l * a.rowSize ≤ c * a.rowSize := Nat.mul_le_mul_right _ hc
  rw [List.drop_eq_nil_of_le (by omega)]
  simp

/-! ### one `_merge` step -/

/-- what the theorems assume about one piece (and what every merge step preserves):
    rows of one length, no coincident points, cell corners in range, well-formed field arrays whose
    entry size depends on the field name only, every named field present where there are cells -/
structure PieceOk (f : MeshFields) (d : Nat) (cnames pnames : List String) (rsC rsP : String → Nat) (dtC dtP : String → DType) : Prop where
  rows : ∀ p ∈ f.mesh.points, p.length = d
  nodup : f.mesh.points.Nodup
  cellIdx : ∀ b ∈ f.mesh.cells, ∀ row ∈ b.2, ∀ p ∈ row, p < f.mesh.points.length
  cfWf : ∀ cf ∈ f.cellFields,
    cf.values.data.length = (f.mesh.cellsOf cf.ctype).length * cf.values.rowSize ∧
    cf.values.rowSize = rsC cf.name
  cfCompleteB : ∀ ct ∈ f.mesh.cellTypes, f.mesh.cellsOf ct ≠ [] →
    ∀ n ∈ cnames, (findCellField f.cellFields n ct).isSome = true
  pfWf : ∀ pf ∈ f.pointFields,
    pf.values.data.length = f.mesh.points.length * pf.values.rowSize ∧ pf.values.rowSize = rsP pf.name
  pfComplete : ∀ n ∈ pnames, (f.pointFields.find? (·.name == n)).isSome = true
  cfNames : ∀ cf ∈ f.cellFields, cf.name ∈ cnames
  pfNames : ∀ pf ∈ f.pointFields, pf.name ∈ pnames
  cfDType : ∀ cf ∈ f.cellFields, cf.values.dtype = dtC cf.name
  pfDType : ∀ pf ∈ f.pointFields, pf.values.dtype = dtP pf.name

/-- the duplicate map of one step -/
def stepDups (srt : List (List Int) → List Nat) (f1 f2 : MeshFields) : List (Option Nat) :=
  mapDuplicatePoints (srt f2.mesh.points) f2.mesh.points f1.mesh.points

/-- the result of `_merge` when the later piece brings a new point -/
def stepResult (srt : List (List Int) → List Nat) (f1 f2 : MeshFields) : MeshFields :=
  let dups := stepDups srt f1 f2
  let pmap := mapExternal dups f1.mesh.points.length
  let cells := mergeCells f1.mesh.cells f2.mesh.cells pmap
  { mesh := ⟨f1.mesh.dim, mergedPoints f1.mesh.points f2.mesh.points dups, cells⟩
    pointFields := mergePointFields f1.mesh.points.length f2.mesh.points.length (filterExternal dups)
      f1.pointFields f2.pointFields
    cellFields := mergeCellFields (cells.map (·.1)) f1.cellFields f2.cellFields }

theorem merge1_eq_stepResult (srt : List (List Int) → List Nat) (f1 f2 : MeshFields)
    (h : (filterExternal (stepDups srt f1 f2)).isEmpty = false) :
    merge1 srt f1 f2 = stepResult srt f1 f2 := by
  unfold merge1 stepResult stepDups mergedPoints at *
  simp only [h, Bool.false_eq_true, if_false]

theorem merge1_eq_left (srt : List (List Int) → List Nat) (f1 f2 : MeshFields)
    (h : (filterExternal (stepDups srt f1 f2)).isEmpty = true) :
    merge1 srt f1 f2 = f1 := by
  unfold merge1 stepDups at *
  simp only [h, if_true]

theorem rows_mem_cells (cells : List (String × List (List Nat))) (ct : String) (row : List Nat)
    (h : row ∈ rowsOfType cells ct) : ∃ b ∈ cells, row ∈ b.2 := by
  unfold rowsOfType at h
  cases hf : cells.find? (·.1 == ct) with
  | none => rw [hf] at h; cases h
  | some b => rw [hf] at h; exact ⟨b, List.mem_of_find?_eq_some hf, h⟩

theorem mem_types_of_rows (cells : List (String × List (List Nat))) (ct : String)
    (h : rowsOfType cells ct ≠ []) : ct ∈ cells.map (·.1) := by
  unfold rowsOfType at h
  cases hf : cells.find? (·.1 == ct) with
  | none => rw [hf] at h; exact absurd rfl h
  | some b =>
    have h1 := List.mem_of_find?_eq_some hf
    have h2 : b.1 = ct := by simpa using List.find?_some hf
    exact List.mem_map.mpr ⟨b, h1, h2⟩

theorem findCellField_some (cfs : List CellField) (n ct : String) (a : CellField)
    (h : findCellField cfs n ct = some a) : a ∈ cfs ∧ a.name = n ∧ a.ctype = ct := by
  unfold findCellField at h
  have h1 := List.mem_of_find?_eq_some h
  have h2 := List.find?_some h
  simp only [Bool.and_eq_true, beq_iff_eq] at h2
  exact ⟨h1, h2.1, h2.2⟩

theorem PieceOk.cfComplete {f : MeshFields} {d : Nat} {cnames pnames : List String} {rsC rsP : String → Nat} {dtC dtP : String → DType}
    (h : PieceOk f d cnames pnames rsC rsP dtC dtP) (ct : String) (hne : f.mesh.cellsOf ct ≠ []) :
    ∀ n ∈ cnames, (findCellField f.cellFields n ct).isSome = true :=
  h.cfCompleteB ct (mem_types_of_rows _ ct (by simpa [cellsOf_eq_rowsOfType] using hne)) hne

/-- cell data of the merged mesh on a cell that came from the earlier mesh / the later piece -/
theorem cellValue_step (srt : List (List Int) → List Nat) (f1 f2 : MeshFields) (d : Nat)
    (cnames pnames : List String) (rsC rsP : String → Nat) (dtC dtP : String → DType)
    (h1 : PieceOk f1 d cnames pnames rsC rsP dtC dtP) (h2 : PieceOk f2 d cnames pnames rsC rsP dtC dtP)
    (ct n : String) (hn : n ∈ cnames) :
    (∀ c, c < (f1.mesh.cellsOf ct).length →
        cellValue (stepResult srt f1 f2) n ct c = cellValue f1 n ct c) ∧
    (∀ c, c < (f2.mesh.cellsOf ct).length →
        cellValue (stepResult srt f1 f2) n ct ((f1.mesh.cellsOf ct).length + c) = cellValue f2 n ct c) := by
  have hrows : (stepResult srt f1 f2).mesh.cellsOf ct =
      f1.mesh.cellsOf ct ++ remapRows (mapExternal (stepDups srt f1 f2) f1.mesh.points.length) (f2.mesh.cellsOf ct) := by
    simp only [cellsOf_eq_rowsOfType, stepResult]
    exact rowsOfType_mergeCells _ _ _ ct
  have hfind : ∀ (hne : (stepResult srt f1 f2).mesh.cellsOf ct ≠ []),
      findCellField (stepResult srt f1 f2).cellFields n ct =
        mergeCellEntry n ct (findCellField f1.cellFields n ct) (findCellField f2.cellFields n ct) := by
    intro hne
    simp only [stepResult]
    apply findCellField_merge
    exact mem_types_of_rows _ ct (by simpa [cellsOf_eq_rowsOfType, stepResult] using hne)
  constructor
  · intro c hc
    have hne1 : f1.mesh.cellsOf ct ≠ [] := by intro h; rw [h] at hc; simp at hc
    have hne : (stepResult srt f1 f2).mesh.cellsOf ct ≠ [] := by
      rw [hrows]; intro h; exact hne1 (List.append_eq_nil_iff.mp h).1
    have hs := h1.cfComplete ct hne1 n hn
    unfold cellValue
    rw [hfind hne]
    cases ha : findCellField f1.cellFields n ct with
    | none => rw [ha] at hs; cases hs
    | some a =>
      obtain ⟨ham, _, hact⟩ := findCellField_some _ _ _ _ ha
      have hwf := (h1.cfWf a ham).1
      rw [hact] at hwf
      cases hb : findCellField f2.cellFields n ct with
      | none => rfl
      | some b => exact row_concat_left a.values b.values _ c hwf hc
  · intro c hc
    have hne2 : f2.mesh.cellsOf ct ≠ [] := by intro h; rw [h] at hc; simp at hc
    have hne : (stepResult srt f1 f2).mesh.cellsOf ct ≠ [] := by
      rw [hrows]; intro h
      have := (List.append_eq_nil_iff.mp h).2
      simp only [remapRows, List.map_eq_nil_iff] at this
      exact hne2 this
    have hs := h2.cfComplete ct hne2 n hn
    unfold cellValue
    rw [hfind hne]
    cases hb : findCellField f2.cellFields n ct with
    | none => rw [hb] at hs; cases hs
    | some b =>
      obtain ⟨hbm, hbn, _⟩ := findCellField_some _ _ _ _ hb
      cases ha : findCellField f1.cellFields n ct with
      | none =>
        -- then the earlier mesh has no cell of this type
        have hl1 : f1.mesh.cellsOf ct = [] := by
          apply Classical.byContradiction
          intro hne1
          have := h1.cfComplete ct hne1 n hn
          rw [ha] at this; cases this
        simp [mergeCellEntry, hl1]
      | some a =>
        obtain ⟨ham, han, hact⟩ := findCellField_some _ _ _ _ ha
        have hwf := (h1.cfWf a ham).1
        rw [hact] at hwf
        have hrs : b.values.rowSize = a.values.rowSize := by
          rw [(h1.cfWf a ham).2, (h2.cfWf b hbm).2, han, hbn]
        exact row_concat_right a.values b.values _ c hwf hrs

theorem getD_map_default {α β} (f : α → β) (l : List α) (i : Nat) (d : α) (d' : β) (h : i < l.length) :
    (l.map f).getD i d' = f (l.getD i d) := by
  rw [List.getD_eq_getElem?_getD, List.getD_eq_getElem?_getD, List.getElem?_map,
    List.getElem?_eq_getElem h]
  rfl

/-- **one merge step, cells**: for every cell type, the merged data set lists exactly the earlier
    mesh's cells followed by the later piece's cells — same corner coordinates, same cell data -/
theorem cellItemsOf_step (srt : List (List Int) → List Nat) (f1 f2 : MeshFields) (d : Nat)
    (cnames pnames : List String) (rsC rsP : String → Nat) (dtC dtP : String → DType)
    (h1 : PieceOk f1 d cnames pnames rsC rsP dtC dtP) (h2 : PieceOk f2 d cnames pnames rsC rsP dtC dtP)
    (hinv : DupInv f2.mesh.points f1.mesh.points f1.mesh.points.length (stepDups srt f1 f2))
    (ct : String) :
    cellItemsOf (stepResult srt f1 f2) cnames ct = cellItemsOf f1 cnames ct ++ cellItemsOf f2 cnames ct := by
  have hrows : (stepResult srt f1 f2).mesh.cellsOf ct =
      f1.mesh.cellsOf ct ++ remapRows (mapExternal (stepDups srt f1 f2) f1.mesh.points.length) (f2.mesh.cellsOf ct) := by
    simp only [cellsOf_eq_rowsOfType, stepResult]
    exact rowsOfType_mergeCells _ _ _ ct
  have hpts : (stepResult srt f1 f2).mesh.points =
      mergedPoints f1.mesh.points f2.mesh.points (stepDups srt f1 f2) := rfl
  unfold cellItemsOf
  rw [hrows, hpts, List.length_append]
  have hlen : (remapRows (mapExternal (stepDups srt f1 f2) f1.mesh.points.length) (f2.mesh.cellsOf ct)).length
      = (f2.mesh.cellsOf ct).length := by simp [remapRows]
  rw [hlen, List.range_add, List.map_append, List.map_map]
  congr 1
  · apply List.map_congr_left
    intro c hc
    simp only [List.mem_range] at hc
    have hrow : (f1.mesh.cellsOf ct ++ remapRows (mapExternal (stepDups srt f1 f2) f1.mesh.points.length)
        (f2.mesh.cellsOf ct)).getD c [] = (f1.mesh.cellsOf ct).getD c [] := by
      rw [List.getD_eq_getElem?_getD, List.getElem?_append_left hc, ← List.getD_eq_getElem?_getD]
    rw [hrow]
    congr 1
    · -- corner coordinates: indices below n1 address the earlier points
      apply List.map_congr_left
      intro p hp
      have hrowmem : (f1.mesh.cellsOf ct).getD c [] ∈ f1.mesh.cellsOf ct := by
        rw [List.getD_eq_getElem?_getD, List.getElem?_eq_getElem hc]; exact List.getElem_mem hc
      obtain ⟨b, hb, hrb⟩ := rows_mem_cells f1.mesh.cells ct _ hrowmem
      have hlt := h1.cellIdx b hb _ hrb p hp
      unfold mergedPoints
      rw [List.getD_eq_getElem?_getD, List.getElem?_append_left hlt, ← List.getD_eq_getElem?_getD]
    · apply List.map_congr_left
      intro n hn
      rw [(cellValue_step srt f1 f2 d cnames pnames rsC rsP dtC dtP h1 h2 ct n hn).1 c hc]
  · apply List.map_congr_left
    intro c hc
    simp only [List.mem_range] at hc
    simp only [Function.comp]
    have hrow : (f1.mesh.cellsOf ct ++ remapRows (mapExternal (stepDups srt f1 f2) f1.mesh.points.length)
        (f2.mesh.cellsOf ct)).getD ((f1.mesh.cellsOf ct).length + c) [] =
        ((f2.mesh.cellsOf ct).getD c []).map fun p =>
          (mapExternal (stepDups srt f1 f2) f1.mesh.points.length).getD p 0 := by
      rw [List.getD_eq_getElem?_getD, List.getElem?_append_right (by omega), Nat.add_sub_cancel_left,
        ← List.getD_eq_getElem?_getD]
      unfold remapRows
      exact getD_map_default _ _ c [] [] hc
    rw [hrow, List.map_map]
    congr 1
    · apply List.map_congr_left
      intro p hp
      have hrowmem : (f2.mesh.cellsOf ct).getD c [] ∈ f2.mesh.cellsOf ct := by
        rw [List.getD_eq_getElem?_getD, List.getElem?_eq_getElem hc]; exact List.getElem_mem hc
      obtain ⟨b, hb, hrb⟩ := rows_mem_cells f2.mesh.cells ct _ hrowmem
      have hlt := h2.cellIdx b hb _ hrb p hp
      exact remap_point f1.mesh.points f2.mesh.points _ hinv p hlt
    · apply List.map_congr_left
      intro n hn
      rw [(cellValue_step srt f1 f2 d cnames pnames rsC rsP dtC dtP h1 h2 ct n hn).2 c hc]

/-! ### merged point fields -/

theorem mergePointEntry_name (n2 : Nat) (filt : List Nat) (a : PointField) (b : Option PointField) :
    (mergePointEntry n2 filt a b).name = a.name := by
  cases b <;> rfl

theorem find_map_name (g : PointField → PointField) (hg : ∀ a, (g a).name = a.name)
    (l : List PointField) (n : String) :
    (l.map g).find? (·.name == n) = (l.find? (·.name == n)).map g := by
  induction l with
  | nil => rfl
  | cons a r ih =>
    simp only [List.map_cons, List.find?_cons, hg]
    cases (a.name == n) with
    | true => rfl
    | false => exact ih

theorem flatMap_chunk {α} (g : Nat → List α) (rs : Nat) (idx : List Nat)
    (h : ∀ i ∈ idx, (g i).length = rs) (r : Nat) (hr : r < idx.length) :
    ((idx.flatMap g).drop (r * rs)).take rs = g (idx.getD r 0) := by
  induction idx generalizing r with
  | nil => simp at hr
  | cons i rest ih =>
    have hi := h i (List.mem_cons_self ..)
    cases r with
    | zero =>
      simp only [List.flatMap_cons, Nat.zero_mul, List.drop_zero, List.getD_cons_zero]
      rw [List.take_append_of_le_length (by omega), List.take_of_length_le (by omega)]
    | succ r =>
      simp only [List.flatMap_cons, List.getD_cons_succ]
      have : (r + 1) * rs = (g i).length + r * rs := by rw [Nat.add_mul, Nat.one_mul, hi]; omega
      rw [this, List.drop_append]
      rw [List.drop_eq_nil_of_le (by omega)]
      simp only [List.nil_append, Nat.add_sub_cancel_left]
      exact ih (fun j hj => h j (List.mem_cons_of_mem _ hj)) r (by simpa using hr)

theorem row_length (a : NdArr) (l i : Nat) (ha : a.data.length = l * a.rowSize) (hi : i < l) :
    (a.row i).length = a.rowSize := by
  simp only [NdArr.row, List.length_take, List.length_drop]
  have h1 : (i + 1) * a.rowSize ≤ l * a.rowSize := Nat.mul_le_mul_right _ hi
  rw [Nat.add_mul, Nat.one_mul] at h1
  omega

theorem row_takeRows (b : NdArr) (l : Nat) (idx : List Nat) (hb : b.data.length = l * b.rowSize)
    (hidx : ∀ i ∈ idx, i < l) (r : Nat) (hr : r < idx.length) :
    (NdArr.takeRows b idx).row r = b.row (idx.getD r 0) := by
  have hrs : (NdArr.takeRows b idx).rowSize = b.rowSize := by simp [NdArr.takeRows, NdArr.rowSize]
  simp only [NdArr.row, hrs]
  simp only [NdArr.takeRows]
  have := flatMap_chunk b.row b.rowSize idx (fun i hi => row_length b l i hb (hidx i hi)) r hr
  simpa [NdArr.row] using this

/-- point data of the merged mesh at an earlier point / at the `r`-th appended point -/
theorem pointValue_step (srt : List (List Int) → List Nat) (f1 f2 : MeshFields) (d : Nat)
    (cnames pnames : List String) (rsC rsP : String → Nat) (dtC dtP : String → DType)
    (h1 : PieceOk f1 d cnames pnames rsC rsP dtC dtP) (h2 : PieceOk f2 d cnames pnames rsC rsP dtC dtP)
    (hinv : DupInv f2.mesh.points f1.mesh.points f1.mesh.points.length (stepDups srt f1 f2))
    (n : String) (hn : n ∈ pnames) :
    (∀ p, p < f1.mesh.points.length → pointValue (stepResult srt f1 f2) n p = pointValue f1 n p) ∧
    (∀ r, r < (filterExternal (stepDups srt f1 f2)).length →
      pointValue (stepResult srt f1 f2) n (f1.mesh.points.length + r) =
        pointValue f2 n ((filterExternal (stepDups srt f1 f2)).getD r 0)) := by
  have hs1 := h1.pfComplete n hn
  have hs2 := h2.pfComplete n hn
  cases ha : f1.pointFields.find? (·.name == n) with
  | none => rw [ha] at hs1; cases hs1
  | some a =>
    have ham := List.mem_of_find?_eq_some ha
    have han : a.name = n := by simpa using List.find?_some ha
    cases hb : f2.pointFields.find? (·.name == n) with
    | none => rw [hb] at hs2; cases hs2
    | some b =>
      have hbm := List.mem_of_find?_eq_some hb
      have hbn : b.name = n := by simpa using List.find?_some hb
      have hfind : (stepResult srt f1 f2).pointFields.find? (·.name == n) =
          some ⟨a.name, NdArr.concat a.values (NdArr.takeRows b.values (filterExternal (stepDups srt f1 f2)))⟩ := by
        simp only [stepResult, mergePointFields]
        rw [List.find?_append, find_map_name _ (fun a => mergePointEntry_name _ _ a _), ha]
        simp only [Option.map_some, Option.some_or, han, hb, mergePointEntry]
      have hwa := (h1.pfWf a ham).1
      have hrs : (NdArr.takeRows b.values (filterExternal (stepDups srt f1 f2))).rowSize = a.values.rowSize := by
        have : (NdArr.takeRows b.values (filterExternal (stepDups srt f1 f2))).rowSize = b.values.rowSize := by
          simp [NdArr.takeRows, NdArr.rowSize]
        rw [this, (h1.pfWf a ham).2, (h2.pfWf b hbm).2, han, hbn]
      constructor
      · intro p hp
        unfold pointValue
        rw [hfind, ha]
        exact row_concat_left a.values _ _ p hwa hp
      · intro r hr
        unfold pointValue
        rw [hfind, hb]
        simp only
        rw [row_concat_right a.values _ _ r hwa hrs]
        apply row_takeRows b.values f2.mesh.points.length _ (h2.pfWf b hbm).1 _ r hr
        intro i hi
        obtain ⟨r', hr', hri⟩ := List.getElem_of_mem hi
        have := (filter_entry_lt _ r' i (by rw [List.getElem?_eq_getElem hr', hri])).1
        rwa [hinv.len] at this

/-- **one merge step, points**: the merged point items are the earlier mesh's point items followed by
    the items of the later piece's kept (non-duplicate) points -/
theorem pointItemsOf_step (srt : List (List Int) → List Nat) (f1 f2 : MeshFields) (d : Nat)
    (cnames pnames : List String) (rsC rsP : String → Nat) (dtC dtP : String → DType)
    (h1 : PieceOk f1 d cnames pnames rsC rsP dtC dtP) (h2 : PieceOk f2 d cnames pnames rsC rsP dtC dtP)
    (hinv : DupInv f2.mesh.points f1.mesh.points f1.mesh.points.length (stepDups srt f1 f2)) :
    pointItemsOf (stepResult srt f1 f2) pnames =
      pointItemsOf f1 pnames ++ (filterExternal (stepDups srt f1 f2)).map (pointItemBy f2 pnames) := by
  have hpts : (stepResult srt f1 f2).mesh.points =
      mergedPoints f1.mesh.points f2.mesh.points (stepDups srt f1 f2) := rfl
  unfold pointItemsOf
  rw [hpts]
  simp only [mergedPoints, List.length_append, List.length_map]
  rw [List.range_add, List.map_append, List.map_map]
  congr 1
  · apply List.map_congr_left
    intro p hp
    simp only [List.mem_range] at hp
    unfold pointItemBy
    congr 1
    · rw [hpts]; unfold mergedPoints
      rw [List.getD_eq_getElem?_getD, List.getElem?_append_left hp, ← List.getD_eq_getElem?_getD]
    · apply List.map_congr_left
      intro n hn
      rw [(pointValue_step srt f1 f2 d cnames pnames rsC rsP dtC dtP h1 h2 hinv n hn).1 p hp]
  · apply List.ext_getElem?
    intro r
    simp only [List.getElem?_map]
    by_cases hr : r < (filterExternal (stepDups srt f1 f2)).length
    · rw [List.getElem?_eq_getElem hr]
      simp only [hr, List.getElem?_range, Option.map_some, Function.comp, Option.some.injEq]
      have hget : (filterExternal (stepDups srt f1 f2)).getD r 0 = (filterExternal (stepDups srt f1 f2))[r] := by
        rw [List.getD_eq_getElem?_getD, List.getElem?_eq_getElem hr]; rfl
      unfold pointItemBy
      congr 1
      · rw [hpts]; unfold mergedPoints
        rw [List.getD_eq_getElem?_getD, List.getElem?_append_right (by omega), Nat.add_sub_cancel_left,
          List.getElem?_map, List.getElem?_eq_getElem hr]
        rfl
      · apply List.map_congr_left
        intro n hn
        rw [(pointValue_step srt f1 f2 d cnames pnames rsC rsP dtC dtP h1 h2 hinv n hn).2 r hr, hget]
    · have hr' : (filterExternal (stepDups srt f1 f2)).length ≤ r := by omega
      rw [List.getElem?_eq_none hr']
      simp [hr]

/-! ### a merge step preserves `PieceOk` -/

theorem length_flatMap_const {α} (g : Nat → List α) (rs : Nat) (idx : List Nat)
    (h : ∀ i ∈ idx, (g i).length = rs) : (idx.flatMap g).length = idx.length * rs := by
  induction idx with
  | nil => simp
  | cons i rest ih =>
    simp only [List.flatMap_cons, List.length_append, List.length_cons]
    rw [ih (fun j hj => h j (List.mem_cons_of_mem _ hj)), h i (List.mem_cons_self ..), Nat.add_mul, Nat.one_mul]
    omega

theorem mem_mergeCellFields (types : List String) (cf1 cf2 : List CellField) (cf : CellField)
    (h : cf ∈ mergeCellFields types cf1 cf2) :
    ∃ ct ∈ types, ∃ n, (n ∈ cf1.map (·.name) ∨ n ∈ cf2.map (·.name)) ∧
      mergeCellEntry n ct (findCellField cf1 n ct) (findCellField cf2 n ct) = some cf := by
  simp only [mergeCellFields, List.mem_flatMap, List.mem_filterMap] at h
  obtain ⟨ct, hct, n, hn, he⟩ := h
  rw [mem_dedupNames, List.mem_append] at hn
  exact ⟨ct, hct, n, hn, he⟩

theorem stepResult_ok (srt : List (List Int) → List Nat) (f1 f2 : MeshFields) (d : Nat)
    (cnames pnames : List String) (rsC rsP : String → Nat) (dtC dtP : String → DType)
    (h1 : PieceOk f1 d cnames pnames rsC rsP dtC dtP) (h2 : PieceOk f2 d cnames pnames rsC rsP dtC dtP)
    (hinv : DupInv f2.mesh.points f1.mesh.points f1.mesh.points.length (stepDups srt f1 f2)) :
    PieceOk (stepResult srt f1 f2) d cnames pnames rsC rsP dtC dtP := by
  have hpts : (stepResult srt f1 f2).mesh.points =
      mergedPoints f1.mesh.points f2.mesh.points (stepDups srt f1 f2) := rfl
  have hrows : ∀ ct, (stepResult srt f1 f2).mesh.cellsOf ct =
      f1.mesh.cellsOf ct ++ remapRows (mapExternal (stepDups srt f1 f2) f1.mesh.points.length) (f2.mesh.cellsOf ct) := by
    intro ct
    simp only [cellsOf_eq_rowsOfType, stepResult]
    exact rowsOfType_mergeCells _ _ _ ct
  have hlenrows : ∀ ct, ((stepResult srt f1 f2).mesh.cellsOf ct).length =
      (f1.mesh.cellsOf ct).length + (f2.mesh.cellsOf ct).length := by
    intro ct; rw [hrows]; simp [remapRows]
  have hn1 : f1.mesh.points.length ≤ (stepResult srt f1 f2).mesh.points.length := by
    rw [hpts]; simp [mergedPoints]
  have hremap : ∀ row ∈ (List.map (fun b : String × List (List Nat) => b.2) f2.mesh.cells).flatten,
      ∀ p ∈ row, (mapExternal (stepDups srt f1 f2) f1.mesh.points.length).getD p 0 <
        (stepResult srt f1 f2).mesh.points.length := by
    intro row hrow p hp
    simp only [List.mem_flatten, List.mem_map] at hrow
    obtain ⟨rows, ⟨b, hb, rfl⟩, hr⟩ := hrow
    rw [hpts]
    exact remap_lt _ _ _ hinv p (h2.cellIdx b hb row hr p hp)
  refine ⟨?_, ?_, ?_, ?_, ?_, ?_, ?_, ?_, ?_, ?_, ?_⟩
  · intro q hq
    rw [hpts, mem_mergedPoints _ _ _ hinv] at hq
    exact hq.elim (h1.rows q) (h2.rows q)
  · rw [hpts]; exact mergedPoints_nodup _ _ _ hinv h1.nodup h2.nodup
  · -- cell corners stay in range
    intro b hb row hrow p hp
    simp only [stepResult, mergeCells, List.mem_append, List.mem_map, List.mem_filter] at hb
    rcases hb with ⟨b1, hb1, rfl⟩ | ⟨b2, ⟨hb2, _⟩, rfl⟩
    · simp only [List.mem_append] at hrow
      rcases hrow with hrow | hrow
      · exact Nat.lt_of_lt_of_le (h1.cellIdx b1 hb1 row hrow p hp) hn1
      · simp only [remapRows, List.mem_map] at hrow
        obtain ⟨row2, hrow2, rfl⟩ := hrow
        simp only [List.mem_map] at hp
        obtain ⟨q, hq, rfl⟩ := hp
        obtain ⟨b2, hb2, hr2⟩ := rows_mem_cells _ _ _ hrow2
        exact hremap row2 (by simp only [List.mem_flatten, List.mem_map]; exact ⟨b2.2, ⟨b2, hb2, rfl⟩, hr2⟩) q hq
    · simp only [remapRows, List.mem_map] at hrow
      obtain ⟨row2, hrow2, rfl⟩ := hrow
      simp only [List.mem_map] at hp
      obtain ⟨q, hq, rfl⟩ := hp
      exact hremap row2 (by simp only [List.mem_flatten, List.mem_map]; exact ⟨b2.2, ⟨b2, hb2, rfl⟩, hrow2⟩) q hq
  · -- merged cell-field arrays are well-formed
    intro cf hcf
    obtain ⟨ct, _, n, hn, he⟩ := mem_mergeCellFields _ _ _ cf hcf
    obtain ⟨hcn, hcc⟩ := mergeCellEntry_name_ctype n ct _ _ cf he
    have hnc : n ∈ cnames := by
      rcases hn with hn | hn
      · obtain ⟨a, ha, rfl⟩ := List.mem_map.mp hn; exact h1.cfNames a ha
      · obtain ⟨b, hb, rfl⟩ := List.mem_map.mp hn; exact h2.cfNames b hb
    rw [hcc, hlenrows ct]
    cases ha : findCellField f1.cellFields n ct with
    | none =>
      have hl1 : (f1.mesh.cellsOf ct).length = 0 := by
        cases hl : f1.mesh.cellsOf ct with
        | nil => rfl
        | cons x xs =>
          have := h1.cfComplete ct (by rw [hl]; exact List.cons_ne_nil _ _) n hnc
          rw [ha] at this; cases this
      cases hb : findCellField f2.cellFields n ct with
      | none => rw [ha, hb] at he; cases he
      | some b =>
        rw [ha, hb] at he
        simp only [mergeCellEntry, Option.some.injEq] at he
        subst he
        obtain ⟨hbm, hbn, hbc⟩ := findCellField_some _ _ _ _ hb
        have := h2.cfWf b hbm
        rw [hbc] at this
        simp only [hl1, Nat.zero_add]
        exact ⟨this.1, by rw [this.2, hbn]⟩
    | some a =>
      obtain ⟨ham, han, hac⟩ := findCellField_some _ _ _ _ ha
      have hwa := h1.cfWf a ham
      rw [hac] at hwa
      cases hb : findCellField f2.cellFields n ct with
      | none =>
        have hl2 : (f2.mesh.cellsOf ct).length = 0 := by
          cases hl : f2.mesh.cellsOf ct with
          | nil => rfl
          | cons x xs =>
            have := h2.cfComplete ct (by rw [hl]; exact List.cons_ne_nil _ _) n hnc
            rw [hb] at this; cases this
        rw [ha, hb] at he
        simp only [mergeCellEntry, Option.some.injEq] at he
        subst he
        simp only [hl2, Nat.add_zero]
        exact ⟨hwa.1, by rw [hwa.2, han]⟩
      | some b =>
        obtain ⟨hbm, hbn, hbc⟩ := findCellField_some _ _ _ _ hb
        have hwb := h2.cfWf b hbm
        rw [hbc] at hwb
        rw [ha, hb] at he
        simp only [mergeCellEntry, Option.some.injEq] at he
        subst he
        have hrs : b.values.rowSize = a.values.rowSize := by rw [hwa.2, hwb.2, han, hbn]
        have hcr : (NdArr.concat a.values b.values).rowSize = a.values.rowSize := by simp [NdArr.concat, NdArr.rowSize]
        refine ⟨?_, by rw [hcr, hwa.2, han]⟩
        rw [hcr]
        simp only [NdArr.concat, List.length_append, hwa.1, hwb.1, hrs, Nat.add_mul]
  · -- every named cell field is present wherever the merged mesh has cells
    intro ct _ hne n hn
    have hct : ct ∈ (stepResult srt f1 f2).mesh.cells.map (·.1) :=
      mem_types_of_rows _ ct (by simpa [cellsOf_eq_rowsOfType] using hne)
    have hfind : findCellField (stepResult srt f1 f2).cellFields n ct =
        mergeCellEntry n ct (findCellField f1.cellFields n ct) (findCellField f2.cellFields n ct) := by
      simp only [stepResult]; exact findCellField_merge _ _ _ n ct hct
    rw [hfind]
    have hlen : 0 < (f1.mesh.cellsOf ct).length + (f2.mesh.cellsOf ct).length := by
      rw [← hlenrows ct]; exact List.length_pos_iff.mpr hne
    by_cases hl1 : f1.mesh.cellsOf ct = []
    · have hl2 : f2.mesh.cellsOf ct ≠ [] := by
        intro h; rw [hl1, h] at hlen; simp at hlen
      have := h2.cfComplete ct hl2 n hn
      cases hb : findCellField f2.cellFields n ct with
      | none => rw [hb] at this; cases this
      | some b => cases findCellField f1.cellFields n ct <;> rfl
    · have := h1.cfComplete ct hl1 n hn
      cases ha : findCellField f1.cellFields n ct with
      | none => rw [ha] at this; cases this
      | some a => cases findCellField f2.cellFields n ct <;> rfl
  · -- merged point-field arrays are well-formed
    intro pf hpf
    simp only [stepResult, mergePointFields, List.mem_append, List.mem_map, List.mem_filter] at hpf
    rcases hpf with ⟨a, ha, rfl⟩ | ⟨b, ⟨hb, hnew⟩, rfl⟩
    · have hwa := h1.pfWf a ha
      have hs2 := h2.pfComplete a.name (h1.pfNames a ha)
      cases hb : f2.pointFields.find? (·.name == a.name) with
      | none => rw [hb] at hs2; cases hs2
      | some b =>
        have hbm := List.mem_of_find?_eq_some hb
        have hbn : b.name = a.name := by simpa using List.find?_some hb
        have hwb := h2.pfWf b hbm
        have hrs : b.values.rowSize = a.values.rowSize := by rw [hwa.2, hwb.2, hbn]
        simp only [mergePointEntry]
        have hcr : (NdArr.concat a.values (NdArr.takeRows b.values (filterExternal (stepDups srt f1 f2)))).rowSize
            = a.values.rowSize := by simp [NdArr.concat, NdArr.rowSize]
        refine ⟨?_, by rw [hcr]; exact hwa.2⟩
        rw [hcr, hpts]
        simp only [NdArr.concat, NdArr.takeRows, List.length_append, mergedPoints, List.length_map]
        rw [length_flatMap_const b.values.row b.values.rowSize _ (fun i hi => by
          obtain ⟨r', hr', hri⟩ := List.getElem_of_mem hi
          have := (filter_entry_lt _ r' i (by rw [List.getElem?_eq_getElem hr', hri])).1
          rw [hinv.len] at this
          exact row_length b.values _ i hwb.1 this)]
        rw [hwa.1, hrs, Nat.add_mul]
    · -- a field of the later piece without partner cannot exist: all names are schema names
      exfalso
      have hs1 := h1.pfComplete b.name (h2.pfNames b hb)
      cases ha : f1.pointFields.find? (·.name == b.name) with
      | none => rw [ha] at hs1; cases hs1
      | some a =>
        have ham := List.mem_of_find?_eq_some ha
        have han : a.name = b.name := by simpa using List.find?_some ha
        simp only [Bool.not_eq_true', List.any_eq_false] at hnew
        have := hnew a ham
        simp [han] at this
  · intro n hn
    have hs1 := h1.pfComplete n hn
    cases ha : f1.pointFields.find? (·.name == n) with
    | none => rw [ha] at hs1; cases hs1
    | some a =>
      simp only [stepResult, mergePointFields]
      rw [List.find?_append, find_map_name _ (fun a => mergePointEntry_name _ _ a _), ha]
      rfl
  · intro cf hcf
    obtain ⟨ct, _, n, hn, he⟩ := mem_mergeCellFields _ _ _ cf hcf
    rw [(mergeCellEntry_name_ctype n ct _ _ cf he).1]
    rcases hn with hn | hn
    · obtain ⟨a, ha, rfl⟩ := List.mem_map.mp hn; exact h1.cfNames a ha
    · obtain ⟨b, hb, rfl⟩ := List.mem_map.mp hn; exact h2.cfNames b hb
  · intro pf hpf
    simp only [stepResult, mergePointFields, List.mem_append, List.mem_map, List.mem_filter] at hpf
    rcases hpf with ⟨a, ha, rfl⟩ | ⟨b, ⟨hb, _⟩, rfl⟩
    · rw [mergePointEntry_name]; exact h1.pfNames a ha
    · exact h2.pfNames b hb
  · -- numeric types of the cell fields
    intro cf hcf
    obtain ⟨ct, _, n, _, he⟩ := mem_mergeCellFields _ _ _ cf hcf
    obtain ⟨hcn, _⟩ := mergeCellEntry_name_ctype n ct _ _ cf he
    cases ha : findCellField f1.cellFields n ct with
    | none =>
      cases hb : findCellField f2.cellFields n ct with
      | none => rw [ha, hb] at he; cases he
      | some b =>
        rw [ha, hb] at he
        simp only [mergeCellEntry, Option.some.injEq] at he
        subst he
        obtain ⟨hbm, hbn, _⟩ := findCellField_some _ _ _ _ hb
        simp only
        rw [h2.cfDType b hbm, hbn]
    | some a =>
      obtain ⟨ham, han, _⟩ := findCellField_some _ _ _ _ ha
      cases hb : findCellField f2.cellFields n ct with
      | none =>
        rw [ha, hb] at he
        simp only [mergeCellEntry, Option.some.injEq] at he
        subst he
        simp only
        rw [h1.cfDType a ham, han]
      | some b =>
        rw [ha, hb] at he
        simp only [mergeCellEntry, Option.some.injEq] at he
        subst he
        simp only [NdArr.concat]
        rw [h1.cfDType a ham, han]
  · -- numeric types of the point fields
    intro pf hpf
    simp only [stepResult, mergePointFields, List.mem_append, List.mem_map, List.mem_filter] at hpf
    rcases hpf with ⟨a, ha, rfl⟩ | ⟨b, ⟨hb, _⟩, rfl⟩
    · rw [mergePointEntry_name]
      cases f2.pointFields.find? (·.name == a.name) <;>
        simp only [mergePointEntry, NdArr.concat] <;> exact h1.pfDType a ha
    · simp only [NdArr.concat, NdArr.zerosLike]
      exact h2.pfDType b hb

/-! ### the fold over the pieces -/

theorem bringsNewPoint_congr (s1 s2 pts : List (List Int)) (h : ∀ q, q ∈ s1 ↔ q ∈ s2) :
    bringsNewPoint s1 pts = bringsNewPoint s2 pts := by
  unfold bringsNewPoint
  congr 1
  funext p
  have : s1.contains p = s2.contains p := by
    rw [Bool.eq_iff_iff]; simp only [List.contains_eq_mem, decide_eq_true_eq]; exact h p
  rw [this]

theorem mem_pointItemsOf (f : MeshFields) (names : List String) (it : PointItem) :
    it ∈ pointItemsOf f names ↔ ∃ k, k < f.mesh.points.length ∧ pointItemBy f names k = it := by
  simp [pointItemsOf, List.mem_map, List.mem_range]

/-- the hypothesis on the sort, as the theorems need it -/
def SortsRows (srt : List (List Int) → List Nat) : Prop :=
  ∀ (pts : List (List Int)) (d : Nat), (∀ p ∈ pts, p.length = d) → IsLexSort pts (srt pts)

theorem stepDups_inv (srt : List (List Int) → List Nat) (hsrt : SortsRows srt) (f1 f2 : MeshFields) (d : Nat)
    (cnames pnames : List String) (rsC rsP : String → Nat) (dtC dtP : String → DType)
    (h2 : PieceOk f2 d cnames pnames rsC rsP dtC dtP) :
    DupInv f2.mesh.points f1.mesh.points f1.mesh.points.length (stepDups srt f1 f2) :=
  mapDuplicatePoints_inv _ _ _ d (hsrt _ d h2.rows) h2.rows ((nodupRows_iff _).mpr h2.nodup)

/-- invariant of `merge`'s loop: `W` = point items of the whole data set (single-valued:
    items with equal coordinates are equal) -/
theorem mergeFold_spec (srt : List (List Int) → List Nat) (hsrt : SortsRows srt) (d : Nat)
    (cnames pnames : List String) (rsC rsP : String → Nat) (dtC dtP : String → DType)
    (W : List PointItem) (hW : ∀ a ∈ W, ∀ b ∈ W, a.coords = b.coords → a = b)
    (rest : List MeshFields) (acc : MeshFields) (seen : List (List Int))
    (hacc : PieceOk acc d cnames pnames rsC rsP dtC dtP)
    (hrest : ∀ f ∈ rest, PieceOk f d cnames pnames rsC rsP dtC dtP)
    (hseen : ∀ q, q ∈ seen ↔ q ∈ acc.mesh.points)
    (haccW : ∀ it ∈ pointItemsOf acc pnames, it ∈ W)
    (hrestW : ∀ f ∈ rest, ∀ it ∈ pointItemsOf f pnames, it ∈ W)
    (hnew : laterBringNew seen rest = true) :
    PieceOk (rest.foldl (merge1 srt) acc) d cnames pnames rsC rsP dtC dtP ∧
    (∀ ct, cellItemsOf (rest.foldl (merge1 srt) acc) cnames ct =
        cellItemsOf acc cnames ct ++ rest.flatMap (cellItemsOf · cnames ct)) ∧
    (∀ it, it ∈ pointItemsOf (rest.foldl (merge1 srt) acc) pnames ↔
        it ∈ pointItemsOf acc pnames ∨ ∃ f ∈ rest, it ∈ pointItemsOf f pnames) := by
  induction rest generalizing acc seen with
  | nil => exact ⟨hacc, by simp, by simp⟩
  | cons f rest ih =>
    simp only [laterBringNew, Bool.and_eq_true] at hnew
    obtain ⟨hnew1, hnew2⟩ := hnew
    have hf := hrest f (List.mem_cons_self ..)
    have hinv := stepDups_inv srt hsrt acc f d cnames pnames rsC rsP dtC dtP hf
    have hfilt : (filterExternal (stepDups srt acc f)).isEmpty = false := by
      apply filter_nonempty_of_new _ _ _ hinv
      rw [← bringsNewPoint_congr seen acc.mesh.points f.mesh.points hseen]
      exact hnew1
    have hstep := merge1_eq_stepResult srt acc f hfilt
    have hitems := pointItemsOf_step srt acc f d cnames pnames rsC rsP dtC dtP hacc hf hinv
    simp only [List.foldl_cons, hstep]
    have hmemstep : ∀ it, it ∈ pointItemsOf (stepResult srt acc f) pnames ↔
        it ∈ pointItemsOf acc pnames ∨ it ∈ pointItemsOf f pnames := by
      intro it
      rw [hitems, List.mem_append]
      constructor
      · rintro (h | h)
        · exact Or.inl h
        · right
          obtain ⟨k, hk, rfl⟩ := List.mem_map.mp h
          obtain ⟨r, hr, hrk⟩ := List.getElem_of_mem hk
          have := (filter_entry_lt _ r k (by rw [List.getElem?_eq_getElem hr, hrk])).1
          rw [hinv.len] at this
          exact (mem_pointItemsOf f pnames _).mpr ⟨k, this, rfl⟩
      · rintro (h | h)
        · exact Or.inl h
        · obtain ⟨k, hk, rfl⟩ := (mem_pointItemsOf f pnames it).mp h
          have hk' : k < (stepDups srt acc f).length := by rw [hinv.len]; exact hk
          have hx : (stepDups srt acc f)[k]? = some (stepDups srt acc f)[k] := List.getElem?_eq_getElem hk'
          cases hd : (stepDups srt acc f)[k] with
          | none =>
            rw [hd] at hx
            exact Or.inr (List.mem_map.mpr ⟨k, (mem_filterExternal _ k).mpr hx, rfl⟩)
          | some j =>
            rw [hd] at hx
            obtain ⟨hj, _, heq⟩ := hinv.sound k j hx
            left
            have h1 : pointItemBy acc pnames j ∈ W :=
              haccW _ ((mem_pointItemsOf acc pnames _).mpr ⟨j, hj, rfl⟩)
            have h2 : pointItemBy f pnames k ∈ W := hrestW f (List.mem_cons_self ..) _ h
            have : pointItemBy f pnames k = pointItemBy acc pnames j :=
              hW _ h2 _ h1 (by simpa [pointItemBy] using heq)
            rw [this]
            exact (mem_pointItemsOf acc pnames _).mpr ⟨j, hj, rfl⟩
    obtain ⟨ih1, ih2, ih3⟩ := ih (stepResult srt acc f) (seen ++ f.mesh.points)
      (stepResult_ok srt acc f d cnames pnames rsC rsP dtC dtP hacc hf hinv)
      (fun g hg => hrest g (List.mem_cons_of_mem _ hg))
      (by
        intro q
        have : (stepResult srt acc f).mesh.points = mergedPoints acc.mesh.points f.mesh.points (stepDups srt acc f) := rfl
        rw [this, mem_mergedPoints _ _ _ hinv, List.mem_append, hseen])
      (by
        intro it hit
        rcases (hmemstep it).mp hit with h | h
        · exact haccW it h
        · exact hrestW f (List.mem_cons_self ..) it h)
      (fun g hg => hrestW g (List.mem_cons_of_mem _ hg))
      hnew2
    refine ⟨ih1, ?_, ?_⟩
    · intro ct
      rw [ih2 ct, cellItemsOf_step srt acc f d cnames pnames rsC rsP dtC dtP hacc hf hinv ct]
      simp [List.flatMap_cons, List.append_assoc]
    · intro it
      rw [ih3 it, hmemstep it]
      simp only [List.mem_cons, exists_eq_or_imp, or_assoc]

theorem filter_empty_of_not_new (p1 p2 : List (List Int)) (dups : List (Option Nat))
    (h : DupInv p2 p1 p1.length dups) (hnew : bringsNewPoint p1 p2 = false) :
    (filterExternal dups).isEmpty = true := by
  cases hf : filterExternal dups with
  | nil => rfl
  | cons k rest =>
    exfalso
    have hk : k ∈ filterExternal dups := by rw [hf]; exact List.mem_cons_self ..
    have hkn := (mem_filterExternal dups k).mp hk
    have hk' : k < p2.length := by
      cases Nat.lt_or_ge k dups.length with
      | inl h' => rw [h.len] at h'; exact h'
      | inr h' => rw [List.getElem?_eq_none h'] at hkn; cases hkn
    simp only [bringsNewPoint, List.any_eq_false, Bool.not_eq_true', List.contains_eq_mem,
      decide_eq_false_iff_not, Classical.not_not] at hnew
    have hm := hnew (p2.getD k []) (by
      rw [List.getD_eq_getElem?_getD, List.getElem?_eq_getElem hk']; exact List.getElem_mem hk')
    obtain ⟨j, hj, hja⟩ := List.getElem_of_mem hm
    have : p2.getD k [] = p1.getD j [] := by
      rw [← hja, List.getD_eq_getElem?_getD (l := p1), List.getElem?_eq_getElem hj]; rfl
    obtain ⟨j', hj'⟩ := h.complete k j hk' hj this
    rw [hkn] at hj'
    cases hj'

theorem pointItemsOf_nodup (f : MeshFields) (names : List String) (h : f.mesh.points.Nodup) :
    (pointItemsOf f names).Nodup := by
  unfold pointItemsOf
  rw [List.nodup_iff_pairwise_ne, List.pairwise_map]
  refine List.Pairwise.imp_of_mem ?_ (List.nodup_iff_pairwise_ne.mp List.nodup_range)
  intro a b ha hb hab heq
  simp only [List.mem_range] at ha hb
  have : f.mesh.points.getD a [] = f.mesh.points.getD b [] := by
    have := congrArg PointItem.coords heq
    simpa [pointItemBy] using this
  exact hab (((nodupRows_iff _).mpr h) a b ha hb this)

theorem pointItems_single_valued (f : MeshFields) (names : List String) (h : f.mesh.points.Nodup) :
    ∀ a ∈ pointItemsOf f names, ∀ b ∈ pointItemsOf f names, a.coords = b.coords → a = b := by
  intro a ha b hb hab
  obtain ⟨k, hk, rfl⟩ := (mem_pointItemsOf f names a).mp ha
  obtain ⟨k', hk', rfl⟩ := (mem_pointItemsOf f names b).mp hb
  have : k = k' := ((nodupRows_iff _).mpr h) k k' hk hk' (by simpa [pointItemBy] using hab)
  rw [this]

end Fc.C06
