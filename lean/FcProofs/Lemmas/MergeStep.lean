/-
  Helper lemmas for property C06: one `_merge` step — merged points (no duplicates, geometry of
  remapped indices), merged cells per type, merged cell / point field values.
-/
import FcProofs.Lemmas.Merge
namespace Fc
open Spec

/-! ### generalities -/

theorem getD_eq_of_getElem? {α} {l : List α} {i : Nat} {a d : α} (h : l[i]? = some a) : l.getD i d = a := by
  rw [List.getD_eq_getElem?_getD, h]; rfl

theorem getElem?_of_lt_getD {α} (l : List α) (i : Nat) (d : α) (h : i < l.length) :
    l[i]? = some (l.getD i d) := by
  rw [List.getD_eq_getElem?_getD, List.getElem?_eq_getElem h]; rfl

theorem nodupRows_iff (pts : List (List Int)) : NodupRows pts ↔ pts.Nodup := by
  rw [List.nodup_iff_pairwise_ne, List.pairwise_iff_getElem]
  constructor
  · intro h i j hi hj hij heq
    have := h i j hi hj (by
      rw [List.getD_eq_getElem?_getD, List.getD_eq_getElem?_getD, List.getElem?_eq_getElem hi,
        List.getElem?_eq_getElem hj]; simpa using heq)
    omega
  · intro h i j hi hj heq
    rw [List.getD_eq_getElem?_getD, List.getD_eq_getElem?_getD, List.getElem?_eq_getElem hi,
      List.getElem?_eq_getElem hj] at heq
    simp only [Option.getD_some] at heq
    rcases Nat.lt_trichotomy i j with hlt | heq' | hgt
    · exact absurd heq (h i j hi hj hlt)
    · exact heq'
    · exact absurd heq.symm (h j i hj hi hgt)

/-! ### mapExternal / filterExternal at top level -/

theorem mapExternal_dup (dups : List (Option Nat)) (offset k j : Nat) (h : dups[k]? = some (some j)) :
    (mapExternal dups offset)[k]? = some j := mapExternalGo_dup offset dups 0 0 k j h

theorem mapExternal_kept (dups : List (Option Nat)) (offset r k : Nat)
    (h : (filterExternal dups)[r]? = some k) : (mapExternal dups offset)[k]? = some (offset + r) := by
  have := mapExternalGo_kept offset dups 0 0 (Nat.le_refl _) r k h
  simpa [mapExternal] using this

theorem exists_filter_index (dups : List (Option Nat)) (k : Nat) (h : dups[k]? = some none) :
    ∃ r : Nat, (filterExternal dups)[r]? = some k := by
  obtain ⟨r, hr, hrk⟩ := List.getElem_of_mem ((mem_filterExternal dups k).mpr h)
  exact ⟨r, by rw [List.getElem?_eq_getElem hr, hrk]⟩

theorem filter_entry_lt (dups : List (Option Nat)) (r k : Nat) (h : (filterExternal dups)[r]? = some k) :
    k < dups.length ∧ dups[k]? = some none := by
  have hm := (mem_filterExternal dups k).mp (List.mem_of_getElem? h)
  refine ⟨?_, hm⟩
  cases Nat.lt_or_ge k dups.length with
  | inl h' => exact h'
  | inr h' => rw [List.getElem?_eq_none h'] at hm; cases hm

/-! ### merged points -/

/-- the merged point array of `_merge` -/
def mergedPoints (p1 p2 : List (List Int)) (dups : List (Option Nat)) : List (List Int) :=
  p1 ++ (filterExternal dups).map fun i => p2.getD i []

/-- **geometry of the index remapping**: local point `p` of the later piece and its image under
    `points2_map` in the merged point array have the same coordinates -/
theorem remap_point (p1 p2 : List (List Int)) (dups : List (Option Nat))
    (h : DupInv p2 p1 p1.length dups) (p : Nat) (hp : p < p2.length) :
    (mergedPoints p1 p2 dups).getD ((mapExternal dups p1.length).getD p 0) [] = p2.getD p [] := by
  have hp' : p < dups.length := by rw [h.len]; exact hp
  have hx : dups[p]? = some dups[p] := List.getElem?_eq_getElem hp'
  cases hd : dups[p] with
  | some j =>
    rw [hd] at hx
    obtain ⟨hj, _, heq⟩ := h.sound p j hx
    rw [getD_eq_of_getElem? (mapExternal_dup dups p1.length p j hx)]
    unfold mergedPoints
    rw [List.getD_eq_getElem?_getD, List.getElem?_append_left hj, ← List.getD_eq_getElem?_getD]
    exact heq.symm
  | none =>
    rw [hd] at hx
    obtain ⟨r, hr⟩ := exists_filter_index dups p hx
    rw [getD_eq_of_getElem? (mapExternal_kept dups p1.length r p hr)]
    unfold mergedPoints
    rw [List.getD_eq_getElem?_getD, List.getElem?_append_right (by omega)]
    simp only [Nat.add_sub_cancel_left, List.getElem?_map, hr, Option.map_some, Option.getD_some]

theorem remap_lt (p1 p2 : List (List Int)) (dups : List (Option Nat))
    (h : DupInv p2 p1 p1.length dups) (p : Nat) (hp : p < p2.length) :
    (mapExternal dups p1.length).getD p 0 < (mergedPoints p1 p2 dups).length := by
  have hp' : p < dups.length := by rw [h.len]; exact hp
  have hx : dups[p]? = some dups[p] := List.getElem?_eq_getElem hp'
  simp only [mergedPoints, List.length_append, List.length_map]
  cases hd : dups[p] with
  | some j =>
    rw [hd] at hx
    obtain ⟨hj, _, _⟩ := h.sound p j hx
    rw [getD_eq_of_getElem? (mapExternal_dup dups p1.length p j hx)]
    omega
  | none =>
    rw [hd] at hx
    obtain ⟨r, hr⟩ := exists_filter_index dups p hx
    rw [getD_eq_of_getElem? (mapExternal_kept dups p1.length r p hr)]
    have : r < (filterExternal dups).length := by
      cases Nat.lt_or_ge r (filterExternal dups).length with
      | inl h' => exact h'
      | inr h' => rw [List.getElem?_eq_none h'] at hr; cases hr
    omega

theorem mem_mergedPoints (p1 p2 : List (List Int)) (dups : List (Option Nat))
    (h : DupInv p2 p1 p1.length dups) (q : List Int) :
    q ∈ mergedPoints p1 p2 dups ↔ q ∈ p1 ∨ q ∈ p2 := by
  unfold mergedPoints
  simp only [List.mem_append, List.mem_map]
  constructor
  · rintro (hq | ⟨k, hk, rfl⟩)
    · exact Or.inl hq
    · right
      obtain ⟨r, hr, hrk⟩ := List.getElem_of_mem hk
      have := (filter_entry_lt dups r k (by rw [List.getElem?_eq_getElem hr, hrk])).1
      rw [h.len] at this
      rw [List.getD_eq_getElem?_getD, List.getElem?_eq_getElem this]
      exact List.getElem_mem this
  · rintro (hq | hq)
    · exact Or.inl hq
    · obtain ⟨k, hk, rfl⟩ := List.getElem_of_mem hq
      have hk' : k < dups.length := by rw [h.len]; exact hk
      have hx : dups[k]? = some dups[k] := List.getElem?_eq_getElem hk'
      cases hd : dups[k] with
      | some j =>
        rw [hd] at hx
        obtain ⟨hj, _, heq⟩ := h.sound k j hx
        left
        have : p2[k] = p1.getD j [] := by
          rw [← heq, List.getD_eq_getElem?_getD, List.getElem?_eq_getElem hk]; rfl
        rw [this, List.getD_eq_getElem?_getD, List.getElem?_eq_getElem hj]
        exact List.getElem_mem hj
      | none =>
        rw [hd] at hx
        right
        refine ⟨k, (mem_filterExternal dups k).mpr hx, ?_⟩
        rw [List.getD_eq_getElem?_getD, List.getElem?_eq_getElem hk]; rfl

/-- **points shared between pieces are present once**: the merged point array has no coincident
    points if neither side had any -/
theorem mergedPoints_nodup (p1 p2 : List (List Int)) (dups : List (Option Nat))
    (h : DupInv p2 p1 p1.length dups) (h1 : p1.Nodup) (h2 : p2.Nodup) :
    (mergedPoints p1 p2 dups).Nodup := by
  unfold mergedPoints
  rw [List.nodup_append]
  refine ⟨h1, ?_, ?_⟩
  · -- kept points are distinct points of the later piece
    rw [List.nodup_iff_pairwise_ne, List.pairwise_map]
    refine List.Pairwise.imp_of_mem ?_ (filterExternal_sorted dups)
    intro a b ha hb hab heq
    have ha' : a < p2.length := by
      obtain ⟨r, hr, hrk⟩ := List.getElem_of_mem ha
      have := (filter_entry_lt dups r a (by rw [List.getElem?_eq_getElem hr, hrk])).1
      rwa [h.len] at this
    have hb' : b < p2.length := by
      obtain ⟨r, hr, hrk⟩ := List.getElem_of_mem hb
      have := (filter_entry_lt dups r b (by rw [List.getElem?_eq_getElem hr, hrk])).1
      rwa [h.len] at this
    have := ((nodupRows_iff p2).mpr h2) a b ha' hb' heq
    omega
  · -- a kept point coincides with no earlier point (completeness of the duplicate search)
    intro a ha b hb hab
    simp only [List.mem_map] at hb
    obtain ⟨k, hk, rfl⟩ := hb
    have hkn := (mem_filterExternal dups k).mp hk
    have hk' : k < p2.length := by
      cases Nat.lt_or_ge k dups.length with
      | inl h' => rw [h.len] at h'; exact h'
      | inr h' => rw [List.getElem?_eq_none h'] at hkn; cases hkn
    obtain ⟨j, hj, hja⟩ := List.getElem_of_mem ha
    have : p2.getD k [] = p1.getD j [] := by
      rw [← hab, ← hja, List.getD_eq_getElem?_getD (l := p1), List.getElem?_eq_getElem hj]; rfl
    obtain ⟨j', hj'⟩ := h.complete k j hk' hj this
    rw [hkn] at hj'
    cases hj'

/-- the F3-excluding hypothesis makes `points2_filter` non-empty -/
theorem filter_nonempty_of_new (p1 p2 : List (List Int)) (dups : List (Option Nat))
    (h : DupInv p2 p1 p1.length dups) (hnew : bringsNewPoint p1 p2 = true) :
    (filterExternal dups).isEmpty = false := by
  simp only [bringsNewPoint, List.any_eq_true, Bool.not_eq_true', List.contains_eq_mem,
    decide_eq_false_iff_not] at hnew
  obtain ⟨q, hq, hnot⟩ := hnew
  obtain ⟨k, hk, rfl⟩ := List.getElem_of_mem hq
  have hk' : k < dups.length := by rw [h.len]; exact hk
  have hx : dups[k]? = some dups[k] := List.getElem?_eq_getElem hk'
  cases hd : dups[k] with
  | some j =>
    rw [hd] at hx
    obtain ⟨hj, _, heq⟩ := h.sound k j hx
    exfalso; apply hnot
    have : p2[k] = p1.getD j [] := by
      rw [← heq, List.getD_eq_getElem?_getD, List.getElem?_eq_getElem hk]; rfl
    rw [this, List.getD_eq_getElem?_getD, List.getElem?_eq_getElem hj]
    exact List.getElem_mem hj
  | none =>
    rw [hd] at hx
    have := (mem_filterExternal dups k).mpr hx
    cases hf : filterExternal dups with
    | nil => rw [hf] at this; cases this
    | cons _ _ => rfl

/-! ### merged cells per type -/

theorem cellsOf_eq_rowsOfType (m : Mesh) (ct : String) : m.cellsOf ct = rowsOfType m.cells ct := rfl

theorem find_filter_new (c1 c2 : List (String × List (List Nat))) (ct : String)
    (h : ∀ b ∈ c1, (b.1 == ct) = false) :
    (c2.filter fun b2 => !(c1.any (·.1 == b2.1))).find? (·.1 == ct) = c2.find? (·.1 == ct) := by
  induction c2 with
  | nil => rfl
  | cons b2 r ih =>
    by_cases hb : (b2.1 == ct) = true
    · have hct : b2.1 = ct := by simpa using hb
      have hnew : (!(c1.any (·.1 == b2.1))) = true := by
        simp only [Bool.not_eq_true', List.any_eq_false]
        intro b hbm
        rw [hct]
        simpa using h b hbm
      simp [hnew, hb]
    · simp only [Bool.not_eq_true] at hb
      rw [List.find?_cons, hb]
      simp only [List.filter_cons]
      split
      · rw [List.find?_cons, hb]; exact ih
      · exact ih

theorem find_map_fst {β} (g : String × β → String × β) (hg : ∀ b, (g b).1 = b.1)
    (l : List (String × β)) (ct : String) :
    (l.map g).find? (·.1 == ct) = (l.find? (·.1 == ct)).map g := by
  induction l with
  | nil => rfl
  | cons b r ih =>
    simp only [List.map_cons, List.find?_cons, hg]
    cases (b.1 == ct) with
    | true => rfl
    | false => exact ih

/-- **merged connectivity**: for every cell type the merged mesh lists the earlier mesh's cells
    followed by the later piece's cells with remapped corners — nothing lost, nothing twice -/
theorem rowsOfType_mergeCells (c1 c2 : List (String × List (List Nat))) (pmap : List Nat) (ct : String) :
    rowsOfType (mergeCells c1 c2 pmap) ct = rowsOfType c1 ct ++ remapRows pmap (rowsOfType c2 ct) := by
  unfold mergeCells
  rw [rowsOfType, List.find?_append,
    find_map_fst (fun b : String × List (List Nat) => (b.1, b.2 ++ remapRows pmap (rowsOfType c2 b.1)))
      (fun _ => rfl),
    find_map_fst (fun b2 : String × List (List Nat) => (b2.1, remapRows pmap b2.2)) (fun _ => rfl)]
  cases h1 : c1.find? (·.1 == ct) with
  | some b1 =>
    have hb1 : b1.1 = ct := by
      have := List.find?_some h1
      simpa using this
    simp only [Option.map_some, Option.some_or, hb1, rowsOfType, h1]
  | none =>
    have hnone : ∀ b ∈ c1, (b.1 == ct) = false := by
      intro b hb
      have := List.find?_eq_none.mp h1 b hb
      simpa using this
    rw [find_filter_new c1 c2 ct hnone]
    simp only [Option.map_none, Option.none_or, rowsOfType, h1, List.nil_append]
    cases c2.find? (·.1 == ct) with
    | some b2 => rfl
    | none => rfl

end Fc
