/-
  FcProofs.Lemmas.Slack — converse of C01_exact_implies_float: the floating evaluation of the
  documented formula implies the exact inequality up to an explicit slack of one rounding on each
  side (relative 2^-53) plus half a subnormal quantum.
-/
import FcProofs.Lemmas.RoundingError
import FcModel.Spec.Predicates
import Mathlib.Tactic.Ring
import Mathlib.Tactic.Linarith
namespace Fc
open Spec

set_option maxRecDepth 8192

/-- binary64, scale 0: `D·(2^53 − 1) ≤ rnd(D)·2^53` -/
theorem rnd_lower_f64 (D : Nat) : D * 9007199254740991 ≤ rndRaw f64 D 0 * 9007199254740992 := by
  rcases Nat.eq_zero_or_pos D with rfl | hD
  · simp
  · have he := (rndRaw_error f64 D 0).2
    simp only [Nat.pow_zero, Nat.mul_one] at he
    rcases ulp_bound f64 D 0 (by omega) with hs | hs
    · have : ulpShift f64 D 0 = 0 := by simpa [f64] using hs
      rw [this] at he
      simp only [Nat.pow_zero] at he
      clear hs this
      have : D ≤ rndRaw f64 D 0 := by omega
      linarith
    · have hs' : 2 ^ ulpShift f64 D 0 * 4503599627370496 ≤ D := by simpa [f64] using hs
      generalize 2 ^ ulpShift f64 D 0 = E at he hs'
      clear hs
      linarith

/-- binary64, scale UNIT: `rnd(P)·2^UNIT·2^53 ≤ P·(2^53 + 1) + 2^(UNIT+52)` -/
theorem rnd_upper_f64 (P : Nat) :
    rndRaw f64 P UNIT * 2 ^ UNIT * 9007199254740992 ≤ P * 9007199254740993 + 2 ^ UNIT * 4503599627370496 := by
  rcases Nat.eq_zero_or_pos P with rfl | hP
  · simp [rndRaw_zero]
  · have he := (rndRaw_error f64 P UNIT).1
    rcases ulp_bound f64 P UNIT (by omega) with hs | hs
    · have : ulpShift f64 P UNIT = UNIT := by simpa [f64] using hs
      rw [this] at he
      generalize rndRaw f64 P UNIT * 2 ^ UNIT = X at he ⊢
      generalize 2 ^ UNIT = W at he ⊢
      clear hs this
      linarith
    · have hs' : 2 ^ ulpShift f64 P UNIT * 4503599627370496 ≤ P := by simpa [f64] using hs
      generalize rndRaw f64 P UNIT * 2 ^ UNIT = X at he ⊢
      generalize 2 ^ ulpShift f64 P UNIT = E at he hs'
      have hw : 0 < 2 ^ UNIT * 4503599627370496 := Nat.mul_pos (two_pow_pos' _) (by decide)
      generalize 2 ^ UNIT = W at hw ⊢
      clear hs
      linarith

/-- the slack bound, on the raw roundings -/
theorem slack_core (D P A d p : Nat) (W : Nat)
    (h1 : D * 9007199254740991 ≤ d * 9007199254740992)
    (h3 : p * W * 9007199254740992 ≤ P * 9007199254740993 + W * 4503599627370496)
    (h2 : d ≤ max p A) :
    D * W * 9007199254740991 ≤ max (P * 9007199254740993 + W * 4503599627370496) (A * (W * 9007199254740992)) := by
  have e1 : D * W * 9007199254740991 = D * 9007199254740991 * W := Nat.mul_right_comm D W _
  rw [e1]
  have s1 : D * 9007199254740991 * W ≤ d * 9007199254740992 * W := Nat.mul_le_mul_right W h1
  rcases Nat.le_total p A with hpa | hpa
  · have hd : d ≤ A := by rw [Nat.max_eq_right hpa] at h2; exact h2
    have s2 : d * 9007199254740992 * W ≤ A * 9007199254740992 * W := Nat.mul_le_mul_right W (Nat.mul_le_mul_right _ hd)
    have e2 : A * 9007199254740992 * W = A * (W * 9007199254740992) := by rw [Nat.mul_assoc, Nat.mul_comm 9007199254740992 W]
    rw [e2] at s2
    exact Nat.le_trans (Nat.le_trans s1 s2) (Nat.le_max_right _ _)
  · have hd : d ≤ p := by rw [Nat.max_eq_left hpa] at h2; exact h2
    have s2 : d * 9007199254740992 * W ≤ p * 9007199254740992 * W := Nat.mul_le_mul_right W (Nat.mul_le_mul_right _ hd)
    have e2 : p * 9007199254740992 * W = p * W * 9007199254740992 := Nat.mul_right_comm p _ W
    rw [e2] at s2
    exact Nat.le_trans (Nat.le_trans s1 s2) (Nat.le_trans h3 (Nat.le_max_left _ _))

end Fc
