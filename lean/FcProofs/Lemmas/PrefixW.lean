/-
  Lemmas.PrefixW — the readers on a strict prefix of an encoded array:
  the base64 decoder either raises or returns a 3-byte-aligned strict prefix of the encoded bytes;
  `NoCompressor` then returns fewer bytes than the header announces, and the length assertion fails.
-/
import FcProofs.Lemmas.BytesW
import FcModel.Truncation
namespace Fc.W

theorem dang1 {s : Nat} (h : s < 64) (l p : Nat) : decGo [alpha s] 0 l p = none := by
  rw [decGo_a0 h]; simp [decGo]

theorem dang2 {s1 s2 : Nat} (h1 : s1 < 64) (h2 : s2 < 64) (l p : Nat) : decGo [alpha s1, alpha s2] 0 l p = none := by
  rw [decGo_a0 h1, decGo_a1 h2]; simp [decGo]

theorem dang3 {s1 s2 s3 : Nat} (h1 : s1 < 64) (h2 : s2 < 64) (h3 : s3 < 64) (l p : Nat) :
    decGo [alpha s1, alpha s2, alpha s3] 0 l p = none := by
  rw [decGo_a0 h1, decGo_a1 h2, decGo_a2 h3]; simp [decGo]

theorem dang3pad {s1 s2 : Nat} (h1 : s1 < 64) (h2 : s2 < 64) (l p : Nat) :
    decGo [alpha s1, alpha s2, 61] 0 l p = none := by
  rw [decGo_a0 h1, decGo_a1 h2]; simp [decGo]

/-- the decoder on a strict prefix of an encoding: error, or the first `3k` bytes with `3k < length` -/
theorem b64dec_strict_prefix : ∀ (x : Bytes), (∀ b ∈ x, b < 256) → ∀ (avail : List Nat),
    avail <+: b64enc x → avail ≠ b64enc x → ∀ out, b64dec avail = some out →
    ∃ k, out = x.take (3 * k) ∧ 3 * k < x.length
  | [], _, avail, hp, hne, _, _ => by
    simp only [b64enc, List.prefix_nil] at hp
    subst hp; exact absurd rfl hne
  | [a], h, avail, hp, hne, out, hd => by
    have ha : a < 256 := h a (by simp)
    simp only [b64enc] at hp hne
    match avail, hp, hne, hd with
    | [], _, _, hd => simp [b64dec, decGo] at hd; subst hd; exact ⟨0, by simp, by simp⟩
    | [d1], hp, _, hd =>
      have e := (List.cons_prefix_cons.mp hp).1; subst e
      unfold b64dec at hd; rw [dang1 (show a / 4 < 64 by omega)] at hd; cases hd
    | [d1, d2], hp, _, hd =>
      have e1 := (List.cons_prefix_cons.mp hp).1
      have e2 := (List.cons_prefix_cons.mp (List.cons_prefix_cons.mp hp).2).1
      subst e1; subst e2
      unfold b64dec at hd; rw [dang2 (show a / 4 < 64 by omega) (show a % 4 * 16 < 64 by omega)] at hd; cases hd
    | [d1, d2, d3], hp, _, hd =>
      have e1 := (List.cons_prefix_cons.mp hp).1
      have hp2 := (List.cons_prefix_cons.mp hp).2
      have e2 := (List.cons_prefix_cons.mp hp2).1
      have e3 := (List.cons_prefix_cons.mp (List.cons_prefix_cons.mp hp2).2).1
      subst e1; subst e2; subst e3
      unfold b64dec at hd; rw [dang3pad (show a / 4 < 64 by omega) (show a % 4 * 16 < 64 by omega)] at hd; cases hd
    | d1 :: d2 :: d3 :: d4 :: rest, hp, hne, _ =>
      have hp2 := (List.cons_prefix_cons.mp hp)
      have hp3 := (List.cons_prefix_cons.mp hp2.2)
      have hp4 := (List.cons_prefix_cons.mp hp3.2)
      have hp5 := (List.cons_prefix_cons.mp hp4.2)
      have : rest = [] := List.prefix_nil.mp hp5.2
      exact absurd (by rw [hp2.1, hp3.1, hp4.1, hp5.1, this]) hne
  | [a, b], h, avail, hp, hne, out, hd => by
    have ha : a < 256 := h a (by simp)
    have hb : b < 256 := h b (by simp)
    simp only [b64enc] at hp hne
    match avail, hp, hne, hd with
    | [], _, _, hd => simp [b64dec, decGo] at hd; subst hd; exact ⟨0, by simp, by simp⟩
    | [d1], hp, _, hd =>
      have e := (List.cons_prefix_cons.mp hp).1; subst e
      unfold b64dec at hd; rw [dang1 (show a / 4 < 64 by omega)] at hd; cases hd
    | [d1, d2], hp, _, hd =>
      have e1 := (List.cons_prefix_cons.mp hp).1
      have e2 := (List.cons_prefix_cons.mp (List.cons_prefix_cons.mp hp).2).1
      subst e1; subst e2
      unfold b64dec at hd; rw [dang2 (show a / 4 < 64 by omega) (show a % 4 * 16 + b / 16 < 64 by omega)] at hd; cases hd
    | [d1, d2, d3], hp, _, hd =>
      have e1 := (List.cons_prefix_cons.mp hp).1
      have hp2 := (List.cons_prefix_cons.mp hp).2
      have e2 := (List.cons_prefix_cons.mp hp2).1
      have e3 := (List.cons_prefix_cons.mp (List.cons_prefix_cons.mp hp2).2).1
      subst e1; subst e2; subst e3
      unfold b64dec at hd
      rw [dang3 (show a / 4 < 64 by omega) (show a % 4 * 16 + b / 16 < 64 by omega) (show b % 16 * 4 < 64 by omega)] at hd
      cases hd
    | d1 :: d2 :: d3 :: d4 :: rest, hp, hne, _ =>
      have hp2 := (List.cons_prefix_cons.mp hp)
      have hp3 := (List.cons_prefix_cons.mp hp2.2)
      have hp4 := (List.cons_prefix_cons.mp hp3.2)
      have hp5 := (List.cons_prefix_cons.mp hp4.2)
      have : rest = [] := List.prefix_nil.mp hp5.2
      exact absurd (by rw [hp2.1, hp3.1, hp4.1, hp5.1, this]) hne
  | a :: b :: c :: r, h, avail, hp, hne, out, hd => by
    have ha : a < 256 := h a (by simp)
    have hb : b < 256 := h b (by simp)
    have hc : c < 256 := h c (by simp)
    simp only [b64enc] at hp hne
    match avail, hp, hne, hd with
    | [], _, _, hd => simp [b64dec, decGo] at hd; subst hd; exact ⟨0, by simp, by simp⟩
    | [d1], hp, _, hd =>
      have e := (List.cons_prefix_cons.mp hp).1; subst e
      unfold b64dec at hd; rw [dang1 (show a / 4 < 64 by omega)] at hd; cases hd
    | [d1, d2], hp, _, hd =>
      have e1 := (List.cons_prefix_cons.mp hp).1
      have e2 := (List.cons_prefix_cons.mp (List.cons_prefix_cons.mp hp).2).1
      subst e1; subst e2
      unfold b64dec at hd; rw [dang2 (show a / 4 < 64 by omega) (show a % 4 * 16 + b / 16 < 64 by omega)] at hd; cases hd
    | [d1, d2, d3], hp, _, hd =>
      have e1 := (List.cons_prefix_cons.mp hp).1
      have hp2 := (List.cons_prefix_cons.mp hp).2
      have e2 := (List.cons_prefix_cons.mp hp2).1
      have e3 := (List.cons_prefix_cons.mp (List.cons_prefix_cons.mp hp2).2).1
      subst e1; subst e2; subst e3
      unfold b64dec at hd
      rw [dang3 (show a / 4 < 64 by omega) (show a % 4 * 16 + b / 16 < 64 by omega) (show b % 16 * 4 + c / 64 < 64 by omega)] at hd
      cases hd
    | d1 :: d2 :: d3 :: d4 :: rest, hp, hne, hd =>
      have hp2 := (List.cons_prefix_cons.mp hp)
      have hp3 := (List.cons_prefix_cons.mp hp2.2)
      have hp4 := (List.cons_prefix_cons.mp hp3.2)
      have hp5 := (List.cons_prefix_cons.mp hp4.2)
      have hrest : rest ≠ b64enc r := by
        intro e; apply hne; rw [hp2.1, hp3.1, hp4.1, hp5.1, e]
      have hd' := hd
      rw [hp2.1, hp3.1, hp4.1, hp5.1] at hd'
      unfold b64dec at hd'
      rw [decGo_quad ha hb hc] at hd'
      cases hr : decGo rest 0 0 0 with
      | none => rw [hr] at hd'; cases hd'
      | some out' =>
        rw [hr] at hd'
        simp only [Option.map_some, Option.some.injEq] at hd'
        obtain ⟨k, hk1, hk2⟩ := b64dec_strict_prefix r (fun y hy => h y (by simp [hy])) rest hp5.2 hrest out' hr
        refine ⟨k + 1, ?_, by simp only [List.length_cons]; omega⟩
        rw [← hd', hk1]
        have : 3 * (k + 1) = 3 * k + 1 + 1 + 1 := by omega
        rw [this]
        simp [List.take_succ_cons]

theorem takeItems_length (size : Nat) : ∀ (n : Nat) (bs : Bytes), (takeItems size n bs).length = n
  | 0, _ => rfl
  | n + 1, bs => by simp [takeItems, takeItems_length size n]

/-- fewer bytes than `declared` items need ⇒ the length assertion fails (or `frombuffer` raises) -/
theorem checkDeclared_short (size declared : Nat) (out : Bytes) (h : out.length < declared * size) :
    checkDeclared size declared (some out) = none := by
  unfold checkDeclared
  simp only
  unfold frombuffer
  by_cases hc : size = 0 ∨ out.length % size ≠ 0
  · rw [if_pos hc]
  · rw [if_neg hc]
    simp only [takeItems_length]
    have hs : 0 < size := by omega
    have : out.length / size < declared := by
      apply Nat.div_lt_of_lt_mul; rw [Nat.mul_comm]; exact h
    rw [if_neg (by omega)]

/-- reading the uncompressed stream `header ++ payload` from a strict prefix of its bytes -/
theorem noComp_prefix_core (h n m : Nat) (payload : Bytes) (hn : payload.length = n) (hlt : n < 256 ^ h)
    (hm : m < h + n) (hge : h ≤ m) :
    fromLe (((leBytes h n ++ payload).take m).take h) = n ∧
      ((((leBytes h n ++ payload).take m).drop h).take n).length < n := by
  constructor
  · rw [List.take_take, Nat.min_eq_left hge]
    rw [List.take_append_of_le_length (by rw [leBytes_length]; exact Nat.le_refl _)]
    rw [List.take_of_length_le (by rw [leBytes_length]; exact Nat.le_refl _)]
    exact fromLe_leBytes_of_lt hlt
  · simp only [List.length_take, List.length_drop, List.length_append, leBytes_length, hn]
    omega

end Fc.W
