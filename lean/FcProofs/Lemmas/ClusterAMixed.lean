/-
  FcProofs.Lemmas.ClusterAMixed — `fuzzyCheck` on an integer array next to a float64 array is
  `fuzzyCheck` on the entry-wise converted (binary64) array.
-/
import FcModel.Spec.ClusterA
import FcProofs.Lemmas.ClusterAInts
namespace Fc
open Spec

theorem fuzzyCheck_int_flt (rel abs : Tol) (a b : NdArr) (sg : Bool) (bits : Nat)
    (ha : a.dtype = .int sg bits) (hb : b.dtype = .flt f64) (ad : List Int)
    (had : intsToF64 a.data = some ad) :
    fuzzyCheck rel abs a b = fuzzyCheck rel abs { a with dtype := .flt f64, data := ad } b := by
  unfold fuzzyCheck
  simp only
  cases hp : reshapePair a.shape b.shape with
  | mk s1 s2 =>
    simp only
    by_cases hc : s1 = s2
    · subst hc
      simp only [ne_eq, not_true_eq_false, if_false]
      rw [ha, hb]
      simp only [not_true_eq_false, if_false, had]
    · simp [hc]

theorem fuzzyCheck_flt_int (rel abs : Tol) (a b : NdArr) (sg : Bool) (bits : Nat)
    (ha : a.dtype = .flt f64) (hb : b.dtype = .int sg bits) (bd : List Int)
    (hbd : intsToF64 b.data = some bd) :
    fuzzyCheck rel abs a b = fuzzyCheck rel abs a { b with dtype := .flt f64, data := bd } := by
  unfold fuzzyCheck
  simp only
  cases hp : reshapePair a.shape b.shape with
  | mk s1 s2 =>
    simp only
    by_cases hc : s1 = s2
    · subst hc
      simp only [ne_eq, not_true_eq_false, if_false]
      rw [ha, hb]
      simp only [not_true_eq_false, if_false, hbd]
    · simp [hc]

theorem convIntArr_some {x x' : NdArr} (h : convIntArr x = some x') :
    ∃ sg bits d, x.dtype = .int sg bits ∧ intsToF64 x.data = some d ∧
      x' = { x with dtype := .flt f64, data := d } := by
  unfold convIntArr at h
  cases hd : x.dtype with
  | flt F => rw [hd] at h; simp at h
  | str => rw [hd] at h; simp at h
  | int sg bits =>
    rw [hd] at h
    simp only at h
    cases hi : intsToF64 x.data with
    | none => rw [hi] at h; simp at h
    | some d =>
      rw [hi] at h
      simp only [Option.map_some, Option.some.injEq] at h
      exact ⟨sg, bits, d, rfl, rfl, h.symm⟩

/-! ### exact conversion of small integers -/

theorem rndMag_two_pow53_lit : rndMag f64 (2 ^ 53 * 2 ^ 1074) 0 = some (2 ^ 53 * 2 ^ 1074) := by
  decide +kernel

/-- integers of magnitude ≤ 2^53 are binary64 numbers: the conversion is exact -/
theorem rndMag_small_int (n : Nat) (h : n ≤ 2 ^ 53) :
    rndMag f64 (n * 2 ^ UNIT) 0 = some (n * 2 ^ UNIT) := by
  rcases Nat.eq_zero_or_pos n with rfl | hn
  · rw [Nat.zero_mul]; exact rndMag_zero f64 0
  rcases Nat.lt_or_eq_of_le h with hlt | heq
  · have hlog : n.log2 < 53 := (Nat.log2_lt (by omega)).mpr hlt
    have hal : (n * 2 ^ UNIT).log2 = n.log2 + UNIT := log2_mul_two_pow (by omega) UNIT
    have hsh : ulpShift f64 (n * 2 ^ UNIT) 0 = n.log2 + 1022 := by
      unfold ulpShift
      rw [hal]
      have hp : f64.prec = 53 := rfl
      have hq : f64.q = 0 := rfl
      have hU : UNIT = 1074 := rfl
      rw [hp, hq, hU]
      omega
    have ha : n * 2 ^ UNIT = (n * 2 ^ (52 - n.log2)) * 2 ^ (n.log2 + 1022) := by
      rw [Nat.mul_assoc, ← Nat.pow_add]
      have hU : UNIT = 52 - n.log2 + (n.log2 + 1022) := by
        have hU' : UNIT = 1074 := rfl
        rw [hU']
        clear hal hsh hU'
        omega
      rw [← hU]
    have hraw : rndRaw f64 (n * 2 ^ UNIT) 0 = n * 2 ^ UNIT := by
      unfold rndRaw
      simp only [hsh, Nat.sub_zero]
      conv => lhs; rw [ha, rne_mul_pow]
      exact ha.symm
    have hlt2 : n * 2 ^ UNIT < 2 ^ f64.emaxU := by
      have h1 : n * 2 ^ UNIT < 2 ^ 53 * 2 ^ UNIT := Nat.mul_lt_mul_of_pos_right hlt (two_pow_pos' _)
      have h2 : 2 ^ 53 * 2 ^ UNIT = 2 ^ (53 + UNIT) := (Nat.pow_add 2 53 UNIT).symm
      have h3 : 2 ^ (53 + UNIT) ≤ 2 ^ f64.emaxU := Nat.pow_le_pow_right (by decide) (by decide)
      rw [h2] at h1
      exact Nat.lt_of_lt_of_le h1 h3
    unfold rndMag
    simp only [hraw]
    rw [if_neg (Nat.not_le.mpr hlt2)]
  · subst heq
    unfold UNIT; exact rndMag_two_pow53_lit

theorem intToF64_small (x : Int) (h : x.natAbs ≤ 2 ^ 53) : intToF64 x = some (x * 2 ^ UNIT) := by
  unfold intToF64 rndInt
  have e : (x * 2 ^ UNIT).natAbs = x.natAbs * 2 ^ UNIT := by
    have h2 : (2 : Int).natAbs = 2 := rfl
    rw [Int.natAbs_mul, Int.natAbs_pow, h2]
  rw [e, rndMag_small_int _ h]
  simp only
  have hp : (0 : Int) < 2 ^ UNIT := two_pow_pos_int UNIT
  have e2 : ((x.natAbs * 2 ^ UNIT : Nat) : Int) = (x.natAbs : Int) * 2 ^ UNIT := by push_cast; rfl
  rw [e2]
  by_cases hx : x < 0
  · have : x * 2 ^ UNIT < 0 := Int.mul_neg_of_neg_of_pos hx hp
    rw [if_pos this]
    have : (x.natAbs : Int) = -x := by omega
    rw [this, Int.neg_mul, Int.neg_neg]
  · have : ¬ (x * 2 ^ UNIT < 0) := by
      have : 0 ≤ x * 2 ^ UNIT := Int.mul_nonneg (by omega) (by omega)
      omega
    rw [if_neg this]
    have : (x.natAbs : Int) = x := by omega
    rw [this]

/-- an array all of whose entries have magnitude ≤ 2^53 converts to itself (in units) -/
theorem intsToF64_small (xs : List Int) (h : ∀ x ∈ xs, x.natAbs ≤ 2 ^ 53) :
    intsToF64 xs = some (xs.map fun x => x * 2 ^ UNIT) := by
  induction xs with
  | nil => rfl
  | cons x xs ih =>
    rw [List.map_cons]
    exact intsToF64_cons_some x xs _ _ (intToF64_small x (h x List.mem_cons_self))
      (ih fun y hy => h y (List.mem_cons_of_mem _ hy))

end Fc
