/-
  FcProofs.Lemmas.Ladder — re-running one MeshFieldsComparator object (C19).
-/
import FcModel.Spec.C19
namespace Fc.C19

/-- What the re-run theorem assumes about the operations owned by other properties (all at the level of the
    comparison verdict, nothing about the data): `extend_space_dimension_to(m, ·)` yields dimension `m`;
    sorting does not change the dimension; a data set that has been through `perm` then `sortc` is *canonical as
    far as `cmp` can see*: applying `perm`, or `perm` then `sortc`, again to both sides does not change the suite. -/
structure LadderFacts {D S : Type} (L : LadderOps D S) : Prop where
  dim_ext : ∀ m x, L.dim (L.ext m x) = m
  dim_perm : ∀ x, L.dim (L.perm x) = L.dim x
  dim_sortc : ∀ x, L.dim (L.sortc x) = L.dim x
  canon_perm : ∀ x y, L.cmp (L.perm (L.sortc (L.perm x))) (L.perm (L.sortc (L.perm y))) =
    L.cmp (L.sortc (L.perm x)) (L.sortc (L.perm y))
  canon_sortc : ∀ x y, L.cmp (L.sortc (L.perm (L.sortc (L.perm x)))) (L.sortc (L.perm (L.sortc (L.perm y)))) =
    L.cmp (L.sortc (L.perm x)) (L.sortc (L.perm y))

variable {D S : Type}

/-- a state from which a call returns suite `s` whatever happened before -/
def Stable (L : LadderOps D S) (fl : CmpFlags) (st : CmpState D) (s : S) : Prop :=
  (runComparator L fl st).suite = s

theorem run_ok_first (L : LadderOps D S) (fl : CmpFlags) (st : CmpState D) (h : L.ok (L.cmp st.src st.ref) = true) :
    runComparator L fl st = ⟨L.cmp st.src st.ref, 0, st⟩ := by
  simp [runComparator, h]

/-- "no dimension retry from this state": the dimensions agree or dimension matching is disabled -/
def NoExt (L : LadderOps D S) (fl : CmpFlags) (st : CmpState D) : Prop :=
  (L.dim st.src != L.dim st.ref && !fl.noDimMatch) = false

theorem run_noReorder (L : LadderOps D S) (fl : CmpFlags) (st : CmpState D)
    (hd : NoExt L fl st) (hr : fl.noReorder = true) :
    (runComparator L fl st).suite = L.cmp st.src st.ref := by
  unfold NoExt at hd
  by_cases h0 : L.ok (L.cmp st.src st.ref) = true
  · simp [runComparator, h0]
  · simp [runComparator, h0, hd, hr]

theorem run_structured (L : LadderOps D S) (fl : CmpFlags) (st : CmpState D)
    (hd : NoExt L fl st) (hs1 : L.structured st.src = true) (hs2 : L.structured st.ref = true) :
    (runComparator L fl st).suite = L.cmp st.src st.ref := by
  unfold NoExt at hd
  by_cases h0 : L.ok (L.cmp st.src st.ref) = true
  · simp [runComparator, h0]
  · by_cases hr : fl.noReorder = true
    · simp [runComparator, h0, hd, hr]
    · simp [runComparator, h0, hd, hr, hs1, hs2]

/-- from a canonical state (both sides `sortc ∘ perm` of something) every call returns the suite of that state -/
theorem run_canonical (L : LadderOps D S) (F : LadderFacts L) (fl : CmpFlags) (x y : D)
    (hd : NoExt L fl ⟨x, y⟩) :
    (runComparator L fl ⟨L.sortc (L.perm x), L.sortc (L.perm y)⟩).suite =
      L.cmp (L.sortc (L.perm x)) (L.sortc (L.perm y)) := by
  have hdim : (L.dim (L.sortc (L.perm x)) != L.dim (L.sortc (L.perm y)) && !fl.noDimMatch) = false := by
    rw [F.dim_sortc, F.dim_sortc, F.dim_perm, F.dim_perm]; exact hd
  by_cases h0 : L.ok (L.cmp (L.sortc (L.perm x)) (L.sortc (L.perm y))) = true
  · simp [runComparator, h0]
  · by_cases hr : fl.noReorder = true
    · simp [runComparator, h0, hdim, hr]
    · by_cases hs : (L.structured (L.sortc (L.perm x)) = true ∧ L.structured (L.sortc (L.perm y)) = true)
      · simp [runComparator, h0, hdim, hr, hs.1, hs.2]
      · have h2 : L.ok (L.cmp (L.perm (L.sortc (L.perm x))) (L.perm (L.sortc (L.perm y)))) = false := by
          rw [F.canon_perm]; simpa using h0
        simp [runComparator, h0, hdim, hr, hs, h2, F.canon_sortc]

/-- **one re-run**: calling the object again, from the state the first call left behind, returns the same suite -/
theorem rerun_step (L : LadderOps D S) (F : LadderFacts L) (fl : CmpFlags) (st : CmpState D) :
    (runComparator L fl (runComparator L fl st).state).suite = (runComparator L fl st).suite := by
  by_cases h0 : L.ok (L.cmp st.src st.ref) = true
  · simp [runComparator, h0]
  · by_cases hx : (L.dim st.src != L.dim st.ref && !fl.noDimMatch) = true
    · -- the dimension retry happens
      have hne : NoExt L fl ⟨L.ext (max (L.dim st.src) (L.dim st.ref)) st.src, L.ext (max (L.dim st.src) (L.dim st.ref)) st.ref⟩ := by
        simp [NoExt, F.dim_ext]
      by_cases h1 : L.ok (L.cmp (L.ext (max (L.dim st.src) (L.dim st.ref)) st.src) (L.ext (max (L.dim st.src) (L.dim st.ref)) st.ref)) = true
      · simp [runComparator, h0, hx, h1]
      · by_cases hr : fl.noReorder = true
        · have := run_noReorder L fl _ hne hr
          simp [runComparator, h0, hx, h1, hr] at this ⊢
          try exact this
        · by_cases hs : (L.structured (L.ext (max (L.dim st.src) (L.dim st.ref)) st.src) = true ∧
              L.structured (L.ext (max (L.dim st.src) (L.dim st.ref)) st.ref) = true)
          · have := run_structured L fl _ hne hs.1 hs.2
            simp [runComparator, h0, hx, h1, hr, hs.1, hs.2] at this ⊢
            try exact this
          · by_cases h2 : L.ok (L.cmp (L.perm (L.ext (max (L.dim st.src) (L.dim st.ref)) st.src))
                (L.perm (L.ext (max (L.dim st.src) (L.dim st.ref)) st.ref))) = true
            · simp [runComparator, h0, hx, h1, hr, hs, h2]
            · have := run_canonical L F fl _ _ hne
              simp [runComparator, h0, hx, h1, hr, hs, h2] at this ⊢
              try exact this
    · -- no dimension retry: the state is only changed by the reordering rungs
      have hx' : (L.dim st.src != L.dim st.ref && !fl.noDimMatch) = false := by simpa using hx
      have hne : NoExt L fl st := hx'
      by_cases hr : fl.noReorder = true
      · have := run_noReorder L fl st hne hr
        simp [runComparator, h0, hx', hr] at this ⊢
        try exact this
      · by_cases hs : (L.structured st.src = true ∧ L.structured st.ref = true)
        · have := run_structured L fl st hne hs.1 hs.2
          simp [runComparator, h0, hx', hr, hs.1, hs.2] at this ⊢
          try exact this
        · by_cases h2 : L.ok (L.cmp (L.perm st.src) (L.perm st.ref)) = true
          · simp [runComparator, h0, hx', hr, hs, h2]
          · have := run_canonical L F fl st.src st.ref hne
            simp [runComparator, h0, hx', hr, hs, h2] at this ⊢
            try exact this

end Fc.C19
