/-
  FcProofs.Lemmas.C17 — helper lemmas for property C17: matching a field list with itself,
  the scalar kernel `0 vs z`, layers keep the space dimension.
-/
import FcProofs.Lemmas.Fuzzy
import FcProofs.Lemmas.Permuted
namespace Fc
open Spec

/-- matching a field list against itself pairs every field with itself -/
theorem findFieldMatches_self {κ} [BEq κ] [LawfulBEq κ] (l : List (κ × NdArr)) :
    findFieldMatches l l = l.map fun x => (x.2, x.2) := by
  induction l with
  | nil => rfl
  | cons s ss ih =>
    simp only [findFieldMatches, List.findIdx?_cons, beq_self_eq_true, if_true, List.getD_cons_zero,
      List.eraseIdx_cons_zero, List.map_cons, ih]

theorem reshapePair_self (s : List Nat) : reshapePair s s = (s, s) := by
  unfold reshapePair
  have h1 : ¬ (s.length = s.length + 1 ∧ s.getLast? = some 1) := by omega
  simp only [h1, if_false]

/-- one `PermutedMesh` layer never changes the number of coordinate columns -/
theorem applyPermuted_dim {pp : Option (List Nat)} {cp : Option CellPerms} {f f' : MeshFields}
    (h : applyPermuted pp cp f = some f') : f'.mesh.dim = f.mesh.dim := by
  unfold applyPermuted at h
  cases hm : PermutedMesh.make f.mesh pp cp with
  | none => simp [hm] at h
  | some pm =>
    have hbase : pm.base = f.mesh := by
      unfold PermutedMesh.make at hm
      cases pp with
      | none => simp at hm; rw [← hm]
      | some perm =>
        simp only at hm
        cases hi : makeInverse perm with
        | none => simp [hi] at hm
        | some inv => simp [hi] at hm; rw [← hm]
    simp only [hm] at h
    unfold transformedMeshFields at h
    cases ht : pm.toMesh with
    | none => simp [ht] at h
    | some m =>
      have hd : m.dim = pm.base.dim := by
        unfold PermutedMesh.toMesh at ht
        split at ht
        · simp only [Option.some.injEq] at ht; rw [← ht]
        · cases ht
      simp only [ht] at h
      generalize optAll (f.pointFields.map _) = x at h
      generalize optAll (f.cellFields.map _) = y at h
      cases x with
      | none => cases h
      | some pfs =>
        cases y with
        | none => cases h
        | some cfs =>
          simp only [Option.some.injEq] at h
          rw [← h]
          show m.dim = f.mesh.dim
          rw [hd, hbase]

/-- **scalar kernel**: `0` and `z` are not fuzzy-equal when `|z|` exceeds the absolute tolerance and
    a representable number `y < |z|` bounds `rel · |z|` from above -/
theorem zero_vs_rejected (z : Int) (rel abs y : Nat) (rw aw : Bool)
    (hz : rndMag f64 z.natAbs 0 = some z.natAbs)
    (hy : rndMag f64 y 0 = some y) (hprod : z.natAbs * rel ≤ y * 2 ^ UNIT)
    (hyz : y < z.natAbs) (habs : abs < z.natAbs) :
    fuzzyEq1 f64 0 z rel rw abs aw = false ∧ fuzzyEq1 f64 z 0 rel rw abs aw = false := by
  have hmono := rndMag_mono f64 UNIT hprod
  have hscale : rndMag f64 (y * 2 ^ UNIT) UNIT = rndMag f64 y 0 := by
    have := rndMag_scale f64 y 0 UNIT
    simpa using this
  rw [hscale, hy] at hmono
  have key : ∀ m : Nat, m = z.natAbs →
      leInf (rndMag f64 z.natAbs 0) (threshold f64 m rel rw abs aw) = false := by
    intro m hm
    subst hm
    rw [threshold_f64, hz]
    cases ht : rndMag f64 (z.natAbs * rel) UNIT with
    | none => rw [ht] at hmono; simp [leInf] at hmono
    | some t =>
      rw [ht] at hmono
      simp only [leInf, decide_eq_true_eq] at hmono
      simp only [maxInf, leInf, decide_eq_false_iff_not]
      omega
  constructor
  · unfold fuzzyEq1
    have e1 : (z - 0).natAbs = z.natAbs := by simp
    rw [e1]
    exact key _ (by simp)
  · unfold fuzzyEq1
    have e1 : ((0 : Int) - z).natAbs = z.natAbs := by simp
    rw [e1]
    exact key _ (by simp)

/-- the dimension rung on a data set `f` and a copy `g` that `f` extends to, for an abstract
    comparison `run` whose first domain check fails and which accepts `g` against itself -/
theorem compareDimMatch_pad (run : MeshFields → MeshFields → Bool × Bool)
    (rest : MeshFields → MeshFields → Bool) (s r g : MeshFields) (sd : Nat)
    (h1 : (run s r).1 = false) (hne : s.mesh.dim ≠ r.mesh.dim) (hmax : max s.mesh.dim r.mesh.dim = sd)
    (hs : extendSpaceDim sd s = some g) (hr : extendSpaceDim sd r = some g)
    (hrun : run g g = (true, true)) :
    compareDimMatch run rest false s r = some true := by
  unfold compareDimMatch
  cases hsr : run s r with
  | mk dom ok =>
    rw [hsr] at h1
    simp only at h1
    subst h1
    simp [hne, hmax, hs, hr, hrun]

end Fc
