/-
  FcProofs.Lemmas.PyLiteC11Matching — list facts behind `find_matches` (FcModel/Matching.lean) as run by the
  PyLite interpreter: `xs.remove(t)` on an embedded list is `List.erase`, the matched occurrence found by
  `findAndRemove` is the first occurrence of its value, and the accumulator form of `findMatches`.
-/
import FcModel.Matching
import FcProofs.Lemmas.PyLiteLoops
set_option linter.unusedSimpArgs false
namespace Fc.PyLite.C11M
open Fc Fc.PyLite

/-- `xs.remove(t)` on an embedded list whose elements are compared by `==` as their originals are -/
theorem removeFirst_map {β : Type} [DecidableEq β] (emb : β → Val)
    (hemb : ∀ a b, Val.eqv (emb a) (emb b) = some (decide (a = b))) (t : β) (R : List β) :
    removeFirst (emb t) (R.map emb) = .ok (if t ∈ R then some ((R.erase t).map emb) else none) := by
  induction R with
  | nil => rfl
  | cons x xs ih =>
    simp only [List.map_cons, removeFirst, hemb, ih]
    by_cases h : x = t
    · subst h; simp
    · have h' : ¬ t = x := fun e => h e.symm
      by_cases hm : t ∈ xs <;> simp [h, h', hm, Res.map, Res.bind, List.erase_cons]

/-- the occurrence removed by `findAndRemove` is the first occurrence of the matched value: an earlier
    equal element would have matched, too -/
theorem findAndRemove_eq_erase {α β : Type} [DecidableEq β] (eq : α → β → Bool) (s : α) (R : List β) :
    findAndRemove eq s R = (R.find? (eq s)).map fun t => (t, R.erase t) := by
  induction R with
  | nil => rfl
  | cons x xs ih =>
    cases hx : eq s x with
    | true => simp [findAndRemove, hx]
    | false =>
      simp only [findAndRemove, hx, ih, List.find?_cons]
      cases hf : xs.find? (eq s) with
      | none => simp
      | some t =>
        have ht : eq s t = true := by simpa using List.find?_some hf
        have hne : ¬ x = t := by intro e; rw [e, ht] at hx; cases hx
        simp [List.erase_cons, hne]

/-- one round of the outer loop on the state (matches, orphans_source, orphans_target) -/
def step {α β : Type} [DecidableEq β] (eq : α → β → Bool) (acc : List (α × β) × List α × List β) (s : α) :
    List (α × β) × List α × List β :=
  match acc.2.2.find? (eq s) with
  | some t => (acc.1 ++ [(s, t)], acc.2.1, acc.2.2.erase t)
  | none => (acc.1, acc.2.1 ++ [s], acc.2.2)

theorem foldl_step {α β : Type} [DecidableEq β] (eq : α → β → Bool) (ss : List α) (M : List (α × β)) (O : List α)
    (R : List β) :
    ss.foldl (step eq) (M, O, R) =
      (M ++ (findMatches eq ss R).pairs, O ++ (findMatches eq ss R).orphansSrc, (findMatches eq ss R).orphansRef) := by
  induction ss generalizing M O R with
  | nil => simp [findMatches]
  | cons s r ih =>
    simp only [List.foldl_cons, step, findMatches, findAndRemove_eq_erase]
    cases hf : R.find? (eq s) with
    | none => simp [ih]
    | some t => simp [ih]

/-- a `MatchResult(matches, orphans_in_source, orphans_in_reference)` object (field order of the dataclass) -/
def matchResultVal (m o r : Val) : Val :=
  .record [("matches", m), ("orphans_in_source", o), ("orphans_in_reference", r)]

/-- a matched pair `(s, t)` -/
def pairV {α β : Type} (embS : α → Val) (embR : β → Val) (p : α × β) : Val := .list [embS p.1, embR p.2]

end Fc.PyLite.C11M
