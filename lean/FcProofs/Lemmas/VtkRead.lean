/-
  Encoder laws (what the readers rely on), their proofs for the raw and the base64 encoder, and the
  reader/writer inversion lemmas for `NoCompressor` and `CompressorBase` stated for ANY lawful encoder.
-/
import FcProofs.Lemmas.VtkBytes
namespace Fc
open Spec

/-- What `NoCompressor` / `CompressorBase` need from an encoder. `dec` is the crucial one: decoding
    the encoding of `x` followed by ANY decodable text `rest` yields `x`, possibly followed by the
    decoding of `rest` (base64 without padding, raw) — or exactly `x` (base64 with padding). -/
structure EncLaws (enc : Encoder) : Prop where
  len : ∀ x, (enc.encode x).length = enc.encodedBytes x.length
  ge : ∀ n, n ≤ enc.encodedBytes n
  dec : ∀ x rest r, IsBytes x → enc.decode rest = some r →
    enc.decode (enc.encode x ++ rest) = some x ∨ enc.decode (enc.encode x ++ rest) = some (x ++ r)
  decNil : enc.decode [] = some []
  app : ∀ x y, x.length % 3 = 0 → enc.encode (x ++ y) = enc.encode x ++ enc.encode y

theorem EncLaws.roundtrip {enc : Encoder} (L : EncLaws enc) (x : List Nat) (hx : IsBytes x) :
    enc.decode (enc.encode x) = some x := by
  have := L.dec x [] [] hx L.decNil
  simpa using this

/-! ### the translated `encoded_bytes` expressions -/

theorem encodedBytesRaw_eq (n : Nat) : (Gen.encodedBytesRaw n).toNat = n := by
  simp [Gen.encodedBytesRaw]

theorem encodedBytesB64_eq (n : Nat) : (Gen.encodedBytesB64 n).toNat = 4 * ((n + 2) / 3) := by
  unfold Gen.encodedBytesB64
  -- robust against equivalent reformulations of the source expression (e.g. `(n + 2) // 3 * 4`)
  try simp only [Int.fdiv_eq_ediv_of_nonneg _ (show (0 : Int) ≤ 3 by decide)]
  omega

theorem rawLaws : EncLaws rawEncoder where
  len := by intro x; simp [rawEncoder, encodedBytesRaw_eq]
  ge := by intro n; simp [rawEncoder, encodedBytesRaw_eq]
  dec := by
    intro x rest r _ h
    right
    simp only [rawEncoder, id] at *
    cases h
    rfl
  decNil := rfl
  app := by intro x y _; rfl

theorem b64Laws : EncLaws b64Encoder where
  len := by intro x; simp only [b64Encoder, b64encode_length, encodedBytesB64_eq]
  ge := by intro n; simp only [b64Encoder, encodedBytesB64_eq]; omega
  dec := by
    intro x rest r hx h
    simp only [b64Encoder, b64decodeLenient] at *
    rw [b64_roundtrip_loop x hx rest, h]
    by_cases h3 : x.length % 3 = 0
    · right; simp [h3]
    · left; simp [h3]
  decNil := by simp [b64Encoder, b64decodeLenient, b64decLoop]
  app := by intro x y h; exact b64encode_append x y h

theorem ReadCfg.encLaws (c : ReadCfg) : EncLaws c.enc := by
  unfold ReadCfg.enc
  cases c.b64
  · exact rawLaws
  · exact b64Laws

/-! ### NoCompressor -/

theorem headerBytes_single (hs : Nat) (bo : ByteOrder) (n : Nat) :
    headerBytes hs bo [n] = wordBytes bo hs n := by
  simp [headerBytes]

/-- core of both layouts: the decoded stream is `H ++ q` with `H` the header word of `p.length`;
    if it is exactly the header, the text behind the re-encoded header decodes to `p ++ t` -/
theorem noCompRead_core (enc : Encoder) (hs : Nat) (bo : ByteOrder) (data p q t : List Nat)
    (hfit : p.length < 256 ^ hs)
    (hdec : enc.decode data = some (wordBytes bo hs p.length ++ q))
    (hsep : q = [] → enc.decode (data.drop (enc.encode (wordBytes bo hs p.length)).length) = some (p ++ t))
    (hjoint : q ≠ [] → q.take p.length = p) :
    noCompRead hs bo enc data = some p := by
  unfold noCompRead
  have hH := wordBytes_length bo hs p.length
  simp only [hdec, Option.bind_eq_bind, Option.bind_some]
  rw [List.take_left' hH]
  simp only [hH, ne_eq, not_true_eq_false, if_false]
  rw [wordVal_wordBytes bo hs _ hfit]
  by_cases hq : q = []
  · subst hq
    simp only [List.append_nil, hH, if_true]
    rw [hsep rfl]
    simp
  · have hne : (wordBytes bo hs p.length ++ q).length ≠ hs := by
      rw [List.length_append, hH]
      have : 0 < q.length := List.length_pos_iff.mpr hq
      omega
    simp only [hne, if_false]
    rw [List.drop_left' hH, hjoint hq]

theorem EncLaws.dec' {enc : Encoder} (L : EncLaws enc) (x rest r : List Nat) (hx : IsBytes x)
    (hr : enc.decode rest = some r) : ∃ t, enc.decode (enc.encode x ++ rest) = some (x ++ t) := by
  rcases L.dec x rest r hx hr with h | h
  · exact ⟨[], by simpa using h⟩
  · exact ⟨r, h⟩

/-- header and data in ONE encoded stream, followed by any decodable text -/
theorem noCompRead_joint {enc : Encoder} (L : EncLaws enc) (hs : Nat) (bo : ByteOrder)
    (p rest r : List Nat) (hp : IsBytes p) (hfit : p.length < 256 ^ hs) (hr : enc.decode rest = some r) :
    noCompRead hs bo enc (encodeUncompressed enc hs bo true p ++ rest) = some p := by
  simp only [encodeUncompressed, if_true, headerBytes_single]
  have hX : IsBytes (wordBytes bo hs p.length ++ p) := (wordBytes_isBytes bo hs _).append hp
  obtain ⟨t, ht⟩ := L.dec' _ rest r hX hr
  apply noCompRead_core enc hs bo _ p (p ++ t) r hfit (by rw [ht, List.append_assoc])
  · intro hq
    have hp0 : p = [] := (List.append_eq_nil_iff.mp hq).1
    subst hp0
    rw [List.append_nil, List.drop_left' rfl, hr]
    simp
  · intro _; simp

/-- header and data encoded SEPARATELY, followed by any decodable text -/
theorem noCompRead_separate {enc : Encoder} (L : EncLaws enc) (hs : Nat) (bo : ByteOrder)
    (p rest r : List Nat) (hp : IsBytes p) (hfit : p.length < 256 ^ hs) (hr : enc.decode rest = some r) :
    noCompRead hs bo enc (encodeUncompressed enc hs bo false p ++ rest) = some p := by
  simp only [encodeUncompressed, Bool.false_eq_true, if_false, headerBytes_single, List.append_assoc]
  obtain ⟨t1, ht1⟩ := L.dec' p rest r hp hr
  -- the decoded header stream is [] (padding stopped the decoder) or p ++ t1 (it ran on); either way the reader finds p
  rcases L.dec _ (enc.encode p ++ rest) (p ++ t1) (wordBytes_isBytes bo hs p.length) ht1 with h | h
  · apply noCompRead_core enc hs bo _ p [] t1 hfit (by rw [h, List.append_nil])
    · intro _
      rw [List.drop_left' rfl, ht1]
    · intro hq; exact absurd rfl hq
  · apply noCompRead_core enc hs bo _ p (p ++ t1) t1 hfit (by rw [h])
    · intro _
      rw [List.drop_left' rfl, ht1]
    · intro _; simp

/-! ### CompressorBase -/

theorem mem_length_le_flatten (cs : List (List Nat)) : ∀ c ∈ cs, c.length ≤ cs.flatten.length := by
  induction cs with
  | nil => intro c hc; cases hc
  | cons d ds ih =>
    intro c hc
    simp only [List.flatten_cons, List.length_append]
    rcases List.mem_cons.mp hc with h | h
    · subst h; omega
    · have := ih c h; omega

/-- offsets by cumulative sum pick exactly the compressed blocks out of their concatenation -/
theorem uncompressBlocks_flatten (hs : Nat) (dec : List Nat → Nat → Option (List Nat))
    (comp : List Nat → List Nat) (rbs : Nat) (bs : List (List Nat)) (pre post : List Nat)
    (hd : ∀ b ∈ bs, dec (comp b) rbs = some b)
    (hfit : pre.length + ((bs.map comp).flatten).length < 256 ^ hs) :
    uncompressBlocks hs dec (pre ++ (bs.map comp).flatten ++ post) rbs ((bs.map comp).map List.length) pre.length
      = some bs.flatten := by
  induction bs generalizing pre with
  | nil => simp [uncompressBlocks]
  | cons b bs ih =>
    simp only [List.map_cons, List.flatten_cons, List.length_append] at hfit ⊢
    unfold uncompressBlocks
    have h1 : ¬ (256 ^ hs ≤ pre.length + (comp b).length) := by omega
    simp only [h1, if_false]
    have hslice : ((pre ++ (comp b ++ (bs.map comp).flatten) ++ post).drop pre.length).take (comp b).length
        = comp b := by
      rw [List.append_assoc, List.drop_left' rfl, List.append_assoc, List.take_left' rfl]
    rw [hslice, hd b (by simp)]
    have hrec := ih (pre ++ comp b) (fun x hx => hd x (by simp [hx])) (by rw [List.length_append]; omega)
    simp only [List.length_append, List.append_assoc] at hrec
    simp only [List.append_assoc, Option.bind_eq_bind, Option.bind_some]
    rw [hrec]
    rfl

theorem readHeader_encode {enc : Encoder} (L : EncLaws enc) (hs : Nat) (hpos : 0 < hs) (bo : ByteOrder)
    (w0 w1 w2 : Nat) (S tail : List Nat)
    (hfit : ∀ w ∈ [w0, w1, w2] ++ S, w < 256 ^ hs) (hw0 : w0 = S.length) :
    readHeader hs bo enc (enc.encode (headerBytes hs bo ([w0, w1, w2] ++ S)) ++ tail)
      = some ([w0, w1, w2] ++ S, (enc.encode (headerBytes hs bo ([w0, w1, w2] ++ S))).length) := by
  have hl3 : (headerBytes hs bo [w0, w1, w2]).length = hs * 3 := by rw [headerBytes_length]; rfl
  have hlS : (headerBytes hs bo S).length = w0 * hs := by rw [headerBytes_length, hw0, Nat.mul_comm]
  have happ : enc.encode (headerBytes hs bo ([w0, w1, w2] ++ S))
      = enc.encode (headerBytes hs bo [w0, w1, w2]) ++ enc.encode (headerBytes hs bo S) := by
    rw [headerBytes_append, L.app _ _ (by rw [hl3]; omega)]
  have e3 : enc.encodedBytes (hs * 3) = (enc.encode (headerBytes hs bo [w0, w1, w2])).length := by
    rw [L.len, hl3]
  have eS : enc.encodedBytes (w0 * hs) = (enc.encode (headerBytes hs bo S)).length := by
    rw [L.len, hlS]
  have hfit3 : ∀ w ∈ [w0, w1, w2], w < 256 ^ hs := fun w hw => hfit w (List.mem_append.mpr (Or.inl hw))
  have hfitS : ∀ w ∈ S, w < 256 ^ hs := fun w hw => hfit w (List.mem_append.mpr (Or.inr hw))
  unfold readHeader
  rw [happ]
  simp only [List.append_assoc]
  rw [e3, List.take_left' rfl, L.roundtrip _ (headerBytes_isBytes hs bo _)]
  simp only [Option.bind_eq_bind, Option.bind_some]
  rw [List.take_of_length_le (by rw [hl3]; exact Nat.le_refl _), words_headerBytes hs hpos bo _ hfit3]
  simp only [Option.bind_some, List.getElem?_cons_zero]
  rw [eS, List.drop_left' rfl, List.take_left' rfl, L.roundtrip _ (headerBytes_isBytes hs bo _)]
  simp only [Option.bind_some]
  rw [List.take_of_length_le (by rw [← eS, hlS]; exact L.ge _), words_headerBytes hs hpos bo _ hfitS]
  simp [List.length_append]

/-- the compressed layout is inverted by `compRead`, whatever follows the array -/
theorem compRead_encode {enc : Encoder} (L : EncLaws enc) (hs : Nat) (hpos : 0 < hs) (bo : ByteOrder)
    (B : Nat) (hB : 0 < B) (comp : List Nat → List Nat) (dec : List Nat → Nat → Option (List Nat))
    (p rest : List Nat)
    (hc : ∀ b ∈ chunks B p, IsBytes (comp b))
    (hd : ∀ b ∈ chunks B p, dec (comp b) B = some b)
    (hfitB : B < 256 ^ hs) (hfitN : (chunks B p).length < 256 ^ hs)
    (hfitC : (((chunks B p).map comp).flatten).length < 256 ^ hs) :
    compRead hs bo enc dec (encodeCompressed enc hs bo B comp p ++ rest) = some p := by
  have hmod : p.length % B < 256 ^ hs := Nat.lt_trans (Nat.mod_lt _ hB) hfitB
  have hCb : IsBytes ((chunks B p).map comp).flatten := by
    intro x hx
    obtain ⟨c, hcm, hxc⟩ := List.mem_flatten.mp hx
    obtain ⟨b, hb, rfl⟩ := List.mem_map.mp hcm
    exact hc b hb x hxc
  have hfit : ∀ w ∈ [((chunks B p).map comp).length, B, p.length % B] ++ ((chunks B p).map comp).map List.length,
      w < 256 ^ hs := by
    intro w hw
    rcases List.mem_append.mp hw with h | h
    · simp only [List.mem_cons, List.mem_nil_iff, or_false, List.length_map] at h
      rcases h with h | h | h
      · rw [h]; exact hfitN
      · rw [h]; exact hfitB
      · rw [h]; exact hmod
    · obtain ⟨c, hcm, rfl⟩ := List.mem_map.mp h
      exact Nat.lt_of_le_of_lt (mem_length_le_flatten _ c hcm) hfitC
  unfold compRead encodeCompressed compHeaderWords
  simp only [List.append_assoc]
  rw [readHeader_encode L hs hpos bo _ _ _ _ _ hfit (by simp)]
  simp only [Option.bind_eq_bind, Option.bind_some]
  have h1 : ([((chunks B p).map comp).length, B, p.length % B] ++ ((chunks B p).map comp).map List.length)[1]?
      = some B := rfl
  rw [h1]
  simp only [Option.bind_some]
  have hdrop : ([((chunks B p).map comp).length, B, p.length % B] ++ ((chunks B p).map comp).map List.length).drop 3
      = ((chunks B p).map comp).map List.length := rfl
  rw [hdrop, ← List.length_flatten, ← L.len, List.drop_left' rfl, List.take_left' rfl, L.roundtrip _ hCb]
  simp only [Option.bind_some]
  have hu := uncompressBlocks_flatten hs dec comp B (chunks B p) [] [] hd (by simpa using hfitC)
  simp only [List.nil_append, List.append_nil, List.length_nil] at hu
  rw [hu, chunks_flatten B hB]
