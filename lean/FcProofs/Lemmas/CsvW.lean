/-
  Lemmas.CsvW — token-level CSV: splitting inverts joining for tokens free of the separator, and the
  text written by `_write_table` splits back into the header names and the rows of cell tokens.
-/
import FcModel.Csv
namespace Fc.W

theorem splitOn_ne_nil (sep : Nat) : ∀ (s : List Nat), splitOn sep s ≠ []
  | [] => by simp [splitOn]
  | c :: r => by
    unfold splitOn
    split
    · simp
    · split <;> simp

/-- a separator-free token followed by a separator is split off -/
theorem splitOn_token (sep : Nat) : ∀ (t rest : List Nat), (∀ c ∈ t, c ≠ sep) →
    splitOn sep (t ++ sep :: rest) = t :: splitOn sep rest
  | [], rest, _ => by simp [splitOn]
  | c :: t, rest, h => by
    have hc : c ≠ sep := h c (by simp)
    have ih := splitOn_token sep t rest (fun d hd => h d (by simp [hd]))
    simp only [List.cons_append, splitOn, hc, if_false, ih]

theorem splitOn_free (sep : Nat) : ∀ (t : List Nat), (∀ c ∈ t, c ≠ sep) → splitOn sep t = [t]
  | [], _ => rfl
  | c :: t, h => by
    have hc : c ≠ sep := h c (by simp)
    have ih := splitOn_free sep t (fun d hd => h d (by simp [hd]))
    simp only [splitOn, hc, if_false, ih]

/-- `sep.join(tokens).split(sep) == tokens` for a non-empty list of separator-free tokens -/
theorem splitOn_joinWith (sep : Nat) : ∀ (toks : List Token), toks ≠ [] → (∀ t ∈ toks, ∀ c ∈ t, c ≠ sep) →
    splitOn sep (joinWith sep toks) = toks
  | [], h, _ => absurd rfl h
  | [t], _, h => by simp only [joinWith]; exact splitOn_free sep t (h t (by simp))
  | t :: u :: r, _, h => by
    simp only [joinWith]
    rw [splitOn_token sep t _ (h t (by simp))]
    rw [splitOn_joinWith sep (u :: r) (by simp) (fun x hx => h x (by simp [hx]))]

theorem joinWith_free (sep nl : Nat) (hne : sep ≠ nl) : ∀ (toks : List Token), (∀ t ∈ toks, ∀ c ∈ t, c ≠ nl) →
    ∀ c ∈ joinWith sep toks, c ≠ nl
  | [], _ => by simp [joinWith]
  | [t], h => by simp only [joinWith]; exact h t (by simp)
  | t :: u :: r, h => by
    intro c hc
    simp only [joinWith, List.mem_append, List.mem_cons] at hc
    rcases hc with h1 | h1 | h1
    · exact h t (by simp) c h1
    · omega
    · exact joinWith_free sep nl hne (u :: r) (fun x hx => h x (by simp [hx])) c h1

theorem joinWith_ne_nil (sep : Nat) : ∀ (toks : List Token), toks ≠ [] → (∀ t ∈ toks, t ≠ []) → joinWith sep toks ≠ []
  | [], h, _ => absurd rfl h
  | [t], _, h => by simp only [joinWith]; exact h t (by simp)
  | t :: u :: r, _, h => by
    simp only [joinWith]
    have := h t (by simp)
    cases t with
    | nil => exact absurd rfl this
    | cons a b => simp

/-- lines, each terminated by a newline, split back into the lines and one trailing empty piece -/
theorem splitOn_lines (nl : Nat) : ∀ (ls : List (List Nat)), (∀ l ∈ ls, ∀ c ∈ l, c ≠ nl) →
    splitOn nl (ls.flatMap fun l => l ++ [nl]) = ls ++ [[]]
  | [], _ => rfl
  | l :: r, h => by
    simp only [List.flatMap_cons, List.append_assoc, List.singleton_append]
    rw [splitOn_token nl l _ (h l (by simp)), splitOn_lines nl r (fun x hx => h x (by simp [hx]))]
    rfl

/-! ### the converse: a separator inside a token changes the number of pieces -/

theorem splitOn_length (sep : Nat) : ∀ (s : List Nat), (splitOn sep s).length = s.count sep + 1
  | [] => rfl
  | c :: r => by
    have ih := splitOn_length sep r
    unfold splitOn
    by_cases hc : c = sep
    · simp only [hc, if_true, List.length_cons, ih, List.count_cons_self]
    · simp only [hc, if_false]
      have hcnt : (c :: r).count sep = r.count sep := by
        rw [List.count_cons]; simp [hc]
      rw [hcnt, ← ih]
      cases h : splitOn sep r with
      | nil => exact absurd h (splitOn_ne_nil sep r)
      | cons t ts => rfl

theorem count_joinWith (sep : Nat) : ∀ (toks : List Token), toks ≠ [] →
    (joinWith sep toks).count sep + 1 = (toks.flatMap id).count sep + toks.length
  | [], h => absurd rfl h
  | [t], _ => by simp [joinWith]
  | t :: u :: r, _ => by
    have ih := count_joinWith sep (u :: r) (by simp)
    simp only [joinWith, List.count_append, List.count_cons_self, List.flatMap_cons, id, List.length_cons] at ih ⊢
    omega

/-- `sep.join(tokens).split(sep)` has as many pieces as there are tokens plus separators inside tokens -/
theorem splitOn_joinWith_length (sep : Nat) (toks : List Token) (h : toks ≠ []) :
    (splitOn sep (joinWith sep toks)).length = toks.length + (toks.flatMap id).count sep := by
  rw [splitOn_length, count_joinWith sep toks h]; omega

/-- … hence splitting inverts joining ONLY IF no token contains the separator -/
theorem sep_free_of_split_join (sep : Nat) (toks : List Token) (h : toks ≠ [])
    (e : splitOn sep (joinWith sep toks) = toks) : ∀ t ∈ toks, ∀ c ∈ t, c ≠ sep := by
  have hl := splitOn_joinWith_length sep toks h
  rw [e] at hl
  have h0 : (toks.flatMap id).count sep = 0 := by omega
  have hn := List.count_eq_zero.mp h0
  intro t ht c hc hcs
  apply hn
  rw [← hcs]
  exact List.mem_flatMap.mpr ⟨t, ht, hc⟩

/-- what the reader makes of a written table whose tokens are non-empty and newline-free (the delimiter is NOT
    excluded): the header line and every row line are split at the delimiter; a row with another number of
    pieces than the header is a `ValueError` -/
theorem csvRead_csvWrite_form (names : List Token) (rows : List (List Token)) (hne : names ≠ [])
    (hrne : ∀ r ∈ rows, r ≠ [])
    (htok : ∀ l ∈ names :: rows, ∀ t ∈ l, t ≠ [] ∧ ∀ c ∈ t, c ≠ 10) :
    csvRead (csvWrite names rows) =
      if (rows.map fun r => splitOn 44 (joinWith 44 r)).all
            (fun r => r.length == (splitOn 44 (joinWith 44 names)).length)
      then some (splitOn 44 (joinWith 44 names), rows.map fun r => splitOn 44 (joinWith 44 r)) else none := by
  let lines : List (List Token) := names :: rows
  have hlne : ∀ l ∈ lines, l ≠ [] := by
    intro l hl
    rcases List.mem_cons.mp hl with e | hl'
    · rw [e]; exact hne
    · exact hrne l hl'
  have htext : csvWrite names rows = (lines.map (joinWith 44)).flatMap fun l => l ++ [10] := by
    unfold csvWrite
    simp [lines, List.flatMap_map]
  have hfree : ∀ l ∈ lines.map (joinWith 44), ∀ c ∈ l, c ≠ 10 := by
    intro l hl
    obtain ⟨r, hr, e⟩ := List.mem_map.mp hl
    subst e
    exact joinWith_free 44 10 (by decide) r (fun t ht => (htok r hr t ht).2)
  have hnonempty : ∀ l ∈ lines.map (joinWith 44), l.isEmpty = false := by
    intro l hl
    obtain ⟨r, hr, e⟩ := List.mem_map.mp hl
    subst e
    have := joinWith_ne_nil 44 r (hlne r hr) (fun t ht => (htok r hr t ht).1)
    cases hj : joinWith 44 r with
    | nil => exact absurd hj this
    | cons a b => rfl
  unfold csvRead
  rw [htext, splitOn_lines 10 _ hfree, List.filter_append]
  have hf1 : (lines.map (joinWith 44)).filter (fun l => !l.isEmpty) = lines.map (joinWith 44) := by
    rw [List.filter_eq_self]; intro l hl; simp [hnonempty l hl]
  rw [hf1]
  simp only [lines, List.map_cons, List.filter_cons, List.isEmpty_nil, Bool.not_true, Bool.false_eq_true, if_false,
    List.filter_nil, List.append_nil, List.map_map]
  rfl

theorem map_eq_self {α} (f : α → α) : ∀ (l : List α), l.map f = l → ∀ x ∈ l, f x = x
  | [], _, x, hx => by cases hx
  | y :: r, h, x, hx => by
    simp only [List.map_cons, List.cons.injEq] at h
    rcases List.mem_cons.mp hx with e | h'
    · rw [e]; exact h.1
    · exact map_eq_self f r h.2 x h'

end Fc.W
