/-
  Lemmas.CsvW — token-level CSV: splitting inverts joining for tokens free of the separator, and the
  text written by `_write_table` splits back into the header names and the rows of cell tokens.
-/
import FcModel.Csv
namespace Fc.W

theorem splitOn_ne_nil (sep : Nat) : ∀ (s : List Nat), splitOn sep s ≠ []
  | [] => by simp [splitOn]
  | c :: r => by
    unfold splitOn
    split
    · simp
    · split <;> simp

/-- a separator-free token followed by a separator is split off -/
theorem splitOn_token (sep : Nat) : ∀ (t rest : List Nat), (∀ c ∈ t, c ≠ sep) →
    splitOn sep (t ++ sep :: rest) = t :: splitOn sep rest
  | [], rest, _ => by simp [splitOn]
  | c :: t, rest, h => by
    have hc : c ≠ sep := h c (by simp)
    have ih := splitOn_token sep t rest (fun d hd => h d (by simp [hd]))
    simp only [List.cons_append, splitOn, hc, if_false, ih]

theorem splitOn_free (sep : Nat) : ∀ (t : List Nat), (∀ c ∈ t, c ≠ sep) → splitOn sep t = [t]
  | [], _ => rfl
  | c :: t, h => by
    have hc : c ≠ sep := h c (by simp)
    have ih := splitOn_free sep t (fun d hd => h d (by simp [hd]))
    simp only [splitOn, hc, if_false, ih]

/-- `sep.join(tokens).split(sep) == tokens` for a non-empty list of separator-free tokens -/
theorem splitOn_joinWith (sep : Nat) : ∀ (toks : List Token), toks ≠ [] → (∀ t ∈ toks, ∀ c ∈ t, c ≠ sep) →
    splitOn sep (joinWith sep toks) = toks
  | [], h, _ => absurd rfl h
  | [t], _, h => by simp only [joinWith]; exact splitOn_free sep t (h t (by simp))
  | t :: u :: r, _, h => by
    simp only [joinWith]
    rw [splitOn_token sep t _ (h t (by simp))]
    rw [splitOn_joinWith sep (u :: r) (by simp) (fun x hx => h x (by simp [hx]))]

theorem joinWith_free (sep nl : Nat) (hne : sep ≠ nl) : ∀ (toks : List Token), (∀ t ∈ toks, ∀ c ∈ t, c ≠ nl) →
    ∀ c ∈ joinWith sep toks, c ≠ nl
  | [], _ => by simp [joinWith]
  | [t], h => by simp only [joinWith]; exact h t (by simp)
  | t :: u :: r, h => by
    intro c hc
    simp only [joinWith, List.mem_append, List.mem_cons] at hc
    rcases hc with h1 | h1 | h1
    · exact h t (by simp) c h1
    · omega
    · exact joinWith_free sep nl hne (u :: r) (fun x hx => h x (by simp [hx])) c h1

theorem joinWith_ne_nil (sep : Nat) : ∀ (toks : List Token), toks ≠ [] → (∀ t ∈ toks, t ≠ []) → joinWith sep toks ≠ []
  | [], h, _ => absurd rfl h
  | [t], _, h => by simp only [joinWith]; exact h t (by simp)
  | t :: u :: r, _, h => by
    simp only [joinWith]
    have := h t (by simp)
    cases t with
    | nil => exact absurd rfl this
    | cons a b => simp

/-- lines, each terminated by a newline, split back into the lines and one trailing empty piece -/
theorem splitOn_lines (nl : Nat) : ∀ (ls : List (List Nat)), (∀ l ∈ ls, ∀ c ∈ l, c ≠ nl) →
    splitOn nl (ls.flatMap fun l => l ++ [nl]) = ls ++ [[]]
  | [], _ => rfl
  | l :: r, h => by
    simp only [List.flatMap_cons, List.append_assoc, List.singleton_append]
    rw [splitOn_token nl l _ (h l (by simp)), splitOn_lines nl r (fun x hx => h x (by simp [hx]))]
    rfl

end Fc.W
