/-
  FcProofs.Lemmas.LexsortTieBreak — (iv) the tie-break stage of `_sorting_points_indices`,
  generic part:

  * the monadic variant of "positional mask = segments": walking the mask of the groups and
    re-ordering every yielded range with a partial function `f` (the tie break of one run can raise)
    is `mapM` of `f` over the groups with at least two elements (`foldlM_applyRunM_maskOf`);
  * `adjacentRowsEq` (all coordinates fuzzy-equal between neighbours) is, under `Sep`, the adjacent
    test "equal coordinate key vectors" (`adjacentRowsEq_eq_adjEqBy`, `rowsEq_eq_kvec_beq`).
-/
import FcProofs.Lemmas.LexsortCanon
import FcModel.SortPoints
namespace Fc.C02
open Fc.C02.Spec
variable {α : Type}

/-! ### monadic runs -/

/-- re-order the slice `[start, end)` with a partial function -/
def applyRunM (f : List α → Option (List α)) (l : List α) (r : Nat × Nat) : Option (List α) :=
  (f ((l.drop r.1).take (r.2 - r.1))).map fun s => l.take r.1 ++ s ++ l.drop r.2

/-- singletons are never touched (they are not yielded as ranges) -/
def leafM (f : List α → Option (List α)) : List α → Option (List α)
  | [a] => some [a]
  | g => f g

theorem slice_group (pre g r : List α) (s : Nat) (hs : pre.length = s) :
    (pre ++ g ++ r).take s = pre ∧ ((pre ++ g ++ r).drop s).take (s + g.length - s) = g ∧
    (pre ++ g ++ r).drop (s + g.length) = r := by
  subst hs
  simp only [List.append_assoc]
  refine ⟨List.take_left, ?_, ?_⟩
  · rw [List.drop_left]
    have e1 : pre.length + g.length - pre.length = g.length := by omega
    rw [e1, List.take_left]
  · rw [← List.append_assoc]
    have : (pre ++ g).length = pre.length + g.length := by simp
    rw [← this, List.drop_left]

theorem applyRunM_group (f : List α → Option (List α)) (pre g r : List α) (s : Nat) (hs : pre.length = s) :
    applyRunM f (pre ++ g ++ r) (s, s + g.length) = (f g).map fun x => pre ++ x ++ r := by
  obtain ⟨h1, h2, h3⟩ := slice_group pre g r s hs
  unfold applyRunM
  simp only [h1, h2, h3]

theorem foldlM_applyRunM_maskOf_aux (f : List α → Option (List α)) :
    ∀ (gs : List (List α)) (_ : ∀ g ∈ gs, 2 ≤ g.length → ∀ g', f g = some g' → g'.length = g.length)
      (_ : ∀ g ∈ gs, g ≠ []) (pre : List α) (i bg : Nat) (_ : pre.length = i),
      (walkRunsAux (maskOf gs) i bg false).foldlM (applyRunM f) (pre ++ gs.flatten) =
        (gs.mapM (leafM f)).map fun gs' => pre ++ gs'.flatten
  | [], _, _, pre, i, bg, _ => by simp [walkRunsAux]
  | g :: gs, hlen, hne, pre, i, bg, hpre => by
    have hg : g ≠ [] := hne g (List.mem_cons_self ..)
    have hne' : ∀ g' ∈ gs, g' ≠ [] := fun g' h' => hne g' (List.mem_cons_of_mem _ h')
    have hlen' : ∀ g0 ∈ gs, 2 ≤ g0.length → ∀ g', f g0 = some g' → g'.length = g0.length :=
      fun g0 h0 => hlen g0 (List.mem_cons_of_mem _ h0)
    have hleng := hlen g (List.mem_cons_self ..)
    match g, hg, hleng with
    | [a], _, _ =>
      have ih := foldlM_applyRunM_maskOf_aux f gs hlen' hne' (pre ++ [a]) (i + 1) bg (by simp [hpre])
      simp only [maskOf_cons, maskOf1, List.cons_append, List.nil_append, walkRunsAux, Bool.false_and,
        Bool.not_false, Bool.and_false, Bool.false_eq_true, if_false, List.flatten_cons, List.mapM_cons, leafM]
      have e : pre ++ a :: gs.flatten = pre ++ [a] ++ gs.flatten := by simp
      rw [e, ih]
      cases gs.mapM (leafM f) <;> simp
    | a :: b :: t, _, hleng =>
      have hblk := walkRunsAux_in_block (b :: t) (by simp) (maskOf gs) (i + 1) i
      simp only [maskOf_cons, maskOf1, List.cons_append, walkRunsAux, Bool.not_false, Bool.and_self,
        if_true, List.flatten_cons, List.mapM_cons]
      rw [hblk]
      simp only [List.foldlM_cons]
      have e : i + 1 + (b :: t).length = i + (a :: b :: t).length := by simp; omega
      rw [e]
      have happ := applyRunM_group f pre (a :: b :: t) gs.flatten i hpre
      have hgoal : pre ++ a :: b :: (t ++ gs.flatten) = pre ++ (a :: b :: t) ++ gs.flatten := by simp
      rw [hgoal, happ]
      have hleaf : leafM f (a :: b :: t) = f (a :: b :: t) := rfl
      rw [hleaf]
      cases hf : f (a :: b :: t) with
      | none => simp
      | some g' =>
        have hl := hleng (by simp) _ hf
        have ih := foldlM_applyRunM_maskOf_aux f gs hlen' hne' (pre ++ g')
          (i + (a :: b :: t).length) i (by simp [hpre, hl])
        simp only [Option.map_some, Option.bind_some, Option.bind_eq_bind]
        rw [ih]
        cases gs.mapM (leafM f) <;> simp [List.append_assoc]

theorem foldlM_applyRunM_maskOf (f : List α → Option (List α)) (gs : List (List α))
    (hlen : ∀ g ∈ gs, 2 ≤ g.length → ∀ g', f g = some g' → g'.length = g.length) (hne : ∀ g ∈ gs, g ≠ []) :
    (walkRuns (maskOf gs)).foldlM (applyRunM f) gs.flatten = (gs.mapM (leafM f)).map List.flatten := by
  have := foldlM_applyRunM_maskOf_aux f gs hlen hne [] 0 0 rfl
  simpa [walkRuns] using this

/-- a mask without `True` yields no range -/
theorem walkRunsAux_all_false : ∀ (m : List Bool) (i bg : Nat), m.any id = false → walkRunsAux m i bg false = []
  | [], _, _, _ => rfl
  | b :: t, i, bg, h => by
    simp only [List.any_cons, id, Bool.or_eq_false_iff] at h
    obtain ⟨hb, ht⟩ := h
    subst hb
    simp only [walkRunsAux, Bool.false_and, Bool.not_false, Bool.and_false, Bool.false_eq_true, if_false]
    exact walkRunsAux_all_false t (i + 1) bg ht

/-! ### the duplicate detection -/

theorem adjacentRowsEq_eq_adjEqBy (eq : Int → Int → Bool) (row : α → List Int) :
    ∀ l : List α, adjacentRowsEq eq (l.map row) =
      adjEqBy (fun a b => (List.zipWith eq (row a) (row b)).all id) l
  | [] => rfl
  | [_] => rfl
  | a :: b :: t => by
    have ih := adjacentRowsEq_eq_adjEqBy eq row (b :: t)
    simp only [List.map_cons, adjacentRowsEq, adjEqBy] at ih ⊢
    rw [ih]

theorem adjEqBy_congr (e e' : α → α → Bool) :
    ∀ l : List α, (∀ a ∈ l, ∀ b ∈ l, e a b = e' a b) → adjEqBy e l = adjEqBy e' l
  | [], _ => rfl
  | [_], _ => rfl
  | a :: b :: t, h => by
    have ih := adjEqBy_congr e e' (b :: t)
      (fun x hx y hy => h x (List.mem_cons_of_mem _ hx) y (List.mem_cons_of_mem _ hy))
    simp only [adjEqBy]
    rw [ih, h a (List.mem_cons_self ..) b (List.mem_cons_of_mem _ (List.mem_cons_self ..))]

/-- component-wise closeness of two rows of length `fuel` = equality of the key vectors -/
theorem rowsEq_eq_kvec_beq (eq : Int → Int → Bool) (K : Nat → α → Int) (a b : α) :
    ∀ (fuel j : Nat) (ra rb : List Int), ra.length = fuel → rb.length = fuel →
      (∀ i, i < fuel → eq (ra.getD i 0) (rb.getD i 0) = (K (j + i) a == K (j + i) b)) →
      (List.zipWith eq ra rb).all id = (kvec K fuel j a == kvec K fuel j b)
  | 0, _, ra, rb, ha, hb, _ => by
    rw [List.length_eq_zero_iff] at ha hb
    subst ha hb
    simp [kvec]
  | fuel + 1, j, x :: ra, y :: rb, ha, hb, h => by
    have h0 := h 0 (by omega)
    simp only [List.getD_cons_zero, Nat.add_zero] at h0
    have ih := rowsEq_eq_kvec_beq eq K a b fuel (j + 1) ra rb (by simpa using ha) (by simpa using hb)
      (fun i hi => by
        have := h (i + 1) (by omega)
        simp only [List.getD_cons_succ] at this
        rw [this]
        have e : j + (i + 1) = j + 1 + i := by omega
        rw [e])
    simp only [List.zipWith_cons_cons, List.all_cons, id, kvec, List.cons_beq_cons]
    rw [h0, ← ih]
  | _ + 1, _, [], _, ha, _, _ => by simp at ha
  | _ + 1, _, _ :: _, [], _, hb, _ => by simp at hb

end Fc.C02
