/-
  FcProofs.Lemmas.LexsortSep — (iii) raw floating-point values vs cluster keys.

  Under the separation hypothesis `Sep` (FcModel/Spec/C02.lean: `sepCol A B vals` — any two occurring
  values differ by `≤ A` or by `> B`, with `2A ≤ B` — and the float side conditions `boundsOk`)

  * both closeness tests of the code (`np.isclose`, asymmetric; `fuzzy_equal`) are, on the occurring
    values, exactly "difference ≤ A" (`isclose_of_sep`, `closeFz_of_sep`),
  * "difference ≤ A" is an equivalence whose class function `clusterKey A vals` (smallest occurring
    value within `A`) is monotone: `Clustered` — close ⇔ equal cluster key, `u ≤ v ⇒ key u ≤ key v`.
-/
import FcModel.Spec.C02
import FcProofs.Lemmas.Fuzzy
import Mathlib.Tactic.Linarith
namespace Fc.C02
open Fc.C02.Spec

/-- "close" on the values `vals` is equality of the class function `cl`, and `cl` is monotone -/
structure Clustered (close : Int → Int → Bool) (vals : List Int) (cl : Int → Int) : Prop where
  iff : ∀ u ∈ vals, ∀ v ∈ vals, close u v = (cl u == cl v)
  mono : ∀ u ∈ vals, ∀ v ∈ vals, u ≤ v → cl u ≤ cl v

/-! ### the minimum fold -/

theorem foldl_min_le (l : List Int) : ∀ u : Int, l.foldl min u ≤ u := by
  induction l with
  | nil => intro u; exact le_refl _
  | cons a t ih => intro u; exact le_trans (ih (min u a)) (min_le_left _ _)

theorem foldl_min_le_mem (l : List Int) : ∀ (u : Int), ∀ w ∈ l, l.foldl min u ≤ w := by
  induction l with
  | nil => intro u w hw; simp at hw
  | cons a t ih =>
    intro u w hw
    rcases List.mem_cons.mp hw with rfl | hw
    · exact le_trans (foldl_min_le t _) (min_le_right _ _)
    · exact ih _ w hw

theorem foldl_min_mem (l : List Int) : ∀ (u : Int), l.foldl min u = u ∨ l.foldl min u ∈ l := by
  induction l with
  | nil => intro u; exact Or.inl rfl
  | cons a t ih =>
    intro u
    rcases ih (min u a) with h | h
    · rw [List.foldl_cons, h]
      rcases min_choice u a with h' | h'
      · exact Or.inl h'
      · exact Or.inr (by rw [h']; exact List.mem_cons_self ..)
    · exact Or.inr (List.mem_cons_of_mem _ h)

/-! ### cluster keys from the dichotomy -/

section cluster
variable (A B : Nat) (vals : List Int)

theorem sepCol_iff : sepCol A B vals = true ↔
    ∀ u ∈ vals, ∀ v ∈ vals, (u - v).natAbs ≤ A ∨ B < (u - v).natAbs := by
  simp [sepCol, List.all_eq_true]

variable {A B vals}

theorem near_trans (hsep : sepCol A B vals = true) (hAB : 2 * A ≤ B) {u v w : Int}
    (hu : u ∈ vals) (hw : w ∈ vals) (h1 : (u - v).natAbs ≤ A) (h2 : (v - w).natAbs ≤ A) :
    (u - w).natAbs ≤ A := by
  rcases (sepCol_iff A B vals).mp hsep u hu w hw with h | h
  · exact h
  · omega

theorem clusterKey_le (u : Int) : clusterKey A vals u ≤ u := foldl_min_le _ _

theorem clusterKey_le_near {u w : Int} (hw : w ∈ vals) (h : (w - u).natAbs ≤ A) :
    clusterKey A vals u ≤ w :=
  foldl_min_le_mem _ _ w (List.mem_filter.mpr ⟨hw, by simpa using h⟩)

theorem clusterKey_mem_near {u : Int} (hu : u ∈ vals) :
    clusterKey A vals u ∈ vals ∧ (clusterKey A vals u - u).natAbs ≤ A := by
  rcases foldl_min_mem (vals.filter fun w => decide ((w - u).natAbs ≤ A)) u with h | h
  · unfold clusterKey; rw [h]; exact ⟨hu, by simp⟩
  · have := List.mem_filter.mp h
    unfold clusterKey
    exact ⟨this.1, by simpa using this.2⟩

theorem clusterKey_eq_of_near (hsep : sepCol A B vals = true) (hAB : 2 * A ≤ B) {u v : Int}
    (hu : u ∈ vals) (hv : v ∈ vals) (h : (u - v).natAbs ≤ A) :
    clusterKey A vals u = clusterKey A vals v := by
  obtain ⟨hcu, hnu⟩ := clusterKey_mem_near (A := A) hu
  obtain ⟨hcv, hnv⟩ := clusterKey_mem_near (A := A) hv
  have h1 : (clusterKey A vals u - v).natAbs ≤ A := near_trans hsep hAB hcu hv hnu h
  have h' : (v - u).natAbs ≤ A := by omega
  have h2 : (clusterKey A vals v - u).natAbs ≤ A := near_trans hsep hAB hcv hu hnv h'
  exact le_antisymm (clusterKey_le_near hcv h2) (clusterKey_le_near hcu h1)

theorem near_of_clusterKey_eq (hsep : sepCol A B vals = true) (hAB : 2 * A ≤ B) {u v : Int}
    (hu : u ∈ vals) (hv : v ∈ vals) (h : clusterKey A vals u = clusterKey A vals v) :
    (u - v).natAbs ≤ A := by
  obtain ⟨hcu, hnu⟩ := clusterKey_mem_near (A := A) hu
  obtain ⟨_, hnv⟩ := clusterKey_mem_near (A := A) hv
  have h1 : (u - clusterKey A vals u).natAbs ≤ A := by omega
  rw [h] at h1
  rw [h] at hcu
  exact near_trans hsep hAB hu hv h1 hnv

theorem clusterKey_mono {u v : Int} (hv : v ∈ vals) (h : u ≤ v) :
    clusterKey A vals u ≤ clusterKey A vals v := by
  by_contra hc
  rw [not_le] at hc
  obtain ⟨hcv, hnv⟩ := clusterKey_mem_near (A := A) hv
  have h1 := clusterKey_le (A := A) (vals := vals) u
  have h2 := clusterKey_le (A := A) (vals := vals) v
  have hnear : (clusterKey A vals v - u).natAbs ≤ A := by omega
  have := clusterKey_le_near (A := A) (u := u) hcv hnear
  omega

/-- the cluster key depends on the occurring values only as a set -/
theorem clusterKey_congr {A : Nat} {vals1 vals2 : List Int} (h : ∀ w, w ∈ vals1 ↔ w ∈ vals2) {u : Int} :
    clusterKey A vals1 u = clusterKey A vals2 u := by
  have key : ∀ v1 v2 : List Int, (∀ w, w ∈ v1 → w ∈ v2) → clusterKey A v2 u ≤ clusterKey A v1 u := by
    intro v1 v2 hsub
    rcases foldl_min_mem (v1.filter fun w => decide ((w - u).natAbs ≤ A)) u with h1 | h1
    · unfold clusterKey at *; rw [h1]; exact foldl_min_le _ _
    · have hm := List.mem_filter.mp h1
      exact foldl_min_le_mem _ _ _ (List.mem_filter.mpr ⟨hsub _ hm.1, hm.2⟩)
  exact le_antisymm (key vals2 vals1 (fun w hw => (h w).mpr hw)) (key vals1 vals2 (fun w hw => (h w).mp hw))

/-- `Sep` makes every closeness test that agrees with the dichotomy a clustered relation -/
theorem clustered_of_sep (close : Int → Int → Bool) (hsep : sepCol A B vals = true) (hAB : 2 * A ≤ B)
    (hlow : ∀ u ∈ vals, ∀ v ∈ vals, (u - v).natAbs ≤ A → close u v = true)
    (hhigh : ∀ u ∈ vals, ∀ v ∈ vals, B < (u - v).natAbs → close u v = false) :
    Clustered close vals (clusterKey A vals) where
  iff u hu v hv := by
    rcases (sepCol_iff A B vals).mp hsep u hu v hv with h | h
    · rw [hlow u hu v hv h, clusterKey_eq_of_near hsep hAB hu hv h]; simp
    · rw [hhigh u hu v hv h]
      have : clusterKey A vals u ≠ clusterKey A vals v := by
        intro he
        have := near_of_clusterKey_eq hsep hAB hu hv he
        omega
      simpa using this
  mono u _ v hv h := clusterKey_mono hv h

end cluster

/-! ### the floating-point side conditions -/

theorem thrIs_mono (t : MeshTol) {m m' : Nat} (h : m ≤ m') : leInf (thrIs t m) (thrIs t m') = true := by
  have hp := rndMag_mono f64 UNIT (Nat.mul_le_mul_left t.rtol h)
  unfold thrIs iscloseThr
  cases h1 : rndMag f64 (t.rtol * m) UNIT <;> cases h2 : rndMag f64 (t.rtol * m') UNIT <;>
    simp only [h1, h2] at hp ⊢
  · exact leInf_refl _
  · simp [leInf] at hp
  · cases rndMag f64 (t.atol + _) 0 <;> simp [leInf]
  · rename_i p p'
    have : p ≤ p' := by simpa [leInf] using hp
    exact rndMag_mono f64 0 (by omega)

theorem thrFz_mono (t : MeshTol) {m m' : Nat} (h : m ≤ m') : leInf (thrFz t m) (thrFz t m') = true := by
  unfold thrFz
  rw [threshold_f64, threshold_f64]
  exact maxInf_mono (rndMag_mono f64 UNIT (Nat.mul_le_mul_right t.rtol h)) (leInf_refl _)

theorem isclose_eq (t : MeshTol) (a b : Int) :
    t.closeIs a b = leInf (rndMag f64 (a - b).natAbs 0) (thrIs t b.natAbs) := by
  unfold MeshTol.closeIs isclose thrIs
  rfl

theorem closeFz_eq (t : MeshTol) (a b : Int) :
    t.closeFz a b = leInf (rndMag f64 (b - a).natAbs 0) (thrFz t (max a.natAbs b.natAbs)) := by
  unfold MeshTol.closeFz fuzzyEq1 thrFz
  rfl

/-- the four side conditions, unpacked -/
theorem boundsOk_iff (t : MeshTol) (A B M : Nat) : boundsOk t A B M = true ↔
    (leInf (rndMag f64 A 0) (thrIs t 0) = true ∧ leInf (rndMag f64 A 0) (thrFz t 0) = true) ∧
    leInf (rndMag f64 (B + 1) 0) (thrIs t M) = false ∧ leInf (rndMag f64 (B + 1) 0) (thrFz t M) = false := by
  simp [boundsOk, and_assoc]

theorem isclose_of_near {t : MeshTol} {A B M : Nat} (hb : boundsOk t A B M = true) {a b : Int}
    (h : (a - b).natAbs ≤ A) : t.closeIs a b = true := by
  obtain ⟨⟨h1, _⟩, _⟩ := (boundsOk_iff t A B M).mp hb
  rw [isclose_eq]
  exact leInf_trans (rndMag_mono f64 0 h) (leInf_trans h1 (thrIs_mono t (Nat.zero_le _)))

theorem isclose_of_far {t : MeshTol} {A B M : Nat} (hb : boundsOk t A B M = true) {a b : Int}
    (hM : b.natAbs ≤ M) (h : B < (a - b).natAbs) : t.closeIs a b = false := by
  obtain ⟨_, h3, _⟩ := (boundsOk_iff t A B M).mp hb
  rw [isclose_eq]
  cases hc : leInf (rndMag f64 (a - b).natAbs 0) (thrIs t b.natAbs)
  · rfl
  · have := leInf_trans (leInf_trans (rndMag_mono f64 0 (show B + 1 ≤ (a - b).natAbs by omega)) hc)
      (thrIs_mono t hM)
    rw [h3] at this
    exact absurd this (by simp)

theorem closeFz_of_near {t : MeshTol} {A B M : Nat} (hb : boundsOk t A B M = true) {a b : Int}
    (h : (a - b).natAbs ≤ A) : t.closeFz a b = true := by
  obtain ⟨⟨_, h2⟩, _⟩ := (boundsOk_iff t A B M).mp hb
  rw [closeFz_eq]
  exact leInf_trans (rndMag_mono f64 0 (show (b - a).natAbs ≤ A by omega))
    (leInf_trans h2 (thrFz_mono t (Nat.zero_le _)))

theorem closeFz_of_far {t : MeshTol} {A B M : Nat} (hb : boundsOk t A B M = true) {a b : Int}
    (hMa : a.natAbs ≤ M) (hMb : b.natAbs ≤ M) (h : B < (a - b).natAbs) : t.closeFz a b = false := by
  obtain ⟨_, _, h4⟩ := (boundsOk_iff t A B M).mp hb
  rw [closeFz_eq]
  cases hc : leInf (rndMag f64 (b - a).natAbs 0) (thrFz t (max a.natAbs b.natAbs))
  · rfl
  · have := leInf_trans (leInf_trans (rndMag_mono f64 0 (show B + 1 ≤ (b - a).natAbs by omega)) hc)
      (thrFz_mono t (show max a.natAbs b.natAbs ≤ M by omega))
    rw [h4] at this
    exact absurd this (by simp)

/-- **(iii)** under `Sep` both closeness tests of the code are clustered with the same cluster
    keys `clusterKey A vals` -/
theorem clustered_closeIs {t : MeshTol} {A B M : Nat} {vals : List Int} (hsep : sepCol A B vals = true)
    (hAB : 2 * A ≤ B) (hb : boundsOk t A B M = true) (hM : ∀ v ∈ vals, v.natAbs ≤ M) :
    Clustered t.closeIs vals (clusterKey A vals) :=
  clustered_of_sep _ hsep hAB (fun _ _ _ _ h => isclose_of_near hb h)
    (fun _ _ v hv h => isclose_of_far hb (hM v hv) h)

theorem clustered_closeFz {t : MeshTol} {A B M : Nat} {vals : List Int} (hsep : sepCol A B vals = true)
    (hAB : 2 * A ≤ B) (hb : boundsOk t A B M = true) (hM : ∀ v ∈ vals, v.natAbs ≤ M) :
    Clustered t.closeFz vals (clusterKey A vals) :=
  clustered_of_sep _ hsep hAB (fun _ _ _ _ h => closeFz_of_near hb h)
    (fun u hu v hv h => closeFz_of_far hb (hM u hu) (hM v hv) h)

theorem sepA_sepB (t : MeshTol) : 2 * sepA t ≤ sepB t := by
  unfold sepA sepB; omega

end Fc.C02
