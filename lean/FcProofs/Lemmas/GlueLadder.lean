/-
  FcProofs.Lemmas.GlueLadder — what C08 proves about the public transformations, transported to
  the rungs of C03's ladder (`Fc.Glue.ladderOps`, FcModel/GlueLadder.lean):

  * `extend_WFP`: the extension of a well-formed data set is well-formed (the piece NOTES_C08 lists
    as missing for mixed chains);
  * `PadContent k b a`: `a` has the geometric content of `b` up to relabelling and `k` appended zero
    coordinates; for `k = 0` the full content incl. every field value (`SameContent`);
  * `applyPubs_derived`: every chain of public transformations (reorderings AND extensions, any
    order) keeps `WFP` and `PadContent` — induction over the chain from `C08_reordering`,
    `C08_extend_content`, `C08_extend_mesh`;
  * `Produced` is reflexive, transitive and respected by the ladder's three operations;
  * (rectangular type blocks survive: `wfEq_of_padContent`, in Lemmas/GlueLadderEq.lean).
-/
import FcProofs.Props.C08
import FcProofs.Lemmas.C17
import FcModel.GlueLadder
namespace Fc.Glue
open Fc Fc.Spec

/-! ### chains -/

theorem applyPubs_append (P : SortParams) (s1 s2 : List PubStep) (f : MeshFields) :
    applyPubs P (s1 ++ s2) f = (applyPubs P s1 f).bind (applyPubs P s2) := by
  induction s1 generalizing f with
  | nil => rfl
  | cons s ss ih =>
    simp only [List.cons_append, applyPubs]
    cases applyPub P s f with
    | none => rfl
    | some f1 => exact ih f1

theorem produced_refl (P : SortParams) (x : Option MeshFields) : Produced P x x :=
  ⟨[], by cases x <;> rfl⟩

theorem produced_trans (P : SortParams) (x y z : Option MeshFields)
    (h1 : Produced P x y) (h2 : Produced P y z) : Produced P x z := by
  obtain ⟨s1, e1⟩ := h1
  obtain ⟨s2, e2⟩ := h2
  refine ⟨s2 ++ s1, ?_⟩
  rw [e1, e2]
  cases z with
  | none => rfl
  | some c => simp [applyPubs_append]

theorem produced_extend (L : LadderParams) (cmp : MeshFields → MeshFields → Bool × Bool) (d : Nat)
    (x : Option MeshFields) : Produced L.sort ((ladderOps L cmp).extend d x) x := by
  refine ⟨[.extend d], ?_⟩
  cases x with
  | none => rfl
  | some f =>
    show extendSpaceDim d f = applyPubs L.sort [.extend d] f
    simp only [applyPubs, applyPub]
    cases extendSpaceDim d f <;> rfl

theorem produced_permute (L : LadderParams) (cmp : MeshFields → MeshFields → Bool × Bool)
    (x : Option MeshFields) : Produced L.sort ((ladderOps L cmp).permute x) x := by
  cases hs : L.stripOrphans with
  | true =>
    refine ⟨[.reorder .strip, .reorder .sortPoints], ?_⟩
    cases x with
    | none => rfl
    | some f =>
      show permuteFields L f = applyPubs L.sort [.reorder .strip, .reorder .sortPoints] f
      simp only [permuteFields, hs, if_true, applyPubs, applyPub, applyReordering]
      cases stripOrphanPoints L.sort.argsortB f with
      | none => rfl
      | some f1 => simp only; cases sortPoints L.sort.sorter f1 <;> rfl
  | false =>
    refine ⟨[.reorder .sortPoints], ?_⟩
    cases x with
    | none => rfl
    | some f =>
      show permuteFields L f = applyPubs L.sort [.reorder .sortPoints] f
      simp only [permuteFields, hs, Bool.false_eq_true, if_false, applyPubs, applyPub, applyReordering]
      cases sortPoints L.sort.sorter f <;> rfl

theorem produced_sortCells (L : LadderParams) (cmp : MeshFields → MeshFields → Bool × Bool)
    (x : Option MeshFields) : Produced L.sort ((ladderOps L cmp).sortCells x) x := by
  refine ⟨[.reorder .sortCells], ?_⟩
  cases x with
  | none => rfl
  | some f =>
    show sortCells L.sort.h L.sort.argsortI f = applyPubs L.sort [.reorder .sortCells] f
    simp only [applyPubs, applyPub, applyReordering]
    cases sortCells L.sort.h L.sort.argsortI f <;> rfl

/-! ### the reorderings keep the number of coordinate columns -/

theorem applyReordering_dim (P : SortParams) (t : Reordering) (f f' : MeshFields)
    (h : applyReordering P t f = some f') : f'.mesh.dim = f.mesh.dim := by
  have strip : ∀ g g', stripOrphanPoints P.argsortB g = some g' → g'.mesh.dim = g.mesh.dim := by
    intro g g' hs
    unfold stripOrphanPoints at hs
    cases hm : unconnectedFilterMap P.argsortB g.mesh with
    | none => simp [hm] at hs
    | some fm => simp only [hm] at hs; exact applyPermuted_dim hs
  have sortP : ∀ g g', sortPoints P.sorter g = some g' → g'.mesh.dim = g.mesh.dim := by
    intro g g' hs
    unfold sortPoints at hs
    cases hm : P.sorter g.mesh with
    | none => simp [hm] at hs
    | some σ => simp only [hm] at hs; exact applyPermuted_dim hs
  have sortC : ∀ g g', sortCells P.h P.argsortI g = some g' → g'.mesh.dim = g.mesh.dim :=
    fun g g' hs => applyPermuted_dim hs
  cases t with
  | strip => exact strip f f' h
  | sortPoints => exact sortP f f' h
  | sortCells => exact sortC f f' h
  | sort =>
    simp only [applyReordering, sortAll] at h
    cases h1 : stripOrphanPoints P.argsortB f with
    | none => simp [h1] at h
    | some f1 =>
      simp only [h1] at h
      cases h2 : sortPoints P.sorter f1 with
      | none => simp [h2] at h
      | some f2 =>
        simp only [h2] at h
        rw [sortC f2 f' h, sortP f1 f2 h2, strip f f1 h1]

/-! ### the extension of a well-formed data set is well-formed -/

theorem length_flatMap_range (n L : Nat) (F : Nat → List Int) (h : ∀ i, i < n → (F i).length = L) :
    ((List.range n).flatMap F).length = n * L := by
  induction n with
  | zero => simp
  | succ n ih =>
    rw [List.range_succ, List.flatMap_append, List.length_append, ih (fun i hi => h i (by omega))]
    simp only [List.flatMap_singleton]
    rw [h n (by omega), Nat.succ_mul]

theorem resizedVector_hasRows (msd sd : Nat) (hm : msd ≤ sd) (a v : NdArr) (n : Nat) (ha : a.hasRows n)
    (h : resizedVector msd sd a = some v) : v.hasRows n := by
  unfold resizedVector at h
  split at h
  · rename_i n' k hshape
    have hn : n' = n := by
      have := ha.1; rw [hshape] at this; simpa using this
    subst hn
    split at h
    · split at h
      · cases h
        refine ⟨rfl, ?_⟩
        show ((List.range n').flatMap fun i => resizeVectorRow msd sd k (a.row i)).length = prodList [n', sd]
        rw [length_flatMap_range n' sd]
        · simp [prodList]
        · intro i hi
          unfold resizeVectorRow
          by_cases hk : k = msd
          · rw [if_pos hk, List.length_append, NdArr.row_length ha hi, rowSize_vec a hshape]
            simp [zeros]; omega
          · rw [if_neg hk]; simp [zeros]; omega
      · cases h
    · cases h; exact ha
  · cases h

theorem resizedTensor_hasRows (msd sd : Nat) (hm : msd ≤ sd) (a v : NdArr) (n : Nat) (ha : a.hasRows n)
    (h : resizedTensor msd sd a = some v) : v.hasRows n := by
  unfold resizedTensor at h
  split at h
  · rename_i n' k1 k2 hshape
    have hn : n' = n := by
      have := ha.1; rw [hshape] at this; simpa using this
    subst hn
    split at h
    · split at h
      · cases h
        refine ⟨rfl, ?_⟩
        show ((List.range n').flatMap fun i => resizeTensorRow msd sd k1 k2 (a.row i)).length
          = prodList [n', sd, sd]
        rw [length_flatMap_range n' (sd * sd)]
        · simp [prodList, Nat.mul_assoc]
        · intro i hi
          by_cases hk : k1 = msd ∧ k2 = msd
          · obtain ⟨h1, h2⟩ := hk
            subst h1; subst h2
            rw [tensor_row_eq _ _ sd (by rw [NdArr.row_length ha hi, rowSize_ten a hshape]) hm]
            simp
          · unfold resizeTensorRow
            rw [if_neg hk, range_flatMap_map]
            simp
      · cases h
    · cases h; exact ha
  · cases h

theorem resizedField_hasRows (msd sd : Nat) (hm : msd ≤ sd) (a v : NdArr) (n : Nat) (ha : a.hasRows n)
    (h : resizedField msd sd a = some v) : v.hasRows n := by
  unfold resizedField at h
  split at h
  · cases h; exact ha
  · exact resizedVector_hasRows msd sd hm a v n ha h
  · exact resizedTensor_hasRows msd sd hm a v n ha h
  · cases h

/-- **the extension of a well-formed data set is well-formed** -/
theorem extend_WFP {f f' : MeshFields} {sd : Nat} (hw : WFP f) (h : extendSpaceDim sd f = some f') :
    WFP f' := by
  by_cases hne : sd = f.mesh.dim
  · have : f' = f := by
      unfold extendSpaceDim at h
      simp only [hne, if_true, Option.some.injEq] at h
      exact h.symm
    subst this; exact hw
  · obtain ⟨hlt, hm, hpf, hcf⟩ := extend_some h hne
    have hnp : f'.mesh.numPoints = f.mesh.numPoints := by rw [hm]; simp [Mesh.numPoints]
    have hcells : f'.mesh.cells = f.mesh.cells := by rw [hm]
    have hct : ∀ ct, f'.mesh.cellsOf ct = f.mesh.cellsOf ct := by
      intro ct; unfold Mesh.cellsOf; rw [hcells]
    have htypes : f'.mesh.cellTypes = f.mesh.cellTypes := by unfold Mesh.cellTypes; rw [hcells]
    refine ⟨?_, ?_, ?_, ?_, ?_, ?_⟩
    · intro p hp
      rw [hm] at hp ⊢
      simp only [List.mem_map] at hp
      obtain ⟨q, hq, rfl⟩ := hp
      simp only [List.length_append, zeros, List.length_replicate, hw.rows q hq]
      omega
    · intro b hb row hrow p hp
      rw [hnp]
      exact hw.inRange b (hcells ▸ hb) row hrow p hp
    · intro pf' hpf'
      have hmem : some pf' ∈ f'.pointFields.map some := List.mem_map.mpr ⟨pf', hpf', rfl⟩
      rw [← hpf] at hmem
      obtain ⟨pf, hpfm, he⟩ := List.mem_map.mp hmem
      cases hr : resizedField f.mesh.dim sd pf.values with
      | none => rw [hr] at he; cases he
      | some v =>
        rw [hr] at he
        simp only [Option.map_some, Option.some.injEq] at he
        subst he
        rw [hnp]
        exact resizedField_hasRows _ _ (by omega) _ _ _ (hw.pf pf hpfm) hr
    · intro cf' hcf'
      have hmem : some cf' ∈ f'.cellFields.map some := List.mem_map.mpr ⟨cf', hcf', rfl⟩
      rw [← hcf] at hmem
      obtain ⟨cf, hcfm, he⟩ := List.mem_map.mp hmem
      cases hr : resizedField f.mesh.dim sd cf.values with
      | none => rw [hr] at he; cases he
      | some v =>
        rw [hr] at he
        simp only [Option.map_some, Option.some.injEq] at he
        subst he
        rw [hct]
        exact resizedField_hasRows _ _ (by omega) _ _ _ (hw.cf cf hcfm) hr
    · rw [htypes]; exact hw.types
    · intro cf' hcf'
      have hmem : some cf' ∈ f'.cellFields.map some := List.mem_map.mpr ⟨cf', hcf', rfl⟩
      rw [← hcf] at hmem
      obtain ⟨cf, hcfm, he⟩ := List.mem_map.mp hmem
      cases hr : resizedField f.mesh.dim sd cf.values with
      | none => rw [hr] at he; cases he
      | some v =>
        rw [hr] at he
        simp only [Option.map_some, Option.some.injEq] at he
        subst he
        rw [htypes]
        exact hw.cfTypes cf hcfm

/-! ### content up to zero padding -/

/-- `a` carries the geometric content of `b` up to relabelling and `k` appended zero coordinates:
    the coordinate tuples of the connected points, and the (type, corner coordinate tuples) of the
    cells, agree as multisets once `k` zeros are appended on `b`'s side; when nothing was padded
    (`k = 0`) the FULL content agrees, every point / cell field value included (`SameContent`). -/
structure PadContent (k : Nat) (b a : MeshFields) : Prop where
  dim : a.mesh.dim = b.mesh.dim + k
  points : (a.pointContent.map (·.coords)).Perm (b.pointContent.map fun it => it.coords ++ zeros k)
  cells : (a.cellContent.map fun it => (it.ctype, it.corners)).Perm
          (b.cellContent.map fun it => (it.ctype, it.corners.map (· ++ zeros k)))
  same : k = 0 → SameContent b a

/-- rung `a` is derived from the input `b`: well-formed, same content up to padding -/
def Derived (b a : MeshFields) : Prop := WFP a ∧ ∃ k, PadContent k b a

theorem PadContent.refl (f : MeshFields) : PadContent 0 f f :=
  ⟨rfl, by simp [zeros], by simp [zeros], fun _ => SameContent.refl f⟩

theorem PadContent.reorder {k : Nat} {b a a' : MeshFields} (h : PadContent k b a)
    (hs : SameContent a a') (hd : a'.mesh.dim = a.mesh.dim) : PadContent k b a' :=
  ⟨by rw [hd, h.dim], (hs.1.map _).trans h.points, (hs.2.map _).trans h.cells,
   fun hk => (h.same hk).trans hs⟩

theorem extend_dim_le {f f' : MeshFields} {d : Nat} (h : extendSpaceDim d f = some f') :
    f.mesh.dim ≤ d := by
  by_cases hne : d = f.mesh.dim
  · omega
  · have := (extend_some h hne).1; omega

theorem PadContent.extend {k d : Nat} {b a a' : MeshFields} (h : PadContent k b a) (hw : WFP a)
    (he : extendSpaceDim d a = some a') : PadContent (k + (d - a.mesh.dim)) b a' := by
  have hle := extend_dim_le he
  obtain ⟨hp, hc⟩ := C08_extend_content a a' hw d he
  have hz : ∀ l : List Int, (l ++ zeros k) ++ zeros (d - a.mesh.dim) = l ++ zeros (k + (d - a.mesh.dim)) := by
    intro l; simp [zeros, List.append_assoc, List.replicate_append_replicate]
  refine ⟨?_, ?_, ?_, ?_⟩
  · have hdim := h.dim
    rw [(C08_extend_mesh a a' d he).2.1]; omega
  · rw [hp]
    have := h.points.map (· ++ zeros (d - a.mesh.dim))
    simp only [List.map_map] at this
    refine this.trans (List.Perm.of_eq ?_)
    apply List.map_congr_left
    intro it _
    exact hz it.coords
  · rw [hc]
    have := h.cells.map (fun p : String × List (List Int) => (p.1, p.2.map (· ++ zeros (d - a.mesh.dim))))
    simp only [List.map_map] at this
    refine this.trans (List.Perm.of_eq ?_)
    apply List.map_congr_left
    intro it _
    simp only [Function.comp, List.map_map, Prod.mk.injEq, true_and]
    apply List.map_congr_left
    intro l _
    exact hz l
  · intro hk
    have hd : d = a.mesh.dim := by omega
    have : a' = a := by
      unfold extendSpaceDim at he
      simp only [hd, if_true, Option.some.injEq] at he
      exact he.symm
    subst this
    exact h.same (by omega)

/-- **every chain of public transformations** — reorderings and extensions in any order — applied
    to a well-formed data set derived from `b` returns (if it returns) a data set derived from `b` -/
theorem applyPubs_padContent (P : SortParams) (hP : SortParamsOk P) (b : MeshFields) :
    ∀ (steps : List PubStep) (a a' : MeshFields) (k : Nat), WFP a → PadContent k b a →
      applyPubs P steps a = some a' → Derived b a' := by
  intro steps
  induction steps with
  | nil =>
    intro a a' k hw hk h
    simp only [applyPubs, Option.some.injEq] at h
    subst h
    exact ⟨hw, k, hk⟩
  | cons s ss ih =>
    intro a a' k hw hk h
    simp only [applyPubs] at h
    cases h1 : applyPub P s a with
    | none => simp [h1] at h
    | some a1 =>
      simp only [h1] at h
      cases s with
      | extend d =>
        exact ih a1 a' _ (extend_WFP hw h1) (hk.extend hw h1) h
      | reorder t =>
        obtain ⟨c1, w1⟩ := C08_reordering P hP t a a1 hw h1
        exact ih a1 a' _ w1 (hk.reorder c1 (applyReordering_dim P t a a1 h1)) h

theorem produced_derived (P : SortParams) (hP : SortParamsOk P) (b a : MeshFields) (hb : WFP b)
    (h : Produced P (some a) (some b)) : Derived b a := by
  obtain ⟨steps, e⟩ := h
  exact applyPubs_padContent P hP b steps b a 0 hb (PadContent.refl b) e.symm

/-! ### the guarded C02 point sorter satisfies C08's `SortParamsOk` on every mesh -/

theorem guardedSorter_perm (as : List Int → List Nat) (m : Mesh) (σ : List Nat)
    (h : guardedSorter as m = some σ) : σ.Perm (List.range m.numPoints) := by
  unfold guardedSorter at h
  split at h
  · split at h
    · rename_i hp
      cases h
      exact List.isPerm_iff.mp hp
    · cases h
  · cases h

theorem paramsOf_ok (as : List Int → List Nat) (has : ∀ keys : List Int, (as keys).Perm (List.range keys.length))
    (h : List Nat → Int) (s : Bool) : SortParamsOk (paramsOf as h s).sort :=
  ⟨stableArgsortBool_isArgsort, guardedSorter_perm as, has⟩

end Fc.Glue
