/-
  FcProofs.Lemmas.Cli — helper lemmas for C04 / C20 (cluster B: CLI decision logic).
-/
import FcModel.Spec.C04
namespace Fc.C04
open Fc

/-! ### decision tables (re-checked against the regenerated source tables) -/

theorem suiteIsTrue_table :
    suiteIsTrue .passed = true ∧ suiteIsTrue .skipped = true ∧
    suiteIsTrue .failed = false ∧ suiteIsTrue .error = false := by decide

theorem boolToExitCode_zero (b : Bool) : boolToExitCode b = 0 ↔ b = true := by
  cases b <;> decide

/-- a compared field contributes a passing test exactly when its comparison passed -/
theorem suiteIsTrue_parse_verdict (a b : Bool) (v : Verdict) :
    suiteIsTrue (parseStatus a b (verdictStatus v)) = true ↔ verdictStatus v = .passed := by
  rcases v with (_ | _) | _ <;> simp [verdictStatus, parseStatus] <;> decide

theorem suiteIsTrue_missingSource (a b : Bool) :
    suiteIsTrue (parseStatus a b .missingSource) = a := by
  cases a <;> simp [parseStatus] <;> decide

theorem suiteIsTrue_missingReference (a b : Bool) :
    suiteIsTrue (parseStatus a b .missingReference) = b := by
  cases b <;> simp [parseStatus] <;> decide

theorem suiteIsTrue_filtered (a b : Bool) : suiteIsTrue (parseStatus a b .filtered) = true := by
  simp [parseStatus]; decide

/-! ### tolerance arguments: the dictionary loop computes "last named ?? last unnamed" -/

namespace Spec

theorem lastValue_cons (pf : String → FloatLit) (dyn : Bool) (p : String → Bool) (s : String) (l : List String) :
    lastValue pf dyn p (s :: l) =
      match lastValue pf dyn p l with
      | some v => some v
      | none => if p s && (valueOf pf dyn s).isSome then valueOf pf dyn s else none := by
  unfold lastValue
  rw [List.reverse_cons, List.filter_append, List.head?_append]
  cases h : (l.reverse.filter fun s => p s && (valueOf pf dyn s).isSome) with
  | nil =>
    simp only [List.head?_nil, Option.none_or, Option.bind_none]
    by_cases hq : (p s && (valueOf pf dyn s).isSome) = true
    · simp [List.filter, hq]
    · simp [List.filter, hq]
  | cons x xs =>
    have hx : x ∈ (l.reverse.filter fun s => p s && (valueOf pf dyn s).isSome) := by rw [h]; simp
    have hq := (List.mem_filter.mp hx).2
    simp only [Bool.and_eq_true] at hq
    obtain ⟨v, hv⟩ := Option.isSome_iff_exists.mp hq.2
    simp [hv]

theorem lastValue_nil (pf : String → FloatLit) (dyn : Bool) (p : String → Bool) :
    lastValue pf dyn p [] = none := by
  simp [lastValue]

theorem lastValue_none_iff (pf : String → FloatLit) (dyn : Bool) (p : String → Bool) (l : List String) :
    lastValue pf dyn p l = none ↔ ∀ t ∈ l, ¬ (p t = true ∧ (valueOf pf dyn t).isSome = true) := by
  induction l with
  | nil => simp [lastValue_nil]
  | cons x xs ih =>
    rw [lastValue_cons]
    cases hl : lastValue pf dyn p xs with
    | some w =>
      simp only [reduceCtorEq, false_iff]
      intro hall
      have := ih.mpr (fun t ht => hall t (List.mem_cons_of_mem _ ht))
      rw [hl] at this; cases this
    | none =>
      have hxs := ih.mp hl
      simp only [List.mem_cons, forall_eq_or_imp]
      constructor
      · intro h
        refine ⟨?_, hxs⟩
        intro hq
        have hq' : (p x && (valueOf pf dyn x).isSome) = true := by simp [hq.1, hq.2]
        rw [if_pos hq'] at h
        rw [h] at hq
        simp at hq
      · rintro ⟨hx, _⟩
        split
        · rename_i hq
          simp only [Bool.and_eq_true] at hq
          exact absurd hq hx
        · rfl

/-- `lastValue` is the value of the *last* argument of the kind `p` that carries a value -/
theorem lastValue_some_iff (pf : String → FloatLit) (dyn : Bool) (p : String → Bool) (l : List String) (v : TolVal) :
    lastValue pf dyn p l = some v ↔
      ∃ l₁ s l₂, l = l₁ ++ s :: l₂ ∧ p s = true ∧ valueOf pf dyn s = some v ∧
        ∀ t ∈ l₂, ¬ (p t = true ∧ (valueOf pf dyn t).isSome = true) := by
  induction l with
  | nil => simp [lastValue_nil]
  | cons x xs ih =>
    rw [lastValue_cons]
    cases hl : lastValue pf dyn p xs with
    | some w =>
      simp only [Option.some.injEq]
      constructor
      · rintro rfl
        obtain ⟨l₁, s, l₂, rfl, h1, h2, h3⟩ := ih.mp hl
        exact ⟨x :: l₁, s, l₂, rfl, h1, h2, h3⟩
      · rintro ⟨l₁, s, l₂, he, h1, h2, h3⟩
        cases l₁ with
        | nil =>
          simp only [List.nil_append, List.cons.injEq] at he
          obtain ⟨rfl, rfl⟩ := he
          have := (lastValue_none_iff pf dyn p xs).mpr h3
          rw [hl] at this; cases this
        | cons y ys =>
          simp only [List.cons_append, List.cons.injEq] at he
          obtain ⟨rfl, rfl⟩ := he
          have := ih.mpr ⟨ys, s, l₂, rfl, h1, h2, h3⟩
          rw [hl] at this
          exact Option.some.inj this
    | none =>
      have hxs := (lastValue_none_iff pf dyn p xs).mp hl
      simp only
      constructor
      · intro h
        split at h
        · rename_i hq
          simp only [Bool.and_eq_true] at hq
          exact ⟨[], x, xs, rfl, hq.1, h, hxs⟩
        · cases h
      · rintro ⟨l₁, s, l₂, he, h1, h2, h3⟩
        cases l₁ with
        | nil =>
          simp only [List.nil_append, List.cons.injEq] at he
          obtain ⟨rfl, rfl⟩ := he
          have hq' : (p x && (valueOf pf dyn x).isSome) = true := by simp [h1, h2]
          rw [if_pos hq', h2]
        | cons y ys =>
          simp only [List.cons_append, List.cons.injEq] at he
          obtain ⟨rfl, rfl⟩ := he
          exact absurd ⟨h1, by simp [h2]⟩ (hxs s (by simp))

/-- arguments of another kind are irrelevant: `lastValue p` only looks at arguments satisfying `p` -/
theorem lastValue_filter (pf : String → FloatLit) (dyn : Bool) (p q : String → Bool) (l : List String)
    (hpq : ∀ s, p s = true → q s = true) :
    lastValue pf dyn p (l.filter q) = lastValue pf dyn p l := by
  induction l with
  | nil => rfl
  | cons x xs ih =>
    by_cases hq : q x = true
    · rw [List.filter_cons_of_pos hq, lastValue_cons, lastValue_cons, ih]
    · have hq' : q x = false := by simpa using hq
      have hp : p x = false := by
        cases hpx : p x with
        | false => rfl
        | true => rw [hpq x hpx] at hq'; cases hq'
      rw [List.filter_cons_of_neg hq, lastValue_cons, ih]
      cases lastValue pf dyn p xs <;> simp [hp]

end Spec

/-- state of the loop: what a lookup of `name` yields -/
def TolMap.namedGet (m : TolMap) (name : String) : Option TolVal := m.named.lookup name

theorem lookup_cons_pair (n name : String) (t : TolVal) (l : List (String × TolVal)) :
    ((n, t) :: l).lookup name = if name == n then some t else l.lookup name := by
  simp only [List.lookup]
  cases h : name == n <;> simp

/-- the loop of `_parse_field_tolerances`: on success, the named bindings answer with the last
    argument `name:value` for that name (else the previous binding), the default is the last
    unnamed argument (else the previous default) -/
theorem parseLoop_spec (pf : String → FloatLit) (dyn : Bool) :
    ∀ (l : List String) (m : TolMap) (ex : Bool) (m' : TolMap) (ex' : Bool),
      parseLoop pf dyn l m ex = .ok m' ex' →
      (∀ name, m'.named.lookup name =
        match Spec.lastValue pf dyn (Spec.isNamedFor name) l with
        | some v => some v
        | none => m.named.lookup name) ∧
      (m'.dflt = match Spec.lastValue pf dyn Spec.isUnnamed l with
        | some v => some v
        | none => m.dflt) := by
  intro l
  induction l with
  | nil =>
    intro m ex m' ex' h
    simp only [parseLoop, ParseRes.ok.injEq] at h
    obtain ⟨rfl, _⟩ := h
    simp [Spec.lastValue_nil]
  | cons s rest ih =>
    intro m ex m' ex' h
    unfold parseLoop at h
    cases hc : classifyTok s with
    | malformed => rw [hc] at h; simp at h
    | named n v =>
      rw [hc] at h
      simp only at h
      cases hm : makeTolerance pf dyn v with
      | none => rw [hm] at h; simp at h
      | some ov =>
        rw [hm] at h
        have hval : Spec.valueOf pf dyn s = ov := by
          simp [Spec.valueOf, Spec.tokValue, hc, hm]
        have hun : Spec.isUnnamed s = false := by simp [Spec.isUnnamed, hc]
        cases ov with
        | none =>
          simp only at h
          obtain ⟨h1, h2⟩ := ih _ _ _ _ h
          refine ⟨fun name => ?_, ?_⟩
          · rw [h1 name, Spec.lastValue_cons]
            cases Spec.lastValue pf dyn (Spec.isNamedFor name) rest <;> simp [hval]
          · rw [h2, Spec.lastValue_cons]
            cases Spec.lastValue pf dyn Spec.isUnnamed rest <;> simp [hval]
        | some t =>
          simp only at h
          obtain ⟨h1, h2⟩ := ih _ _ _ _ h
          refine ⟨fun name => ?_, ?_⟩
          · rw [h1 name, Spec.lastValue_cons]
            cases Spec.lastValue pf dyn (Spec.isNamedFor name) rest with
            | some w => rfl
            | none =>
              simp only [lookup_cons_pair, hval, Option.isSome_some, Bool.and_true, Spec.isNamedFor, hc]
              by_cases hn : n = name
              · subst hn; simp
              · have h1' : (n == name) = false := by simp [hn]
                have h2' : (name == n) = false := by simp [Ne.symm hn]
                simp [h1', h2']
          · rw [h2, Spec.lastValue_cons]
            cases Spec.lastValue pf dyn Spec.isUnnamed rest <;> simp [hun]
    | unnamed v =>
      rw [hc] at h
      simp only at h
      cases hm : makeTolerance pf dyn v with
      | none => rw [hm] at h; simp at h
      | some ov =>
        rw [hm] at h
        have hval : Spec.valueOf pf dyn s = ov := by
          simp [Spec.valueOf, Spec.tokValue, hc, hm]
        have hun : Spec.isUnnamed s = true := by simp [Spec.isUnnamed, hc]
        have hnm : ∀ name, Spec.isNamedFor name s = false := by intro name; simp [Spec.isNamedFor, hc]
        cases ov with
        | none =>
          simp only at h
          obtain ⟨h1, h2⟩ := ih _ _ _ _ h
          refine ⟨fun name => ?_, ?_⟩
          · rw [h1 name, Spec.lastValue_cons]
            cases Spec.lastValue pf dyn (Spec.isNamedFor name) rest <;> simp [hval]
          · rw [h2, Spec.lastValue_cons]
            cases Spec.lastValue pf dyn Spec.isUnnamed rest <;> simp [hval]
        | some t =>
          simp only at h
          obtain ⟨h1, h2⟩ := ih _ _ _ _ h
          refine ⟨fun name => ?_, ?_⟩
          · rw [h1 name, Spec.lastValue_cons]
            cases Spec.lastValue pf dyn (Spec.isNamedFor name) rest <;> simp [hnm name]
          · rw [h2, Spec.lastValue_cons]
            cases Spec.lastValue pf dyn Spec.isUnnamed rest with
            | some w => rfl
            | none => simp [hun, hval]

/-- the loop raises exactly when some argument is rejected -/
theorem parseLoop_raised (pf : String → FloatLit) (dyn : Bool) :
    ∀ (l : List String) (m : TolMap) (ex : Bool),
      parseLoop pf dyn l m ex = .raised ↔ ¬ (l.all fun s => (Spec.tokValue pf dyn s).isSome) = true := by
  intro l
  induction l with
  | nil => intro m ex; simp [parseLoop]
  | cons s rest ih =>
    intro m ex
    unfold parseLoop
    cases hc : classifyTok s with
    | malformed => simp [Spec.tokValue, hc]
    | named n v =>
      simp only
      cases hm : makeTolerance pf dyn v with
      | none => simp [Spec.tokValue, hc, hm]
      | some ov =>
        cases ov with
        | none => simp only; rw [ih]; simp [Spec.tokValue, hc, hm]
        | some t => simp only; rw [ih]; simp [Spec.tokValue, hc, hm]
    | unnamed v =>
      simp only
      cases hm : makeTolerance pf dyn v with
      | none => simp [Spec.tokValue, hc, hm]
      | some ov =>
        cases ov with
        | none => simp only; rw [ih]; simp [Spec.tokValue, hc, hm]
        | some t => simp only; rw [ih]; simp [Spec.tokValue, hc, hm]

/-- `FieldToleranceMap` built by `_parse_field_tolerances` answers with the tolerance the
    documentation promises: per-field ?? global ?? none -/
theorem parseTols_get (pf : String → FloatLit) (dyn : Bool) (toks : Option (List String)) (m : TolMap) (ex : Bool)
    (h : parseTols pf dyn toks = .ok m ex) (name : String) :
    m.get name = Spec.tolFor pf dyn toks name := by
  cases toks with
  | none =>
    simp only [parseTols, ParseRes.ok.injEq] at h
    obtain ⟨rfl, _⟩ := h
    simp [TolMap.get, TolMap.empty, Spec.tolFor]
  | some l =>
    simp only [parseTols] at h
    obtain ⟨h1, h2⟩ := parseLoop_spec pf dyn l _ _ _ _ h
    unfold TolMap.get Spec.tolFor
    rw [h1 name, h2]
    cases ha : Spec.lastValue pf dyn (Spec.isNamedFor name) l <;>
      cases hb : Spec.lastValue pf dyn Spec.isUnnamed l <;> simp [ha, hb, TolMap.empty]

theorem parseTols_raised (pf : String → FloatLit) (dyn : Bool) (toks : Option (List String)) :
    parseTols pf dyn toks = .raised ↔ Spec.tokensValid pf dyn toks = false := by
  cases toks with
  | none => simp [parseTols, Spec.tokensValid]
  | some l =>
    simp only [parseTols, Spec.tokensValid]
    rw [parseLoop_raised]
    simp

/-! ### `find_matches`: first match + removal = set-theoretic matching when names are unique -/

def fnames (l : List Field) : List String := l.map (·.name)

theorem removeFirst_none {α} (p : α → Bool) (l : List α) :
    removeFirst p l = none ↔ ∀ x ∈ l, p x = false := by
  induction l with
  | nil => simp [removeFirst]
  | cons x xs ih =>
    unfold removeFirst
    by_cases hp : p x = true
    · simp [hp]
    · have hp' : p x = false := by simpa using hp
      simp only [hp', Bool.false_eq_true, if_false, List.mem_cons, forall_eq_or_imp, true_and]
      cases h : removeFirst p xs with
      | none => simp only [true_iff]; exact ih.mp h
      | some yr =>
        simp only [false_iff, reduceCtorEq]
        intro hall
        have := ih.mpr hall
        rw [h] at this
        cases this

theorem removeFirst_some {α} (p : α → Bool) :
    ∀ (l : List α) (y : α) (r : List α), removeFirst p l = some (y, r) →
      p y = true ∧ (∀ x, x ∈ l ↔ x = y ∨ x ∈ r) ∧ l.length = r.length + 1 := by
  intro l
  induction l with
  | nil => intro y r h; simp [removeFirst] at h
  | cons x xs ih =>
    intro y r h
    unfold removeFirst at h
    by_cases hp : p x = true
    · simp only [hp, if_true, Option.some.injEq, Prod.mk.injEq] at h
      obtain ⟨rfl, rfl⟩ := h
      exact ⟨hp, fun z => by simp, rfl⟩
    · have hp' : p x = false := by simpa using hp
      simp only [hp', Bool.false_eq_true, if_false] at h
      cases hr : removeFirst p xs with
      | none => rw [hr] at h; simp at h
      | some yr =>
        obtain ⟨y', r'⟩ := yr
        rw [hr] at h
        simp only [Option.some.injEq, Prod.mk.injEq] at h
        obtain ⟨rfl, rfl⟩ := h
        obtain ⟨h1, h2, h3⟩ := ih _ _ hr
        refine ⟨h1, fun z => ?_, by simp [h3]⟩
        simp only [List.mem_cons, h2 z]
        constructor
        · rintro (h | h | h)
          · exact Or.inr (Or.inl h)
          · exact Or.inl h
          · exact Or.inr (Or.inr h)
        · rintro (h | h | h)
          · exact Or.inr (Or.inl h)
          · exact Or.inl h
          · exact Or.inr (Or.inr h)

theorem removeFirst_nodup (p : Field → Bool) :
    ∀ (l : List Field) (y : Field) (r : List Field), removeFirst p l = some (y, r) →
      (fnames l).Nodup → (fnames r).Nodup ∧ y.name ∉ fnames r := by
  intro l
  induction l with
  | nil => intro y r h; simp [removeFirst] at h
  | cons x xs ih =>
    intro y r h hn
    unfold removeFirst at h
    simp only [fnames, List.map_cons, List.nodup_cons] at hn
    by_cases hp : p x = true
    · simp only [hp, if_true, Option.some.injEq, Prod.mk.injEq] at h
      obtain ⟨rfl, rfl⟩ := h
      exact ⟨hn.2, hn.1⟩
    · have hp' : p x = false := by simpa using hp
      simp only [hp', Bool.false_eq_true, if_false] at h
      cases hr : removeFirst p xs with
      | none => rw [hr] at h; simp at h
      | some yr =>
        obtain ⟨y', r'⟩ := yr
        rw [hr] at h
        simp only [Option.some.injEq, Prod.mk.injEq] at h
        obtain ⟨rfl, rfl⟩ := h
        obtain ⟨h1, h2⟩ := ih _ _ hr hn.2
        obtain ⟨_, hmem, _⟩ := removeFirst_some p _ _ _ hr
        have hsub : ∀ n, n ∈ fnames r' → n ∈ fnames xs := by
          intro n hn'
          simp only [fnames, List.mem_map] at hn' ⊢
          obtain ⟨f, hf, rfl⟩ := hn'
          exact ⟨f, (hmem f).mpr (Or.inr hf), rfl⟩
        have hy' : y'.name ∈ fnames xs := by
          simp only [fnames, List.mem_map]
          exact ⟨y', (hmem y').mpr (Or.inl rfl), rfl⟩
        refine ⟨?_, ?_⟩
        · simp only [fnames, List.map_cons, List.nodup_cons]
          exact ⟨fun hx => hn.1 (hsub _ hx), h1⟩
        · simp only [fnames, List.map_cons, List.mem_cons, not_or]
          refine ⟨?_, h2⟩
          intro he
          exact hn.1 (he ▸ hy')

/-- elements of a list with duplicate-free names are determined by their name -/
theorem eq_of_name_eq {l : List Field} (hn : (fnames l).Nodup) {a b : Field}
    (ha : a ∈ l) (hb : b ∈ l) (h : a.name = b.name) : a = b := by
  induction l with
  | nil => cases ha
  | cons x xs ih =>
    simp only [fnames, List.map_cons, List.nodup_cons] at hn
    have hmem : ∀ c ∈ xs, c.name ∈ List.map (fun f => f.name) xs := fun c hc => List.mem_map.mpr ⟨c, hc, rfl⟩
    rcases List.mem_cons.mp ha with rfl | ha'
    · rcases List.mem_cons.mp hb with rfl | hb'
      · rfl
      · exact absurd (h ▸ hmem b hb') hn.1
    · rcases List.mem_cons.mp hb with rfl | hb'
      · exact absurd (h ▸ hmem a ha') hn.1
      · exact ih hn.2 ha' hb'

/-- counting law, no hypothesis: every source field is a match or a source orphan, every
    reference field a match or a reference orphan — each exactly once -/
theorem findMatches_length :
    ∀ (src ref : List Field),
      (findMatches src ref).1.length + (findMatches src ref).2.1.length = src.length ∧
      (findMatches src ref).1.length + (findMatches src ref).2.2.length = ref.length := by
  intro src
  induction src with
  | nil => intro ref; simp [findMatches]
  | cons s src ih =>
    intro ref
    unfold findMatches
    cases h : removeFirst (fun t => t.name == s.name) ref with
    | none =>
      obtain ⟨h1, h2⟩ := ih ref
      simp only [List.length_cons]
      omega
    | some tr =>
      obtain ⟨t, ref'⟩ := tr
      obtain ⟨h1, h2⟩ := ih ref'
      obtain ⟨_, _, hl⟩ := removeFirst_some _ _ _ _ h
      simp only [List.length_cons]
      omega

/-- with duplicate-free names on both sides the result of `find_matches` is the set-theoretic one -/
theorem findMatches_char :
    ∀ (src ref : List Field), (fnames src).Nodup → (fnames ref).Nodup →
      (∀ a b, (a, b) ∈ (findMatches src ref).1 ↔ a ∈ src ∧ b ∈ ref ∧ b.name = a.name) ∧
      (∀ a, a ∈ (findMatches src ref).2.1 ↔ a ∈ src ∧ ∀ b ∈ ref, b.name ≠ a.name) ∧
      (∀ b, b ∈ (findMatches src ref).2.2 ↔ b ∈ ref ∧ ∀ a ∈ src, a.name ≠ b.name) := by
  intro src
  induction src with
  | nil =>
    intro ref _ _
    simp [findMatches]
  | cons s src ih =>
    intro ref hs hr
    have hs' : s.name ∉ fnames src ∧ (fnames src).Nodup := by
      simpa [fnames, List.nodup_cons] using hs
    have hsne : ∀ a ∈ src, a.name ≠ s.name := by
      intro a ha he
      exact hs'.1 (he ▸ List.mem_map.mpr ⟨a, ha, rfl⟩)
    unfold findMatches
    cases h : removeFirst (fun t => t.name == s.name) ref with
    | none =>
      have hno : ∀ b ∈ ref, b.name ≠ s.name := by
        intro b hb
        have := (removeFirst_none _ _).mp h b hb
        simpa using this
      obtain ⟨i1, i2, i3⟩ := ih ref hs'.2 hr
      refine ⟨fun a b => ?_, fun a => ?_, fun b => ?_⟩
      · simp only [i1, List.mem_cons]
        constructor
        · rintro ⟨ha, hb, he⟩; exact ⟨Or.inr ha, hb, he⟩
        · rintro ⟨ha | ha, hb, he⟩
          · subst ha; exact absurd he (hno b hb)
          · exact ⟨ha, hb, he⟩
      · simp only [List.mem_cons, i2]
        constructor
        · rintro (rfl | ⟨ha, hb⟩)
          · exact ⟨Or.inl rfl, hno⟩
          · exact ⟨Or.inr ha, hb⟩
        · rintro ⟨rfl | ha, hb⟩
          · exact Or.inl rfl
          · exact Or.inr ⟨ha, hb⟩
      · simp only [i3, List.mem_cons, forall_eq_or_imp]
        constructor
        · rintro ⟨hb, hall⟩; exact ⟨hb, fun he => hno b hb he.symm, hall⟩
        · rintro ⟨hb, _, hall⟩; exact ⟨hb, hall⟩
    | some tr =>
      obtain ⟨t, ref'⟩ := tr
      obtain ⟨hpt, hmem, _⟩ := removeFirst_some _ _ _ _ h
      have hts : t.name = s.name := by simpa using hpt
      obtain ⟨hr', htn⟩ := removeFirst_nodup _ _ _ _ h hr
      have htref : t ∈ ref := (hmem t).mpr (Or.inl rfl)
      have hne' : ∀ b ∈ ref', b.name ≠ s.name := by
        intro b hb he
        exact htn (hts ▸ he ▸ List.mem_map.mpr ⟨b, hb, rfl⟩)
      obtain ⟨i1, i2, i3⟩ := ih ref' hs'.2 hr'
      refine ⟨fun a b => ?_, fun a => ?_, fun b => ?_⟩
      · simp only [List.mem_cons, Prod.mk.injEq, i1]
        constructor
        · rintro (⟨rfl, rfl⟩ | ⟨ha, hb, he⟩)
          · exact ⟨Or.inl rfl, htref, hts⟩
          · exact ⟨Or.inr ha, (hmem b).mpr (Or.inr hb), he⟩
        · rintro ⟨ha | ha, hb, he⟩
          · subst ha
            left
            exact ⟨rfl, eq_of_name_eq hr hb htref (he.trans hts.symm)⟩
          · right
            refine ⟨ha, ?_, he⟩
            rcases (hmem b).mp hb with rfl | hb'
            · exact absurd (he.symm.trans hts) (hsne a ha)
            · exact hb'
      · simp only [i2, List.mem_cons]
        constructor
        · rintro ⟨ha, hall⟩
          refine ⟨Or.inr ha, fun b hb => ?_⟩
          rcases (hmem b).mp hb with rfl | hb'
          · intro he; exact hsne a ha (he.symm.trans hts)
          · exact hall b hb'
        · rintro ⟨ha | ha, hall⟩
          · subst ha; exact absurd hts (hall t htref)
          · exact ⟨ha, fun b hb => hall b ((hmem b).mpr (Or.inr hb))⟩
      · simp only [i3, List.mem_cons, forall_eq_or_imp]
        constructor
        · rintro ⟨hb, hall⟩
          exact ⟨(hmem b).mpr (Or.inr hb), fun he => hne' b hb he.symm, hall⟩
        · rintro ⟨hb, hsb, hall⟩
          refine ⟨?_, hall⟩
          rcases (hmem b).mp hb with rfl | hb'
          · exact absurd hts.symm hsb
          · exact hb'

/-! ### suites -/

theorem all_const_iff {α} (l : List α) (a : Bool) : (l.all fun _ => a) = true ↔ l = [] ∨ a = true := by
  cases l with
  | nil => simp
  | cons x xs =>
    cases a with
    | true => simp
    | false => simp

theorem toTestSuite_bool (o : Opts) (cs : List (String × FcStatus)) :
    (toTestSuite o cs).bool = cs.all fun c => suiteIsTrue (parseStatus o.ignSrc o.ignRef c.2) := by
  simp [toTestSuite, Suite.bool, List.all_map, Function.comp_def]

/-- verdict of the suite built from the comparisons of one pair of data sets -/
theorem compareFields_bool (o : Opts) (src ref : List Field) :
    (toTestSuite o (compareFields o src ref)).bool = true ↔
      (∀ m ∈ (findMatches src ref).1, o.selected m.1.name = true → fieldStatus o m.1 m.2 = .passed) ∧
      ((findMatches src ref).2.2 = [] ∨ o.ignSrc = true) ∧
      ((findMatches src ref).2.1 = [] ∨ o.ignRef = true) := by
  rw [toTestSuite_bool]
  unfold compareFields
  simp only [List.all_append, List.all_map, Function.comp_def, Bool.and_eq_true]
  have h4 : ((List.filter (fun m => !o.selected m.1.name) (findMatches src ref).1).all
      fun x => suiteIsTrue (parseStatus o.ignSrc o.ignRef FcStatus.filtered)) = true := by
    simp [suiteIsTrue_filtered]
  have h2 : (((findMatches src ref).2.2).all fun x => suiteIsTrue (parseStatus o.ignSrc o.ignRef FcStatus.missingSource)) = true
      ↔ ((findMatches src ref).2.2 = [] ∨ o.ignSrc = true) := by
    rw [suiteIsTrue_missingSource]; exact all_const_iff _ _
  have h3 : (((findMatches src ref).2.1).all fun x => suiteIsTrue (parseStatus o.ignSrc o.ignRef FcStatus.missingReference)) = true
      ↔ ((findMatches src ref).2.1 = [] ∨ o.ignRef = true) := by
    rw [suiteIsTrue_missingReference]; exact all_const_iff _ _
  have h1 : ((List.filter (fun m => o.selected m.1.name) (findMatches src ref).1).all
      fun x => suiteIsTrue (parseStatus o.ignSrc o.ignRef (fieldStatus o x.1 x.2))) = true ↔
      (∀ m ∈ (findMatches src ref).1, o.selected m.1.name = true → fieldStatus o m.1 m.2 = .passed) := by
    simp only [List.all_eq_true, List.mem_filter, and_imp]
    constructor
    · intro h m hm hs
      have := h m hm hs
      unfold fieldStatus fieldVerdict at this ⊢
      exact (suiteIsTrue_parse_verdict _ _ _).mp this
    · intro h m hm hs
      have := h m hm hs
      unfold fieldStatus fieldVerdict at this ⊢
      exact (suiteIsTrue_parse_verdict _ _ _).mpr this
  rw [h1, h2, h3]
  simp only [h4, and_true]
  exact and_assoc

/-- `TestSuite.status` is falsy exactly when the suite is -/
theorem suiteIsTrue_statusProp (s : Suite) : suiteIsTrue s.statusProp = s.bool := by
  unfold Suite.statusProp
  cases hs : s.status with
  | some st => simp [Suite.bool, hs]
  | none =>
    simp only
    cases hb : s.bool with
    | true => simp; decide
    | false => simp; decide

/-- invariant of every suite the comparison produces: a passing suite has no failing test -/
def Suite.testsOk (s : Suite) : Prop := s.bool = true → (s.tests.all fun t => suiteIsTrue t.status) = true

theorem testsOk_none (ts : List Test) : Suite.testsOk ⟨ts, none⟩ := by
  intro h; simpa [Suite.bool] using h

theorem testsOk_nil (st : Option TestStatus) : Suite.testsOk ⟨[], st⟩ := by
  intro _; simp

theorem mergedResult_true (r1 r2 : TestStatus) :
    (match mergedResult r1 r2 with
     | some st => suiteIsTrue st
     | none => true) = (suiteIsTrue r1 && suiteIsTrue r2) := by
  cases r1 <;> cases r2 <;> decide

theorem mergedResult_none (r1 r2 : TestStatus) (h : mergedResult r1 r2 = none) :
    suiteIsTrue r1 = true ∧ suiteIsTrue r2 = true := by
  cases r1 <;> cases r2 <;> revert h <;> decide

/-- `_merge_test_suites` is a conjunction (for suites satisfying the invariant) and keeps the invariant -/
theorem mergeSuites_bool (a b : Suite) (ha : a.testsOk) (hb : b.testsOk) :
    (mergeSuites a b).bool = (a.bool && b.bool) ∧ (mergeSuites a b).testsOk := by
  have key : (mergeSuites a b).bool = (a.bool && b.bool) := by
    have e : (mergeSuites a b).bool =
        match mergedResult a.statusProp b.statusProp with
        | some st => suiteIsTrue st
        | none => (a.tests ++ b.tests).all fun t => suiteIsTrue t.status := rfl
    rw [e]
    cases hm : mergedResult a.statusProp b.statusProp with
    | some st =>
      have := mergedResult_true a.statusProp b.statusProp
      rw [hm] at this
      simp only at this
      simp only
      rw [this, suiteIsTrue_statusProp, suiteIsTrue_statusProp]
    | none =>
      obtain ⟨h1, h2⟩ := mergedResult_none _ _ hm
      rw [suiteIsTrue_statusProp] at h1 h2
      have t1 := ha h1
      have t2 := hb h2
      simp only [List.all_append, t1, t2, Bool.and_self]
      rw [h1, h2]; rfl
  refine ⟨key, ?_⟩
  intro h
  rw [key] at h
  simp only [Bool.and_eq_true] at h
  simp only [mergeSuites, List.all_append, Bool.and_eq_true]
  exact ⟨ha h.1, hb h.2⟩

/-! ### from the options object to the documented tolerances -/

/-- what the options object built by `_run` contains, in terms of the command line -/
structure OptsOf (pf : String → FloatLit) (s : Scenario) (o : Opts) : Prop where
  ignSrc : o.ignSrc = s.ignSrc
  ignRef : o.ignRef = s.ignRef
  ignSeq : o.ignSeq = s.ignSeq
  forceSeq : o.forceSeq = s.forceSeq
  disableReorder : o.disableReorder = s.disableReorder
  incl : o.incl = s.incl
  excl : o.excl = s.excl
  rtol : ∀ n, o.rtol.get n = Spec.tolFor pf false s.rtolToks n
  atol : ∀ n, o.atol.get n = Spec.tolFor pf true s.atolToks n

theorem mkOpts_some (pf : String → FloatLit) (s : Scenario) (o : Opts) (h : mkOpts pf s = some o) :
    OptsOf pf s o := by
  unfold mkOpts at h
  cases hr : parseTols pf false s.rtolToks with
  | raised => rw [hr] at h; simp at h
  | ok r er =>
    cases ha : parseTols pf true s.atolToks with
    | raised => rw [hr, ha] at h; simp at h
    | ok a ea =>
      rw [hr, ha] at h
      simp only [Option.some.injEq] at h
      subst h
      exact ⟨rfl, rfl, rfl, rfl, rfl, rfl, rfl, parseTols_get pf false _ _ _ hr, parseTols_get pf true _ _ _ ha⟩

theorem mkOpts_none (pf : String → FloatLit) (s : Scenario) :
    mkOpts pf s = none ↔
      (Spec.tokensValid pf false s.rtolToks && Spec.tokensValid pf true s.atolToks) = false := by
  unfold mkOpts
  cases hr : parseTols pf false s.rtolToks with
  | raised =>
    have := (parseTols_raised pf false s.rtolToks).mp hr
    simp [this]
  | ok r er =>
    have h1 : Spec.tokensValid pf false s.rtolToks = true := by
      cases hv : Spec.tokensValid pf false s.rtolToks with
      | true => rfl
      | false => have := (parseTols_raised pf false s.rtolToks).mpr hv; rw [hr] at this; cases this
    cases ha : parseTols pf true s.atolToks with
    | raised =>
      have := (parseTols_raised pf true s.atolToks).mp ha
      simp [this]
    | ok a ea =>
      have h2 : Spec.tokensValid pf true s.atolToks = true := by
        cases hv : Spec.tokensValid pf true s.atolToks with
        | true => rfl
        | false => have := (parseTols_raised pf true s.atolToks).mpr hv; rw [ha] at this; cases this
      simp [h1, h2]

theorem selected_eq {pf : String → FloatLit} {s : Scenario} {o : Opts} (h : OptsOf pf s o) (n : String) :
    o.selected n = Spec.selected s n := by
  simp only [Opts.selected, Opts.included, Opts.excluded, Spec.selected, h.incl, h.excl]
  cases s.incl <;> cases s.excl <;> rfl

theorem fieldStatus_passed_iff {pf : String → FloatLit} {s : Scenario} {o : Opts} (h : OptsOf pf s o) (a b : Field) :
    fieldStatus o a b = .passed ↔ Spec.fieldOk pf s a b = true := by
  simp [fieldStatus, Spec.fieldOk, h.rtol, h.atol]

def CmpRes.passes : CmpRes → Bool
  | .suite su => su.bool
  | .exc => false

/-- Prop reading of the spec for one pair of data sets -/
theorem pairOk_iff (pf : String → FloatLit) (s : Scenario) (p : PairData) :
    Spec.pairOk pf s p = true ↔
      Spec.domainsEqual pf s p.dom = true ∧
      (∀ a ∈ p.res, ∀ b ∈ p.ref, b.name = a.name → Spec.selected s a.name = true → Spec.fieldOk pf s a b = true) ∧
      ((∀ b ∈ p.ref, ∃ a ∈ p.res, a.name = b.name) ∨ s.ignSrc = true) ∧
      ((∀ a ∈ p.res, ∃ b ∈ p.ref, b.name = a.name) ∨ s.ignRef = true) := by
  unfold Spec.pairOk
  simp only [Bool.and_eq_true, Bool.or_eq_true, List.all_eq_true, List.any_eq_true, beq_iff_eq,
    bne_iff_ne, ne_eq, Bool.not_eq_true']
  constructor
  · rintro ⟨⟨⟨hd, hf⟩, hs⟩, hr⟩
    refine ⟨hd, ?_, hs, hr⟩
    intro a ha b hb he hsel
    rcases hf a ha b hb with (h | h) | h
    · exact absurd he.symm h
    · rw [hsel] at h; cases h
    · exact h
  · rintro ⟨hd, hf, hs, hr⟩
    refine ⟨⟨⟨hd, ?_⟩, hs⟩, hr⟩
    intro a ha b hb
    by_cases he : a.name = b.name
    · cases hsel : Spec.selected s a.name with
      | false => exact Or.inl (Or.inr rfl)
      | true => exact Or.inr (hf a ha b hb he.symm hsel)
    · exact Or.inl (Or.inl he)

theorem compareFields_pass {pf : String → FloatLit} {s : Scenario} {o : Opts} (h : OptsOf pf s o)
    (src ref : List Field) (hs : (fnames src).Nodup) (hr : (fnames ref).Nodup) :
    (toTestSuite o (compareFields o src ref)).bool = true ↔
      (∀ a ∈ src, ∀ b ∈ ref, b.name = a.name → Spec.selected s a.name = true → Spec.fieldOk pf s a b = true) ∧
      ((∀ b ∈ ref, ∃ a ∈ src, a.name = b.name) ∨ s.ignSrc = true) ∧
      ((∀ a ∈ src, ∃ b ∈ ref, b.name = a.name) ∨ s.ignRef = true) := by
  rw [compareFields_bool]
  obtain ⟨i1, i2, i3⟩ := findMatches_char src ref hs hr
  have e1 : (∀ m ∈ (findMatches src ref).1, o.selected m.1.name = true → fieldStatus o m.1 m.2 = .passed) ↔
      (∀ a ∈ src, ∀ b ∈ ref, b.name = a.name → Spec.selected s a.name = true → Spec.fieldOk pf s a b = true) := by
    constructor
    · intro hm a ha b hb he hsel
      have := hm (a, b) ((i1 a b).mpr ⟨ha, hb, he⟩) (by rw [selected_eq h]; exact hsel)
      exact (fieldStatus_passed_iff h a b).mp this
    · intro hm m hmem hsel
      obtain ⟨a, b⟩ := m
      obtain ⟨ha, hb, he⟩ := (i1 a b).mp hmem
      exact (fieldStatus_passed_iff h a b).mpr (hm a ha b hb he (by rw [← selected_eq h]; exact hsel))
  have e2 : (findMatches src ref).2.2 = [] ↔ (∀ b ∈ ref, ∃ a ∈ src, a.name = b.name) := by
    rw [List.eq_nil_iff_forall_not_mem]
    constructor
    · intro hm b hb
      have := hm b
      rw [i3] at this
      exact Classical.byContradiction fun hne => this ⟨hb, fun a ha he => hne ⟨a, ha, he⟩⟩
    · intro hm b hb
      obtain ⟨hb', hall⟩ := (i3 b).mp hb
      obtain ⟨a, ha, he⟩ := hm b hb'
      exact hall a ha he
  have e3 : (findMatches src ref).2.1 = [] ↔ (∀ a ∈ src, ∃ b ∈ ref, b.name = a.name) := by
    rw [List.eq_nil_iff_forall_not_mem]
    constructor
    · intro hm a ha
      have := hm a
      rw [i2] at this
      exact Classical.byContradiction fun hne => this ⟨ha, fun b hb he => hne ⟨b, hb, he⟩⟩
    · intro hm a ha
      obtain ⟨ha', hall⟩ := (i2 a).mp ha
      obtain ⟨b, hb, he⟩ := hm a ha'
      exact hall b hb he
  rw [e1, e2, e3, h.ignSrc, h.ignRef]

/-- one pair of data sets: the comparison passes exactly when the spec says so -/
theorem compareFieldData_passes {pf : String → FloatLit} {s : Scenario} {o : Opts} (h : OptsOf pf s o)
    (p : PairData) (hs : (fnames p.res).Nodup) (hr : (fnames p.ref).Nodup) :
    (compareFieldData o p).passes = Spec.pairOk pf s p := by
  rw [Bool.eq_iff_iff, pairOk_iff]
  unfold compareFieldData
  cases hd : p.dom with
  | mixedKinds => simp [CmpRes.passes, Spec.domainsEqual]
  | tables n m =>
    simp only [Spec.domainsEqual, beq_iff_eq]
    by_cases hnm : n = m
    · simp only [hnm, if_true, CmpRes.passes, true_and]
      exact compareFields_pass h p.res p.ref hs hr
    · simp [hnm, CmpRes.passes, Suite.bool]; decide
  | meshes pr pq topo stor ms =>
    simp only [Spec.domainsEqual]
    rw [h.disableReorder, h.rtol, h.atol]
    cases hm : meshDomainEq s.disableReorder (Spec.tolFor pf false s.rtolToks domainKey)
        (Spec.tolFor pf true s.atolToks domainKey) pr pq topo stor with
    | true =>
      simp only [if_true, CmpRes.passes, true_and]
      exact compareFields_pass h p.res p.ref hs hr
    | false => simp [CmpRes.passes, Suite.bool]; decide

theorem compareFieldData_testsOk (o : Opts) (p : PairData) (su : Suite)
    (h : compareFieldData o p = .suite su) : su.testsOk := by
  unfold compareFieldData at h
  cases hd : p.dom with
  | mixedKinds => rw [hd] at h; simp at h
  | tables n m =>
    rw [hd] at h
    simp only at h
    split at h <;> simp only [CmpRes.suite.injEq] at h <;> subst h
    · exact testsOk_none _
    · exact testsOk_nil _
  | meshes pr pq topo stor ms =>
    rw [hd] at h
    simp only at h
    split at h <;> simp only [CmpRes.suite.injEq] at h <;> subst h
    · exact testsOk_none _
    · exact testsOk_nil _

/-- the loop over the steps of two sequences is the conjunction of the step verdicts -/
theorem seqLoop_passes (o : Opts) (ok : PairData → Bool) :
    ∀ (ps : List PairData) (acc : Suite), acc.testsOk →
      (∀ p ∈ ps, (compareFieldData o p).passes = ok p) →
      (seqLoop o ps acc).passes = (acc.bool && ps.all ok) ∧
      (∀ su, seqLoop o ps acc = .suite su → su.testsOk) := by
  intro ps
  induction ps with
  | nil =>
    intro acc hacc _
    simp only [seqLoop, CmpRes.passes, List.all_nil, Bool.and_true, true_and]
    intro su h
    simp only [CmpRes.suite.injEq] at h
    subst h; exact hacc
  | cons p ps ih =>
    intro acc hacc hok
    have hp := hok p (by simp)
    unfold seqLoop
    cases hc : compareFieldData o p with
    | exc =>
      rw [hc] at hp
      simp only [CmpRes.passes] at hp
      simp [CmpRes.passes, ← hp]
    | suite su =>
      rw [hc] at hp
      simp only [CmpRes.passes] at hp
      have hsu := compareFieldData_testsOk o p su hc
      obtain ⟨hb, hinv⟩ := mergeSuites_bool acc su hacc hsu
      obtain ⟨h1, h2⟩ := ih (mergeSuites acc su) hinv (fun q hq => hok q (by simp [hq]))
      simp only
      refine ⟨?_, h2⟩
      rw [h1, hb, hp, List.all_cons, Bool.and_assoc]

/-! ### the hypothesis of the C04 theorems -/

/-- the pairs of data sets a scenario compares -/
def Scenario.pairs (s : Scenario) : List PairData :=
  match s.payload with
  | .single p => [p]
  | .seqs _ _ steps => steps
  | .mixed => []

/-- hypothesis of the C04 theorems: within each data set the field names are pairwise different
    (true for every file the readers produce: tables and mesh files are keyed by name) -/
def Scenario.NamesNodup (s : Scenario) : Prop :=
  ∀ p ∈ s.pairs, (fnames p.res).Nodup ∧ (fnames p.ref).Nodup

end Fc.C04
