/-
  Lemmas.C13Roundtrip — composition: under `Spec.hyp` and `Spec.sizeOk` the writer produces a file and the reader
  maps that file to `Spec.normalise`.
-/
import FcProofs.Lemmas.C13CellField
namespace Fc.W
open Fc.W.Spec

/-! ### record plumbing -/

theorem writeVtu_of (F : WFields) (pd cd : List DataArr) (pts conn offs types : DataArr) (tys : List Nat)
    (h1 : mapM' (fun (f : String × WArr) => makeDataArray f.1 f.2 none) F.pf = some pd)
    (h2 : mapM' (cellDataArray F) (dedup (F.cf.map (·.1))) = some cd)
    (h3 : makeDataArray "Coordinates" (pointArray id F) none = some pts)
    (h4 : cellsArray (!(allCells F.cells).isEmpty) "connectivity" F.conntype ((allCells F.cells).flatMap (·.2)) = some conn)
    (h5 : cellsArray (!(allCells F.cells).isEmpty) "offsets" "int64"
            (runningSums 0 ((allCells F.cells).map (·.2.length))) = some offs)
    (h6 : mapM' (fun (c : String × List Nat) => cellTypeIndex c.1) (allCells F.cells) = some tys)
    (h7 : cellsArray (!(allCells F.cells).isEmpty) "types" "int64" tys = some types) :
    writeVtu id F = some ⟨F.points.length, (F.cells.map (·.2.length)).foldr (· + ·) 0, pd, cd, pts, conn, offs, types⟩ := by
  unfold writeVtu
  simp only [h1, h2, h3, h4, h5, h6, h7]

theorem readVtu_of (f : VtuFile) (pdt d1 d2 d3 : String) (pts conn offs types : List Nat)
    (cells : List (String × List (List Nat))) (pf : List RField) (cf : List RCellField)
    (h1 : readItems f.points = some (pdt, pts)) (h2 : readItems f.conn = some (d1, conn))
    (h3 : readItems f.offsets = some (d2, offs)) (h4 : readItems f.types = some (d3, types))
    (hp : pts.length = f.numPoints * 3) (ho : offs.length = f.numCells) (ht : types.length = f.numCells)
    (hc : mapM' (readCellBlock conn offs types) (uniqueTypes types) = some cells)
    (hpf : mapM' (readPointField (pts.length / 3)) f.pointData = some pf)
    (hcf : mapM' (readCellField types (uniqueTypes types) ((cells.map (·.2.length)).foldr (· + ·) 0)) f.cellData
            = some cf) :
    readVtu f = some ⟨pdt, pts, cells, pf, cf⟩ := by
  have hpf' := hpf
  rw [hp] at hpf'
  unfold readVtu
  simp only [h1, h2, h3, h4, hp, ho, ht, ne_eq, not_true_eq_false, if_false, hc, hpf', hcf]

theorem normalise_of (F : WFields) (blocks : List (Nat × String × List (List Nat))) (cf : List RCellField)
    (hb : typedBlocks F = some blocks)
    (hcf : mapM' (normCellField F blocks) (dedup (F.cf.map (·.1))) = some cf) :
    normalise F = some ⟨if F.dim = 3 then F.ptype else "float64", (F.points.map (make3d id)).flatMap id,
            blocks.map fun b => (b.2.1, b.2.2),
            F.pf.map fun f => RField.mk f.1 f.2.dt (prod f.2.tail) f.2.items, cf⟩ := by
  unfold normalise
  simp only [hb, hcf]

theorem mapM'_congr_rel {α β γ} (R : α → β → Prop) (g : β → Option γ) (h : α → Option γ) :
    ∀ (l : List α) (ys : List β), AllRel R l ys → (∀ x ∈ l, ∀ y, R x y → g y = h x) → mapM' g ys = mapM' h l
  | _, _, AllRel.nil, _ => rfl
  | x :: l, y :: ys, AllRel.cons hR hRs, hg => by
    unfold mapM'
    rw [hg x (by simp) y hR, mapM'_congr_rel R g h l ys hRs (fun z hz => hg z (by simp [hz]))]

/-! ### single elements -/

theorem rowsOf_mul (K n : Nat) (items : List Nat) (hK : 1 ≤ K) (hl : items.length = n * K) :
    rowsOf K items = some n := by
  unfold rowsOf
  by_cases h : K ≤ 1
  · have : K = 1 := by omega
    subst this
    simp [hl]
  · simp only [h, if_false, hl, Nat.mul_mod_left, if_true]
    rw [Nat.mul_div_cancel _ (by omega)]

theorem readPointField_ok (np : Nat) (f : String × WArr) (e : DataArr)
    (hr : readItems e = some (f.2.dt, f.2.items)) (hn : e.name = f.1) (hc : e.ncomps = prod f.2.tail)
    (hwf : f.2.wf = true) (hrows : f.2.rows = np) (hK : 1 ≤ prod f.2.tail) :
    readPointField np e = some (RField.mk f.1 f.2.dt (prod f.2.tail) f.2.items) := by
  unfold readPointField
  rw [hr]
  simp only
  rw [hc, rowsOf_mul _ np _ hK (by rw [((wf_iff _).mp hwf).2.1, hrows])]
  simp only [ne_eq, not_true_eq_false, if_false, hn]

theorem ids_distinct (F : WFields) (hF : Facts F) : (F.cells.map fun b => ixOf b.1).Pairwise (· ≠ ·) := by
  rw [List.pairwise_map]
  have := hF.cnames
  rw [List.pairwise_map] at this
  apply List.Pairwise.imp_of_mem _ this
  intro a b ha hb hne e
  exact hne (ixOf_inj a.1 b.1 (hF.cidx a ha) (hF.cidx b hb) e)

/-- the cells of the read mesh: the non-empty blocks in ascending id order -/
theorem readCells_ok (F : WFields) (hF : Facts F) :
    mapM' (readCellBlock ((allCells F.cells).flatMap (·.2)) (runningSums 0 ((allCells F.cells).map (·.2.length)))
        (typesOf ixOf F.cells)) (uniqueTypes (typesOf ixOf F.cells))
      = some ((sortByIdx (keyed ixOf F.cells)).map fun sb => (sb.2.1, sb.2.2)) := by
  apply assemble ixOf F.cells (ids_distinct F hF) _ (fun b => b)
  intro b hb hne
  obtain ⟨k, hk⟩ := hF.cunif b hb
  unfold readCellBlock
  rw [cellTypeName_ixOf b.1 (hF.cidx b hb), cornersOf_block ixOf F.cells b hb (ids_distinct F hF) k hk hne]

/-- one cell-data element of the file, read back = the spec's entry for that name -/
theorem readCellField_ok (F : WFields) (hF : Facts F) (n : String) (e : DataArr) (f0 : String × String × WArr)
    (hf0 : F.cf.find? (·.1 == n) = some f0) (hK : 1 ≤ prod f0.2.2.tail)
    (hlen : ∀ b ∈ F.cells, (valsOf F n b).length = b.2.length * prod f0.2.2.tail)
    (hr : readItems e = some (f0.2.2.dt, F.cells.flatMap (valsOf F n))) (hn : e.name = n)
    (hc : e.ncomps = prod f0.2.2.tail) :
    readCellField (typesOf ixOf F.cells) (uniqueTypes (typesOf ixOf F.cells))
        ((((sortByIdx (keyed ixOf F.cells)).map fun sb => ((sb.2.1, sb.2.2) : Block)).map (·.2.length)).foldr (· + ·) 0) e
      = normCellField F (sortByIdx (keyed ixOf F.cells)) n := by
  have hd := ids_distinct F hF
  have hk : (if prod f0.2.2.tail ≤ 1 then 1 else prod f0.2.2.tail) = prod f0.2.2.tail := by split <;> omega
  have hper : mapM' (fun t => (cellTypeName t).map fun nm =>
        (nm, gatherRows (prod f0.2.2.tail) (F.cells.flatMap (valsOf F n)) (typeIndices (typesOf ixOf F.cells) t)))
      (uniqueTypes (typesOf ixOf F.cells))
      = some ((sortByIdx (keyed ixOf F.cells)).map fun sb => (sb.2.1, valsOf F n (sb.2.1, sb.2.2))) := by
    apply assemble ixOf F.cells hd _ (fun b => (b.1, valsOf F n b))
    intro b hb _
    rw [cellTypeName_ixOf b.1 (hF.cidx b hb), gather_cells ixOf F.cells (valsOf F n) _ b hb hd hlen]
    rfl
  have hsum : (((sortByIdx (keyed ixOf F.cells)).map fun sb => (sb.2.1, valsOf F n (sb.2.1, sb.2.2))).map
        fun p => p.2.length / prod f0.2.2.tail)
      = ((sortByIdx (keyed ixOf F.cells)).map fun sb => ((sb.2.1, sb.2.2) : Block)).map (·.2.length) := by
    rw [List.map_map, List.map_map]
    apply List.map_congr_left
    intro sb hsb
    obtain ⟨b, hb, _, e⟩ := (mem_keyed ixOf F.cells sb).mp ((mem_sortByIdx _ sb).mp hsb)
    subst e
    show (valsOf F n (b.1, b.2)).length / prod f0.2.2.tail = b.2.length
    rw [hlen b hb, Nat.mul_div_cancel _ (by omega)]
  unfold readCellField normCellField
  rw [hr, hf0]
  simp only
  rw [hc, rowsOf_mul _ (sumL (F.cells.map (·.2.length))) _ hK
    (flatMap_vals_length F.cells (·.2.length) (valsOf F n) _ hlen)]
  simp only [hk, hper, hsum, ne_eq, not_true_eq_false, if_false, hn]
  rfl

theorem make3d_length (p : List Nat) : (make3d id p).length = 3 := by
  unfold make3d
  by_cases h : p.length = 3
  · simp [h]
  · simp only [h, if_false, List.length_take, List.length_append, List.length_map, List.length_cons, List.length_nil]
    omega

theorem mem_make3d (p : List Nat) (c : Nat) (h : c ∈ make3d id p) : c ∈ p ∨ c = 0 := by
  unfold make3d at h
  by_cases h3 : p.length = 3
  · simp only [h3, if_true] at h; exact Or.inl h
  · simp only [h3, if_false] at h
    have := List.mem_of_mem_take h
    simp only [List.map_id_fun, id, List.mem_append, List.mem_cons, List.not_mem_nil, or_false, or_self] at this
    exact this

theorem flatMap_id_length3 (l : List (List Nat)) (h : ∀ p ∈ l, p.length = 3) : (l.flatMap id).length = l.length * 3 := by
  induction l with
  | nil => rfl
  | cons p r ih =>
    simp only [List.flatMap_cons, id, List.length_append, List.length_cons, h p (by simp),
      ih (fun q hq => h q (by simp [hq]))]
    omega

/-- the `Coordinates` array of a non-empty point set -/
theorem pointArray_ok (F : WFields) (hF : Facts F) (hS : Sizes F) :
    pointArray id F = ⟨if F.dim = 3 then F.ptype else "float64", (F.points.map (make3d id)).length, [3],
        (F.points.map (make3d id)).flatMap id⟩ ∧
    ArrOk (pointArray id F) ∧ (pointArray id F).rows ≠ 0 ∧
    ((F.points.map (make3d id)).flatMap id).length = F.points.length * 3 := by
  have hne : F.points.isEmpty = false := by
    cases h : F.points with
    | nil => exact absurd h hF.ptsne
    | cons _ _ => rfl
  have hpa : pointArray id F = ⟨if F.dim = 3 then F.ptype else "float64", (F.points.map (make3d id)).length, [3],
        (F.points.map (make3d id)).flatMap id⟩ := by
    unfold pointArray
    simp only [hne, Bool.false_eq_true, if_false]
  have hlen : ((F.points.map (make3d id)).flatMap id).length = F.points.length * 3 := by
    rw [flatMap_id_length3 _ (by
      intro p hp; obtain ⟨q, _, e⟩ := List.mem_map.mp hp; subst e; exact make3d_length q), List.length_map]
  refine ⟨hpa, ?_, ?_, hlen⟩
  · rw [hpa]
    apply ArrOk.of_wf
    · rw [wf_iff]
      refine ⟨?_, ?_, ?_⟩
      · show dtypeSize (if F.dim = 3 then F.ptype else "float64") ≠ 0
        rcases hF.ptype with h | ⟨_, h⟩ <;> (rw [h]; split <;> decide)
      · show ((F.points.map (make3d id)).flatMap id).length = (F.points.map (make3d id)).length * prod [3]
        rw [hlen, List.length_map]; rfl
      · intro x hx
        show x < 256 ^ dtypeSize (if F.dim = 3 then F.ptype else "float64")
        obtain ⟨p3, hp3, hx3⟩ := List.mem_flatMap.mp hx
        obtain ⟨p, hp, e⟩ := List.mem_map.mp hp3
        subst e
        simp only [id] at hx3
        by_cases hd : F.dim = 3
        · simp only [hd, if_true]
          have h3 : p.length = 3 := by rw [hF.ptlen p hp, hd]
          unfold make3d at hx3
          simp only [h3, if_true] at hx3
          exact hF.ptsz p hp x hx3
        · simp only [hd, if_false]
          rcases mem_make3d p x hx3 with h | h
          · exact hF.pt8 p hp x h
          · rw [h]; decide
    · show ((F.points.map (make3d id)).flatMap id).length * 8 < 256 ^ 8
      rw [hlen]; have := hS.pts; omega
  · rw [hpa]
    show (F.points.map (make3d id)).length ≠ 0
    rw [List.length_map]
    intro h; exact hF.ptsne (List.eq_nil_of_length_eq_zero h)

/-- one of the three `Cells` arrays, written and read back (the dtype is not used by the reader) -/
theorem cellsArray_ok (hasCells : Bool) (name dt : String) (items : List Nat)
    (hok : ArrOk ⟨dt, items.length, [], items⟩) (hemp : hasCells = false → items = []) :
    ∃ e d, cellsArray hasCells name dt items = some e ∧ readItems e = some (d, items) := by
  unfold cellsArray
  cases hasCells with
  | true =>
    simp only [if_true]
    obtain ⟨e, he⟩ := hok.write name (some 1) (by intro h; cases h)
    exact ⟨e, dt, he, (hok.read name (some 1) e (by intro k hk; cases hk; rfl) he).1⟩
  | false =>
    simp only [Bool.false_eq_true, if_false]
    have hok' : ArrOk ⟨"uint64", 0, [], []⟩ := ⟨by decide, by decide, by decide⟩
    obtain ⟨e, he⟩ := hok'.write name (some 1) (by intro h; cases h)
    refine ⟨e, "uint64", he, ?_⟩
    rw [hemp rfl]
    exact (hok'.read name (some 1) e (by intro k hk; cases hk; rfl) he).1

theorem runningSums_length : ∀ (acc : Nat) (l : List Nat), (runningSums acc l).length = l.length
  | _, [] => rfl
  | acc, x :: r => by simp only [runningSums, List.length_cons, runningSums_length (acc + x) r]

theorem runningSums_le : ∀ (acc : Nat) (l : List Nat), ∀ x ∈ runningSums acc l, x ≤ acc + sumL l
  | _, [], x, h => by cases h
  | acc, y :: r, x, h => by
    simp only [runningSums, List.mem_cons] at h
    rw [sumL_cons]
    rcases h with e | h'
    · omega
    · have := runningSums_le (acc + y) r x h'; omega

theorem corners_length (cs : List (String × List Nat)) : (cs.flatMap (·.2)).length = sumL (cs.map (·.2.length)) := by
  induction cs with
  | nil => rfl
  | cons c r ih => simp only [List.flatMap_cons, List.length_append, ih, List.map_cons, sumL_cons]

theorem mem_allCells (cells : List Block) (c : String × List Nat) (h : c ∈ allCells cells) :
    ∃ b ∈ cells, c.1 = b.1 ∧ c.2 ∈ b.2 := by
  unfold allCells at h
  obtain ⟨b, hb, hc⟩ := List.mem_flatMap.mp h
  obtain ⟨r, hr, e⟩ := List.mem_map.mp hc
  subst e
  exact ⟨b, hb, rfl, hr⟩

theorem typedBlocks_eq (F : WFields) (hF : Facts F) : typedBlocks F = some (sortByIdx (keyed ixOf F.cells)) := by
  unfold typedBlocks keyed
  rw [mapM'_eq_some_map _ (fun b => (ixOf b.1, b.1, b.2))]
  · rfl
  · intro b hb
    rw [cellTypeIndex_ixOf b.1 (hF.cidx b (List.mem_filter.mp hb).1)]; rfl

/-- the cells `normalise` lists: the non-empty blocks of the mesh, in strictly ascending order of their type ids -/
theorem normalise_cells (F : WFields) (hF : Facts F) (R : RFields) (hR : normalise F = some R) :
    (∀ b, b ∈ R.cells ↔ (b ∈ F.cells ∧ b.2 ≠ [])) ∧ (R.cells.map fun b => ixOf b.1).Pairwise (· < ·) := by
  have hc : R.cells = (sortByIdx (keyed ixOf F.cells)).map fun sb => (sb.2.1, sb.2.2) := by
    unfold normalise at hR
    rw [typedBlocks_eq F hF] at hR
    simp only at hR
    split at hR
    · cases hR
    · cases hR; rfl
  rw [hc]
  constructor
  · intro b
    simp only [List.mem_map]
    constructor
    · rintro ⟨sb, hsb, e⟩
      obtain ⟨b', hb', hne, e2⟩ := (mem_keyed ixOf F.cells sb).mp ((mem_sortByIdx _ sb).mp hsb)
      subst e2; subst e
      exact ⟨hb', hne⟩
    · rintro ⟨hb, hne⟩
      exact ⟨(ixOf b.1, b.1, b.2), (mem_sortByIdx _ _).mpr ((mem_keyed ixOf F.cells _).mpr ⟨b, hb, hne, rfl⟩), rfl⟩
  · have hs := sortByIdx_strict (keyed ixOf F.cells) (by
      unfold keyed
      rw [List.map_map]
      exact List.Pairwise.sublist (List.Sublist.map _ List.filter_sublist) (ids_distinct F hF))
    rw [List.map_map]
    have : (sortByIdx (keyed ixOf F.cells)).map ((fun b : Block => ixOf b.1) ∘ fun sb => (sb.2.1, sb.2.2))
        = (sortByIdx (keyed ixOf F.cells)).map (·.1) := by
      apply List.map_congr_left
      intro sb hsb
      obtain ⟨b', _, _, e2⟩ := (mem_keyed ixOf F.cells sb).mp ((mem_sortByIdx _ sb).mp hsb)
      subst e2; rfl
    rw [this]; exact hs

/-! ### the composition -/

/-- **file-level round trip.**  Under `Spec.hyp` (form of the data) and `Spec.sizeOk` (no array of 2^61 scalars)
    the writer produces a file, `normalise` is defined, and the reader maps the file to it. -/
theorem vtu_roundtrip (F : WFields) (h : Spec.hyp F = true) (hs : Spec.sizeOk F = true) :
    ∃ file R, writeVtu id F = some file ∧ Spec.normalise F = some R ∧ readVtu file = some R := by
  have hF := facts_of_hyp F h
  have hS := sizes_of_sizeOk F hs
  -- point data
  obtain ⟨pd, hpd, hpdR⟩ := mapM'_forall₂ (fun (f : String × WArr) => makeDataArray f.1 f.2 none)
    (fun f e => readItems e = some (f.2.dt, f.2.items) ∧ e.name = f.1 ∧ e.ncomps = prod f.2.tail) F.pf (by
      intro f hf
      obtain ⟨hwf, hrows, _⟩ := hF.pfok f hf
      have hok : ArrOk f.2 := ArrOk.of_wf hwf (hS.pf f hf)
      obtain ⟨e, he⟩ := hok.write f.1 none (by
        intro _; rw [hrows]; intro h0; exact hF.ptsne (List.eq_nil_of_length_eq_zero h0))
      exact ⟨e, he, hok.read f.1 none e (by intro k hk; cases hk) he⟩)
  -- cell data
  obtain ⟨cd, hcd, hcdR⟩ := mapM'_forall₂ (cellDataArray F)
    (fun n e => ∃ f0, F.cf.find? (·.1 == n) = some f0 ∧ 1 ≤ prod f0.2.2.tail ∧
        (∀ b ∈ F.cells, (valsOf F n b).length = b.2.length * prod f0.2.2.tail) ∧
        readItems e = some (f0.2.2.dt, F.cells.flatMap (valsOf F n)) ∧ e.name = n ∧ e.ncomps = prod f0.2.2.tail)
    (dedup (F.cf.map (·.1))) (by
      intro n hn
      obtain ⟨v, f0, hv, hf0, hok, hrows, hdt, htl, hitems, hK, hlen⟩ := cellField_written F hF hS n hn
      obtain ⟨e, he⟩ := hok.write n none (fun _ => hrows)
      have hr := hok.read n none e (by intro k hk; cases hk) he
      refine ⟨e, ?_, f0, hf0, hK, hlen, ?_, hr.2.1, ?_⟩
      · unfold cellDataArray; rw [hv]; exact he
      · rw [hr.1, hdt, hitems]
      · rw [hr.2.2, htl])
  -- points
  obtain ⟨hpa, hpok, hprows, hplen⟩ := pointArray_ok F hF hS
  obtain ⟨epts, hepts⟩ := hpok.write "Coordinates" none (fun _ => hprows)
  have hrpts := (hpok.read "Coordinates" none epts (by intro k hk; cases hk) hepts).1
  rw [hpa] at hrpts
  -- cells arrays
  have hempty : ∀ {α} (f : (String × List Nat) → List α), (!(allCells F.cells).isEmpty) = false →
      (allCells F.cells).flatMap f = [] := by
    intro α f he
    have : allCells F.cells = [] := by
      cases hc : allCells F.cells with
      | nil => rfl
      | cons _ _ => rw [hc] at he; simp at he
    rw [this]; rfl
  have hemptyM : ∀ {α} (f : (String × List Nat) → α), (!(allCells F.cells).isEmpty) = false →
      (allCells F.cells).map f = [] := by
    intro α f he
    have : allCells F.cells = [] := by
      cases hc : allCells F.cells with
      | nil => rfl
      | cons _ _ => rw [hc] at he; simp at he
    rw [this]; rfl
  have hconnOk : ArrOk ⟨F.conntype, ((allCells F.cells).flatMap (·.2)).length, [], (allCells F.cells).flatMap (·.2)⟩ := by
    apply ArrOk.of_wf
    · rw [wf_iff]
      refine ⟨hF.connsz, by show _ = _ * prod []; simp [prod], ?_⟩
      intro x hx
      obtain ⟨c, hc, hxc⟩ := List.mem_flatMap.mp hx
      obtain ⟨b, hb, _, hr⟩ := mem_allCells F.cells c hc
      have := hF.connlt b hb c.2 hr x hxc
      exact Nat.lt_of_lt_of_le this (Nat.div_le_self _ _)
    · exact hS.ncorners
  obtain ⟨econn, d1, heconn, hrconn⟩ := cellsArray_ok (!(allCells F.cells).isEmpty) "connectivity" F.conntype _ hconnOk
    (hempty _)
  have hoffsOk : ArrOk ⟨"int64", (runningSums 0 ((allCells F.cells).map (·.2.length))).length, [],
      runningSums 0 ((allCells F.cells).map (·.2.length))⟩ := by
    apply ArrOk.of_wf
    · rw [wf_iff]
      refine ⟨by show dtypeSize "int64" ≠ 0; decide, by show _ = _ * prod []; simp [prod], ?_⟩
      intro x hx
      have h1 := runningSums_le 0 _ x hx
      rw [← corners_length] at h1
      have h2 := hS.ncorners
      show x < 256 ^ 8
      omega
    · show (runningSums 0 ((allCells F.cells).map (·.2.length))).length * 8 < 256 ^ 8
      rw [runningSums_length, List.length_map]; exact hS.ncells
  obtain ⟨eoffs, d2, heoffs, hroffs⟩ := cellsArray_ok (!(allCells F.cells).isEmpty) "offsets" "int64" _ hoffsOk (by
    intro he; rw [hemptyM _ he]; rfl)
  have htys : mapM' (fun (c : String × List Nat) => cellTypeIndex c.1) (allCells F.cells) = some (typesOf ixOf F.cells) := by
    apply mapM'_eq_some_map
    intro c hc
    obtain ⟨b, hb, e, _⟩ := mem_allCells F.cells c hc
    rw [e]; exact cellTypeIndex_ixOf b.1 (hF.cidx b hb)
  have htypesOk : ArrOk ⟨"int64", (typesOf ixOf F.cells).length, [], typesOf ixOf F.cells⟩ := by
    apply ArrOk.of_wf
    · rw [wf_iff]
      refine ⟨by show dtypeSize "int64" ≠ 0; decide, by show _ = _ * prod []; simp [prod], ?_⟩
      intro x hx
      obtain ⟨c, hc, e⟩ := List.mem_map.mp hx
      obtain ⟨b, hb, e2, _⟩ := mem_allCells F.cells c hc
      have := ixOf_small b.1 (hF.cidx b hb)
      show x < 256 ^ 8
      rw [← e, e2]; omega
    · show (typesOf ixOf F.cells).length * 8 < 256 ^ 8
      unfold typesOf; rw [List.length_map]; exact hS.ncells
  obtain ⟨etypes, d3, hetypes, hrtypes⟩ := cellsArray_ok (!(allCells F.cells).isEmpty) "types" "int64" _ htypesOk (by
    intro he; unfold typesOf; exact hemptyM _ he)
  -- the spec
  have htyped := typedBlocks_eq F hF
  obtain ⟨cf, hcf, _⟩ := mapM'_forall₂ (normCellField F (sortByIdx (keyed ixOf F.cells))) (fun _ _ => True)
    (dedup (F.cf.map (·.1))) (by
      intro n hn
      obtain ⟨_, f0, hf0, _⟩ := hF.cfnames n hn
      unfold normCellField; rw [hf0]; exact ⟨_, rfl, trivial⟩)
  refine ⟨_, _, writeVtu_of F pd cd epts econn eoffs etypes _ hpd hcd hepts heconn heoffs htys hetypes,
    normalise_of F _ cf htyped hcf, ?_⟩
  have hncells : (F.cells.map (·.2.length)).foldr (· + ·) 0 = (allCells F.cells).length := by
    rw [allCells_length]; rfl
  apply readVtu_of _ _ d1 d2 d3 _ _ _ _ _ _ _ hrpts hrconn hroffs hrtypes
  · exact hplen
  · show (runningSums 0 _).length = (F.cells.map (·.2.length)).foldr (· + ·) 0
    rw [runningSums_length, List.length_map, hncells]
  · show (typesOf ixOf F.cells).length = (F.cells.map (·.2.length)).foldr (· + ·) 0
    unfold typesOf; rw [List.length_map, hncells]
  · exact readCells_ok F hF
  · show mapM' (readPointField (((F.points.map (make3d id)).flatMap id).length / 3)) pd = some _
    rw [hplen, Nat.mul_div_cancel _ (by decide)]
    apply mapM'_of_forall₂ _ _ _ F.pf pd hpdR
    intro f hf e ⟨hr, hn, hc⟩
    obtain ⟨hwf, hrows, hK⟩ := hF.pfok f hf
    exact readPointField_ok _ f e hr hn hc hwf hrows hK
  · show mapM' (readCellField (typesOf ixOf F.cells) (uniqueTypes (typesOf ixOf F.cells)) _) cd = some cf
    rw [← hcf]
    apply mapM'_congr_rel _ _ _ _ cd hcdR
    intro n _ e ⟨f0, hf0, hK, hlen, hr, hn, hc⟩
    exact readCellField_ok F hF n e f0 hf0 hK hlen hr hn hc

end Fc.W
