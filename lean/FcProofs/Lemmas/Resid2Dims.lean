/-
  FcProofs.Lemmas.Resid2Dims — the hypotheses of C02's point sort are invariant under zero padding of the
  coordinates (`padMesh`), and the sorted index map does not change.
-/
import FcProofs.Lemmas.Resid2Pad
import FcProofs.Lemmas.ResidRigid
namespace Fc.Resid2
open Fc Fc.C02 Fc.C02.Spec

/-- `m` with `k` zero coordinates appended to every point (the mesh part of `extend_space_dimension_to`) -/
def padMesh (k : Nat) (m : Mesh) : Mesh := ⟨m.dim + k, m.points.map (padRow k), m.cells⟩

def padItem (k : Nat) (a : PItem) : PItem := (a.1, padRow k a.2)

/-- every candidate centre has exactly `d` columns (true for actual cell centres; named hypothesis of the
    Prop-level invariance theorems) -/
def CandsDim (c : List (List Int)) (d : Nat) : Prop := ∀ z ∈ c, z.length = d

theorem pitems_padMesh (k : Nat) (m : Mesh) : pitems (padMesh k m) = (pitems m).map (padItem k) := by
  rw [pitems_eq_map, pitems_eq_map, List.map_map]
  show (List.range (m.points.map (padRow k)).length).map _ = _
  rw [List.length_map]
  apply List.map_congr_left
  intro p hp
  have hlt := List.mem_range.mp hp
  show (p, (m.points.map (padRow k)).getD p []) = (p, padRow k (m.points.getD p []))
  rw [Fc.getD_of_lt _ _ (by rw [List.length_map]; exact hlt), List.getElem_map, Fc.getD_of_lt _ _ hlt]

/-! ### tolerances -/

theorem rowMax_pad (k : Nat) (r : List Int) (m0 : Nat) :
    (padRow k r).foldl (fun m x => max m x.natAbs) m0 = r.foldl (fun m x => max m x.natAbs) m0 := by
  unfold padRow zeros
  rw [List.foldl_append]
  generalize r.foldl (fun m x => max m x.natAbs) m0 = v
  induction k with
  | zero => rfl
  | succ k ih =>
    rw [List.replicate_succ, List.foldl_cons]
    simpa using ih

theorem maxAbsCoord_pad (k : Nat) (pts : List (List Int)) : maxAbsCoord (pts.map (padRow k)) = maxAbsCoord pts := by
  unfold maxAbsCoord
  generalize (0 : Nat) = v
  induction pts generalizing v with
  | nil => rfl
  | cons r t ih =>
    simp only [List.map_cons, List.foldl_cons]
    rw [rowMax_pad, ih]

/-- **zero padding does not change the mesh tolerances** (`abs = 1e-8 · max|coordinate|`): the model, which
    recomputes them from the padded view, agrees with the code, which copies those of the original mesh -/
theorem meshTolOf_padMesh (k : Nat) (m : Mesh) : meshTolOf (padMesh k m) = meshTolOf m := by
  unfold meshTolOf padMesh
  simp only [maxAbsCoord_pad]

/-! ### keys of the padded items / centres -/

section keys
variable {m : Mesh} {k : Nat}

theorem pkey_pad_low (hrow : ∀ r ∈ m.points, r.length = m.dim) :
    ∀ a ∈ pitems m, ∀ j, j < m.dim → pkey j (padItem k a) = pkey j a := by
  intro a ha j hj
  show (padRow k a.2).getD j 0 = a.2.getD j 0
  exact padRow_getD_low (by rw [hrow _ (pitems_snd_mem ha)]; exact hj)

theorem pkey_pad_high (hrow : ∀ r ∈ m.points, r.length = m.dim) :
    ∀ a ∈ pitems m, ∀ j, m.dim ≤ j → pkey j (padItem k a) = 0 := by
  intro a ha j hj
  show (padRow k a.2).getD j 0 = 0
  exact padRow_getD_high (by rw [hrow _ (pitems_snd_mem ha)]; exact hj)

theorem rowKey_pad_low {c : List (List Int)} {d : Nat} (hc : CandsDim c d) :
    ∀ z ∈ c, ∀ j, j < d → rowKey j (padRow k z) = rowKey j z := by
  intro z hz j hj
  exact padRow_getD_low (by rw [hc z hz]; exact hj)

theorem rowKey_pad_high {c : List (List Int)} {d : Nat} (hc : CandsDim c d) :
    ∀ z ∈ c, ∀ j, d ≤ j → rowKey j (padRow k z) = 0 := by
  intro z hz j hj
  exact padRow_getD_high (by rw [hc z hz]; exact hj)

end keys

/-! ### centres -/

theorem mapM_map_option {α β : Type} (f g : α → Option β) (φ : β → β) : ∀ l : List α,
    (∀ a ∈ l, g a = (f a).map φ) → l.mapM g = (l.mapM f).map (List.map φ)
  | [], _ => rfl
  | a :: l, h => by
    rw [List.mapM_cons, List.mapM_cons, h a (List.mem_cons_self ..),
      mapM_map_option f g φ l (fun x hx => h x (List.mem_cons_of_mem _ hx))]
    cases f a with
    | none => rfl
    | some y =>
      cases l.mapM f with
      | none => rfl
      | some r => rfl

/-- the centres around a point of the padded mesh are the padded centres -/
theorem centresOf_padMesh (k : Nat) {m : Mesh} (hrow : ∀ r ∈ m.points, r.length = m.dim)
    (hin : ∀ row ∈ allRows m, ∀ q ∈ row, q < m.points.length) (p : Nat) :
    centresOf (padMesh k m) p = (centresOf m p).map (List.map (padRow k)) := by
  unfold centresOf
  have hadj : adjacentCells (padMesh k m) p = adjacentCells m p := rfl
  rw [hadj]
  by_cases he : (adjacentCells m p).isEmpty = true
  · simp [he]
  · simp only [he, Bool.false_eq_true, if_false]
    apply mapM_map_option
    intro row hr
    rw [adjacentCells_eq] at hr
    have hrow' := (List.mem_filter.mp hr).1
    apply cellCentre_pad k m.dim
    intro q hq
    have hlt := hin row hrow' q hq
    refine ⟨hlt, ?_⟩
    rw [Fc.getD_of_lt _ _ hlt]
    exact hrow _ (List.getElem_mem hlt)

theorem foldlM_addRows_length (d : Nat) (pts : List (List Int)) : ∀ (ps : List Nat) (init s : List Int),
    init.length = d → (∀ q ∈ ps, (pts.getD q []).length = d) →
    ps.foldlM (fun acc q => addRows acc (pts.getD q [])) init = some s → s.length = d
  | [], init, s, hi, _, h => by
    simp only [List.foldlM_nil, Option.pure_def, Option.some.injEq] at h
    subst h; exact hi
  | q :: ps, init, s, hi, hq, h => by
    simp only [List.foldlM_cons, Option.bind_eq_bind] at h
    cases hr : addRows init (pts.getD q []) with
    | none => rw [hr] at h; cases h
    | some r =>
      rw [hr, Option.bind_some] at h
      have hl := addRows_length _ _ _ (by rw [hi, hq q (List.mem_cons_self ..)]) hr
      exact foldlM_addRows_length d pts ps r s (by rw [hl, hi])
        (fun x hx => hq x (List.mem_cons_of_mem _ hx)) h

/-- a cell centre has as many columns as the corner rows -/
theorem cellCentre_length {d : Nat} {pts : List (List Int)} {row : List Nat} {z : List Int}
    (hrow : ∀ q ∈ row, (pts.getD q []).length = d) (hz : cellCentre pts row = some z) : z.length = d := by
  cases row with
  | nil => cases hz
  | cons p ps =>
    simp only [cellCentre, Option.bind_eq_bind] at hz
    cases hs : ps.foldlM (fun acc q => addRows acc (pts.getD q [])) (pts.getD p []) with
    | none => rw [hs] at hz; cases hz
    | some s =>
      rw [hs, Option.bind_some] at hz
      have hl := foldlM_addRows_length d pts ps _ s (hrow p (List.mem_cons_self ..))
        (fun x hx => hrow x (List.mem_cons_of_mem _ hx)) hs
      rw [mapM_some_length _ _ _ hz, hl]

theorem centresOf_length {m : Mesh} (hrow : ∀ r ∈ m.points, r.length = m.dim)
    (hin : ∀ row ∈ allRows m, ∀ q ∈ row, q < m.points.length) {p : Nat} {cs : List (List Int)}
    (hcs : centresOf m p = some cs) : ∀ z ∈ cs, z.length = m.dim := by
  intro z hz
  obtain ⟨row, hr, _, ez⟩ := (Resid.centresOf_mem hcs).2 z hz
  apply cellCentre_length _ ez
  intro q hq
  have hlt := hin row hr q hq
  rw [Fc.getD_of_lt _ _ hlt]
  exact hrow _ (List.getElem_mem hlt)

/-! ### `PointHypP` and distinguishability of the padded mesh -/

section inv
variable {t : MeshTol} {A B M : Nat} {m : Mesh} {c : List (List Int)} {k : Nat}

theorem KC_padMesh_kvec (hrow : ∀ r ∈ m.points, r.length = m.dim) {a b : PItem} (ha : a ∈ pitems m) (hb : b ∈ pitems m) :
    kvec (KC A (padMesh k m)) (m.dim + k) 0 (padItem k a) = kvec (KC A (padMesh k m)) (m.dim + k) 0 (padItem k b) ↔
      kvec (KC A m) m.dim 0 a = kvec (KC A m) m.dim 0 b := by
  unfold KC
  rw [pitems_padMesh]
  exact kvec_pad A (pkey_pad_low hrow) (pkey_pad_high hrow) ha hb

theorem KC_padMesh_lexLE (hrow : ∀ r ∈ m.points, r.length = m.dim) {a b : PItem} (ha : a ∈ pitems m) (hb : b ∈ pitems m) :
    lexLE (KC A (padMesh k m)) (m.dim + k) 0 (padItem k a) (padItem k b) ↔ lexLE (KC A m) m.dim 0 a b := by
  unfold KC
  rw [pitems_padMesh]
  exact lexLE_pad A (pkey_pad_low hrow) (pkey_pad_high hrow) ha hb

/-- **`PointHypP` is invariant under zero padding**, with the same tolerances and margins; the candidate
    centres are the padded ones -/
theorem padMesh_pointHypP (k : Nat) (hy : PointHypP t A B M m c)
    (hin : ∀ row ∈ allRows m, ∀ q ∈ row, q < m.points.length) (hc : CandsDim c m.dim) :
    PointHypP t A B M (padMesh k m) (c.map (padRow k)) where
  dimPos := by show 1 ≤ m.dim + k; have := hy.dimPos; omega
  rowLen := by
    intro r hr
    obtain ⟨r0, hr0, rfl⟩ := List.mem_map.mp hr
    show (padRow k r0).length = m.dim + k
    rw [padRow_length, hy.rowLen r0 hr0]
  sepP := by
    rw [pitems_padMesh]
    exact sepCols_pad hy.sepP (pkey_pad_low hy.rowLen) (pkey_pad_high hy.rowLen)
  sepC := sepCols_pad hy.sepC (rowKey_pad_low hc) (rowKey_pad_high hc)
  centres := by
    intro a' ha' b' hb' hne hk
    rw [pitems_padMesh] at ha' hb'
    obtain ⟨a, ha, rfl⟩ := List.mem_map.mp ha'
    obtain ⟨b, hb, rfl⟩ := List.mem_map.mp hb'
    have hab : a ≠ b := fun e => hne (by rw [e])
    have hk1 := (KC_padMesh_kvec hy.rowLen ha hb).mp hk
    obtain ⟨cs, hcs, hsub⟩ := hy.centres a ha b hb hab hk1
    refine ⟨cs.map (padRow k), ?_, ?_⟩
    · show centresOf (padMesh k m) a.1 = _
      rw [centresOf_padMesh k hy.rowLen hin, hcs]; rfl
    · intro z' hz'
      obtain ⟨z, hz, rfl⟩ := List.mem_map.mp hz'
      exact List.mem_map_of_mem (hsub z hz)

/-- the minimal centre of a point of the padded mesh is a padded centre of the point with the same key vector
    as the minimal centre in the original mesh (any two `argsort` routines) -/
theorem padMesh_minCentre {as1 as2 : List Int → List Nat} (h1 : IsArgsort as1) (h2 : IsArgsort as2)
    (hy : PointHypP t A B M m c) (hin : ∀ row ∈ allRows m, ∀ q ∈ row, q < m.points.length)
    (hc : CandsDim c m.dim) {a : PItem} {cs : List (List Int)}
    (hcs : centresOf m a.1 = some cs) (hsub : ∀ z ∈ cs, z ∈ c) :
    ∃ z ∈ cs, mcD as2 t (padMesh k m) (padItem k a) = padRow k z ∧
      kvec (KG A c) m.dim 0 z = kvec (KG A c) m.dim 0 (mcD as1 t m a) := by
  have hy' := padMesh_pointHypP k hy hin hc
  have hcs' : centresOf (padMesh k m) (padItem k a).1 = some (cs.map (padRow k)) := by
    show centresOf (padMesh k m) a.1 = _
    rw [centresOf_padMesh k hy.rowLen hin, hcs]; rfl
  have hsub' : ∀ z' ∈ cs.map (padRow k), z' ∈ c.map (padRow k) := by
    intro z' hz'
    obtain ⟨z, hz, rfl⟩ := List.mem_map.mp hz'
    exact List.mem_map_of_mem (hsub z hz)
  obtain ⟨x, ex, mx, minx⟩ := minCentre_spec h1 hy.sepC hy.dimPos hcs hsub
  obtain ⟨x', ex', mx', minx'⟩ := minCentre_spec h2 hy'.sepC hy'.dimPos hcs' hsub'
  obtain ⟨z, hz, rfl⟩ := List.mem_map.mp mx'
  refine ⟨z, hz, by unfold mcD; rw [ex']; rfl, ?_⟩
  have e1 : mcD as1 t m a = x := by unfold mcD; rw [ex]; rfl
  rw [e1]
  apply lexLE_antisymm
  · -- z ≤ x : `padRow z` is minimal among the padded centres
    have := minx' (padRow k x) (List.mem_map_of_mem mx)
    exact (lexLE_pad (key := rowKey) (pad := padRow k) (l := c) (d := m.dim) (k := k) A
      (rowKey_pad_low hc) (rowKey_pad_high hc) (hsub z hz) (hsub x mx)).mp this
  · exact minx z hz

theorem KM_padMesh_kvec {as : List Int → List Nat} (a : PItem) :
    kvec (KM A (c.map (padRow k)) as t (padMesh k m)) (m.dim + k) 0 a =
      kvec (KG A (c.map (padRow k))) (m.dim + k) 0 (mcD as t (padMesh k m) a) :=
  Resid.kvec_KM _ _ _ _ _ a _ _

/-- order / ties of the minimal-centre keys of two points with centres: padded mesh vs original mesh -/
theorem KM_padMesh_rel {as1 as2 : List Int → List Nat} (h1 : IsArgsort as1) (h2 : IsArgsort as2)
    (hy : PointHypP t A B M m c) (hin : ∀ row ∈ allRows m, ∀ q ∈ row, q < m.points.length)
    (hc : CandsDim c m.dim) {a b : PItem} {csa csb : List (List Int)}
    (hca : centresOf m a.1 = some csa) (hsa : ∀ z ∈ csa, z ∈ c)
    (hcb : centresOf m b.1 = some csb) (hsb : ∀ z ∈ csb, z ∈ c) :
    (lexLE (KM A c as1 t m) m.dim 0 a b →
      lexLE (KM A (c.map (padRow k)) as2 t (padMesh k m)) (m.dim + k) 0 (padItem k a) (padItem k b)) ∧
    (kvec (KM A (c.map (padRow k)) as2 t (padMesh k m)) (m.dim + k) 0 (padItem k a) =
        kvec (KM A (c.map (padRow k)) as2 t (padMesh k m)) (m.dim + k) 0 (padItem k b) →
      kvec (KM A c as1 t m) m.dim 0 a = kvec (KM A c as1 t m) m.dim 0 b) := by
  obtain ⟨za, hza, ea, ka⟩ := padMesh_minCentre (k := k) h1 h2 hy hin hc hca hsa
  obtain ⟨zb, hzb, eb, kb⟩ := padMesh_minCentre (k := k) h1 h2 hy hin hc hcb hsb
  have hrel := lexLE_pad (key := rowKey) (pad := padRow k) (l := c) (d := m.dim) (k := k) A
    (rowKey_pad_low hc) (rowKey_pad_high hc) (hsa za hza) (hsb zb hzb)
  have hrelk := kvec_pad (key := rowKey) (pad := padRow k) (l := c) (d := m.dim) (k := k) A
    (rowKey_pad_low hc) (rowKey_pad_high hc) (hsa za hza) (hsb zb hzb)
  constructor
  · intro hle
    have h0 : lexLE (KG A c) m.dim 0 (mcD as1 t m a) (mcD as1 t m b) :=
      (lexLE_comp (KG A c) (mcD as1 t m) a b m.dim 0).mp hle
    have h3 : lexLE (KG A c) m.dim 0 za zb := lexLE_congr _ _ _ _ _ _ _ _ ka.symm kb.symm h0
    have h4 := hrel.mpr h3
    rw [← ea, ← eb] at h4
    exact (lexLE_comp (KG A (c.map (padRow k))) (mcD as2 t (padMesh k m)) (padItem k a) (padItem k b)
      (m.dim + k) 0).mpr h4
  · intro he
    rw [KM_padMesh_kvec, KM_padMesh_kvec, ea, eb] at he
    have h3 := hrelk.mp he
    rw [Resid.kvec_KM, Resid.kvec_KM, ← ka, ← kb]
    exact h3

/-- **distinguishability is invariant under zero padding** (any two `argsort` routines) -/
theorem padMesh_hdist {as1 as2 : List Int → List Nat} (h1 : IsArgsort as1) (h2 : IsArgsort as2)
    (hy : PointHypP t A B M m c) (hin : ∀ row ∈ allRows m, ∀ q ∈ row, q < m.points.length)
    (hc : CandsDim c m.dim)
    (hdist : ∀ a ∈ pitems m, ∀ b ∈ pitems m, kvec (KC A m) m.dim 0 a = kvec (KC A m) m.dim 0 b →
      kvec (KM A c as1 t m) m.dim 0 a = kvec (KM A c as1 t m) m.dim 0 b → a = b) :
    ∀ a' ∈ pitems (padMesh k m), ∀ b' ∈ pitems (padMesh k m),
      kvec (KC A (padMesh k m)) (padMesh k m).dim 0 a' = kvec (KC A (padMesh k m)) (padMesh k m).dim 0 b' →
      kvec (KM A (c.map (padRow k)) as2 t (padMesh k m)) (padMesh k m).dim 0 a' =
        kvec (KM A (c.map (padRow k)) as2 t (padMesh k m)) (padMesh k m).dim 0 b' → a' = b' := by
  intro a' ha' b' hb' hk hm
  rw [pitems_padMesh] at ha' hb'
  obtain ⟨a, ha, rfl⟩ := List.mem_map.mp ha'
  obtain ⟨b, hb, rfl⟩ := List.mem_map.mp hb'
  by_cases hab : a = b
  · rw [hab]
  · have hk1 := (KC_padMesh_kvec hy.rowLen ha hb).mp hk
    obtain ⟨csa, hca, hsa⟩ := hy.centres a ha b hb hab hk1
    obtain ⟨csb, hcb, hsb⟩ := hy.centres b hb a ha (Ne.symm hab) hk1.symm
    have := (KM_padMesh_rel (k := k) h1 h2 hy hin hc hca hsa hcb hsb).2 hm
    exact absurd (hdist a ha b hb hk1 this) hab

/-- **the sorted index map is invariant under zero padding** (any two `argsort` routines) -/
theorem padMesh_sortIdx {as1 as2 : List Int → List Nat} (h1 : IsArgsort as1) (h2 : IsArgsort as2)
    (hy : PointHypP t A B M m c) (hin : ∀ row ∈ allRows m, ∀ q ∈ row, q < m.points.length)
    (hc : CandsDim c m.dim) (hn : m.points ≠ [])
    (hdist : ∀ a ∈ pitems m, ∀ b ∈ pitems m, kvec (KC A m) m.dim 0 a = kvec (KC A m) m.dim 0 b →
      kvec (KM A c as1 t m) m.dim 0 a = kvec (KM A c as1 t m) m.dim 0 b → a = b) :
    ∃ I, sortPointsIdx as1 t m = some I ∧ sortPointsIdx as2 t (padMesh k m) = some I := by
  have hy' := padMesh_pointHypP k hy hin hc
  obtain ⟨L1, L2, e1, e2, _, hmap⟩ := sortPoints_canonical_abs (σ := padItem k) h1 h2 hy hy'
    (by rw [pitems_padMesh])
    (by
      intro a _ b _ e
      have e1 : (padItem k a).1 = (padItem k b).1 := congrArg Prod.fst e
      have e2 : (padItem k a).2 = (padItem k b).2 := congrArg Prod.snd e
      have e3 : a.2 = b.2 := List.append_cancel_right e2
      exact Prod.ext e1 e3)
    (fun a ha b hb hle => (KC_padMesh_lexLE hy.rowLen ha hb).mpr hle)
    (fun a ha b hb => (KC_padMesh_kvec hy.rowLen ha hb).symm)
    (by
      intro a ha b hb hab hk hle
      obtain ⟨csa, hca, hsa⟩ := hy.centres a ha b hb hab hk
      obtain ⟨csb, hcb, hsb⟩ := hy.centres b hb a ha (Ne.symm hab) hk.symm
      exact (KM_padMesh_rel (k := k) h1 h2 hy hin hc hca hsa hcb hsb).1 hle)
    (by
      intro a ha b hb hab hk he
      obtain ⟨csa, hca, hsa⟩ := hy.centres a ha b hb hab hk
      obtain ⟨csb, hcb, hsb⟩ := hy.centres b hb a ha (Ne.symm hab) hk.symm
      exact (KM_padMesh_rel (k := k) h1 h2 hy hin hc hca hsa hcb hsb).2 he)
    hn hdist
  refine ⟨L1.map (·.1), ?_, ?_⟩
  · unfold sortPointsIdx; rw [e1]; rfl
  · unfold sortPointsIdx
    rw [e2, Option.map_some, ← hmap, List.map_map]
    rfl

end inv
end Fc.Resid2
