/-
  FcProofs.Lemmas.Diff — helper lemmas for C14: oddness of the rounded subtraction, symmetry of the
  numpy promotion table on the standard dtypes, Python-dict insertion on lists with distinct keys,
  and the lookup characterisation of `find_matches` on name-keyed lists.
-/
import FcModel.Spec.C14
import FcProofs.Lemmas.Rounding
namespace Fc.C14

/-! ### rounding is odd -/

theorem rndInt_neg (F : Fmt) (n : Int) (s : Nat) :
    rndInt F (-n) s = (rndInt F n s).map (fun r => -r) := by
  unfold rndInt
  rw [Int.natAbs_neg]
  rcases h : rndMag F n.natAbs s with _ | r
  · simp
  · simp only [Option.map_some, Option.some.injEq]
    by_cases h0 : n = 0
    · subst h0
      have := rndMag_zero F s
      simp at h
      rw [this] at h
      cases h
      simp
    · by_cases hn : n < 0
      · simp [hn]; omega
      · simp [hn]; omega

theorem rndInt_none_ne_zero (F : Fmt) (n : Int) (h : rndInt F n 0 = none) : n ≠ 0 := by
  intro h0
  subst h0
  unfold rndInt at h
  have := rndMag_zero F 0
  simp at h
  rw [this] at h
  cases h

theorem rndVal_neg (F : Fmt) (n : Int) : rndVal F (-n) = (rndVal F n).neg := by
  unfold rndVal
  rw [rndInt_neg]
  rcases h : rndInt F n 0 with _ | r
  · have hn := rndInt_none_ne_zero F n h
    simp only [Option.map_none, DVal.neg]
    congr 1
    by_cases h1 : n < 0
    · simp [h1]; omega
    · simp [h1]; omega
  · simp [DVal.neg]

theorem rndVal_zero (F : Fmt) : rndVal F 0 = .fin 0 := by
  unfold rndVal rndInt
  have := rndMag_zero F 0
  simp
  rw [this]
  simp

theorem DVal.neg_neg (v : DVal) : v.neg.neg = v := by
  cases v <;> simp [DVal.neg]

/-- the rounded subtraction is odd: swapping the operands negates the result -/
theorem subVal_flt_swap (F : Fmt) (x y : DVal) : subVal (.flt F) x y = (subVal (.flt F) y x).neg := by
  cases x <;> cases y
  · rename_i a b
    have : a - b = -(b - a) := by omega
    simp only [subVal]
    rw [this, rndVal_neg]
  · simp [subVal, DVal.neg]
  · simp [subVal, DVal.neg]
  · simp [subVal, DVal.neg]
  · rename_i s t
    cases s <;> cases t <;> simp [subVal, DVal.neg]
  · simp [subVal, DVal.neg]
  · simp [subVal, DVal.neg]
  · simp [subVal, DVal.neg]
  · simp [subVal, DVal.neg]

theorem subEntry_flt_swap (F : Fmt) (d1 d2 : DType) (x y : Int) :
    subEntry (.flt F) d1 d2 x y = (subEntry (.flt F) d2 d1 y x).neg := by
  unfold subEntry
  exact subVal_flt_swap F _ _

/-! ### the promotion table on the standard dtypes is symmetric -/

def stdFmt (F : Fmt) : Prop := F = f64 ∨ F = f32 ∨ F = f16

def stdDType : DType → Prop
  | .flt F => stdFmt F
  | _ => True

theorem intFloatFmt_std (b : Nat) : stdFmt (intFloatFmt b) := by
  unfold intFloatFmt stdFmt
  split
  · right; right; rfl
  · split
    · right; left; rfl
    · left; rfl

theorem maxFmt_comm {F G : Fmt} (hF : stdFmt F) (hG : stdFmt G) : maxFmt F G = maxFmt G F := by
  rcases hF with rfl | rfl | rfl <;> rcases hG with rfl | rfl | rfl <;> decide

theorem promote_comm {d1 d2 : DType} (h1 : stdDType d1) (h2 : stdDType d2) : promote d1 d2 = promote d2 d1 := by
  cases d1 <;> cases d2 <;> simp only [promote]
  · rw [maxFmt_comm h1 h2]
  · rw [maxFmt_comm h1 (intFloatFmt_std _)]
  · rw [maxFmt_comm (intFloatFmt_std _) h2]
  · rename_i s b s' b'
    by_cases hs : s = s'
    · subst hs
      simp [Nat.max_comm]
    · have hs' : ¬ s' = s := fun e => hs e.symm
      simp only [hs, hs', if_false]
      cases s <;> cases s' <;> simp_all

end Fc.C14
