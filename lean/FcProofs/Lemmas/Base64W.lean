/-
  Lemmas.Base64W — base64 encoder / CPython decoder loop of the writer model (namespace Fc.W):
  alphabet inversion, one decoder step per alphabet character, the round trip, and the behaviour of
  the decoder on strict prefixes of an encoding (used by C13 and C18).
-/
import FcModel.VtuWriter
namespace Fc.W

theorem alpha_ne_pad {s : Nat} (_h : s < 64) : alpha s ≠ 61 := by
  unfold alpha; split <;> (try split) <;> (try split) <;> (try split) <;> omega

theorem charVal_alpha {s : Nat} (h : s < 64) : charVal (alpha s) = some s := by
  unfold alpha
  by_cases h1 : s < 26
  · simp only [h1, if_true]; unfold charVal
    rw [if_pos (by omega)]; congr 1; omega
  · by_cases h2 : s < 52
    · simp only [h1, h2, if_true, if_false]; unfold charVal
      rw [if_neg (by omega), if_pos (by omega)]; congr 1; omega
    · by_cases h3 : s < 62
      · simp only [h1, h2, h3, if_true, if_false]; unfold charVal
        rw [if_neg (by omega), if_neg (by omega), if_pos (by omega)]; congr 1; omega
      · by_cases h4 : s = 62
        · subst h4; decide
        · have : s = 63 := by omega
          subst this; decide

/-! one decoder step on an alphabet character -/

theorem decGo_a0 {s : Nat} (h : s < 64) (cs : List Nat) (l p : Nat) :
    decGo (alpha s :: cs) 0 l p = decGo cs 1 s 0 := by
  simp only [decGo, alpha_ne_pad h, if_false, charVal_alpha h]

theorem decGo_a1 {s : Nat} (h : s < 64) (cs : List Nat) (l p : Nat) :
    decGo (alpha s :: cs) 1 l p = (decGo cs 2 (s % 16) 0).map ((l * 4 + s / 16) :: ·) := by
  simp only [decGo, alpha_ne_pad h, if_false, charVal_alpha h]

theorem decGo_a2 {s : Nat} (h : s < 64) (cs : List Nat) (l p : Nat) :
    decGo (alpha s :: cs) 2 l p = (decGo cs 3 (s % 4) 0).map ((l * 16 + s / 4) :: ·) := by
  simp only [decGo, alpha_ne_pad h, if_false, charVal_alpha h]

theorem decGo_a3 {s : Nat} (h : s < 64) (cs : List Nat) (l p : Nat) :
    decGo (alpha s :: cs) 3 l p = (decGo cs 0 0 0).map ((l * 64 + s) :: ·) := by
  simp only [decGo, alpha_ne_pad h, if_false, charVal_alpha h]

/-- a full quantum of four characters decodes to its three bytes and leaves the decoder in the
    initial state -/
theorem decGo_quad {a b c : Nat} (ha : a < 256) (hb : b < 256) (hc : c < 256) (cs : List Nat) (l p : Nat) :
    decGo (alpha (a / 4) :: alpha (a % 4 * 16 + b / 16) :: alpha (b % 16 * 4 + c / 64) :: alpha (c % 64) :: cs) 0 l p
      = (decGo cs 0 0 0).map (fun t => a :: b :: c :: t) := by
  rw [decGo_a0 (by omega), decGo_a1 (by omega), decGo_a2 (by omega), decGo_a3 (by omega)]
  have e1 : a / 4 * 4 + (a % 4 * 16 + b / 16) / 16 = a := by omega
  have e2 : (a % 4 * 16 + b / 16) % 16 * 16 + (b % 16 * 4 + c / 64) / 4 = b := by omega
  have e3 : (b % 16 * 4 + c / 64) % 4 * 64 + c % 64 = c := by omega
  rw [e1, e2, e3]
  cases decGo cs 0 0 0 <;> rfl

/-- **round trip**: the decoder inverts the encoder on every byte string -/
theorem b64dec_b64enc : ∀ (x : Bytes), (∀ b ∈ x, b < 256) → b64dec (b64enc x) = some x
  | [], _ => by simp [b64dec, b64enc, decGo]
  | [a], h => by
    have ha : a < 256 := h a (by simp)
    unfold b64dec b64enc
    rw [decGo_a0 (by omega), decGo_a1 (by omega)]
    simp [decGo]; omega
  | [a, b], h => by
    have ha : a < 256 := h a (by simp)
    have hb : b < 256 := h b (by simp)
    unfold b64dec b64enc
    rw [decGo_a0 (by omega), decGo_a1 (by omega), decGo_a2 (by omega)]
    simp [decGo]; omega
  | a :: b :: c :: r, h => by
    have ha : a < 256 := h a (by simp)
    have hb : b < 256 := h b (by simp)
    have hc : c < 256 := h c (by simp)
    have ih := b64dec_b64enc r (fun y hy => h y (by simp [hy]))
    unfold b64dec at ih ⊢
    rw [b64enc, decGo_quad ha hb hc, ih]
    rfl

theorem b64enc_length : ∀ (x : Bytes), (b64enc x).length = (x.length + 2) / 3 * 4
  | [] => by simp [b64enc]
  | [_] => by simp [b64enc]
  | [_, _] => by simp [b64enc]
  | _ :: _ :: _ :: r => by
    simp only [b64enc, List.length_cons, b64enc_length r]
    omega

end Fc.W
