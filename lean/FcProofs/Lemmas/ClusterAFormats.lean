/-
  FcProofs.Lemmas.ClusterAFormats — `fuzzyCheck` on two float arrays of one format `F`
  (float32 / float16 as well as float64): the float branch in closed form, the scalar kernel for
  weak (Python-float) and strong (float64 array / np.float64) tolerances, and its laws.
-/
import FcModel.Spec.ClusterA
import FcProofs.Lemmas.Laws
import FcProofs.Lemmas.ClusterAInts
namespace Fc
open Spec

/-! ### the scalar kernel for a format other than binary64 -/

/-- weak tolerances: the documented formula in `F` with the `F`-rounded tolerances -/
theorem fuzzyEq1_weak (F : Fmt) (hF : F ≠ f64) (a b : Int) (rel abs r t : Nat)
    (hr : rndMag F rel 0 = some r) (ht : rndMag F abs 0 = some t) :
    fuzzyEq1 F a b rel true abs true = docFormula F a b r t := by
  unfold fuzzyEq1 threshold docFormula
  simp [hF, hr, ht]

/-- any tolerance kinds: the mixed formula -/
theorem fuzzyEq1_mixed (F : Fmt) (hF : F ≠ f64) (a b : Int) (rel : Nat) (rw : Bool) (abs : Nat) (aw : Bool) :
    fuzzyEq1 F a b rel rw abs aw = mixedFormula F a b rel rw abs aw := by
  unfold fuzzyEq1 threshold mixedFormula
  simp only [hF, if_false]
  cases rw
  · simp
  · cases h : rndMag F rel 0 <;> simp

theorem leInf_none (x : Option Nat) : leInf x none = true := by
  cases x <;> rfl

/-- a monotone (w.r.t. `leInf`) step applied after an overflow-extended value stays monotone -/
theorem bind_leInf_mono (g : Nat → Option Nat) (hg : ∀ x y, x ≤ y → leInf (g x) (g y) = true)
    {o1 o2 : Option Nat} (h : leInf o1 o2 = true) : leInf (o1.bind g) (o2.bind g) = true := by
  cases o2 with
  | none => simp only [Option.bind_none]; exact leInf_none _
  | some y =>
    cases o1 with
    | none => simp [leInf] at h
    | some x =>
      simp only [Option.bind_some]
      exact hg x y (by simpa [leInf] using h)

theorem mixedFormula_refl (F : Fmt) (a : Int) (rel : Nat) (rw : Bool) (abs : Nat) (aw : Bool) :
    mixedFormula F a a rel rw abs aw = true := by
  unfold mixedFormula
  have : (a - a).natAbs = 0 := by omega
  simp only [this, rndMag_zero]
  exact leInf_zero _

theorem mixedFormula_symm (F : Fmt) (a b : Int) (rel : Nat) (rw : Bool) (abs : Nat) (aw : Bool) :
    mixedFormula F a b rel rw abs aw = mixedFormula F b a rel rw abs aw := by
  unfold mixedFormula
  have h1 : (b - a).natAbs = (a - b).natAbs := by omega
  simp only [h1, Nat.max_comm a.natAbs b.natAbs]

theorem mixedFormula_mono (F : Fmt) (a b : Int) {r1 r2 t1 t2 : Nat} (rw aw : Bool)
    (hr : r1 ≤ r2) (ht : t1 ≤ t2) (h : mixedFormula F a b r1 rw t1 aw = true) :
    mixedFormula F a b r2 rw t2 aw = true := by
  unfold mixedFormula at *
  simp only at h ⊢
  refine leInf_trans h (maxInf_mono ?_ ?_)
  · cases rw
    · simp only [Bool.false_eq_true, if_false]
      exact rndMag_mono f64 UNIT (Nat.mul_le_mul_left _ hr)
    · simp only [if_true]
      exact bind_leInf_mono _ (fun x y hxy => rndMag_mono F UNIT (Nat.mul_le_mul_left _ hxy))
        (rndMag_mono F 0 hr)
  · cases aw
    · simp [leInf, ht]
    · simp only [if_true]; exact rndMag_mono F 0 ht

/-! ### the float branch of `fuzzyCheck` in closed form -/

/-- two arrays of the same float format: shapes, tolerance resolution, `find_first_fuzzy_unequal` -/
theorem fuzzyCheck_flt (F : Fmt) (rel abs : Tol) (a b : NdArr)
    (ha : a.dtype = .flt F) (hb : b.dtype = .flt F) :
    fuzzyCheck rel abs a b =
      if shapesCompatible a.shape b.shape = true then
        let shp := if a.shape.length ≥ b.shape.length then a.shape else b.shape
        match resolveTol F rel { a with shape := shp } { b with shape := shp },
              resolveTol F abs { a with shape := shp } { b with shape := shp } with
        | some r, some t => findFuzzy F { a with shape := shp } { b with shape := shp } r t
        | _, _ => .err
      else .ok false := by
  obtain ⟨hiff, hshape⟩ := reshapePair_spec a.shape b.shape
  unfold fuzzyCheck
  cases hp : reshapePair a.shape b.shape with
  | mk s1 s2 =>
    rw [hp] at hiff hshape
    simp only at hiff hshape ⊢
    by_cases hc : s1 = s2
    · have hcomp : shapesCompatible a.shape b.shape = true := hiff.mp hc
      have hs1 := hshape hc
      subst hc
      simp only [ne_eq, not_true_eq_false, if_false, hcomp, if_true]
      rw [ha, hb]
      simp only [not_true_eq_false, if_false]
      rw [← hs1]
      have e1 : ({ dtype := DType.flt F, shape := s1, data := a.data } : NdArr) = { a with shape := s1 } := by
        rw [← ha]
      have e2 : ({ dtype := DType.flt F, shape := s1, data := b.data } : NdArr) = { b with shape := s1 } := by
        rw [← hb]
      rw [e1, e2]
      generalize resolveTol F rel _ _ = orr
      generalize resolveTol F abs _ _ = ott
      cases orr <;> cases ott <;> rfl
    · have hcomp : ¬ shapesCompatible a.shape b.shape = true := fun hh => hc (hiff.mpr hh)
      simp [hc, hcomp]

/-- a weak tolerance resolves to itself (a Python float), whatever the operands -/
theorem resolveTol_weak (F : Fmt) (t : Tol) (a b : NdArr) (r : Nat) (h : weakTol F t = some r) :
    ∃ u, resolveTol F t a b = some (.weak u) ∧ rndMag F u 0 = some r := by
  cases t with
  | num u => exact ⟨u, rfl, h⟩
  | dflt => exact ⟨epsUnits F, rfl, h⟩
  | arr s us => simp [weakTol] at h
  | scaled base => simp [weakTol] at h
  | scaledComp base => simp [weakTol] at h

/-- the verdict for weak tolerances: the documented formula in `F` at every entry -/
theorem findFuzzy_weak (F : Fmt) (hF : F ≠ f64) (a b : NdArr) (u v r t : Nat)
    (hr : rndMag F u 0 = some r) (ht : rndMag F v 0 = some t) :
    findFuzzy F a b (.weak u) (.weak v) =
      .ok ((List.range a.data.length).all fun i =>
        docFormula F (a.data.getD i 0) (b.data.getD i 0) r t) := by
  unfold findFuzzy
  simp only [tolShapeOk, and_self, if_true]
  unfold allFuzzy
  exact congrArg Verdict.ok
    (all_range_congr _ _ _ fun i _ => by
      simp only [RTol.at, RTol.isWeak]
      exact fuzzyEq1_weak F hF _ _ u v r t hr ht)


/-! ### laws of the modelled kernel for EVERY float format and tolerance kind -/

theorem fuzzyEq1_refl (F : Fmt) (a : Int) (rel : Nat) (rw : Bool) (abs : Nat) (aw : Bool) :
    fuzzyEq1 F a a rel rw abs aw = true := by
  unfold fuzzyEq1
  have : (a - a).natAbs = 0 := by omega
  rw [this, rndMag_zero]
  exact leInf_zero _

theorem fuzzyEq1_symm (F : Fmt) (a b : Int) (rel : Nat) (rw : Bool) (abs : Nat) (aw : Bool) :
    fuzzyEq1 F a b rel rw abs aw = fuzzyEq1 F b a rel rw abs aw := by
  unfold fuzzyEq1
  have h1 : (b - a).natAbs = (a - b).natAbs := by omega
  rw [h1, Nat.max_comm]

theorem allFuzzy_refl (F : Fmt) (a : List Int) (rs : Nat) (r t : RTol) : allFuzzy F a a rs r t = true := by
  unfold allFuzzy
  simp only [List.all_eq_true, List.mem_range]
  intro i _
  exact fuzzyEq1_refl F _ _ _ _ _

theorem allFuzzy_symm (F : Fmt) (a b : List Int) (rs : Nat) (r t : RTol) (hlen : a.length = b.length) :
    allFuzzy F a b rs r t = allFuzzy F b a rs r t := by
  unfold allFuzzy
  rw [← hlen]
  exact all_range_congr _ _ _ fun i _ => fuzzyEq1_symm F _ _ _ _ _ _

/-- a float array is never judged unequal to itself: the verdict is "equal" or an error
    (tolerance of the wrong shape) -/
theorem findFuzzy_refl (F : Fmt) (a : NdArr) (r t : RTol) :
    findFuzzy F a a r t = .ok true ∨ findFuzzy F a a r t = .err := by
  unfold findFuzzy
  simp only [allFuzzy_refl]
  split
  · left; rfl
  · split
    · right; rfl
    · split
      · left; rfl
      · right; rfl

theorem findFuzzy_symm (F : Fmt) (a b : NdArr) (r t : RTol) (hs : a.shape = b.shape)
    (hlen : a.data.length = b.data.length) : findFuzzy F a b r t = findFuzzy F b a r t := by
  have hrs : a.rowSize = b.rowSize := by unfold NdArr.rowSize; rw [hs]
  unfold findFuzzy
  simp only [hs, hrs, allFuzzy_symm F a.data b.data _ r t hlen]

/-- tolerance resolution is a symmetric function of two operands of one shape (every format) -/
theorem resolveTol_symm (F : Fmt) (t : Tol) (a b : NdArr) (hs : a.shape = b.shape) :
    resolveTol F t a b = resolveTol F t b a := by
  cases t with
  | num u => rfl
  | arr s us => rfl
  | dflt => rfl
  | scaled base =>
    unfold resolveTol
    have e1 : (a.data.isEmpty = true ∨ b.data.isEmpty = true) ↔ (b.data.isEmpty = true ∨ a.data.isEmpty = true) := Or.comm
    simp only [e1, Nat.max_comm (maxAbsUnits a) (maxAbsUnits b)]
  | scaledComp base =>
    unfold resolveTol
    have e1 : (a.data.isEmpty = true ∨ b.data.isEmpty = true) ↔ (b.data.isEmpty = true ∨ a.data.isEmpty = true) := Or.comm
    simp only [e1, zipWith_max_comm (maxAbsComp a) (maxAbsComp b), hs]

/-! ### the weak spec -/

theorem fuzzySpecWeak_refl (F : Fmt) (rel abs : Tol) (a : NdArr) (r t : Nat)
    (hr : weakTol F rel = some r) (ht : weakTol F abs = some t) :
    fuzzySpecWeak F rel abs a a = some true := by
  unfold fuzzySpecWeak
  have hc : shapesCompatible a.shape a.shape = true := by
    rw [shapesCompatible_iff]; exact Or.inl rfl
  simp only [hc, Bool.not_true, Bool.false_eq_true, if_false, hr, ht]
  simp only [Option.some.injEq, List.all_eq_true, List.mem_range]
  intro i _
  exact docFormula_refl F _ _ _

theorem fuzzySpecWeak_symm (F : Fmt) (rel abs : Tol) (a b : NdArr)
    (hlen : shapesCompatible a.shape b.shape = true → a.data.length = b.data.length) :
    fuzzySpecWeak F rel abs a b = fuzzySpecWeak F rel abs b a := by
  unfold fuzzySpecWeak
  rw [shapesCompatible_symm b.shape a.shape]
  cases hc : shapesCompatible a.shape b.shape with
  | false => simp
  | true =>
    simp only [Bool.not_true, Bool.false_eq_true, if_false]
    rw [hlen hc]
    cases weakTol F rel with
    | none => rfl
    | some r =>
      cases weakTol F abs with
      | none => rfl
      | some t =>
        simp only
        exact congrArg some (all_range_congr _ _ _ fun i _ => docFormula_symm F _ _ r t)

theorem fuzzySpecWeak_mono (F : Fmt) (a b : NdArr) (r1 t1 r2 t2 : Nat)
    (x1 y1 x2 y2 : Nat)
    (hr1 : rndMag F r1 0 = some x1) (ht1 : rndMag F t1 0 = some y1)
    (hr2 : rndMag F r2 0 = some x2) (ht2 : rndMag F t2 0 = some y2)
    (hr : r1 ≤ r2) (ht : t1 ≤ t2)
    (h : fuzzySpecWeak F (.num r1) (.num t1) a b = some true) :
    fuzzySpecWeak F (.num r2) (.num t2) a b = some true := by
  have hx : x1 ≤ x2 := by
    have := rndMag_mono F 0 hr
    rw [hr1, hr2] at this; simpa [leInf] using this
  have hy : y1 ≤ y2 := by
    have := rndMag_mono F 0 ht
    rw [ht1, ht2] at this; simpa [leInf] using this
  unfold fuzzySpecWeak at *
  cases hc : shapesCompatible a.shape b.shape with
  | false => simp [hc] at h
  | true =>
    simp only [hc, Bool.not_true, Bool.false_eq_true, if_false, weakTol, hr1, ht1, hr2, ht2] at h ⊢
    simp only [Option.some.injEq, List.all_eq_true, List.mem_range] at h ⊢
    intro i hi
    exact docFormula_mono F _ _ hx hy (h i hi)

end Fc
