/-
  FcProofs.Lemmas.GlueC19 — C19's comparator object (`Fc.C19.runComparator`) over the concrete
  transformations (`Fc.Glue.cmpOps`): the dimension facts of `LadderFacts` hold, the column count
  carried by a view is the data set's (invariant of every call), and the two verdict-level
  canonicity facts follow from data-level idempotence of `_permute` / `sort_cells` on sorted views.
-/
import FcProofs.Lemmas.GlueLadder
import FcProofs.Lemmas.Ladder
namespace Fc.Glue
open Fc Fc.Spec

theorem permuteFields_dim (L : LadderParams) (f f' : MeshFields) (h : permuteFields L f = some f') :
    f'.mesh.dim = f.mesh.dim := by
  unfold permuteFields at h
  cases hs : L.stripOrphans with
  | true =>
    simp only [hs, if_true] at h
    cases h1 : stripOrphanPoints L.sort.argsortB f with
    | none => simp [h1] at h
    | some f1 =>
      simp only [h1] at h
      rw [applyReordering_dim L.sort .sortPoints f1 f' h, applyReordering_dim L.sort .strip f f1 h1]
  | false =>
    simp only [hs, Bool.false_eq_true, if_false] at h
    exact applyReordering_dim L.sort .sortPoints f f' h

theorem consistent_viewOf (f : MeshFields) : Consistent (viewOf f) := by
  intro g hg; cases hg; rfl

theorem consistent_ext (L : LadderParams) (cmp : MeshFields → MeshFields → Bool × Bool) (m : Nat) (x : CView) :
    Consistent ((cmpOps L cmp).ext m x) := by
  intro g hg
  show g.mesh.dim = m
  change x.2.bind (extendSpaceDim m) = some g at hg
  cases hx : x.2 with
  | none => rw [hx] at hg; cases hg
  | some f => rw [hx] at hg; exact (C08_extend_mesh f g m hg).2.1

theorem consistent_perm (L : LadderParams) (cmp : MeshFields → MeshFields → Bool × Bool) (x : CView)
    (h : Consistent x) : Consistent ((cmpOps L cmp).perm x) := by
  intro g hg
  show g.mesh.dim = x.1
  change x.2.bind (permuteFields L) = some g at hg
  cases hx : x.2 with
  | none => rw [hx] at hg; cases hg
  | some f => rw [hx] at hg; rw [permuteFields_dim L f g hg]; exact h f hx

theorem consistent_sortc (L : LadderParams) (cmp : MeshFields → MeshFields → Bool × Bool) (x : CView)
    (h : Consistent x) : Consistent ((cmpOps L cmp).sortc x) := by
  intro g hg
  show g.mesh.dim = x.1
  change x.2.bind (sortCells L.sort.h L.sort.argsortI) = some g at hg
  cases hx : x.2 with
  | none => rw [hx] at hg; cases hg
  | some f =>
    rw [hx] at hg
    rw [applyReordering_dim L.sort .sortCells f g hg]; exact h f hx

/-- an invariant of single views that the three transformations preserve holds for the state a
    call leaves behind -/
theorem run_state_inv {D S : Type} (L : C19.LadderOps D S) (fl : C19.CmpFlags) (Inv : D → Prop)
    (hext : ∀ m x, Inv x → Inv (L.ext m x)) (hperm : ∀ x, Inv x → Inv (L.perm x))
    (hsortc : ∀ x, Inv x → Inv (L.sortc x)) (st : C19.CmpState D) (h1 : Inv st.src) (h2 : Inv st.ref) :
    Inv (C19.runComparator L fl st).state.src ∧ Inv (C19.runComparator L fl st).state.ref := by
  unfold C19.runComparator
  simp only
  split_ifs <;>
    first
    | exact ⟨h1, h2⟩
    | exact ⟨hext _ _ h1, hext _ _ h2⟩
    | exact ⟨hperm _ h1, hperm _ h2⟩
    | exact ⟨hperm _ (hext _ _ h1), hperm _ (hext _ _ h2)⟩
    | exact ⟨hsortc _ (hperm _ h1), hsortc _ (hperm _ h2)⟩
    | exact ⟨hsortc _ (hperm _ (hext _ _ h1)), hsortc _ (hperm _ (hext _ _ h2))⟩

/-- the two verdict-level facts of `C19.LadderFacts` that remain once the dimension facts are proved -/
structure CanonFacts {D S : Type} (L : C19.LadderOps D S) : Prop where
  canon_perm : ∀ x y, L.cmp (L.perm (L.sortc (L.perm x))) (L.perm (L.sortc (L.perm y))) =
    L.cmp (L.sortc (L.perm x)) (L.sortc (L.perm y))
  canon_sortc : ∀ x y, L.cmp (L.sortc (L.perm (L.sortc (L.perm x)))) (L.sortc (L.perm (L.sortc (L.perm y)))) =
    L.cmp (L.sortc (L.perm x)) (L.sortc (L.perm y))

/-- the three dimension facts hold for the concrete operations -/
theorem ladderFacts_of_canon (L : LadderParams) (cmp : MeshFields → MeshFields → Bool × Bool)
    (h : CanonFacts (cmpOps L cmp)) : C19.LadderFacts (cmpOps L cmp) :=
  ⟨fun _ _ => rfl, fun _ => rfl, fun _ => rfl, h.canon_perm, h.canon_sortc⟩

/-- data-level idempotence on sorted views ⇒ the verdict-level canonicity facts -/
theorem canon_of_idempotent (L : LadderParams) (cmp : MeshFields → MeshFields → Bool × Bool)
    (hidemP : ∀ f g, sortedView L f = some g → permuteFields L g = some g)
    (hidemC : ∀ f g, sortedView L f = some g → sortCells L.sort.h L.sort.argsortI g = some g) :
    CanonFacts (cmpOps L cmp) := by
  have hview : ∀ x : CView, (cmpOps L cmp).sortc ((cmpOps L cmp).perm x) = (x.1, x.2.bind (sortedView L)) := by
    intro x
    show (x.1, (x.2.bind (permuteFields L)).bind _) = _
    cases x.2 <;> rfl
  have hP : ∀ x : CView, (cmpOps L cmp).perm ((cmpOps L cmp).sortc ((cmpOps L cmp).perm x)) =
      (cmpOps L cmp).sortc ((cmpOps L cmp).perm x) := by
    intro x
    rw [hview]
    show (x.1, (x.2.bind (sortedView L)).bind (permuteFields L)) = _
    cases hx : x.2 with
    | none => rfl
    | some f =>
      cases hs : sortedView L f with
      | none => simp [hs]
      | some g => simp [hs, hidemP f g hs]
  have hC : ∀ x : CView, (cmpOps L cmp).sortc ((cmpOps L cmp).sortc ((cmpOps L cmp).perm x)) =
      (cmpOps L cmp).sortc ((cmpOps L cmp).perm x) := by
    intro x
    rw [hview]
    show (x.1, (x.2.bind (sortedView L)).bind (sortCells L.sort.h L.sort.argsortI)) = _
    cases hx : x.2 with
    | none => rfl
    | some f =>
      cases hs : sortedView L f with
      | none => simp [hs]
      | some g => simp [hs, hidemC f g hs]
  exact ⟨fun x y => by rw [hP x, hP y], fun x y => by rw [hP x, hP y, hC x, hC y]⟩

end Fc.Glue
