/-
  Helper lemmas for property C06 (unstructured merge): `_map_external_indices` /
  `_filter_external_indices` arithmetic, the strict total order `lexLt` on rows of equal length,
  correctness of the lower-bound search, characterisation of `mapDuplicatePoints`.
-/
import FcModel.Spec.C06
namespace Fc.C06

/-! ### filterExternal / mapExternal -/

theorem filterExternal_nil : filterExternal [] = [] := rfl

theorem filterExternal_cons (x : Option Nat) (l : List (Option Nat)) :
    filterExternal (x :: l) =
      (if x.isNone then [0] else []) ++ (filterExternal l).map (· + 1) := by
  unfold filterExternal
  simp only [List.length_cons, List.range_succ_eq_map, List.filter_cons, List.getD_cons_zero,
    List.filter_map]
  have : ((fun i => ((x :: l).getD i none).isNone) ∘ Nat.succ) = fun i => (l.getD i none).isNone := by
    funext i; simp [Function.comp]
  rw [this]
  cases x <;> simp

theorem mapExternalGo_length (offset : Nat) (l : List (Option Nat)) (i m : Nat) :
    (mapExternalGo offset l i m).length = l.length := by
  induction l generalizing i m with
  | nil => rfl
  | cons x l ih => cases x <;> simp [mapExternalGo, ih]

/-- duplicates are sent to their partner -/
theorem mapExternalGo_dup (offset : Nat) (l : List (Option Nat)) (i m k j : Nat)
    (h : l[k]? = some (some j)) : (mapExternalGo offset l i m)[k]? = some j := by
  induction l generalizing i m k with
  | nil => simp at h
  | cons x l ih =>
    cases k with
    | zero =>
      simp only [List.getElem?_cons_zero, Option.some.injEq] at h
      subst h; simp [mapExternalGo]
    | succ k =>
      simp only [List.getElem?_cons_succ] at h
      cases x <;> simp [mapExternalGo, ih _ _ _ h]

/-- the `r`-th kept (non-duplicate) local index is sent to `i - m + offset + r` -/
theorem mapExternalGo_kept (offset : Nat) (l : List (Option Nat)) (i m : Nat) (hm : m ≤ i)
    (r k : Nat) (h : (filterExternal l)[r]? = some k) :
    (mapExternalGo offset l i m)[k]? = some (i - m + offset + r) := by
  induction l generalizing i m r k with
  | nil => simp [filterExternal_nil] at h
  | cons x l ih =>
    rw [filterExternal_cons] at h
    cases x with
    | some j =>
      simp only [Option.isNone_some, Bool.false_eq_true, if_false, List.nil_append,
        List.getElem?_map, Option.map_eq_some_iff] at h
      obtain ⟨k', hk', rfl⟩ := h
      simp only [mapExternalGo, List.getElem?_cons_succ]
      rw [ih (i + 1) (m + 1) (by omega) r k' hk']
      congr 1; omega
    | none =>
      simp only [Option.isNone_none, if_true, List.singleton_append] at h
      cases r with
      | zero =>
        simp only [List.getElem?_cons_zero, Option.some.injEq] at h
        subst h
        simp only [mapExternalGo, List.getElem?_cons_zero, Option.some.injEq]
        omega
      | succ r =>
        simp only [List.getElem?_cons_succ, List.getElem?_map, Option.map_eq_some_iff] at h
        obtain ⟨k', hk', rfl⟩ := h
        simp only [mapExternalGo, List.getElem?_cons_succ]
        rw [ih (i + 1) m (by omega) r k' hk']
        congr 1; omega

/-- every kept index is a non-duplicate index below the length, and conversely -/
theorem mem_filterExternal (l : List (Option Nat)) (k : Nat) :
    k ∈ filterExternal l ↔ l[k]? = some none := by
  unfold filterExternal
  simp only [List.mem_filter, List.mem_range]
  constructor
  · rintro ⟨hk, hn⟩
    rw [List.getD_eq_getElem?_getD, List.getElem?_eq_getElem hk] at hn
    rw [List.getElem?_eq_getElem hk]
    simp only [Option.getD_some] at hn
    cases h : l[k] with
    | none => rfl
    | some j => rw [h] at hn; simp at hn
  · intro h
    have hk : k < l.length := by
      cases Nat.lt_or_ge k l.length with
      | inl h' => exact h'
      | inr h' => rw [List.getElem?_eq_none h'] at h; cases h
    refine ⟨hk, ?_⟩
    rw [List.getD_eq_getElem?_getD, h]; rfl

theorem filterExternal_sorted (l : List (Option Nat)) : (filterExternal l).Pairwise (· < ·) := by
  unfold filterExternal
  exact List.Pairwise.filter _ List.pairwise_lt_range

/-! ### `lexLt` is a strict total order on rows of equal length -/

theorem lexLt_irrefl (a : List Int) : lexLt a a = false := by
  induction a with
  | nil => rfl
  | cons x xs ih => simp [lexLt, ih]

theorem lexLt_trans {a b c : List Int} (hab : a.length = b.length) (hbc : b.length = c.length)
    (h1 : lexLt a b = true) (h2 : lexLt b c = true) : lexLt a c = true := by
  induction a generalizing b c with
  | nil => cases b <;> simp [lexLt] at h1
  | cons x xs ih =>
    cases b with
    | nil => simp [lexLt] at h1
    | cons y ys =>
      cases c with
      | nil => simp [lexLt] at h2
      | cons z zs =>
        simp only [lexLt] at h1 h2 ⊢
        simp only [List.length_cons, Nat.add_right_cancel_iff] at hab hbc
        by_cases hxy : x < y
        · by_cases hyz : y < z
          · have : x < z := by omega
            simp [this]
          · simp only [hyz, if_false] at h2
            by_cases hzy : z < y
            · simp [hzy] at h2
            · have : x < z := by omega
              simp [this]
        · simp only [hxy, if_false] at h1
          by_cases hyx : y < x
          · simp [hyx] at h1
          · simp only [hyx, if_false] at h1
            have exy : x = y := by omega
            subst exy
            by_cases hyz : x < z
            · simp [hyz]
            · simp only [hyz, if_false] at h2 ⊢
              by_cases hzy : z < x
              · simp [hzy] at h2
              · simp only [hzy, if_false] at h2 ⊢
                exact ih hab hbc h1 h2

theorem lexLt_total {a b : List Int} (hab : a.length = b.length)
    (h1 : lexLt a b = false) (h2 : lexLt b a = false) : a = b := by
  induction a generalizing b with
  | nil => cases b with
    | nil => rfl
    | cons y ys => simp at hab
  | cons x xs ih =>
    cases b with
    | nil => simp at hab
    | cons y ys =>
      simp only [lexLt] at h1 h2
      simp only [List.length_cons, Nat.add_right_cancel_iff] at hab
      by_cases hxy : x < y
      · simp [hxy] at h1
      · by_cases hyx : y < x
        · simp [hyx] at h2
        · simp only [hxy, hyx, if_false] at h1 h2
          have : x = y := by omega
          subst this
          rw [ih hab h1 h2]

/-- `¬ b < a` and `b < t` give `a < t`'s contrapositive companion: `a ≤ b < t → a < t` -/
theorem lexLt_of_le_of_lt {a b t : List Int} (hab : a.length = b.length) (hbt : b.length = t.length)
    (h1 : lexLt b a = false) (h2 : lexLt b t = true) : lexLt a t = true := by
  cases h : lexLt a b with
  | true => exact lexLt_trans hab hbt h h2
  | false => rw [lexLt_total hab h h1]; exact h2

/-- `b ≤ a` and `¬ b < t` give `¬ a < t` -/
theorem not_lexLt_of_ge_of_not_lt {a b t : List Int} (hab : a.length = b.length) (hbt : b.length = t.length)
    (h1 : lexLt a b = false) (h2 : lexLt b t = false) : lexLt a t = false := by
  cases h : lexLt a t with
  | false => rfl
  | true =>
    cases h' : lexLt b a with
    | true => rw [lexLt_trans hab.symm (hab.trans hbt) h' h] at h2; cases h2
    | false => rw [← lexLt_total hab h1 h', h] at h2; cases h2

/-! ### the lower-bound search -/

/-- what `np.lexsort` is assumed to return: a permutation of the row indices that sorts the rows
    (weakly) by `lexLt`; ties are unconstrained -/
structure IsLexSort (pts : List (List Int)) (sidx : List Nat) : Prop where
  perm : sidx.Perm (List.range pts.length)
  sorted : sidx.Pairwise fun a b => lexLt (pts.getD b []) (pts.getD a []) = false

/-- key at sorted position `p` -/
def keyAt (src : List (List Int)) (sidx : List Nat) (p : Nat) : List Int :=
  src.getD (sidx.getD p 0) []

theorem bsearch_spec (src : List (List Int)) (sidx : List Nat) (t : List Int) (d : Nat)
    (hdim : ∀ p, p < src.length → (keyAt src sidx p).length = d) (ht : t.length = d)
    (hsorted : ∀ p q, p < q → q < src.length → lexLt (keyAt src sidx q) (keyAt src sidx p) = false)
    (fuel lo hi : Nat) (hlh : lo ≤ hi) (hhi : hi ≤ src.length) (hfuel : hi - lo ≤ fuel)
    (hlo : ∀ p, p < lo → lexLt (keyAt src sidx p) t = true)
    (hup : ∀ p, hi ≤ p → p < src.length → lexLt (keyAt src sidx p) t = false) :
    let r := bsearch src sidx t fuel lo hi
    r ≤ src.length ∧ (∀ p, p < r → lexLt (keyAt src sidx p) t = true) ∧
      (∀ p, r ≤ p → p < src.length → lexLt (keyAt src sidx p) t = false) := by
  induction fuel generalizing lo hi with
  | zero =>
    have : lo = hi := by omega
    subst this
    simp only [bsearch]
    exact ⟨hhi, hlo, hup⟩
  | succ fuel ih =>
    simp only [bsearch]
    by_cases hlt : lo < hi
    · simp only [hlt, if_true]
      have hmid1 : lo ≤ (lo + hi) / 2 := by omega
      have hmid2 : (lo + hi) / 2 < hi := by omega
      cases hk : lexLt (src.getD (sidx.getD ((lo + hi) / 2) 0) []) t with
      | true =>
        simp only [if_true]
        apply ih ((lo + hi) / 2 + 1) hi (by omega) hhi (by omega)
        · intro p hp
          by_cases hpm : p = (lo + hi) / 2
          · subst hpm; exact hk
          · have hpl : p < (lo + hi) / 2 := by omega
            have := hsorted p ((lo + hi) / 2) hpl (by omega)
            exact lexLt_of_le_of_lt ((hdim p (by omega)).trans (hdim _ (by omega)).symm)
              ((hdim _ (by omega)).trans ht.symm) this hk
        · exact hup
      | false =>
        simp only [Bool.false_eq_true, if_false]
        apply ih lo ((lo + hi) / 2) hmid1 (by omega) (by omega) hlo
        intro p hp hpn
        by_cases hpm : p = (lo + hi) / 2
        · subst hpm; exact hk
        · have hpl : (lo + hi) / 2 < p := by omega
          have := hsorted ((lo + hi) / 2) p hpl hpn
          exact not_lexLt_of_ge_of_not_lt ((hdim p hpn).trans (hdim _ (by omega)).symm)
            ((hdim _ (by omega)).trans ht.symm) this hk
    · simp only [hlt, if_false]
      have : lo = hi := by omega
      subst this
      exact ⟨hhi, hlo, hup⟩

theorem IsLexSort.length_eq {pts : List (List Int)} {sidx : List Nat} (h : IsLexSort pts sidx) :
    sidx.length = pts.length := by
  have := h.perm.length_eq
  simpa using this

theorem IsLexSort.getD_lt {pts : List (List Int)} {sidx : List Nat} (h : IsLexSort pts sidx)
    (p : Nat) (hp : p < pts.length) : sidx.getD p 0 < pts.length := by
  have hp' : p < sidx.length := by rw [h.length_eq]; exact hp
  have hm : sidx.getD p 0 ∈ sidx := by
    rw [List.getD_eq_getElem?_getD, List.getElem?_eq_getElem hp']
    exact List.getElem_mem hp'
  have := (h.perm.mem_iff).mp hm
  simpa using this

theorem getD_length_of_all {src : List (List Int)} {d : Nat} (hd : ∀ p ∈ src, p.length = d)
    (c : Nat) (hc : c < src.length) : (src.getD c []).length = d := by
  rw [List.getD_eq_getElem?_getD, List.getElem?_eq_getElem hc]
  exact hd _ (List.getElem_mem hc)

/-- **lower-bound search finds a present row**: if `t` is a row of `src`, the candidate returned by
    `_find_candidate` is a row index holding exactly `t` -/
theorem findCandidate_found (src : List (List Int)) (sidx : List Nat) (t : List Int) (d : Nat)
    (hs : IsLexSort src sidx) (hd : ∀ p ∈ src, p.length = d)
    (i : Nat) (hi : i < src.length) (hit : src.getD i [] = t) :
    ∃ c, findCandidate src sidx t = some c ∧ c < src.length ∧ src.getD c [] = t := by
  have ht : t.length = d := by rw [← hit]; exact getD_length_of_all hd i hi
  have hlen := hs.length_eq
  have hdim : ∀ p, p < src.length → (keyAt src sidx p).length = d := fun p hp =>
    getD_length_of_all hd _ (hs.getD_lt p hp)
  have hsorted : ∀ p q, p < q → q < src.length →
      lexLt (keyAt src sidx q) (keyAt src sidx p) = false := by
    intro p q hpq hq
    have hq' : q < sidx.length := by omega
    have hp' : p < sidx.length := by omega
    have := (List.pairwise_iff_getElem.mp hs.sorted) p q hp' hq' hpq
    simp only [keyAt, List.getD_eq_getElem?_getD, List.getElem?_eq_getElem hq',
      List.getElem?_eq_getElem hp', Option.getD_some]
    simpa [List.getD_eq_getElem?_getD] using this
  obtain ⟨hr1, hr2, hr3⟩ := bsearch_spec src sidx t d hdim ht hsorted src.length 0 src.length
    (Nat.zero_le _) (Nat.le_refl _) (by omega) (by intro p hp; omega) (by intro p hp hp'; omega)
  -- the sorted position of `i`
  have him : i ∈ sidx := (hs.perm.mem_iff).mpr (by simpa using hi)
  obtain ⟨q, hq, hqi⟩ := List.getElem_of_mem him
  have hq' : q < src.length := by omega
  have hkq : keyAt src sidx q = t := by
    simp only [keyAt, List.getD_eq_getElem?_getD, List.getElem?_eq_getElem hq, Option.getD_some, hqi]
    simpa [List.getD_eq_getElem?_getD] using hit
  -- r ≤ q, otherwise key q < t, but key q = t
  have hrq : bsearch src sidx t src.length 0 src.length ≤ q := by
    apply Nat.le_of_not_lt
    intro hlt
    have := hr2 q hlt
    rw [hkq, lexLt_irrefl] at this
    cases this
  have hrn : bsearch src sidx t src.length 0 src.length < src.length := by omega
  refine ⟨sidx.getD (bsearch src sidx t src.length 0 src.length) 0, ?_, hs.getD_lt _ hrn, ?_⟩
  · simp [findCandidate, hrn]
  · -- key r is not below t, and t = key q is not below key r (sortedness): equal
    have h1 := hr3 _ (Nat.le_refl _) hrn
    have h2 : lexLt t (keyAt src sidx (bsearch src sidx t src.length 0 src.length)) = false := by
      by_cases hrq' : bsearch src sidx t src.length 0 src.length = q
      · rw [hrq', hkq]; exact lexLt_irrefl t
      · have := hsorted (bsearch src sidx t src.length 0 src.length) q (by omega) hq'
        rwa [hkq] at this
    exact lexLt_total ((hdim _ hrn).trans ht.symm) h1 h2

/-! ### `mapDuplicatePoints` -/

/-- no two rows coincide -/
def NodupRows (pts : List (List Int)) : Prop :=
  ∀ i j, i < pts.length → j < pts.length → pts.getD i [] = pts.getD j [] → i = j

/-- the dict after the first `k` target points -/
def dupPrefix (sidx : List Nat) (src tgt : List (List Int)) (k : Nat) : List (Option Nat) :=
  (List.range k).foldl (dupStep src sidx tgt) (List.replicate src.length none)

structure DupInv (src tgt : List (List Int)) (k : Nat) (acc : List (Option Nat)) : Prop where
  len : acc.length = src.length
  sound : ∀ i j, acc[i]? = some (some j) → j < k ∧ i < src.length ∧ src.getD i [] = tgt.getD j []
  complete : ∀ i j, i < src.length → j < k → src.getD i [] = tgt.getD j [] → ∃ j', acc[i]? = some (some j')

theorem dupPrefix_inv (src tgt : List (List Int)) (sidx : List Nat) (d : Nat)
    (hs : IsLexSort src sidx) (hd : ∀ p ∈ src, p.length = d) (hnd : NodupRows src) (k : Nat) :
    DupInv src tgt k (dupPrefix sidx src tgt k) := by
  induction k with
  | zero =>
    refine ⟨by simp [dupPrefix], ?_, ?_⟩
    · intro i j h
      simp only [dupPrefix, List.range_zero, List.foldl_nil] at h
      rw [List.getElem?_replicate] at h
      split at h <;> simp at h
    · intro i j _ hj; omega
  | succ k ih =>
    have hstep : dupPrefix sidx src tgt (k + 1) = dupStep src sidx tgt (dupPrefix sidx src tgt k) k := by
      simp [dupPrefix, List.range_succ, List.foldl_append]
    rw [hstep]
    generalize dupPrefix sidx src tgt k = acc at ih
    obtain ⟨hlen, hsound, hcomp⟩ := ih
    unfold dupStep
    simp only
    cases hf : findCandidate src sidx (tgt.getD k []) with
    | none =>
      simp only
      refine ⟨hlen, ?_, ?_⟩
      · intro i j h
        obtain ⟨h1, h2, h3⟩ := hsound i j h
        exact ⟨by omega, h2, h3⟩
      · intro i j hi hj hij
        by_cases hjk : j = k
        · subst hjk
          obtain ⟨c, hc, _, _⟩ := findCandidate_found src sidx _ d hs hd i hi hij
          rw [hc] at hf; cases hf
        · exact hcomp i j hi (by omega) hij
    | some c =>
      simp only
      by_cases heq : (src.getD c [] == tgt.getD k []) = true
      · simp only [heq, if_true]
        have heq' : src.getD c [] = tgt.getD k [] := by simpa using heq
        refine ⟨by simp [hlen], ?_, ?_⟩
        · intro i j h
          rw [List.getElem?_set] at h
          by_cases hci : c = i
          · subst hci
            simp only [if_true] at h
            split at h
            · rename_i hcl
              simp only [Option.some.injEq] at h
              subst h
              exact ⟨by omega, by omega, heq'⟩
            · cases h
          · simp only [hci, if_false] at h
            obtain ⟨h1, h2, h3⟩ := hsound i j h
            exact ⟨by omega, h2, h3⟩
        · intro i j hi hj hij
          rw [List.getElem?_set]
          by_cases hci : c = i
          · subst hci
            simp only [if_true]
            exact ⟨k, by simp [hlen, hi]⟩
          · simp only [hci, if_false]
            by_cases hjk : j = k
            · subst hjk
              obtain ⟨c', hc', hc'n, hc't⟩ := findCandidate_found src sidx _ d hs hd i hi hij
              rw [hc'] at hf
              simp only [Option.some.injEq] at hf
              subst hf
              exact absurd (hnd c' i hc'n hi (hc't.trans hij.symm)) hci
            · exact hcomp i j hi (by omega) hij
      · simp only [heq]
        refine ⟨hlen, ?_, ?_⟩
        · intro i j h
          obtain ⟨h1, h2, h3⟩ := hsound i j h
          exact ⟨by omega, h2, h3⟩
        · intro i j hi hj hij
          by_cases hjk : j = k
          · subst hjk
            obtain ⟨c', hc', hc'n, hc't⟩ := findCandidate_found src sidx _ d hs hd i hi hij
            rw [hc'] at hf
            simp only [Option.some.injEq] at hf
            subst hf
            rw [hc't] at heq
            simp at heq
          · exact hcomp i j hi (by omega) hij

theorem mapDuplicatePoints_inv (src tgt : List (List Int)) (sidx : List Nat) (d : Nat)
    (hs : IsLexSort src sidx) (hd : ∀ p ∈ src, p.length = d) (hnd : NodupRows src) :
    DupInv src tgt tgt.length (mapDuplicatePoints sidx src tgt) :=
  dupPrefix_inv src tgt sidx d hs hd hnd tgt.length

/-! ### the driver's concrete lexsort is a lexsort -/

theorem insertIdx_perm (pts : List (List Int)) (i : Nat) (l : List Nat) :
    (insertIdx pts i l).Perm (i :: l) := by
  induction l with
  | nil => exact List.Perm.refl _
  | cons j r ih =>
    simp only [insertIdx]
    split
    · exact List.Perm.refl _
    · exact (List.Perm.cons j ih).trans (List.Perm.swap i j r)

theorem insertIdx_sorted (pts : List (List Int)) (d : Nat) (i : Nat) (l : List Nat)
    (hd : ∀ x, x = i ∨ x ∈ l → (pts.getD x []).length = d)
    (hl : l.Pairwise fun a b => lexLt (pts.getD b []) (pts.getD a []) = false) :
    (insertIdx pts i l).Pairwise fun a b => lexLt (pts.getD b []) (pts.getD a []) = false := by
  induction l with
  | nil => simp [insertIdx]
  | cons j r ih =>
    rw [List.pairwise_cons] at hl
    obtain ⟨hj, hr⟩ := hl
    have hdi := hd i (Or.inl rfl)
    have hdj := hd j (Or.inr (List.mem_cons_self ..))
    simp only [insertIdx]
    cases hij : lexLt (pts.getD i []) (pts.getD j []) with
    | true =>
      simp only [if_true]
      rw [List.pairwise_cons]
      refine ⟨?_, List.pairwise_cons.mpr ⟨hj, hr⟩⟩
      intro x hx
      have hdx := hd x (Or.inr hx)
      cases hxi : lexLt (pts.getD x []) (pts.getD i []) with
      | false => rfl
      | true =>
        have hxj := lexLt_trans (hdx.trans hdi.symm) (hdi.trans hdj.symm) hxi hij
        rcases List.mem_cons.mp hx with rfl | hxr
        · rw [lexLt_irrefl] at hxj; cases hxj
        · rw [hj x hxr] at hxj; cases hxj
    | false =>
      simp only [Bool.false_eq_true, if_false]
      rw [List.pairwise_cons]
      refine ⟨?_, ih (fun x hx => hd x (hx.elim Or.inl fun h => Or.inr (List.mem_cons_of_mem _ h))) hr⟩
      intro x hx
      have := (insertIdx_perm pts i r).mem_iff.mp hx
      rcases List.mem_cons.mp this with rfl | hxr
      · exact hij
      · exact hj x hxr

theorem lexsortIdx_isLexSort (pts : List (List Int)) (d : Nat) (hd : ∀ p ∈ pts, p.length = d) :
    IsLexSort pts (lexsortIdx pts) := by
  have key : ∀ k, k ≤ pts.length →
      ((List.range k).foldl (fun acc i => insertIdx pts i acc) []).Perm (List.range k) ∧
      ((List.range k).foldl (fun acc i => insertIdx pts i acc) []).Pairwise
        fun a b => lexLt (pts.getD b []) (pts.getD a []) = false := by
    intro k
    induction k with
    | zero => intro _; simp
    | succ k ih =>
      intro hk
      obtain ⟨hp, hs⟩ := ih (by omega)
      simp only [List.range_succ, List.foldl_append, List.foldl_cons, List.foldl_nil]
      refine ⟨?_, ?_⟩
      · exact (insertIdx_perm pts k _).trans
          ((List.Perm.cons k hp).trans (List.perm_append_singleton k (List.range k)).symm)
      · apply insertIdx_sorted pts d k _ _ hs
        intro x hx
        have hxl : x < pts.length := by
          rcases hx with rfl | hx
          · omega
          · have := hp.mem_iff.mp hx
            simp only [List.mem_range] at this
            omega
        exact getD_length_of_all hd x hxl
  exact ⟨(key pts.length (Nat.le_refl _)).1, (key pts.length (Nat.le_refl _)).2⟩

end Fc.C06
