/-
  Lemmas.C13Unique — the order of `np.unique(types)`: the reader's `uniqueTypes` of an array of type ids is THE
  strictly ascending list with the same members; `sortByIdx` of pairs with pairwise distinct ids is strictly
  ascending by id and has the same members.  Hence the reader visits the cell-type blocks in the order in which
  `normalise` lists them.  Plus small `mapM'` tools used by the file-level composition.
-/
import FcModel.Spec.C13
namespace Fc.W
open Fc.W.Spec

/-- a strictly ascending list is determined by its members -/
theorem strictAsc_ext : ∀ (a b : List Nat), a.Pairwise (· < ·) → b.Pairwise (· < ·) → (∀ t, t ∈ a ↔ t ∈ b) → a = b
  | [], [], _, _, _ => rfl
  | [], y :: b, _, _, h => by have := (h y).2 (by simp); cases this
  | x :: a, [], _, _, h => by have := (h x).1 (by simp); cases this
  | x :: a, y :: b, ha, hb, h => by
    rw [List.pairwise_cons] at ha hb
    have hxy : x = y := by
      have h1 := (h x).1 (by simp)
      have h2 := (h y).2 (by simp)
      rcases List.mem_cons.mp h1 with e | h1'
      · exact e
      · rcases List.mem_cons.mp h2 with e | h2'
        · exact e.symm
        · have := hb.1 x h1'
          have := ha.1 y h2'
          omega
    subst hxy
    have htail : ∀ t, t ∈ a ↔ t ∈ b := by
      intro t
      constructor
      · intro ht
        rcases List.mem_cons.mp ((h t).1 (by simp [ht])) with e | h'
        · have := ha.1 t ht; omega
        · exact h'
      · intro ht
        rcases List.mem_cons.mp ((h t).2 (by simp [ht])) with e | h'
        · have := hb.1 t ht; omega
        · exact h'
    rw [strictAsc_ext a b ha.2 hb.2 htail]

theorem le_foldr_max : ∀ (l : List Nat) (t : Nat), t ∈ l → t ≤ l.foldr max 0
  | x :: r, t, h => by
    simp only [List.foldr_cons]
    rcases List.mem_cons.mp h with e | h'
    · subst e; exact Nat.le_max_left _ _
    · exact Nat.le_trans (le_foldr_max r t h') (Nat.le_max_right _ _)

theorem mem_uniqueTypes (types : List Nat) (t : Nat) : t ∈ uniqueTypes types ↔ t ∈ types := by
  unfold uniqueTypes
  simp only [List.mem_filter, List.mem_range, List.contains_iff_mem]
  constructor
  · exact fun h => h.2
  · intro h
    exact ⟨Nat.lt_succ_of_le (le_foldr_max types t h), h⟩

theorem uniqueTypes_strictAsc (types : List Nat) : (uniqueTypes types).Pairwise (· < ·) := by
  unfold uniqueTypes
  exact List.Pairwise.filter _ List.pairwise_lt_range

/-- **`np.unique` order.** `uniqueTypes types` is the strictly ascending list of the members of `types`. -/
theorem uniqueTypes_eq (types L : List Nat) (hs : L.Pairwise (· < ·)) (hm : ∀ t, t ∈ L ↔ t ∈ types) :
    uniqueTypes types = L :=
  strictAsc_ext _ _ (uniqueTypes_strictAsc types) hs (fun t => by rw [mem_uniqueTypes, hm])

/-! ### `sortByIdx` -/

theorem mem_insertByIdx {α} (x : Nat × α) : ∀ (l : List (Nat × α)) (y : Nat × α),
    y ∈ insertByIdx x l ↔ y = x ∨ y ∈ l
  | [], y => by simp [insertByIdx]
  | z :: r, y => by
    unfold insertByIdx
    by_cases hz : x.1 ≤ z.1
    · simp only [hz, if_true, List.mem_cons]
    · simp only [hz, if_false, List.mem_cons, mem_insertByIdx x r y]
      constructor
      · rintro (h | h | h)
        · exact Or.inr (Or.inl h)
        · exact Or.inl h
        · exact Or.inr (Or.inr h)
      · rintro (h | h | h)
        · exact Or.inr (Or.inl h)
        · exact Or.inl h
        · exact Or.inr (Or.inr h)

theorem mem_sortByIdx {α} : ∀ (l : List (Nat × α)) (y : Nat × α), y ∈ sortByIdx l ↔ y ∈ l
  | [], y => by simp [sortByIdx]
  | x :: r, y => by
    have ih := mem_sortByIdx r y
    unfold sortByIdx at ih ⊢
    simp only [List.foldr_cons, mem_insertByIdx, ih, List.mem_cons]

theorem insertByIdx_strict {α} (x : Nat × α) : ∀ (l : List (Nat × α)),
    (l.map (·.1)).Pairwise (· < ·) → (∀ y ∈ l, y.1 ≠ x.1) → ((insertByIdx x l).map (·.1)).Pairwise (· < ·)
  | [], _, _ => by simp [insertByIdx]
  | z :: r, hs, hne => by
    unfold insertByIdx
    have hs' := hs
    simp only [List.map_cons, List.pairwise_cons] at hs'
    by_cases hz : x.1 ≤ z.1
    · simp only [hz, if_true, List.map_cons, List.pairwise_cons]
      have hlt : x.1 < z.1 := by have := hne z (by simp); omega
      refine ⟨?_, hs'⟩
      intro t ht
      rcases List.mem_cons.mp ht with e | h'
      · omega
      · have := hs'.1 t h'; omega
    · simp only [hz, if_false, List.map_cons, List.pairwise_cons]
      refine ⟨?_, insertByIdx_strict x r hs'.2 (fun y hy => hne y (by simp [hy]))⟩
      intro t ht
      obtain ⟨y, hy, e⟩ := List.mem_map.mp ht
      rcases (mem_insertByIdx x r y).mp hy with e2 | h'
      · subst e2; omega
      · exact hs'.1 t (List.mem_map.mpr ⟨y, h', e⟩)

/-- pairs with pairwise distinct ids are sorted into strictly ascending id order -/
theorem sortByIdx_strict {α} : ∀ (l : List (Nat × α)), (l.map (·.1)).Pairwise (· ≠ ·) →
    ((sortByIdx l).map (·.1)).Pairwise (· < ·)
  | [], _ => by simp [sortByIdx]
  | x :: r, h => by
    simp only [List.map_cons, List.pairwise_cons] at h
    have ih := sortByIdx_strict r h.2
    unfold sortByIdx at ih ⊢
    simp only [List.foldr_cons]
    apply insertByIdx_strict x _ ih
    intro y hy
    have hy' : y ∈ r := (mem_sortByIdx r y).mp hy
    exact fun e => h.1 y.1 (List.mem_map.mpr ⟨y, hy', rfl⟩) e.symm

/-! ### `mapM'` tools -/

theorem mapM'_eq_some_map {α β} (f : α → Option β) (g : α → β) : ∀ (l : List α),
    (∀ x ∈ l, f x = some (g x)) → mapM' f l = some (l.map g)
  | [], _ => rfl
  | x :: r, h => by
    unfold mapM'
    rw [h x (by simp), mapM'_eq_some_map f g r (fun y hy => h y (by simp [hy]))]
    rfl

theorem mapM'_map {α β γ} (f : β → Option γ) (g : α → β) : ∀ (l : List α),
    mapM' f (l.map g) = mapM' (fun x => f (g x)) l
  | [] => rfl
  | x :: r => by
    simp only [List.map_cons]
    unfold mapM'
    rw [mapM'_map f g r]

/-- element-wise relation of two lists (core Lean has no `Forall₂`) -/
inductive AllRel {α β} (R : α → β → Prop) : List α → List β → Prop
  | nil : AllRel R [] []
  | cons {x y l ys} : R x y → AllRel R l ys → AllRel R (x :: l) (y :: ys)

/-- writer side: every element is produced and satisfies a relation to its source -/
theorem mapM'_forall₂ {α β} (f : α → Option β) (R : α → β → Prop) : ∀ (l : List α),
    (∀ x ∈ l, ∃ y, f x = some y ∧ R x y) → ∃ ys, mapM' f l = some ys ∧ AllRel R l ys
  | [], _ => ⟨[], rfl, AllRel.nil⟩
  | x :: r, h => by
    obtain ⟨y, hy, hR⟩ := h x (by simp)
    obtain ⟨ys, hys, hRs⟩ := mapM'_forall₂ f R r (fun z hz => h z (by simp [hz]))
    refine ⟨y :: ys, ?_, AllRel.cons hR hRs⟩
    unfold mapM'
    rw [hy, hys]

/-- reader side: elements related to their sources are mapped to a function of the sources -/
theorem mapM'_of_forall₂ {α β γ} (R : α → β → Prop) (g : β → Option γ) (h : α → γ) :
    ∀ (l : List α) (ys : List β), AllRel R l ys → (∀ x ∈ l, ∀ y, R x y → g y = some (h x)) →
      mapM' g ys = some (l.map h)
  | _, _, AllRel.nil, _ => rfl
  | x :: l, y :: ys, AllRel.cons hR hRs, hg => by
    unfold mapM'
    rw [hg x (by simp) y hR, mapM'_of_forall₂ R g h l ys hRs (fun z hz => hg z (by simp [hz]))]
    rfl

end Fc.W
