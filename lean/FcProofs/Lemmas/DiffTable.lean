/-
  FcProofs.Lemmas.DiffTable — lemmas for the tabular `_subtract` (C14_table_values).
-/
import FcProofs.Lemmas.DiffCells
namespace Fc.C14
section
variable {κ : Type} [BEq κ] [LawfulBEq κ]

theorem dictGet_dictInsert {ν : Type} (k k' : κ) (v : ν) (d : List (κ × ν)) :
    dictGet k (dictInsert k' v d) = if k' == k then some v else dictGet k d := by
  induction d with
  | nil => simp [dictInsert, dictGet]
  | cons x xs ih =>
    obtain ⟨kx, vx⟩ := x
    simp only [dictInsert]
    by_cases h : kx == k'
    · have e := eq_of_beq h
      subst e
      simp only [beq_self_eq_true, if_true, dictGet]
      by_cases h2 : kx == k <;> simp [h2]
    · have hf : (kx == k') = false := by simpa using h
      simp only [hf, Bool.false_eq_true, if_false, dictGet]
      by_cases h2 : kx == k
      · have e := eq_of_beq h2
        subst e
        have : (k' == kx) = false := beq_false_symm hf
        simp [this]
      · have h2f : (kx == k) = false := by simpa using h2
        simp only [h2f, Bool.false_eq_true, if_false]
        exact ih

theorem dictGet_foldl_insert {ν : Type} (k : κ) (ds init : List (κ × ν)) (hnd : (keysOf ds).Nodup) :
    dictGet k (ds.foldl (fun d kv => dictInsert kv.1 kv.2 d) init) =
      (dictGet k ds).orElse (fun _ => dictGet k init) := by
  induction ds generalizing init with
  | nil => simp [dictGet]
  | cons x xs ih =>
    obtain ⟨kx, vx⟩ := x
    rw [keysOf_cons, List.nodup_cons] at hnd
    simp only [List.foldl_cons]
    rw [ih _ hnd.2, dictGet_dictInsert]
    simp only [dictGet]
    by_cases h : kx == k
    · have e := eq_of_beq h
      subst e
      have : dictGet kx xs = none := (dictGet_none_iff _ _).mpr hnd.1
      simp [this]
    · simp [h]

/-- the names of a `find_matches` result are pairwise distinct, and are exactly the names of either side -/
theorem findMatches_names (l1 l2 : List (κ × NdArr)) (h1 : (keysOf l1).Nodup) (h2 : (keysOf l2).Nodup) :
    let m := findMatches (fun (a b : κ × NdArr) => a.1 == b.1) l1 l2
    let names := m.matched.map (·.1.1) ++ m.orphansSource.map (·.1) ++ m.orphansReference.map (·.1)
    names.Nodup ∧ ∀ k, k ∈ names ↔ ((dictGet k l1).isSome = true ∨ (dictGet k l2).isSome = true) := by
  obtain ⟨ha, hb, hc, hp, hs⟩ := findMatches_spec l1 l2 h1 h2
  generalize findMatches (fun (a b : κ × NdArr) => a.1 == b.1) l1 l2 = m at ha hb hc hp hs
  have hkM : m.matched.map (·.1.1) = keysOf (matchedKV m) := by simp [keysOf, matchedKV]
  have hnd12 : (keysOf (matchedKV m) ++ keysOf m.orphansSource).Nodup := (List.Perm.nodup_iff hp).mpr h1
  have hsub : (keysOf m.orphansReference).Sublist (keysOf l2) := List.Sublist.map (fun x : κ × NdArr => x.1) hs
  have hcmem : ∀ a, a ∈ keysOf m.orphansReference ↔ (dictGet a l1 = none ∧ a ∈ keysOf l2) := by
    intro a
    constructor
    · intro hm
      have h3 : dictGet a m.orphansReference ≠ none := fun hn => ((dictGet_none_iff _ _).mp hn) hm
      rw [hc] at h3
      rcases hx : dictGet a l1 with _ | y
      · exact ⟨rfl, hsub.subset hm⟩
      · rw [hx] at h3; simp at h3
    · rintro ⟨hn, hm⟩
      have : dictGet a m.orphansReference ≠ none := by
        rw [hc, hn]
        simp
        exact fun e => ((dictGet_none_iff _ _).mp e) hm
      exact Classical.byContradiction fun hnm => this ((dictGet_none_iff _ _).mpr hnm)
  refine ⟨?_, ?_⟩
  · show (m.matched.map (·.1.1) ++ keysOf m.orphansSource ++ keysOf m.orphansReference).Nodup
    rw [hkM]
    refine List.nodup_append.mpr ⟨hnd12, hsub.nodup h2, ?_⟩
    intro a ha1 b hb1 hab
    subst hab
    have : a ∉ keysOf l1 := (dictGet_none_iff _ _).mp ((hcmem a).mp hb1).1
    exact this ((List.Perm.mem_iff hp).mp ha1)
  · intro k
    show k ∈ (m.matched.map (·.1.1) ++ keysOf m.orphansSource ++ keysOf m.orphansReference) ↔ _
    rw [hkM, List.mem_append, List.Perm.mem_iff hp, hcmem]
    constructor
    · rintro (h | ⟨_, h⟩)
      · left
        rcases hx : dictGet k l1 with _ | y
        · exact absurd h ((dictGet_none_iff _ _).mp hx)
        · rfl
      · right
        rcases hx : dictGet k l2 with _ | y
        · exact absurd h ((dictGet_none_iff _ _).mp hx)
        · rfl
    · rintro (h | h)
      · left
        exact Classical.byContradiction fun hn => by
          rw [(dictGet_none_iff _ _).mpr hn] at h; simp at h
      · rcases hx : dictGet k l1 with _ | y
        · right
          refine ⟨rfl, ?_⟩
          exact Classical.byContradiction fun hn => by
            rw [(dictGet_none_iff _ _).mpr hn] at h; simp at h
        · left
          exact Classical.byContradiction fun hn => by
            rw [(dictGet_none_iff _ _).mpr hn] at hx; simp at hx

theorem subColumns_spec (n : Nat) (L : List ((String × NdArr) × (String × NdArr)))
    (h : ∀ p ∈ L, (promote p.1.2.dtype p.2.2.dtype).isSome = true) :
    ∃ ds, subColumns n L = some ds ∧ keysOf ds = L.map (·.1.1) ∧
      ∀ k, dictGet k ds =
        (dictGet k (L.map fun p => (p.1.1, (p.1.2, p.2.2)))).bind (fun aa => subColumn n aa.1 aa.2) := by
  induction L with
  | nil => exact ⟨[], rfl, rfl, fun k => by simp [dictGet]⟩
  | cons p ps ih =>
    obtain ⟨⟨k1, a1⟩, ⟨k2, a2⟩⟩ := p
    obtain ⟨ds, hds, hk, hl⟩ := ih (fun q hq => h q (List.mem_cons_of_mem _ hq))
    have hp := h ((k1, a1), (k2, a2)) List.mem_cons_self
    simp only at hp
    rcases hpr : promote a1.dtype a2.dtype with _ | res
    · rw [hpr] at hp; simp at hp
    · have hsc : ∃ d, subColumn n a1 a2 = some d := by simp [subColumn, hpr]
      obtain ⟨d, hd⟩ := hsc
      refine ⟨(k1, d) :: ds, ?_, ?_, ?_⟩
      · simp [subColumns, hd, hds]
      · simp [keysOf_cons, hk]
      · intro k
        simp only [List.map_cons, dictGet]
        by_cases e : k1 == k
        · simp [e, hd]
        · simp only [e]
          exact hl k

end

/-- content of one matching column: the common rows hold the difference, the tail is NaN -/
theorem subColumn_spec (n : Nat) (a1 a2 : NdArr) (res : DType) (hp : promote a1.dtype a2.dtype = some res)
    (hn : n = max a1.data.length a2.data.length) :
    subColumn n a1 a2 = some ⟨.flt f64, [n], (List.range n).map fun i =>
      if i < a1.data.length ∧ i < a2.data.length then
        toF64 res (subEntry res a1.dtype a2.dtype (a1.data.getD i 0) (a2.data.getD i 0))
      else .nan⟩ := by
  simp only [subColumn, hp, Option.some.injEq, DArr.mk.injEq, true_and]
  apply List.ext_getElem?
  intro i
  by_cases hi : i < n
  · by_cases hc : i < a1.data.length ∧ i < a2.data.length
    · have hlen : i < (List.zipWith (fun x y => toF64 res (subEntry res a1.dtype a2.dtype x y)) a1.data a2.data).length := by
        simp; omega
      rw [List.getElem?_append_left hlen]
      simp [List.getElem?_zipWith, hc.1, hc.2, hi, List.getD_eq_getElem?_getD]
    · have hlen : (List.zipWith (fun x y => toF64 res (subEntry res a1.dtype a2.dtype x y)) a1.data a2.data).length ≤ i := by
        simp; omega
      rw [List.getElem?_append_right hlen]
      simp only [List.length_zipWith] at hlen ⊢
      have : i - min a1.data.length a2.data.length < n - min a1.data.length a2.data.length := by omega
      simp [this, hi, hc]
  · have h1 : ((List.zipWith (fun x y => toF64 res (subEntry res a1.dtype a2.dtype x y)) a1.data a2.data) ++
        List.replicate (n - (List.zipWith (fun x y => toF64 res (subEntry res a1.dtype a2.dtype x y)) a1.data a2.data).length) DVal.nan).length ≤ i := by
      simp; omega
    rw [List.getElem?_eq_none h1, List.getElem?_eq_none (by simp; omega)]

end Fc.C14
