/-
  FcProofs.Lemmas.LexsortRelabel — an index-level relabelling produces the geometric
  correspondence `SameGeometry`:

      points₂ = points₁[ρ]   (ρ : new index ↦ old index, a permutation of range n)
      the cell rows of mesh 2 (all type blocks together) are, up to order, the rows of mesh 1 with
      every corner p replaced by ρ⁻¹(p) = position of p in ρ

  Corner order inside a cell and the coordinates are unchanged, so every cell centre is computed
  from the same numbers in the same order: bitwise identical.
-/
import FcProofs.Lemmas.LexsortGeom
import Mathlib.Data.List.Nodup
namespace Fc.C02
open Fc.C02.Spec

/-- all cell rows of a mesh, block after block -/
def allRows (m : Mesh) : List (List Nat) := m.cells.flatMap (·.2)

theorem adjacentCells_eq (m : Mesh) (p : Nat) :
    adjacentCells m p = (allRows m).filter fun row => row.contains p := by
  unfold adjacentCells allRows
  rw [List.filter_flatMap]

/-- `m2` stores the mesh `m1` with relabelled points (`ρ`: new ↦ old) and re-ordered cells / blocks -/
structure Relabeled (m1 m2 : Mesh) (ρ : List Nat) : Prop where
  dim : m1.dim = m2.dim
  perm : ρ.Perm (List.range m1.points.length)
  points : m2.points = ρ.map fun i => m1.points.getD i []
  wf : ∀ row ∈ allRows m1, ∀ p ∈ row, p < m1.points.length
  rows : (allRows m2).Perm ((allRows m1).map fun row => row.map fun p => ρ.idxOf p)

/-- the correspondence of point items induced by `ρ` -/
def relabelItem (ρ : List Nat) (it : PItem) : PItem := (ρ.idxOf it.1, it.2)

/-! ### list facts -/

theorem map_getD_range {α : Type} (l : List α) (d : α) : (List.range l.length).map (fun i => l.getD i d) = l := by
  apply List.ext_getElem
  · simp
  · intro i h1 h2
    simp [List.getD_eq_getElem?_getD, List.getElem?_eq_getElem (by simpa using h1 : i < l.length)]

theorem map_idxOf_self (l : List Nat) (h : l.Nodup) : l.map (fun p => l.idxOf p) = List.range l.length := by
  apply List.ext_getElem
  · simp
  · intro i h1 h2
    simp only [List.getElem_map, List.getElem_range]
    exact h.idxOf_getElem i (by simpa using h1)

theorem pitems_eq_map (m : Mesh) :
    pitems m = (List.range m.points.length).map fun p => (p, m.points.getD p []) := by
  unfold pitems
  symm
  apply List.zip_of_prod
  · simp [List.map_map, Function.comp_def]
  · rw [List.map_map]
    exact map_getD_range m.points []

section relabel
variable {m1 m2 : Mesh} {ρ : List Nat}

theorem Relabeled.nodup (h : Relabeled m1 m2 ρ) : ρ.Nodup := (h.perm.nodup_iff).mpr List.nodup_range

theorem Relabeled.mem_iff (h : Relabeled m1 m2 ρ) (p : Nat) : p ∈ ρ ↔ p < m1.points.length := by
  rw [h.perm.mem_iff, List.mem_range]

theorem Relabeled.length (h : Relabeled m1 m2 ρ) : ρ.length = m1.points.length := by
  simpa using h.perm.length_eq

/-- a point keeps its coordinates -/
theorem Relabeled.getD_points (h : Relabeled m1 m2 ρ) {c : Nat} (hc : c < m1.points.length) :
    m2.points.getD (ρ.idxOf c) [] = m1.points.getD c [] := by
  have hmem : c ∈ ρ := (h.mem_iff c).mpr hc
  have hlt : ρ.idxOf c < ρ.length := List.idxOf_lt_length_iff.mpr hmem
  rw [h.points, List.getD_eq_getElem?_getD, List.getElem?_map, List.getElem?_eq_getElem hlt]
  simp [List.getElem_idxOf hlt]

/-- the point items of mesh 2 are the relabelled point items of mesh 1 -/
theorem Relabeled.onto (h : Relabeled m1 m2 ρ) : ((pitems m1).map (relabelItem ρ)).Perm (pitems m2) := by
  have e2 : pitems m2 = ρ.map fun p => (ρ.idxOf p, m1.points.getD p []) := by
    unfold pitems
    symm
    apply List.zip_of_prod
    · rw [List.map_map]
      have : (Prod.fst ∘ fun p => (ρ.idxOf p, m1.points.getD p [])) = fun p => ρ.idxOf p := rfl
      rw [this, map_idxOf_self ρ h.nodup, h.points, List.length_map]
    · rw [List.map_map, h.points]
      rfl
  rw [e2, pitems_eq_map m1, List.map_map]
  exact (h.perm.map _).symm

/-! ### cell centres are unchanged -/

theorem Relabeled.foldl_rows (h : Relabeled m1 m2 ρ) :
    ∀ (ps : List Nat) (init : List Int), (∀ q ∈ ps, q < m1.points.length) →
      (ps.map fun p => ρ.idxOf p).foldlM (fun acc q => addRows acc (m2.points.getD q [])) init =
        ps.foldlM (fun acc q => addRows acc (m1.points.getD q [])) init
  | [], _, _ => rfl
  | q :: ps, init, hq => by
    simp only [List.map_cons, List.foldlM_cons]
    rw [h.getD_points (hq q (List.mem_cons_self ..))]
    cases addRows init (m1.points.getD q []) with
    | none => rfl
    | some acc => exact h.foldl_rows ps acc (fun x hx => hq x (List.mem_cons_of_mem _ hx))

theorem Relabeled.cellCentre_eq (h : Relabeled m1 m2 ρ) (row : List Nat)
    (hrow : ∀ p ∈ row, p < m1.points.length) :
    cellCentre m2.points (row.map fun p => ρ.idxOf p) = cellCentre m1.points row := by
  cases row with
  | nil => rfl
  | cons p ps =>
    simp only [List.map_cons, cellCentre, List.length_cons, List.length_map]
    rw [h.getD_points (hrow p (List.mem_cons_self ..)),
      h.foldl_rows ps _ (fun x hx => hrow x (List.mem_cons_of_mem _ hx))]

/-! ### `mapM` on permuted lists -/

theorem mapM_none_of_mem {α β : Type} (f : α → Option β) : ∀ (l : List α) (a : α), a ∈ l → f a = none →
    l.mapM f = none
  | x :: l, a, ha, hf => by
    rw [List.mapM_cons]
    rcases List.mem_cons.mp ha with rfl | ha'
    · rw [hf]; rfl
    · rw [mapM_none_of_mem f l a ha' hf]
      cases f x <;> rfl

theorem mapM_perm {α β : Type} (f : α → Option β) (d : α → β) {l1 l2 : List α} (hp : l1.Perm l2) :
    (l1.mapM f = none ∧ l2.mapM f = none) ∨
    ∃ r1 r2, l1.mapM f = some r1 ∧ l2.mapM f = some r2 ∧ r1.Perm r2 := by
  by_cases hall : ∀ a ∈ l1, (f a).isSome = true
  · right
    refine ⟨_, _, mapM_eq_some_map f d l1 hall,
      mapM_eq_some_map f d l2 (fun a ha => hall a (hp.mem_iff.mpr ha)), hp.map _⟩
  · left
    simp only [not_forall] at hall
    obtain ⟨a, ha, hf⟩ := hall
    have hnone : f a = none := by
      cases hfa : f a with
      | none => rfl
      | some b => rw [hfa] at hf; simp at hf
    exact ⟨mapM_none_of_mem f l1 a ha hnone, mapM_none_of_mem f l2 a (hp.mem_iff.mp ha) hnone⟩

theorem mapM_map_congr {α β γ : Type} (g : α → β) (f : β → Option γ) (f' : α → Option γ) :
    ∀ l : List α, (∀ a ∈ l, f (g a) = f' a) → (l.map g).mapM f = l.mapM f'
  | [], _ => rfl
  | a :: l, h => by
    rw [List.map_cons, List.mapM_cons, List.mapM_cons, h a (List.mem_cons_self ..),
      mapM_map_congr g f f' l (fun x hx => h x (List.mem_cons_of_mem _ hx))]

/-! ### adjacency and centres -/

theorem Relabeled.adjacent (h : Relabeled m1 m2 ρ) (p : Nat) :
    (adjacentCells m2 (ρ.idxOf p)).Perm
      ((adjacentCells m1 p).map fun row => row.map fun c => ρ.idxOf c) := by
  rw [adjacentCells_eq, adjacentCells_eq]
  refine (h.rows.filter _).trans ?_
  rw [List.filter_map]
  have : (allRows m1).filter ((fun row => row.contains (ρ.idxOf p)) ∘ fun row => row.map fun c => ρ.idxOf c) =
      (allRows m1).filter fun row => row.contains p := by
    apply List.filter_congr
    intro row hrow
    simp only [Function.comp, List.contains_eq_mem, List.mem_map, decide_eq_decide]
    constructor
    · rintro ⟨c, hc, e⟩
      have hcρ : c ∈ ρ := (h.mem_iff c).mpr (h.wf row hrow c hc)
      rw [(List.idxOf_inj hcρ).mp e] at hc
      exact hc
    · intro hc
      exact ⟨p, hc, rfl⟩
  rw [this]

/-- corresponding points have the same adjacent cell centres up to order -/
theorem Relabeled.centres (h : Relabeled m1 m2 ρ) (p : Nat) :
    (centresOf m1 p = none ∧ centresOf m2 (ρ.idxOf p) = none) ∨
    (∃ c1 c2, centresOf m1 p = some c1 ∧ centresOf m2 (ρ.idxOf p) = some c2 ∧ c1.Perm c2) := by
  have hadj := h.adjacent p
  have hwf : ∀ row ∈ adjacentCells m1 p, ∀ c ∈ row, c < m1.points.length := by
    intro row hrow
    rw [adjacentCells_eq] at hrow
    exact h.wf row (List.mem_filter.mp hrow).1
  have hmapM : ((adjacentCells m1 p).map fun row => row.map fun c => ρ.idxOf c).mapM (cellCentre m2.points) =
      (adjacentCells m1 p).mapM (cellCentre m1.points) :=
    mapM_map_congr _ _ _ _ (fun row hrow => h.cellCentre_eq row (hwf row hrow))
  unfold centresOf
  by_cases he : (adjacentCells m1 p).isEmpty = true
  · have he2 : (adjacentCells m2 (ρ.idxOf p)).isEmpty = true := by
      have hl := hadj.length_eq
      rw [List.isEmpty_iff] at he ⊢
      rw [he] at hl
      exact List.length_eq_zero_iff.mp (by simpa using hl)
    left
    simp [he, he2]
  · have he2 : ¬ (adjacentCells m2 (ρ.idxOf p)).isEmpty = true := by
      intro h2
      have hl := hadj.length_eq
      rw [List.isEmpty_iff] at h2
      rw [h2] at hl
      apply he
      rw [List.isEmpty_iff]
      exact List.length_eq_zero_iff.mp (by simpa using hl.symm)
    simp only [he, he2, Bool.false_eq_true, if_false]
    rcases mapM_perm (cellCentre m2.points) (fun _ => []) hadj with ⟨n1, n2⟩ | ⟨r1, r2, e1, e2, hp12⟩
    · left
      rw [hmapM] at n2
      exact ⟨n2, n1⟩
    · right
      rw [hmapM] at e2
      exact ⟨r2, r1, e2, e1, hp12.symm⟩

/-- **a relabelling produces the geometric correspondence** -/
theorem Relabeled.sameGeometry (h : Relabeled m1 m2 ρ) : SameGeometry m1 m2 (relabelItem ρ) where
  dim := h.dim
  onto := h.onto
  row _ _ := rfl
  centres a ha := by
    rw [pitems_eq_map] at ha
    obtain ⟨p, _, rfl⟩ := List.mem_map.mp ha
    exact h.centres p

end relabel
end Fc.C02
