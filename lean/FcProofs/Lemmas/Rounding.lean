/-
  FcProofs.Lemmas.Rounding — facts about the rounding model `Fc.rne / rndRaw / rndMag`:
  R1 monotone, R2 (odd) is by construction (`rndInt` rounds the magnitude), R3 `rnd 0 = 0`,
  R4 identity on representables (definition of `representable`), scale invariance.
-/
import FcModel.F64
namespace Fc

theorem two_pow_pos' (n : Nat) : 0 < 2 ^ n := Nat.pow_pos (by decide)

/-- `rne` expressed with an arbitrary positive divisor, to reason linearly -/
def rneP (a p : Nat) : Nat :=
  let f := a / p
  let r := a % p
  if 2 * r < p then f else if p < 2 * r then f + 1 else if f % 2 = 0 then f else f + 1

theorem rne_eq_rneP (a sh : Nat) : rne a sh = rneP a (2 ^ sh) := rfl

theorem rneP_bounds (a p : Nat) : a / p ≤ rneP a p ∧ rneP a p ≤ a / p + 1 := by
  unfold rneP
  simp only
  split
  · omega
  · split
    · omega
    · split <;> omega

theorem rneP_mono {a b p : Nat} (hp : 0 < p) (h : a ≤ b) : rneP a p ≤ rneP b p := by
  have hdiv : a / p ≤ b / p := Nat.div_le_div_right h
  have ha := Nat.div_add_mod a p
  have hb := Nat.div_add_mod b p
  have hra := Nat.mod_lt a hp
  have hrb := Nat.mod_lt b hp
  rcases Nat.lt_or_ge (a / p) (b / p) with hlt | hge
  · have h1 := (rneP_bounds a p).2
    have h2 := (rneP_bounds b p).1
    omega
  · have heq : a / p = b / p := by omega
    have hr : a % p ≤ b % p := by
      have : p * (a / p) = p * (b / p) := by rw [heq]
      omega
    unfold rneP
    simp only
    rw [heq]
    by_cases c1 : 2 * (a % p) < p <;> by_cases c2 : p < 2 * (a % p) <;>
      by_cases d1 : 2 * (b % p) < p <;> by_cases d2 : p < 2 * (b % p) <;>
      by_cases e : b / p % 2 = 0 <;> simp only [c1, c2, d1, d2, e, if_true, if_false] <;> omega

theorem rneP_mul (k p : Nat) (hp : 0 < p) : rneP (k * p) p = k := by
  unfold rneP
  simp only
  have h1 : k * p / p = k := Nat.mul_div_cancel k hp
  have h2 : k * p % p = 0 := Nat.mul_mod_left k p
  rw [h1, h2]
  simp [hp]

theorem rne_mono {a b : Nat} (sh : Nat) (h : a ≤ b) : rne a sh ≤ rne b sh :=
  rneP_mono (two_pow_pos' sh) h

theorem rne_mul_pow (k sh : Nat) : rne (k * 2 ^ sh) sh = k :=
  rneP_mul k _ (two_pow_pos' sh)

/-- scaling numerator and divisor by the same factor does not change the rounding -/
theorem rneP_scale (a p c : Nat) (hc : 0 < c) : rneP (a * c) (p * c) = rneP a p := by
  unfold rneP
  simp only
  have h1 : a * c / (p * c) = a / p := Nat.mul_div_mul_right a p hc
  have h2 : a * c % (p * c) = (a % p) * c := by
    rw [Nat.mul_comm a c, Nat.mul_comm p c, Nat.mul_mod_mul_left, Nat.mul_comm]
  rw [h1, h2]
  have e1 : (2 * (a % p * c) < p * c) ↔ (2 * (a % p) < p) := by
    rw [← Nat.mul_assoc]
    exact Nat.mul_lt_mul_right hc
  have e2 : (p * c < 2 * (a % p * c)) ↔ (p < 2 * (a % p)) := by
    rw [← Nat.mul_assoc]
    exact Nat.mul_lt_mul_right hc
  simp only [e1, e2]

theorem rne_scale (a sh k : Nat) : rne (a * 2 ^ k) (sh + k) = rne a sh := by
  rw [rne_eq_rneP, rne_eq_rneP, Nat.pow_add]
  exact rneP_scale a (2 ^ sh) (2 ^ k) (two_pow_pos' k)

end Fc

namespace Fc

theorem log2_mono {a b : Nat} (h : a ≤ b) : a.log2 ≤ b.log2 := by
  rcases Nat.eq_zero_or_pos a with rfl | ha
  · simp [Nat.log2_zero]
  · have hb : b ≠ 0 := by omega
    rcases Nat.lt_or_ge b.log2 a.log2 with hlt | hge
    · have h1 : b < 2 ^ a.log2 := (Nat.log2_lt hb).mp hlt
      have h2 : 2 ^ a.log2 ≤ a := Nat.log2_self_le (by omega)
      omega
    · exact hge

theorem log2_mul_two_pow {a : Nat} (ha : a ≠ 0) (k : Nat) : (a * 2 ^ k).log2 = a.log2 + k := by
  induction k with
  | zero => simp
  | succ k ih =>
    have : a * 2 ^ (k + 1) = 2 * (a * 2 ^ k) := by rw [Nat.pow_succ]; ac_rfl
    rw [this, Nat.log2_two_mul, ih]
    · omega
    · exact Nat.mul_ne_zero ha (Nat.ne_of_gt (two_pow_pos' k))

theorem rndRaw_zero (F : Fmt) (s : Nat) : rndRaw F 0 s = 0 := by
  unfold rndRaw
  simp only
  have : rne 0 (ulpShift F 0 s) = 0 := by
    have := rne_mul_pow 0 (ulpShift F 0 s)
    simpa using this
  rw [this]; simp

theorem ulpShift_ge (F : Fmt) (a s : Nat) : s ≤ ulpShift F a s := by
  unfold ulpShift; omega

/-- R1: rounding is monotone -/
theorem rndRaw_mono (F : Fmt) {a b : Nat} (s : Nat) (h : a ≤ b) : rndRaw F a s ≤ rndRaw F b s := by
  rcases Nat.eq_zero_or_pos a with rfl | ha
  · rw [rndRaw_zero]; exact Nat.zero_le _
  · have hb : b ≠ 0 := by omega
    have hl := log2_mono h
    have hsa := ulpShift_ge F a s
    have hsb := ulpShift_ge F b s
    rcases Nat.lt_or_ge (ulpShift F a s) (ulpShift F b s) with hlt | hge
    · -- different binades: separate by the power of two g = 2^(log2 b)
      have hshb : ulpShift F b s = b.log2 - (F.prec - 1) := by unfold ulpShift at *; omega
      have hlog : a.log2 < b.log2 := by unfold ulpShift at *; omega
      have hag : a < 2 ^ b.log2 := (Nat.log2_lt (by omega)).mp hlog
      have hgb : 2 ^ b.log2 ≤ b := Nat.log2_self_le hb
      have hsa' : ulpShift F a s ≤ b.log2 := by omega
      have hsb' : ulpShift F b s ≤ b.log2 := by omega
      have g1 : 2 ^ b.log2 = 2 ^ (b.log2 - ulpShift F a s) * 2 ^ ulpShift F a s := by
        rw [← Nat.pow_add]; congr 1; omega
      have g2 : 2 ^ b.log2 = 2 ^ (b.log2 - ulpShift F b s) * 2 ^ ulpShift F b s := by
        rw [← Nat.pow_add]; congr 1; omega
      have ra : rne a (ulpShift F a s) ≤ 2 ^ (b.log2 - ulpShift F a s) := by
        have := rne_mono (ulpShift F a s) (Nat.le_of_lt hag)
        rw [g1, rne_mul_pow] at this
        exact this
      have rb : 2 ^ (b.log2 - ulpShift F b s) ≤ rne b (ulpShift F b s) := by
        have := rne_mono (ulpShift F b s) hgb
        rw [g2, rne_mul_pow] at this
        exact this
      unfold rndRaw
      simp only
      calc rne a (ulpShift F a s) * 2 ^ (ulpShift F a s - s)
          ≤ 2 ^ (b.log2 - ulpShift F a s) * 2 ^ (ulpShift F a s - s) := Nat.mul_le_mul_right _ ra
        _ = 2 ^ (b.log2 - s) := by rw [← Nat.pow_add]; congr 1; omega
        _ = 2 ^ (b.log2 - ulpShift F b s) * 2 ^ (ulpShift F b s - s) := by
            rw [← Nat.pow_add]; congr 1; omega
        _ ≤ rne b (ulpShift F b s) * 2 ^ (ulpShift F b s - s) := Nat.mul_le_mul_right _ rb
    · have heq : ulpShift F a s = ulpShift F b s := by
        have : ulpShift F a s ≤ ulpShift F b s := by unfold ulpShift; omega
        omega
      unfold rndRaw
      simp only
      rw [heq]
      exact Nat.mul_le_mul_right _ (rne_mono _ h)

theorem ulpShift_scale (F : Fmt) {a : Nat} (ha : a ≠ 0) (s k : Nat) :
    ulpShift F (a * 2 ^ k) (s + k) = ulpShift F a s + k := by
  unfold ulpShift
  rw [log2_mul_two_pow ha]
  omega

/-- scale invariance: `(a·2^k) / 2^(s+k) = a / 2^s` round to the same value -/
theorem rndRaw_scale (F : Fmt) (a s k : Nat) : rndRaw F (a * 2 ^ k) (s + k) = rndRaw F a s := by
  rcases Nat.eq_zero_or_pos a with rfl | ha
  · simp [rndRaw_zero]
  · unfold rndRaw
    simp only
    rw [ulpShift_scale F (by omega), rne_scale]
    congr 2
    have := ulpShift_ge F a s
    omega

theorem rndMag_scale (F : Fmt) (a s k : Nat) : rndMag F (a * 2 ^ k) (s + k) = rndMag F a s := by
  unfold rndMag; rw [rndRaw_scale]

/-- R3 -/
theorem rndMag_zero (F : Fmt) (s : Nat) : rndMag F 0 s = some 0 := by
  unfold rndMag
  simp only [rndRaw_zero]
  have : ¬ (2 ^ F.emaxU ≤ 0) := by have := two_pow_pos' F.emaxU; omega
  simp [this]

theorem leInf_refl (x : Option Nat) : leInf x x = true := by
  cases x <;> simp [leInf]

theorem leInf_trans {x y z : Option Nat} (h1 : leInf x y = true) (h2 : leInf y z = true) :
    leInf x z = true := by
  cases x <;> cases y <;> cases z <;> simp_all [leInf] <;> omega

/-- R1 for the overflow-extended result -/
theorem rndMag_mono (F : Fmt) {a b : Nat} (s : Nat) (h : a ≤ b) :
    leInf (rndMag F a s) (rndMag F b s) = true := by
  have hm := rndRaw_mono F s h
  unfold rndMag
  simp only
  by_cases hb : 2 ^ F.emaxU ≤ rndRaw F b s
  · simp [hb, leInf]
  · have ha : ¬ 2 ^ F.emaxU ≤ rndRaw F a s := by omega
    simp [ha, hb, leInf, hm]

theorem leInf_maxInf_left (x y : Option Nat) : leInf x (maxInf x y) = true := by
  cases x <;> cases y <;> simp [leInf, maxInf] <;> omega

theorem leInf_maxInf_right (x y : Option Nat) : leInf y (maxInf x y) = true := by
  cases x <;> cases y <;> simp [leInf, maxInf] <;> omega

theorem maxInf_mono {x x' y y' : Option Nat} (h1 : leInf x x' = true) (h2 : leInf y y' = true) :
    leInf (maxInf x y) (maxInf x' y') = true := by
  cases x <;> cases x' <;> cases y <;> cases y' <;> simp_all [leInf, maxInf] <;> omega

theorem maxInf_comm (x y : Option Nat) : maxInf x y = maxInf y x := by
  cases x <;> cases y <;> simp [maxInf, Nat.max_comm]

end Fc
