/-
  FcProofs.Lemmas.PyLiteC11Orch — phase 6: presentation of the C11 model's values (FcModel/Compare.lean) to the
  translated orchestration code of `_field_data_comparison.py`, and the assumptions about its EXTERNAL callees
  (`OrchExt`), stated once and used by every theorem of Props/C11_Orchestration.lean.
-/
import FcModel.Compare
import FcProofs.Lemmas.PyLiteC11
import FcProofs.Lemmas.PyLiteC11Matching
import FcProofs.Lemmas.PyLiteOrch
namespace Fc.PyLite.C11O
open Fc Fc.PyLite Fc.PyLite.C11 Fc.PyLite.C11M

/-- a `Field`: its (annotated) name, and its values — opaque, identified by the model's tag -/
def fldVal (f : Fld) : Val := .record [("name", .int f.name), ("values", .int f.tag)]

/-- the field `_without_annotation` builds -/
def stripF (strip : Nat → Nat) (f : Fld) : Fld := ⟨strip f.name, f.tag⟩

/-- a `FieldComparison` object reduced to what is observable: name, status, the property `is_failure` (= `not self.status`)
    and its truth value (`__bool__` = `not self.is_failure`), so that `not c` and `c.is_failure` are the same test -/
def cmpObj (c : Cmp) : Val :=
  .record [("name", .int c.name), ("status", fstVal c.status), ("is_failure", .bool (!c.truthy)),
           ("__bool__", .bool c.truthy)]

/-- a `MatchResult` of fields -/
def queryVal (pairs : List (Fld × Fld)) (os : List Fld) (orr : List Fld) : Val :=
  matchResultVal (.list (pairs.map (pairV fldVal fldVal))) (.list (os.map fldVal)) (.list (orr.map fldVal))

/-- a `FieldData` object: its domain (opaque) and its fields -/
def fdVal (dom : Val) (fs : List Fld) : Val := .record [("domain", dom), ("fields", .list (fs.map fldVal))]

/-- a `FieldDataComparator` object -/
def comparatorVal (dS dR : Val) (src ref : List Fld) : Val :=
  .record [("_source", fdVal dS src), ("_reference", fdVal dR ref)]

/-- a `FieldComparisonSuite` object as its constructor leaves it (attributes in alphabetical order) -/
def suiteObj (s : Suite) : Val :=
  .record [("_domain_eq_check", predResultVal s.domainEq), ("_failed", .list (s.failed.map cmpObj)),
           ("_passed", .list (s.passed.map cmpObj)), ("_skipped", .list (s.skipped.map cmpObj))]

/-- the dict of stored attributes the translated `__init__` returns, for the same suite -/
def suiteDict (s : Suite) : Val :=
  .dict [(.str "_domain_eq_check", predResultVal s.domainEq), (.str "_failed", .list (s.failed.map cmpObj)),
         (.str "_passed", .list (s.passed.map cmpObj)), (.str "_skipped", .list (s.skipped.map cmpObj))]

/-- object whose attributes are the entries of a dict with string keys (Python: the object `C(…)` returns has the
    attributes `C.__init__` stored) -/
def objOfDict : Val → Res Val
  | .dict kvs => (go kvs).map .record
  | _ => .stuck
where
  go : List (Val × Val) → Res (List (String × Val))
    | [] => .ok []
    | (.str k, v) :: r => (go r).map fun fs => (k, v) :: fs
    | _ => .stuck

/-- what evaluating a selected predicate does, as the result of the external call -/
def outcomeRes (rt : Val) (exc : String) : Outcome → Res Val
  | .pass => .ok (.list [rt, .record [("value", .bool true), ("report", .str "report"), ("__bool__", .bool true)]])
  | .fail => .ok (.list [rt, .record [("value", .bool false), ("report", .str "report"), ("__bool__", .bool false)]])
  | .raise => .raise exc

/-- ASSUMPTIONS about the external callees of the translated `FieldDataComparator` methods.
    `strip` = `remove_annotation` on names; `incl`/`excl` = truth tables of the two filter callables stored on the
    comparator `cv`; `pred` = what selecting a predicate for a pair of (annotation-free) fields with the selector
    `selV` and evaluating it through `_measure_time(predicate)(source.values, reference.values)` does — pass, fail,
    or an exception of class `excOf s r`, which `except Exception` catches (`hexc`; a `KeyboardInterrupt` is NOT
    turned into an `error` entry by the code); `str(predicate)` does not raise; the callback `cbV` returns `cbRes c`
    (recorded in the trace); the constructors build objects with the given attributes. -/
structure OrchExt (X : Ext) (cv selV cbV : Val) (strip : Nat → Nat) (incl excl : Nat → Bool)
    (pred : Fld → Fld → Outcome) (excOf : Fld → Fld → String) (cbRes : Cmp → Val) : Prop where
  hstrip : ∀ n : Nat, X "remove_annotation" [.int n] = .ok (.int (strip n))
  hfield : ∀ n v, X "FieldImpl(name=,values=)" [n, v] = .ok (.record [("name", n), ("values", v)])
  hincl : ∀ n : Nat, X "._field_inclusion_filter" [cv, .int n] = .ok (.bool (incl n))
  hexcl : ∀ n : Nat, X "._field_exclusion_filter" [cv, .int n] = .ok (.bool (excl n))
  hsel : ∀ s r, ∃ p, X "call" [selV, fldVal (stripF strip s), fldVal (stripF strip r)] = .ok p ∧
      (∃ sv, X "str" [p] = .ok sv) ∧
      ∃ m rt, X "_measure_time" [p] = .ok m ∧
        X "call" [m, .int s.tag, .int r.tag] = outcomeRes rt (excOf s r) (pred s r)
  hexc : ∀ s r, caughtByException (excOf s r) = true
  hcmp : ∀ (t : Val) (n : Nat) (p r : Val) (s : FStatus),
      X "FieldComparison(cpu_time=,name=,predicate=,report=,status=)" [t, .int n, p, r, fstVal s] = .ok (cmpObj ⟨n, s⟩)
  hcb : ∀ c, X "call" [cbV, cmpObj c] = .ok (cbRes c)

/-! ### the loops of `_filter_matches` and `_compare_matches` as folds -/

/-- one round of `_filter_matches` on (filtered, matching_pairs) -/
def filterStep (sel : Nat → Bool) (acc : List Fld × List (Fld × Fld)) (p : Fld × Fld) : List Fld × List (Fld × Fld) :=
  if sel p.1.name then (acc.1, acc.2 ++ [p]) else (acc.1 ++ [p.1], acc.2)

theorem foldl_filterStep (sel : Nat → Bool) (ps : List (Fld × Fld)) (F : List Fld) (M : List (Fld × Fld)) :
    ps.foldl (filterStep sel) (F, M) = (F ++ (filterMatches sel ps).2, M ++ (filterMatches sel ps).1) := by
  induction ps generalizing F M with
  | nil => simp [filterMatches]
  | cons p r ih =>
    simp only [List.foldl_cons, filterStep]
    cases h : sel p.1.name <;> simp [ih, filterMatches, h]

/-- one round of `_compare_matches` on the list of comparisons -/
def compareStep (pred : Fld → Fld → Outcome) (acc : List Cmp) (p : Fld × Fld) : List Cmp :=
  acc ++ [⟨p.1.name, outcomeStatus (pred p.1 p.2)⟩]

theorem foldl_compareStep (pred : Fld → Fld → Outcome) (ps : List (Fld × Fld)) (A : List Cmp) :
    ps.foldl (compareStep pred) A = A ++ compareMatches pred ps := by
  induction ps generalizing A with
  | nil => simp [compareMatches]
  | cons p r ih => simp [List.foldl_cons, compareStep, ih, compareMatches]

/-- one round of the loop of `FieldComparisonSuite.__init__` on (passed, failed, skipped) -/
def bucketStep (acc : List Cmp × List Cmp × List Cmp) (c : Cmp) : List Cmp × List Cmp × List Cmp :=
  match bucketOf c with
  | .passed => (acc.1 ++ [c], acc.2.1, acc.2.2)
  | .failed => (acc.1, acc.2.1 ++ [c], acc.2.2)
  | .skipped => (acc.1, acc.2.1, acc.2.2 ++ [c])

theorem foldl_bucketStep (cs : List Cmp) (P F S : List Cmp) :
    cs.foldl bucketStep (P, F, S) =
      (P ++ cs.filter (fun c => bucketOf c = .passed), F ++ cs.filter (fun c => bucketOf c = .failed),
       S ++ cs.filter (fun c => bucketOf c = .skipped)) := by
  induction cs generalizing P F S with
  | nil => simp
  | cons c r ih =>
    simp only [List.foldl_cons, bucketStep]
    cases h : bucketOf c <;> simp [ih, h]

/-- an optional callable argument `arg` (`x = x or <default>`): either the caller's (truthy) object `v`, or `None` and
    the default the external `dflt` builds is `v` -/
def OrDefault (X : Ext) (arg : Val) (dflt : String) (v : Val) : Prop :=
  (arg = v ∧ v.truthy = .ok true) ∨ (arg = .none ∧ X dflt [] = .ok v)

/-- what evaluating `arg or <default>()` does, in the form the evaluated body contains -/
theorem OrDefault.elim {X : Ext} {arg : Val} {dflt : String} {v : Val} (h : OrDefault X arg dflt v) :
    ∃ t, arg.truthy = .ok t ∧ (if t = true then Res.ok arg else X dflt []) = .ok v := by
  rcases h with ⟨rfl, ht⟩ | ⟨rfl, hd⟩
  · exact ⟨true, ht, by simp⟩
  · exact ⟨false, rfl, by simp [hd]⟩

section
variable {X : Ext} {cv selV cbV : Val} {strip : Nat → Nat} {incl excl : Nat → Bool}
  {pred : Fld → Fld → Outcome} {excOf : Fld → Fld → String} {cbRes : Cmp → Val}
  (hX : OrchExt X cv selV cbV strip incl excl pred excOf cbRes)
include hX

/-! the constructor assumption `hcmp`, spelled out per status literal (the form the evaluated bodies contain) -/
theorem OrchExt.cmp_passed (t : Val) (n : Nat) (p r : Val) :
    X "FieldComparison(cpu_time=,name=,predicate=,report=,status=)" [t, .int n, p, r, .enum "FieldComparisonStatus" "passed"]
      = .ok (cmpObj ⟨n, .passed⟩) := hX.hcmp t n p r .passed
theorem OrchExt.cmp_failed (t : Val) (n : Nat) (p r : Val) :
    X "FieldComparison(cpu_time=,name=,predicate=,report=,status=)" [t, .int n, p, r, .enum "FieldComparisonStatus" "failed"]
      = .ok (cmpObj ⟨n, .failed⟩) := hX.hcmp t n p r .failed
theorem OrchExt.cmp_error (t : Val) (n : Nat) (p r : Val) :
    X "FieldComparison(cpu_time=,name=,predicate=,report=,status=)" [t, .int n, p, r, .enum "FieldComparisonStatus" "error"]
      = .ok (cmpObj ⟨n, .error⟩) := hX.hcmp t n p r .error
theorem OrchExt.cmp_missing_source (t : Val) (n : Nat) (p r : Val) :
    X "FieldComparison(cpu_time=,name=,predicate=,report=,status=)"
        [t, .int n, p, r, .enum "FieldComparisonStatus" "missing_source"]
      = .ok (cmpObj ⟨n, .missing_source⟩) := hX.hcmp t n p r .missing_source
theorem OrchExt.cmp_missing_reference (t : Val) (n : Nat) (p r : Val) :
    X "FieldComparison(cpu_time=,name=,predicate=,report=,status=)"
        [t, .int n, p, r, .enum "FieldComparisonStatus" "missing_reference"]
      = .ok (cmpObj ⟨n, .missing_reference⟩) := hX.hcmp t n p r .missing_reference
theorem OrchExt.cmp_filtered (t : Val) (n : Nat) (p r : Val) :
    X "FieldComparison(cpu_time=,name=,predicate=,report=,status=)" [t, .int n, p, r, .enum "FieldComparisonStatus" "filtered"]
      = .ok (cmpObj ⟨n, .filtered⟩) := hX.hcmp t n p r .filtered
end

end Fc.PyLite.C11O
