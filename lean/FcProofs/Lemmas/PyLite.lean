/-
  FcProofs.Lemmas.PyLite — lemmas about the PyLite interpreter (FcModel/PyLite.lean) that the
  `Cxx_source_*` theorems share: iteration over an embedded list (`all`, `any`, comprehensions,
  `for` loops), `len`, indexing, and the tactic `pylite_eval` that runs the interpreter symbolically.
-/
import FcModel.PyLite
namespace Fc.PyLite

/-- run the interpreter on the (concrete) translated AST with symbolic inputs; further simp lemmas
    (e.g. `indexOf` to unfold indexing on concrete lists) may be given in brackets -/
syntax "pylite_eval" ("[" Lean.Parser.Tactic.simpLemma,* "]")? : tactic
macro_rules
  | `(tactic| pylite_eval) =>
    `(tactic| simp [Fn.run, Fn.runGen, Fn.flow, initEnv, execBlock, exec, eval, evalList, withVal, withBool, bindAll,
        St.set, Res.bind, Res.map, getAttr, binop, cmpop, ordOp, memOf, Val.eqv, Val.eqv.eqvList, Val.truthy,
        Val.asList, Val.asInt, isNone, builtin, intsOf, anyM, allM, compM, forLoop, List.lookup])
  | `(tactic| pylite_eval [$ls,*]) =>
    `(tactic| simp [Fn.run, Fn.runGen, Fn.flow, initEnv, execBlock, exec, eval, evalList, withVal, withBool, bindAll,
        St.set, Res.bind, Res.map, getAttr, binop, cmpop, ordOp, memOf, Val.eqv, Val.eqv.eqvList, Val.truthy,
        Val.asList, Val.asInt, isNone, builtin, intsOf, anyM, allM, compM, forLoop, List.lookup, $ls,*])

/-! ### `all(...)`, `any(...)`, comprehensions over an embedded list -/

theorem allM_map_ok {α : Type} (f : Val → Res Bool) (emb : α → Val) (p : α → Bool)
    (h : ∀ a, f (emb a) = .ok (p a)) (l : List α) : allM f (l.map emb) = .ok (l.all p) := by
  induction l with
  | nil => rfl
  | cons a r ih =>
    simp only [List.map_cons, allM, h, Res.bind, ih, List.all_cons]
    cases p a <;> simp

theorem anyM_map_ok {α : Type} (f : Val → Res Bool) (emb : α → Val) (p : α → Bool)
    (h : ∀ a, f (emb a) = .ok (p a)) (l : List α) : anyM f (l.map emb) = .ok (l.any p) := by
  induction l with
  | nil => rfl
  | cons a r ih =>
    simp only [List.map_cons, anyM, h, Res.bind, ih, List.any_cons]
    cases p a <;> simp

theorem compM_map_ok {α : Type} (f : Val → Res (Option Val)) (emb : α → Val) (g : α → Option Val)
    (h : ∀ a, f (emb a) = .ok (g a)) (l : List α) : compM f (l.map emb) = .ok (l.filterMap g) := by
  induction l with
  | nil => rfl
  | cons a r ih =>
    simp only [List.map_cons, compM, h, Res.bind, Res.map, ih, List.filterMap_cons]
    cases g a <;> rfl

/-! ### lists of integers -/

def intList (l : List Int) : Val := .list (l.map .int)
def natList (l : List Nat) : Val := .list (l.map fun (n : Nat) => Val.int (n : Int))

theorem intsOf_map {α : Type} (f : α → Int) (l : List α) :
    intsOf (l.map fun a => Val.int (f a)) = some (l.map f) := by
  induction l with
  | nil => rfl
  | cons a r ih => simp [intsOf, Val.asInt, ih]

/-- a comprehension without filter whose element is always an integer -/
theorem compM_map_int {α : Type} (f : Val → Res (Option Val)) (emb : α → Val) (g : α → Int)
    (h : ∀ a, f (emb a) = .ok (some (.int (g a)))) (l : List α) :
    compM f (l.map emb) = .ok (l.map fun a => Val.int (g a)) := by
  rw [compM_map_ok f emb (fun a => some (.int (g a))) h l]
  congr 1
  induction l with
  | nil => rfl
  | cons a r ih => simp [ih]

theorem natList_length (l : List Nat) : (l.map fun (n : Nat) => Val.int (n : Int)).length = l.length := by simp

/-- `xs[-1]` on a list of naturals -/
theorem indexOf_natList_last (s : List Nat) :
    indexOf (.list (s.map fun (n : Nat) => Val.int (n : Int))) (.int (-1)) =
      match s.getLast? with
      | some x => .ok (.int (x : Int))
      | none => .raise "IndexError" := by
  unfold indexOf
  cases hs : s.getLast? with
  | none =>
    have : s = [] := by simpa using hs
    subst this
    rfl
  | some x =>
    have hne : s ≠ [] := by intro h; subst h; simp at hs
    have hlen : 0 < s.length := List.length_pos_iff.mpr hne
    have hk : ((-1 : Int) + ((s.map fun (n : Nat) => Val.int (n : Int)).length : Int)).toNat = s.length - 1 := by
      simp only [List.length_map]; omega
    have hlast : s[s.length - 1]? = some x := by rw [← List.getLast?_eq_getElem?]; exact hs
    have hnn : ¬ ((-1 : Int) + ((s.map fun (n : Nat) => Val.int (n : Int)).length : Int) < 0) := by
      simp only [List.length_map]; omega
    simp only [show ((-1 : Int) < 0) from by decide, if_true, hk, List.getElem?_map, hlast, Option.map_some, hnn,
      if_false]

/-- `xs[i]` for a natural index into an embedded list -/
theorem indexOf_map_nat {α : Type} (emb : α → Val) (l : List α) (i : Nat) (x : α) (h : l[i]? = some x) :
    indexOf (.list (l.map emb)) (.int (i : Int)) = .ok (emb x) := by
  unfold indexOf
  have h0 : ¬ ((i : Int) < 0) := by omega
  simp only [h0, if_false, Int.toNat_natCast, List.getElem?_map, h, Option.map_some]

end Fc.PyLite
