/-
  FcProofs.Lemmas.PyLite — lemmas about the PyLite interpreter (FcModel/PyLite.lean) that the
  `Cxx_source_*` theorems share: iteration over an embedded list (`all`, `any`, comprehensions,
  `for` loops), `len`, indexing, and the tactic `pylite_eval` that runs the interpreter symbolically.
-/
import FcModel.PyLite
namespace Fc.PyLite

/-- run the interpreter on the (concrete) translated AST with symbolic inputs -/
macro "pylite_eval" : tactic =>
  `(tactic| simp [Fn.run, Fn.runGen, Fn.flow, initEnv, execBlock, exec, eval, evalList, withVal, withBool, bindAll,
      St.set, Res.bind, Res.map, getAttr, binop, cmpop, ordOp, memOf, Val.eqv, Val.eqv.eqvList, Val.truthy,
      Val.asList, Val.asInt, isNone, builtin, List.lookup])

macro "pylite_eval_at" h:ident : tactic =>
  `(tactic| simp [Fn.run, Fn.runGen, Fn.flow, initEnv, execBlock, exec, eval, evalList, withVal, withBool, bindAll,
      St.set, Res.bind, Res.map, getAttr, binop, cmpop, ordOp, memOf, Val.eqv, Val.eqv.eqvList, Val.truthy,
      Val.asList, Val.asInt, isNone, builtin, List.lookup] at $h:ident)

/-! ### `all(...)`, `any(...)`, comprehensions over an embedded list -/

theorem allM_map_ok {α : Type} (f : Val → Res Bool) (emb : α → Val) (p : α → Bool)
    (h : ∀ a, f (emb a) = .ok (p a)) (l : List α) : allM f (l.map emb) = .ok (l.all p) := by
  induction l with
  | nil => rfl
  | cons a r ih =>
    simp only [List.map_cons, allM, h, Res.bind, ih, List.all_cons]
    cases p a <;> simp

theorem anyM_map_ok {α : Type} (f : Val → Res Bool) (emb : α → Val) (p : α → Bool)
    (h : ∀ a, f (emb a) = .ok (p a)) (l : List α) : anyM f (l.map emb) = .ok (l.any p) := by
  induction l with
  | nil => rfl
  | cons a r ih =>
    simp only [List.map_cons, anyM, h, Res.bind, ih, List.any_cons]
    cases p a <;> simp

theorem compM_map_ok {α : Type} (f : Val → Res (Option Val)) (emb : α → Val) (g : α → Option Val)
    (h : ∀ a, f (emb a) = .ok (g a)) (l : List α) : compM f (l.map emb) = .ok (l.filterMap g) := by
  induction l with
  | nil => rfl
  | cons a r ih =>
    simp only [List.map_cons, compM, h, Res.bind, Res.map, ih, List.filterMap_cons]
    cases g a <;> rfl

/-! ### lists of integers -/

def intList (l : List Int) : Val := .list (l.map .int)
def natList (l : List Nat) : Val := .list (l.map fun (n : Nat) => Val.int (n : Int))

theorem intsOf_map_int (l : List Int) : intsOf (l.map .int) = some l := by
  induction l with
  | nil => rfl
  | cons a r ih => simp [intsOf, Val.asInt, ih]

end Fc.PyLite
