/-
  FcProofs.Lemmas.PyLiteC02Orch — phase 6, round 2: the retry ladder of `MeshFieldsComparator.__call__` as an ABSTRACT
  state machine (`ladderAbs`) over arbitrary operations (`Ops`: run a comparison, extend the space dimension, strip orphan
  points, sort points, sort cells, "is structured"), the presentation of its states to the PyLite interpreter, and the
  assumptions about the EXTERNAL callees of the translated body (`LadderExt`).  The concrete model FcModel/Ladder.lean is an
  instance (`ladder_eq_ladderAbs`).
-/
import FcModel.Ladder
import FcProofs.Lemmas.PyLiteOrch
import FcProofs.Lemmas.PyLiteC11Orch
namespace Fc.PyLite.C02O
open Fc Fc.PyLite Fc.C02

/-- the operations the ladder is built from (`σ` = one side: a mesh-fields object, `R` = a comparison suite) -/
structure Ops (σ R : Type) where
  /-- `_run_comparison` on the current (source, reference) -/
  run : σ → σ → R
  /-- `bool(suite.domain_equality_check)` -/
  ok : R → Bool
  /-- `domain.points.shape[1]` -/
  dim : σ → Nat
  /-- `isinstance(domain, StructuredMesh)` -/
  structured : σ → Bool
  extend : Nat → σ → Except String σ
  strip : σ → Except String σ
  sortPoints : σ → Except String σ
  sortCells : σ → Except String σ

/-- the status messages handed to `reordering_callback` -/
inductive Msg (R : Type) where
  /-- `_mesh_fail_msg(last.report, what)` -/
  | retry (last : R) (what : String)
  /-- "Skipping mesh reordering because both meshes are structured" -/
  | skip
  /-- `_mesh_fail_msg(last.report)` -/
  | final (last : R)

inductive LRes (σ R : Type) where
  /-- rung reached, returned suite, the comparator's `_source` / `_reference` afterwards, messages in order -/
  | done (rung : Nat) (suite : R) (src ref : σ) (msgs : List (Msg R))
  /-- an exception leaves the comparator -/
  | raised (exc : String)

variable {σ R : Type}

/-- the end of `__call__`: the final message unless the domains compared equal -/
def finish (ops : Ops σ R) (rung : Nat) (o : R) (s r : σ) (tr : List (Msg R)) : LRes σ R :=
  .done rung o s r (if ops.ok o then tr else tr ++ [.final o])

/-- `_permute`: strip orphan points (unless disabled), then sort the points -/
def permute (ops : Ops σ R) (fl : LadderFlags) (s : σ) : Except String σ :=
  if fl.noOrphanRemoval then ops.sortPoints s
  else match ops.strip s with
    | .ok s' => ops.sortPoints s'
    | .error e => .error e

/-- the `if structured … elif not disable_mesh_reordering …` part and the end -/
def reorder (ops : Ops σ R) (fl : LadderFlags) (s r : σ) (rung : Nat) (last : R) (tr : List (Msg R)) : LRes σ R :=
  if !fl.noReorder && (ops.structured s && ops.structured r) then finish ops rung last s r (tr ++ [.skip])
  else if !fl.noReorder then
    match permute ops fl s with
    | .error e => .raised e
    | .ok s2 =>
      match permute ops fl r with
      | .error e => .raised e
      | .ok r2 =>
        if ops.ok (ops.run s2 r2) then .done 2 (ops.run s2 r2) s2 r2 (tr ++ [.retry last "sorted points"])
        else
          match ops.sortCells s2 with
          | .error e => .raised e
          | .ok s3 =>
            match ops.sortCells r2 with
            | .error e => .raised e
            | .ok r3 =>
              finish ops 3 (ops.run s3 r3) s3 r3
                (tr ++ [.retry last "sorted points", .retry (ops.run s2 r2) "sorted cells"])
  else finish ops rung last s r tr

/-- `MeshFieldsComparator.__call__` -/
def ladderAbs (ops : Ops σ R) (fl : LadderFlags) (s r : σ) : LRes σ R :=
  if ops.ok (ops.run s r) then .done 0 (ops.run s r) s r []
  else if ops.dim s ≠ ops.dim r && !fl.noDimMatch then
    match ops.extend (max (ops.dim s) (ops.dim r)) s with
    | .error e => .raised e
    | .ok s1 =>
      match ops.extend (max (ops.dim s) (ops.dim r)) r with
      | .error e => .raised e
      | .ok r1 =>
        if ops.ok (ops.run s1 r1) then .done 1 (ops.run s1 r1) s1 r1 [.retry (ops.run s r) "extended points"]
        else reorder ops fl s1 r1 1 (ops.run s1 r1) [.retry (ops.run s r) "extended points"]
  else reorder ops fl s r 0 (ops.run s r) []

/-! ### presentation to PyLite -/

/-- how the states / suites are shown to the interpreter: opaque payloads, the report of a suite's domain check -/
structure Pres (σ R : Type) where
  side : σ → Val
  suite : R → Val
  report : R → Val
  /-- what the reordering callback returns for the (plain text) "skipping" message -/
  skip : Val

def domV (ops : Ops σ R) (P : Pres σ R) (s : σ) : Val :=
  .record [("points", .record [("shape", .list [.none, .int (ops.dim s)])]), ("payload", P.side s)]

/-- a `MeshFields` object: `.domain.points.shape[1]` is its space dimension -/
def sideV (ops : Ops σ R) (P : Pres σ R) (s : σ) : Val := .record [("domain", domV ops P s), ("payload", P.side s)]

/-- a `FieldComparisonSuite`: `.domain_equality_check` has a truth value and a report -/
def suiteV (ops : Ops σ R) (P : Pres σ R) (o : R) : Val :=
  .record [("domain_equality_check", .record [("report", P.report o), ("__bool__", .bool (ops.ok o))]),
           ("payload", P.suite o)]

/-- the `MeshFieldsComparator` object -/
def selfV (ops : Ops σ R) (P : Pres σ R) (fl : LadderFlags) (s r : σ) : Val :=
  .record [("_source", sideV ops P s), ("_reference", sideV ops P r),
           ("_disable_mesh_reordering", .bool fl.noReorder),
           ("_disable_orphan_point_removal", .bool fl.noOrphanRemoval),
           ("_disable_space_dimension_matching", .bool fl.noDimMatch)]

def msgV (P : Pres σ R) : Msg R → Val
  | .retry o w => .list [.str "msg", P.report o, .str w]
  | .skip => P.skip
  | .final o => .list [.str "msg", P.report o]

def excR (ops : Ops σ R) (P : Pres σ R) : Except String σ → Res Val
  | .ok s => .ok (sideV ops P s)
  | .error e => .raise e

/-- ASSUMPTIONS about the external callees of the translated ladder: `_run_comparison` on the comparator in its CURRENT
    state is `ops.run` of its current sides (it builds a `FieldDataComparator` from `self._source`, `self._reference` — that
    one is `C11_source_comparator_call`); the four transformations are `ops.extend / strip / sortPoints / sortCells` (an
    exception of theirs is raised); `isinstance(domain, mesh_protocols.StructuredMesh)` is `ops.structured`;
    `_mesh_fail_msg` builds the message from the report (texts opaque); the reordering callback returns the message it
    was given (so the trace lists the messages), and `P.skip` for the plain-text message (its wording is not part of the
    statement). -/
structure LadderExt (X : Ext) (ops : Ops σ R) (P : Pres σ R) (fl : LadderFlags) (selV cbV rcbV smV : Val) : Prop where
  hrun : ∀ s r, X "._run_comparison" [selfV ops P fl s r, selV, cbV] = .ok (suiteV ops P (ops.run s r))
  hmsg3 : ∀ sv rp w, X "._mesh_fail_msg" [sv, rp, .str w] = .ok (.list [.str "msg", rp, .str w])
  hmsg2 : ∀ sv rp, X "._mesh_fail_msg" [sv, rp] = .ok (.list [.str "msg", rp])
  hcb : ∀ l, X "call" [rcbV, .list l] = .ok (.list l)
  hcbs : ∀ t, X "call" [rcbV, .str t] = .ok P.skip
  hext : ∀ (d : Nat) s, X "extend_space_dimension_to" [.int d, sideV ops P s] = excR ops P (ops.extend d s)
  hstrip : ∀ s, X "strip_orphan_points" [sideV ops P s] = excR ops P (ops.strip s)
  hsortp : ∀ s, X "sort_points" [sideV ops P s] = excR ops P (ops.sortPoints s)
  hsortc : ∀ s, X "sort_cells" [sideV ops P s] = excR ops P (ops.sortCells s)
  hglob : X "global mesh_protocols" [] = .ok (.record [("StructuredMesh", smV)])
  hinst : ∀ s, X "isinstance" [domV ops P s, smV] = .ok (.bool (ops.structured s))

/-! ### the concrete model FcModel/Ladder.lean as an instance -/

/-- the operations of FcModel/Ladder.lean; a state is (is it the source side?, side): the two sides may use different
    argsort routines.  Meshes of the model are unstructured; the model's transformations other than the dimension
    extension and the point sort do not fail. -/
def concOps (asS asR : List Int → List Nat) (h : List Nat → Int) : Ops (Bool × Side) C02.Outcome where
  run a b := runComparison a.2 b.2
  ok o := o.domainEq
  dim a := a.2.f.mesh.dim
  structured _ := false
  extend d a := match extendDim d a.2.f with
    | some f => .ok (a.1, { a.2 with f := f })
    | none => .error "ValueError"
  strip a := .ok (a.1, { a.2 with f := stripOrphans (if a.1 then asS else asR) a.2.f })
  sortPoints a := match sortPoints (if a.1 then asS else asR) a.2.tol a.2.f with
    | some f2 => .ok (a.1, { a.2 with f := f2, permuted := true })
    | none => .error "ValueError"
  sortCells a := .ok (a.1, { a.2 with f := sortCells (if a.1 then asS else asR) h a.2.f })

section
variable (asS asR : List Int → List Nat) (h : List Nat → Int)
theorem concOps_run (a b : Bool × Side) : (concOps asS asR h).run a b = runComparison a.2 b.2 := rfl
theorem concOps_ok (o : C02.Outcome) : (concOps asS asR h).ok o = o.domainEq := rfl
theorem concOps_dim (a : Bool × Side) : (concOps asS asR h).dim a = a.2.f.mesh.dim := rfl
theorem concOps_structured (a : Bool × Side) : (concOps asS asR h).structured a = false := rfl
theorem concOps_extend (d : Nat) (a : Bool × Side) : (concOps asS asR h).extend d a =
    match extendDim d a.2.f with
    | some f => .ok (a.1, { a.2 with f := f })
    | none => .error "ValueError" := rfl
theorem concOps_strip (a : Bool × Side) : (concOps asS asR h).strip a =
    .ok (a.1, { a.2 with f := stripOrphans (if a.1 then asS else asR) a.2.f }) := rfl
theorem concOps_sortPoints (a : Bool × Side) : (concOps asS asR h).sortPoints a =
    match sortPoints (if a.1 then asS else asR) a.2.tol a.2.f with
    | some f2 => .ok (a.1, { a.2 with f := f2, permuted := true })
    | none => .error "ValueError" := rfl
theorem concOps_sortCells (a : Bool × Side) : (concOps asS asR h).sortCells a =
    .ok (a.1, { a.2 with f := sortCells (if a.1 then asS else asR) h a.2.f }) := rfl
end

/-- what FcModel/Ladder.lean's result type keeps of an abstract result -/
def forget {σ : Type} : LRes σ C02.Outcome → LadderRes
  | .done rung o _ _ _ => .done rung o
  | .raised _ => .raised

theorem ite_ne_of {α : Type} {c : Prop} [Decidable c] {a b x : α} (ha : a ≠ x) (hb : b ≠ x) :
    (if c then a else b) ≠ x := by
  split <;> assumption

theorem int_max_cast (a b : Nat) : (if (a : Int) < (b : Int) then (b : Int) else (a : Int)) = ((max a b : Nat) : Int) := by
  simp only [Nat.max_def]
  split <;> split <;> omega

theorem int_max_cast' (a b : Nat) : (if a < b then (b : Int) else (a : Int)) = ((max a b : Nat) : Int) := by
  simp only [Nat.max_def]
  split <;> split <;> omega

theorem int_beq_cast (a b : Nat) : ((a : Int) == (b : Int)) = (a == b) := by
  rw [Bool.eq_iff_iff, beq_iff_eq, beq_iff_eq]
  omega

end Fc.PyLite.C02O
