/-
  FcProofs.Lemmas.PyLiteLoops — generic simulation lemmas for `for` loops run by the PyLite interpreter
  (FcModel/PyLite.lean) over an embedded list: a loop that accumulates (`forLoop_fold`) and a loop that is
  left by `return` at the first element satisfying a test (`forLoop_find`); membership of an embedded
  natural / string in an embedded list.
-/
import FcProofs.Lemmas.PyLite
namespace Fc.PyLite

/-- an accumulating loop: if one iteration of the body on `emb a` takes a state representing the accumulator
    `b` (`Inv b`) to one representing `step b a`, the whole loop computes `l.foldl step b` -/
theorem forLoop_fold {α β : Type} (emb : α → Val) (step : β → α → β) (Inv : β → St → Prop) (f : Val → St → Flow)
    (hstep : ∀ a b st, Inv b st → ∃ st', f (emb a) st = .next st' ∧ Inv (step b a) st') :
    ∀ (l : List α) (b : β) (st : St), Inv b st →
      ∃ st', forLoop f (l.map emb) st = .next st' ∧ Inv (l.foldl step b) st' := by
  intro l
  induction l with
  | nil => intro b st h; exact ⟨st, rfl, h⟩
  | cons a r ih =>
    intro b st h
    obtain ⟨st1, h1, hi1⟩ := hstep a b st h
    obtain ⟨st2, h2, hi2⟩ := ih (step b a) st1 hi1
    exact ⟨st2, by simp only [List.map_cons, forLoop, h1, h2], by simpa using hi2⟩

/-- a searching loop: the body returns (with `Q a v st'`) on the first element with `p a`, and otherwise goes
    on in a state that still satisfies `Inv` -/
theorem forLoop_find {α : Type} (emb : α → Val) (p : α → Bool) (Inv : St → Prop) (Q : α → Val → St → Prop)
    (f : Val → St → Flow) (l : List α)
    (hstep : ∀ a ∈ l, ∀ st, Inv st →
      (p a = true → ∃ v st', f (emb a) st = .ret v st' ∧ Q a v st') ∧
      (p a = false → ∃ st', f (emb a) st = .next st' ∧ Inv st')) :
    ∀ (st : St), Inv st →
      match l.find? p with
      | some a => ∃ v st', forLoop f (l.map emb) st = .ret v st' ∧ Q a v st'
      | none => ∃ st', forLoop f (l.map emb) st = .next st' ∧ Inv st' := by
  induction l with
  | nil => intro st h; exact ⟨st, rfl, h⟩
  | cons a r ih =>
    intro st h
    cases hp : p a with
    | true =>
      obtain ⟨v, st1, h1, hq⟩ := (hstep a (List.mem_cons_self ..) st h).1 hp
      simp only [List.find?_cons, hp]
      exact ⟨v, st1, by simp only [List.map_cons, forLoop, h1], hq⟩
    | false =>
      obtain ⟨st1, h1, hi1⟩ := (hstep a (List.mem_cons_self ..) st h).2 hp
      have := ih (fun b hb => hstep b (List.mem_cons_of_mem _ hb)) st1 hi1
      simp only [List.find?_cons, hp, List.map_cons, forLoop, h1]
      exact this

/-- `forLoop_fold` in the form used by the theorems: `r` is whatever the loop evaluates to -/
theorem forLoop_fold_eq {α β : Type} (emb : α → Val) (step : β → α → β) (Inv : β → St → Prop) {f : Val → St → Flow}
    {l : List α} {st : St} {r : Flow} (hr : forLoop f (l.map emb) st = r) (b : β) (hinv : Inv b st)
    (hstep : ∀ a b st, Inv b st → ∃ st', f (emb a) st = .next st' ∧ Inv (step b a) st') :
    ∃ st', r = .next st' ∧ Inv (l.foldl step b) st' := by
  obtain ⟨st', h1, h2⟩ := forLoop_fold emb step Inv f hstep l b st hinv
  exact ⟨st', by rw [← hr, h1], h2⟩

theorem forLoop_find_eq {α : Type} (emb : α → Val) (p : α → Bool) (Inv : St → Prop) (Q : α → Val → St → Prop)
    {f : Val → St → Flow} {l : List α} {st : St} {r : Flow} (hr : forLoop f (l.map emb) st = r) (hinv : Inv st)
    (hstep : ∀ a ∈ l, ∀ st, Inv st →
      (p a = true → ∃ v st', f (emb a) st = .ret v st' ∧ Q a v st') ∧
      (p a = false → ∃ st', f (emb a) st = .next st' ∧ Inv st')) :
    match l.find? p with
    | some a => ∃ v st', r = .ret v st' ∧ Q a v st'
    | none => ∃ st', r = .next st' ∧ Inv st' := by
  have := forLoop_find emb p Inv Q f l hstep st hinv
  rw [hr] at this
  exact this

/-- `b in xs` for an embedded list of naturals -/
theorem memOf_natList (b : Nat) (l : List Nat) :
    memOf (.int (b : Int)) (l.map fun (n : Nat) => Val.int (n : Int)) = .ok (l.contains b) := by
  induction l with
  | nil => rfl
  | cons a r ih =>
    simp only [List.map_cons, memOf, Val.eqv, ih, List.contains_cons]
    by_cases h : b = a
    · subst h; simp
    · have : ((b : Int) == (a : Int)) = false := by simp; omega
      simp [this, h]

/-- `d[k]` / `d.get(k)` on a dict with natural keys `ks` (in any order, repetitions allowed: the first entry
    decides, all entries of a key carry the same value `g k`) -/
theorem dictLookup_natKeys (g : Nat → Val) (a : Nat) (ks : List Nat) :
    dictLookup (.int (a : Int)) (ks.map fun (k : Nat) => (Val.int (k : Int), g k)) =
      .ok (if ks.contains a then some (g a) else none) := by
  induction ks with
  | nil => rfl
  | cons k r ih =>
    simp only [List.map_cons, dictLookup, Val.eqv, ih, List.contains_cons]
    by_cases h : a = k
    · subst h; simp
    · have : ((a : Int) == (k : Int)) = false := by simp; omega
      simp [this, h]

end Fc.PyLite
