/-
  FcProofs.Lemmas.Resid2Pad — zero padding of the coordinates (`extend_space_dimension_to`, mesh part) and
  the hypotheses of the point sort.

  `padMesh k m` = `m` with `k` zero columns appended to every point (what `Fc.extendSpaceDim` does to the mesh).
  Everything C02's point sort looks at is invariant:
    * `meshTolOf` (the largest |coordinate| does not change — the code copies the tolerances of the original
      mesh, the model recomputes them: same value),
    * the cluster keys of the old columns; the new columns are constant (all zeros: `Sep` trivial),
    * cell centres get `k` zero columns (`fadd 0 0 = 0`, `0 / n = 0` exactly),
  hence `PointHypP`, distinguishability (`padMesh_pointHypP`, `padMesh_hdist`) and the sorted index map
  (`padMesh_sortIdx`: any two `argsort` routines, via the abstract canonicity lemma `sortPoints_canonical_abs`).
-/
import FcProofs.Lemmas.ResidC19
namespace Fc.Resid2
open Fc Fc.C02 Fc.C02.Spec

/-! ### the lexicographic order ignores trailing columns on which the two items agree -/

theorem lexLE_trailing {α : Type} (K : Nat → α → Int) (a b : α) (k : Nat) : ∀ (n j : Nat),
    (∀ i, j + n ≤ i → i < j + n + k → K i a = K i b) → (lexLE K (n + k) j a b ↔ lexLE K n j a b)
  | 0, j, h => by
    simp only [Nat.zero_add, lexLE, iff_true]
    apply lexLE_of_kvec_eq
    exact (kvec_eq_iff K a b k j).mpr (fun i hi hi' => h i (by omega) (by omega))
  | n + 1, j, h => by
    have e : n + 1 + k = (n + k) + 1 := by omega
    rw [e]
    simp only [lexLE]
    rw [lexLE_trailing K a b k n (j + 1) (fun i hi hi' => h i (by omega) (by omega))]

theorem kvec_trailing {α : Type} (K : Nat → α → Int) (a b : α) (n k j : Nat)
    (h : ∀ i, j + n ≤ i → i < j + n + k → K i a = K i b) :
    kvec K (n + k) j a = kvec K (n + k) j b ↔ kvec K n j a = kvec K n j b := by
  rw [kvec_eq_iff, kvec_eq_iff]
  constructor
  · intro hk i hi hi'
    exact hk i hi (by omega)
  · intro hk i hi hi'
    by_cases hlt : i < j + n
    · exact hk i hi hlt
    · exact h i (by omega) (by omega)

/-! ### padding a list of items: generic key facts -/

section generic
variable {α : Type} {key : Nat → α → Int} {pad : α → α} {l : List α} {d k : Nat}

theorem column_pad_low (hlow : ∀ a ∈ l, ∀ j, j < d → key j (pad a) = key j a) {j : Nat} (hj : j < d) :
    (l.map pad).map (key j) = l.map (key j) := by
  rw [List.map_map]
  apply List.map_congr_left
  intro a ha
  exact hlow a ha j hj

theorem column_pad_high (hhigh : ∀ a ∈ l, ∀ j, d ≤ j → key j (pad a) = 0) {j : Nat} (hj : d ≤ j) :
    (l.map pad).map (key j) = l.map (fun _ => (0 : Int)) := by
  rw [List.map_map]
  apply List.map_congr_left
  intro a ha
  exact hhigh a ha j hj

theorem colKey_pad_low (A : Nat) (hlow : ∀ a ∈ l, ∀ j, j < d → key j (pad a) = key j a) {a : α} (ha : a ∈ l)
    {j : Nat} (hj : j < d) : colKey A key (l.map pad) j (pad a) = colKey A key l j a := by
  unfold colKey
  rw [column_pad_low hlow hj, hlow a ha j hj]

theorem colKey_pad_high (A : Nat) (hhigh : ∀ a ∈ l, ∀ j, d ≤ j → key j (pad a) = 0) {a b : α} (ha : a ∈ l)
    (hb : b ∈ l) {j : Nat} (hj : d ≤ j) :
    colKey A key (l.map pad) j (pad a) = colKey A key (l.map pad) j (pad b) := by
  unfold colKey
  rw [hhigh a ha j hj, hhigh b hb j hj]

/-- the order of the padded items by all `d + k` keys is the order of the original items by `d` keys -/
theorem lexLE_pad (A : Nat) (hlow : ∀ a ∈ l, ∀ j, j < d → key j (pad a) = key j a)
    (hhigh : ∀ a ∈ l, ∀ j, d ≤ j → key j (pad a) = 0) {a b : α} (ha : a ∈ l) (hb : b ∈ l) :
    lexLE (colKey A key (l.map pad)) (d + k) 0 (pad a) (pad b) ↔ lexLE (colKey A key l) d 0 a b := by
  rw [lexLE_trailing _ _ _ k d 0 (fun i hi _ => colKey_pad_high A hhigh ha hb (by omega))]
  apply lexLE_congr_rel
  intro i _ hi
  rw [colKey_pad_low A hlow ha (by omega), colKey_pad_low A hlow hb (by omega)]
  exact ⟨Iff.rfl, Iff.rfl⟩

theorem kvec_pad (A : Nat) (hlow : ∀ a ∈ l, ∀ j, j < d → key j (pad a) = key j a)
    (hhigh : ∀ a ∈ l, ∀ j, d ≤ j → key j (pad a) = 0) {a b : α} (ha : a ∈ l) (hb : b ∈ l) :
    kvec (colKey A key (l.map pad)) (d + k) 0 (pad a) = kvec (colKey A key (l.map pad)) (d + k) 0 (pad b) ↔
      kvec (colKey A key l) d 0 a = kvec (colKey A key l) d 0 b := by
  rw [kvec_trailing _ _ _ d k 0 (fun i hi _ => colKey_pad_high A hhigh ha hb (by omega))]
  rw [kvec_eq_iff, kvec_eq_iff]
  constructor
  · intro h i hi hi'
    have := h i hi hi'
    rwa [colKey_pad_low A hlow ha (by omega), colKey_pad_low A hlow hb (by omega)] at this
  · intro h i hi hi'
    rw [colKey_pad_low A hlow ha (by omega), colKey_pad_low A hlow hb (by omega)]
    exact h i hi hi'

/-- `Sep` of the padded items: the old columns are unchanged, the new ones constant -/
theorem sepCols_pad {t : MeshTol} {A B M : Nat} (hs : SepCols t A B M key d l)
    (hlow : ∀ a ∈ l, ∀ j, j < d → key j (pad a) = key j a)
    (hhigh : ∀ a ∈ l, ∀ j, d ≤ j → key j (pad a) = 0) : SepCols t A B M key (d + k) (l.map pad) := by
  refine ⟨hs.hAB, hs.bounds, ?_, ?_⟩
  · intro j _
    by_cases hj : j < d
    · rw [column_pad_low hlow hj]; exact hs.sep j hj
    · rw [column_pad_high hhigh (by omega), sepCol_iff]
      intro u hu v hv
      obtain ⟨_, _, rfl⟩ := List.mem_map.mp hu
      obtain ⟨_, _, rfl⟩ := List.mem_map.mp hv
      left; simp
  · intro j _ a' ha'
    obtain ⟨a, ha, rfl⟩ := List.mem_map.mp ha'
    by_cases hj : j < d
    · rw [hlow a ha j hj]; exact hs.mag j hj a ha
    · rw [hhigh a ha j (by omega)]; simp

end generic

/-! ### rows with `k` zeros appended -/

def padRow (k : Nat) (r : List Int) : List Int := r ++ zeros k

theorem padRow_getD_low {k : Nat} {r : List Int} {j : Nat} (hj : j < r.length) : (padRow k r).getD j 0 = r.getD j 0 := by
  unfold padRow
  simp only [List.getD_eq_getElem?_getD, List.getElem?_append_left hj]

theorem padRow_getD_high {k : Nat} {r : List Int} {j : Nat} (hj : r.length ≤ j) : (padRow k r).getD j 0 = 0 := by
  unfold padRow zeros
  simp only [List.getD_eq_getElem?_getD, List.getElem?_append_right hj]
  by_cases h : j - r.length < k
  · simp [List.getElem?_replicate, h]
  · simp [List.getElem?_replicate, h]

theorem padRow_length (k : Nat) (r : List Int) : (padRow k r).length = r.length + k := by
  unfold padRow zeros; simp

/-! ### cell centres of padded points -/

theorem fadd_zero : fadd 0 0 = some 0 := by decide +kernel

theorem fdivNat_zero {n : Nat} (hn : 0 < n) : fdivNat 0 n = some 0 := by
  unfold fdivNat
  have hne : n ≠ 0 := by omega
  simp only [hne, if_false, Int.natAbs_zero, Nat.zero_div, Nat.log2_zero, Nat.zero_sub, Nat.pow_zero, Nat.mul_one]
  have : rneDiv 0 n = 0 := by
    unfold rneDiv
    simp only [Nat.zero_div, Nat.zero_mod, Nat.mul_zero, hn, if_true]
  simp [this]

theorem addRows_zeros : ∀ k : Nat, addRows (zeros k) (zeros k) = some (zeros k)
  | 0 => rfl
  | k + 1 => by
    show addRows (0 :: zeros k) (0 :: zeros k) = _
    simp only [addRows, fadd_zero, addRows_zeros k, Option.bind_eq_bind, Option.bind_some, Option.pure_def]
    rfl

theorem addRows_pad (k : Nat) : ∀ (a b : List Int), a.length = b.length →
    addRows (padRow k a) (padRow k b) = (addRows a b).map (padRow k)
  | [], [], _ => by
    show addRows (zeros k) (zeros k) = _
    rw [addRows_zeros]; rfl
  | [], _ :: _, h => by simp at h
  | _ :: _, [], h => by simp at h
  | x :: a, y :: b, h => by
    have ih := addRows_pad k a b (by simpa using h)
    show addRows (x :: padRow k a) (y :: padRow k b) = _
    simp only [addRows, Option.bind_eq_bind, Option.pure_def]
    cases fadd x y with
    | none => rfl
    | some s =>
      simp only [Option.bind_some]
      rw [ih]
      cases addRows a b with
      | none => rfl
      | some r => rfl

theorem addRows_length (a : List Int) : ∀ (b r : List Int), a.length = b.length → addRows a b = some r →
    r.length = a.length := by
  induction a with
  | nil =>
    intro b r hl h
    cases b with
    | nil =>
      have e : addRows [] [] = some [] := rfl
      rw [e] at h
      cases h
      rfl
    | cons _ _ => simp at hl
  | cons x a ih =>
    intro b r hl h
    cases b with
    | nil => simp at hl
    | cons y b =>
      have e : addRows (x :: a) (y :: b) =
          (fadd x y).bind fun s => (addRows a b).bind fun r => some (s :: r) := rfl
      rw [e] at h
      cases hs : fadd x y with
      | none => rw [hs] at h; cases h
      | some s =>
        rw [hs, Option.bind_some] at h
        cases hr : addRows a b with
        | none => rw [hr] at h; cases h
        | some r0 =>
          rw [hr, Option.bind_some, Option.some.injEq] at h
          subst h
          have := ih b r0 (by simpa using hl) hr
          simp only [List.length_cons, this]

theorem foldlM_addRows_pad (k d : Nat) (pts : List (List Int)) :
    ∀ (ps : List Nat) (init : List Int), init.length = d →
      (∀ q ∈ ps, q < pts.length ∧ (pts.getD q []).length = d) →
      ps.foldlM (fun acc q => addRows acc ((pts.map (padRow k)).getD q [])) (padRow k init) =
        (ps.foldlM (fun acc q => addRows acc (pts.getD q [])) init).map (padRow k)
  | [], _, _, _ => rfl
  | q :: ps, init, hi, hq => by
    obtain ⟨hlt, hlen⟩ := hq q (List.mem_cons_self ..)
    simp only [List.foldlM_cons, Option.bind_eq_bind]
    have e : (pts.map (padRow k)).getD q [] = padRow k (pts.getD q []) := by
      rw [Fc.getD_of_lt _ _ (by rw [List.length_map]; exact hlt), List.getElem_map, Fc.getD_of_lt _ _ hlt]
    rw [e, addRows_pad k init (pts.getD q []) (by rw [hi, hlen])]
    cases hr : addRows init (pts.getD q []) with
    | none => rfl
    | some r =>
      simp only [Option.map_some, Option.bind_some]
      exact foldlM_addRows_pad k d pts ps r
        (by rw [addRows_length _ _ _ (by rw [hi, hlen]) hr, hi])
        (fun x hx => hq x (List.mem_cons_of_mem _ hx))

theorem mapM_fdiv_pad {n : Nat} (hn : 0 < n) (k : Nat) : ∀ s : List Int,
    (padRow k s).mapM (fun x => fdivNat x n) = (s.mapM fun x => fdivNat x n).map (padRow k)
  | [] => by
    show (zeros k).mapM _ = _
    induction k with
    | zero => rfl
    | succ k ih =>
      show (0 :: zeros k).mapM _ = _
      rw [List.mapM_cons, fdivNat_zero hn, ih]
      rfl
  | x :: s => by
    show (x :: padRow k s).mapM _ = _
    rw [List.mapM_cons, List.mapM_cons, mapM_fdiv_pad hn k s]
    cases fdivNat x n with
    | none => rfl
    | some y =>
      cases s.mapM fun x => fdivNat x n with
      | none => rfl
      | some r => rfl

/-- **the centre of a cell over zero-padded points is the zero-padded centre** (bitwise) -/
theorem cellCentre_pad (k d : Nat) (pts : List (List Int)) (row : List Nat)
    (hrow : ∀ q ∈ row, q < pts.length ∧ (pts.getD q []).length = d) :
    cellCentre (pts.map (padRow k)) row = (cellCentre pts row).map (padRow k) := by
  cases row with
  | nil => rfl
  | cons p ps =>
    obtain ⟨hlt, hlen⟩ := hrow p (List.mem_cons_self ..)
    have e : (pts.map (padRow k)).getD p [] = padRow k (pts.getD p []) := by
      rw [Fc.getD_of_lt _ _ (by rw [List.length_map]; exact hlt), List.getElem_map, Fc.getD_of_lt _ _ hlt]
    simp only [cellCentre, Option.bind_eq_bind]
    rw [e, foldlM_addRows_pad k d pts ps _ hlen (fun x hx => hrow x (List.mem_cons_of_mem _ hx))]
    cases ps.foldlM (fun acc q => addRows acc (pts.getD q [])) (pts.getD p []) with
    | none => rfl
    | some s =>
      simp only [Option.map_some, Option.bind_some]
      exact mapM_fdiv_pad (by simp) k s

/-! ### abstract canonicity of the point sort from an order-preserving correspondence -/

/-- two meshes whose point items correspond one-to-one (`σ`) such that the coordinate-key order, the
    coordinate-key ties, and — for tied points — the minimal-centre-key order and ties are preserved: both point
    sorts succeed and the sorted sequence of `m₂` is the image of the sorted sequence of `m₁` (any two `argsort`
    routines).  Used for zero padding, where the two key vectors have different lengths. -/
theorem sortPoints_canonical_abs {as1 as2 : List Int → List Nat} (h1 : IsArgsort as1) (h2 : IsArgsort as2)
    {t1 t2 : MeshTol} {A1 B1 M1 A2 B2 M2 : Nat} {m1 m2 : Mesh} {c1 c2 : List (List Int)} {σ : PItem → PItem}
    (hy1 : PointHypP t1 A1 B1 M1 m1 c1) (hy2 : PointHypP t2 A2 B2 M2 m2 c2)
    (onto : ((pitems m1).map σ).Perm (pitems m2))
    (hinj : ∀ a ∈ pitems m1, ∀ b ∈ pitems m1, σ a = σ b → a = b)
    (hle : ∀ a ∈ pitems m1, ∀ b ∈ pitems m1, lexLE (KC A1 m1) m1.dim 0 a b →
      lexLE (KC A2 m2) m2.dim 0 (σ a) (σ b))
    (hkc : ∀ a ∈ pitems m1, ∀ b ∈ pitems m1, kvec (KC A1 m1) m1.dim 0 a = kvec (KC A1 m1) m1.dim 0 b ↔
      kvec (KC A2 m2) m2.dim 0 (σ a) = kvec (KC A2 m2) m2.dim 0 (σ b))
    (hkmle : ∀ a ∈ pitems m1, ∀ b ∈ pitems m1, a ≠ b →
      kvec (KC A1 m1) m1.dim 0 a = kvec (KC A1 m1) m1.dim 0 b →
      lexLE (KM A1 c1 as1 t1 m1) m1.dim 0 a b → lexLE (KM A2 c2 as2 t2 m2) m2.dim 0 (σ a) (σ b))
    (hkmeq : ∀ a ∈ pitems m1, ∀ b ∈ pitems m1, a ≠ b →
      kvec (KC A1 m1) m1.dim 0 a = kvec (KC A1 m1) m1.dim 0 b →
      kvec (KM A2 c2 as2 t2 m2) m2.dim 0 (σ a) = kvec (KM A2 c2 as2 t2 m2) m2.dim 0 (σ b) →
      kvec (KM A1 c1 as1 t1 m1) m1.dim 0 a = kvec (KM A1 c1 as1 t1 m1) m1.dim 0 b)
    (hn1 : m1.points ≠ [])
    (hdist : ∀ a ∈ pitems m1, ∀ b ∈ pitems m1, kvec (KC A1 m1) m1.dim 0 a = kvec (KC A1 m1) m1.dim 0 b →
      kvec (KM A1 c1 as1 t1 m1) m1.dim 0 a = kvec (KM A1 c1 as1 t1 m1) m1.dim 0 b → a = b) :
    ∃ L1 L2, sortPointsItems as1 t1 m1 = some L1 ∧ sortPointsItems as2 t2 m2 = some L2 ∧
      L1.Perm (pitems m1) ∧ L1.map σ = L2 := by
  have hn2 : m2.points ≠ [] := by
    intro h0
    have hl := onto.length_eq
    unfold pitems at hl
    simp only [List.length_map, List.length_zip, List.length_range, Nat.min_self, h0, List.length_nil] at hl
    exact hn1 (List.length_eq_zero_iff.mp hl)
  obtain ⟨L1, e1, p1, s1⟩ := sortPointsItems_spec h1 hy1 hn1
  obtain ⟨L2, e2, p2, s2⟩ := sortPointsItems_spec h2 hy2 hn2
  refine ⟨L1, L2, e1, e2, p1, ?_⟩
  have hnd1 : L1.Pairwise (· ≠ ·) := (p1.nodup_iff).mpr (pitems_nodup m1)
  have s1' : (L1.map σ).Pairwise (le2 (KC A2 m2) (KM A2 c2 as2 t2 m2) m2.dim) := by
    rw [List.pairwise_map]
    refine (s1.and hnd1).imp_of_mem ?_
    intro a b ha hb hab
    obtain ⟨hle', hne⟩ := hab
    have ha' := p1.mem_iff.mp ha
    have hb' := p1.mem_iff.mp hb
    refine ⟨hle a ha' b hb' hle'.1, fun he => ?_⟩
    have hk := (hkc a ha' b hb').mpr he
    exact hkmle a ha' b hb' hne hk (hle'.2 hk)
  refine List.Perm.eq_of_pairwise ?_ s1' s2 (((p1.map _).trans onto).trans p2.symm)
  intro x y hx hy hxy hyx
  obtain ⟨ek, em⟩ := le2_antisymm hxy hyx
  obtain ⟨a, ha, rfl⟩ := List.mem_map.mp hx
  obtain ⟨b, hb, rfl⟩ := List.mem_map.mp (onto.mem_iff.mpr (p2.mem_iff.mp hy))
  have ha' := p1.mem_iff.mp ha
  by_cases hab : a = b
  · rw [hab]
  · have hk := (hkc a ha' b hb).mpr ek
    have := hdist a ha' b hb hk (hkmeq a ha' b hb hab hk em)
    exact absurd this hab

end Fc.Resid2
