/-
  FcProofs.Lemmas.LexsortPoints — (iv) `_sorting_points_indices` as a whole (model
  `Fc.sortPointsItems`): fuzzy lexsort of the points by their coordinates, then every run of
  coincident points re-ordered by the fuzzy lexsort of their "minimal" adjacent cell centres.

  Main results (for EVERY `argsort`, under the Prop-level hypothesis `PointHypP` = Sep for the
  coordinate columns and for the candidate cell centres, coincident points have adjacent cells):
  * `sortPointsItems_spec`: the model returns a permutation of the (index, coordinates) items that
    is sorted w.r.t. `le2` = lexicographic in the coordinate cluster keys, ties broken
    lexicographically by the cluster keys of the minimal adjacent cell centre;
  * `minCentre_key_unique`: the key vector of the "minimal" centre does not depend on `argsort`;
  * `sortPointsItems_tie_independent`: if coincident points are distinguishable, two different
    `argsort` routines produce the SAME index map.
-/
import FcProofs.Lemmas.LexsortTieBreak
namespace Fc.C02
open Fc.C02.Spec
variable {α : Type}

/-! ### small helpers -/

theorem sepCol_subset {A B : Nat} {vals vals' : List Int} (h : sepCol A B vals = true)
    (hsub : ∀ v ∈ vals', v ∈ vals) : sepCol A B vals' = true := by
  rw [sepCol_iff] at h ⊢
  exact fun u hu v hv => h u (hsub u hu) v (hsub v hv)

theorem Clustered.subset {close : Int → Int → Bool} {vals vals' : List Int} {cl : Int → Int}
    (h : Clustered close vals cl) (hsub : ∀ v ∈ vals', v ∈ vals) : Clustered close vals' cl :=
  ⟨fun u hu v hv => h.iff u (hsub u hu) v (hsub v hv), fun u hu v hv => h.mono u (hsub u hu) v (hsub v hv)⟩

/-- two monotone class functions of the same closeness relation order the values alike -/
theorem Clustered.order_equiv {close : Int → Int → Bool} {vals : List Int} {cl cl' : Int → Int}
    (h : Clustered close vals cl) (h' : Clustered close vals cl') {u v : Int} (hu : u ∈ vals) (hv : v ∈ vals) :
    (cl u < cl v ↔ cl' u < cl' v) ∧ (cl u = cl v ↔ cl' u = cl' v) := by
  have heq : cl u = cl v ↔ cl' u = cl' v := by
    have e1 := h.iff u hu v hv
    have e2 := h'.iff u hu v hv
    constructor
    · intro e
      have : close u v = true := by rw [e1]; simpa using e
      rw [e2] at this; simpa using this
    · intro e
      have : close u v = true := by rw [e2]; simpa using e
      rw [e1] at this; simpa using this
  refine ⟨?_, heq⟩
  constructor
  · intro hlt
    have hnv : ¬ v ≤ u := fun hvu => by have := h.mono v hv u hu hvu; omega
    have hle := h'.mono u hu v hv (by omega)
    have hne : cl' u ≠ cl' v := fun e => by have := heq.mpr e; omega
    omega
  · intro hlt
    have hnv : ¬ v ≤ u := fun hvu => by have := h'.mono v hv u hu hvu; omega
    have hle := h.mono u hu v hv (by omega)
    have hne : cl u ≠ cl v := fun e => by have := heq.mp e; omega
    omega

theorem lexLE_congr_rel {β : Type} (K : Nat → α → Int) (K' : Nat → β → Int) (a b : α) (a' b' : β) :
    ∀ fuel j, (∀ i, j ≤ i → i < j + fuel →
        (K i a < K i b ↔ K' i a' < K' i b') ∧ (K i a = K i b ↔ K' i a' = K' i b')) →
      (lexLE K fuel j a b ↔ lexLE K' fuel j a' b')
  | 0, _, _ => Iff.rfl
  | fuel + 1, j, h => by
    have h0 := h j (le_refl _) (by omega)
    have ih := lexLE_congr_rel K K' a b a' b' fuel (j + 1) (fun i hi hi' => h i (by omega) (by omega))
    simp only [lexLE]
    rw [h0.1, h0.2, ih]

theorem kvec_eq_iff (K : Nat → α → Int) (a b : α) : ∀ fuel j,
    kvec K fuel j a = kvec K fuel j b ↔ ∀ i, j ≤ i → i < j + fuel → K i a = K i b
  | 0, _ => by simp only [kvec, true_iff]; intro i h1 h2; omega
  | fuel + 1, j => by
    simp only [kvec, List.cons.injEq, kvec_eq_iff K a b fuel (j + 1)]
    constructor
    · rintro ⟨h0, h⟩ i hi hi'
      rcases Nat.eq_or_lt_of_le hi with rfl | hlt
      · exact h0
      · exact h i (by omega) (by omega)
    · intro h
      exact ⟨h j (le_refl _) (by omega), fun i hi hi' => h i (by omega) (by omega)⟩

theorem kvec_congr {β : Type} (K : Nat → α → Int) (K' : Nat → β → Int) (a : α) (a' : β) : ∀ fuel j,
    (∀ i, j ≤ i → i < j + fuel → K i a = K' i a') → kvec K fuel j a = kvec K' fuel j a'
  | 0, _, _ => rfl
  | fuel + 1, j, h => by
    simp only [kvec]
    rw [h j (le_refl _) (by omega), kvec_congr K K' a a' fuel (j + 1) (fun i hi hi' => h i (by omega) (by omega))]

theorem mapM_eq_some_map {β : Type} (F : α → Option β) (d : α → β) :
    ∀ l : List α, (∀ a ∈ l, (F a).isSome) → l.mapM F = some (l.map fun a => (F a).getD (d a))
  | [], _ => rfl
  | a :: l, h => by
    have ha := h a (List.mem_cons_self ..)
    have ih := mapM_eq_some_map F d l (fun x hx => h x (List.mem_cons_of_mem _ hx))
    rw [List.mapM_cons, ih]
    cases hF : F a with
    | none => rw [hF] at ha; simp at ha
    | some b => simp [hF]

theorem mapM_some_length {β : Type} (F : α → Option β) : ∀ (l : List α) (l' : List β),
    l.mapM F = some l' → l'.length = l.length
  | [], l', h => by simp at h; subst h; rfl
  | a :: l, l', h => by
    rw [List.mapM_cons] at h
    cases hF : F a with
    | none => rw [hF] at h; simp at h
    | some b =>
      cases hl : l.mapM F with
      | none => rw [hF, hl] at h; simp at h
      | some bs =>
        rw [hF, hl] at h
        simp at h
        subst h
        simp [mapM_some_length F l bs hl]

theorem mapM_some_mem {β : Type} (F : α → Option β) : ∀ (l : List α) (l' : List β),
    l.mapM F = some l' → ∀ b ∈ l', ∃ a ∈ l, F a = some b
  | [], l', h, b, hb => by simp at h; subst h; simp at hb
  | a :: l, l', h, b, hb => by
    rw [List.mapM_cons] at h
    cases hF : F a with
    | none => rw [hF] at h; simp at h
    | some b0 =>
      cases hl : l.mapM F with
      | none => rw [hF, hl] at h; simp at h
      | some bs =>
        rw [hF, hl] at h
        simp at h
        subst h
        rcases List.mem_cons.mp hb with rfl | hb
        · exact ⟨a, List.mem_cons_self .., hF⟩
        · obtain ⟨x, hx, hFx⟩ := mapM_some_mem F l bs hl b hb
          exact ⟨x, List.mem_cons_of_mem _ hx, hFx⟩

/-! ### Sep on sub-lists; local vs global cluster keys -/

theorem SepCols.subset {t : MeshTol} {A B M : Nat} {key : Nat → α → Int} {n : Nat} {l l' : List α}
    (h : SepCols t A B M key n l) (hsub : ∀ a ∈ l', a ∈ l) : SepCols t A B M key n l' :=
  ⟨h.hAB, h.bounds,
   fun j hj => sepCol_subset (h.sep j hj) (fun v hv => by
     obtain ⟨a, ha, rfl⟩ := List.mem_map.mp hv
     exact List.mem_map_of_mem (hsub a ha)),
   fun j hj a ha => h.mag j hj a (hsub a ha)⟩

/-- cluster keys relative to a sub-list of values order the sub-list like the global ones -/
theorem lexLE_local_global {β : Type} {t : MeshTol} {A B M : Nat} {key : Nat → α → Int}
    {keyG : Nat → β → Int} {n : Nat} {l' : List α} {lG : List β}
    (hG : SepCols t A B M keyG n lG) (hL : SepCols t A B M key n l')
    (hsub : ∀ j, j < n → ∀ a ∈ l', key j a ∈ lG.map (keyG j)) {a b : α} (ha : a ∈ l') (hb : b ∈ l')
    (a' b' : β) (haa : ∀ j, j < n → keyG j a' = key j a) (hbb : ∀ j, j < n → keyG j b' = key j b) :
    lexLE (colKey A key l') n 0 a b ↔ lexLE (colKey A keyG lG) n 0 a' b' := by
  refine lexLE_congr_rel _ _ a b a' b' n 0 ?_
  intro i _ hi
  have hi' : i < n := by omega
  have hcG := (hG.clusteredIs i hi').subset (vals' := l'.map (key i)) (fun v hv => by
    obtain ⟨x, hx, rfl⟩ := List.mem_map.mp hv
    exact hsub i hi' x hx)
  have hcL := hL.clusteredIs i hi'
  have := Clustered.order_equiv hcL hcG (List.mem_map_of_mem (f := key i) ha) (List.mem_map_of_mem (f := key i) hb)
  simp only [colKey, haa i hi', hbb i hi']
  exact this

/-! ### the model, restated -/

theorem minCentre_eq (as : List Int → List Nat) (t : MeshTol) (m : Mesh) (p : Nat) :
    minCentre as t m p = (centresOf m p).bind fun cs =>
      (fuzzyLexSortBy (fun k l => sorterOf as k l) t.closeIs rowKey m.dim cs).head? := by
  unfold minCentre centresOf
  by_cases h : (adjacentCells m p).isEmpty = true
  · simp [h]
  · simp only [h, Bool.false_eq_true, if_false]
    cases (adjacentCells m p).mapM (cellCentre m.points) <;> rfl

theorem centresOf_ne_nil {m : Mesh} {p : Nat} {cs : List (List Int)} (h : centresOf m p = some cs) : cs ≠ [] := by
  unfold centresOf at h
  by_cases he : (adjacentCells m p).isEmpty = true
  · simp [he] at h
  · simp only [he, Bool.false_eq_true, if_false] at h
    have hl := mapM_some_length _ _ _ h
    intro hc
    rw [hc] at hl
    have : adjacentCells m p = [] := List.length_eq_zero_iff.mp hl.symm
    simp [this] at he

/-- tie break of one run, as a partial function on the run -/
def tbLeaf (as : List Int → List Nat) (t : MeshTol) (m : Mesh) (seg : List PItem) : Option (List PItem) :=
  (seg.mapM fun it => (minCentre as t m it.1).map fun c => (it, c)).map fun segc =>
    (fuzzyLexSortBy (fun k l => sorterOf as k l) t.closeIs ckey m.dim segc).map (·.1)

theorem tieBreakRun_eq (as : List Int → List Nat) (t : MeshTol) (m : Mesh) (l : List PItem) (r : Nat × Nat) :
    tieBreakRun as t m l r = applyRunM (tbLeaf as t m) l r := by
  unfold tieBreakRun applyRunM tbLeaf
  dsimp only
  split <;> rename_i h <;> rw [h] <;> rfl

/-- `_sorting_points_indices` = coordinate lexsort, then the monadic walk over the duplicate mask -/
theorem sortPointsItems_eq (as : List Int → List Nat) (t : MeshTol) (m : Mesh) (hne : m.points ≠ []) :
    sortPointsItems as t m =
      (walkRuns (adjacentRowsEq t.closeFz
          ((fuzzyLexSortBy (fun k l => sorterOf as k l) t.closeIs pkey m.dim (pitems m)).map (·.2)))).foldlM
        (applyRunM (tbLeaf as t m))
        (fuzzyLexSortBy (fun k l => sorterOf as k l) t.closeIs pkey m.dim (pitems m)) := by
  unfold sortPointsItems
  have : m.points.isEmpty = false := by
    cases hp : m.points with
    | nil => exact absurd hp hne
    | cons _ _ => rfl
  simp only [this, Bool.false_eq_true, if_false]
  have hfun : tieBreakRun as t m = applyRunM (tbLeaf as t m) := by
    funext l r; exact tieBreakRun_eq as t m l r
  rw [hfun]
  split
  · rfl
  · rename_i hany
    rw [Bool.not_eq_true] at hany
    have : walkRuns (adjacentRowsEq t.closeFz
        ((fuzzyLexSortBy (fun k l => sorterOf as k l) t.closeIs pkey m.dim (pitems m)).map (·.2))) = [] :=
      walkRunsAux_all_false _ 0 0 hany
    rw [this]
    rfl

/-! ### hypotheses -/

/-- Prop-level hypotheses of the point sort (`Sep` for the coordinates and for the candidate centres
    `cands`; every point that coincides with another one has adjacent cells, whose centres are
    finite and among the candidates) -/
structure PointHypP (t : MeshTol) (A B M : Nat) (m : Mesh) (cands : List (List Int)) : Prop where
  dimPos : 1 ≤ m.dim
  rowLen : ∀ r ∈ m.points, r.length = m.dim
  sepP : SepCols t A B M pkey m.dim (pitems m)
  sepC : SepCols t A B M rowKey m.dim cands
  centres : ∀ a ∈ pitems m, ∀ b ∈ pitems m, a ≠ b → kvec (KC A m) m.dim 0 a = kvec (KC A m) m.dim 0 b →
    ∃ cs, centresOf m a.1 = some cs ∧ ∀ c ∈ cs, c ∈ cands

theorem pitems_nodup (m : Mesh) : (pitems m).Nodup := by
  apply List.Nodup.of_map (·.1)
  unfold pitems
  rw [List.map_fst_zip (by simp)]
  exact List.nodup_range

theorem pitems_snd_mem {m : Mesh} {it : PItem} (h : it ∈ pitems m) : it.2 ∈ m.points := by
  unfold pitems at h
  exact (List.of_mem_zip h).2

/-! ### the minimal adjacent cell centre -/

/-- `_get_min_cell_center_around_point` returns one of the centres, minimal w.r.t. the
    lexicographic order of the centre cluster keys — whatever `argsort` does with ties -/
theorem minCentre_spec {as : List Int → List Nat} (has : IsArgsort as) {t : MeshTol} {A B M : Nat} {m : Mesh}
    {cands : List (List Int)} (hC : SepCols t A B M rowKey m.dim cands) (hdim : 1 ≤ m.dim)
    {p : Nat} {cs : List (List Int)} (hcs : centresOf m p = some cs) (hsub : ∀ c ∈ cs, c ∈ cands) :
    ∃ h, minCentre as t m p = some h ∧ h ∈ cs ∧ ∀ c ∈ cs, lexLE (KG A cands) m.dim 0 h c := by
  have hL : SepCols t A B M rowKey m.dim cs := hC.subset hsub
  obtain ⟨_, hperm, hsorted⟩ := fuzzyLexSortBy_spec (isSort_sorterOf has) hdim hL
  rw [minCentre_eq, hcs]
  simp only [Option.bind_some]
  set S := fuzzyLexSortBy (fun k l => sorterOf as k l) t.closeIs rowKey m.dim cs with hS
  have hne : S ≠ [] := by
    intro h0
    have := hperm.length_eq
    rw [h0] at this
    exact centresOf_ne_nil hcs (List.length_eq_zero_iff.mp this.symm)
  obtain ⟨h, tl, hSeq⟩ : ∃ h tl, S = h :: tl := by
    cases hc : S with
    | nil => exact absurd hc hne
    | cons h tl => exact ⟨h, tl, rfl⟩
  refine ⟨h, by rw [hSeq]; rfl, hperm.mem_iff.mp (by rw [hSeq]; exact List.mem_cons_self ..), ?_⟩
  intro c hc
  have hcS : c ∈ S := hperm.mem_iff.mpr hc
  have hhS : h ∈ S := by rw [hSeq]; exact List.mem_cons_self ..
  have hloc : lexLE (colKey A rowKey cs) m.dim 0 h c := by
    rw [hSeq] at hcS hsorted
    rcases List.mem_cons.mp hcS with rfl | hct
    · exact lexLE_refl _ _ _ _
    · exact (List.pairwise_cons.mp hsorted).1 c hct
  exact (lexLE_local_global (keyG := rowKey) hC hL
    (fun j _ a ha => List.mem_map_of_mem (hsub a ha)) (hperm.mem_iff.mp hhS) hc h c
    (fun _ _ => rfl) (fun _ _ => rfl)).mp hloc

/-- the key vector of the minimal centre does not depend on `argsort` -/
theorem minCentre_key_unique {as1 as2 : List Int → List Nat} (h1 : IsArgsort as1) (h2 : IsArgsort as2)
    {t : MeshTol} {A B M : Nat} {m : Mesh} {cands : List (List Int)}
    (hC : SepCols t A B M rowKey m.dim cands) (hdim : 1 ≤ m.dim)
    {p : Nat} {cs : List (List Int)} (hcs : centresOf m p = some cs) (hsub : ∀ c ∈ cs, c ∈ cands) :
    kvec (KG A cands) m.dim 0 ((minCentre as1 t m p).getD []) =
      kvec (KG A cands) m.dim 0 ((minCentre as2 t m p).getD []) := by
  obtain ⟨c1, e1, m1, min1⟩ := minCentre_spec h1 hC hdim hcs hsub
  obtain ⟨c2, e2, m2, min2⟩ := minCentre_spec h2 hC hdim hcs hsub
  rw [e1, e2]
  exact lexLE_antisymm _ _ _ _ _ (min1 c2 m2) (min2 c1 m1)

/-! ### one run of coincident points -/

theorem lexLE_comp {β : Type} (K : Nat → β → Int) (f : α → β) (a b : α) : ∀ fuel j,
    lexLE (fun j a => K j (f a)) fuel j a b ↔ lexLE K fuel j (f a) (f b)
  | 0, _ => Iff.rfl
  | fuel + 1, j => by
    simp only [lexLE]
    rw [lexLE_comp K f a b fuel (j + 1)]

theorem flatten_map_perm_of_mem {f : List α → List α} :
    ∀ L : List (List α), (∀ g ∈ L, (f g).Perm g) → ((L.map f).flatten).Perm L.flatten
  | [], _ => by simp
  | g :: gs, h => by
    simp only [List.map_cons, List.flatten_cons]
    exact List.Perm.append (h g (List.mem_cons_self ..))
      (flatten_map_perm_of_mem gs (fun g' hg' => h g' (List.mem_cons_of_mem _ hg')))

/-- the tie break of a run all of whose points have (candidate) centres: it succeeds, permutes the
    run, and sorts it lexicographically by the cluster keys of the minimal centres -/
theorem tbLeaf_spec {as : List Int → List Nat} (has : IsArgsort as) {t : MeshTol} {A B M : Nat} {m : Mesh}
    {cands : List (List Int)} (hC : SepCols t A B M rowKey m.dim cands) (hdim : 1 ≤ m.dim) (g : List PItem)
    (hcs : ∀ a ∈ g, ∃ cs, centresOf m a.1 = some cs ∧ ∀ c ∈ cs, c ∈ cands) :
    ∃ g', tbLeaf as t m g = some g' ∧ g'.Perm g ∧ g'.Pairwise (lexLE (KM A cands as t m) m.dim 0) := by
  -- every point of the run has a minimal centre among the candidates
  have hmc : ∀ a ∈ g, ∃ h, minCentre as t m a.1 = some h ∧ h ∈ cands := by
    intro a ha
    obtain ⟨cs, hcs1, hcs2⟩ := hcs a ha
    obtain ⟨h, e, hm, _⟩ := minCentre_spec has hC hdim hcs1 hcs2
    exact ⟨h, e, hcs2 h hm⟩
  set F : PItem → Option (PItem × List Int) := fun it => (minCentre as t m it.1).map fun c => (it, c) with hF
  have hsome : ∀ a ∈ g, (F a).isSome := by
    intro a ha
    obtain ⟨h, e, _⟩ := hmc a ha
    simp [hF, e]
  have hmap := mapM_eq_some_map F (fun it => (it, [])) g hsome
  have hsegc : (g.map fun a => (F a).getD (a, [])) = g.map fun a => (a, mcD as t m a) := by
    apply List.map_congr_left
    intro a ha
    obtain ⟨h, e, _⟩ := hmc a ha
    simp [hF, mcD, e]
  rw [hsegc] at hmap
  set segc := g.map fun a => (a, mcD as t m a) with hsegcdef
  have hmem : ∀ x ∈ segc, x.1 ∈ g ∧ x.2 = mcD as t m x.1 ∧ x.2 ∈ cands := by
    intro x hx
    obtain ⟨a, ha, rfl⟩ := List.mem_map.mp hx
    obtain ⟨h, e, hc⟩ := hmc a ha
    exact ⟨ha, rfl, by simp [mcD, e, hc]⟩
  have hL : SepCols t A B M ckey m.dim segc :=
    ⟨hC.hAB, hC.bounds,
     fun j hj => sepCol_subset (hC.sep j hj) (fun v hv => by
       obtain ⟨x, hx, rfl⟩ := List.mem_map.mp hv
       exact List.mem_map_of_mem (hmem x hx).2.2),
     fun j hj x hx => hC.mag j hj x.2 (hmem x hx).2.2⟩
  obtain ⟨_, hperm, hsorted⟩ := fuzzyLexSortBy_spec (isSort_sorterOf has) hdim hL
  refine ⟨(fuzzyLexSortBy (fun k l => sorterOf as k l) t.closeIs ckey m.dim segc).map (·.1), ?_, ?_, ?_⟩
  · unfold tbLeaf
    rw [hmap]
    rfl
  · have := hperm.map (·.1)
    have e : segc.map (·.1) = g := by simp [hsegcdef, List.map_map, Function.comp_def]
    rwa [e] at this
  · rw [List.pairwise_map]
    refine hsorted.imp_of_mem ?_
    intro x y hx hy hxy
    have hx' := hperm.mem_iff.mp hx
    have hy' := hperm.mem_iff.mp hy
    have hglob := (lexLE_local_global (keyG := rowKey) hC hL
      (fun j _ a ha => List.mem_map_of_mem (hmem a ha).2.2) hx' hy' x.2 y.2
      (fun _ _ => rfl) (fun _ _ => rfl)).mp hxy
    rw [(hmem x hx').2.1, (hmem y hy').2.1] at hglob
    exact (lexLE_comp (KG A cands) (mcD as t m) x.1 y.1 m.dim 0).mpr hglob

/-! ### the whole point sort -/

/-- the final order: coordinate cluster keys lexicographically, ties (coincident points) by the
    cluster keys of the minimal adjacent cell centre -/
def le2 (KCf KMf : Nat → PItem → Int) (n : Nat) (a b : PItem) : Prop :=
  lexLE KCf n 0 a b ∧ (kvec KCf n 0 a = kvec KCf n 0 b → lexLE KMf n 0 a b)

/-- **(iv) `_sorting_points_indices`, specified.**  For every `argsort` and every mesh satisfying
    `PointHypP`: the model does not raise, returns a permutation of the point items, sorted by
    coordinate cluster keys with ties broken by the minimal-centre cluster keys. -/
theorem sortPointsItems_spec {as : List Int → List Nat} (has : IsArgsort as) {t : MeshTol} {A B M : Nat}
    {m : Mesh} {cands : List (List Int)} (hyp : PointHypP t A B M m cands) (hne : m.points ≠ []) :
    ∃ L, sortPointsItems as t m = some L ∧ L.Perm (pitems m) ∧
      L.Pairwise (le2 (KC A m) (KM A cands as t m) m.dim) := by
  obtain ⟨_, hperm1, hsorted1⟩ := fuzzyLexSortBy_spec (isSort_sorterOf has) hyp.dimPos hyp.sepP
  rw [sortPointsItems_eq as t m hne]
  set L1 := fuzzyLexSortBy (fun k l => sorterOf as k l) t.closeIs pkey m.dim (pitems m) with hL1
  have hL1ne : L1 ≠ [] := by
    intro h0
    have := hperm1.length_eq
    rw [h0] at this
    have hz : (pitems m).length = 0 := this.symm
    unfold pitems at hz
    simp at hz
    exact hne hz
  have hmemL1 : ∀ a ∈ L1, a ∈ pitems m := fun a ha => hperm1.mem_iff.mp ha
  -- the duplicate mask is the adjacent test "equal coordinate key vectors"
  set eKC : PItem → PItem → Bool := fun a b => kvec (KC A m) m.dim 0 a == kvec (KC A m) m.dim 0 b with heKC
  have hzero : adjacentRowsEq t.closeFz (L1.map (·.2)) = adjEqBy eKC L1 := by
    rw [adjacentRowsEq_eq_adjEqBy t.closeFz (·.2) L1]
    apply adjEqBy_congr
    intro a ha b hb
    have ha' := hmemL1 a ha
    have hb' := hmemL1 b hb
    refine rowsEq_eq_kvec_beq t.closeFz (KC A m) a b m.dim 0 a.2 b.2
      (hyp.rowLen _ (pitems_snd_mem ha')) (hyp.rowLen _ (pitems_snd_mem hb')) ?_
    intro i hi
    have := (hyp.sepP.clusteredFz i hi).iff (pkey i a) (List.mem_map_of_mem ha') (pkey i b)
      (List.mem_map_of_mem hb')
    simpa [KC, colKey, pkey, rowKey] using this
  set gs := splitBy eKC L1 with hgs
  have hfl : gs.flatten = L1 := splitBy_flatten _ _
  have hgne : ∀ g ∈ gs, g ≠ [] := splitBy_ne_nil _ _
  have hmask : adjEqBy eKC L1 = maskOf gs := adjEqBy_eq_maskOf_splitBy eKC L1 hL1ne
  obtain ⟨hconst, hstrict⟩ := splitBy_sorted eKC (lexLE (KC A m) m.dim 0) (fun a => lexLE_refl _ _ _ a)
    (fun a b c => lexLE_trans _ _ _ a b c) L1 hsorted1
    (fun a _ b _ => by
      simp only [heKC, beq_iff_eq]
      exact ⟨fun h => ⟨lexLE_of_kvec_eq _ _ _ _ _ h, lexLE_of_kvec_eq _ _ _ _ _ h.symm⟩,
        fun h => lexLE_antisymm _ _ _ _ _ h.1 h.2⟩)
  have hgmem : ∀ g ∈ gs, ∀ a ∈ g, a ∈ pitems m := by
    intro g hg a ha
    apply hmemL1
    rw [← hfl]
    exact List.mem_flatten.mpr ⟨g, hg, ha⟩
  have hnodup : ∀ g ∈ gs, g.Nodup := by
    have : gs.flatten.Nodup := by rw [hfl]; exact (hperm1.nodup_iff).mpr (pitems_nodup m)
    exact (List.nodup_flatten.mp this).1
  have hkeq : ∀ g ∈ gs, ∀ a ∈ g, ∀ b ∈ g, kvec (KC A m) m.dim 0 a = kvec (KC A m) m.dim 0 b :=
    fun g hg a ha b hb => lexLE_antisymm _ _ _ _ _ (hconst g hg a ha b hb).1 (hconst g hg a ha b hb).2
  -- every group with at least two points: all its points have candidate centres
  have hcentres : ∀ g ∈ gs, 2 ≤ g.length → ∀ a ∈ g, ∃ cs, centresOf m a.1 = some cs ∧ ∀ c ∈ cs, c ∈ cands := by
    intro g hg hlen a ha
    obtain ⟨b, hb, hab⟩ : ∃ b ∈ g, a ≠ b := by
      match g, hlen, hnodup g hg with
      | x :: y :: _, _, hnd =>
        have hxy : x ≠ y := by
          intro e; subst e
          exact (List.nodup_cons.mp hnd).1 (List.mem_cons_self ..)
        by_cases hax : a = x
        · exact ⟨y, List.mem_cons_of_mem _ (List.mem_cons_self ..), by rw [hax]; exact hxy⟩
        · exact ⟨x, List.mem_cons_self .., hax⟩
    exact hyp.centres a (hgmem g hg a ha) b (hgmem g hg b hb) hab (hkeq g hg a ha b hb)
  -- outcome of the tie break on every group
  have hleaf : ∀ g ∈ gs, ∃ g', leafM (tbLeaf as t m) g = some g' ∧ g'.Perm g ∧
      g'.Pairwise (lexLE (KM A cands as t m) m.dim 0) := by
    intro g hg
    match g, hgne g hg, hcentres g hg with
    | [a], _, _ => exact ⟨[a], rfl, List.Perm.refl _, List.pairwise_singleton _ _⟩
    | a :: b :: tl, _, hc =>
      obtain ⟨g', e, hp, hs⟩ := tbLeaf_spec has hyp.sepC hyp.dimPos (a :: b :: tl) (hc (by simp))
      exact ⟨g', e, hp, hs⟩
  have hlen : ∀ g ∈ gs, 2 ≤ g.length → ∀ g', tbLeaf as t m g = some g' → g'.length = g.length := by
    intro g hg h2 g' e
    obtain ⟨g'', e', hp, _⟩ := tbLeaf_spec has hyp.sepC hyp.dimPos g (hcentres g hg h2)
    rw [e] at e'
    rw [Option.some.inj e']
    exact hp.length_eq
  rw [hzero, hmask, ← hfl, foldlM_applyRunM_maskOf (tbLeaf as t m) gs hlen hgne]
  set leafD : List PItem → List PItem := fun g => (leafM (tbLeaf as t m) g).getD g with hleafD
  have hmapM := mapM_eq_some_map (leafM (tbLeaf as t m)) id gs (fun g hg => by
    obtain ⟨g', e, _⟩ := hleaf g hg
    simp [e])
  have hleafD' : ∀ g ∈ gs, (leafD g).Perm g ∧ (leafD g).Pairwise (lexLE (KM A cands as t m) m.dim 0) := by
    intro g hg
    obtain ⟨g', e, hp, hs⟩ := hleaf g hg
    simp only [hleafD, e, Option.getD_some]
    exact ⟨hp, hs⟩
  refine ⟨(gs.map leafD).flatten, ?_, ?_, ?_⟩
  · rw [hmapM]; rfl
  · refine (flatten_map_perm_of_mem gs (fun g hg => (hleafD' g hg).1)).trans ?_
    rw [hfl]; exact hperm1
  · rw [List.pairwise_flatten]
    constructor
    · intro l hl
      obtain ⟨g, hg, rfl⟩ := List.mem_map.mp hl
      refine (hleafD' g hg).2.imp_of_mem ?_
      intro a b ha hb hab
      have ha' := (hleafD' g hg).1.mem_iff.mp ha
      have hb' := (hleafD' g hg).1.mem_iff.mp hb
      exact ⟨lexLE_of_kvec_eq _ _ _ _ _ (hkeq g hg a ha' b hb'), fun _ => hab⟩
    · rw [List.pairwise_map]
      refine hstrict.imp_of_mem ?_
      intro g1 g2 hg1 hg2 h12 a ha b hb
      have ha' := (hleafD' g1 hg1).1.mem_iff.mp ha
      have hb' := (hleafD' g2 hg2).1.mem_iff.mp hb
      obtain ⟨hle, hnle⟩ := h12 a ha' b hb'
      exact ⟨hle, fun he => absurd (lexLE_of_kvec_eq _ _ _ _ _ he.symm) hnle⟩

/-! ### independence of `argsort`, canonicity -/

theorem le2_antisymm {KCf KMf : Nat → PItem → Int} {n : Nat} {a b : PItem}
    (h1 : le2 KCf KMf n a b) (h2 : le2 KCf KMf n b a) :
    kvec KCf n 0 a = kvec KCf n 0 b ∧ kvec KMf n 0 a = kvec KMf n 0 b := by
  have e := lexLE_antisymm _ _ _ _ _ h1.1 h2.1
  exact ⟨e, lexLE_antisymm _ _ _ _ _ (h1.2 e) (h2.2 e.symm)⟩

theorem kvec_comp {β : Type} (K : Nat → β → Int) (f : α → β) (a : α) (fuel j : Nat) :
    kvec (fun j a => K j (f a)) fuel j a = kvec K fuel j (f a) :=
  kvec_congr _ _ a (f a) fuel j (fun _ _ _ => rfl)

/-- the centre key vector of a point with candidate centres does not depend on `argsort` -/
theorem KM_kvec_unique {as1 as2 : List Int → List Nat} (h1 : IsArgsort as1) (h2 : IsArgsort as2)
    {t : MeshTol} {A B M : Nat} {m : Mesh} {cands : List (List Int)}
    (hC : SepCols t A B M rowKey m.dim cands) (hdim : 1 ≤ m.dim) {it : PItem} {cs : List (List Int)}
    (hcs : centresOf m it.1 = some cs) (hsub : ∀ c ∈ cs, c ∈ cands) :
    kvec (KM A cands as1 t m) m.dim 0 it = kvec (KM A cands as2 t m) m.dim 0 it := by
  have := minCentre_key_unique (A := A) h1 h2 hC hdim hcs hsub
  unfold KM
  rw [kvec_comp (KG A cands) (mcD as1 t m) it, kvec_comp (KG A cands) (mcD as2 t m) it]
  exact this

/-- **the point sort does not depend on `argsort`.**  If coincident points are distinguishable by
    the cluster keys of their minimal adjacent cell centres, two `argsort` routines with different
    tie-breaking produce the same result. -/
theorem sortPointsItems_tie_independent {as1 as2 : List Int → List Nat} (h1 : IsArgsort as1)
    (h2 : IsArgsort as2) {t : MeshTol} {A B M : Nat} {m : Mesh} {cands : List (List Int)}
    (hyp : PointHypP t A B M m cands)
    (hdist : ∀ a ∈ pitems m, ∀ b ∈ pitems m, kvec (KC A m) m.dim 0 a = kvec (KC A m) m.dim 0 b →
      kvec (KM A cands as1 t m) m.dim 0 a = kvec (KM A cands as1 t m) m.dim 0 b → a = b) :
    sortPointsItems as1 t m = sortPointsItems as2 t m := by
  by_cases hne : m.points = []
  · unfold sortPointsItems; simp [hne]
  obtain ⟨L1, e1, p1, s1⟩ := sortPointsItems_spec h1 hyp hne
  obtain ⟨L2, e2, p2, s2⟩ := sortPointsItems_spec h2 hyp hne
  rw [e1, e2]
  congr 1
  have hnd2 : L2.Pairwise (· ≠ ·) := (p2.nodup_iff).mpr (pitems_nodup m)
  have s2' : L2.Pairwise (le2 (KC A m) (KM A cands as1 t m) m.dim) := by
    refine (s2.and hnd2).imp_of_mem ?_
    intro a b ha hb hab
    obtain ⟨hle, hne'⟩ := hab
    refine ⟨hle.1, fun he => ?_⟩
    have ha' := p2.mem_iff.mp ha
    have hb' := p2.mem_iff.mp hb
    obtain ⟨csa, hca, hsa⟩ := hyp.centres a ha' b hb' hne' he
    obtain ⟨csb, hcb, hsb⟩ := hyp.centres b hb' a ha' (Ne.symm hne') he.symm
    exact lexLE_congr (KM A cands as2 t m) (KM A cands as1 t m) m.dim 0 a b a b
      (KM_kvec_unique h2 h1 hyp.sepC hyp.dimPos hca hsa) (KM_kvec_unique h2 h1 hyp.sepC hyp.dimPos hcb hsb)
      (hle.2 he)
  refine List.Perm.eq_of_pairwise ?_ s1 s2' (p1.trans p2.symm)
  intro a b ha hb hab hba
  obtain ⟨ek, em⟩ := le2_antisymm hab hba
  exact hdist a (p1.mem_iff.mp ha) b (p2.mem_iff.mp hb) ek em

/-- the two key vectors of a point item: coordinates, minimal centre -/
def kv2 (KCf KMf : Nat → PItem → Int) (n : Nat) (it : PItem) : List Int × List Int :=
  (kvec KCf n 0 it, kvec KMf n 0 it)

/-- the order `le2` on pairs of key vectors -/
def R2 (n : Nat) (u v : List Int × List Int) : Prop := vle n u.1 v.1 ∧ (u.1 = v.1 → vle n u.2 v.2)

theorem R2_of_le2 {KCf KMf : Nat → PItem → Int} {n : Nat} {a b : PItem} (h : le2 KCf KMf n a b) :
    R2 n (kv2 KCf KMf n a) (kv2 KCf KMf n b) :=
  ⟨vle_of_lexLE _ _ _ _ h.1, fun e => vle_of_lexLE _ _ _ _ (h.2 e)⟩

theorem R2_antisymm {K1 M1 K2 M2 : Nat → PItem → Int} {n : Nat} {a b : PItem}
    (h1 : R2 n (kv2 K1 M1 n a) (kv2 K2 M2 n b)) (h2 : R2 n (kv2 K2 M2 n b) (kv2 K1 M1 n a)) :
    kv2 K1 M1 n a = kv2 K2 M2 n b := by
  have e : kvec K1 n 0 a = kvec K2 n 0 b := vle_antisymm K1 K2 n a b h1.1 h2.1
  have e' : kvec M1 n 0 a = kvec M2 n 0 b := vle_antisymm M1 M2 n a b (h1.2 e) (h2.2 e.symm)
  simp only [kv2, e, e']

/-- **canonicity of the point sort, key level (noise allowed).**  Two meshes (two noisy, relabelled
    copies), each satisfying `PointHypP`, sorted with two arbitrary `argsort` routines: if the pairs
    (coordinate key vector, minimal-centre key vector) of their points agree up to permutation, the
    two sorted point sequences carry pointwise equal key-vector pairs. -/
theorem sortPoints_canonical_keys {as1 as2 : List Int → List Nat} (h1 : IsArgsort as1) (h2 : IsArgsort as2)
    {t1 t2 : MeshTol} {A1 B1 M1 A2 B2 M2 : Nat} {m1 m2 : Mesh} {c1 c2 : List (List Int)}
    (hy1 : PointHypP t1 A1 B1 M1 m1 c1) (hy2 : PointHypP t2 A2 B2 M2 m2 c2)
    (hn1 : m1.points ≠ []) (hn2 : m2.points ≠ []) (hdim : m1.dim = m2.dim)
    (hrel : ((pitems m1).map (kv2 (KC A1 m1) (KM A1 c1 as1 t1 m1) m1.dim)).Perm
            ((pitems m2).map (kv2 (KC A2 m2) (KM A2 c2 as2 t2 m2) m2.dim))) :
    ∃ L1 L2, sortPointsItems as1 t1 m1 = some L1 ∧ sortPointsItems as2 t2 m2 = some L2 ∧
      L1.map (kv2 (KC A1 m1) (KM A1 c1 as1 t1 m1) m1.dim) =
      L2.map (kv2 (KC A2 m2) (KM A2 c2 as2 t2 m2) m2.dim) := by
  obtain ⟨L1, e1, p1, s1⟩ := sortPointsItems_spec h1 hy1 hn1
  obtain ⟨L2, e2, p2, s2⟩ := sortPointsItems_spec h2 hy2 hn2
  refine ⟨L1, L2, e1, e2, ?_⟩
  have hv1 : (L1.map (kv2 (KC A1 m1) (KM A1 c1 as1 t1 m1) m1.dim)).Pairwise (R2 m1.dim) := by
    rw [List.pairwise_map]; exact s1.imp (fun {a b} h => R2_of_le2 h)
  have hv2 : (L2.map (kv2 (KC A2 m2) (KM A2 c2 as2 t2 m2) m2.dim)).Pairwise (R2 m1.dim) := by
    rw [List.pairwise_map, hdim]; exact s2.imp (fun {a b} h => R2_of_le2 h)
  refine List.Perm.eq_of_pairwise ?_ hv1 hv2 (((p1.map _).trans hrel).trans (p2.map _).symm)
  intro u v hu hv huv hvu
  obtain ⟨a, _, rfl⟩ := List.mem_map.mp hu
  obtain ⟨b, _, rfl⟩ := List.mem_map.mp hv
  rw [← hdim] at huv hvu ⊢
  exact R2_antisymm huv hvu

/-- **canonicity of the point sort, identical points (noise-free).**  If moreover the pairs
    (coordinates, key-vector pair) of the two point sets agree up to permutation and the key-vector
    pairs of mesh 1 are pairwise distinct (coincident points distinguishable), the two sorted
    sequences of coordinates are IDENTICAL. -/
theorem sortPoints_canonical_rows {as1 as2 : List Int → List Nat} (h1 : IsArgsort as1) (h2 : IsArgsort as2)
    {t1 t2 : MeshTol} {A1 B1 M1 A2 B2 M2 : Nat} {m1 m2 : Mesh} {c1 c2 : List (List Int)}
    (hy1 : PointHypP t1 A1 B1 M1 m1 c1) (hy2 : PointHypP t2 A2 B2 M2 m2 c2)
    (hn1 : m1.points ≠ []) (hn2 : m2.points ≠ []) (hdim : m1.dim = m2.dim)
    (hrel : ((pitems m1).map fun it => (it.2, kv2 (KC A1 m1) (KM A1 c1 as1 t1 m1) m1.dim it)).Perm
            ((pitems m2).map fun it => (it.2, kv2 (KC A2 m2) (KM A2 c2 as2 t2 m2) m2.dim it)))
    (hdist : ∀ a ∈ pitems m1, ∀ b ∈ pitems m1,
      kv2 (KC A1 m1) (KM A1 c1 as1 t1 m1) m1.dim a = kv2 (KC A1 m1) (KM A1 c1 as1 t1 m1) m1.dim b → a.2 = b.2) :
    ∃ L1 L2, sortPointsItems as1 t1 m1 = some L1 ∧ sortPointsItems as2 t2 m2 = some L2 ∧
      L1.map (·.2) = L2.map (·.2) := by
  obtain ⟨L1, e1, p1, s1⟩ := sortPointsItems_spec h1 hy1 hn1
  obtain ⟨L2, e2, p2, s2⟩ := sortPointsItems_spec h2 hy2 hn2
  refine ⟨L1, L2, e1, e2, ?_⟩
  set f1 : PItem → List Int × (List Int × List Int) :=
    fun it => (it.2, kv2 (KC A1 m1) (KM A1 c1 as1 t1 m1) m1.dim it) with hf1
  set f2 : PItem → List Int × (List Int × List Int) :=
    fun it => (it.2, kv2 (KC A2 m2) (KM A2 c2 as2 t2 m2) m2.dim it) with hf2
  have hv1 : (L1.map f1).Pairwise (fun x y => R2 m1.dim x.2 y.2) := by
    rw [List.pairwise_map]; exact s1.imp (fun {a b} h => R2_of_le2 h)
  have hv2 : (L2.map f2).Pairwise (fun x y => R2 m1.dim x.2 y.2) := by
    rw [List.pairwise_map, hdim]; exact s2.imp (fun {a b} h => R2_of_le2 h)
  have hperm : (L1.map f1).Perm (L2.map f2) := ((p1.map f1).trans hrel).trans (p2.map f2).symm
  have key : L1.map f1 = L2.map f2 := by
    refine List.Perm.eq_of_pairwise ?_ hv1 hv2 hperm
    intro x y hx hy hxy hyx
    -- y also occurs on side 1
    have hy1' : y ∈ (pitems m1).map f1 := (p1.map f1).mem_iff.mp (hperm.mem_iff.mpr hy)
    have hx1' : x ∈ (pitems m1).map f1 := (p1.map f1).mem_iff.mp hx
    obtain ⟨a, ha, rfl⟩ := List.mem_map.mp hx1'
    obtain ⟨a', ha', rfl⟩ := List.mem_map.mp hy1'
    have ekv : kv2 (KC A1 m1) (KM A1 c1 as1 t1 m1) m1.dim a = kv2 (KC A1 m1) (KM A1 c1 as1 t1 m1) m1.dim a' :=
      R2_antisymm hxy hyx
    simp only [hf1, ekv, hdist a ha a' ha' ekv]
  have := congrArg (List.map (·.1)) key
  simpa [hf1, hf2, List.map_map, Function.comp_def] using this

end Fc.C02
