/-
  FcProofs.Lemmas.C07Meshio — the meshio bridge: with pairwise different cell types the Python dicts of
  `Mesh.__init__` / `MeshFields.__init__` neither overwrite nor mis-pair anything (helper lemmas for C07).
-/
import FcProofs.Lemmas.Structured
namespace Fc.C07
open Fc.C07.Spec

/-! ### duplicates and the dict -/

theorem nodup_of_hasDup_false (l : List String) (h : hasDup l = false) : l.Nodup := by
  induction l with
  | nil => exact List.nodup_nil
  | cons a r ih =>
    simp only [hasDup, Bool.or_eq_false_iff] at h
    refine List.nodup_cons.mpr ⟨?_, ih h.2⟩
    intro hm
    have : r.contains a = true := by simpa using hm
    rw [this] at h
    exact absurd h.1 (by simp)

theorem dictInsert_new {β : Type} (d : List (String × β)) (k : String) (v : β) (h : k ∉ d.map (·.1)) :
    dictInsert d k v = d ++ [(k, v)] := by
  unfold dictInsert
  have : d.any (·.1 == k) = false := by
    rw [List.any_eq_false]
    intro e he hek
    exact h (by simpa using ⟨e.2, by have := (beq_iff_eq.mp hek); rw [← this]; exact he⟩)
  simp [this]

theorem foldl_dictInsert_nodup {β : Type} (l acc : List (String × β))
    (hnd : (l.map (·.1)).Nodup) (hdis : ∀ k ∈ l.map (·.1), k ∉ acc.map (·.1)) :
    l.foldl (fun d e => dictInsert d e.1 e.2) acc = acc ++ l := by
  induction l generalizing acc with
  | nil => simp
  | cons e r ih =>
    simp only [List.map_cons, List.nodup_cons] at hnd
    simp only [List.foldl_cons]
    rw [dictInsert_new acc e.1 e.2 (hdis e.1 (by simp))]
    rw [ih (acc ++ [(e.1, e.2)]) hnd.2]
    · simp
    · intro k hk
      simp only [List.map_append, List.map_cons, List.map_nil, List.mem_append, List.mem_singleton, not_or]
      refine ⟨hdis k (by simp [hk]), ?_⟩
      rintro rfl
      exact hnd.1 hk

theorem dictOfList_nodup {β : Type} (l : List (String × β)) (hnd : (l.map (·.1)).Nodup) : dictOfList l = l := by
  unfold dictOfList
  rw [foldl_dictInsert_nodup l [] hnd (by simp)]
  simp

/-! ### cell fields per type, and the content of `from_meshio` -/

/-- the cell fields one type gets: array number `i` of every name -/
def mioChunk (cd : List (String × List NdArr)) (i : Nat) (t : String) : List CellField :=
  cd.filterMap fun na => na.2[i]?.map fun a => CellField.mk na.1 t a

theorem mioCellFieldsFrom_cons (cd : List (String × List NdArr)) (i : Nat) (t : String) (rest : List String) :
    mioCellFieldsFrom cd i (t :: rest) = mioChunk cd i t ++ mioCellFieldsFrom cd (i + 1) rest := rfl

theorem mem_mioChunk (cd : List (String × List NdArr)) (i : Nat) (t : String) (cf : CellField)
    (h : cf ∈ mioChunk cd i t) : ∃ na a, na ∈ cd ∧ na.2[i]? = some a ∧ cf = ⟨na.1, t, a⟩ := by
  simp only [mioChunk, List.mem_filterMap, Option.map_eq_some_iff] at h
  obtain ⟨na, hna, a, ha, rfl⟩ := h
  exact ⟨na, a, hna, ha, rfl⟩

theorem filter_chunk_same (cd : List (String × List NdArr)) (i : Nat) (t : String) :
    (mioChunk cd i t).filter (·.ctype == t) = mioChunk cd i t := by
  rw [List.filter_eq_self]
  intro cf h
  obtain ⟨na, a, _, _, rfl⟩ := mem_mioChunk cd i t cf h
  simp

theorem filter_chunk_other (cd : List (String × List NdArr)) (i : Nat) (u t : String) (h : u ≠ t) :
    (mioChunk cd i u).filter (·.ctype == t) = [] := by
  rw [List.filter_eq_nil_iff]
  intro cf hcf
  obtain ⟨na, a, _, _, rfl⟩ := mem_mioChunk cd i u cf hcf
  simpa using h

theorem mem_from_ctype (cd : List (String × List NdArr)) (k : Nat) (types : List String) (cf : CellField)
    (h : cf ∈ mioCellFieldsFrom cd k types) : cf.ctype ∈ types := by
  induction types generalizing k with
  | nil => simp [mioCellFieldsFrom] at h
  | cons t rest ih =>
    rw [mioCellFieldsFrom_cons, List.mem_append] at h
    rcases h with h | h
    · obtain ⟨na, a, _, _, rfl⟩ := mem_mioChunk cd k t cf h
      simp
    · exact List.mem_cons_of_mem _ (ih (k + 1) h)

theorem filter_from_notin (cd : List (String × List NdArr)) (k : Nat) (types : List String) (t : String)
    (h : t ∉ types) : (mioCellFieldsFrom cd k types).filter (·.ctype == t) = [] := by
  rw [List.filter_eq_nil_iff]
  intro cf hcf hct
  have := mem_from_ctype cd k types cf hcf
  rw [beq_iff_eq.mp hct] at this
  exact h this

/-- with pairwise different types, filtering the cell fields by one type returns exactly that type's chunk -/
theorem filter_from (cd : List (String × List NdArr)) (k : Nat) (tpre : List String) (t : String)
    (trest : List String) (hnd : (tpre ++ t :: trest).Nodup) :
    (mioCellFieldsFrom cd k (tpre ++ t :: trest)).filter (·.ctype == t) = mioChunk cd (k + tpre.length) t := by
  induction tpre generalizing k with
  | nil =>
    simp only [List.nil_append, List.nodup_cons] at hnd
    rw [List.nil_append, mioCellFieldsFrom_cons, List.filter_append, filter_chunk_same,
      filter_from_notin cd (k + 1) trest t hnd.1]
    simp
  | cons u tpre ih =>
    simp only [List.cons_append, List.nodup_cons] at hnd
    have hut : u ≠ t := by
      rintro rfl
      exact hnd.1 (by simp)
    rw [List.cons_append, mioCellFieldsFrom_cons, List.filter_append, filter_chunk_other cd k u t hut,
      ih (k + 1) hnd.2]
    simp [Nat.add_assoc, Nat.add_comm 1]

theorem mem_from_idx (cd : List (String × List NdArr)) (k : Nat) (types : List String) (cf : CellField)
    (h : cf ∈ mioCellFieldsFrom cd k types) :
    ∃ j, ∃ _ : j < types.length, ∃ na a, na ∈ cd ∧ na.2[k + j]? = some a ∧ cf = ⟨na.1, types[j], a⟩ := by
  induction types generalizing k with
  | nil => simp [mioCellFieldsFrom] at h
  | cons t rest ih =>
    rw [mioCellFieldsFrom_cons, List.mem_append] at h
    rcases h with h | h
    · obtain ⟨na, a, hna, ha, rfl⟩ := mem_mioChunk cd k t cf h
      exact ⟨0, by simp, na, a, hna, by simpa using ha, by simp⟩
    · obtain ⟨j, hj, na, a, hna, ha, rfl⟩ := ih (k + 1) h
      refine ⟨j + 1, by simpa using hj, na, a, hna, ?_, by simp⟩
      rw [← ha]; congr 1; omega

theorem find_nodup {β : Type} (l : List (String × β)) (hnd : (l.map (·.1)).Nodup) (j : Nat) (hj : j < l.length) :
    l.find? (·.1 == l[j].1) = some l[j] := by
  induction l generalizing j with
  | nil => simp at hj
  | cons e r ih =>
    simp only [List.map_cons, List.nodup_cons] at hnd
    cases j with
    | zero => simp
    | succ j =>
      have hj' : j < r.length := by simpa using hj
      have hne : e.1 ≠ r[j].1 := by
        intro he
        exact hnd.1 (by rw [he]; exact List.mem_map.mpr ⟨r[j], List.getElem_mem _, rfl⟩)
      simp only [List.getElem_cons_succ, List.find?_cons]
      have : (e.1 == r[j].1) = false := by simpa using hne
      rw [this]
      exact ih hnd.2 j hj'

theorem cellsOf_nodup (d : Nat) (p : List (List Int)) (tb : List (String × List (List Nat)))
    (hnd : (tb.map (·.1)).Nodup) (j : Nat) (hj : j < tb.length) :
    Mesh.cellsOf ⟨d, p, tb⟩ tb[j].1 = tb[j].2 := by
  simp [Mesh.cellsOf, find_nodup tb hnd j hj]

/-- the blocks with their fieldcompare type names -/
def mioTb (m : MioMesh) : List (String × List (List Nat)) :=
  m.blocks.map fun b => ((fromMioType b.1).getD "", b.2)

theorem mioTb_mapM (m : MioMesh) (hwf : m.wf = true) :
    m.blocks.mapM (fun b => (fromMioType b.1).map fun t => (t, b.2)) = some (mioTb m) := by
  apply mapM_option_of_forall
  intro b hb
  simp only [MioMesh.wf, Bool.and_eq_true, List.all_eq_true] at hwf
  have := hwf.1.1 b hb
  obtain ⟨t, ht⟩ := Option.isSome_iff_exists.mp this
  simp [ht]

theorem mioTb_keys (m : MioMesh) : (mioTb m).map (·.1) = m.blockTypes := by
  simp [mioTb, MioMesh.blockTypes, List.map_map, Function.comp_def]

/-- cell content of the suffix `suf` of the blocks (starting at block number `pre.length`) -/
theorem cellContent_suffix (m : MioMesh) (F : MeshFields)
    (hcf : F.cellFields = mioCellFields m.blockTypes m.cellData) (hpts : F.mesh.points = m.points)
    (hnd : m.blockTypes.Nodup) (pre suf : List (String × List (List Nat))) (hb : m.blocks = pre ++ suf) :
    ((suf.map fun b => ((fromMioType b.1).getD "", b.2)).flatMap fun b =>
      (List.range b.2.length).map fun c => F.cellItem b.1 c (b.2.getD c [])) =
      mioCellContentFrom m pre.length suf := by
  induction suf generalizing pre with
  | nil => simp [mioCellContentFrom]
  | cons b rest ih =>
    have hb' : m.blocks = (pre ++ [b]) ++ rest := by simp [hb]
    have := ih (pre ++ [b]) hb'
    simp only [List.length_append, List.length_singleton] at this
    simp only [List.map_cons, List.flatMap_cons, mioCellContentFrom, this]
    congr 1
    apply List.map_congr_left
    intro c _
    have htypes : m.blockTypes = (pre.map fun b => (fromMioType b.1).getD "") ++
        ((fromMioType b.1).getD "") :: (rest.map fun b => (fromMioType b.1).getD "") := by
      simp [MioMesh.blockTypes, hb]
    have hfil := filter_from m.cellData 0 _ _ _ (htypes ▸ hnd)
    simp only [MeshFields.cellItem, hcf, mioCellFields, htypes, hfil, hpts]
    simp [mioChunk, List.map_filterMap, Option.map_map, Function.comp_def]

theorem fromMeshio_content (m : MioMesh) (hwf : m.wf = true) (hnr : m.repeatedType = false) :
    ∃ F, fromMeshio m = some F ∧ F.cellContent = mioCellContent m ∧ F.pointContent = mioPointContent m := by
  have hnd : m.blockTypes.Nodup := nodup_of_hasDup_false _ hnr
  have hkeys := mioTb_keys m
  have hdict : dictOfList (mioTb m) = mioTb m := dictOfList_nodup _ (hkeys ▸ hnd)
  let F : MeshFields := ⟨⟨m.dim, m.points, mioTb m⟩, m.pointData.map (fun na => PointField.mk na.1 na.2),
    mioCellFields m.blockTypes m.cellData⟩
  have hF : fromMeshio m = some F := by
    simp only [fromMeshio, mioTb_mapM m hwf, hdict, Mesh.cellTypes, hkeys]
    simp only [MioMesh.wf, Bool.and_eq_true, List.all_eq_true] at hwf
    have e1 : ((m.pointData.map fun x => PointField.mk x.1 x.2).any fun pf =>
        pf.values.shape.head? != some (Mesh.numPoints ⟨m.dim, m.points, mioTb m⟩)) = false := by
      rw [List.any_eq_false]
      intro pf hpf
      obtain ⟨na, hna, rfl⟩ := List.mem_map.mp hpf
      have := hwf.1.2 na hna
      simpa [Mesh.numPoints] using this
    have e2 : ((mioCellFields m.blockTypes m.cellData).any fun cf =>
        cf.values.shape.head? != some (Mesh.cellsOf ⟨m.dim, m.points, mioTb m⟩ cf.ctype).length) = false := by
      rw [List.any_eq_false]
      intro cf hcf
      obtain ⟨j, hj, na, a, hna, ha, rfl⟩ := mem_from_idx _ _ _ _ hcf
      have hjb : j < m.blocks.length := by simpa [MioMesh.blockTypes] using hj
      have hjt : j < (mioTb m).length := by simpa [mioTb] using hjb
      have hty : m.blockTypes[j] = (mioTb m)[j].1 := by simp [MioMesh.blockTypes, mioTb]
      have hco := cellsOf_nodup m.dim m.points (mioTb m) (hkeys ▸ hnd) j hjt
      have hwa := hwf.2 na hna
      try simp only [Bool.and_eq_true, List.all_eq_true] at hwa
      have hz : (a, m.blocks[j]) ∈ na.2.zip m.blocks := by
        apply List.mem_of_getElem? (i := j)
        rw [List.getElem?_zip_eq_some]
        exact ⟨by simpa using ha, by simp [hjb]⟩
      have := hwa.2 _ hz
      show ¬ (a.shape.head? != some (Mesh.cellsOf ⟨m.dim, m.points, mioTb m⟩ m.blockTypes[j]).length) = true
      rw [hty, hco]
      simpa [mioTb] using this
    simp [e1, e2, F]
  refine ⟨F, hF, ?_, ?_⟩
  · have := cellContent_suffix m F rfl rfl hnd [] m.blocks (by simp)
    simpa [MeshFields.cellContent, F, mioTb, mioCellContent] using this
  · simp only [MeshFields.pointContent, mioPointContent, F, Mesh.numPoints]
    have hconn : ∀ p, Mesh.connected ⟨m.dim, m.points, mioTb m⟩ p = mioConnected m p := by
      intro p
      simp [Mesh.connected, mioConnected, mioTb, List.any_map, Function.comp_def]
    have hfun : Mesh.connected ⟨m.dim, m.points, mioTb m⟩ = mioConnected m := funext hconn
    rw [hfun]
    apply List.map_congr_left
    intro p _
    simp [MeshFields.pointItem, List.map_map, Function.comp_def]

end Fc.C07
