/-
  FcProofs.Lemmas.GlueC02 — small facts about C02's own model of `PermutedMesh`
  (`Fc.C02.applyPointMap`, `sortPoints`) needed to compose C02's canonicity theorems with C19 / C14:
  a point-permuted view is `Relabeled`; items of a sorted item list carry their own coordinates;
  row `j` of `permuteRows v idx` is row `idx[j]` of `v`.
-/
import FcProofs.Props.C02
import FcProofs.Lemmas.Permuted
namespace Fc.Glue
open Fc Fc.C02 Fc.C02.Spec

/-- `PermutedMesh(mesh, point_permutation=ρ)` (C02's model) is a relabelling in the sense of
    `C02_canonical_points` -/
theorem relabeled_applyPointMap (f : MeshFields) (ρ : List Nat)
    (hperm : ρ.Perm (List.range f.mesh.points.length))
    (hwf : ∀ row ∈ allRows f.mesh, ∀ p ∈ row, p < f.mesh.points.length) :
    Relabeled f.mesh (applyPointMap f ρ).mesh ρ where
  dim := rfl
  perm := hperm
  points := rfl
  wf := hwf
  rows := by
    apply List.Perm.of_eq
    unfold allRows applyPointMap
    simp only [List.flatMap_map, List.map_flatMap]

/-- an item list that is a permutation of the mesh's point items: every item carries the
    coordinates of its index, and the indices are a permutation of the point range -/
theorem items_perm_facts (m : Mesh) (L : List PItem) (h : L.Perm (pitems m)) :
    L.map (·.2) = (L.map (·.1)).map (fun i => m.points.getD i []) ∧
    (L.map (·.1)).Perm (List.range m.points.length) := by
  constructor
  · rw [List.map_map]
    apply List.map_congr_left
    intro it hit
    have := h.mem_iff.mp hit
    rw [pitems_eq_map] at this
    obtain ⟨p, _, rfl⟩ := List.mem_map.mp this
    rfl
  · have := h.map (·.1)
    rw [pitems_eq_map, List.map_map] at this
    simpa [Function.comp_def] using this

/-- **`sort_points` twice (C02's model).**  `f2 = sort_points(f)`; under C02's hypotheses on `f`
    and on `f2` (`PointHypP`, same candidate centres, coincident points of `f` distinguishable),
    for ANY two argsort routines: sorting `f2` again succeeds and leaves the point coordinates
    exactly where they are. -/
theorem sortPoints_twice {as1 as2 : List Int → List Nat} (h1 : IsArgsort as1) (h2 : IsArgsort as2)
    {t1 t2 : MeshTol} {A B1 M1 B2 M2 : Nat} {f f2 : MeshFields} {c1 c2 : List (List Int)}
    (hs : C02.sortPoints as1 t1 f = some f2)
    (hy1 : PointHypP t1 A B1 M1 f.mesh c1) (hy2 : PointHypP t2 A B2 M2 f2.mesh c2)
    (hc : ∀ x, x ∈ c1 ↔ x ∈ c2)
    (hwf : ∀ row ∈ allRows f.mesh, ∀ p ∈ row, p < f.mesh.points.length)
    (hn1 : f.mesh.points ≠ [])
    (hdist : ∀ a ∈ pitems f.mesh, ∀ b ∈ pitems f.mesh,
      kvec (KC A f.mesh) f.mesh.dim 0 a = kvec (KC A f.mesh) f.mesh.dim 0 b →
      kvec (KM A c1 as1 t1 f.mesh) f.mesh.dim 0 a = kvec (KM A c1 as1 t1 f.mesh) f.mesh.dim 0 b → a = b) :
    ∃ f3, C02.sortPoints as2 t2 f2 = some f3 ∧ f3.mesh.points = f2.mesh.points := by
  obtain ⟨L1, e1, p1, _⟩ := C02_sort_points_sorted h1 hy1 hn1
  have hf2 : f2 = applyPointMap f (L1.map (·.1)) := by
    unfold C02.sortPoints sortPointsIdx at hs
    rw [e1] at hs
    simp only [Option.map_some, Option.some.injEq] at hs
    exact hs.symm
  obtain ⟨hcoord1, hperm1⟩ := items_perm_facts f.mesh L1 p1
  have hrel : Relabeled f.mesh f2.mesh (L1.map (·.1)) := by
    rw [hf2]; exact relabeled_applyPointMap f _ hperm1 hwf
  obtain ⟨L1', L2, e1', e2, _, hcoords⟩ := C02_canonical_points h1 h2 hy1 hy2 hc hrel hn1 hdist
  rw [e1] at e1'
  cases e1'
  have hn2 : f2.mesh.points ≠ [] := by
    intro h0
    have hl : f2.mesh.points.length = f.mesh.points.length := by
      rw [hrel.points, List.length_map, hrel.length]
    rw [h0] at hl
    exact hn1 (List.length_eq_zero_iff.mp hl.symm)
  obtain ⟨L2', e2', p2, _⟩ := C02_sort_points_sorted h2 hy2 hn2
  rw [e2] at e2'
  cases e2'
  obtain ⟨hcoord2, _⟩ := items_perm_facts f2.mesh L2 p2
  refine ⟨applyPointMap f2 (L2.map (·.1)), ?_, ?_⟩
  · unfold C02.sortPoints sortPointsIdx
    rw [e2]; rfl
  · show (L2.map (·.1)).map (fun i => f2.mesh.points.getD i []) = f2.mesh.points
    rw [← hcoord2, ← hcoords, hcoord1, hf2]
    rfl

/-- distinguishability of coincident points does not depend on the argsort routine used inside
    the "minimal adjacent centre" (`KM_kvec_unique`): transfer of the hypothesis `hdist` -/
theorem hdist_transfer {as1 as2 : List Int → List Nat} (h1 : IsArgsort as1) (h2 : IsArgsort as2)
    {t : MeshTol} {A B M : Nat} {m : Mesh} {cands : List (List Int)} (hyp : PointHypP t A B M m cands)
    (hdist : ∀ a ∈ pitems m, ∀ b ∈ pitems m, kvec (KC A m) m.dim 0 a = kvec (KC A m) m.dim 0 b →
      kvec (KM A cands as1 t m) m.dim 0 a = kvec (KM A cands as1 t m) m.dim 0 b → a = b) :
    ∀ a ∈ pitems m, ∀ b ∈ pitems m, kvec (KC A m) m.dim 0 a = kvec (KC A m) m.dim 0 b →
      kvec (KM A cands as2 t m) m.dim 0 a = kvec (KM A cands as2 t m) m.dim 0 b → a = b := by
  intro a ha b hb he hm
  by_contra hne
  obtain ⟨csa, hca, hsa⟩ := hyp.centres a ha b hb hne he
  obtain ⟨csb, hcb, hsb⟩ := hyp.centres b hb a ha (Ne.symm hne) he.symm
  have ea := KM_kvec_unique h1 h2 hyp.sepC hyp.dimPos hca hsa
  have eb := KM_kvec_unique h1 h2 hyp.sepC hyp.dimPos hcb hsb
  exact hne (hdist a ha b hb he (by rw [ea, eb]; exact hm))

end Fc.Glue
