/-
  Lemmas.CellDataW — cell-type blocks: the rows of one type inside the written cell sequence are the rows
  of that type's block, and a cell-data array written block by block is split back into the blocks' values
  by the index map of the reader.
-/
import FcProofs.Lemmas.CellsW
namespace Fc.W

/-- the cells of type `t` inside the sequence built from blocks with pairwise distinct types are the rows
    of the block of type `t` -/
theorem blockRows_filter (t : Nat) : ∀ (pre suf : List (Nat × List (List Nat))) (rows : List (List Nat)),
    (∀ b ∈ pre, b.1 ≠ t) → (∀ b ∈ suf, b.1 ≠ t) →
    (((pre ++ (t, rows) :: suf).flatMap fun b => b.2.map fun r => (b.1, r)).filter (·.1 == t)).map (·.2) = rows := by
  intro pre suf rows hpre hsuf
  have none_of : ∀ (l : List (Nat × List (List Nat))), (∀ b ∈ l, b.1 ≠ t) →
      ((l.flatMap fun b => b.2.map fun r => (b.1, r)).filter (·.1 == t)) = [] := by
    intro l hl
    rw [List.filter_eq_nil_iff]
    intro x hx
    obtain ⟨b, hb, hxb⟩ := List.mem_flatMap.mp hx
    obtain ⟨r, _, e⟩ := List.mem_map.mp hxb
    subst e
    simpa using hl b hb
  rw [List.flatMap_append, List.filter_append, none_of pre hpre, List.flatMap_cons, List.filter_append,
    none_of suf hsuf]
  simp only [List.nil_append, List.append_nil]
  have : (rows.map fun r => (t, r)).filter (fun x => x.1 == t) = rows.map fun r => (t, r) := by
    rw [List.filter_eq_self]; intro x hx
    obtain ⟨r, _, e⟩ := List.mem_map.mp hx
    subst e; simp
  rw [this, List.map_map]
  show List.map (fun r => r) rows = rows
  exact List.map_id' rows

theorem idxFrom_replicate_self (t : Nat) : ∀ (n base : Nat) (rest : List Nat),
    idxFrom t base (List.replicate n t ++ rest) = List.range' base n ++ idxFrom t (base + n) rest
  | 0, base, rest => by simp
  | n + 1, base, rest => by
    simp only [List.replicate_succ, List.cons_append, idxFrom, beq_self_eq_true, if_true, List.range'_succ]
    rw [idxFrom_replicate_self t n (base + 1) rest]
    have : base + 1 + n = base + (n + 1) := by omega
    rw [this]

theorem idxFrom_none (t : Nat) : ∀ (l : List Nat) (base : Nat), (∀ x ∈ l, x ≠ t) → idxFrom t base l = []
  | [], _, _ => rfl
  | x :: r, base, h => by
    have hx : (x == t) = false := by simp [h x (by simp)]
    simp only [idxFrom, hx, Bool.false_eq_true, if_false]
    exact idxFrom_none t r (base + 1) (fun y hy => h y (by simp [hy]))

/-- gathering a contiguous range of rows is a slice -/
theorem gatherRows_range (k : Nat) (items : List Nat) : ∀ (n base : Nat), (base + n) * k ≤ items.length →
    gatherRows k items (List.range' base n) = (items.drop (base * k)).take (n * k)
  | 0, base, _ => by simp [gatherRows]
  | n + 1, base, h => by
    have ih := gatherRows_range k items n (base + 1) (by rw [show base + 1 + n = base + (n + 1) by omega]; exact h)
    unfold gatherRows at ih ⊢
    simp only [List.range'_succ, List.flatMap_cons, ih]
    have e : (base + 1) * k = base * k + k := by rw [Nat.add_mul, Nat.one_mul]
    have e2 : (n + 1) * k = k + n * k := by rw [Nat.add_mul, Nat.one_mul, Nat.add_comm]
    rw [e, e2, ← List.drop_drop, List.take_add]
    
/-- **cell data per type**: the reader's index map applied to a cell-data array written block by block
    (blocks with pairwise distinct types, `k` scalars per cell) returns the values of the block of type `t` -/
theorem gather_block (t k : Nat) (pre suf : List (Nat × Nat × List Nat)) (n : Nat) (vals : List Nat)
    (hpre : ∀ b ∈ pre, b.1 ≠ t) (hsuf : ∀ b ∈ suf, b.1 ≠ t)
    (hlen : ∀ b ∈ pre, b.2.2.length = b.2.1 * k) (hv : vals.length = n * k) :
    let blocks := pre ++ (t, n, vals) :: suf
    gatherRows k (blocks.flatMap (·.2.2)) (typeIndices (blocks.flatMap fun b => List.replicate b.2.1 b.1) t) = vals := by
  intro blocks
  have hT : ∀ (l : List (Nat × Nat × List Nat)), (∀ b ∈ l, b.1 ≠ t) →
      ∀ x ∈ (l.flatMap fun b => List.replicate b.2.1 b.1), x ≠ t := by
    intro l hl x hx
    obtain ⟨b, hb, hxb⟩ := List.mem_flatMap.mp hx
    have := (List.mem_replicate.mp hxb).2
    subst this
    exact hl b hb
  have hcount : (pre.flatMap (·.2.2)).length = (pre.flatMap fun b => List.replicate b.2.1 b.1).length * k := by
    clear hpre
    induction pre with
    | nil => simp
    | cons b r ih =>
      have hb := hlen b (by simp)
      have := ih (fun c hc => hlen c (by simp [hc]))
      simp only [List.flatMap_cons, List.length_append, List.length_replicate, this, hb, Nat.add_mul]
  unfold typeIndices
  show gatherRows k ((pre ++ (t, n, vals) :: suf).flatMap (·.2.2))
      (idxFrom t 0 ((pre ++ (t, n, vals) :: suf).flatMap fun b => List.replicate b.2.1 b.1)) = vals
  rw [List.flatMap_append, List.flatMap_append, List.flatMap_cons, List.flatMap_cons]
  rw [idxFrom_head t _ _ 0 (hT pre hpre)]
  simp only [Nat.zero_add]
  rw [idxFrom_replicate_self, idxFrom_none t _ _ (hT suf hsuf), List.append_nil]
  rw [gatherRows_range]
  · rw [← hcount, List.drop_append_of_le_length (Nat.le_refl _), List.drop_of_length_le (Nat.le_refl _)]
    simp only [List.nil_append]
    rw [← hv, List.take_append_of_le_length (Nat.le_refl _), List.take_of_length_le (Nat.le_refl _)]
  · simp only [List.length_append, hv, ← hcount, Nat.add_mul]
    omega

/-- **cells per type, block form**: blocks of pairwise distinct types, `k` corners per row of type `t` -/
theorem cornersOf_blocks (t k : Nat) (pre suf : List (Nat × List (List Nat))) (rows : List (List Nat))
    (hpre : ∀ b ∈ pre, b.1 ≠ t) (hsuf : ∀ b ∈ suf, b.1 ≠ t)
    (hk : ∀ r ∈ rows, r.length = k) (hne : rows ≠ []) :
    let all := (pre ++ (t, rows) :: suf).flatMap fun b => b.2.map fun r => (b.1, r)
    cornersOf (all.flatMap (·.2)) (runningSums 0 (all.map (·.2.length))) (all.map (·.1)) t = some rows := by
  intro all
  have hfilter := blockRows_filter t pre suf rows hpre hsuf
  have hk' : ∀ c ∈ all, c.1 = t → c.2.length = k := by
    intro c hc hct
    have : c.2 ∈ (all.filter (·.1 == t)).map (·.2) :=
      List.mem_map.mpr ⟨c, List.mem_filter.mpr ⟨hc, by simp [hct]⟩, rfl⟩
    rw [hfilter] at this
    exact hk _ this
  have hex : ∃ c ∈ all, c.1 = t := by
    cases rows with
    | nil => exact absurd rfl hne
    | cons r rs =>
      refine ⟨(t, r), ?_, rfl⟩
      apply List.mem_flatMap.mpr
      exact ⟨(t, r :: rs), by simp, by simp⟩
  rw [cornersOf_written t k all hk' hex, hfilter]

end Fc.W
