/-
  FcProofs.Lemmas.GlueC17 — glue between C17 (dimension rung), C10/C09 (reflexivity of the
  predicates), C03 (`mesh_equal` line by line) and C08 (the extension):

  * `Glue.cellStage` / `Glue.meshEqualB`: C03's model of the cell stage / of the whole `mesh_equal`
    as the Boolean parameters of C17's `domainEqual` / `runComparison`;
  * `cellsEqual_self`: the cell stage accepts every mesh against itself (no hypothesis);
  * `domainEqual_eq_meshEqualWith`: C17's `domainEqual` over C03's cell stage IS C03's `mesh_equal`;
  * `fuzzyCheck_refl_flt`: `FuzzyEquality` with number / default tolerances is reflexive on float
    arrays of EVERY format (C10_refl / C10_refl_default are the binary64 instances);
  * `defaultCheck_refl`: `DefaultEquality(rel, abs)` is reflexive on every array (float → the above,
    int / str → `C10_refl_exact`);
  * `extend_dtype_*`: the extension keeps every field's dtype.
-/
import FcProofs.Props.C10
import FcProofs.Props.C17
import FcModel.MeshEqual
namespace Fc.Glue
open Fc Fc.Spec Fc.C03

/-- the tolerances for which reflexivity is proved here: a number (`rel_tol=1e-9`) or the default
    functor (machine epsilon of the dtype) -/
def SimpleTol (t : Tol) : Prop := t = .dflt ∨ ∃ u, t = .num u

/-- cell stage of `mesh_equal` (C03's line-by-line model) as a Boolean: passed without error -/
def cellStage (a b : Mesh) : Bool := cellsEqual a b == .ok true

/-- the whole `mesh_equal(source, target, rel_tol=rel, abs_tol=abs)` (C03's model) as a Boolean -/
def meshEqualB (rel abs : Nat) (a b : Mesh) : Bool := meshEqualWith rel abs a b == .ok true

/-! ### the cell stage is reflexive -/

/-- a type that is present is its own partner (local copy of C03's `targetType_of_mem`, so that this
    file does not depend on the table facts of `Lemmas/MeshEqual.lean`) -/
theorem targetType_self (sb : List String) (c : String) (h : c ∈ sb) : targetType sb c = some c := by
  unfold targetType
  simp [h]

theorem cellLoop_self (A : Mesh) : ∀ l : List String, (∀ c ∈ l, c ∈ A.cellTypes) → cellLoop A A l = .ok true
  | [], _ => rfl
  | ct :: rest, h => by
    have hm : ct ∈ A.cellTypes := h ct (List.mem_cons_self ..)
    unfold cellLoop
    rw [targetType_self A.cellTypes ct hm]
    simp only [ne_eq, not_true_eq_false, if_false, C10_refl_exact]
    exact cellLoop_self A rest (fun c hc => h c (List.mem_cons_of_mem _ hc))

/-- ExactEquality on the row-wise sorted corner arrays, block by block: every mesh passes against
    itself — no well-formedness needed -/
theorem cellsEqual_self (A : Mesh) : cellsEqual A A = .ok true := by
  unfold cellsEqual
  have hf : A.cellTypes.filter (fun c => !A.cellTypes.contains c) = [] := by
    apply List.filter_eq_nil_iff.mpr
    intro c hc
    simp [hc]
  simp only [hf]
  have hw : (withoutCompatibles [] []).length = 0 := by
    simp [withoutCompatibles]
  simp only [hw, ne_eq, not_true_eq_false, if_false]
  exact cellLoop_self A A.cellTypes (fun _ h => h)

theorem cellStage_self (A : Mesh) : cellStage A A = true := by
  unfold cellStage; rw [cellsEqual_self]; rfl

/-- C17's `domainEqual` (points stage, then the cell-stage parameter) instantiated with C03's
    cell stage is C03's `mesh_equal` -/
theorem domainEqual_eq_meshEqualWith (rel abs : Nat) (a b : Mesh) :
    domainEqual rel abs cellStage a b = meshEqualB rel abs a b := by
  unfold domainEqual pointsEqual meshEqualB meshEqualWith cellStage
  have hp : pointArr a = a.pointsArr := rfl
  have hq : pointArr b = b.pointsArr := rfl
  rw [hp, hq]
  cases h : fuzzyCheck (.num rel) (.num abs) a.pointsArr b.pointsArr with
  | err => simp
  | ok v => cases v <;> simp

theorem domainEqual_eq_meshEqualB (rel abs : Nat) :
    domainEqual rel abs cellStage = meshEqualB rel abs := by
  funext a b; exact domainEqual_eq_meshEqualWith rel abs a b

/-! ### reflexivity of the field predicate on every dtype -/

theorem resolveTol_simple (F : Fmt) (t : Tol) (h : SimpleTol t) :
    ∃ u, ∀ a b : NdArr, resolveTol F t a b = some (.weak u) := by
  rcases h with rfl | ⟨u, rfl⟩
  · exact ⟨_, fun _ _ => rfl⟩
  · exact ⟨_, fun _ _ => rfl⟩

/-- the scalar kernel accepts `x` against `x` in every format, for every threshold -/
theorem fuzzyEq1_self (F : Fmt) (x : Int) (rel : Nat) (rW : Bool) (abs : Nat) (aW : Bool) :
    fuzzyEq1 F x x rel rW abs aW = true := by
  unfold fuzzyEq1
  have : (x - x).natAbs = 0 := by omega
  rw [this, rndMag_zero]
  exact leInf_zero _

/-- **`FuzzyEquality(rel, abs)(a, a)` on a float array of any format** (float16 / float32 / float64),
    number-valued or default tolerances.  For binary64 this is `C10_refl` / `C10_refl_default`. -/
theorem fuzzyCheck_refl_flt (rel abs : Tol) (hr : SimpleTol rel) (ht : SimpleTol abs) (a : NdArr) (F : Fmt)
    (hd : a.dtype = .flt F) : fuzzyCheck rel abs a a = .ok true := by
  unfold fuzzyCheck
  rw [reshapePair_self]
  simp only [ne_eq, not_true_eq_false, if_false]
  rw [hd]
  simp only [not_true_eq_false, if_false]
  obtain ⟨u, hu⟩ := resolveTol_simple F rel hr
  obtain ⟨v, hv⟩ := resolveTol_simple F abs ht
  rw [hu, hv]
  unfold findFuzzy
  simp only [tolShapeOk, and_self, if_true]
  refine congrArg Verdict.ok ?_
  unfold allFuzzy
  apply List.all_eq_true.mpr
  intro i _
  exact fuzzyEq1_self F _ _ _ _ _

/-- **`DefaultEquality(rel, abs)(a, a)` on ANY array**: float of any format (fuzzy path), integer of
    any width and signedness, string (exact path, `C10_refl_exact`) -/
theorem defaultCheck_refl (rel abs : Tol) (hr : SimpleTol rel) (ht : SimpleTol abs) (a : NdArr) :
    defaultCheck rel abs a a = .ok true := by
  unfold defaultCheck
  cases hd : a.dtype with
  | flt F =>
    simp only [DType.hasFloats, or_self, if_true]
    exact fuzzyCheck_refl_flt rel abs hr ht a F hd
  | int s b =>
    simp only [DType.hasFloats, Bool.false_eq_true, or_self, if_false]
    exact C10_refl_exact a
  | str =>
    simp only [DType.hasFloats, Bool.false_eq_true, or_self, if_false]
    exact C10_refl_exact a

/-- the binary64 case again, this time THROUGH property C10 (`C10_refl_spec` + `C01_model_eq_spec`):
    shows that the hand-over hypothesis of `C17_pad_equal` is what C10 proves -/
theorem fuzzyCheck_refl_f64_via_C10 (rel abs : Tol) (hr : SimpleTol rel) (ht : SimpleTol abs) (a : NdArr)
    (hd : a.dtype = .flt f64) : fuzzyCheck rel abs a a = .ok true := by
  have hyp : C01Hyp rel abs a a := by
    refine ⟨hd, hd, ?_, ?_⟩
    · rcases hr with rfl | ⟨u, rfl⟩ <;> (intro s us h; cases h)
    · rcases ht with rfl | ⟨u, rfl⟩ <;> (intro s us h; cases h)
  have h1 : ∃ r, specTol f64 rel a a = some r := by
    rcases hr with rfl | ⟨u, rfl⟩ <;> exact ⟨_, rfl⟩
  have h2 : ∃ t, specTol f64 abs a a = some t := by
    rcases ht with rfl | ⟨u, rfl⟩ <;> exact ⟨_, rfl⟩
  rw [C01_model_eq_spec _ _ _ _ hyp, C10_refl_spec _ _ _ h1 h2]
  rfl

end Fc.Glue
