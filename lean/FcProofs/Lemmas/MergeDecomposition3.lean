/-
  Helper lemmas for property C06: recovery of a three-axis decomposition by
  `_get_structured_decomposition` — the three axes together, the `has_dimension` filter, the piece
  locations among the meshed directions and the `order` / `domain_id` map.
-/
import FcProofs.Lemmas.MergeDecomposition
namespace Fc.C06
open Fc.C06.Spec

/-! ### generic list facts -/

theorem range3 : List.range 3 = [0, 1, 2] := by decide

theorem lt3_cases {dir : Nat} (h : dir < 3) : dir = 0 ∨ dir = 1 ∨ dir = 2 := by omega

theorem getD_map_nil {α β} (f : List α → List β) (hf : f [] = []) (l : List (List α)) (i : Nat) :
    (l.map f).getD i [] = f (l.getD i []) := by
  simp only [List.getD_eq_getElem?_getD, List.getElem?_map]
  cases l[i]? <;> simp [hf]

theorem getD_map_length {α} (l : List (List α)) (i : Nat) :
    (l.map List.length).getD i 0 = (l.getD i []).length := by
  simp only [List.getD_eq_getElem?_getD, List.getElem?_map]
  cases l[i]? <;> simp

theorem allLt_iff (loc shape : List Nat) :
    AllLt loc shape ↔ loc.length = shape.length ∧ ∀ k, k < shape.length → loc.getD k 0 < shape.getD k 0 := by
  induction loc generalizing shape with
  | nil =>
    cases shape with
    | nil => simp [AllLt]
    | cons n s => simp [AllLt]
  | cons i t ih =>
    cases shape with
    | nil => simp [AllLt]
    | cons n s =>
      simp only [AllLt, ih s, List.length_cons, Nat.add_right_cancel_iff]
      constructor
      · rintro ⟨h0, hl, hr⟩
        refine ⟨hl, ?_⟩
        intro k hk
        cases k with
        | zero => simpa using h0
        | succ k => simpa using hr k (by omega)
      · rintro ⟨hl, hr⟩
        refine ⟨by simpa using hr 0 (by omega), hl, ?_⟩
        intro k hk
        simpa using hr (k + 1) (by omega)

theorem list3_ext (a b : List Nat) (ha : a.length = 3) (hb : b.length = 3)
    (h : ∀ k, k < 3 → a.getD k 0 = b.getD k 0) : a = b := by
  match a, b, ha, hb with
  | [a0, a1, a2], [b0, b1, b2], _, _ =>
    have h0 := h 0 (by omega)
    have h1 := h 1 (by omega)
    have h2 := h 2 (by omega)
    simp at h0 h1 h2
    simp [h0, h1, h2]

theorem idxOf_getElem_of_nodup (l : List Nat) (h : l.Nodup) (j : Nat) (hj : j < l.length) :
    l.idxOf l[j] = j := by
  induction l generalizing j with
  | nil => simp at hj
  | cons x r ih =>
    rw [List.nodup_cons] at h
    cases j with
    | zero => simp
    | succ j =>
      have hj' : j < r.length := by simpa using hj
      have hne : (x == r[j]) = false := by
        simp only [beq_eq_false_iff_ne, ne_eq]
        intro e
        exact h.1 (e ▸ List.getElem_mem hj')
      simp only [List.getElem_cons_succ, List.idxOf_cons, hne, cond_false]
      rw [ih h.2 j hj']

theorem getD_idxOf_of_mem (l : List Nat) (x : Nat) (h : x ∈ l) : l.getD (l.idxOf x) 0 = x := by
  have hlt := List.idxOf_lt_length_of_mem h
  rw [List.getD_eq_getElem?_getD, List.getElem?_eq_getElem hlt]
  simp [List.getElem_idxOf hlt]

theorem nodup_getD_inj (l : List (List Nat)) (h : l.Nodup) (i j : Nat) (hi : i < l.length)
    (hj : j < l.length) (e : l.getD i [] = l.getD j []) : i = j := by
  rw [List.getD_eq_getElem?_getD, List.getD_eq_getElem?_getD, List.getElem?_eq_getElem hi,
    List.getElem?_eq_getElem hj] at e
  simp only [Option.getD_some] at e
  have hp := List.pairwise_iff_getElem.mp (List.nodup_iff_pairwise_ne.mp h)
  rcases Nat.lt_trichotomy i j with hlt | heq | hgt
  · exact absurd e (hp i j hi hj hlt)
  · exact heq
  · exact absurd e.symm (hp j i hj hi hgt)

theorem filter_range_single (p : Nat → Bool) (n i : Nat) (hi : i < n) (hp : p i = true)
    (hu : ∀ j, j < n → p j = true → j = i) : (List.range n).filter p = [i] := by
  induction n with
  | zero => omega
  | succ n ih =>
    rw [List.range_succ, List.filter_append]
    by_cases hin : i = n
    · subst hin
      have hnil : (List.range i).filter p = [] := by
        rw [List.filter_eq_nil_iff]
        intro j hj hpj
        have := hu j (by simp at hj; omega) hpj
        simp at hj; omega
      simp [hnil, hp]
    · have hpn : p n = false := by
        cases hpn : p n with
        | false => rfl
        | true => exact absurd (hu n (by omega) hpn).symm hin
      rw [ih (by omega) (fun j hj hpj => hu j (by omega) hpj)]
      simp [hpn]

theorem mapM_range_some {β} (f : Nat → Option β) (g : Nat → β) (l : List Nat)
    (h : ∀ i ∈ l, f i = some (g i)) : l.mapM f = some (l.map g) := by
  induction l with
  | nil => rfl
  | cons x r ih =>
    rw [List.mapM_cons, h x (List.mem_cons_self ..), ih (fun i hi => h i (List.mem_cons_of_mem _ hi))]
    rfl

/-! ### the `Extent` of a piece, entry by entry -/

theorem pieceExtent_eq (d3 : List (List Nat)) (origin : List Int) (loc3 : List Nat) :
    pieceExtent d3 origin loc3 =
      [axisBegin (origin.getD 0 0) (d3.getD 0 []) (loc3.getD 0 0), axisEnd (origin.getD 0 0) (d3.getD 0 []) (loc3.getD 0 0),
       axisBegin (origin.getD 1 0) (d3.getD 1 []) (loc3.getD 1 0), axisEnd (origin.getD 1 0) (d3.getD 1 []) (loc3.getD 1 0),
       axisBegin (origin.getD 2 0) (d3.getD 2 []) (loc3.getD 2 0), axisEnd (origin.getD 2 0) (d3.getD 2 []) (loc3.getD 2 0)] := by
  simp [pieceExtent, range3, axisBegin, axisEnd]

theorem pieceExtent_begin (d3 : List (List Nat)) (origin : List Int) (loc3 : List Nat) (dir : Nat) (h : dir < 3) :
    (pieceExtent d3 origin loc3).getD (2 * dir) 0 =
      axisBegin (origin.getD dir 0) (d3.getD dir []) (loc3.getD dir 0) := by
  rw [pieceExtent_eq]
  rcases lt3_cases h with rfl | rfl | rfl <;> rfl

theorem pieceExtent_end (d3 : List (List Nat)) (origin : List Int) (loc3 : List Nat) (dir : Nat) (h : dir < 3) :
    (pieceExtent d3 origin loc3).getD (2 * dir + 1) 0 =
      axisEnd (origin.getD dir 0) (d3.getD dir []) (loc3.getD dir 0) := by
  rw [pieceExtent_eq]
  rcases lt3_cases h with rfl | rfl | rfl <;> rfl

/-! ### `_get_structured_decomposition`, direction by direction -/

def sdUb (extents : List (List Int)) (dir : Nat) : List Int :=
  uniqueSorted (extents.map fun e => e.getD (2 * dir) 0)
def sdUe (extents : List (List Int)) (dir : Nat) : List Int :=
  uniqueSorted (extents.map fun e => e.getD (2 * dir + 1) 0)
def sdSizes (extents : List (List Int)) (dir : Nat) : List Int :=
  List.zipWith (fun e b => e - b) (sdUe extents dir) (sdUb extents dir)
def sdHas (extents : List (List Int)) (dir : Nat) : Bool := headPositive (sdSizes extents dir)

theorem structuredDecomposition_eq (extents : List (List Int)) :
    structuredDecomposition extents =
      ⟨(List.range 3).map (sdSizes extents),
       extents.map fun e => ((List.range 3).filter (sdHas extents)).map fun dir =>
         (sdUb extents dir).idxOf (e.getD (2 * dir) 0)⟩ := by
  unfold structuredDecomposition
  simp only [StructuredDecomposition.mk.injEq]
  have hub : ∀ dir, dir < 3 →
      ((List.range 3).map fun dir => uniqueSorted (extents.map fun e => e.getD (2 * dir) 0)).getD dir [] =
        sdUb extents dir := by
    intro dir h
    rcases lt3_cases h with rfl | rfl | rfl <;> rfl
  have hue : ∀ dir, dir < 3 →
      ((List.range 3).map fun dir => uniqueSorted (extents.map fun e => e.getD (2 * dir + 1) 0)).getD dir [] =
        sdUe extents dir := by
    intro dir h
    rcases lt3_cases h with rfl | rfl | rfl <;> rfl
  have hsz : (List.range 3).map (fun dir => List.zipWith (fun e b => e - b)
        (((List.range 3).map fun dir => uniqueSorted (extents.map fun e => e.getD (2 * dir + 1) 0)).getD dir [])
        (((List.range 3).map fun dir => uniqueSorted (extents.map fun e => e.getD (2 * dir) 0)).getD dir [])) =
      (List.range 3).map (sdSizes extents) := by
    apply List.map_congr_left
    intro dir hdir
    rw [hub dir (by simpa using hdir), hue dir (by simpa using hdir)]
    rfl
  refine ⟨hsz, ?_⟩
  rw [hsz]
  have hhas : ∀ dir, dir < 3 → ((List.range 3).map (sdSizes extents)).getD dir [] = sdSizes extents dir := by
    intro dir h
    rcases lt3_cases h with rfl | rfl | rfl <;> rfl
  apply List.map_congr_left
  intro e _
  have hf : (List.range 3).filter (fun dir =>
        headPositive (((List.range 3).map (sdSizes extents)).getD dir [])) = (List.range 3).filter (sdHas extents) := by
    apply List.filter_congr
    intro dir hdir
    rw [hhas dir (by simpa using hdir)]
    rfl
  rw [hf]
  apply List.map_congr_left
  intro dir hdir
  rw [hub dir (by simpa using (List.mem_filter.mp hdir).1)]

/-! ### axis-aligned decompositions of the three directions -/

theorem axisOk_cases (ns : List Nat) (h : axisOk ns = true) : ns = [0] ∨ (ns ≠ [] ∧ ∀ n ∈ ns, 0 < n) := by
  simp only [axisOk, Bool.or_eq_true, beq_iff_eq, Bool.and_eq_true, Bool.not_eq_true', List.all_eq_true,
    decide_eq_true_eq] at h
  rcases h with h | ⟨h1, h2⟩
  · exact Or.inl h
  · refine Or.inr ⟨?_, h2⟩
    intro e; subst e; simp at h1

theorem axisOk_ne_nil (ns : List Nat) (h : axisOk ns = true) : ns ≠ [] := by
  rcases axisOk_cases ns h with h | h
  · subst h; simp
  · exact h.1

theorem axisOk_length_pos (ns : List Nat) (h : axisOk ns = true) : 0 < ns.length :=
  List.length_pos_iff.mpr (axisOk_ne_nil ns h)

theorem axisOk_strict (ns : List Nat) (h : axisOk ns = true) : ns.length ≤ 1 ∨ ∀ n ∈ ns, 0 < n := by
  rcases axisOk_cases ns h with h | h
  · subst h; simp
  · exact Or.inr h.2

theorem axisMeshed_false (ns : List Nat) (h : axisOk ns = true) (hm : axisMeshed ns = false) : ns = [0] := by
  rcases axisOk_cases ns h with h | ⟨h1, h2⟩
  · exact h
  · cases ns with
    | nil => exact absurd rfl h1
    | cons n r =>
      have := h2 n (List.mem_cons_self ..)
      simp [axisMeshed, this] at hm

theorem axisMeshed_true (ns : List Nat) (h : axisOk ns = true) (hm : axisMeshed ns = true) :
    ∀ n ∈ ns, 0 < n := by
  rcases axisOk_cases ns h with h | ⟨_, h2⟩
  · subst h; simp [axisMeshed] at hm
  · exact h2

theorem headPositive_ofNat (ns : List Nat) : headPositive (ns.map Int.ofNat) = axisMeshed ns := by
  cases ns with
  | nil => rfl
  | cons n r => simp [headPositive, axisMeshed]

theorem decompOk_length (d3 : List (List Nat)) (h : decompOk d3 = true) : d3.length = 3 := by
  simp only [decompOk, Bool.and_eq_true, beq_iff_eq] at h
  exact h.1

theorem decompOk_axis (d3 : List (List Nat)) (h : decompOk d3 = true) (dir : Nat) (hd : dir < 3) :
    axisOk (d3.getD dir []) = true := by
  have h3 := decompOk_length d3 h
  simp only [decompOk, Bool.and_eq_true, List.all_eq_true] at h
  apply h.2
  rw [List.getD_eq_getElem?_getD, List.getElem?_eq_getElem (by omega)]
  exact List.getElem_mem _

theorem range3_map_getD {α β} (d3 : List α) (dflt : α) (h3 : d3.length = 3) (f : α → β) :
    (List.range 3).map (fun dir => f (d3.getD dir dflt)) = d3.map f := by
  match d3, h3 with
  | [n0, n1, n2], _ => simp [range3]

theorem mem_meshedDirs (d3 : List (List Nat)) (dir : Nat) :
    dir ∈ meshedDirs d3 ↔ dir < 3 ∧ axisMeshed (d3.getD dir []) = true := by
  simp [meshedDirs, List.mem_filter]

theorem meshedDirs_nodup (d3 : List (List Nat)) : (meshedDirs d3).Nodup :=
  List.Nodup.sublist List.filter_sublist List.nodup_range

/-- the pieces of a listing: every location below the pieces-per-direction, each exactly once -/
theorem mem_listing (d3 : List (List Nat)) (h3 : d3.length = 3) (L : List (List Nat))
    (hL : L.Perm (locationsIn (piecesShape d3))) (loc : List Nat) :
    loc ∈ L ↔ loc.length = 3 ∧ ∀ dir, dir < 3 → loc.getD dir 0 < (d3.getD dir []).length := by
  rw [hL.mem_iff, mem_locationsIn, allLt_iff]
  simp only [piecesShape, List.length_map, h3, getD_map_length]

theorem listing_nodup (d3 : List (List Nat)) (L : List (List Nat))
    (hL : L.Perm (locationsIn (piecesShape d3))) : L.Nodup :=
  hL.nodup_iff.mpr (locationsIn_nodup _)

/-- the location with `b` along `dir` and 0 elsewhere -/
def unit3 (dir b : Nat) : List Nat := (List.range 3).map fun k => if k = dir then b else 0

theorem unit3_getD (dir b k : Nat) (hk : k < 3) : (unit3 dir b).getD k 0 = if k = dir then b else 0 := by
  rcases lt3_cases hk with rfl | rfl | rfl <;> rfl

theorem unit3_mem (d3 : List (List Nat)) (hd : decompOk d3 = true) (L : List (List Nat))
    (hL : L.Perm (locationsIn (piecesShape d3))) (dir b : Nat) (hb : b < (d3.getD dir []).length) :
    unit3 dir b ∈ L := by
  rw [mem_listing d3 (decompOk_length d3 hd) L hL]
  refine ⟨by simp [unit3], ?_⟩
  intro k hk
  rw [unit3_getD dir b k hk]
  split
  · rename_i h; subst h; exact hb
  · exact axisOk_length_pos _ (decompOk_axis d3 hd k hk)

theorem listing_proj (d3 : List (List Nat)) (hd : decompOk d3 = true) (L : List (List Nat))
    (hL : L.Perm (locationsIn (piecesShape d3))) (dir : Nat) (hdir : dir < 3) (b : Nat) :
    b ∈ L.map (·.getD dir 0) ↔ b < (d3.getD dir []).length := by
  simp only [List.mem_map]
  constructor
  · rintro ⟨loc, hloc, rfl⟩
    exact ((mem_listing d3 (decompOk_length d3 hd) L hL loc).mp hloc).2 dir hdir
  · intro hb
    exact ⟨unit3 dir b, unit3_mem d3 hd L hL dir b hb, by rw [unit3_getD dir b dir hdir]; simp⟩

/-- per direction: what `np.unique` finds in the begins / ends of the listed pieces -/
theorem sd_axis (d3 : List (List Nat)) (origin : List Int) (hd : decompOk d3 = true) (L : List (List Nat))
    (hL : L.Perm (locationsIn (piecesShape d3))) (dir : Nat) (hdir : dir < 3) :
    sdUb (L.map (pieceExtent d3 origin)) dir =
      (List.range (d3.getD dir []).length).map (axisBegin (origin.getD dir 0) (d3.getD dir [])) ∧
    sdUe (L.map (pieceExtent d3 origin)) dir =
      (List.range (d3.getD dir []).length).map (axisEnd (origin.getD dir 0) (d3.getD dir [])) := by
  have hb : (L.map (pieceExtent d3 origin)).map (fun e => e.getD (2 * dir) 0) =
      (L.map (·.getD dir 0)).map (axisBegin (origin.getD dir 0) (d3.getD dir [])) := by
    rw [List.map_map, List.map_map]
    apply List.map_congr_left
    intro loc _
    exact pieceExtent_begin d3 origin loc dir hdir
  have he : (L.map (pieceExtent d3 origin)).map (fun e => e.getD (2 * dir + 1) 0) =
      (L.map (·.getD dir 0)).map (axisEnd (origin.getD dir 0) (d3.getD dir [])) := by
    rw [List.map_map, List.map_map]
    apply List.map_congr_left
    intro loc _
    exact pieceExtent_end d3 origin loc dir hdir
  unfold sdUb sdUe
  rw [hb, he]
  exact axis_recovery _ _ (axisOk_strict _ (decompOk_axis d3 hd dir hdir)) _
    (listing_proj d3 hd L hL dir hdir)

theorem sd_sizes (d3 : List (List Nat)) (origin : List Int) (hd : decompOk d3 = true) (L : List (List Nat))
    (hL : L.Perm (locationsIn (piecesShape d3))) (dir : Nat) (hdir : dir < 3) :
    sdSizes (L.map (pieceExtent d3 origin)) dir = (d3.getD dir []).map Int.ofNat := by
  unfold sdSizes
  rw [(sd_axis d3 origin hd L hL dir hdir).1, (sd_axis d3 origin hd L hL dir hdir).2]
  exact (axis_sizes_idx _ _ (axisOk_strict _ (decompOk_axis d3 hd dir hdir))).1

/-- the decomposition `_get_structured_decomposition` builds from the `Extent`s of the listed pieces
    of an axis-aligned decomposition: the true cells per axis, and for every listed piece its true
    location among the meshed directions -/
def sdOf (d3 : List (List Nat)) (L : List (List Nat)) : StructuredDecomposition :=
  ⟨d3.map (·.map Int.ofNat), L.map (restrictLoc (meshedDirs d3))⟩

theorem structuredDecomposition_listing (d3 : List (List Nat)) (origin : List Int) (hd : decompOk d3 = true)
    (L : List (List Nat)) (hL : L.Perm (locationsIn (piecesShape d3))) :
    structuredDecomposition (L.map (pieceExtent d3 origin)) = sdOf d3 L := by
  have h3 := decompOk_length d3 hd
  rw [structuredDecomposition_eq]
  unfold sdOf
  simp only [StructuredDecomposition.mk.injEq]
  have hfilt : (List.range 3).filter (sdHas (L.map (pieceExtent d3 origin))) = meshedDirs d3 := by
    unfold meshedDirs
    apply List.filter_congr
    intro dir hdir
    unfold sdHas
    rw [sd_sizes d3 origin hd L hL dir (by simpa using hdir), headPositive_ofNat]
  constructor
  · rw [← range3_map_getD d3 [] h3 (·.map Int.ofNat)]
    apply List.map_congr_left
    intro dir hdir
    exact sd_sizes d3 origin hd L hL dir (by simpa using hdir)
  · rw [hfilt, List.map_map]
    apply List.map_congr_left
    intro loc hloc
    simp only [Function.comp, restrictLoc]
    apply List.map_congr_left
    intro dir hdir
    have hdir3 := ((mem_meshedDirs d3 dir).mp hdir).1
    rw [(sd_axis d3 origin hd L hL dir hdir3).1, pieceExtent_begin d3 origin loc dir hdir3]
    exact (axis_sizes_idx _ _ (axisOk_strict _ (decompOk_axis d3 hd dir hdir3))).2 _
      (((mem_listing d3 h3 L hL loc).mp hloc).2 dir hdir3)

/-! ### what the recovered decomposition answers -/

theorem sdOf_cells_getD (d3 L : List (List Nat)) (dir : Nat) :
    (sdOf d3 L).cellsPerAxis.getD dir [] = (d3.getD dir []).map Int.ofNat :=
  getD_map_nil (·.map Int.ofNat) rfl d3 dir

theorem sdOf_isMeshed (d3 L : List (List Nat)) (dir : Nat) :
    (sdOf d3 L).isMeshed dir = axisMeshed (d3.getD dir []) := by
  unfold StructuredDecomposition.isMeshed
  rw [sdOf_cells_getD, headPositive_ofNat]

theorem sdOf_meshedDimensions (d3 L : List (List Nat)) : (sdOf d3 L).meshedDimensions = meshedDirs d3 := by
  unfold StructuredDecomposition.meshedDimensions meshedDirs
  apply List.filter_congr
  intro dir _
  exact sdOf_isMeshed d3 L dir

theorem sdOf_mergerDecomposition (d3 L : List (List Nat)) : (sdOf d3 L).mergerDecomposition = mergerOf d3 := by
  unfold StructuredDecomposition.mergerDecomposition mergerOf
  rw [sdOf_meshedDimensions]
  apply List.map_congr_left
  intro dir _
  rw [sdOf_cells_getD, List.map_map]
  have : (Int.toNat ∘ Int.ofNat) = id := by funext n; simp
  rw [this, List.map_id]

theorem piecesShape_mergerOf (d3 : List (List Nat)) :
    piecesShape (mergerOf d3) = (meshedDirs d3).map fun dir => (d3.getD dir []).length := by
  simp [piecesShape, mergerOf, List.map_map, Function.comp]

theorem sdOf_orderShape (d3 L : List (List Nat)) : (sdOf d3 L).orderShape = piecesShape (mergerOf d3) := by
  unfold StructuredDecomposition.orderShape
  rw [sdOf_meshedDimensions, piecesShape_mergerOf]
  apply List.map_congr_left
  intro dir _
  rw [sdOf_cells_getD, List.length_map]

theorem foldr_add_ofNat (ns : List Nat) : (ns.map Int.ofNat).foldr (· + ·) 0 = ((sumList ns : Nat) : Int) := by
  induction ns with
  | nil => rfl
  | cons n r ih =>
    simp only [List.map_cons, List.foldr_cons, ih, sumList_cons]
    simp

theorem sdOf_mergedExtents (d3 L : List (List Nat)) :
    (sdOf d3 L).mergedExtents = d3.map fun ns => ((sumList ns : Nat) : Int) := by
  simp only [StructuredDecomposition.mergedExtents, sdOf, List.map_map]
  apply List.map_congr_left
  intro ns _
  exact foldr_add_ofNat ns

theorem sdOf_mergedExtents_getD (d3 L : List (List Nat)) (dir : Nat) (hdir : dir < d3.length) :
    (sdOf d3 L).mergedExtents.getD dir 0 = ((sumList (d3.getD dir []) : Nat) : Int) := by
  rw [sdOf_mergedExtents]
  simp only [List.getD_eq_getElem?_getD, List.getElem?_map, List.getElem?_eq_getElem hdir]
  simp

/-! ### piece locations among the meshed directions -/

theorem allLt_map (dirs : List Nat) (g f : Nat → Nat) (h : ∀ dir ∈ dirs, g dir < f dir) :
    AllLt (dirs.map g) (dirs.map f) := by
  induction dirs with
  | nil => trivial
  | cons x r ih =>
    exact ⟨h x (List.mem_cons_self ..), ih fun dir hd => h dir (List.mem_cons_of_mem _ hd)⟩

/-- being one of the pieces of `d3` (cf. `mem_listing`) -/
def IsLoc3 (d3 : List (List Nat)) (loc : List Nat) : Prop :=
  loc.length = 3 ∧ ∀ dir, dir < 3 → loc.getD dir 0 < (d3.getD dir []).length

theorem restrict_allLt (d3 : List (List Nat)) (loc : List Nat) (h : IsLoc3 d3 loc) :
    AllLt (restrictLoc (meshedDirs d3) loc) (piecesShape (mergerOf d3)) := by
  rw [piecesShape_mergerOf]
  exact allLt_map _ _ _ fun dir hdir => h.2 dir ((mem_meshedDirs d3 dir).mp hdir).1

theorem restrict_inj (d3 : List (List Nat)) (hd : decompOk d3 = true) (loc loc' : List Nat)
    (h : IsLoc3 d3 loc) (h' : IsLoc3 d3 loc')
    (e : restrictLoc (meshedDirs d3) loc = restrictLoc (meshedDirs d3) loc') : loc = loc' := by
  apply list3_ext loc loc' h.1 h'.1
  intro dir hdir
  cases hm : axisMeshed (d3.getD dir []) with
  | true =>
    exact List.map_inj_left.mp e dir ((mem_meshedDirs d3 dir).mpr ⟨hdir, hm⟩)
  | false =>
    have hns := axisMeshed_false _ (decompOk_axis d3 hd dir hdir) hm
    have h1 := h.2 dir hdir
    have h2 := h'.2 dir hdir
    rw [hns] at h1 h2
    simp only [List.length_cons, List.length_nil] at h1 h2
    omega

theorem restrict_surj (d3 : List (List Nat)) (hd : decompOk d3 = true) (loc : List Nat)
    (h : AllLt loc (piecesShape (mergerOf d3))) :
    ∃ loc3, IsLoc3 d3 loc3 ∧ restrictLoc (meshedDirs d3) loc3 = loc := by
  rw [piecesShape_mergerOf, allLt_iff] at h
  simp only [List.length_map] at h
  obtain ⟨hlen, hlt⟩ := h
  have hnd := meshedDirs_nodup d3
  refine ⟨(List.range 3).map fun dir =>
    if dir ∈ meshedDirs d3 then loc.getD ((meshedDirs d3).idxOf dir) 0 else 0, ⟨by simp, ?_⟩, ?_⟩
  · intro dir hdir
    have hg : ((List.range 3).map fun dir =>
        if dir ∈ meshedDirs d3 then loc.getD ((meshedDirs d3).idxOf dir) 0 else 0).getD dir 0 =
        if dir ∈ meshedDirs d3 then loc.getD ((meshedDirs d3).idxOf dir) 0 else 0 := by
      rcases lt3_cases hdir with rfl | rfl | rfl <;> rfl
    rw [hg]
    split
    · rename_i hmem
      have hk := List.idxOf_lt_length_of_mem hmem
      have := hlt _ hk
      rw [List.getD_eq_getElem?_getD (l := List.map _ _), List.getElem?_map,
        List.getElem?_eq_getElem hk] at this
      simp only [Option.map_some, Option.getD_some, List.getElem_idxOf hk] at this
      exact this
    · exact axisOk_length_pos _ (decompOk_axis d3 hd dir hdir)
  · unfold restrictLoc
    apply List.ext_getElem
    · simp [hlen]
    · intro j h1 h2
      simp only [List.length_map] at h1
      simp only [List.getElem_map]
      have hdir3 := ((mem_meshedDirs d3 _).mp (List.getElem_mem h1)).1
      have hg : ((List.range 3).map fun dir =>
          if dir ∈ meshedDirs d3 then loc.getD ((meshedDirs d3).idxOf dir) 0 else 0).getD (meshedDirs d3)[j] 0 =
          if (meshedDirs d3)[j] ∈ meshedDirs d3 then loc.getD ((meshedDirs d3).idxOf (meshedDirs d3)[j]) 0 else 0 := by
        rcases lt3_cases hdir3 with e | e | e <;> rw [e] <;> rfl
      rw [hg, if_pos (List.getElem_mem h1), idxOf_getElem_of_nodup _ hnd j h1,
        List.getD_eq_getElem?_getD, List.getElem?_eq_getElem h2]
      rfl

theorem allLt_check (loc shape : List Nat) (h : AllLt loc shape) :
    loc.length = shape.length ∧ (List.zipWith (fun i n => decide (i < n)) loc shape).all id = true := by
  induction loc generalizing shape with
  | nil =>
    cases shape with
    | nil => simp
    | cons n s => exact absurd h (by simp [AllLt])
  | cons i t ih =>
    cases shape with
    | nil => exact absurd h (by simp [AllLt])
    | cons n s =>
      obtain ⟨h0, hr⟩ := h
      obtain ⟨h1, h2⟩ := ih s hr
      exact ⟨by simp [h1], by simp [h0, h2]⟩

/-- **the `order` array is the inverse of the listing**: the piece listed at position `i` sits at its
    true location, and nobody else does -/
theorem sdOf_domainId (d3 : List (List Nat)) (hd : decompOk d3 = true) (L : List (List Nat))
    (hL : L.Perm (locationsIn (piecesShape d3))) (i : Nat) (hi : i < L.length) :
    (sdOf d3 L).domainIdChecked (restrictLoc (meshedDirs d3) (L.getD i [])) = some i := by
  have h3 := decompOk_length d3 hd
  have hmemi : L.getD i [] ∈ L := by
    rw [List.getD_eq_getElem?_getD, List.getElem?_eq_getElem hi]; exact List.getElem_mem hi
  have hloci : IsLoc3 d3 (L.getD i []) := (mem_listing d3 h3 L hL _).mp hmemi
  have hget : ∀ j, j < L.length →
      (L.map (restrictLoc (meshedDirs d3))).getD j [] = restrictLoc (meshedDirs d3) (L.getD j []) := by
    intro j hj
    simp [List.getD_eq_getElem?_getD, List.getElem?_eq_getElem hj]
  have hid : (sdOf d3 L).domainId (restrictLoc (meshedDirs d3) (L.getD i [])) = i := by
    unfold StructuredDecomposition.domainId
    have hlen : (sdOf d3 L).pieceLocations.length = L.length := by simp [sdOf]
    rw [hlen, filter_range_single _ L.length i hi]
    · rfl
    · simp only [sdOf, hget i hi, beq_self_eq_true]
    · intro j hj hp
      simp only [sdOf, hget j hj, beq_iff_eq] at hp
      have hmemj : L.getD j [] ∈ L := by
        rw [List.getD_eq_getElem?_getD, List.getElem?_eq_getElem hj]; exact List.getElem_mem hj
      have := restrict_inj d3 hd _ _ ((mem_listing d3 h3 L hL _).mp hmemj) hloci hp
      exact nodup_getD_inj L (listing_nodup d3 L hL) j i hj hi this
  unfold StructuredDecomposition.domainIdChecked
  rw [sdOf_orderShape, hid]
  have := allLt_check _ _ (restrict_allLt d3 _ hloci)
  rw [if_pos this]

/-- every location of the merger is the location of exactly one listed piece -/
theorem listing_at (d3 : List (List Nat)) (hd : decompOk d3 = true) (L : List (List Nat))
    (hL : L.Perm (locationsIn (piecesShape d3))) (loc : List Nat)
    (h : loc ∈ locationsIn (piecesShape (mergerOf d3))) :
    ∃ i, i < L.length ∧ restrictLoc (meshedDirs d3) (L.getD i []) = loc := by
  obtain ⟨loc3, h3, hr⟩ := restrict_surj d3 hd loc ((mem_locationsIn _ _).mp h)
  obtain ⟨i, hi, hli⟩ := List.getElem_of_mem ((mem_listing d3 (decompOk_length d3 hd) L hL loc3).mpr h3)
  refine ⟨i, hi, ?_⟩
  rw [List.getD_eq_getElem?_getD, List.getElem?_eq_getElem hi]
  simpa [hli] using hr

/-! ### `PVTRReader._make_structured_mesh` on a listing -/

theorem axisPieces_eq (W : List Int) (ns : List Nat) (off : Nat) :
    axisPieces W off ns =
      (List.range ns.length).map fun b => (W.drop (off + sumList (ns.take b))).take (ns.getD b 0 + 1) := by
  induction ns generalizing off with
  | nil => rfl
  | cons n r ih =>
    rw [axisPieces, ih, List.length_cons, List.range_succ_eq_map, List.map_cons, List.map_map]
    congr 1
    apply List.map_congr_left
    intro b _
    simp only [Function.comp, List.take_succ_cons, sumList_cons, List.getD_cons_succ, Nat.add_assoc]

theorem axisPieces_zero (W : List Int) (ns : List Nat) :
    axisPieces W 0 ns = (List.range ns.length).map (pieceOrdinates W ns) := by
  rw [axisPieces_eq]
  apply List.map_congr_left
  intro b _
  simp [pieceOrdinates]

/-- `(0,…,i,…,0)` with `i` at the position of `dir` among the meshed directions = the location of
    the piece `unit3 dir i` -/
theorem domainLocation_eq (dirs : List Nat) (hnd : dirs.Nodup) (h3 : ∀ d ∈ dirs, d < 3) (dir i : Nat)
    (hmem : dir ∈ dirs) :
    ((List.range dirs.length).map fun k => if k = dirs.idxOf dir then i else 0) =
      restrictLoc dirs (unit3 dir i) := by
  unfold restrictLoc
  apply List.ext_getElem
  · simp
  · intro j h1 h2
    simp only [List.length_map, List.length_range] at h1
    simp only [List.getElem_map, List.getElem_range]
    rw [unit3_getD dir i _ (h3 _ (List.getElem_mem h1))]
    by_cases hj : dirs[j] = dir
    · rw [if_pos hj, ← hj, idxOf_getElem_of_nodup dirs hnd j h1, if_pos rfl]
    · rw [if_neg hj, if_neg]
      intro e
      apply hj
      subst e
      exact List.getElem_idxOf (List.idxOf_lt_length_of_mem hmem)

/-- the pieces consulted for the ordinates of a meshed direction are that axis's pieces, in order -/
theorem consulted_listing (d3 : List (List Nat)) (hd : decompOk d3 = true) (L : List (List Nat))
    (hL : L.Perm (locationsIn (piecesShape d3))) (W : List Int) (dir : Nat) (hdir : dir < 3)
    (hm : axisMeshed (d3.getD dir []) = true) (pieceOrds : List (List (List Int)))
    (hpo : ∀ i, i < L.length → (pieceOrds.getD i []).getD dir [] =
      pieceOrdinates W (d3.getD dir []) ((L.getD i []).getD dir 0)) :
    ((List.range ((sdOf d3 L).cellsPerAxis.getD dir []).length).mapM fun i => do
        let id ← (sdOf d3 L).domainIdChecked
          (pvtrDomainLocation (sdOf d3 L) ((sdOf d3 L).meshedDimensions.idxOf dir) i)
        pure ((pieceOrds.getD id []).getD dir [])) = some (axisPieces W 0 (d3.getD dir [])) := by
  rw [sdOf_cells_getD, List.length_map, axisPieces_zero]
  apply mapM_range_some
  intro i hi
  simp only [List.mem_range] at hi
  have hmem : dir ∈ meshedDirs d3 := (mem_meshedDirs d3 dir).mpr ⟨hdir, hm⟩
  have hloc : pvtrDomainLocation (sdOf d3 L) ((sdOf d3 L).meshedDimensions.idxOf dir) i =
      restrictLoc (meshedDirs d3) (unit3 dir i) := by
    unfold pvtrDomainLocation
    rw [sdOf_meshedDimensions]
    exact domainLocation_eq _ (meshedDirs_nodup d3) (fun d hd' => ((mem_meshedDirs d3 d).mp hd').1) dir i hmem
  obtain ⟨j, hj, hlj⟩ := List.getElem_of_mem (unit3_mem d3 hd L hL dir i hi)
  have hgj : L.getD j [] = unit3 dir i := by
    rw [List.getD_eq_getElem?_getD, List.getElem?_eq_getElem hj]; simpa using hlj
  rw [hloc, ← hgj, sdOf_domainId d3 hd L hL j hj]
  simp only [bind, Option.bind, pure]
  rw [hpo j hj, hgj, unit3_getD dir i dir hdir, if_pos rfl]

/-! ### `PVTIReader._make_structured_mesh` on a listing -/

theorem foldl_min_spec (r : List Int) (x : Int) :
    r.foldl min x ∈ x :: r ∧ ∀ y ∈ x :: r, r.foldl min x ≤ y := by
  induction r generalizing x with
  | nil => simp
  | cons z r ih =>
    simp only [List.foldl_cons]
    obtain ⟨h1, h2⟩ := ih (min x z)
    constructor
    · rcases List.mem_cons.mp h1 with h | h
      · rw [h]
        by_cases hxz : x ≤ z
        · rw [Int.min_eq_left hxz]; simp
        · rw [Int.min_eq_right (by omega)]; simp
      · exact List.mem_cons_of_mem _ (List.mem_cons_of_mem _ h)
    · intro y hy
      have hm := h2 (min x z) (List.mem_cons_self ..)
      rcases List.mem_cons.mp hy with rfl | hy
      · have : min y z ≤ y := Int.min_le_left _ _
        omega
      · rcases List.mem_cons.mp hy with rfl | hy
        · have : min x y ≤ y := Int.min_le_right _ _
          omega
        · exact h2 y (List.mem_cons_of_mem _ hy)

theorem min_of_list (l : List Int) (o : Int) (ho : o ∈ l) (hle : ∀ y ∈ l, o ≤ y) :
    listMin l = some o := by
  cases l with
  | nil => simp at ho
  | cons x r =>
    obtain ⟨h1, h2⟩ := foldl_min_spec r x
    have := h2 o ho
    have := hle _ h1
    simp only [listMin, Option.some.injEq]
    omega

theorem begins_listing (d3 : List (List Nat)) (origin : List Int) (L : List (List Nat)) (dir : Nat)
    (hdir : dir < 3) :
    (L.map (pieceExtent d3 origin)).map (fun e => e.getD (2 * dir) 0) =
      (L.map (·.getD dir 0)).map (axisBegin (origin.getD dir 0) (d3.getD dir [])) := by
  rw [List.map_map, List.map_map]
  apply List.map_congr_left
  intro loc _
  exact pieceExtent_begin d3 origin loc dir hdir

/-- the lowest structured index of all pieces along a direction is the lower end of the whole grid -/
theorem minLower_listing (d3 : List (List Nat)) (origin : List Int) (hd : decompOk d3 = true)
    (L : List (List Nat)) (hL : L.Perm (locationsIn (piecesShape d3))) (dir : Nat) (hdir : dir < 3) :
    minLower (L.map (pieceExtent d3 origin)) dir = some (origin.getD dir 0) := by
  unfold minLower
  rw [begins_listing d3 origin L dir hdir]
  apply min_of_list
  · have h0 : 0 ∈ L.map (·.getD dir 0) :=
      (listing_proj d3 hd L hL dir hdir 0).mpr (axisOk_length_pos _ (decompOk_axis d3 hd dir hdir))
    have := List.mem_map_of_mem (f := axisBegin (origin.getD dir 0) (d3.getD dir [])) h0
    simpa [axisBegin, sumList] using this
  · intro y hy
    obtain ⟨b, _, rfl⟩ := List.mem_map.mp hy
    simp only [axisBegin]
    omega

theorem wholeExtent_eq (d3 : List (List Nat)) (origin : List Int) :
    wholeExtent d3 origin =
      [origin.getD 0 0, origin.getD 0 0 + (sumList (d3.getD 0 []) : Nat),
       origin.getD 1 0, origin.getD 1 0 + (sumList (d3.getD 1 []) : Nat),
       origin.getD 2 0, origin.getD 2 0 + (sumList (d3.getD 2 []) : Nat)] := by
  simp [wholeExtent, range3]

theorem cellsOfExtent_whole (d3 : List (List Nat)) (origin : List Int) (h3 : d3.length = 3) :
    cellsOfExtent (wholeExtent d3 origin) = d3.map fun ns => ((sumList ns : Nat) : Int) := by
  unfold cellsOfExtent
  rw [← range3_map_getD d3 [] h3 (fun ns => ((sumList ns : Nat) : Int))]
  apply List.map_congr_left
  intro dir hdir
  rw [wholeExtent_eq]
  rcases lt3_cases (List.mem_range.mp hdir) with rfl | rfl | rfl <;> (simp; omega)

theorem pvtiMesh_listing (U : Nat) (d3 : List (List Nat)) (origin : List Int) (hd : decompOk d3 = true)
    (L : List (List Nat)) (hL : L.Perm (locationsIn (piecesShape d3))) (O S : List Int) (B : List (List Int)) :
    pvtiMesh U (sdOf d3 L) (L.map (pieceExtent d3 origin)) O S B =
      some (vtiMesh U (wholeExtent d3 origin) O S B) := by
  have h3 := decompOk_length d3 hd
  unfold pvtiMesh
  rw [mapM_range_some (minLower (L.map (pieceExtent d3 origin))) (fun dir => origin.getD dir 0) (List.range 3)
    (fun dir hdir => minLower_listing d3 origin hd L hL dir (by simpa using hdir))]
  simp only [bind, Option.bind, pure, vtiMesh, Option.some.injEq, ImageGrid.mk.injEq, and_true]
  constructor
  · rw [sdOf_mergedExtents, ← range3_map_getD d3 [] h3 (fun ns => ((sumList ns : Nat) : Int))]
    apply List.map_congr_left
    intro dir hdir
    rw [wholeExtent_eq]
    rcases lt3_cases (List.mem_range.mp hdir) with rfl | rfl | rfl <;> (simp; omega)
  · have hl : (List.range 3).map (fun dir => origin.getD dir 0) =
        (List.range 3).map (fun i => (wholeExtent d3 origin).getD (2 * i) 0) := by
      apply List.map_congr_left
      intro dir hdir
      rw [wholeExtent_eq]
      rcases lt3_cases (List.mem_range.mp hdir) with rfl | rfl | rfl <;> rfl
    rw [hl]

end Fc.C06
