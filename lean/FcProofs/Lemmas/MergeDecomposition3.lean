/-
  Helper lemmas for property C06: recovery of a three-axis decomposition by
  `_get_structured_decomposition` — the three axes together, the `has_dimension` filter, the piece
  locations among the meshed directions and the `order` / `domain_id` map.
-/
import FcProofs.Lemmas.MergeDecomposition
namespace Fc.C06
open Fc.C06.Spec

/-! ### generic list facts -/

theorem range3 : List.range 3 = [0, 1, 2] := by decide

theorem lt3_cases {dir : Nat} (h : dir < 3) : dir = 0 ∨ dir = 1 ∨ dir = 2 := by omega

theorem getD_map_nil {α β} (f : List α → List β) (hf : f [] = []) (l : List (List α)) (i : Nat) :
    (l.map f).getD i [] = f (l.getD i []) := by
  simp only [List.getD_eq_getElem?_getD, List.getElem?_map]
  cases l[i]? <;> simp [hf]

theorem getD_map_length {α} (l : List (List α)) (i : Nat) :
    (l.map List.length).getD i 0 = (l.getD i []).length := by
  simp only [List.getD_eq_getElem?_getD, List.getElem?_map]
  cases l[i]? <;> simp

theorem allLt_iff (loc shape : List Nat) :
    AllLt loc shape ↔ loc.length = shape.length ∧ ∀ k, k < shape.length → loc.getD k 0 < shape.getD k 0 := by
  induction loc generalizing shape with
  | nil =>
    cases shape with
    | nil => simp [AllLt]
    | cons n s => simp [AllLt]
  | cons i t ih =>
    cases shape with
    | nil => simp [AllLt]
    | cons n s =>
      simp only [AllLt, ih s, List.length_cons, Nat.add_right_cancel_iff]
      constructor
      · rintro ⟨h0, hl, hr⟩
        refine ⟨hl, ?_⟩
        intro k hk
        cases k with
        | zero => simpa using h0
        | succ k => simpa using hr k (by omega)
      · rintro ⟨hl, hr⟩
        refine ⟨by simpa using hr 0 (by omega), hl, ?_⟩
        intro k hk
        simpa using hr (k + 1) (by omega)

theorem list3_ext (a b : List Nat) (ha : a.length = 3) (hb : b.length = 3)
    (h : ∀ k, k < 3 → a.getD k 0 = b.getD k 0) : a = b := by
  match a, b, ha, hb with
  | [a0, a1, a2], [b0, b1, b2], _, _ =>
    have h0 := h 0 (by omega)
    have h1 := h 1 (by omega)
    have h2 := h 2 (by omega)
    simp at h0 h1 h2
    simp [h0, h1, h2]

theorem idxOf_getElem_of_nodup (l : List Nat) (h : l.Nodup) (j : Nat) (hj : j < l.length) :
    l.idxOf l[j] = j := by
  induction l generalizing j with
  | nil => simp at hj
  | cons x r ih =>
    rw [List.nodup_cons] at h
    cases j with
    | zero => simp
    | succ j =>
      have hj' : j < r.length := by simpa using hj
      have hne : (x == r[j]) = false := by
        simp only [beq_eq_false_iff_ne, ne_eq]
        intro e
        exact h.1 (e ▸ List.getElem_mem hj')
      simp only [List.getElem_cons_succ, List.idxOf_cons, hne, cond_false]
      rw [ih h.2 j hj']

theorem getD_idxOf_of_mem (l : List Nat) (x : Nat) (h : x ∈ l) : l.getD (l.idxOf x) 0 = x := by
  have hlt := List.idxOf_lt_length_of_mem h
  rw [List.getD_eq_getElem?_getD, List.getElem?_eq_getElem hlt]
  simp [List.getElem_idxOf hlt]

theorem nodup_getD_inj (l : List (List Nat)) (h : l.Nodup) (i j : Nat) (hi : i < l.length)
    (hj : j < l.length) (e : l.getD i [] = l.getD j []) : i = j := by
  rw [List.getD_eq_getElem?_getD, List.getD_eq_getElem?_getD, List.getElem?_eq_getElem hi,
    List.getElem?_eq_getElem hj] at e
  simp only [Option.getD_some] at e
  have hp := List.pairwise_iff_getElem.mp (List.nodup_iff_pairwise_ne.mp h)
  rcases Nat.lt_trichotomy i j with hlt | heq | hgt
  · exact absurd e (hp i j hi hj hlt)
  · exact heq
  · exact absurd e.symm (hp j i hj hi hgt)

theorem filter_range_single (p : Nat → Bool) (n i : Nat) (hi : i < n) (hp : p i = true)
    (hu : ∀ j, j < n → p j = true → j = i) : (List.range n).filter p = [i] := by
  induction n with
  | zero => omega
  | succ n ih =>
    rw [List.range_succ, List.filter_append]
    by_cases hin : i = n
    · subst hin
      have hnil : (List.range i).filter p = [] := by
        rw [List.filter_eq_nil_iff]
        intro j hj hpj
        have := hu j (by simp at hj; omega) hpj
        simp at hj; omega
      simp [hnil, hp]
    · have hpn : p n = false := by
        cases hpn : p n with
        | false => rfl
        | true => exact absurd (hu n (by omega) hpn).symm hin
      rw [ih (by omega) (fun j hj hpj => hu j (by omega) hpj)]
      simp [hpn]

theorem mapM_range_some {β} (f : Nat → Option β) (g : Nat → β) (l : List Nat)
    (h : ∀ i ∈ l, f i = some (g i)) : l.mapM f = some (l.map g) := by
  induction l with
  | nil => rfl
  | cons x r ih =>
    rw [List.mapM_cons, h x (List.mem_cons_self ..), ih (fun i hi => h i (List.mem_cons_of_mem _ hi))]
    rfl

/-! ### the `Extent` of a piece, entry by entry -/

theorem pieceExtent_eq (d3 : List (List Nat)) (origin : List Int) (loc3 : List Nat) :
    pieceExtent d3 origin loc3 =
      [axisBegin (origin.getD 0 0) (d3.getD 0 []) (loc3.getD 0 0), axisEnd (origin.getD 0 0) (d3.getD 0 []) (loc3.getD 0 0),
       axisBegin (origin.getD 1 0) (d3.getD 1 []) (loc3.getD 1 0), axisEnd (origin.getD 1 0) (d3.getD 1 []) (loc3.getD 1 0),
       axisBegin (origin.getD 2 0) (d3.getD 2 []) (loc3.getD 2 0), axisEnd (origin.getD 2 0) (d3.getD 2 []) (loc3.getD 2 0)] := by
  simp [pieceExtent, range3, axisBegin, axisEnd]

theorem pieceExtent_begin (d3 : List (List Nat)) (origin : List Int) (loc3 : List Nat) (dir : Nat) (h : dir < 3) :
    (pieceExtent d3 origin loc3).getD (2 * dir) 0 =
      axisBegin (origin.getD dir 0) (d3.getD dir []) (loc3.getD dir 0) := by
  rw [pieceExtent_eq]
  rcases lt3_cases h with rfl | rfl | rfl <;> rfl

theorem pieceExtent_end (d3 : List (List Nat)) (origin : List Int) (loc3 : List Nat) (dir : Nat) (h : dir < 3) :
    (pieceExtent d3 origin loc3).getD (2 * dir + 1) 0 =
      axisEnd (origin.getD dir 0) (d3.getD dir []) (loc3.getD dir 0) := by
  rw [pieceExtent_eq]
  rcases lt3_cases h with rfl | rfl | rfl <;> rfl

/-! ### `_get_structured_decomposition`, direction by direction -/

def sdUb (extents : List (List Int)) (dir : Nat) : List Int :=
  uniqueSorted (extents.map fun e => e.getD (2 * dir) 0)
def sdUe (extents : List (List Int)) (dir : Nat) : List Int :=
  uniqueSorted (extents.map fun e => e.getD (2 * dir + 1) 0)
def sdSizes (extents : List (List Int)) (dir : Nat) : List Int :=
  List.zipWith (fun e b => e - b) (sdUe extents dir) (sdUb extents dir)
def sdHas (extents : List (List Int)) (dir : Nat) : Bool := headPositive (sdSizes extents dir)

theorem structuredDecomposition_eq (extents : List (List Int)) :
    structuredDecomposition extents =
      ⟨(List.range 3).map (sdSizes extents),
       extents.map fun e => ((List.range 3).filter (sdHas extents)).map fun dir =>
         (sdUb extents dir).idxOf (e.getD (2 * dir) 0)⟩ := by
  unfold structuredDecomposition
  simp only [StructuredDecomposition.mk.injEq]
  have hub : ∀ dir, dir < 3 →
      ((List.range 3).map fun dir => uniqueSorted (extents.map fun e => e.getD (2 * dir) 0)).getD dir [] =
        sdUb extents dir := by
    intro dir h
    rcases lt3_cases h with rfl | rfl | rfl <;> rfl
  have hue : ∀ dir, dir < 3 →
      ((List.range 3).map fun dir => uniqueSorted (extents.map fun e => e.getD (2 * dir + 1) 0)).getD dir [] =
        sdUe extents dir := by
    intro dir h
    rcases lt3_cases h with rfl | rfl | rfl <;> rfl
  have hsz : (List.range 3).map (fun dir => List.zipWith (fun e b => e - b)
        (((List.range 3).map fun dir => uniqueSorted (extents.map fun e => e.getD (2 * dir + 1) 0)).getD dir [])
        (((List.range 3).map fun dir => uniqueSorted (extents.map fun e => e.getD (2 * dir) 0)).getD dir [])) =
      (List.range 3).map (sdSizes extents) := by
    apply List.map_congr_left
    intro dir hdir
    rw [hub dir (by simpa using hdir), hue dir (by simpa using hdir)]
    rfl
  refine ⟨hsz, ?_⟩
  rw [hsz]
  have hhas : ∀ dir, dir < 3 → ((List.range 3).map (sdSizes extents)).getD dir [] = sdSizes extents dir := by
    intro dir h
    rcases lt3_cases h with rfl | rfl | rfl <;> rfl
  apply List.map_congr_left
  intro e _
  have hf : (List.range 3).filter (fun dir =>
        headPositive (((List.range 3).map (sdSizes extents)).getD dir [])) = (List.range 3).filter (sdHas extents) := by
    apply List.filter_congr
    intro dir hdir
    rw [hhas dir (by simpa using hdir)]
    rfl
  rw [hf]
  apply List.map_congr_left
  intro dir hdir
  rw [hub dir (by simpa using (List.mem_filter.mp hdir).1)]

end Fc.C06
