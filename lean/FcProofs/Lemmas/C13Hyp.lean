/-
  Lemmas.C13Hyp — the decidable hypothesis `Spec.hyp` / `Spec.sizeOk` as propositions (`Facts`, `Sizes`), the
  cell-type tables as a bijection between the names and the ids that occur (`ixOf`).
-/
import FcProofs.Lemmas.C13Blocks
import FcProofs.Lemmas.FileW
namespace Fc.W
open Fc.W.Spec

/-- the VTK type id of a cell-type name (0 for an unknown name; `hyp` excludes unknown names) -/
def ixOf (n : String) : Nat := (cellTypeIndex n).getD 0

theorem celltypes_preserved :
    ∀ p ∈ Fc.Gen.wCellTypeIndexToStr, cellTypeIndex p.2 = some p.1 ∧ cellTypeName p.1 = some p.2 := by
  decide

theorem celltype_ids_small : ∀ p ∈ Fc.Gen.wCellTypeIndexToStr, p.1 < 256 := by decide

theorem cellTypeIndex_mem (n : String) (i : Nat) (h : cellTypeIndex n = some i) :
    (i, n) ∈ Fc.Gen.wCellTypeIndexToStr := by
  unfold cellTypeIndex at h
  obtain ⟨p, hp, e⟩ := Option.map_eq_some_iff.mp h
  have h1 := List.find?_some hp
  have h2 := List.mem_reverse.mp (List.mem_of_find?_eq_some hp)
  simp only [beq_iff_eq] at h1
  have : p = (i, n) := by cases p; simp only at e h1; subst e; subst h1; rfl
  rw [← this]; exact h2

theorem cellTypeName_ixOf (n : String) (h : (cellTypeIndex n).isSome = true) : cellTypeName (ixOf n) = some n := by
  obtain ⟨i, hi⟩ := Option.isSome_iff_exists.mp h
  unfold ixOf
  rw [hi]
  exact (celltypes_preserved (i, n) (cellTypeIndex_mem n i hi)).2

theorem cellTypeIndex_ixOf (n : String) (h : (cellTypeIndex n).isSome = true) : cellTypeIndex n = some (ixOf n) := by
  obtain ⟨i, hi⟩ := Option.isSome_iff_exists.mp h
  unfold ixOf
  rw [hi]; rfl

theorem ixOf_small (n : String) (h : (cellTypeIndex n).isSome = true) : ixOf n < 256 := by
  obtain ⟨i, hi⟩ := Option.isSome_iff_exists.mp h
  unfold ixOf
  rw [hi]
  exact celltype_ids_small (i, n) (cellTypeIndex_mem n i hi)

theorem ixOf_inj (a b : String) (ha : (cellTypeIndex a).isSome = true) (hb : (cellTypeIndex b).isSome = true)
    (e : ixOf a = ixOf b) : a = b := by
  have h1 := cellTypeName_ixOf a ha
  have h2 := cellTypeName_ixOf b hb
  rw [e, h2] at h1
  exact (Option.some.inj h1).symm

theorem allDistinct_pairwise : ∀ (l : List String), allDistinct l = true → l.Pairwise (· ≠ ·)
  | [], _ => List.Pairwise.nil
  | x :: r, h => by
    unfold allDistinct at h
    simp only [Bool.and_eq_true, Bool.not_eq_true', List.contains_eq_mem, decide_eq_false_iff_not] at h
    rw [List.pairwise_cons]
    exact ⟨fun y hy e => h.1 (e ▸ hy), allDistinct_pairwise r h.2⟩

/-- `Spec.hyp` as propositions -/
structure Facts (F : WFields) : Prop where
  dimle : F.dim ≤ 3
  ptsne : F.points ≠ []
  ptlen : ∀ p ∈ F.points, p.length = F.dim
  pt8 : ∀ p ∈ F.points, ∀ c ∈ p, c < 256 ^ 8
  ptype : F.ptype = "float64" ∨ (F.dim = 3 ∧ F.ptype = "float32")
  ptsz : ∀ p ∈ F.points, ∀ c ∈ p, c < 256 ^ dtypeSize F.ptype
  cnames : (F.cells.map (·.1)).Pairwise (· ≠ ·)
  cidx : ∀ b ∈ F.cells, (cellTypeIndex b.1).isSome = true
  cunif : ∀ b ∈ F.cells, ∃ k, ∀ r ∈ b.2, r.length = k
  connsz : dtypeSize F.conntype ≠ 0
  connlt : ∀ b ∈ F.cells, ∀ r ∈ b.2, ∀ c ∈ r, c < 256 ^ dtypeSize F.conntype / 2
  pfok : ∀ f ∈ F.pf, f.2.wf = true ∧ f.2.rows = F.points.length ∧ 1 ≤ prod f.2.tail
  cfok : ∀ f ∈ F.cf, f.2.2.wf = true ∧ 1 ≤ prod f.2.2.tail ∧
          ∃ b ∈ F.cells, b.1 = f.2.1 ∧ b.2.length = f.2.2.rows
  cfnames : ∀ n ∈ dedup (F.cf.map (·.1)),
      (∀ b ∈ F.cells, (F.cf.filter fun f => f.1 == n && f.2.1 == b.1).length = 1) ∧
      ∃ f0, F.cf.find? (·.1 == n) = some f0 ∧
        ∀ f ∈ F.cf, f.1 = n → f.2.2.dt = f0.2.2.dt ∧ f.2.2.tail = f0.2.2.tail
  cfcells : F.cf = [] ∨ ∃ b ∈ F.cells, b.2 ≠ []

theorem facts_of_hyp (F : WFields) (h : Spec.hyp F = true) : Facts F := by
  unfold Spec.hyp at h
  simp only [Bool.and_eq_true, Bool.or_eq_true, List.all_eq_true, List.any_eq_true, beq_iff_eq, decide_eq_true_eq,
    Bool.not_eq_true', ne_eq] at h
  obtain ⟨⟨⟨⟨⟨⟨⟨⟨⟨⟨⟨⟨⟨⟨_, h1⟩, h2⟩, h3⟩, h4⟩, h5⟩, h6⟩, h7⟩, h8⟩, h9⟩, _⟩, h11⟩, h12⟩, h13⟩, h14⟩ := h
  refine ⟨h1, ?_, fun p hp => (h3 p hp).1, fun p hp => (h3 p hp).2, h4, h5, allDistinct_pairwise _ h6,
    fun b hb => (h7 b hb).1, ?_, h8, h9, fun f hf => ⟨(h11 f hf).1.1, (h11 f hf).1.2, (h11 f hf).2⟩,
    fun f hf => ⟨(h12 f hf).1.1, (h12 f hf).1.2, (h12 f hf).2⟩, ?_, ?_⟩
  · intro e; rw [e] at h2; simp at h2
  · intro b hb
    have := (h7 b hb).2
    cases hb2 : b.2 with
    | nil => exact ⟨0, by simp⟩
    | cons r0 rs =>
      rw [hb2] at this
      simp only [Bool.and_eq_true, List.all_eq_true, beq_iff_eq, decide_eq_true_eq] at this
      refine ⟨r0.length, ?_⟩
      intro r hr
      rcases List.mem_cons.mp hr with e | h'
      · rw [e]
      · exact this.2 r h'
  · intro n hn
    obtain ⟨ha, hb⟩ := h13 n hn
    refine ⟨ha, ?_⟩
    cases hf : F.cf.find? (fun x => x.1 == n) with
    | none => rw [hf] at hb; simp at hb
    | some f0 =>
      rw [hf] at hb
      simp only [List.all_eq_true, Bool.or_eq_true, Bool.and_eq_true, beq_iff_eq, bne_iff_ne, ne_eq] at hb
      refine ⟨f0, rfl, ?_⟩
      intro f hf' hfn
      rcases hb f hf' with h' | h'
      · exact absurd hfn h'
      · exact h'
  · rcases h14 with h' | ⟨b, hb, hne⟩
    · left; exact List.isEmpty_iff.mp h'
    · right; refine ⟨b, hb, ?_⟩
      intro e; rw [e] at hne; simp at hne

/-- `Spec.sizeOk` as propositions -/
structure Sizes (F : WFields) : Prop where
  pts : F.points.length * 24 < 256 ^ 8
  ncells : (allCells F.cells).length * 8 < 256 ^ 8
  ncorners : ((allCells F.cells).flatMap (·.2)).length * 8 < 256 ^ 8
  pf : ∀ f ∈ F.pf, f.2.items.length * 8 < 256 ^ 8
  cf : ∀ n ∈ dedup (F.cf.map (·.1)), ∀ v, cellFieldValues F n = some v → v.items.length * 8 < 256 ^ 8

theorem sizes_of_sizeOk (F : WFields) (h : Spec.sizeOk F = true) : Sizes F := by
  unfold Spec.sizeOk at h
  simp only [Bool.and_eq_true, List.all_eq_true, decide_eq_true_eq] at h
  obtain ⟨⟨⟨⟨h1, h2⟩, h3⟩, h4⟩, h5⟩ := h
  refine ⟨h1, h2, h3, h4, ?_⟩
  intro n hn v hv
  have := h5 n hn
  rw [hv] at this
  simpa using this

end Fc.W
