/-
  FcProofs.Lemmas.Resid2Views — the noisy relabelling at the level of complete data sets.

  A noisy copy of `f` is `withPoints f P'` (same connectivity and field arrays, every coordinate within `δ`
  of `f`'s); a noisy relabelled copy is `relabelF ρ κ (withPoints f P')`.  Under `NoisyHyp`

    * the stripped base meshes of `f` and `withPoints f P'` are a `NoisyRelabeled` pair with the identity
      relabelling (`noisy_base`), so the stable point sort returns the SAME index map for both
      (`sortIdx_noisy`, from `sortPoints_canonical_noisy`);
    * hence `_permute` of `relabelF ρ₁ κ₁ (withPoints f P')` and of `relabelF ρ₂ κ₂ f` are the same view up to
      the cell order and the coordinates (`withPoints_pointSorted`), identical connectivity and field arrays;
    * `mesh_equal` splits into the point check and the cell check (`meshEqual_split`); the cell check does not
      see the coordinates, the point check passes for entry-wise near arrays (`pointsArr_close`);
    * so rungs 2/3 of the ladder pass (`reorder_noisy`).
-/
import FcModel.Spec.Resid2
import FcProofs.Lemmas.Resid2Noise
namespace Fc.Resid2
open Fc Fc.C02 Fc.C02.Spec Fc.Resid

/-! ### `withPoints` commutes with the index-map layers -/

theorem applyPointMap_withPoints (f : MeshFields) (P : List (List Int)) (τ : List Nat) :
    applyPointMap (withPoints f P) τ = withPoints (applyPointMap f τ) (τ.map fun i => P.getD i []) := rfl

theorem applyCellMaps_withPoints (s : MeshFields) (P : List (List Int)) (κ : String → List Nat) :
    applyCellMaps (withPoints s P) κ = withPoints (applyCellMaps s κ) P := rfl

theorem sortCells_withPoints (as : List Int → List Nat) (h : List Nat → Int) (s : MeshFields) (P : List (List Int)) :
    C02.sortCells as h (withPoints s P) = withPoints (C02.sortCells as h s) P := rfl

theorem relabelF_withPoints (ρ : List Nat) (κ : String → List Nat) (f : MeshFields) (P : List (List Int)) :
    relabelF ρ κ (withPoints f P) = withPoints (relabelF ρ κ f) (ρ.map fun i => P.getD i []) := rfl

theorem withPoints_self (f : MeshFields) : withPoints f f.mesh.points = f := rfl

theorem withPoints_withPoints (f : MeshFields) (P Q : List (List Int)) :
    withPoints (withPoints f P) Q = withPoints f Q := rfl

theorem namedFields_withPoints (f : MeshFields) (P : List (List Int)) :
    namedFields (withPoints f P) = namedFields f := rfl

theorem specStripMap_withPoints {f : MeshFields} {P : List (List Int)} (hl : P.length = f.mesh.points.length) :
    specStripMap (withPoints f P).mesh = specStripMap f.mesh := by
  show (List.range P.length).filter _ = (List.range f.mesh.points.length).filter _
  rw [hl]
  rfl

theorem pointSorted_withPoints {f : MeshFields} {P : List (List Int)} (hl : P.length = f.mesh.points.length)
    (I0 : List Nat) :
    pointSorted (withPoints f P) I0 =
      withPoints (pointSorted f I0) ((I0.map ((specStripMap f.mesh).getD · 0)).map fun i => P.getD i []) := by
  show applyPointMap (withPoints f P) (I0.map ((specStripMap (withPoints f P).mesh).getD · 0)) = _
  rw [specStripMap_withPoints hl]
  rfl

/-! ### `mesh_equal` = point check ∧ cell check -/

/-- the part of `mesh_equal` that looks at the connectivity only -/
def cellsOk (s r : Mesh) : Bool :=
  !typeSetsDiffer s.cellTypes r.cellTypes &&
  s.cells.all fun b =>
    let tct := if r.cellTypes.contains b.1 then some b.1
               else r.cellTypes.find? fun d => compatibleTypes d b.1
    match tct with
    | none => false
    | some ct =>
      let rows := r.cellsOf ct
      b.2.length == rows.length && b.2.map sortNat == rows.map sortNat

theorem meshEqual_split (t : MeshTol) (s r : Mesh) :
    meshEqual t s r =
      ((fuzzyCheck (.num t.rtol) (.num t.atol) (pointsArr s) (pointsArr r) == .ok true) && cellsOk s r) := by
  unfold meshEqual cellsOk
  rw [Bool.and_assoc]
  rfl

theorem cellsOk_self (m : Mesh) (hnd : (m.cells.map (·.1)).Nodup) : cellsOk m m = true := by
  have := meshEqual_self ⟨0, 0⟩ m hnd
  rw [meshEqual_split, Bool.and_eq_true] at this
  exact this.2

/-- the point check of two arrays of the same shape whose entries are pairwise `fuzzy_equal` -/
theorem fuzzyCheck_points_of {r a n d : Nat} {D1 D2 : List Int}
    (h : ∀ i, i < D1.length → fuzzyEq1 f64 (D1.getD i 0) (D2.getD i 0) r true a true = true) :
    fuzzyCheck (.num r) (.num a) ⟨.flt f64, [n, d], D1⟩ ⟨.flt f64, [n, d], D2⟩ = .ok true := by
  unfold fuzzyCheck
  simp only [reshapePair]
  simp [resolveTol, findFuzzy, tolShapeOk, allFuzzy, RTol.at, RTol.isWeak]
  exact h

theorem pointsArr_close {t : MeshTol} {d : Nat} {P Q : List (List Int)} (hd : 1 ≤ d) (hl : Q.length = P.length)
    (hP : ∀ r ∈ P, r.length = d) (hQ : ∀ r ∈ Q, r.length = d)
    (hc : ∀ k, k < P.length → ∀ j, j < d →
      t.closeFz ((Q.getD k []).getD j 0) ((P.getD k []).getD j 0) = true) :
    fuzzyCheck (.num t.rtol) (.num t.atol) ⟨.flt f64, [Q.length, d], Q.flatten⟩
      ⟨.flt f64, [P.length, d], P.flatten⟩ = .ok true := by
  rw [hl]
  apply fuzzyCheck_points_of
  intro i hi
  rw [length_flatten_uniform Q hQ, hl] at hi
  have hk : i / d < P.length := (Nat.div_lt_iff_lt_mul (by omega)).mpr hi
  have hj : i % d < d := Nat.mod_lt _ (by omega)
  have hi' : i / d * d + i % d = i := Nat.div_add_mod' i d
  obtain ⟨e1, _⟩ := flatten_getD Q hQ (hl ▸ hk) hj
  obtain ⟨e2, _⟩ := flatten_getD P hP hk hj
  rw [hi'] at e1 e2
  rw [e1, e2]
  exact hc (i / d) hk (i % d) hj

/-- the converse: an accepted point check gives entry-wise `fuzzy_equal` -/
theorem pointsArr_close_inv {t : MeshTol} {d : Nat} {P Q : List (List Int)} (hl : Q.length = P.length)
    (hP : ∀ r ∈ P, r.length = d) (hQ : ∀ r ∈ Q, r.length = d)
    (h : fuzzyCheck (.num t.rtol) (.num t.atol) ⟨.flt f64, [Q.length, d], Q.flatten⟩
      ⟨.flt f64, [P.length, d], P.flatten⟩ = .ok true) {k j : Nat} (hk : k < P.length) (hj : j < d) :
    t.closeFz ((Q.getD k []).getD j 0) ((P.getD k []).getD j 0) = true := by
  rw [hl] at h
  obtain ⟨e1, l1⟩ := flatten_getD Q hQ (hl ▸ hk) hj
  obtain ⟨e2, _⟩ := flatten_getD P hP hk hj
  have := fuzzyCheck_points h (k * d + j) l1
  rw [e1, e2] at this
  exact this

/-! ### two cell orders of one view, with different coordinates on the two sides -/

/-- two views of `s` that differ in the cell order AND in the coordinates: if the domain check passes, the cell
    orders agree and every field passes (the field arrays never see the coordinates) -/
theorem runComparison_noisy_views {s : MeshFields} (htypes : s.mesh.cellTypes.Nodup)
    (hvs : ∀ b ∈ s.mesh.cells, (b.2.map sortNat).Nodup) {κ1 κ2 : String → List Nat}
    (hκ1 : ∀ ct, (κ1 ct).Perm (List.range (s.mesh.cellsOf ct).length))
    (hκ2 : ∀ ct, (κ2 ct).Perm (List.range (s.mesh.cellsOf ct).length)) (Q1 Q2 : List (List Int))
    (t1 t2 : MeshTol) (p1 p2 : Bool)
    (hd : (C02.runComparison ⟨withPoints (applyCellMaps s κ1) Q1, t1, p1⟩
      ⟨withPoints (applyCellMaps s κ2) Q2, t2, p2⟩).domainEq = true) :
    allPassed (C02.runComparison ⟨withPoints (applyCellMaps s κ1) Q1, t1, p1⟩
      ⟨withPoints (applyCellMaps s κ2) Q2, t2, p2⟩) = true := by
  have heq0 := (domainEq_iff _ _).mp hd
  have heq := heq0
  rw [meshEqual_split, Bool.and_eq_true] at heq
  have hcells : cellsOk (applyCellMaps s κ1).mesh (applyCellMaps s κ2).mesh = true := heq.2
  have hme : meshEqual ⟨0, 0⟩ (applyCellMaps s κ1).mesh (applyCellMaps s κ2).mesh = true := by
    rw [meshEqual_split, Bool.and_eq_true]
    refine ⟨?_, hcells⟩
    have : pointsArr (applyCellMaps s κ1).mesh = pointsArr (applyCellMaps s κ2).mesh := rfl
    rw [this, fuzzyCheck_num_self f64 _ _ _ rfl]
    rfl
  have e := view_eq_of_meshEqual htypes hvs hκ1 hκ2 _ hme
  simp only at heq0
  rw [e] at heq0 ⊢
  unfold C02.runComparison
  simp only [heq0, if_true, allPassed, Bool.true_and, namedFields_withPoints]
  exact compareNamed_self _

/-- the same sorted view with two coordinate arrays whose point check passes: equal domains, all fields pass -/
theorem runComparison_noisy_same (S : MeshFields) (hnd : (S.mesh.cells.map (·.1)).Nodup) (Q1 Q2 : List (List Int))
    (t1 t2 : MeshTol) (p1 p2 : Bool)
    (hpts : fuzzyCheck (.num (if p1 then t1 else ⟨min t1.atol t2.atol, min t1.rtol t2.rtol⟩).rtol)
        (.num (if p1 then t1 else ⟨min t1.atol t2.atol, min t1.rtol t2.rtol⟩).atol)
        (pointsArr (withPoints S Q1).mesh) (pointsArr (withPoints S Q2).mesh) = .ok true) :
    allPassed (C02.runComparison ⟨withPoints S Q1, t1, p1⟩ ⟨withPoints S Q2, t2, p2⟩) = true := by
  have hme : meshEqual (if p1 then t1 else ⟨min t1.atol t2.atol, min t1.rtol t2.rtol⟩)
      (withPoints S Q1).mesh (withPoints S Q2).mesh = true := by
    rw [meshEqual_split, Bool.and_eq_true]
    refine ⟨by rw [hpts]; rfl, ?_⟩
    exact cellsOk_self S.mesh hnd
  unfold C02.runComparison
  simp only [hme, if_true, allPassed, Bool.true_and, namedFields_withPoints]
  exact compareNamed_self _

/-! ### hypotheses -/

/-- `P'` has the shape of `P` and every coordinate within `δ` -/
structure NearPts (d : Nat) (P P' : List (List Int)) (δ : Nat) : Prop where
  len : P'.length = P.length
  near : ∀ i, i < P.length → ∀ j, j < d → ((P'.getD i []).getD j 0 - (P.getD i []).getD j 0).natAbs ≤ δ

/-- hypotheses of the noisy no-false-FAIL theorem, Prop level.  `f` the clean data set, `P'` the noisy
    coordinates; `A`, `B`, `M`, `C` are JOINT margins / magnitude bound / candidate centres, the same on both
    sides:
    * `bh`, `bh'` — `BaseHyp` (well-formed, Sep ∧ Distinguishable of the stripped mesh under the OWN tolerances of
      the respective data set, hash separates the cells) for `f` and for the noisy copy;
    * `np`, `hδ` — every coordinate moved by at most `δ ≤ A`;
    * `joint` — the coordinate values of BOTH stripped meshes, column by column, satisfy the dichotomy;
    * `slack` — `δ + (2k+4)·M·2^-53 + 1 unit ≤ B` for every cell size `k`. -/
structure NoisyHyp (h : List Nat → Int) (f : MeshFields) (P' : List (List Int)) (δ A B M : Nat)
    (C : List (List Int)) : Prop where
  bh : BaseHyp h f A B M C
  bh' : BaseHyp h (withPoints f P') A B M C
  np : NearPts f.mesh.dim f.mesh.points P' δ
  hδ : δ ≤ A
  joint : ∀ j, j < f.mesh.dim → sepCol A B (jointCol (baseOf f).mesh (baseOf (withPoints f P')).mesh j) = true
  slack : ∀ r ∈ allRows f.mesh, CentreSlack δ B M r.length

section base
variable {h : List Nat → Int} {f : MeshFields} {P' : List (List Int)} {δ A B M : Nat} {C : List (List Int)}

theorem baseOf_points_length (f : MeshFields) : (baseOf f).mesh.points.length = (specStripMap f.mesh).length := by
  show ((specStripMap f.mesh).map _).length = _
  rw [List.length_map]

theorem baseOf_getD (f : MeshFields) {i : Nat} (hi : i < (specStripMap f.mesh).length) :
    (baseOf f).mesh.points.getD i [] = f.mesh.points.getD ((specStripMap f.mesh).getD i 0) [] := by
  show ((specStripMap f.mesh).map fun i => f.mesh.points.getD i []).getD i [] = _
  rw [Fc.getD_of_lt _ _ (by rw [List.length_map]; exact hi), List.getElem_map, Fc.getD_of_lt _ 0 hi]

theorem baseOf_rows_lt {f : MeshFields} (hwf : WFP f) :
    ∀ row ∈ allRows (baseOf f).mesh, ∀ p ∈ row, p < (baseOf f).mesh.points.length := by
  intro row hrow p hp
  rw [baseOf_points_length]
  have c0 := (specStripMap_spec f).covers hwf
  unfold allRows at hrow
  obtain ⟨b', hb', hr⟩ := List.mem_flatMap.mp hrow
  obtain ⟨b, hb, rfl⟩ := List.mem_map.mp hb'
  obtain ⟨row0, hrow0, rfl⟩ := List.mem_map.mp hr
  obtain ⟨q, hq, rfl⟩ := List.mem_map.mp hp
  exact List.idxOf_lt_length_iff.mpr (c0.corners b hb row0 hrow0 q hq)

theorem baseOf_rows_len {f : MeshFields} {row : List Nat} (hrow : row ∈ allRows (baseOf f).mesh) :
    ∃ row0 ∈ allRows f.mesh, row.length = row0.length := by
  unfold allRows at hrow
  obtain ⟨b', hb', hr⟩ := List.mem_flatMap.mp hrow
  obtain ⟨b, hb, rfl⟩ := List.mem_map.mp hb'
  obtain ⟨row0, hrow0, rfl⟩ := List.mem_map.mp hr
  exact ⟨row0, List.mem_flatMap.mpr ⟨b, hb, hrow0⟩, by rw [List.length_map]⟩

/-- **the stripped base meshes of a data set and of its noisy copy are a noisy pair with the identity
    relabelling** -/
theorem noisy_base (nh : NoisyHyp h f P' δ A B M C) :
    NoisyRelabeled (baseOf f).mesh (baseOf (withPoints f P')).mesh
      (List.range (specStripMap f.mesh).length) δ where
  dim := rfl
  perm := by rw [baseOf_points_length]
  len := by
    rw [baseOf_points_length, baseOf_points_length]
    show (specStripMap (withPoints f P').mesh).length = _
    rw [specStripMap_withPoints nh.np.len]
  rowLen1 := nh.bh.hy0.rowLen
  rowLen2 := nh.bh'.hy0.rowLen
  near := by
    intro i hi j hj
    rw [baseOf_points_length] at hi
    have hi' : i < (specStripMap (withPoints f P').mesh).length := by
      rw [specStripMap_withPoints nh.np.len]; exact hi
    have hr : (List.range (specStripMap f.mesh).length).getD i 0 = i := by
      rw [Fc.getD_of_lt _ 0 (by rw [List.length_range]; exact hi), List.getElem_range]
    rw [hr, baseOf_getD f hi, baseOf_getD (withPoints f P') hi', specStripMap_withPoints nh.np.len]
    have hlt : (specStripMap f.mesh).getD i 0 < f.mesh.points.length :=
      (((specStripMap_spec f).mem_iff _).mp (getD_mem hi 0)).1
    exact nh.np.near _ hlt j hj
  wf := baseOf_rows_lt nh.bh.wf
  rows := by
    have e : allRows (baseOf (withPoints f P')).mesh = allRows (baseOf f).mesh := by
      show allRows (applyPointMap (withPoints f P') (specStripMap (withPoints f P').mesh)).mesh = _
      rw [specStripMap_withPoints nh.np.len]
      rfl
    rw [e]
    have hid : ((allRows (baseOf f).mesh).map fun row => row.map fun p =>
        (List.range (specStripMap f.mesh).length).idxOf p) = allRows (baseOf f).mesh := by
      conv_rhs => rw [← List.map_id (allRows (baseOf f).mesh)]
      apply List.map_congr_left
      intro row hrow
      conv_rhs => rw [id, ← List.map_id row]
      apply List.map_congr_left
      intro p hp
      have := baseOf_rows_lt nh.bh.wf row hrow p hp
      rw [baseOf_points_length] at this
      exact idxOf_range' this
    rw [hid]

/-- **the stable point sort returns the same index map for a data set and for its noisy copy** -/
theorem sortIdx_noisy (nh : NoisyHyp h f P' δ A B M C) :
    ∃ I0, sortPointsIdx argsortStable (meshTolOf f.mesh) (baseOf f).mesh = some I0 ∧
      sortPointsIdx argsortStable (meshTolOf (withPoints f P').mesh) (baseOf (withPoints f P')).mesh = some I0 := by
  have nz := noisy_base nh
  have hn1 : (baseOf f).mesh.points ≠ [] := by
    intro e
    have : ((specStripMap f.mesh).map fun i => f.mesh.points.getD i []) = [] := e
    exact nh.bh.conn (List.map_eq_nil_iff.mp this)
  have hslack : ∀ r ∈ allRows (baseOf f).mesh, CentreSlack δ B M r.length := by
    intro r hr
    obtain ⟨r0, hr0, e⟩ := baseOf_rows_len hr
    rw [e]
    exact nh.slack r0 hr0
  obtain ⟨L1, L2, e1, e2, p1, hmap⟩ := sortPoints_canonical_noisy isArgsort_stable isArgsort_stable
    nh.bh.hy0 nh.bh'.hy0 nz nh.hδ nh.joint hslack hn1 nh.bh.hdist0
  refine ⟨L1.map (·.1), ?_, ?_⟩
  · unfold sortPointsIdx; rw [e1]; rfl
  · unfold sortPointsIdx
    rw [e2, Option.map_some, ← hmap, List.map_map]
    congr 1
    apply List.map_congr_left
    intro a ha
    have hlt := pitems_fst_lt (p1.mem_iff.mp ha)
    rw [baseOf_points_length] at hlt
    exact idxOf_range' hlt

end base

/-! ### rungs 2 and 3 -/

/-- rungs 2/3 for two sides that are the SAME point-sorted view `s` up to the cell order and the coordinates:
    if the point check of the two coordinate arrays passes under the tolerances of the source, the outcome
    passes -/
theorem rungs23_noisy {asS asR : List Int → List Nat} (hS : IsArgsort asS) (hR : IsArgsort asR)
    {h : List Nat → Int} {s : MeshFields} (hs : CellHypP h s) {κ1 κ2 : String → List Nat}
    (hκ1 : ∀ ct, (κ1 ct).Perm (List.range (s.mesh.cellsOf ct).length))
    (hκ2 : ∀ ct, (κ2 ct).Perm (List.range (s.mesh.cellsOf ct).length)) (Q1 Q2 : List (List Int))
    (t1 t2 : MeshTol)
    (hpts : fuzzyCheck (.num t1.rtol) (.num t1.atol) ⟨.flt f64, [Q1.length, s.mesh.dim], Q1.flatten⟩
        ⟨.flt f64, [Q2.length, s.mesh.dim], Q2.flatten⟩ = .ok true) :
    ladderPasses
      (if (C02.runComparison ⟨withPoints (applyCellMaps s κ1) Q1, t1, true⟩
            ⟨withPoints (applyCellMaps s κ2) Q2, t2, true⟩).domainEq then
        .done 2 (C02.runComparison ⟨withPoints (applyCellMaps s κ1) Q1, t1, true⟩
            ⟨withPoints (applyCellMaps s κ2) Q2, t2, true⟩)
      else .done 3 (C02.runComparison
        ⟨C02.sortCells asS h (withPoints (applyCellMaps s κ1) Q1), t1, true⟩
        ⟨C02.sortCells asR h (withPoints (applyCellMaps s κ2) Q2), t2, true⟩)) = true := by
  split
  · rename_i hd
    simp only [ladderPasses]
    exact runComparison_noisy_views hs.types hs.vertexSets hκ1 hκ2 Q1 Q2 t1 t2 true true hd
  · simp only [ladderPasses]
    rw [sortCells_withPoints, sortCells_withPoints, sortCells_view hS isArgsort_stable h hs hκ1,
      sortCells_view hR isArgsort_stable h hs hκ2]
    apply runComparison_noisy_same
    · show (C02.sortCells argsortStable h s).mesh.cellTypes.Nodup
      unfold C02.sortCells
      rw [cellTypes_applyCellMaps]
      exact hs.types
    · exact hpts

end Fc.Resid2
