/-
  Lemmas.C13CellField — the writer's `_get_cell_field_values(name)` under `Spec.hyp`: the array written for a
  cell-field name is well-formed, has the dtype / tail of the first field of that name, one row per cell, and its
  items are the per-block values (as `normalise` states them) concatenated in mesh order.
-/
import FcProofs.Lemmas.C13Hyp
namespace Fc.W
open Fc.W.Spec

/-- the values of cell field `n` on block `b`, as `normalise` states them -/
def valsOf (F : WFields) (n : String) (b : Block) : List Nat :=
  (F.cf.filter fun f => f.1 == n && f.2.1 == b.1).flatMap (·.2.2.items)

/-- the arrays `_get_cell_field_values` concatenates -/
def cfParts (F : WFields) (n : String) : List WArr :=
  F.cells.flatMap fun b => (F.cf.filter fun f => f.2.1 == b.1 && f.1 == n).map (·.2.2)

theorem cellFieldValues_eq (F : WFields) (n : String) :
    cellFieldValues F n = match cfParts F n with
      | [] => none
      | a :: _ => some ⟨a.dt, ((cfParts F n).map (·.rows)).foldr (· + ·) 0, a.tail, (cfParts F n).flatMap (·.items)⟩ := rfl

theorem filter_swap (F : WFields) (n : String) (b : Block) :
    (F.cf.filter fun f => f.2.1 == b.1 && f.1 == n) = F.cf.filter fun f => f.1 == n && f.2.1 == b.1 := by
  apply List.filter_congr
  intro f _
  exact Bool.and_comm _ _

theorem cfParts_items (F : WFields) (n : String) : (cfParts F n).flatMap (·.items) = F.cells.flatMap (valsOf F n) := by
  unfold cfParts valsOf
  simp only [filter_swap]
  induction F.cells with
  | nil => rfl
  | cons b r ih =>
    simp only [List.flatMap_cons, List.flatMap_append, ih, List.flatMap_map]

theorem mem_cfParts (F : WFields) (n : String) (p : WArr) (h : p ∈ cfParts F n) :
    ∃ f ∈ F.cf, f.1 = n ∧ p = f.2.2 := by
  unfold cfParts at h
  obtain ⟨b, _, hp⟩ := List.mem_flatMap.mp h
  obtain ⟨f, hf, e⟩ := List.mem_map.mp hp
  have := List.mem_filter.mp hf
  simp only [Bool.and_eq_true, beq_iff_eq] at this
  exact ⟨f, this.1, this.2.2, e.symm⟩

theorem wf_iff (a : WArr) : a.wf = true ↔
    dtypeSize a.dt ≠ 0 ∧ a.items.length = a.rows * prod a.tail ∧ ∀ x ∈ a.items, x < 256 ^ dtypeSize a.dt := by
  unfold WArr.wf
  simp only [Bool.and_eq_true, beq_iff_eq, List.all_eq_true, decide_eq_true_eq, ne_eq, and_assoc]

/-- a name unique among the blocks: two blocks of the mesh with the same name are the same block -/
theorem block_unique (cells : List Block) (hd : (cells.map (·.1)).Pairwise (· ≠ ·)) (a b : Block)
    (ha : a ∈ cells) (hb : b ∈ cells) (e : a.1 = b.1) : a = b := by
  induction cells with
  | nil => cases ha
  | cons c r ih =>
    simp only [List.map_cons, List.pairwise_cons] at hd
    rcases List.mem_cons.mp ha with ea | ha'
    · rcases List.mem_cons.mp hb with eb | hb'
      · rw [ea, eb]
      · exact absurd (by rw [← e, ea]) (hd.1 b.1 (List.mem_map.mpr ⟨b, hb', rfl⟩))
    · rcases List.mem_cons.mp hb with eb | hb'
      · exact absurd (by rw [e, eb]) (hd.1 a.1 (List.mem_map.mpr ⟨a, ha', rfl⟩))
      · exact ih hd.2 ha' hb'

/-- what the writer gathers for the cell-field name `n` -/
theorem cellField_written (F : WFields) (hF : Facts F) (hS : Sizes F) (n : String)
    (hn : n ∈ dedup (F.cf.map (·.1))) :
    ∃ v f0, cellFieldValues F n = some v ∧ F.cf.find? (·.1 == n) = some f0 ∧ ArrOk v ∧ v.rows ≠ 0 ∧
      v.dt = f0.2.2.dt ∧ v.tail = f0.2.2.tail ∧ v.items = F.cells.flatMap (valsOf F n) ∧
      1 ≤ prod f0.2.2.tail ∧ ∀ b ∈ F.cells, (valsOf F n b).length = b.2.length * prod f0.2.2.tail := by
  obtain ⟨hone, f0, hf0, hsame⟩ := hF.cfnames n hn
  have hf0mem : f0 ∈ F.cf := List.mem_of_find?_eq_some hf0
  have hf0n : f0.1 = n := by have := List.find?_some hf0; simpa using this
  have hK : 1 ≤ prod f0.2.2.tail := (hF.cfok f0 hf0mem).2.1
  -- the single field on a block
  have hblock : ∀ b ∈ F.cells, ∃ f ∈ F.cf, f.1 = n ∧ f.2.1 = b.1 ∧ valsOf F n b = f.2.2.items ∧
      f.2.2 ∈ cfParts F n := by
    intro b hb
    have h1 := hone b hb
    cases hfl : (F.cf.filter fun f => f.1 == n && f.2.1 == b.1) with
    | nil => rw [hfl] at h1; cases h1
    | cons f r =>
      have hr : r = [] := by
        rw [hfl] at h1; simp only [List.length_cons] at h1
        exact List.eq_nil_of_length_eq_zero (by omega)
      have hfm : f ∈ (F.cf.filter fun f => f.1 == n && f.2.1 == b.1) := by rw [hfl]; simp
      have hf := List.mem_filter.mp hfm
      simp only [Bool.and_eq_true, beq_iff_eq] at hf
      refine ⟨f, hf.1, hf.2.1, hf.2.2, ?_, ?_⟩
      · unfold valsOf; rw [hfl, hr]; simp
      · unfold cfParts
        apply List.mem_flatMap.mpr
        refine ⟨b, hb, List.mem_map.mpr ⟨f, ?_, rfl⟩⟩
        rw [filter_swap]; exact hfm
  -- lengths of the per-block values
  have hlen : ∀ b ∈ F.cells, (valsOf F n b).length = b.2.length * prod f0.2.2.tail := by
    intro b hb
    obtain ⟨f, hf, hfn, hfb, hv, _⟩ := hblock b hb
    obtain ⟨hwf, _, b', hb', hb'n, hb'r⟩ := hF.cfok f hf
    have : b' = b := block_unique F.cells hF.cnames b' b hb' hb (by rw [hb'n, hfb])
    subst this
    rw [hv, ((wf_iff _).mp hwf).2.1, (hsame f hf hfn).2, hb'r]
  -- at least one cell
  have hcells : ∃ b0 ∈ F.cells, b0.2 ≠ [] := by
    rcases hF.cfcells with h | h
    · exfalso
      have hm : n ∈ F.cf.map (·.1) := by
        have : ∀ (l : List String) (x : String), x ∈ dedup l → x ∈ l := by
          intro l
          induction l with
          | nil => intro x hx; cases hx
          | cons y r ih =>
            intro x hx
            unfold dedup at hx
            rcases List.mem_cons.mp hx with e | h'
            · rw [e]; simp
            · exact List.mem_cons_of_mem _ (ih x (List.mem_filter.mp h').1)
        exact this _ _ hn
      rw [h] at hm; cases hm
    · exact h
  obtain ⟨b0, hb0, hb0ne⟩ := hcells
  obtain ⟨fb, _, _, _, _, hfbp⟩ := hblock b0 hb0
  cases hparts : cfParts F n with
  | nil => rw [hparts] at hfbp; cases hfbp
  | cons a ps =>
    have ha : a ∈ cfParts F n := by rw [hparts]; simp
    obtain ⟨fa, hfa, hfan, hfae⟩ := mem_cfParts F n a ha
    have hadt : a.dt = f0.2.2.dt := by rw [hfae]; exact (hsame fa hfa hfan).1
    have hatl : a.tail = f0.2.2.tail := by rw [hfae]; exact (hsame fa hfa hfan).2
    have hval : cellFieldValues F n = some ⟨a.dt, ((cfParts F n).map (·.rows)).foldr (· + ·) 0, a.tail,
        (cfParts F n).flatMap (·.items)⟩ := by
      rw [cellFieldValues_eq, hparts]
    refine ⟨_, f0, hval, hf0, ?_, ?_, hadt, hatl, cfParts_items F n, hK, hlen⟩
    · -- ArrOk
      have hitems : ((cfParts F n).flatMap (·.items)).length
          = sumL ((cfParts F n).map (·.rows)) * prod f0.2.2.tail := by
        apply flatMap_vals_length
        intro p hp
        obtain ⟨f, hf, hfn, e⟩ := mem_cfParts F n p hp
        rw [e, ((wf_iff _).mp (hF.cfok f hf).1).2.1, (hsame f hf hfn).2]
      apply ArrOk.of_wf
      · rw [wf_iff]
        refine ⟨?_, ?_, ?_⟩
        · show dtypeSize a.dt ≠ 0
          rw [hfae]; exact ((wf_iff _).mp (hF.cfok fa hfa).1).1
        · show ((cfParts F n).flatMap (·.items)).length = _ * prod a.tail
          rw [hitems, hatl]; rfl
        · intro x hx
          show x < 256 ^ dtypeSize a.dt
          obtain ⟨p, hp, hxp⟩ := List.mem_flatMap.mp hx
          obtain ⟨f, hf, hfn, e⟩ := mem_cfParts F n p hp
          rw [hadt, ← (hsame f hf hfn).1]
          rw [e] at hxp
          exact ((wf_iff _).mp (hF.cfok f hf).1).2.2 x hxp
      · exact hS.cf n hn _ hval
    · -- at least one row
      show ((cfParts F n).map (·.rows)).foldr (· + ·) 0 ≠ 0
      intro h0
      have h1 : ((cfParts F n).flatMap (·.items)).length = 0 := by
        have : ((cfParts F n).flatMap (·.items)).length
            = sumL ((cfParts F n).map (·.rows)) * prod f0.2.2.tail := by
          apply flatMap_vals_length
          intro p hp
          obtain ⟨f, hf, hfn, e⟩ := mem_cfParts F n p hp
          rw [e, ((wf_iff _).mp (hF.cfok f hf).1).2.1, (hsame f hf hfn).2]
        rw [this]; unfold sumL; rw [h0]; simp
      rw [cfParts_items, flatMap_vals_length F.cells (·.2.length) (valsOf F n) _ hlen] at h1
      have hpos : 0 < sumL (F.cells.map (·.2.length)) := by
        rw [← allCells_length]
        apply List.length_pos_of_mem (a := (b0.1, b0.2.head hb0ne))
        unfold allCells
        apply List.mem_flatMap.mpr
        exact ⟨b0, hb0, List.mem_map.mpr ⟨_, List.head_mem hb0ne, rfl⟩⟩
      have := Nat.mul_pos hpos hK
      omega

end Fc.W
