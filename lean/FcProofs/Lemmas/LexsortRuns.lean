/-
  FcProofs.Lemmas.LexsortRuns — the positional part of the fuzzy lexsort:

  * `maskOf gs`: the boolean mask that belongs to a list of non-empty groups (inside a group
    `True`, at the last element of a group `False`);
  * `walkRuns (maskOf gs)` yields exactly the groups with at least two elements as index ranges
    `[start, end)` (this is where the "+1 upper edge" of `walk_adjacent_true_index_ranges` matters);
  * re-sorting these ranges in place, one after the other (`foldl applyRun`), is the same as
    mapping the sorter over the groups (`foldl_applyRun_maskOf`): "positional mask" = "segments".
-/
import FcModel.Lexsort
import Mathlib.Data.List.Basic
import Mathlib.Data.List.Perm.Basic
namespace Fc.C02
variable {α : Type}

/-- mask of one group -/
def maskOf1 : List α → List Bool
  | [] => []
  | [_] => [false]
  | _ :: b :: t => true :: maskOf1 (b :: t)

/-- mask of a list of groups -/
def maskOf (gs : List (List α)) : List Bool := gs.flatMap maskOf1

@[simp] theorem maskOf_nil : maskOf ([] : List (List α)) = [] := rfl
@[simp] theorem maskOf_cons (g : List α) (gs : List (List α)) : maskOf (g :: gs) = maskOf1 g ++ maskOf gs := by
  simp [maskOf]

theorem maskOf1_length : ∀ g : List α, (maskOf1 g).length = g.length
  | [] => rfl
  | [_] => rfl
  | _ :: b :: t => by simp [maskOf1, maskOf1_length (b :: t)]

/-- the mask only depends on the group lengths -/
theorem maskOf1_congr {β : Type} : ∀ (g : List α) (h : List β), g.length = h.length → maskOf1 g = maskOf1 h
  | [], [], _ => rfl
  | [_], [_], _ => rfl
  | _ :: b :: t, _ :: d :: u, hl => by
    simp only [maskOf1]
    rw [maskOf1_congr (b :: t) (d :: u) (by simpa using hl)]
  | [], _ :: _, hl => by simp at hl
  | _ :: _, [], hl => by simp at hl
  | [_], _ :: _ :: _, hl => by simp at hl
  | _ :: _ :: _, [_], hl => by simp at hl

theorem maskOf_map_congr (f : List α → List α) (hf : ∀ g, (f g).length = g.length) :
    ∀ gs : List (List α), maskOf (gs.map f) = maskOf gs
  | [] => rfl
  | g :: gs => by
    simp only [List.map_cons, maskOf_cons]
    rw [maskOf1_congr (f g) g (hf g), maskOf_map_congr f hf gs]

/-! ### walkRuns on a group mask -/

/-- outside a block the remembered `begin` is irrelevant -/
theorem walkRunsAux_bg : ∀ (m : List Bool) (i bg bg' : Nat),
    walkRunsAux m i bg false = walkRunsAux m i bg' false
  | [], _, _, _ => rfl
  | b :: t, i, bg, bg' => by
    cases b
    · simp only [walkRunsAux, Bool.false_and, Bool.not_false, Bool.and_false, Bool.false_eq_true, if_false]
      exact walkRunsAux_bg t (i + 1) bg bg'
    · simp [walkRunsAux]

/-- inside a block: the rest of the group is skipped and the block `[bg, j + |h|)` is yielded -/
theorem walkRunsAux_in_block : ∀ (h : List α) (_ : h ≠ []) (m : List Bool) (j bg : Nat),
    walkRunsAux (maskOf1 h ++ m) j bg true = (bg, j + h.length) :: walkRunsAux m (j + h.length) bg false
  | [], hne, _, _, _ => absurd rfl hne
  | [_], _, m, j, bg => by simp [maskOf1, walkRunsAux]
  | _ :: d :: u, _, m, j, bg => by
    have ih := walkRunsAux_in_block (d :: u) (by simp) m (j + 1) bg
    simp only [maskOf1, List.cons_append, walkRunsAux, Bool.not_true, Bool.and_false, Bool.false_eq_true,
      if_false, Bool.false_and]
    rw [ih]
    simp only [List.length_cons]
    have e : j + 1 + (u.length + 1) = j + (u.length + 1 + 1) := by omega
    rw [e]

/-- `applyRun` on a slice that is exactly one group -/
theorem applyRun_group (f : List α → List α) (pre g r : List α) (s : Nat) (hs : pre.length = s) :
    applyRun f (pre ++ g ++ r) (s, s + g.length) = pre ++ f g ++ r := by
  subst hs
  unfold applyRun
  simp only [List.append_assoc]
  rw [List.take_left, List.drop_left]
  have e1 : pre.length + g.length - pre.length = g.length := by omega
  rw [e1, List.take_left]
  have e2 : List.drop (pre.length + g.length) (pre ++ (g ++ r)) = r := by
    rw [← List.append_assoc]
    have : (pre ++ g).length = pre.length + g.length := by simp
    rw [← this, List.drop_left]
  rw [e2]

/-- **positional mask = segments.**  Walking the mask of the groups `gs` and re-sorting every
    yielded range in place gives the same list as applying the sorter to every group — for every
    `f` that keeps lengths and singletons (every permutation-valued `f` does). -/
theorem foldl_applyRun_maskOf_aux (f : List α → List α) (hlen : ∀ g, (f g).length = g.length)
    (hsing : ∀ a, f [a] = [a]) :
    ∀ (gs : List (List α)) (_ : ∀ g ∈ gs, g ≠ []) (pre : List α) (i bg : Nat) (_ : pre.length = i),
      (walkRunsAux (maskOf gs) i bg false).foldl (applyRun f) (pre ++ gs.flatten) = pre ++ (gs.map f).flatten
  | [], _, pre, i, bg, _ => by simp [walkRunsAux]
  | g :: gs, hne, pre, i, bg, hpre => by
    have hg : g ≠ [] := hne g (List.mem_cons_self ..)
    have hne' : ∀ g' ∈ gs, g' ≠ [] := fun g' h' => hne g' (List.mem_cons_of_mem _ h')
    match g, hg with
    | [a], _ =>
      have ih := foldl_applyRun_maskOf_aux f hlen hsing gs hne' (pre ++ [a]) (i + 1) bg (by simp [hpre])
      simp only [maskOf_cons, maskOf1, List.cons_append, List.nil_append, walkRunsAux, Bool.false_and,
        Bool.not_false, Bool.and_false, Bool.false_eq_true, if_false, List.flatten_cons, List.map_cons, hsing]
      simpa using ih
    | a :: b :: t, _ =>
      have hblk := walkRunsAux_in_block (b :: t) (by simp) (maskOf gs) (i + 1) i
      simp only [maskOf_cons, maskOf1, List.cons_append, walkRunsAux, Bool.not_false, Bool.and_self,
        if_true, List.flatten_cons, List.map_cons]
      rw [hblk]
      simp only [List.foldl_cons]
      have e : i + 1 + (b :: t).length = i + (a :: b :: t).length := by simp; omega
      rw [e]
      have happ := applyRun_group f pre (a :: b :: t) gs.flatten i hpre
      have ih := foldl_applyRun_maskOf_aux f hlen hsing gs hne' (pre ++ f (a :: b :: t))
        (i + (a :: b :: t).length) i (by simp [hpre, hlen])
      have hgoal : pre ++ a :: b :: (t ++ gs.flatten) = pre ++ (a :: b :: t) ++ gs.flatten := by simp
      rw [hgoal, happ, ih]
      simp [List.append_assoc]

theorem foldl_applyRun_maskOf (f : List α → List α) (hlen : ∀ g, (f g).length = g.length)
    (hsing : ∀ a, f [a] = [a]) (gs : List (List α)) (hne : ∀ g ∈ gs, g ≠ []) :
    (walkRuns (maskOf gs)).foldl (applyRun f) gs.flatten = (gs.map f).flatten := by
  have := foldl_applyRun_maskOf_aux f hlen hsing gs hne [] 0 0 rfl
  simpa [walkRuns] using this

end Fc.C02
