/-
  FcProofs.Lemmas.ResidRigid — the assumption `hrigid` of C02's noise-free no-false-FAIL theorems,
  PROVED for meshes with distinguishable coincident points:

      if `mesh_equal` accepts two relabellings of `f` AS STORED, the two point orders are the same list,

  under `Sep ∧ Distinguishable` of the mesh AS STORED (`PointHypP` of `f.mesh`, orphan points included —
  two coincident orphan points are a counterexample, Witness/C02_Resid.lean) and the numeric slack
  `CentreSlack` (`A + (2k+4)·M·2^-53 + 1 unit ≤ B` for every cell size `k`).

  The argument: acceptance induces a bijection `φ` of the points that maps every point to a coincident
  one and every cell onto a cell of the same type with the image corners (in some order).  The centres
  of a cell and its image differ by at most `A + rounding` (`cellCentre_close`), hence by `≤ B`, hence
  (Sep of the candidate centres) they have the same cluster keys; so a point and its image have the
  same minimal-centre key vector, and `Distinguishable` forces `φ = id`.
-/
import FcProofs.Lemmas.LexsortRigid
import FcProofs.Lemmas.ResidCentre
namespace Fc.Resid
open Fc Fc.C02 Fc.C02.Spec

/-- numeric slack between the cluster width `A` and the gap `B`, for cells with `k` corners and
    coordinates of magnitude `≤ M` (in units of 2^-53): always true for real meshes
    (`A = atol/2`, `B = 4·atol`, `atol ≈ 1e-8·max|coord|`, `k ≤ 4096`) -/
def CentreSlack (A B M k : Nat) : Prop :=
  k ≤ 9007199254740992 ∧
  9007199254740992 * A + (2 * k + 4) * M + 9007199254740992 ≤ 9007199254740992 * B

instance (A B M k : Nat) : Decidable (CentreSlack A B M k) := by unfold CentreSlack; infer_instance

theorem mapM_mem {α β : Type} {f : α → Option β} : ∀ {l : List α} {r : List β}, l.mapM f = some r →
    (∀ a ∈ l, ∃ b ∈ r, f a = some b) ∧ (∀ b ∈ r, ∃ a ∈ l, f a = some b)
  | [], r, h => by
    simp only [List.mapM_nil, Option.pure_def, Option.some.injEq] at h
    subst h
    exact ⟨fun a ha => (by cases ha), fun b hb => (by cases hb)⟩
  | x :: l, r, h => by
    simp only [List.mapM_cons, Option.bind_eq_bind, Option.pure_def] at h
    cases h1 : f x with
    | none => rw [h1] at h; cases h
    | some y =>
      rw [h1, Option.bind_some] at h
      cases h2 : l.mapM f with
      | none => rw [h2] at h; cases h
      | some r0 =>
        rw [h2, Option.bind_some, Option.some.injEq] at h
        subst h
        obtain ⟨i1, i2⟩ := mapM_mem h2
        constructor
        · intro a ha
          rcases List.mem_cons.mp ha with rfl | ha
          · exact ⟨y, List.mem_cons_self .., h1⟩
          · obtain ⟨b, hb, e⟩ := i1 a ha
            exact ⟨b, List.mem_cons_of_mem _ hb, e⟩
        · intro b hb
          rcases List.mem_cons.mp hb with rfl | hb
          · exact ⟨x, List.mem_cons_self .., h1⟩
          · obtain ⟨a, ha, e⟩ := i2 b hb
            exact ⟨a, List.mem_cons_of_mem _ ha, e⟩

/-- the centres around a point are exactly the centres of its adjacent rows -/
theorem centresOf_mem {m : Mesh} {p : Nat} {cs : List (List Int)} (h : centresOf m p = some cs) :
    (∀ row ∈ allRows m, p ∈ row → ∃ z ∈ cs, cellCentre m.points row = some z) ∧
    (∀ z ∈ cs, ∃ row ∈ allRows m, p ∈ row ∧ cellCentre m.points row = some z) := by
  unfold centresOf at h
  split at h
  · cases h
  · obtain ⟨i1, i2⟩ := mapM_mem h
    rw [adjacentCells_eq] at i1 i2
    constructor
    · intro row hrow hp
      exact i1 row (List.mem_filter.mpr ⟨hrow, by simpa using hp⟩)
    · intro z hz
      obtain ⟨row, hrow, e⟩ := i2 z hz
      obtain ⟨h1, h2⟩ := List.mem_filter.mp hrow
      exact ⟨row, h1, by simpa using h2, e⟩

theorem kvec_KM (A : Nat) (c : List (List Int)) (as : List Int → List Nat) (t : MeshTol) (m : Mesh) (a : PItem) :
    ∀ fuel j, kvec (KM A c as t m) fuel j a = kvec (KG A c) fuel j (mcD as t m a)
  | 0, _ => rfl
  | fuel + 1, j => by
    simp only [kvec]
    rw [kvec_KM A c as t m a fuel (j + 1)]
    rfl

section rigid
variable {f : MeshFields} {t : MeshTol} {A B M : Nat} {c : List (List Int)}

/-- what acceptance by `mesh_equal` provides: a point correspondence `φ` that moves every point to a
    coincident one and every cell onto a cell of the same block with the image corners -/
structure Auto (f : MeshFields) (A : Nat) (φ : Nat → Nat) : Prop where
  lt : ∀ p, p < f.mesh.points.length → φ p < f.mesh.points.length
  inj : ∀ p q, p < f.mesh.points.length → q < f.mesh.points.length → φ p = φ q → p = q
  key : ∀ p, p < f.mesh.points.length → ∀ j, j < f.mesh.dim →
    KC A f.mesh j (p, f.mesh.points.getD p []) = KC A f.mesh j (φ p, f.mesh.points.getD (φ p) [])
  near : ∀ p, p < f.mesh.points.length → ∀ j, j < f.mesh.dim →
    ((f.mesh.points.getD (φ p) []).getD j 0 - (f.mesh.points.getD p []).getD j 0).natAbs ≤ A
  fwd : ∀ r ∈ allRows f.mesh, ∃ r' ∈ allRows f.mesh, r'.Perm (r.map φ)
  bwd : ∀ r' ∈ allRows f.mesh, ∃ r ∈ allRows f.mesh, r'.Perm (r.map φ)

/-- a cell and its image have centres with the same cluster keys -/
theorem Auto.centre_keys {φ : Nat → Nat} (au : Auto f A φ) (hwf : WFP f) (hy : PointHypP t A B M f.mesh c)
    (hslack : ∀ r ∈ allRows f.mesh, CentreSlack A B M r.length)
    {r r' : List Nat} (hr : r ∈ allRows f.mesh) (hr' : r' ∈ allRows f.mesh) (hperm : r'.Perm (r.map φ))
    {z z' : List Int} (hz : cellCentre f.mesh.points r = some z) (hz' : cellCentre f.mesh.points r' = some z')
    (hzc : z ∈ c) (hzc' : z' ∈ c) :
    kvec (KG A c) f.mesh.dim 0 z = kvec (KG A c) f.mesh.dim 0 z' := by
  have hin : ∀ r ∈ allRows f.mesh, ∀ q ∈ r, q < f.mesh.points.length := by
    intro r hr q hq
    unfold allRows at hr
    obtain ⟨b, hb, hrb⟩ := List.mem_flatMap.mp hr
    exact hwf.inRange b hb r hrb q hq
  have hrowlen : ∀ q, q < f.mesh.points.length → (f.mesh.points.getD q []).length = f.mesh.dim := by
    intro q hq
    rw [Fc.getD_of_lt _ _ hq]
    exact hwf.rows _ (List.getElem_mem hq)
  have hmag : ∀ q, q < f.mesh.points.length → ∀ j, j < f.mesh.dim →
      ((f.mesh.points.getD q []).getD j 0).natAbs ≤ M := by
    intro q hq j hj
    exact hy.sepP.mag j hj (q, f.mesh.points.getD q []) (pitem_mem hq)
  have hk : r.length ≤ 9007199254740992 := (hslack r hr).1
  have hbound := cellCentre_close (pts := f.mesh.points) (pts' := f.mesh.points) (d := f.mesh.dim) (φ := φ)
    (δ := A) (M := M) hz hz' hperm
    (fun q hq => hrowlen q (hin r hr q hq)) (fun q hq => hrowlen q (hin r' hr' q hq))
    (fun q hq j hj => hmag q (hin r hr q hq) j hj) (fun q hq j hj => hmag q (hin r' hr' q hq) j hj)
    (fun q hq j hj => au.near q (hin r hr q hq) j hj) hk
  apply kvec_congr
  intro j _ hj
  have hj' : j < f.mesh.dim := by omega
  have hb := hbound j hj'
  have hsl := (hslack r hr).2
  have hle : (z.getD j 0 - z'.getD j 0).natAbs ≤ B := by
    have : 9007199254740992 * (z.getD j 0 - z'.getD j 0).natAbs ≤ 9007199254740992 * B := Nat.le_trans hb hsl
    exact Nat.le_of_mul_le_mul_left this (by decide)
  have hm1 : rowKey j z ∈ c.map (rowKey j) := List.mem_map_of_mem hzc
  have hm2 : rowKey j z' ∈ c.map (rowKey j) := List.mem_map_of_mem hzc'
  have hsep := hy.sepC.sep j hj'
  have hnear : (rowKey j z - rowKey j z').natAbs ≤ A := by
    rcases (sepCol_iff A B _).mp hsep _ hm1 _ hm2 with h | h
    · exact h
    · exact absurd hle (by unfold rowKey at h; omega)
  exact clusterKey_eq_of_near hsep hy.sepC.hAB hm1 hm2 hnear

/-- a point and its image have the same minimal-centre key vector -/
theorem Auto.minCentre_keys {φ : Nat → Nat} (au : Auto f A φ) (hwf : WFP f) (hy : PointHypP t A B M f.mesh c)
    (hslack : ∀ r ∈ allRows f.mesh, CentreSlack A B M r.length)
    {as : List Int → List Nat} (has : IsArgsort as) {p : Nat} (hp : p < f.mesh.points.length)
    {cs1 cs2 : List (List Int)} (h1 : centresOf f.mesh p = some cs1) (hs1 : ∀ x ∈ cs1, x ∈ c)
    (h2 : centresOf f.mesh (φ p) = some cs2) (hs2 : ∀ x ∈ cs2, x ∈ c) :
    kvec (KG A c) f.mesh.dim 0 (mcD as t f.mesh (p, f.mesh.points.getD p [])) =
      kvec (KG A c) f.mesh.dim 0 (mcD as t f.mesh (φ p, f.mesh.points.getD (φ p) [])) := by
  obtain ⟨m1, e1, hm1, min1⟩ := minCentre_spec has hy.sepC hy.dimPos h1 hs1
  obtain ⟨m2, e2, hm2, min2⟩ := minCentre_spec has hy.sepC hy.dimPos h2 hs2
  have hin : ∀ r ∈ allRows f.mesh, ∀ q ∈ r, q < f.mesh.points.length := by
    intro r hr q hq
    unfold allRows at hr
    obtain ⟨b, hb, hrb⟩ := List.mem_flatMap.mp hr
    exact hwf.inRange b hb r hrb q hq
  obtain ⟨f1, g1⟩ := centresOf_mem h1
  obtain ⟨f2, g2⟩ := centresOf_mem h2
  unfold mcD
  simp only [e1, e2, Option.getD_some]
  apply lexLE_antisymm
  · -- m1 ≤ m2: the centre m2 belongs to a cell around φ p, the image of a cell around p
    obtain ⟨r', hr', hp', ez'⟩ := g2 m2 hm2
    obtain ⟨r, hr, hperm⟩ := au.bwd r' hr'
    have hpr : p ∈ r := by
      have : φ p ∈ r.map φ := hperm.mem_iff.mp hp'
      obtain ⟨q, hq, e⟩ := List.mem_map.mp this
      have := au.inj q p (hin r hr q hq) hp e
      rwa [this] at hq
    obtain ⟨z, hz, ez⟩ := f1 r hr hpr
    have hk := au.centre_keys hwf hy hslack hr hr' hperm ez ez' (hs1 z hz) (hs2 m2 hm2)
    exact lexLE_congr _ _ _ _ _ _ _ _ rfl hk (min1 z hz)
  · obtain ⟨r, hr, hpr, ez⟩ := g1 m1 hm1
    obtain ⟨r', hr', hperm⟩ := au.fwd r hr
    have hp' : φ p ∈ r' := hperm.mem_iff.mpr (List.mem_map_of_mem hpr)
    obtain ⟨z', hz', ez'⟩ := f2 r' hr' hp'
    have hk := au.centre_keys hwf hy hslack hr hr' hperm ez ez' (hs1 m1 hm1) (hs2 z' hz')
    exact lexLE_congr _ _ _ _ _ _ _ _ rfl hk.symm (min2 z' hz')

/-- an automorphism of a mesh with distinguishable coincident points fixes every point -/
theorem Auto.fixes {φ : Nat → Nat} (au : Auto f A φ) (hwf : WFP f) (hy : PointHypP t A B M f.mesh c)
    (hslack : ∀ r ∈ allRows f.mesh, CentreSlack A B M r.length)
    {as : List Int → List Nat} (has : IsArgsort as)
    (hdist : ∀ a ∈ pitems f.mesh, ∀ b ∈ pitems f.mesh,
      kvec (KC A f.mesh) f.mesh.dim 0 a = kvec (KC A f.mesh) f.mesh.dim 0 b →
      kvec (KM A c as t f.mesh) f.mesh.dim 0 a = kvec (KM A c as t f.mesh) f.mesh.dim 0 b → a = b)
    {p : Nat} (hp : p < f.mesh.points.length) : φ p = p := by
  have hm1 := pitem_mem (m := f.mesh) hp
  have hm2 := pitem_mem (m := f.mesh) (au.lt p hp)
  have hkc : kvec (KC A f.mesh) f.mesh.dim 0 (p, f.mesh.points.getD p []) =
      kvec (KC A f.mesh) f.mesh.dim 0 (φ p, f.mesh.points.getD (φ p) []) := by
    apply kvec_congr
    intro j _ hj
    exact au.key p hp j (by omega)
  by_contra hne
  have hab : (p, f.mesh.points.getD p []) ≠ (φ p, f.mesh.points.getD (φ p) []) := by
    intro e
    exact hne (congrArg Prod.fst e).symm
  obtain ⟨cs1, h1, hs1⟩ := hy.centres _ hm1 _ hm2 hab hkc
  obtain ⟨cs2, h2, hs2⟩ := hy.centres _ hm2 _ hm1 (Ne.symm hab) hkc.symm
  have hkm := au.minCentre_keys hwf hy hslack has hp h1 hs1 h2 hs2
  have := hdist _ hm1 _ hm2 hkc (by rw [kvec_KM, kvec_KM]; exact hkm)
  exact hab this

end rigid

/-! ### acceptance by `mesh_equal` induces such a correspondence -/

/-- positional form of the cell part of `mesh_equal` between two relabellings of `f`: the cells stored
    at the same position of the same block have the same vertex set, i.e. the second is the `φ`-image of
    the first up to the order of the corners -/
theorem cells_of_meshEqual {f : MeshFields} (hwf : WFP f) {t : MeshTol} {ρ1 ρ2 : List Nat}
    {κ1 κ2 : String → List Nat} (hρ2 : ρ2.Perm (List.range f.mesh.points.length))
    (hκ1 : CellMapsOk f κ1) (hκ2 : CellMapsOk f κ2)
    (heq : meshEqual t (relabelF ρ1 κ1 f).mesh (relabelF ρ2 κ2 f).mesh = true)
    {b : String × List (List Nat)} (hb : b ∈ f.mesh.cells) {i : Nat} (hi : i < b.2.length) :
    (b.2.getD ((κ2 b.1).getD i 0) []).Perm
      ((b.2.getD ((κ1 b.1).getD i 0) []).map fun p => ρ2.getD (ρ1.idxOf p) 0) := by
  have hk1 := hκ1.block hwf b hb
  have hk2 := hκ2.block hwf b hb
  have hl1 : (κ1 b.1).length = b.2.length := by simpa using hk1.length_eq
  have hl2 : (κ2 b.1).length = b.2.length := by simpa using hk2.length_eq
  unfold meshEqual at heq
  simp only [Bool.and_eq_true, List.all_eq_true] at heq
  have hb' : (b.1, (κ1 b.1).map fun c => (b.2.map fun row => row.map fun p => ρ1.idxOf p).getD c []) ∈
      (relabelF ρ1 κ1 f).mesh.cells := by
    unfold relabelF applyCellMaps applyPointMap
    simp only [List.map_map, List.mem_map, Function.comp]
    exact ⟨b, hb, rfl⟩
  have h3 := heq.2 _ hb'
  have hcont : (relabelF ρ2 κ2 f).mesh.cellTypes.contains b.1 = true := by
    unfold relabelF
    rw [cellTypes_applyCellMaps, cellTypes_applyPointMap]
    simp only [Mesh.cellTypes, List.contains_iff_mem, List.mem_map]
    exact ⟨b, hb, rfl⟩
  simp only [hcont, if_true, Bool.and_eq_true, beq_iff_eq] at h3
  have hrows : (relabelF ρ2 κ2 f).mesh.cellsOf b.1 =
      (κ2 b.1).map ((b.2.map fun row => row.map fun p => ρ2.idxOf p).getD · []) := by
    unfold relabelF
    rw [cellsOf_applyCellMaps (applyPointMap f ρ2) κ2 b.1
      (fun e0 => perm_range_zero ((hκ2.pointMap ρ2) b.1) e0), cellsOf_applyPointMap,
      Fc.cellsOf_of_mem f.mesh hwf.types b hb]
  rw [hrows] at h3
  have h4 : (((κ1 b.1).map fun c => (b.2.map fun row => row.map fun p => ρ1.idxOf p).getD c []).map sortNat).getD i [] =
      (((κ2 b.1).map ((b.2.map fun row => row.map fun p => ρ2.idxOf p).getD · [])).map sortNat).getD i [] :=
    congrArg (fun l => l.getD i []) h3.2
  have hs0 : sortNat [] = [] := rfl
  have e1 : (((κ1 b.1).map fun c => (b.2.map fun row => row.map fun p => ρ1.idxOf p).getD c []).map sortNat).getD i [] =
      sortNat ((b.2.getD ((κ1 b.1).getD i 0) []).map fun p => ρ1.idxOf p) := by
    rw [← hs0, getD_map_f sortNat, hs0, Fc.getD_of_lt _ _ (by rw [List.length_map, hl1]; exact hi), List.getElem_map,
      Fc.getD_of_lt (κ1 b.1) 0 (by rw [hl1]; exact hi)]
    rw [Fc.getD_map_nil b.2 (fun row => row.map fun p => ρ1.idxOf p) rfl]
  have e2 : (((κ2 b.1).map ((b.2.map fun row => row.map fun p => ρ2.idxOf p).getD · [])).map sortNat).getD i [] =
      sortNat ((b.2.getD ((κ2 b.1).getD i 0) []).map fun p => ρ2.idxOf p) := by
    rw [← hs0, getD_map_f sortNat, hs0, Fc.getD_of_lt _ _ (by rw [List.length_map, hl2]; exact hi), List.getElem_map,
      Fc.getD_of_lt (κ2 b.1) 0 (by rw [hl2]; exact hi)]
    rw [Fc.getD_map_nil b.2 (fun row => row.map fun p => ρ2.idxOf p) rfl]
  rw [e1, e2] at h4
  have hp := (sortNat_eq_iff.mp h4).map (ρ2.getD · 0)
  rw [List.map_map, List.map_map] at hp
  have hc2 : (κ2 b.1).getD i 0 < b.2.length :=
    List.mem_range.mp (hk2.mem_iff.mp (getD_mem (by rw [hl2]; exact hi) 0))
  have hid : (b.2.getD ((κ2 b.1).getD i 0) []).map ((ρ2.getD · 0) ∘ fun p => ρ2.idxOf p) =
      b.2.getD ((κ2 b.1).getD i 0) [] := by
    conv_rhs => rw [← List.map_id (b.2.getD ((κ2 b.1).getD i 0) [])]
    apply List.map_congr_left
    intro q hq
    have hrow : b.2.getD ((κ2 b.1).getD i 0) [] ∈ b.2 := by
      rw [Fc.getD_of_lt _ _ hc2]; exact List.getElem_mem hc2
    have hqlt : q < f.mesh.points.length := hwf.inRange b hb _ hrow q hq
    exact getD_idxOf (hρ2.mem_iff.mpr (List.mem_range.mpr hqlt)) 0
  rw [hid] at hp
  exact hp.symm

theorem auto_of_meshEqual {f : MeshFields} (hwf : WFP f) {t : MeshTol} {A B M : Nat}
    (hsep : SepCols t A B M pkey f.mesh.dim (pitems f.mesh)) {ρ1 ρ2 : List Nat} {κ1 κ2 : String → List Nat}
    (hρ1 : ρ1.Perm (List.range f.mesh.points.length)) (hρ2 : ρ2.Perm (List.range f.mesh.points.length))
    (hκ1 : CellMapsOk f κ1) (hκ2 : CellMapsOk f κ2)
    (heq : meshEqual t (relabelF ρ1 κ1 f).mesh (relabelF ρ2 κ2 f).mesh = true) :
    Auto f A (fun p => ρ2.getD (ρ1.idxOf p) 0) := by
  have hl1 : ρ1.length = f.mesh.points.length := by simpa using hρ1.length_eq
  have hl2 : ρ2.length = f.mesh.points.length := by simpa using hρ2.length_eq
  have hnd1 : ρ1.Nodup := hρ1.nodup_iff.mpr List.nodup_range
  have hnd2 : ρ2.Nodup := hρ2.nodup_iff.mpr List.nodup_range
  have hmem1 : ∀ p, p < f.mesh.points.length → p ∈ ρ1 := fun p hp => hρ1.mem_iff.mpr (List.mem_range.mpr hp)
  have hidx : ∀ p, p < f.mesh.points.length → ρ1.idxOf p < ρ2.length := by
    intro p hp
    rw [hl2, ← hl1]
    exact List.idxOf_lt_length_iff.mpr (hmem1 p hp)
  have hrows : ∀ (ρ : List Nat) (κ : String → List Nat), ρ.Perm (List.range f.mesh.points.length) →
      ∀ r ∈ (relabelF ρ κ f).mesh.points, r.length = (relabelF ρ κ f).mesh.dim := by
    intro ρ κ hρ r hr
    have hr' : r ∈ ρ.map fun i => f.mesh.points.getD i [] := hr
    obtain ⟨i, hi, rfl⟩ := List.mem_map.mp hr'
    have hi' : i < f.mesh.points.length := List.mem_range.mp (hρ.mem_iff.mp hi)
    rw [Fc.getD_of_lt _ _ hi']
    exact hwf.rows _ (List.getElem_mem hi')
  -- the coordinates stored at the same position are `fuzzy_equal`: same cluster key
  have hpos : ∀ p, p < f.mesh.points.length → ∀ j, j < f.mesh.dim →
      KC A f.mesh j (p, f.mesh.points.getD p []) =
        KC A f.mesh j (ρ2.getD (ρ1.idxOf p) 0, f.mesh.points.getD (ρ2.getD (ρ1.idxOf p) 0) []) := by
    intro p hp j hj
    set k := ρ1.idxOf p with hk
    have hk1 : k < ρ1.length := List.idxOf_lt_length_iff.mpr (hmem1 p hp)
    have hk2 : k < ρ2.length := hidx p hp
    have hp2 : ρ2.getD k 0 < f.mesh.points.length :=
      List.mem_range.mp (hρ2.mem_iff.mp (getD_mem hk2 0))
    have hkX : k < (relabelF ρ1 κ1 f).mesh.points.length := by
      show k < (ρ1.map _).length
      rw [List.length_map]; exact hk1
    have hlenX : (relabelF ρ1 κ1 f).mesh.points.length = (relabelF ρ2 κ2 f).mesh.points.length := by
      show (ρ1.map _).length = (ρ2.map _).length
      rw [List.length_map, List.length_map, hl1, hl2]
    have hg1 : (relabelF ρ1 κ1 f).mesh.points.getD k [] = f.mesh.points.getD p [] := by
      show (ρ1.map fun i => f.mesh.points.getD i []).getD k [] = _
      rw [Fc.getD_of_lt _ _ (by rw [List.length_map]; exact hk1), List.getElem_map, List.getElem_idxOf hk1]
    have hg2 : (relabelF ρ2 κ2 f).mesh.points.getD k [] = f.mesh.points.getD (ρ2.getD k 0) [] := by
      show (ρ2.map fun i => f.mesh.points.getD i []).getD k [] = _
      rw [Fc.getD_of_lt _ _ (by rw [List.length_map]; exact hk2), List.getElem_map, Fc.getD_of_lt ρ2 0 hk2]
    have hm1 := pitem_mem (m := f.mesh) hp
    have hm2 := pitem_mem (m := f.mesh) hp2
    have hc := meshEqual_points (t := t) (m1 := (relabelF ρ1 κ1 f).mesh) (m2 := (relabelF ρ2 κ2 f).mesh) rfl hlenX
      (hrows ρ1 κ1 hρ1) (hrows ρ2 κ2 hρ2) heq hkX (show j < (relabelF ρ1 κ1 f).mesh.dim from hj)
    rw [hg1, hg2] at hc
    have hcl := (hsep.clusteredFz j hj).iff _ (List.mem_map_of_mem (f := pkey j) hm1) _
      (List.mem_map_of_mem (f := pkey j) hm2)
    have hc' : t.closeFz (pkey j (p, f.mesh.points.getD p []))
        (pkey j (ρ2.getD k 0, f.mesh.points.getD (ρ2.getD k 0) [])) = true := hc
    rw [hcl] at hc'
    exact beq_iff_eq.mp hc'
  refine ⟨?_, ?_, hpos, ?_, ?_, ?_⟩
  · intro p hp
    exact List.mem_range.mp (hρ2.mem_iff.mp (getD_mem (hidx p hp) 0))
  · intro p q hp hq e
    have e' := congrArg (fun x => ρ2.idxOf x) e
    simp only [idxOf_getD hnd2 (hidx p hp), idxOf_getD hnd2 (hidx q hq)] at e'
    exact (List.idxOf_inj (hmem1 p hp)).mp e'
  · intro p hp j hj
    have hp2 : ρ2.getD (ρ1.idxOf p) 0 < f.mesh.points.length :=
      List.mem_range.mp (hρ2.mem_iff.mp (getD_mem (hidx p hp) 0))
    have hm1 := pitem_mem (m := f.mesh) hp
    have hm2 := pitem_mem (m := f.mesh) hp2
    have := near_of_clusterKey_eq (hsep.sep j hj) hsep.hAB (List.mem_map_of_mem (f := pkey j) hm1)
      (List.mem_map_of_mem (f := pkey j) hm2) (hpos p hp j hj)
    have hu : pkey j (p, f.mesh.points.getD p []) = (f.mesh.points.getD p []).getD j 0 := rfl
    have hv : pkey j (ρ2.getD (ρ1.idxOf p) 0, f.mesh.points.getD (ρ2.getD (ρ1.idxOf p) 0) []) =
        (f.mesh.points.getD (ρ2.getD (ρ1.idxOf p) 0) []).getD j 0 := rfl
    rw [hu, hv] at this
    omega
  · -- forward: every cell has an image cell
    intro r hr
    unfold allRows at hr
    obtain ⟨b, hb, hrb⟩ := List.mem_flatMap.mp hr
    obtain ⟨cidx, hc, rfl⟩ := List.getElem_of_mem hrb
    have hk1 := hκ1.block hwf b hb
    have hk2 := hκ2.block hwf b hb
    have hl1' : (κ1 b.1).length = b.2.length := by simpa using hk1.length_eq
    have hl2' : (κ2 b.1).length = b.2.length := by simpa using hk2.length_eq
    have hcm : cidx ∈ κ1 b.1 := hk1.mem_iff.mpr (List.mem_range.mpr hc)
    have hi : (κ1 b.1).idxOf cidx < b.2.length := by
      rw [← hl1']; exact List.idxOf_lt_length_iff.mpr hcm
    have hperm := cells_of_meshEqual hwf hρ2 hκ1 hκ2 heq hb hi
    rw [getD_idxOf hcm 0, Fc.getD_of_lt b.2 [] hc] at hperm
    have hc2 : (κ2 b.1).getD ((κ1 b.1).idxOf cidx) 0 < b.2.length :=
      List.mem_range.mp (hk2.mem_iff.mp (getD_mem (by rw [hl2']; exact hi) 0))
    refine ⟨_, ?_, hperm⟩
    unfold allRows
    refine List.mem_flatMap.mpr ⟨b, hb, ?_⟩
    rw [Fc.getD_of_lt _ _ hc2]
    exact List.getElem_mem hc2
  · -- backward: every cell is an image cell
    intro r' hr'
    unfold allRows at hr'
    obtain ⟨b, hb, hrb⟩ := List.mem_flatMap.mp hr'
    obtain ⟨cidx, hc, rfl⟩ := List.getElem_of_mem hrb
    have hk1 := hκ1.block hwf b hb
    have hk2 := hκ2.block hwf b hb
    have hl1' : (κ1 b.1).length = b.2.length := by simpa using hk1.length_eq
    have hl2' : (κ2 b.1).length = b.2.length := by simpa using hk2.length_eq
    have hcm : cidx ∈ κ2 b.1 := hk2.mem_iff.mpr (List.mem_range.mpr hc)
    have hi : (κ2 b.1).idxOf cidx < b.2.length := by
      rw [← hl2']; exact List.idxOf_lt_length_iff.mpr hcm
    have hperm := cells_of_meshEqual hwf hρ2 hκ1 hκ2 heq hb hi
    rw [getD_idxOf hcm 0, Fc.getD_of_lt b.2 [] hc] at hperm
    have hc1 : (κ1 b.1).getD ((κ2 b.1).idxOf cidx) 0 < b.2.length :=
      List.mem_range.mp (hk1.mem_iff.mp (getD_mem (by rw [hl1']; exact hi) 0))
    refine ⟨_, ?_, hperm⟩
    unfold allRows
    refine List.mem_flatMap.mpr ⟨b, hb, ?_⟩
    rw [Fc.getD_of_lt _ _ hc1]
    exact List.getElem_mem hc1

/-- **`hrigid`, proved under `Sep ∧ Distinguishable` of the mesh as stored.** -/
theorem rigid_of_distinguishable {f : MeshFields} (hwf : WFP f) {t : MeshTol} {A B M : Nat} {c : List (List Int)}
    (hy : PointHypP t A B M f.mesh c) (hslack : ∀ r ∈ allRows f.mesh, CentreSlack A B M r.length)
    {as : List Int → List Nat} (has : IsArgsort as)
    (hdist : ∀ a ∈ pitems f.mesh, ∀ b ∈ pitems f.mesh,
      kvec (KC A f.mesh) f.mesh.dim 0 a = kvec (KC A f.mesh) f.mesh.dim 0 b →
      kvec (KM A c as t f.mesh) f.mesh.dim 0 a = kvec (KM A c as t f.mesh) f.mesh.dim 0 b → a = b)
    {ρ1 ρ2 : List Nat} {κ1 κ2 : String → List Nat}
    (hρ1 : ρ1.Perm (List.range f.mesh.points.length)) (hρ2 : ρ2.Perm (List.range f.mesh.points.length))
    (hκ1 : CellMapsOk f κ1) (hκ2 : CellMapsOk f κ2)
    (heq : meshEqual t (relabelF ρ1 κ1 f).mesh (relabelF ρ2 κ2 f).mesh = true) : ρ1 = ρ2 := by
  have au := auto_of_meshEqual (A := A) hwf hy.sepP hρ1 hρ2 hκ1 hκ2 heq
  have hl1 : ρ1.length = f.mesh.points.length := by simpa using hρ1.length_eq
  have hl2 : ρ2.length = f.mesh.points.length := by simpa using hρ2.length_eq
  have hnd1 : ρ1.Nodup := hρ1.nodup_iff.mpr List.nodup_range
  apply List.ext_getElem (by rw [hl1, hl2])
  intro k hk1 hk2
  have hp : ρ1[k] < f.mesh.points.length := List.mem_range.mp (hρ1.mem_iff.mp (List.getElem_mem hk1))
  have hfix : ρ2.getD (ρ1.idxOf ρ1[k]) 0 = ρ1[k] := au.fixes hwf hy hslack has hdist hp
  rw [hnd1.idxOf_getElem k hk1, Fc.getD_of_lt ρ2 0 hk2] at hfix
  exact hfix.symm

end Fc.Resid

namespace Fc.Resid
open Fc Fc.C02 Fc.C02.Spec

/-- decidable form of the extra hypothesis of `rigid_of_distinguishable`: `Sep ∧ Distinguishable` of the
    mesh AS STORED (orphan points included: an orphan must not coincide with any other point) under the
    tolerances of `f`, and the numeric slack for every cell size -/
def storedHyp (f : MeshFields) : Bool :=
  let t := meshTolOf f.mesh
  pointHyp t f.mesh &&
  (allRows f.mesh).all fun r => decide (CentreSlack (sepA t) (sepB t) (pointData (sepA t) f.mesh).M r.length)

theorem storedHyp_sound {f : MeshFields} (h : storedHyp f = true) :
    PointHypP (meshTolOf f.mesh) (sepA (meshTolOf f.mesh)) (sepB (meshTolOf f.mesh))
      (pointData (sepA (meshTolOf f.mesh)) f.mesh).M f.mesh (pointData (sepA (meshTolOf f.mesh)) f.mesh).cands ∧
    (∀ a ∈ pitems f.mesh, ∀ b ∈ pitems f.mesh,
      kvec (KC (sepA (meshTolOf f.mesh)) f.mesh) f.mesh.dim 0 a = kvec (KC (sepA (meshTolOf f.mesh)) f.mesh) f.mesh.dim 0 b →
      kvec (KM (sepA (meshTolOf f.mesh)) (pointData (sepA (meshTolOf f.mesh)) f.mesh).cands argsortStable
          (meshTolOf f.mesh) f.mesh) f.mesh.dim 0 a =
        kvec (KM (sepA (meshTolOf f.mesh)) (pointData (sepA (meshTolOf f.mesh)) f.mesh).cands argsortStable
          (meshTolOf f.mesh) f.mesh) f.mesh.dim 0 b → a = b) ∧
    (∀ r ∈ allRows f.mesh, CentreSlack (sepA (meshTolOf f.mesh)) (sepB (meshTolOf f.mesh))
      (pointData (sepA (meshTolOf f.mesh)) f.mesh).M r.length) := by
  unfold storedHyp at h
  simp only [Bool.and_eq_true, List.all_eq_true, decide_eq_true_eq] at h
  have hp := h.1
  unfold pointHyp at hp
  simp only [Bool.and_eq_true] at hp
  exact ⟨pointSep_sound hp.1.2, distinguishable_sound hp.2, h.2⟩

end Fc.Resid
