/-
  FcProofs.Lemmas.Fuzzy — the modelled `FuzzyEquality._check` on float64 arrays computes the
  spec `Fc.Spec.fuzzySpec`.
-/
import FcProofs.Lemmas.Rounding
import FcProofs.Lemmas.Shapes
namespace Fc
open Spec

theorem threshold_f64 (m rel : Nat) (rw : Bool) (abs : Nat) (aw : Bool) :
    threshold f64 m rel rw abs aw = maxInf (rndMag f64 (m * rel) UNIT) (some abs) := by
  unfold threshold
  simp

theorem fuzzyEq1_f64 (a b : Int) (rel : Nat) (rw : Bool) (abs : Nat) (aw : Bool) :
    fuzzyEq1 f64 a b rel rw abs aw = docFormula f64 a b rel abs := by
  unfold fuzzyEq1 docFormula
  rw [threshold_f64]

/-- an array tolerance is "well shaped" for operands of (reshaped) shape `shp` when its shape
    is the entry shape `shp[1:]` — the per-component tolerances of the property -/
def Tol.wellShaped (t : Tol) (shp : List Nat) : Prop :=
  ∀ s us, t = .arr s us → s = shp.tail

/-- tolerance resolution agrees with the spec and passes the fast path's shape validation -/
theorem resolveTol_spec (t : Tol) (a b : NdArr) (h : t.wellShaped a.shape) :
    match resolveTol f64 t a b with
    | some r => specTol f64 t a b = some (fun i => r.at a.rowSize i) ∧ tolShapeOk r a.shape = true
    | none => specTol f64 t a b = none := by
  cases t with
  | num u => simp [resolveTol, specTol, RTol.at, tolShapeOk]
  | arr s us =>
    have hs : s = a.shape.tail := h s us rfl
    subst hs
    simp [resolveTol, specTol, RTol.at, tolShapeOk]
  | dflt => simp [resolveTol, specTol, RTol.at, tolShapeOk]
  | scaled base =>
    unfold resolveTol specTol
    by_cases he : a.data.isEmpty ∨ b.data.isEmpty
    · simp only [he, if_true]
    · simp only [he, if_false]
      cases hr : rndMag f64 (base.getD (epsUnits f64) * max (maxAbsUnits a) (maxAbsUnits b)) UNIT with
      | none => simp
      | some p => simp [RTol.at, tolShapeOk]
  | scaledComp base =>
    unfold resolveTol specTol
    by_cases he : a.data.isEmpty ∨ b.data.isEmpty
    · simp only [he, if_true]
    · simp only [he, if_false]
      by_cases hn : ((List.zipWith max (maxAbsComp a) (maxAbsComp b)).map
          fun m => rndMag f64 (m * base) UNIT).any Option.isNone
      · simp only [hn, if_true]
      · simp only [hn, Bool.false_eq_true, if_false]
        by_cases hl : a.shape.length ≤ 1
        · simp only [hl, if_true]
          have htail : a.shape.tail = [] := by
            cases hsh : a.shape with
            | nil => rfl
            | cons x xs =>
              rw [hsh] at hl
              simp at hl
              simp [hl]
          have hrs : a.rowSize = 1 := by
            unfold NdArr.rowSize; rw [htail]; rfl
          refine ⟨?_, by simp [tolShapeOk]⟩
          congr 1
          funext i
          simp [RTol.at, hrs, Nat.mod_one]
        · simp only [hl, if_false]
          refine ⟨?_, by simp [tolShapeOk]⟩
          congr 1

theorem allFuzzy_f64 (a b : List Int) (rs : Nat) (r t : RTol) :
    allFuzzy f64 a b rs r t =
      (List.range a.length).all fun i =>
        docFormula f64 (a.getD i 0) (b.getD i 0) (r.at rs i) (t.at rs i) := by
  unfold allFuzzy
  simp only [fuzzyEq1_f64]

end Fc
