/-
  Lemmas about `findAndRemove` / `findMatches` (any equality predicate, any lists) and about the
  suite constructor; used by Props/C11.
-/
import FcModel.Spec.C11
namespace Fc

variable {α β : Type}

/-- the inner loop finds the FIRST matching element and removes exactly that occurrence -/
theorem findAndRemove_some {eq : α → β → Bool} {s : α} {l : List β} {t : β} {r : List β}
    (h : findAndRemove eq s l = some (t, r)) :
    ∃ l1 l2, l = l1 ++ t :: l2 ∧ r = l1 ++ l2 ∧ eq s t = true ∧ ∀ x ∈ l1, eq s x = false := by
  induction l generalizing t r with
  | nil => simp [findAndRemove] at h
  | cons x xs ih =>
    unfold findAndRemove at h
    by_cases hx : eq s x = true
    · simp only [hx, if_true, Option.some.injEq, Prod.mk.injEq] at h
      obtain ⟨rfl, rfl⟩ := h
      exact ⟨[], xs, rfl, rfl, hx, by simp⟩
    · simp only [hx, Bool.false_eq_true, if_false] at h
      cases hr : findAndRemove eq s xs with
      | none => rw [hr] at h; simp at h
      | some p =>
        obtain ⟨m, r'⟩ := p
        rw [hr] at h
        simp only [Option.some.injEq, Prod.mk.injEq] at h
        obtain ⟨rfl, rfl⟩ := h
        obtain ⟨l1, l2, h1, h2, h3, h4⟩ := ih hr
        refine ⟨x :: l1, l2, by simp [h1], by simp [h2], h3, ?_⟩
        intro y hy
        cases hy with
        | head => simpa using hx
        | tail _ hy' => exact h4 y hy'

theorem findAndRemove_none {eq : α → β → Bool} {s : α} {l : List β}
    (h : findAndRemove eq s l = none) : ∀ x ∈ l, eq s x = false := by
  induction l with
  | nil => simp
  | cons x xs ih =>
    unfold findAndRemove at h
    by_cases hx : eq s x = true
    · simp [hx] at h
    · simp only [hx, Bool.false_eq_true, if_false] at h
      cases hr : findAndRemove eq s xs with
      | none =>
        intro y hy
        cases hy with
        | head => simpa using hx
        | tail _ hy' => exact ih hr y hy'
      | some p => rw [hr] at h; simp at h

theorem findAndRemove_perm {eq : α → β → Bool} {s : α} {l : List β} {t : β} {r : List β}
    (h : findAndRemove eq s l = some (t, r)) : l.Perm (t :: r) := by
  obtain ⟨l1, l2, rfl, rfl, _, _⟩ := findAndRemove_some h
  exact List.perm_middle

/-- all structural facts about `findMatches` at once (induction over the source, reference general) -/
theorem findMatches_facts (eq : α → β → Bool) (src : List α) (ref : List β) :
    let r := findMatches eq src ref
    (r.pairs.map Prod.fst ++ r.orphansSrc).Perm src ∧
    (r.pairs.map Prod.snd ++ r.orphansRef).Perm ref ∧
    (∀ p ∈ r.pairs, eq p.1 p.2 = true) ∧
    (∀ s ∈ r.orphansSrc, ∀ t ∈ r.orphansRef, eq s t = false) ∧
    (r.pairs.map Prod.fst).Sublist src ∧ r.orphansSrc.Sublist src ∧ r.orphansRef.Sublist ref := by
  induction src generalizing ref with
  | nil => simp [findMatches]
  | cons s ss ih =>
    unfold findMatches
    cases hf : findAndRemove eq s ref with
    | none =>
      obtain ⟨h1, h2, h3, h4, h5, h6, h7⟩ := ih ref
      simp only
      refine ⟨?_, h2, h3, ?_, ?_, ?_, h7⟩
      · exact (List.perm_middle).trans (List.Perm.cons s h1)
      · intro a ha t ht
        cases ha with
        | head => exact findAndRemove_none hf t (h7.subset ht)
        | tail _ ha' => exact h4 a ha' t ht
      · exact List.Sublist.cons s h5
      · exact List.Sublist.cons_cons s h6
    | some p =>
      obtain ⟨t, ref'⟩ := p
      obtain ⟨h1, h2, h3, h4, h5, h6, h7⟩ := ih ref'
      obtain ⟨l1, l2, hl, hr, hst, _⟩ := findAndRemove_some hf
      simp only
      refine ⟨?_, ?_, ?_, h4, ?_, ?_, ?_⟩
      · simpa using List.Perm.cons s h1
      · have : (t :: ((findMatches eq ss ref').pairs.map Prod.snd ++ (findMatches eq ss ref').orphansRef)).Perm (t :: ref') :=
          List.Perm.cons t h2
        simpa using this.trans (findAndRemove_perm hf).symm
      · intro q hq
        cases hq with
        | head => exact hst
        | tail _ hq' => exact h3 q hq'
      · simpa using List.Sublist.cons_cons s h5
      · exact List.Sublist.cons s h6
      · subst hl hr
        exact h7.trans (List.Sublist.append (List.Sublist.refl l1) (List.sublist_cons_self t l2))

end Fc

namespace Fc

/-! ### suite constructor -/

theorem bucketOf_failed_iff (c : Cmp) :
    bucketOf c = .failed ↔ (c.status = .failed ∨ c.status = .error) := by
  obtain ⟨n, st⟩ := c
  cases st <;> simp [bucketOf, Cmp.truthy, FStatus.truthy, Gen.suitePassedBucket,
    Gen.FieldComparisonStatus.falsy]

theorem bucketOf_passed_iff (c : Cmp) : bucketOf c = .passed ↔ c.status = .passed := by
  obtain ⟨n, st⟩ := c
  cases st <;> simp [bucketOf, Cmp.truthy, FStatus.truthy, Gen.suitePassedBucket,
    Gen.FieldComparisonStatus.falsy]

theorem bucketOf_skipped_iff (c : Cmp) :
    bucketOf c = .skipped ↔
      (c.status = .missing_source ∨ c.status = .missing_reference ∨ c.status = .filtered) := by
  obtain ⟨n, st⟩ := c
  cases st <;> simp [bucketOf, Cmp.truthy, FStatus.truthy, Gen.suitePassedBucket,
    Gen.FieldComparisonStatus.falsy]

/-- the constructor loses nothing and duplicates nothing: iteration order is a permutation of the input -/
theorem mkSuite_iter_perm (d : Bool) (cs : List Cmp) : (mkSuite d cs).iter.Perm cs := by
  induction cs with
  | nil => simp [mkSuite, Suite.iter]
  | cons c cs ih =>
    simp only [mkSuite, Suite.iter] at ih ⊢
    cases hb : bucketOf c with
    | passed =>
      simp only [List.filter_cons, hb, decide_true, if_true, reduceCtorEq, decide_false,
        Bool.false_eq_true, if_false]
      have : (List.filter (fun c => decide (bucketOf c = Bucket.failed)) cs ++
          c :: List.filter (fun c => decide (bucketOf c = Bucket.passed)) cs ++
          List.filter (fun c => decide (bucketOf c = Bucket.skipped)) cs).Perm
          (c :: (List.filter (fun c => decide (bucketOf c = Bucket.failed)) cs ++
          List.filter (fun c => decide (bucketOf c = Bucket.passed)) cs ++
          List.filter (fun c => decide (bucketOf c = Bucket.skipped)) cs)) := by
        simp only [List.append_assoc, List.cons_append]
        exact List.perm_middle
      exact this.trans (List.Perm.cons c ih)
    | failed =>
      simp only [List.filter_cons, hb, decide_true, if_true, reduceCtorEq, decide_false,
        Bool.false_eq_true, if_false, List.cons_append]
      exact List.Perm.cons c ih
    | skipped =>
      simp only [List.filter_cons, hb, decide_true, if_true, reduceCtorEq, decide_false,
        Bool.false_eq_true, if_false]
      exact (List.perm_middle).trans (List.Perm.cons c ih)

theorem mkSuite_bool (d : Bool) (cs : List Cmp) :
    (mkSuite d cs).bool = (d && cs.all (fun c => !Spec.isFailure c.status)) := by
  cases d with
  | false => simp [mkSuite, Suite.bool]
  | true =>
    simp only [mkSuite, Suite.bool, Bool.not_true, Bool.false_eq_true, if_false, Bool.true_and]
    induction cs with
    | nil => simp
    | cons c cs ih =>
      obtain ⟨n, st⟩ := c
      simp only [List.filter_cons, List.all_cons]
      cases st <;> simp_all [bucketOf, Cmp.truthy, FStatus.truthy, Spec.isFailure,
        Gen.suitePassedBucket, Gen.FieldComparisonStatus.falsy]

/-! ### counting over a filter partition -/

theorem count_map_filter_add {γ δ : Type} [BEq δ] [LawfulBEq δ] (p : γ → Bool) (f : γ → δ) (l : List γ) (n : δ) :
    ((l.filter p).map f).count n + ((l.filter (fun x => !p x)).map f).count n = (l.map f).count n := by
  induction l with
  | nil => simp
  | cons x xs ih =>
    by_cases hp : p x = true
    · simp only [List.filter_cons, hp, if_true, Bool.not_true, Bool.false_eq_true, if_false,
        List.map_cons, List.count_cons]
      omega
    · simp only [Bool.not_eq_true] at hp
      simp only [List.filter_cons, hp, Bool.false_eq_true, if_false, Bool.not_false, if_true,
        List.map_cons, List.count_cons]
      omega

theorem eq_of_nodup_map {γ δ : Type} (f : γ → δ) {l : List γ} (h : (l.map f).Nodup) {a b : γ}
    (ha : a ∈ l) (hb : b ∈ l) (hab : f a = f b) : a = b := by
  induction l with
  | nil => cases ha
  | cons x xs ih =>
    simp only [List.map_cons, List.nodup_cons, List.mem_map, not_exists, not_and] at h
    cases ha with
    | head =>
      cases hb with
      | head => rfl
      | tail _ hb' => exact absurd hab.symm (h.1 b hb')
    | tail _ ha' =>
      cases hb with
      | head => exact absurd hab (h.1 a ha')
      | tail _ hb' => exact ih h.2 ha' hb'

end Fc

namespace Fc

/-! ### membership in the list of comparisons -/

theorem mem_comparisons (sel : Nat → Bool) (pred : Fld → Fld → Outcome) (src ref : List Fld) (c : Cmp) :
    c ∈ comparisons sel pred src ref ↔
      (∃ p ∈ (findMatches nameEq src ref).pairs, sel p.1.name = true ∧ c = ⟨p.1.name, outcomeStatus (pred p.1 p.2)⟩) ∨
      (∃ f ∈ (findMatches nameEq src ref).orphansRef, c = ⟨f.name, .missing_source⟩) ∨
      (∃ f ∈ (findMatches nameEq src ref).orphansSrc, c = ⟨f.name, .missing_reference⟩) ∨
      (∃ p ∈ (findMatches nameEq src ref).pairs, sel p.1.name = false ∧ c = ⟨p.1.name, .filtered⟩) := by
  simp only [comparisons, compareMatches, filterMatches, List.mem_append, List.mem_map, List.mem_filter,
    Bool.not_eq_eq_eq_not, Bool.not_true]
  constructor
  · rintro (((⟨p, ⟨hp, hs⟩, rfl⟩ | ⟨f, hf, rfl⟩) | ⟨f, hf, rfl⟩) | ⟨f, ⟨p, ⟨hp, hs⟩, rfl⟩, rfl⟩)
    · exact Or.inl ⟨p, hp, hs, rfl⟩
    · exact Or.inr (Or.inl ⟨f, hf, rfl⟩)
    · exact Or.inr (Or.inr (Or.inl ⟨f, hf, rfl⟩))
    · exact Or.inr (Or.inr (Or.inr ⟨p, hp, hs, rfl⟩))
  · rintro (⟨p, hp, hs, rfl⟩ | ⟨f, hf, rfl⟩ | ⟨f, hf, rfl⟩ | ⟨p, hp, hs, rfl⟩)
    · exact Or.inl (Or.inl (Or.inl ⟨p, ⟨hp, hs⟩, rfl⟩))
    · exact Or.inl (Or.inl (Or.inr ⟨f, hf, rfl⟩))
    · exact Or.inl (Or.inr ⟨f, hf, rfl⟩)
    · exact Or.inr ⟨p.1, ⟨p, ⟨hp, hs⟩, rfl⟩, rfl⟩

theorem outcomeStatus_compared (o : Outcome) :
    outcomeStatus o ≠ .missing_source ∧ outcomeStatus o ≠ .missing_reference ∧ outcomeStatus o ≠ .filtered := by
  cases o <;> simp [outcomeStatus]

/-- with pairwise distinct source names, a source orphan shares its name with no matched source -/
theorem orphanSrc_name_ne (src ref : List Fld) (hs : (src.map (·.name)).Nodup)
    {s : Fld} (hso : s ∈ (findMatches nameEq src ref).orphansSrc)
    {p : Fld × Fld} (hp : p ∈ (findMatches nameEq src ref).pairs) : p.1.name ≠ s.name := by
  obtain ⟨h1, _⟩ := findMatches_facts nameEq src ref
  have hn := ((h1.map (·.name)).nodup_iff).mpr hs
  rw [List.map_append, List.nodup_append] at hn
  exact hn.2.2 _ (List.mem_map.mpr ⟨p.1, List.mem_map.mpr ⟨p, hp, rfl⟩, rfl⟩) _ (List.mem_map.mpr ⟨s, hso, rfl⟩)

/-- with pairwise distinct reference names, a reference orphan shares its name with no matched reference -/
theorem orphanRef_name_ne (src ref : List Fld) (hr : (ref.map (·.name)).Nodup)
    {t : Fld} (hto : t ∈ (findMatches nameEq src ref).orphansRef)
    {p : Fld × Fld} (hp : p ∈ (findMatches nameEq src ref).pairs) : p.2.name ≠ t.name := by
  obtain ⟨_, h2, _⟩ := findMatches_facts nameEq src ref
  have hn := ((h2.map (·.name)).nodup_iff).mpr hr
  rw [List.map_append, List.nodup_append] at hn
  exact hn.2.2 _ (List.mem_map.mpr ⟨p.2, List.mem_map.mpr ⟨p, hp, rfl⟩, rfl⟩) _ (List.mem_map.mpr ⟨t, hto, rfl⟩)

/-- a source field is matched or a source orphan; if some reference field has its name and source names are
    distinct, it is matched -/
theorem src_matched_of_partner (src ref : List Fld) (hs : (src.map (·.name)).Nodup)
    {s t : Fld} (hsm : s ∈ src) (htm : t ∈ ref) (hst : s.name = t.name) :
    ∃ p ∈ (findMatches nameEq src ref).pairs, p.1 = s := by
  obtain ⟨h1, h2, h3, h4, _⟩ := findMatches_facts nameEq src ref
  have hs' := h1.symm.subset hsm
  rw [List.mem_append] at hs'
  cases hs' with
  | inl hm =>
    obtain ⟨p, hp, rfl⟩ := List.mem_map.mp hm
    exact ⟨p, hp, rfl⟩
  | inr ho =>
    exfalso
    have ht' := h2.symm.subset htm
    rw [List.mem_append] at ht'
    cases ht' with
    | inl hm =>
      obtain ⟨p, hp, rfl⟩ := List.mem_map.mp hm
      have := h3 p hp
      simp only [nameEq, beq_iff_eq] at this
      exact orphanSrc_name_ne src ref hs ho hp (this.trans hst.symm)
    | inr hto =>
      have := h4 s ho t hto
      simp [nameEq, hst] at this

theorem ref_matched_of_partner (src ref : List Fld) (hr : (ref.map (·.name)).Nodup)
    {s t : Fld} (hsm : s ∈ src) (htm : t ∈ ref) (hst : s.name = t.name) :
    ∃ p ∈ (findMatches nameEq src ref).pairs, p.2 = t := by
  obtain ⟨h1, h2, h3, h4, _⟩ := findMatches_facts nameEq src ref
  have ht' := h2.symm.subset htm
  rw [List.mem_append] at ht'
  cases ht' with
  | inl hm =>
    obtain ⟨p, hp, rfl⟩ := List.mem_map.mp hm
    exact ⟨p, hp, rfl⟩
  | inr ho =>
    exfalso
    have hs' := h1.symm.subset hsm
    rw [List.mem_append] at hs'
    cases hs' with
    | inl hm =>
      obtain ⟨p, hp, rfl⟩ := List.mem_map.mp hm
      have := h3 p hp
      simp only [nameEq, beq_iff_eq] at this
      exact orphanRef_name_ne src ref hr ho hp (this.symm.trans hst)
    | inr hso =>
      have := h4 s hso t ho
      simp [nameEq, hst] at this

theorem nodup_of_nodup_map {γ δ : Type} (f : γ → δ) {l : List γ} (h : (l.map f).Nodup) : l.Nodup := by
  induction l with
  | nil => exact List.nodup_nil
  | cons x xs ih =>
    simp only [List.map_cons, List.nodup_cons, List.mem_map, not_exists, not_and] at h
    rw [List.nodup_cons]
    exact ⟨fun hx => h.1 x hx rfl, ih h.2⟩

end Fc
