/-
  FcProofs.Lemmas.LexsortViews — index-map algebra of the C02 model (`applyPointMap`,
  `applyCellMaps`, `stripOrphans`) for RELABELLED data sets:

  * `stripMap_spec`: for every `argsort`, `_unconnected_points_filter_map` is injective and
    enumerates exactly the connected points (in an arbitrary order);
  * composition / commutation / identity laws of the two index-map applications (points, inverse
    map on the corners, field rows) — the array part re-uses C08's chunk lemmas
    (`NdArr.gatherD_spec`, FcProofs/Lemmas/Permuted.lean);
  * `relabeled_of_view`: `applyCellMaps (applyPointMap g ρ) κ` is a `Relabeled` copy of `g`;
  * `Relabeled.pointHypP`: the hypotheses of the point sort are invariant under relabelling.
-/
import FcProofs.Lemmas.LexsortRelabel
import FcProofs.Lemmas.Permuted
namespace Fc.C02
open Fc.C02.Spec

/-! ### list facts -/

theorem getD_map_f {α β : Type} (g : α → β) (l : List α) (d : α) (i : Nat) :
    (l.map g).getD i (g d) = g (l.getD i d) := by
  simp only [List.getD_eq_getElem?_getD, List.getElem?_map]
  cases l[i]? <;> rfl

theorem getD_idxOf {l : List Nat} {p : Nat} (hp : p ∈ l) (d : Nat) : l.getD (l.idxOf p) d = p := by
  have hlt : l.idxOf p < l.length := List.idxOf_lt_length_iff.mpr hp
  rw [Fc.getD_of_lt l d hlt]
  exact List.getElem_idxOf hlt

theorem idxOf_getD {l : List Nat} (hnd : l.Nodup) {i : Nat} (hi : i < l.length) (d : Nat) :
    l.idxOf (l.getD i d) = i := by
  rw [Fc.getD_of_lt l d hi]
  exact hnd.idxOf_getElem i hi

theorem getD_mem {l : List Nat} {i : Nat} (hi : i < l.length) (d : Nat) : l.getD i d ∈ l := by
  rw [Fc.getD_of_lt l d hi]
  exact List.getElem_mem hi

/-- fancy indexing with a permutation of the index range is a permutation -/
theorem perm_map_getD {α : Type} {idx : List Nat} (l : List α) (d : α) (h : idx.Perm (List.range l.length)) :
    (idx.map (l.getD · d)).Perm l := by
  have := h.map (l.getD · d)
  rwa [Fc.getD_map_range] at this

theorem idxOf_range' {n p : Nat} (h : p < n) : (List.range n).idxOf p = p := by
  have := (List.nodup_range (n := n)).idxOf_getElem p (by simpa using h)
  simpa using this

/-- position of `p` in `σ ∘ τ` -/
theorem idxOf_comp {τ σ : List Nat} (hnd : τ.Nodup) (hσ : ∀ i ∈ σ, i < τ.length) {p : Nat} (hp : p ∈ τ) :
    (σ.map (τ.getD · 0)).idxOf p = σ.idxOf (τ.idxOf p) := by
  induction σ with
  | nil => rfl
  | cons s σ ih =>
    have hs : s < τ.length := hσ s (List.mem_cons_self ..)
    have ih' := ih (fun i hi => hσ i (List.mem_cons_of_mem _ hi))
    rw [List.map_cons, List.idxOf_cons, List.idxOf_cons, ih']
    by_cases e : τ.getD s 0 = p
    · have e2 : s = τ.idxOf p := by rw [← e, idxOf_getD hnd hs]
      have c1 : (τ.getD s 0 == p) = true := by rw [e]; exact beq_self_eq_true p
      have c2 : (s == τ.idxOf p) = true := by rw [← e2]; exact beq_self_eq_true s
      rw [c1, c2]
    · have e2 : s ≠ τ.idxOf p := by
        intro e'
        apply e
        rw [e', getD_idxOf hp]
      have c1 : (τ.getD s 0 == p) = false := beq_eq_false_iff_ne.mpr e
      have c2 : (s == τ.idxOf p) = false := beq_eq_false_iff_ne.mpr e2
      rw [c1, c2]

/-! ### `_unconnected_points_filter_map` for an arbitrary `argsort` -/

/-- along a list sorted by a 0/1-valued key the zeros come first -/
theorem take_zeros (g : Nat → Int) : ∀ L : List Nat, (L.map g).Pairwise (· ≤ ·) → (∀ p ∈ L, g p = 0 ∨ g p = 1) →
    L.take (L.filter fun p => g p == 0).length = L.filter fun p => g p == 0
  | [], _, _ => rfl
  | a :: L, hs, h01 => by
    rw [List.map_cons, List.pairwise_cons] at hs
    rcases h01 a (List.mem_cons_self ..) with h0 | h1
    · have hc : (g a == 0) = true := by simp [h0]
      simp only [List.filter_cons, hc, ↓reduceIte, List.length_cons, List.take_succ_cons]
      rw [take_zeros g L hs.2 (fun p hp => h01 p (List.mem_cons_of_mem _ hp))]
    · have hnone : L.filter (fun p => g p == 0) = [] := by
        rw [List.filter_eq_nil_iff]
        intro p hp
        have := hs.1 (g p) (List.mem_map_of_mem hp)
        simp only [beq_iff_eq]
        omega
      have hc : (g a == 0) = false := by simp [h1]
      simp only [List.filter_cons, hc, hnone, Bool.false_eq_true, ↓reduceIte, List.length_nil, List.take_zero]

/-- **the index map of `strip_orphan_points`, for EVERY argsort**: injective, and it enumerates
    exactly the points some cell references -/
theorem stripMap_spec {as : List Int → List Nat} (has : IsArgsort as) (m : Mesh) :
    (unconnectedFilterMap as m).Nodup ∧
    ∀ p, p ∈ unconnectedFilterMap as m ↔ (p < m.points.length ∧ m.connected p = true) := by
  unfold unconnectedFilterMap
  simp only
  set fm : Nat → Int := fun p => if m.connected p then 0 else 1 with hfm
  set mask : List Int := (List.range m.numPoints).map fm with hmask
  have hlen : mask.length = m.points.length := by simp [hmask, Mesh.numPoints]
  set g : Nat → Int := fun i => mask.getD i 0 with hg
  have hperm := has.perm mask
  rw [hlen] at hperm
  have hgf : ∀ p, p < m.points.length → g p = fm p := by
    intro p hp
    simp only [hg, hmask, List.getD_eq_getElem?_getD, List.getElem?_map, Mesh.numPoints,
      List.getElem?_range hp, Option.map_some, Option.getD_some]
  have h01 : ∀ p ∈ as mask, g p = 0 ∨ g p = 1 := by
    intro p hp
    have hp' : p < m.points.length := List.mem_range.mp (hperm.mem_iff.mp hp)
    rw [hgf p hp']
    simp only [hfm]
    split <;> simp
  have hk : (mask.filter (· == 0)).length = ((as mask).filter fun p => g p == 0).length := by
    rw [(hperm.filter _).length_eq, hmask, List.filter_map, List.length_map, Mesh.numPoints]
    congr 1
    apply List.filter_congr
    intro p hp
    simp only [Function.comp, hgf p (List.mem_range.mp hp)]
  rw [hk, take_zeros g (as mask) (has.sorted mask) h01]
  refine ⟨(hperm.nodup_iff.mpr List.nodup_range).filter _, ?_⟩
  intro p
  rw [List.mem_filter, hperm.mem_iff, List.mem_range]
  constructor
  · rintro ⟨hp, h0⟩
    refine ⟨hp, ?_⟩
    rw [hgf p hp] at h0
    simp only [hfm, beq_iff_eq] at h0
    by_contra hc
    simp [hc] at h0
  · rintro ⟨hp, hc⟩
    refine ⟨hp, ?_⟩
    rw [hgf p hp]
    simp [hfm, hc]

/-! ### array rows under composed index maps -/

theorem permuteRows_eq (a : NdArr) (idx : List Nat) : permuteRows a idx = a.gatherD idx := rfl

theorem permuteRows_hasRows {a : NdArr} {n : Nat} (h : a.hasRows n) (idx : List Nat) (hidx : ∀ i ∈ idx, i < n) :
    (permuteRows a idx).hasRows idx.length :=
  (NdArr.gatherD_spec h idx hidx).1

/-- `V[τ][σ] = V[τ[σ]]` -/
theorem permuteRows_comp {a : NdArr} {n : Nat} (h : a.hasRows n) (τ σ : List Nat) (hτ : ∀ i ∈ τ, i < n)
    (hσ : ∀ i ∈ σ, i < τ.length) :
    permuteRows (permuteRows a τ) σ = permuteRows a (σ.map (τ.getD · 0)) := by
  have hrow := (NdArr.gatherD_spec h τ hτ).2
  show (⟨a.dtype, σ.length :: (τ.length :: a.shape.tail).tail, σ.flatMap (a.gatherD τ).row⟩ : NdArr) =
    ⟨a.dtype, (σ.map (τ.getD · 0)).length :: a.shape.tail, (σ.map (τ.getD · 0)).flatMap a.row⟩
  have hd : σ.flatMap (a.gatherD τ).row = (σ.map (τ.getD · 0)).flatMap a.row := by
    rw [List.flatMap_map]
    apply List.flatMap_congr
    intro i hi
    rw [hrow i (hσ i hi), Fc.getD_of_lt τ 0 (hσ i hi)]
  rw [hd, List.length_map, List.tail_cons]

/-- `V[range n] = V` -/
theorem permuteRows_id {a : NdArr} {n : Nat} (h : a.hasRows n) : permuteRows a (List.range n) = a := by
  obtain ⟨hd, _⟩ := NdArr.hasRows_data h
  obtain ⟨hs, _⟩ := h
  have hshape : a.shape = n :: a.shape.tail := by
    cases hsh : a.shape with
    | nil => rw [hsh] at hs; simp at hs
    | cons x t => rw [hsh] at hs; simp at hs; rw [hs]; rfl
  have hchunks : ∀ k, k ≤ n → (List.range k).flatMap a.row = a.data.take (k * a.rowSize) := by
    intro k
    induction k with
    | zero => intro _; simp
    | succ k ih =>
      intro hk
      rw [List.range_succ, List.flatMap_append, ih (by omega), List.flatMap_singleton, Nat.succ_mul,
        List.take_add]
      rfl
  show (⟨a.dtype, (List.range n).length :: a.shape.tail, (List.range n).flatMap a.row⟩ : NdArr) = a
  rw [hchunks n (Nat.le_refl n), ← hd, List.take_length, List.length_range, ← hshape]

/-! ### admissible point index maps -/

/-- `τ` (new index ↦ old index) is injective, in range and covers every corner of every cell -/
structure Covers (f : MeshFields) (τ : List Nat) : Prop where
  nodup : τ.Nodup
  lt : ∀ p ∈ τ, p < f.mesh.points.length
  corners : ∀ b ∈ f.mesh.cells, ∀ row ∈ b.2, ∀ p ∈ row, p ∈ τ

/-- `τ` enumerates exactly the connected points (what `strip_orphan_points` uses) -/
structure StripMap (f : MeshFields) (τ : List Nat) : Prop where
  nodup : τ.Nodup
  mem_iff : ∀ p, p ∈ τ ↔ (p < f.mesh.points.length ∧ f.mesh.connected p = true)

theorem StripMap.covers {f : MeshFields} {τ : List Nat} (h : StripMap f τ) (hwf : WFP f) : Covers f τ where
  nodup := h.nodup
  lt p hp := ((h.mem_iff p).mp hp).1
  corners b hb row hrow p hp :=
    (h.mem_iff p).mpr ⟨hwf.inRange b hb row hrow p hp, Fc.connected_of_mem hb hrow hp⟩

theorem covers_of_perm {f : MeshFields} {ρ : List Nat} (hwf : WFP f)
    (hρ : ρ.Perm (List.range f.mesh.points.length)) : Covers f ρ where
  nodup := hρ.nodup_iff.mpr List.nodup_range
  lt _ hp := List.mem_range.mp (hρ.mem_iff.mp hp)
  corners b hb row hrow p hp := hρ.mem_iff.mpr (List.mem_range.mpr (hwf.inRange b hb row hrow p hp))

theorem stripMap_spec' {as : List Int → List Nat} (has : IsArgsort as) (f : MeshFields) :
    StripMap f (unconnectedFilterMap as f.mesh) :=
  ⟨(stripMap_spec has f.mesh).1, (stripMap_spec has f.mesh).2⟩

theorem specStripMap_spec (f : MeshFields) : StripMap f (specStripMap f.mesh) where
  nodup := List.nodup_range.filter _
  mem_iff _ := by
    unfold specStripMap
    rw [List.mem_filter, List.mem_range]
    rfl

/-- two enumerations of the connected points differ by a permutation of the positions -/
theorem StripMap.rebase_perm {f : MeshFields} {τ0 τ : List Nat} (h0 : StripMap f τ0) (h : StripMap f τ) :
    (τ.map fun p => τ0.idxOf p).Perm (List.range τ0.length) := by
  have hp : τ.Perm τ0 := (List.perm_ext_iff_of_nodup h.nodup h0.nodup).mpr
    (fun p => by rw [h.mem_iff, h0.mem_iff])
  have := hp.map fun p => τ0.idxOf p
  rwa [map_idxOf_self τ0 h0.nodup] at this

theorem StripMap.rebase_getD {f : MeshFields} {τ0 τ : List Nat} (h0 : StripMap f τ0) (h : StripMap f τ) :
    (τ.map fun p => τ0.idxOf p).map (τ0.getD · 0) = τ := by
  rw [List.map_map]
  conv_rhs => rw [← List.map_id τ]
  apply List.map_congr_left
  intro p hp
  exact getD_idxOf ((h0.mem_iff p).mpr ((h.mem_iff p).mp hp)) 0

/-! ### composition, commutation and identity of the index-map applications -/

/-- mesh part of `P[τ][σ] = P[τ[σ]]` (points; corners through the composed inverse map) -/
theorem applyPointMap_comp_mesh {f : MeshFields} {τ σ : List Nat} (hc : Covers f τ)
    (hσ : ∀ i ∈ σ, i < τ.length) :
    (applyPointMap (applyPointMap f τ) σ).mesh = (applyPointMap f (σ.map (τ.getD · 0))).mesh := by
  unfold applyPointMap
  simp only [List.map_map, Mesh.mk.injEq, true_and]
  constructor
  · apply List.map_congr_left
    intro i hi
    simp only [Function.comp]
    rw [Fc.getD_of_lt _ _ (by simpa using hσ i hi), List.getElem_map, Fc.getD_of_lt τ 0 (hσ i hi)]
  · apply List.map_congr_left
    intro b hb
    simp only [Function.comp, List.map_map, Prod.mk.injEq, true_and]
    apply List.map_congr_left
    intro row hrow
    simp only [Function.comp, List.map_map]
    apply List.map_congr_left
    intro p hp
    simp only [Function.comp]
    exact (idxOf_comp hc.nodup hσ (hc.corners b hb row hrow p hp)).symm

/-- `PermutedMesh` of a `PermutedMesh` on the points: the index maps compose -/
theorem applyPointMap_comp {f : MeshFields} {τ σ : List Nat} (hc : Covers f τ) (hσ : ∀ i ∈ σ, i < τ.length)
    (hpf : ∀ pf ∈ f.pointFields, pf.values.hasRows f.mesh.points.length) :
    applyPointMap (applyPointMap f τ) σ = applyPointMap f (σ.map (τ.getD · 0)) := by
  have hm := applyPointMap_comp_mesh hc hσ
  have hp : (applyPointMap (applyPointMap f τ) σ).pointFields =
      (applyPointMap f (σ.map (τ.getD · 0))).pointFields := by
    unfold applyPointMap
    simp only [List.map_map]
    apply List.map_congr_left
    intro pf hpf'
    simp only [Function.comp]
    rw [permuteRows_comp (hpf pf hpf') τ σ hc.lt hσ]
  have hcf : (applyPointMap (applyPointMap f τ) σ).cellFields =
      (applyPointMap f (σ.map (τ.getD · 0))).cellFields := rfl
  cases h1 : applyPointMap (applyPointMap f τ) σ
  cases h2 : applyPointMap f (σ.map (τ.getD · 0))
  rw [h1, h2] at hm hp hcf
  simp only at hm hp hcf
  rw [hm, hp, hcf]

/-- the point map acts on corners and point rows, the cell maps on cell order and cell rows: they commute -/
theorem applyPointMap_applyCellMaps (f : MeshFields) (κ : String → List Nat) (σ : List Nat) :
    applyPointMap (applyCellMaps f κ) σ = applyCellMaps (applyPointMap f σ) κ := by
  unfold applyPointMap applyCellMaps
  simp only [List.map_map, MeshFields.mk.injEq, Mesh.mk.injEq, true_and, and_true]
  apply List.map_congr_left
  intro b _
  simp only [Function.comp, List.map_map, Prod.mk.injEq, true_and]
  apply List.map_congr_left
  intro c _
  simp only [Function.comp]
  exact (Fc.getD_map_nil b.2 (fun row => row.map fun p => σ.idxOf p) rfl c).symm

/-- the identity point map changes nothing -/
theorem applyPointMap_id {f : MeshFields} (hwf : WFP f) :
    applyPointMap f (List.range f.mesh.points.length) = f := by
  have hm : (applyPointMap f (List.range f.mesh.points.length)).mesh = f.mesh := by
    unfold applyPointMap
    simp only
    have h1 : (List.range f.mesh.points.length).map (fun i => f.mesh.points.getD i []) = f.mesh.points :=
      Fc.getD_map_range f.mesh.points []
    have h2 : (f.mesh.cells.map fun b => (b.1, b.2.map fun row => row.map fun p =>
        (List.range f.mesh.points.length).idxOf p)) = f.mesh.cells := by
      conv_rhs => rw [← List.map_id f.mesh.cells]
      apply List.map_congr_left
      intro b hb
      have : (b.2.map fun row => row.map fun p => (List.range f.mesh.points.length).idxOf p) = b.2 := by
        conv_rhs => rw [← List.map_id b.2]
        apply List.map_congr_left
        intro row hrow
        conv_rhs => rw [id, ← List.map_id row]
        apply List.map_congr_left
        intro p hp
        exact idxOf_range' (hwf.inRange b hb row hrow p hp)
      rw [this]
      rfl
    rw [h1, h2]
  have hp : (applyPointMap f (List.range f.mesh.points.length)).pointFields = f.pointFields := by
    unfold applyPointMap
    simp only
    conv_rhs => rw [← List.map_id f.pointFields]
    apply List.map_congr_left
    intro pf hpf
    have hid := permuteRows_id (hwf.pf pf hpf)
    unfold Mesh.numPoints at hid
    rw [hid]
    rfl
  have hcf : (applyPointMap f (List.range f.mesh.points.length)).cellFields = f.cellFields := rfl
  cases h1 : applyPointMap f (List.range f.mesh.points.length)
  cases f
  rw [h1] at hm hp hcf
  simp only at hm hp hcf
  rw [hm, hp, hcf]

/-! ### a relabelled view is a `Relabeled` copy; the hypotheses of the point sort are invariant -/

theorem applyCellMaps_mesh_congr {x y : MeshFields} (h : x.mesh = y.mesh) (κ : String → List Nat) :
    (applyCellMaps x κ).mesh = (applyCellMaps y κ).mesh := by
  unfold applyCellMaps
  simp only [h]

/-- `applyCellMaps (applyPointMap g ρ) κ` stores `g` with the points in the order `ρ` and the cells of
    every block in the order `κ`: the index-level relation `Relabeled` -/
theorem relabeled_of_view {g : MeshFields} {ρ : List Nat} {κ : String → List Nat}
    (hin : ∀ b ∈ g.mesh.cells, ∀ row ∈ b.2, ∀ p ∈ row, p < g.mesh.points.length)
    (hρ : ρ.Perm (List.range g.mesh.points.length))
    (hκ : ∀ b ∈ g.mesh.cells, (κ b.1).Perm (List.range b.2.length)) :
    Relabeled g.mesh (applyCellMaps (applyPointMap g ρ) κ).mesh ρ where
  dim := rfl
  perm := hρ
  points := rfl
  wf := by
    intro row hrow p hp
    unfold allRows at hrow
    obtain ⟨b, hb, hr⟩ := List.mem_flatMap.mp hrow
    exact hin b hb row hr p hp
  rows := by
    unfold allRows applyCellMaps applyPointMap
    simp only [List.map_map, List.flatMap_map, List.map_flatMap]
    apply List.Perm.flatMap_left
    intro b hb
    simp only [Function.comp]
    apply perm_map_getD
    rw [List.length_map]
    exact hκ b hb

theorem Relabeled.item_of_mem {m1 m2 : Mesh} {ρ : List Nat} (h : Relabeled m1 m2 ρ) {a' : PItem}
    (ha' : a' ∈ pitems m2) : ∃ a ∈ pitems m1, a' = relabelItem ρ a := by
  obtain ⟨a, ha, e⟩ := List.mem_map.mp (h.onto.mem_iff.mpr ha')
  exact ⟨a, ha, e.symm⟩

/-- the hypotheses of the point sort (`Sep` of coordinates and candidate centres; coincident points
    have finite adjacent centres among the candidates) hold for a relabelled copy, with the SAME
    margins and the SAME candidate centres (cell centres are bitwise unchanged) -/
theorem Relabeled.pointHypP {m1 m2 : Mesh} {ρ : List Nat} (h : Relabeled m1 m2 ρ) {t : MeshTol} {A B M : Nat}
    {c : List (List Int)} (hy : PointHypP t A B M m1 c) : PointHypP t A B M m2 c where
  dimPos := h.dim ▸ hy.dimPos
  rowLen := by
    intro r hr
    rw [h.points] at hr
    obtain ⟨i, hi, rfl⟩ := List.mem_map.mp hr
    have hi' : i < m1.points.length := (h.mem_iff i).mp hi
    rw [Fc.getD_of_lt _ _ hi', ← h.dim]
    exact hy.rowLen _ (List.getElem_mem hi')
  sepP := by
    have hval : ∀ j, ∀ v ∈ (pitems m2).map (pkey j), v ∈ (pitems m1).map (pkey j) := by
      intro j v hv
      obtain ⟨a', ha', rfl⟩ := List.mem_map.mp hv
      obtain ⟨a, ha, rfl⟩ := h.item_of_mem ha'
      exact List.mem_map.mpr ⟨a, ha, rfl⟩
    refine ⟨hy.sepP.hAB, hy.sepP.bounds, fun j hj => ?_, fun j hj a' ha' => ?_⟩
    · exact sepCol_subset (hy.sepP.sep j (h.dim ▸ hj)) (hval j)
    · obtain ⟨a, ha, rfl⟩ := h.item_of_mem ha'
      exact hy.sepP.mag j (h.dim ▸ hj) a ha
  sepC := h.dim ▸ hy.sepC
  centres := by
    intro a' ha' b' hb' hne hk
    obtain ⟨a, ha, rfl⟩ := h.item_of_mem ha'
    obtain ⟨b, hb, rfl⟩ := h.item_of_mem hb'
    have hab : a ≠ b := fun e => hne (by rw [e])
    have geo := h.sameGeometry
    have hk1 : kvec (KC A m1) m1.dim 0 a = kvec (KC A m1) m1.dim 0 b := by
      rw [← geom_KC (A := A) geo ha, ← geom_KC (A := A) geo hb]
      exact hk
    obtain ⟨cs, hcs, hsub⟩ := hy.centres a ha b hb hab hk1
    rcases h.centres a.1 with ⟨hn, _⟩ | ⟨c1, c2, e1, e2, hp⟩
    · rw [hcs] at hn; cases hn
    · rw [hcs] at e1
      cases e1
      exact ⟨c2, e2, fun x hx => hsub x (hp.mem_iff.mpr hx)⟩

/-! ### mesh tolerances do not depend on the order of the points -/

theorem rowMax_init (r : List Int) : ∀ m : Nat,
    r.foldl (fun m x => max m x.natAbs) m = max m (r.foldl (fun m x => max m x.natAbs) 0) := by
  induction r with
  | nil => intro m; simp
  | cons x r ih =>
    intro m
    simp only [List.foldl_cons]
    rw [ih (max m x.natAbs), ih (max 0 x.natAbs)]
    omega

theorem maxAbsCoord_perm {p1 p2 : List (List Int)} (h : p1.Perm p2) : maxAbsCoord p1 = maxAbsCoord p2 := by
  unfold maxAbsCoord
  apply List.Perm.foldl_eq' h
  intro x _ y _ z
  have e1 := rowMax_init x z
  have e2 := rowMax_init y z
  have e3 := rowMax_init y (x.foldl (fun m x => max m x.natAbs) z)
  have e4 := rowMax_init x (y.foldl (fun m x => max m x.natAbs) z)
  show y.foldl (fun m x => max m x.natAbs) (x.foldl (fun m x => max m x.natAbs) z) =
    x.foldl (fun m x => max m x.natAbs) (y.foldl (fun m x => max m x.natAbs) z)
  rw [e3, e4, e1, e2]
  omega

theorem meshTolOf_relabelF {f : MeshFields} {ρ : List Nat} (κ : String → List Nat)
    (hρ : ρ.Perm (List.range f.mesh.points.length)) : meshTolOf (relabelF ρ κ f).mesh = meshTolOf f.mesh := by
  unfold meshTolOf
  have : maxAbsCoord (relabelF ρ κ f).mesh.points = maxAbsCoord f.mesh.points :=
    maxAbsCoord_perm (perm_map_getD f.mesh.points [] hρ)
  rw [this]

/-! ### stripping a relabelled data set -/

/-- connectedness in a relabelled copy -/
theorem connected_relabelF {f : MeshFields} {ρ : List Nat} {κ : String → List Nat}
    (hκ : ∀ b ∈ f.mesh.cells, (κ b.1).Perm (List.range b.2.length)) (q : Nat) :
    (relabelF ρ κ f).mesh.connected q = true ↔ ∃ p, f.mesh.connected p = true ∧ q = ρ.idxOf p := by
  rw [Fc.connected_iff]
  have hperm : ∀ b ∈ f.mesh.cells,
      ((κ b.1).map fun c => (b.2.map fun row => row.map fun p => ρ.idxOf p).getD c []).Perm
        (b.2.map fun row => row.map fun p => ρ.idxOf p) := by
    intro b hb
    apply perm_map_getD
    rw [List.length_map]
    exact hκ b hb
  constructor
  · rintro ⟨b'', hb'', row'', hrow'', hq⟩
    unfold relabelF applyCellMaps applyPointMap at hb''
    simp only [List.map_map, List.mem_map, Function.comp] at hb''
    obtain ⟨b, hb, rfl⟩ := hb''
    have hrow2 := (hperm b hb).mem_iff.mp hrow''
    obtain ⟨row, hrow, rfl⟩ := List.mem_map.mp hrow2
    obtain ⟨p, hp, rfl⟩ := List.mem_map.mp hq
    exact ⟨p, Fc.connected_of_mem hb hrow hp, rfl⟩
  · rintro ⟨p, hp, rfl⟩
    obtain ⟨b, hb, row, hrow, hpr⟩ := (Fc.connected_iff _ _).mp hp
    refine ⟨(b.1, (κ b.1).map fun c => (b.2.map fun row => row.map fun p => ρ.idxOf p).getD c []), ?_,
      row.map (fun p => ρ.idxOf p), ?_, List.mem_map_of_mem hpr⟩
    · unfold relabelF applyCellMaps applyPointMap
      simp only [List.map_map, List.mem_map, Function.comp]
      exact ⟨b, hb, rfl⟩
    · exact (hperm b hb).mem_iff.mpr (List.mem_map_of_mem hrow)

/-- **stripping a relabelled data set**, for every `argsort`: the result is the original with its
    connected points in SOME order `τ` and the cells in the order `κ` -/
theorem strip_relabelF {as : List Int → List Nat} (has : IsArgsort as) {f : MeshFields} (hwf : WFP f)
    {ρ : List Nat} {κ : String → List Nat} (hρ : ρ.Perm (List.range f.mesh.points.length))
    (hκ : ∀ b ∈ f.mesh.cells, (κ b.1).Perm (List.range b.2.length)) :
    ∃ τ, StripMap f τ ∧ stripOrphans as (relabelF ρ κ f) = applyCellMaps (applyPointMap f τ) κ := by
  have hσ := stripMap_spec' has (relabelF ρ κ f)
  have cρ := covers_of_perm hwf hρ
  have hlenX : (relabelF ρ κ f).mesh.points.length = ρ.length := by
    show (ρ.map _).length = _
    rw [List.length_map]
  have hσlt : ∀ i ∈ unconnectedFilterMap as (relabelF ρ κ f).mesh, i < ρ.length := by
    intro i hi
    rw [← hlenX]
    exact ((hσ.mem_iff i).mp hi).1
  refine ⟨(unconnectedFilterMap as (relabelF ρ κ f).mesh).map (ρ.getD · 0), ⟨?_, ?_⟩, ?_⟩
  · apply List.Nodup.map_on _ hσ.nodup
    intro i hi j hj e
    have := congrArg (fun p => ρ.idxOf p) e
    simp only [idxOf_getD cρ.nodup (hσlt i hi), idxOf_getD cρ.nodup (hσlt j hj)] at this
    exact this
  · intro p
    rw [List.mem_map]
    constructor
    · rintro ⟨i, hi, rfl⟩
      obtain ⟨_, hconn⟩ := (hσ.mem_iff i).mp hi
      obtain ⟨p', hp', rfl⟩ := (connected_relabelF hκ i).mp hconn
      have hp'lt : p' < f.mesh.points.length := Fc.connected_lt hwf hp'
      have hp'ρ : p' ∈ ρ := hρ.mem_iff.mpr (List.mem_range.mpr hp'lt)
      rw [getD_idxOf hp'ρ]
      exact ⟨hp'lt, hp'⟩
    · rintro ⟨hplt, hp⟩
      have hpρ : p ∈ ρ := hρ.mem_iff.mpr (List.mem_range.mpr hplt)
      refine ⟨ρ.idxOf p, ?_, getD_idxOf hpρ 0⟩
      rw [hσ.mem_iff, hlenX]
      exact ⟨List.idxOf_lt_length_iff.mpr hpρ, (connected_relabelF hκ _).mpr ⟨p, hp, rfl⟩⟩
  · unfold stripOrphans
    show applyPointMap (applyCellMaps (applyPointMap f ρ) κ) _ = _
    rw [applyPointMap_applyCellMaps, applyPointMap_comp cρ hσlt hwf.pf]

/-! ### the point sort of a stripped, relabelled data set -/

theorem idxOf_map_of_inj {g : Nat → Nat} (x : Nat) : ∀ (l : List Nat), (∀ a ∈ l, g a = g x → a = x) →
    (l.map g).idxOf (g x) = l.idxOf x
  | [], _ => rfl
  | a :: l, h => by
    rw [List.map_cons, List.idxOf_cons, List.idxOf_cons,
      idxOf_map_of_inj x l (fun b hb => h b (List.mem_cons_of_mem _ hb))]
    by_cases e : a = x
    · subst e
      rw [beq_self_eq_true, beq_self_eq_true]
    · have : g a ≠ g x := fun e' => e (h a (List.mem_cons_self ..) e')
      rw [beq_eq_false_iff_ne.mpr this, beq_eq_false_iff_ne.mpr e]

theorem pitems_fst_lt {m : Mesh} {a : PItem} (ha : a ∈ pitems m) : a.1 < m.points.length := by
  rw [pitems_eq_map] at ha
  obtain ⟨p, hp, rfl⟩ := List.mem_map.mp ha
  exact List.mem_range.mp hp

/-- **the sorted points of every stripped, relabelled view.**  `f` with its connected points in ANY
    order `τ` and its cells in any order `κ`, sorted with ANY `argsort`, is `f` with the points in
    the one order `J = τ0[I0]` (`τ0` = connected points ascending, `I0` = the index map the stable
    argsort computes for that base) — the cell order `κ` is untouched. -/
theorem sortPoints_view {as : List Int → List Nat} (has : IsArgsort as) {f : MeshFields} (hwf : WFP f)
    {τ : List Nat} (hτ : StripMap f τ) (κ : String → List Nat)
    (hκ : ∀ b ∈ f.mesh.cells, (κ b.1).Perm (List.range b.2.length))
    {t : MeshTol} {A B M : Nat} {c : List (List Int)}
    (hy0 : PointHypP t A B M (applyPointMap f (specStripMap f.mesh)).mesh c)
    (hdist0 : ∀ a ∈ pitems (applyPointMap f (specStripMap f.mesh)).mesh,
      ∀ b ∈ pitems (applyPointMap f (specStripMap f.mesh)).mesh,
      kvec (KC A (applyPointMap f (specStripMap f.mesh)).mesh) (applyPointMap f (specStripMap f.mesh)).mesh.dim 0 a =
        kvec (KC A (applyPointMap f (specStripMap f.mesh)).mesh) (applyPointMap f (specStripMap f.mesh)).mesh.dim 0 b →
      kvec (KM A c argsortStable t (applyPointMap f (specStripMap f.mesh)).mesh)
          (applyPointMap f (specStripMap f.mesh)).mesh.dim 0 a =
        kvec (KM A c argsortStable t (applyPointMap f (specStripMap f.mesh)).mesh)
          (applyPointMap f (specStripMap f.mesh)).mesh.dim 0 b → a = b)
    (hne : specStripMap f.mesh ≠ []) :
    ∃ I0, sortPointsIdx argsortStable t (applyPointMap f (specStripMap f.mesh)).mesh = some I0 ∧
      (∀ j ∈ I0, j < (specStripMap f.mesh).length) ∧
      PointHypP t A B M (applyCellMaps (applyPointMap f τ) κ).mesh c ∧
      sortPoints as t (applyCellMaps (applyPointMap f τ) κ) =
        some (applyCellMaps (applyPointMap f (I0.map ((specStripMap f.mesh).getD · 0))) κ) := by
  have h0 := specStripMap_spec f
  have c0 := h0.covers hwf
  have cτ := hτ.covers hwf
  have hρ' := h0.rebase_perm hτ
  have hρ'lt : ∀ i ∈ τ.map (fun p => (specStripMap f.mesh).idxOf p), i < (specStripMap f.mesh).length :=
    fun i hi => List.mem_range.mp (hρ'.mem_iff.mp hi)
  have hlen0 : (applyPointMap f (specStripMap f.mesh)).mesh.points.length = (specStripMap f.mesh).length := by
    show ((specStripMap f.mesh).map _).length = _
    rw [List.length_map]
  -- the view is a relabelled copy of the canonical base
  have hmesh : (applyCellMaps (applyPointMap f τ) κ).mesh =
      (applyCellMaps (applyPointMap (applyPointMap f (specStripMap f.mesh))
        (τ.map fun p => (specStripMap f.mesh).idxOf p)) κ).mesh := by
    apply applyCellMaps_mesh_congr
    rw [applyPointMap_comp_mesh c0 hρ'lt, h0.rebase_getD hτ]
  have hrel : Relabeled (applyPointMap f (specStripMap f.mesh)).mesh (applyCellMaps (applyPointMap f τ) κ).mesh
      (τ.map fun p => (specStripMap f.mesh).idxOf p) := by
    rw [hmesh]
    apply relabeled_of_view
    · intro b' hb' row' hrow' p' hp'
      obtain ⟨b, hb, rfl⟩ := List.mem_map.mp hb'
      obtain ⟨row, hrow, rfl⟩ := List.mem_map.mp hrow'
      obtain ⟨p, hp, rfl⟩ := List.mem_map.mp hp'
      rw [hlen0]
      exact List.idxOf_lt_length_iff.mpr (c0.corners b hb row hrow p hp)
    · rw [hlen0]; exact hρ'
    · intro b' hb'
      obtain ⟨b, hb, rfl⟩ := List.mem_map.mp hb'
      show (κ b.1).Perm (List.range (b.2.map _).length)
      rw [List.length_map]
      exact hκ b hb
  have hyG := hrel.pointHypP hy0
  have hn0 : (applyPointMap f (specStripMap f.mesh)).mesh.points ≠ [] := by
    intro e
    rw [e] at hlen0
    exact hne (List.length_eq_zero_iff.mp hlen0.symm)
  have hn2 : (applyCellMaps (applyPointMap f τ) κ).mesh.points ≠ [] := by
    intro e
    have hl : (applyCellMaps (applyPointMap f τ) κ).mesh.points.length =
        (applyPointMap f (specStripMap f.mesh)).mesh.points.length := by
      rw [hrel.points, List.length_map, hrel.length]
    rw [e] at hl
    exact hn0 (List.length_eq_zero_iff.mp hl.symm)
  obtain ⟨L0, L, e0, e, hmap⟩ := sortPoints_canonical_geom isArgsort_stable has hy0 hyG (fun _ => Iff.rfl)
    hrel.sameGeometry hn0 hn2 hdist0
  obtain ⟨L0', e0', p0, _⟩ := sortPointsItems_spec isArgsort_stable hy0 hn0
  rw [e0] at e0'
  cases e0'
  have hI0lt : ∀ j ∈ L0.map (·.1), j < (specStripMap f.mesh).length := by
    intro j hj
    obtain ⟨a, ha, rfl⟩ := List.mem_map.mp hj
    rw [← hlen0]
    exact pitems_fst_lt (p0.mem_iff.mp ha)
  refine ⟨L0.map (·.1), by unfold sortPointsIdx; rw [e0]; rfl, hI0lt, hyG, ?_⟩
  have hIdx : sortPointsIdx as t (applyCellMaps (applyPointMap f τ) κ).mesh =
      some ((L0.map (·.1)).map fun j => (τ.map fun p => (specStripMap f.mesh).idxOf p).idxOf j) := by
    unfold sortPointsIdx
    rw [e, ← hmap]
    simp only [Option.map_some, List.map_map]
    rfl
  have hIlt : ∀ i ∈ (L0.map (·.1)).map (fun j => (τ.map fun p => (specStripMap f.mesh).idxOf p).idxOf j),
      i < τ.length := by
    intro i hi
    obtain ⟨j, hj, rfl⟩ := List.mem_map.mp hi
    have hjρ : j ∈ τ.map fun p => (specStripMap f.mesh).idxOf p :=
      hρ'.mem_iff.mpr (List.mem_range.mpr (hI0lt j hj))
    have := List.idxOf_lt_length_iff.mpr hjρ
    rwa [List.length_map] at this
  unfold sortPoints
  rw [hIdx, Option.map_some, applyPointMap_applyCellMaps, applyPointMap_comp cτ hIlt hwf.pf]
  congr 3
  rw [List.map_map]
  apply List.map_congr_left
  intro j hj
  simp only [Function.comp]
  have hjlt := hI0lt j hj
  have hq0 : (specStripMap f.mesh).getD j 0 ∈ specStripMap f.mesh := getD_mem hjlt 0
  have hqτ : (specStripMap f.mesh).getD j 0 ∈ τ := (hτ.mem_iff _).mpr ((h0.mem_iff _).mp hq0)
  have hj' : (specStripMap f.mesh).idxOf ((specStripMap f.mesh).getD j 0) = j := idxOf_getD h0.nodup hjlt 0
  have := idxOf_map_of_inj (g := fun p => (specStripMap f.mesh).idxOf p) ((specStripMap f.mesh).getD j 0) τ
    (fun a ha e => (List.idxOf_inj ((h0.mem_iff a).mpr ((hτ.mem_iff a).mp ha))).mp e)
  simp only [hj'] at this
  rw [this, getD_idxOf hqτ]

end Fc.C02
