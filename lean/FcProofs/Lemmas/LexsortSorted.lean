/-
  FcProofs.Lemmas.LexsortSorted — the cell sort of a view whose cells are stored in another order,
  and the domain check between two such views:

  * `sortCells_view`: `sort_cells` of `applyCellMaps s κ` (any `argsort`) IS `sort_cells` of `s`
    (any other `argsort`) — connectivity AND cell-field rows — when no two cells of a type have the
    same hashed vertex set;
  * `view_eq_of_meshEqual`: if `mesh_equal` accepts two views of `s` that differ only in the cell
    order, the two cell orders are the same (cells with unique vertex sets cannot be exchanged).
-/
import FcProofs.Lemmas.LexsortViews
namespace Fc.C02
open Fc.C02.Spec

/-! ### cell blocks by type -/

theorem cellsOf_cases (m : Mesh) (ct : String) :
    m.cellsOf ct = [] ∨ ∃ b ∈ m.cells, b.1 = ct ∧ m.cellsOf ct = b.2 := by
  unfold Mesh.cellsOf
  cases hf : m.cells.find? (·.1 == ct) with
  | none => exact Or.inl rfl
  | some b =>
    right
    refine ⟨b, List.mem_of_find?_eq_some hf, ?_, rfl⟩
    have := List.find?_some hf
    exact beq_iff_eq.mp this

theorem find_applyCellMaps (κ : String → List Nat) (ct : String) :
    ∀ cells : List (String × List (List Nat)),
    (match (cells.map fun b => (b.1, (κ b.1).map fun c => b.2.getD c [])).find? (·.1 == ct) with
      | some b => b.2 | none => []) =
    match cells.find? (·.1 == ct) with
      | some b => (κ ct).map (b.2.getD · []) | none => []
  | [] => rfl
  | b :: cells => by
    simp only [List.map_cons, List.find?_cons]
    by_cases e : (b.1 == ct) = true
    · simp only [e]
      rw [beq_iff_eq.mp e]
    · have e' : (b.1 == ct) = false := by simpa using e
      simp only [e']
      exact find_applyCellMaps κ ct cells

theorem cellsOf_applyCellMaps (s : MeshFields) (κ : String → List Nat) (ct : String)
    (hκ0 : s.mesh.cellsOf ct = [] → κ ct = []) :
    (applyCellMaps s κ).mesh.cellsOf ct = (κ ct).map ((s.mesh.cellsOf ct).getD · []) := by
  have key := find_applyCellMaps κ ct s.mesh.cells
  unfold Mesh.cellsOf at hκ0 ⊢
  show (match (s.mesh.cells.map fun b => (b.1, (κ b.1).map fun c => b.2.getD c [])).find? (·.1 == ct) with
      | some b => b.2 | none => []) = _
  rw [key]
  cases hf : s.mesh.cells.find? (·.1 == ct) with
  | none =>
    rw [hf] at hκ0
    simp only [hκ0 rfl, List.map_nil]
  | some b => rfl

theorem cellTypes_applyCellMaps (s : MeshFields) (κ : String → List Nat) :
    (applyCellMaps s κ).mesh.cellTypes = s.mesh.cellTypes := by
  unfold Mesh.cellTypes applyCellMaps
  simp only [List.map_map]
  rfl

theorem cellTypes_applyPointMap (f : MeshFields) (τ : List Nat) :
    (applyPointMap f τ).mesh.cellTypes = f.mesh.cellTypes := by
  unfold Mesh.cellTypes applyPointMap
  simp only [List.map_map]
  rfl

/-! ### hypotheses on the cells of a (point-sorted) view -/

/-- one block per type; cell-field arrays have one row per cell; Python's `hash` of the sorted corner
    tuple separates the cells of every block (so no two cells of a type share a vertex set) -/
structure CellHypP (h : List Nat → Int) (s : MeshFields) : Prop where
  types : s.mesh.cellTypes.Nodup
  cf : ∀ cf ∈ s.cellFields, cf.values.hasRows (s.mesh.cellsOf cf.ctype).length
  hash : ∀ b ∈ s.mesh.cells, (b.2.map fun r => h (sortNat r)).Nodup

theorem CellHypP.hash_cellsOf {h : List Nat → Int} {s : MeshFields} (hs : CellHypP h s) (ct : String) :
    ((s.mesh.cellsOf ct).map fun r => h (sortNat r)).Nodup := by
  rcases cellsOf_cases s.mesh ct with e | ⟨b, hb, _, e⟩
  · rw [e]; exact List.nodup_nil
  · rw [e]; exact hs.hash b hb

theorem perm_range_zero {l : List Nat} {rows : List (List Nat)} (h : l.Perm (List.range rows.length))
    (e : rows = []) : l = [] := by
  subst e
  exact List.perm_nil.mp h

theorem map_getD_inj {α : Type} {l : List α} (hnd : l.Nodup) (d : α) :
    ∀ (a b : List Nat), (∀ i ∈ a, i < l.length) → (∀ i ∈ b, i < l.length) →
      a.map (l.getD · d) = b.map (l.getD · d) → a = b
  | [], [], _, _, _ => rfl
  | [], y :: b, _, _, e => by simp at e
  | x :: a, [], _, _, e => by simp at e
  | x :: a, y :: b, ha, hb, e => by
    simp only [List.map_cons, List.cons.injEq] at e
    have hx := ha x (List.mem_cons_self ..)
    have hy := hb y (List.mem_cons_self ..)
    rw [Fc.getD_of_lt l d hx, Fc.getD_of_lt l d hy] at e
    have hxy : x = y := (hnd.getElem_inj_iff).mp e.1
    subst hxy
    rw [map_getD_inj hnd d a b (fun i hi => ha i (List.mem_cons_of_mem _ hi))
      (fun i hi => hb i (List.mem_cons_of_mem _ hi)) e.2]

/-- two cell-map layers compose, given the composed maps block by block and array by array -/
theorem applyCellMaps_comp (s : MeshFields) (κ C2 C1 : String → List Nat)
    (hcells : ∀ b ∈ s.mesh.cells,
      (C2 b.1).map (((κ b.1).map (b.2.getD · [])).getD · []) = (C1 b.1).map (b.2.getD · []))
    (hfields : ∀ cf ∈ s.cellFields,
      permuteRows (permuteRows cf.values (κ cf.ctype)) (C2 cf.ctype) = permuteRows cf.values (C1 cf.ctype)) :
    applyCellMaps (applyCellMaps s κ) C2 = applyCellMaps s C1 := by
  unfold applyCellMaps
  simp only [List.map_map, MeshFields.mk.injEq, Mesh.mk.injEq, true_and]
  constructor
  · apply List.map_congr_left
    intro b hb
    simp only [Function.comp, Prod.mk.injEq, true_and]
    exact hcells b hb
  · apply List.map_congr_left
    intro cf hcf
    simp only [Function.comp]
    rw [hfields cf hcf]

theorem cellSortMap_perm {as : List Int → List Nat} (has : IsArgsort as) (h : List Nat → Int)
    (rows : List (List Nat)) : (cellSortMap as h rows).Perm (List.range rows.length) := by
  have := has.perm (rows.map fun r => h (sortNat r))
  rwa [List.length_map] at this

/-- **the cell sort of a view with re-ordered cells.** -/
theorem sortCells_view {as as' : List Int → List Nat} (has : IsArgsort as) (has' : IsArgsort as')
    (h : List Nat → Int) {s : MeshFields} (hs : CellHypP h s) {κ : String → List Nat}
    (hκ : ∀ ct, (κ ct).Perm (List.range (s.mesh.cellsOf ct).length)) :
    sortCells as h (applyCellMaps s κ) = sortCells as' h s := by
  have hκlt : ∀ ct, ∀ c ∈ κ ct, c < (s.mesh.cellsOf ct).length :=
    fun ct c hc => List.mem_range.mp ((hκ ct).mem_iff.mp hc)
  have hrows2 : ∀ ct, (applyCellMaps s κ).mesh.cellsOf ct = (κ ct).map ((s.mesh.cellsOf ct).getD · []) :=
    fun ct => cellsOf_applyCellMaps s κ ct (fun e => perm_range_zero (hκ ct) e)
  have hrowsNd : ∀ ct, (s.mesh.cellsOf ct).Nodup := fun ct => List.Nodup.of_map _ (hs.hash_cellsOf ct)
  -- sorted rows agree
  have hK2 : ∀ ct, (cellSortMap as h ((applyCellMaps s κ).mesh.cellsOf ct)).map
        (((κ ct).map ((s.mesh.cellsOf ct).getD · [])).getD · []) =
      (cellSortMap as' h (s.mesh.cellsOf ct)).map ((s.mesh.cellsOf ct).getD · []) := by
    intro ct
    have := cells_canonical has' has h (s.mesh.cellsOf ct) ((applyCellMaps s κ).mesh.cellsOf ct)
      (by rw [hrows2 ct]; exact (perm_map_getD _ [] (hκ ct)).symm)
      (List.inj_on_of_nodup_map (hs.hash_cellsOf ct))
    unfold sortedCellRows at this
    rw [this]
    apply List.map_congr_left
    intro c _
    rw [hrows2 ct]
  -- the index maps agree
  have hK3 : ∀ ct, (cellSortMap as h ((applyCellMaps s κ).mesh.cellsOf ct)).map ((κ ct).getD · 0) =
      cellSortMap as' h (s.mesh.cellsOf ct) := by
    intro ct
    have hC2lt : ∀ c ∈ cellSortMap as h ((applyCellMaps s κ).mesh.cellsOf ct), c < (κ ct).length := by
      intro c hc
      have := List.mem_range.mp ((cellSortMap_perm has h _).mem_iff.mp hc)
      rwa [hrows2 ct, List.length_map] at this
    apply map_getD_inj (hrowsNd ct) []
    · intro i hi
      obtain ⟨c, hc, rfl⟩ := List.mem_map.mp hi
      exact hκlt ct _ (getD_mem (hC2lt c hc) 0)
    · intro i hi
      exact List.mem_range.mp ((cellSortMap_perm has' h _).mem_iff.mp hi)
    · rw [← hK2 ct, List.map_map]
      apply List.map_congr_left
      intro c hc
      have hclt := hC2lt c hc
      simp only [Function.comp]
      rw [Fc.getD_of_lt ((κ ct).map ((s.mesh.cellsOf ct).getD · [])) [] (by rw [List.length_map]; exact hclt),
        List.getElem_map, Fc.getD_of_lt (κ ct) 0 hclt]
  unfold sortCells
  apply applyCellMaps_comp
  · intro b hb
    have e : s.mesh.cellsOf b.1 = b.2 := Fc.cellsOf_of_mem s.mesh hs.types b hb
    have := hK2 b.1
    simp only [e] at this ⊢
    exact this
  · intro cf hcf
    have hC2lt : ∀ c ∈ cellSortMap as h ((applyCellMaps s κ).mesh.cellsOf cf.ctype), c < (κ cf.ctype).length := by
      intro c hc
      have := List.mem_range.mp ((cellSortMap_perm has h _).mem_iff.mp hc)
      rwa [hrows2 cf.ctype, List.length_map] at this
    rw [permuteRows_comp (hs.cf cf hcf) _ _ (hκlt cf.ctype) hC2lt, hK3 cf.ctype]

/-- **`mesh_equal` between two cell orders of the same view forces the same order** -/
theorem view_eq_of_meshEqual {s : MeshFields} (htypes : s.mesh.cellTypes.Nodup)
    (hvs : ∀ b ∈ s.mesh.cells, (b.2.map sortNat).Nodup)
    {κ1 κ2 : String → List Nat} (hκ1 : ∀ ct, (κ1 ct).Perm (List.range (s.mesh.cellsOf ct).length))
    (hκ2 : ∀ ct, (κ2 ct).Perm (List.range (s.mesh.cellsOf ct).length)) (t : MeshTol)
    (heq : meshEqual t (applyCellMaps s κ1).mesh (applyCellMaps s κ2).mesh = true) :
    applyCellMaps s κ1 = applyCellMaps s κ2 := by
  have hblock : ∀ b ∈ s.mesh.cells, κ1 b.1 = κ2 b.1 := by
    intro b hb
    unfold meshEqual at heq
    simp only [Bool.and_eq_true, List.all_eq_true] at heq
    have hb' : (b.1, (κ1 b.1).map fun c => b.2.getD c []) ∈ (applyCellMaps s κ1).mesh.cells := by
      unfold applyCellMaps
      exact List.mem_map.mpr ⟨b, hb, rfl⟩
    have h3 := heq.2 _ hb'
    have hcont : (applyCellMaps s κ2).mesh.cellTypes.contains b.1 = true := by
      rw [cellTypes_applyCellMaps]
      simp only [Mesh.cellTypes, List.contains_iff_mem, List.mem_map]
      exact ⟨b, hb, rfl⟩
    simp only [hcont, if_true, Bool.and_eq_true, beq_iff_eq] at h3
    have e : s.mesh.cellsOf b.1 = b.2 := Fc.cellsOf_of_mem s.mesh htypes b hb
    rw [cellsOf_applyCellMaps s κ2 b.1 (fun e0 => perm_range_zero (hκ2 b.1) e0), e] at h3
    have hnd : (b.2.map sortNat).Nodup := hvs b hb
    have conv : ∀ κ : List Nat, (κ.map fun c => b.2.getD c []).map sortNat =
        κ.map ((b.2.map sortNat).getD · []) := by
      intro κ
      rw [List.map_map]
      apply List.map_congr_left
      intro c _
      exact (getD_map_f sortNat b.2 [] c).symm
    have h4 := h3.2
    rw [conv, conv] at h4
    have l1 : ∀ c ∈ κ1 b.1, c < (b.2.map sortNat).length := by
      intro c hc
      have := List.mem_range.mp ((hκ1 b.1).mem_iff.mp hc)
      rwa [e, ← List.length_map (f := sortNat)] at this
    have l2 : ∀ c ∈ κ2 b.1, c < (b.2.map sortNat).length := by
      intro c hc
      have := List.mem_range.mp ((hκ2 b.1).mem_iff.mp hc)
      rwa [e, ← List.length_map (f := sortNat)] at this
    exact map_getD_inj hnd [] _ _ l1 l2 h4
  have hall : κ1 = κ2 := by
    funext ct
    rcases cellsOf_cases s.mesh ct with e | ⟨b, hb, rfl, _⟩
    · rw [perm_range_zero (hκ1 ct) e, perm_range_zero (hκ2 ct) e]
    · exact hblock b hb
  rw [hall]

theorem CellHypP.vertexSets {h : List Nat → Int} {s : MeshFields} (hs : CellHypP h s) :
    ∀ b ∈ s.mesh.cells, (b.2.map sortNat).Nodup := by
  intro b hb
  have h1 : ((b.2.map sortNat).map h).Nodup := by
    rw [List.map_map]
    exact hs.hash b hb
  exact List.Nodup.of_map _ h1

theorem domainEq_iff (src ref : Side) :
    (runComparison src ref).domainEq = true ↔
      meshEqual (if src.permuted then src.tol
        else ⟨min src.tol.atol ref.tol.atol, min src.tol.rtol ref.tol.rtol⟩) src.f.mesh ref.f.mesh = true := by
  unfold runComparison
  simp only
  cases meshEqual (if src.permuted then src.tol
        else ⟨min src.tol.atol ref.tol.atol, min src.tol.rtol ref.tol.rtol⟩) src.f.mesh ref.f.mesh <;> simp

/-- two views of `s` that differ only in the cell order: if the domain check passes (whatever the
    tolerances and kinds of the domain objects), the views are identical and every field passes -/
theorem runComparison_views {s : MeshFields} (htypes : s.mesh.cellTypes.Nodup)
    (hvs : ∀ b ∈ s.mesh.cells, (b.2.map sortNat).Nodup) {κ1 κ2 : String → List Nat}
    (hκ1 : ∀ ct, (κ1 ct).Perm (List.range (s.mesh.cellsOf ct).length))
    (hκ2 : ∀ ct, (κ2 ct).Perm (List.range (s.mesh.cellsOf ct).length)) (t1 t2 : MeshTol) (p1 p2 : Bool)
    (hd : (runComparison ⟨applyCellMaps s κ1, t1, p1⟩ ⟨applyCellMaps s κ2, t2, p2⟩).domainEq = true) :
    allPassed (runComparison ⟨applyCellMaps s κ1, t1, p1⟩ ⟨applyCellMaps s κ2, t2, p2⟩) = true := by
  have heq := (domainEq_iff _ _).mp hd
  have e := view_eq_of_meshEqual htypes hvs hκ1 hκ2 _ heq
  rw [e]
  apply runComparison_self
  show (applyCellMaps s κ2).mesh.cellTypes.Nodup
  rw [cellTypes_applyCellMaps]
  exact htypes

end Fc.C02
