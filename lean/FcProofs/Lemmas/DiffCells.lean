/-
  FcProofs.Lemmas.DiffCells — assembling the cell fields of a difference data set; entries of `subArr`.
-/
import FcProofs.Lemmas.DiffDict
namespace Fc.C14

theorem mem_distinctKeys {κ : Type} [BEq κ] [LawfulBEq κ] (k : κ) (l : List κ) :
    k ∈ distinctKeys l ↔ k ∈ l := by
  induction l with
  | nil => simp [distinctKeys]
  | cons x xs ih =>
    simp only [distinctKeys, List.mem_cons, List.mem_filter, ih]
    constructor
    · rintro (h | ⟨h, _⟩)
      · exact Or.inl h
      · exact Or.inr h
    · rintro (h | h)
      · exact Or.inl h
      · by_cases e : k = x
        · exact Or.inl e
        · refine Or.inr ⟨h, ?_⟩
          simp [e]

theorem assembleCells_spec (types names : List String) (d : List ((String × String) × DArr))
    (hnames : ∀ n ct v, dictGet (n, ct) d = some v → n ∈ names)
    (hcov : ∀ n ∈ names, ∀ ct ∈ types, (dictGet (n, ct) d).isSome = true) :
    ∃ cfs, assembleCells types names d = some cfs ∧
      ∀ f : DCellField, f ∈ cfs ↔ (f.ctype ∈ types ∧ dictGet (f.name, f.ctype) d = some f.values) := by
  have hno : (names.map fun n => types.map fun ct => (dictGet (n, ct) d).map (DCellField.mk n ct)).any
      (·.any Option.isNone) = false := by
    rw [Bool.eq_false_iff]
    intro h
    simp only [List.any_eq_true, List.mem_map] at h
    obtain ⟨col, ⟨n, hn, hcol⟩, x, hxm, hx⟩ := h
    subst hcol
    obtain ⟨ct, hct, hxe⟩ := List.mem_map.mp hxm
    subst hxe
    have := hcov n hn ct hct
    rcases hd : dictGet (n, ct) d with _ | v
    · rw [hd] at this; simp at this
    · rw [hd] at hx; simp at hx
  refine ⟨_, by simp only [assembleCells, hno]; rfl, ?_⟩
  intro f
  simp only [List.mem_flatMap, List.mem_filterMap, Option.map_eq_some_iff]
  constructor
  · rintro ⟨ct, hct, n, _, v, hv, rfl⟩
    exact ⟨hct, hv⟩
  · rintro ⟨hct, hv⟩
    exact ⟨f.ctype, hct, f.name, hnames _ _ _ hv, f.values, hv, rfl⟩

/-- entries of an array difference -/
theorem subArr_spec (a1 a2 : NdArr) (d : DArr) (h : subArr a1 a2 = some d) :
    ∃ res, promote a1.dtype a2.dtype = some res ∧ d.dtype = res ∧ d.shape = a1.shape ∧
      d.data.length = min a1.data.length a2.data.length ∧
      ∀ i (h1 : i < a1.data.length) (h2 : i < a2.data.length),
        d.data[i]? = some (subEntry res a1.dtype a2.dtype a1.data[i] a2.data[i]) := by
  unfold subArr at h
  rcases hp : promote a1.dtype a2.dtype with _ | res
  · rw [hp] at h; simp at h
  · rw [hp] at h
    simp only [Option.some.injEq] at h
    subst h
    refine ⟨res, rfl, rfl, rfl, by simp, ?_⟩
    intro i h1 h2
    simp [List.getElem?_zipWith, h1, h2]

theorem subArr_swap_neg (a1 a2 : NdArr) (F : Fmt) (hs : a1.shape = a2.shape)
    (h1 : stdDType a1.dtype) (h2 : stdDType a2.dtype) (hp : promote a1.dtype a2.dtype = some (.flt F)) :
    subArr a2 a1 = (subArr a1 a2).map DArr.neg := by
  have hp' : promote a2.dtype a1.dtype = some (.flt F) := by rw [promote_comm h2 h1]; exact hp
  simp only [subArr, hp, hp', Option.map_some, DArr.neg, Option.some.injEq, DArr.mk.injEq, true_and]
  refine ⟨hs.symm, ?_⟩
  generalize a1.data = l1
  generalize a2.data = l2
  induction l1 generalizing l2 with
  | nil => simp
  | cons x xs ih =>
    cases l2 with
    | nil => simp
    | cons y ys =>
      simp only [List.zipWith_cons_cons, List.map_cons, List.cons.injEq]
      exact ⟨subEntry_flt_swap F _ _ _ _, ih ys⟩

theorem nanLike_neg (a : NdArr) : (nanLike a).neg = nanLike a := by
  simp [nanLike, DArr.neg, DVal.neg]

theorem wrapInt_zero (s : Bool) (b : Nat) (hb : 1 ≤ b) : wrapInt s b 0 = 0 := by
  have hpos : (0 : Int) < 2 ^ b / 2 := by
    have h2 : (2 : Int) ^ b = 2 * 2 ^ (b - 1) := by
      have : b = (b - 1) + 1 := by omega
      conv => lhs; rw [this, Int.pow_succ]
      omega
    rw [h2]
    have : (0 : Int) < 2 ^ (b - 1) := Int.pow_pos (by decide)
    omega
  simp [wrapInt]
  intro _
  omega

end Fc.C14
