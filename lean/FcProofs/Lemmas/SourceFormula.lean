/-
  FcProofs.Lemmas.SourceFormula — evaluating the body of `fuzzy_equal` as TRANSLATED FROM THE
  SOURCE TEXT (`Fc.Gen.fuzzyEqualBody`) on one binary64 lane gives the documented formula.
-/
import FcGen.Tables
import FcModel.Spec.Predicates
namespace Fc
open Spec

/-- the lane semantics of `|second - first|` -/
theorem xvAbs_sub (a b : Int) :
    xvAbs (xvSub (.fin b) (.fin a)) =
      match rndMag f64 (b - a).natAbs 0 with
      | some r => .fin r
      | none => .pinf := by
  unfold xvSub xvNeg xvAdd
  simp only
  have h : (b + -a).natAbs = (b - a).natAbs := by omega
  rw [h]
  cases rndMag f64 (b - a).natAbs 0 with
  | none => by_cases hn : b + -a < 0 <;> simp [XV.ofRnd, hn, xvAbs]
  | some r => by_cases hn : b + -a < 0 <;> simp [XV.ofRnd, hn, xvAbs]

theorem xvMax_abs (a b : Int) :
    xvMax (xvAbs (.fin a)) (xvAbs (.fin b)) = .fin ((max a.natAbs b.natAbs : Nat) : Int) := by
  unfold xvMax xvAbs xvLe
  simp only
  by_cases h : a.natAbs ≤ b.natAbs
  · have : ((a.natAbs : Nat) : Int) ≤ ((b.natAbs : Nat) : Int) := by omega
    simp [this, Nat.max_eq_right h]
  · have h' : b.natAbs ≤ a.natAbs := by omega
    have : ¬ (((a.natAbs : Nat) : Int) ≤ ((b.natAbs : Nat) : Int)) := by omega
    simp [this, Nat.max_eq_left h']

theorem xvMul_nonneg (m rel : Nat) :
    xvMul (.fin (m : Int)) (.fin (rel : Int)) =
      match rndMag f64 (m * rel) UNIT with
      | some p => .fin p
      | none => .pinf := by
  have h1 : ¬ ((m : Int) * (rel : Int) < 0) := by
    have : (0 : Int) ≤ (m : Int) * (rel : Int) := Int.mul_nonneg (Int.natCast_nonneg _) (Int.natCast_nonneg _)
    omega
  have h2 : ((m : Int) * (rel : Int)).natAbs = m * rel := by
    rw [Int.natAbs_mul]; simp
  show XV.ofRnd (decide ((m : Int) * (rel : Int) < 0)) (rndMag f64 ((m : Int) * (rel : Int)).natAbs UNIT) = _
  rw [h2]
  cases rndMag f64 (m * rel) UNIT <;> simp [XV.ofRnd, h1]

end Fc
