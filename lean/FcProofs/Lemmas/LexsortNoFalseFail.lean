/-
  FcProofs.Lemmas.LexsortNoFalseFail — what `_permute` (strip + point sort) and `sort_cells` make of a
  RELABELLED data set `relabelF ρ κ f`, for every `argsort`:

      permuteSide as (relabelF ρ κ f)  =  applyCellMaps (applyPointMap f J) κ        (J depends on f only)
      sortCells as h (that)            =  sortCells as' h (applyPointMap f J)        (independent of ρ, κ, as)

  hence the fully sorted views of two relabellings of the same data set are IDENTICAL
  (`sorted_relabelF`), and the domain check after the point sort forces equal cell orders.
-/
import FcProofs.Lemmas.LexsortSorted
import Mathlib.Data.List.Sort
namespace Fc.C02
open Fc.C02.Spec

/-! ### `sorted(corners)` is a canonical form of the vertex set -/

theorem insertNat_eq (x : Nat) : ∀ l : List Nat, insertNat x l = l.orderedInsert (· ≤ ·) x
  | [] => rfl
  | y :: l => by
    unfold insertNat
    rw [List.orderedInsert_cons, insertNat_eq x l]

theorem sortNat_eq : ∀ l : List Nat, sortNat l = l.insertionSort (· ≤ ·)
  | [] => rfl
  | x :: l => by
    have ih := sortNat_eq l
    unfold sortNat at ih ⊢
    rw [List.foldr_cons, ih, insertNat_eq]
    rfl

theorem sortNat_eq_iff {a b : List Nat} : sortNat a = sortNat b ↔ a.Perm b := by
  rw [sortNat_eq, sortNat_eq]
  constructor
  · intro e
    exact ((List.perm_insertionSort (· ≤ ·) a).symm.trans (e ▸ List.Perm.refl _)).trans
      (List.perm_insertionSort (· ≤ ·) b)
  · intro hp
    apply List.Perm.eq_of_pairwise (le := (· ≤ ·)) (fun _ _ _ _ h1 h2 => Nat.le_antisymm h1 h2)
      (List.pairwise_insertionSort _ a) (List.pairwise_insertionSort _ b)
    exact ((List.perm_insertionSort _ a).trans hp).trans (List.perm_insertionSort _ b).symm

theorem nodup_map_of_imp {α β γ : Type} {l : List α} {F : α → β} {G : α → γ}
    (himp : ∀ x ∈ l, ∀ y ∈ l, F x = F y → G x = G y) (hG : (l.map G).Nodup) : (l.map F).Nodup := by
  apply List.Nodup.map_on _ (List.Nodup.of_map _ hG)
  intro x hx y hy e
  exact List.inj_on_of_nodup_map hG hx hy (himp x hx y hy e)

/-- renumbering the corners through an injective map keeps "no two cells with the same vertex set" -/
theorem vertexSets_nodup_map {τ : List Nat} {rows : List (List Nat)} (hmem : ∀ row ∈ rows, ∀ p ∈ row, p ∈ τ) :
    ((rows.map fun row => row.map fun p => τ.idxOf p).map sortNat).Nodup ↔ (rows.map sortNat).Nodup := by
  rw [List.map_map]
  constructor
  · apply nodup_map_of_imp
    intro x _ y _ e
    simp only [Function.comp]
    exact sortNat_eq_iff.mpr ((sortNat_eq_iff.mp e).map _)
  · apply nodup_map_of_imp
    intro x hx y hy e
    simp only [Function.comp] at e
    have hp := (sortNat_eq_iff.mp e).map (τ.getD · 0)
    rw [List.map_map, List.map_map] at hp
    have hid : ∀ r ∈ rows, r.map ((τ.getD · 0) ∘ fun p => τ.idxOf p) = r := by
      intro r hr
      conv_rhs => rw [← List.map_id r]
      apply List.map_congr_left
      intro p hp
      exact getD_idxOf (hmem r hr p hp) 0
    rw [hid x hx, hid y hy] at hp
    exact sortNat_eq_iff.mpr hp

/-! ### blocks of a point-mapped view -/

theorem find_applyPointMap (τ : List Nat) (ct : String) :
    ∀ cells : List (String × List (List Nat)),
    (match (cells.map fun b => (b.1, b.2.map fun row => row.map fun p => τ.idxOf p)).find? (·.1 == ct) with
      | some b => b.2 | none => []) =
    List.map (fun (row : List Nat) => row.map fun p => τ.idxOf p)
      (match cells.find? (fun (x : String × List (List Nat)) => x.1 == ct) with | some b => b.2 | none => [])
  | [] => rfl
  | b :: cells => by
    simp only [List.map_cons, List.find?_cons]
    by_cases e : (b.1 == ct) = true
    · simp only [e]
    · have e' : (b.1 == ct) = false := by simpa using e
      simp only [e']
      exact find_applyPointMap τ ct cells

theorem cellsOf_applyPointMap (f : MeshFields) (τ : List Nat) (ct : String) :
    (applyPointMap f τ).mesh.cellsOf ct = (f.mesh.cellsOf ct).map fun row => row.map fun p => τ.idxOf p :=
  find_applyPointMap τ ct f.mesh.cells

/-- the identity cell maps change nothing -/
theorem applyCellMaps_id {f : MeshFields} (hwf : WFP f) : applyCellMaps f (idCellMaps f) = f := by
  have hm : (applyCellMaps f (idCellMaps f)).mesh = f.mesh := by
    unfold applyCellMaps
    simp only
    have : (f.mesh.cells.map fun b => (b.1, (idCellMaps f b.1).map fun c => b.2.getD c [])) = f.mesh.cells := by
      conv_rhs => rw [← List.map_id f.mesh.cells]
      apply List.map_congr_left
      intro b hb
      unfold idCellMaps
      rw [Fc.cellsOf_of_mem f.mesh hwf.types b hb, Fc.getD_map_range]
      rfl
    rw [this]
  have hcf : (applyCellMaps f (idCellMaps f)).cellFields = f.cellFields := by
    unfold applyCellMaps
    simp only
    conv_rhs => rw [← List.map_id f.cellFields]
    apply List.map_congr_left
    intro cf hcf
    unfold idCellMaps
    rw [permuteRows_id (hwf.cf cf hcf)]
    rfl
  have hp : (applyCellMaps f (idCellMaps f)).pointFields = f.pointFields := rfl
  cases h1 : applyCellMaps f (idCellMaps f)
  cases f
  rw [h1] at hm hp hcf
  simp only at hm hp hcf
  rw [hm, hp, hcf]

/-- a data set is the trivial relabelling of itself -/
theorem relabelF_id {f : MeshFields} (hwf : WFP f) :
    relabelF (List.range f.mesh.points.length) (idCellMaps f) f = f := by
  unfold relabelF
  have e : idCellMaps f = idCellMaps (applyPointMap f (List.range f.mesh.points.length)) := by
    rw [applyPointMap_id hwf]
  rw [e, applyPointMap_id hwf]
  exact applyCellMaps_id hwf

/-! ### hypotheses on the ONE underlying data set -/

/-- the data set with its connected points in ascending order (the canonical result of stripping) -/
abbrev baseOf (f : MeshFields) : MeshFields := applyPointMap f (specStripMap f.mesh)

/-- `f` with its connected points in the order `τ0[I0]` -/
abbrev pointSorted (f : MeshFields) (I0 : List Nat) : MeshFields :=
  applyPointMap f (I0.map ((specStripMap f.mesh).getD · 0))

/-- `WellFormed f ∧ Sep f ∧ Distinguishable f ∧` (Python's `hash` separates the cells of every type of
    the point-sorted view) — everything refers to `f` alone; `t = meshTolOf f.mesh` -/
structure BaseHyp (h : List Nat → Int) (f : MeshFields) (A B M : Nat) (c : List (List Int)) : Prop where
  wf : WFP f
  conn : specStripMap f.mesh ≠ []
  hy0 : PointHypP (meshTolOf f.mesh) A B M (baseOf f).mesh c
  hdist0 : ∀ a ∈ pitems (baseOf f).mesh, ∀ b ∈ pitems (baseOf f).mesh,
    kvec (KC A (baseOf f).mesh) (baseOf f).mesh.dim 0 a = kvec (KC A (baseOf f).mesh) (baseOf f).mesh.dim 0 b →
    kvec (KM A c argsortStable (meshTolOf f.mesh) (baseOf f).mesh) (baseOf f).mesh.dim 0 a =
      kvec (KM A c argsortStable (meshTolOf f.mesh) (baseOf f).mesh) (baseOf f).mesh.dim 0 b → a = b
  hash : ∀ I0, sortPointsIdx argsortStable (meshTolOf f.mesh) (baseOf f).mesh = some I0 →
    ∀ b ∈ (pointSorted f I0).mesh.cells, (b.2.map fun r => h (sortNat r)).Nodup

/-- the cell maps are permutations of the cell ranges -/
def CellMapsOk (f : MeshFields) (κ : String → List Nat) : Prop :=
  ∀ ct, (κ ct).Perm (List.range (f.mesh.cellsOf ct).length)

theorem CellMapsOk.block {f : MeshFields} {κ : String → List Nat} (hκ : CellMapsOk f κ) (hwf : WFP f) :
    ∀ b ∈ f.mesh.cells, (κ b.1).Perm (List.range b.2.length) := by
  intro b hb
  have := hκ b.1
  rwa [Fc.cellsOf_of_mem f.mesh hwf.types b hb] at this

theorem CellMapsOk.pointMap {f : MeshFields} {κ : String → List Nat} (hκ : CellMapsOk f κ) (τ : List Nat) :
    CellMapsOk (applyPointMap f τ) κ := by
  intro ct
  rw [cellsOf_applyPointMap, List.length_map]
  exact hκ ct

theorem idCellMaps_ok (f : MeshFields) : CellMapsOk f (idCellMaps f) := fun _ => List.Perm.refl _

section base
variable {h : List Nat → Int} {f : MeshFields} {A B M : Nat} {c : List (List Int)}

theorem BaseHyp.cellHyp (bh : BaseHyp h f A B M c) {I0 : List Nat}
    (hI0 : sortPointsIdx argsortStable (meshTolOf f.mesh) (baseOf f).mesh = some I0) :
    CellHypP h (pointSorted f I0) where
  types := by rw [cellTypes_applyPointMap]; exact bh.wf.types
  cf := by
    intro cf hcf
    rw [cellsOf_applyPointMap, List.length_map]
    exact bh.wf.cf cf hcf
  hash := bh.hash I0 hI0

/-- no two cells of a type of `f` (in ANY numbering of the points that covers the corners) share a
    vertex set -/
theorem BaseHyp.vertexSets (bh : BaseHyp h f A B M c) {ρ : List Nat} (hρ : Covers f ρ) :
    ∀ b ∈ (applyPointMap f ρ).mesh.cells, (b.2.map sortNat).Nodup := by
  obtain ⟨L, eL, pL, _⟩ := sortPointsItems_spec isArgsort_stable bh.hy0 (by
    intro e
    have : ((specStripMap f.mesh).map fun i => f.mesh.points.getD i []) = [] := e
    exact bh.conn (List.map_eq_nil_iff.mp this))
  have hI0 : sortPointsIdx argsortStable (meshTolOf f.mesh) (baseOf f).mesh = some (L.map (·.1)) := by
    unfold sortPointsIdx; rw [eL]; rfl
  -- the corners of `f` are covered by the sorted enumeration of the connected points
  have h0 := specStripMap_spec f
  have hJ : ∀ b ∈ f.mesh.cells, ∀ row ∈ b.2, ∀ p ∈ row, p ∈ (L.map (·.1)).map ((specStripMap f.mesh).getD · 0) := by
    intro b hb row hrow p hp
    have hp0 : p ∈ specStripMap f.mesh := (h0.covers bh.wf).corners b hb row hrow p hp
    have hlt : (specStripMap f.mesh).idxOf p < (specStripMap f.mesh).length := List.idxOf_lt_length_iff.mpr hp0
    have hlen0 : (baseOf f).mesh.points.length = (specStripMap f.mesh).length := by
      show ((specStripMap f.mesh).map _).length = _
      rw [List.length_map]
    have hmem : ((specStripMap f.mesh).idxOf p, (baseOf f).mesh.points.getD ((specStripMap f.mesh).idxOf p) []) ∈ L := by
      apply pL.mem_iff.mpr
      rw [pitems_eq_map]
      exact List.mem_map.mpr ⟨_, List.mem_range.mpr (by rw [hlen0]; exact hlt), rfl⟩
    exact List.mem_map.mpr ⟨(specStripMap f.mesh).idxOf p, List.mem_map.mpr ⟨_, hmem, rfl⟩, getD_idxOf hp0 0⟩
  intro b' hb'
  obtain ⟨b, hb, rfl⟩ := List.mem_map.mp hb'
  rw [vertexSets_nodup_map (hρ.corners b hb)]
  have hs := bh.hash _ hI0 (b.1, b.2.map fun row => row.map fun p =>
    ((L.map (·.1)).map ((specStripMap f.mesh).getD · 0)).idxOf p) (List.mem_map.mpr ⟨b, hb, rfl⟩)
  have h1 : (((b.2.map fun row => row.map fun p =>
      ((L.map (·.1)).map ((specStripMap f.mesh).getD · 0)).idxOf p).map sortNat).map h).Nodup := by
    rw [List.map_map]
    exact hs
  exact (vertexSets_nodup_map (hJ b hb)).mp (List.Nodup.of_map _ h1)

/-- **`_permute` of a relabelled data set**, any `argsort`: no raise; the result is `f` with the points
    in the canonical order and the cells still in the order `κ`; `PointHypP` holds for what enters the
    point sort -/
theorem permuteSide_relabelF {as : List Int → List Nat} (has : IsArgsort as) (bh : BaseHyp h f A B M c)
    {ρ : List Nat} {κ : String → List Nat} (hρ : ρ.Perm (List.range f.mesh.points.length))
    (hκ : CellMapsOk f κ) :
    ∃ I0, sortPointsIdx argsortStable (meshTolOf f.mesh) (baseOf f).mesh = some I0 ∧
      PointHypP (meshTolOf (relabelF ρ κ f).mesh) A B M (stripOrphans as (relabelF ρ κ f)).mesh c ∧
      permuteSide as {} ⟨relabelF ρ κ f, meshTolOf (relabelF ρ κ f).mesh, false⟩ =
        some ⟨applyCellMaps (pointSorted f I0) κ, meshTolOf (relabelF ρ κ f).mesh, true⟩ := by
  obtain ⟨τ, hτ, es⟩ := strip_relabelF has bh.wf hρ (hκ.block bh.wf)
  obtain ⟨I0, hI0, _, hyG, esort⟩ := sortPoints_view has bh.wf hτ κ (hκ.block bh.wf) bh.hy0 bh.hdist0 bh.conn
  refine ⟨I0, hI0, ?_, ?_⟩
  · rw [meshTolOf_relabelF κ hρ, es]
    exact hyG
  · unfold permuteSide
    simp only [Bool.false_eq_true, if_false]
    rw [es, meshTolOf_relabelF κ hρ, esort]
    rfl

/-- `sort_points ∘ strip_orphan_points` of a relabelled data set, any `argsort` -/
theorem sortPoints_relabelF {as : List Int → List Nat} (has : IsArgsort as) (bh : BaseHyp h f A B M c)
    {ρ : List Nat} {κ : String → List Nat} (hρ : ρ.Perm (List.range f.mesh.points.length))
    (hκ : CellMapsOk f κ) :
    ∃ I0, sortPointsIdx argsortStable (meshTolOf f.mesh) (baseOf f).mesh = some I0 ∧
      sortPoints as (meshTolOf (relabelF ρ κ f).mesh) (stripOrphans as (relabelF ρ κ f)) =
        some (applyCellMaps (pointSorted f I0) κ) := by
  obtain ⟨τ, hτ, es⟩ := strip_relabelF has bh.wf hρ (hκ.block bh.wf)
  obtain ⟨I0, hI0, _, _, esort⟩ := sortPoints_view has bh.wf hτ κ (hκ.block bh.wf) bh.hy0 bh.hdist0 bh.conn
  exact ⟨I0, hI0, by rw [es, meshTolOf_relabelF κ hρ, esort]⟩

/-- **the fully sorted view of a relabelled data set does not depend on the relabelling or on the
    `argsort` routines** -/
theorem sorted_relabelF {as as' : List Int → List Nat} (has : IsArgsort as) (has' : IsArgsort as')
    (bh : BaseHyp h f A B M c) {κ : String → List Nat} (hκ : CellMapsOk f κ) {I0 : List Nat}
    (hI0 : sortPointsIdx argsortStable (meshTolOf f.mesh) (baseOf f).mesh = some I0) :
    sortCells as h (applyCellMaps (pointSorted f I0) κ) = sortCells as' h (pointSorted f I0) :=
  sortCells_view has has' h (bh.cellHyp hI0) (hκ.pointMap _)

end base
/-- **soundness of the decidable hypothesis** `Spec.baseHyp` (what can be evaluated per case) -/
theorem baseHyp_sound {h : List Nat → Int} {f : MeshFields} (hb : baseHyp h f = true) :
    BaseHyp h f (sepA (meshTolOf f.mesh)) (sepB (meshTolOf f.mesh))
      (pointData (sepA (meshTolOf f.mesh)) (baseOf f).mesh).M
      (pointData (sepA (meshTolOf f.mesh)) (baseOf f).mesh).cands := by
  unfold baseHyp at hb
  simp only [Bool.and_eq_true, Bool.not_eq_true', decide_eq_true_eq] at hb
  obtain ⟨⟨⟨⟨⟨hwf, hty⟩, hcf⟩, hne⟩, hpt⟩, hhash⟩ := hb
  have hwf2 : f.wf2 = true := by
    unfold MeshFields.wf2
    simp only [Bool.and_eq_true, decide_eq_true_eq]
    exact ⟨⟨hwf, hty⟩, hcf⟩
  unfold pointHyp at hpt
  simp only [Bool.and_eq_true] at hpt
  refine ⟨Fc.wf2_WFP f hwf2, ?_, pointSep_sound hpt.1.2, distinguishable_sound hpt.2, ?_⟩
  · intro e
    rw [e] at hne
    simp at hne
  · intro I0 hI0 b hbm
    show (b.2.map fun r => h (sortNat r)).Nodup
    rw [hI0] at hhash
    simp only [List.all_eq_true, decide_eq_true_eq] at hhash
    exact hhash b hbm

end Fc.C02
