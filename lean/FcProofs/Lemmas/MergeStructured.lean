/-
  Helper lemmas for property C06 (structured merger): tuples below a shape, mixed-radix flat
  index, per-axis offset arithmetic, covering / injectivity of `pieceEntityIndices`, `scatter`.
-/
import FcModel.Spec.C06
namespace Fc.C06

/-- component-wise `<` of an index tuple and a shape of the same length -/
def AllLt : List Nat → List Nat → Prop
  | [], [] => True
  | i :: t, n :: s => i < n ∧ AllLt t s
  | _, _ => False

theorem mem_locationsIn (shape t : List Nat) : t ∈ locationsIn shape ↔ AllLt t shape := by
  induction shape generalizing t with
  | nil => cases t <;> simp [locationsIn, AllLt]
  | cons n rest ih =>
    simp only [locationsIn, List.mem_flatMap, List.mem_map, List.mem_range]
    constructor
    · rintro ⟨t', ht', i, hi, rfl⟩
      exact ⟨hi, (ih t').mp ht'⟩
    · intro h
      cases t with
      | nil => simp [AllLt] at h
      | cons i t' => exact ⟨t', (ih t').mpr h.2, i, h.1, rfl⟩

/-! ### mixed-radix flat index -/

theorem flatIndexGo_mul (shape off it : List Nat) (m : Nat) :
    flatIndexGo shape off it m = m * flatIndexGo shape off it 1 := by
  induction shape generalizing off it m with
  | nil => simp [flatIndexGo]
  | cons s shape ih =>
    cases off with
    | nil => simp [flatIndexGo]
    | cons o off =>
      cases it with
      | nil => simp [flatIndexGo]
      | cons i it =>
        simp only [flatIndexGo]
        rw [ih off it (m * s), ih off it (1 * s)]
        simp only [Nat.one_mul, Nat.mul_one]
        rw [Nat.mul_add, Nat.mul_assoc, Nat.mul_comm m (i + o)]

theorem flatIndex_cons (s o i : Nat) (shape off it : List Nat) :
    flatIndex (s :: shape) (o :: off) (i :: it) = (i + o) + s * flatIndex shape off it := by
  simp only [flatIndex, flatIndexGo, Nat.mul_one, Nat.one_mul]
  rw [flatIndexGo_mul]

theorem flatIndex_nil : flatIndex [] [] [] = 0 := rfl

theorem prodShape_cons (x : Nat) (xs : List Nat) : prodShape (x :: xs) = x * prodShape xs := rfl
theorem sumList_cons (x : Nat) (xs : List Nat) : sumList (x :: xs) = x + sumList xs := rfl

theorem radix_lt {a s b P : Nat} (ha : a < s) (hb : b < P) : a + s * b < s * P := by
  have h1 : s * (b + 1) ≤ s * P := Nat.mul_le_mul_left s hb
  rw [Nat.mul_succ] at h1
  omega

theorem radix_inj {a a' s G G' : Nat} (ha : a < s) (ha' : a' < s) (h : a + s * G = a' + s * G') :
    a = a' ∧ G = G' := by
  have hs : 0 < s := by omega
  have h1 : (a + s * G) % s = a := by rw [Nat.add_mul_mod_self_left, Nat.mod_eq_of_lt ha]
  have h2 : (a' + s * G') % s = a' := by rw [Nat.add_mul_mod_self_left, Nat.mod_eq_of_lt ha']
  have h3 : (a + s * G) / s = G := by rw [Nat.add_mul_div_left _ _ hs, Nat.div_eq_of_lt ha, Nat.zero_add]
  have h4 : (a' + s * G') / s = G' := by rw [Nat.add_mul_div_left _ _ hs, Nat.div_eq_of_lt ha', Nat.zero_add]
  rw [h] at h1 h3
  exact ⟨h1.symm.trans h2, h3.symm.trans h4⟩

/-! ### one axis: pieces `b` with `ns[b]` cells, offsets `sumList (ns.take b)` -/

theorem axis_cover (add : Nat) (ns : List Nat) (h : add = 0 ∨ ns ≠ []) (g : Nat)
    (hg : g < sumList ns + add) :
    ∃ b i, b < ns.length ∧ i < ns.getD b 0 + add ∧ sumList (ns.take b) + i = g := by
  induction ns generalizing g with
  | nil =>
    rcases h with h | h
    · subst h; simp [sumList] at hg
    · exact absurd rfl h
  | cons n ns ih =>
    rw [sumList_cons] at hg
    by_cases hlt : g < n + add
    · exact ⟨0, g, by simp, by simpa using hlt, by simp [sumList]⟩
    · have hne : ns ≠ [] := by
        intro he; subst he; simp [sumList] at hg; omega
      obtain ⟨b, i, hb, hi, hs⟩ := ih (Or.inr hne) (g - n) (by omega)
      refine ⟨b + 1, i, by simpa using hb, by simpa using hi, ?_⟩
      simp only [List.take_succ_cons, sumList_cons]
      omega

theorem axis_bound (ns : List Nat) (b : Nat) (hb : b < ns.length) :
    sumList (ns.take b) + ns.getD b 0 ≤ sumList ns := by
  induction ns generalizing b with
  | nil => simp at hb
  | cons n ns ih =>
    cases b with
    | zero => simp [sumList]
    | succ b =>
      have := ih b (by simpa using hb)
      simp only [List.take_succ_cons, sumList_cons, List.getD_cons_succ]
      omega

theorem axis_inj (ns : List Nat) (b b' i i' : Nat) (hb : b < ns.length) (hb' : b' < ns.length)
    (hi : i < ns.getD b 0) (hi' : i' < ns.getD b' 0)
    (h : sumList (ns.take b) + i = sumList (ns.take b') + i') : b = b' ∧ i = i' := by
  induction ns generalizing b b' with
  | nil => simp at hb
  | cons n ns ih =>
    cases b with
    | zero =>
      cases b' with
      | zero => simp [sumList] at h; exact ⟨rfl, h⟩
      | succ b' =>
        simp only [List.take_zero, sumList, List.foldr_nil, Nat.zero_add, List.take_succ_cons,
          List.foldr_cons, List.getD_cons_zero] at h hi
        omega
    | succ b =>
      cases b' with
      | zero =>
        simp only [List.take_zero, sumList, List.foldr_nil, Nat.zero_add, List.take_succ_cons,
          List.foldr_cons, List.getD_cons_zero] at h hi'
        omega
      | succ b' =>
        simp only [List.take_succ_cons, sumList_cons, List.getD_cons_succ] at h hi hi'
        have := ih b b' (by simpa using hb) (by simpa using hb') hi hi' (by omega)
        exact ⟨by omega, this.2⟩

/-! ### all axes -/

/-- entity-block shape with `add = 0` (cells) or `1` (points) -/
def eShape (add : Nat) (cs : List Nat) : List Nat := cs.map (· + add)
def mShape (add : Nat) (d : List (List Nat)) : List Nat := d.map fun ns => sumList ns + add

theorem entityShape_eq (isPoint : Bool) (cs : List Nat) :
    entityShape isPoint cs = eShape (if isPoint then 1 else 0) cs := by
  cases isPoint <;> simp [entityShape, eShape]

theorem mergedShape_eq (isPoint : Bool) (d : List (List Nat)) :
    mergedShape isPoint d = mShape (if isPoint then 1 else 0) d := by
  cases isPoint <;> simp [mergedShape, mShape, mergedPointShape, mergedCellShape]

theorem structured_cover (add : Nat) (d : List (List Nat)) (h : add = 0 ∨ ∀ ns ∈ d, ns ≠ [])
    (g : Nat) (hg : g < prodShape (mShape add d)) :
    ∃ loc it, AllLt loc (piecesShape d) ∧ AllLt it (eShape add (pieceShape d loc)) ∧
      flatIndex (mShape add d) (pieceOffsets d loc) it = g := by
  induction d generalizing g with
  | nil =>
    refine ⟨[], [], trivial, trivial, ?_⟩
    simp only [mShape, List.map_nil, prodShape, List.foldr_nil] at hg
    simp only [mShape, List.map_nil, pieceOffsets, flatIndex_nil]; omega
  | cons ns d ih =>
    simp only [mShape, List.map_cons, prodShape_cons] at hg
    have hs : 0 < sumList ns + add := by
      rcases Nat.eq_zero_or_pos (sumList ns + add) with h0 | h0
      · rw [h0, Nat.zero_mul] at hg; omega
      · exact h0
    have hg' : g / (sumList ns + add) < prodShape (mShape add d) :=
      Nat.div_lt_of_lt_mul hg
    obtain ⟨loc, it, hloc, hit, hflat⟩ := ih
      (h.elim Or.inl fun h' => Or.inr fun x hx => h' x (List.mem_cons_of_mem _ hx)) _ hg'
    obtain ⟨b, i, hb, hi, hsum⟩ := axis_cover add ns
      (h.elim Or.inl fun h' => Or.inr (h' ns (List.mem_cons_self ..))) (g % (sumList ns + add))
      (Nat.mod_lt _ hs)
    refine ⟨b :: loc, i :: it, ⟨hb, hloc⟩, ⟨hi, hit⟩, ?_⟩
    simp only [mShape, List.map_cons, pieceOffsets, flatIndex_cons]
    simp only [mShape] at hflat
    rw [hflat, Nat.add_comm i, hsum]
    exact Nat.mod_add_div g _

theorem structured_in_range (add : Nat) (d : List (List Nat)) (loc it : List Nat)
    (hloc : AllLt loc (piecesShape d)) (hit : AllLt it (eShape add (pieceShape d loc))) :
    flatIndex (mShape add d) (pieceOffsets d loc) it < prodShape (mShape add d) := by
  induction d generalizing loc it with
  | nil =>
    cases loc with
    | nil => cases it with
      | nil => simp [mShape, pieceOffsets, flatIndex_nil, prodShape]
      | cons _ _ => simp [eShape, pieceShape, AllLt] at hit
    | cons _ _ => simp [piecesShape, AllLt] at hloc
  | cons ns d ih =>
    cases loc with
    | nil => simp [piecesShape, AllLt] at hloc
    | cons b loc =>
      cases it with
      | nil => simp [eShape, pieceShape, AllLt] at hit
      | cons i it =>
        simp only [piecesShape, List.map_cons, AllLt] at hloc
        simp only [eShape, pieceShape, List.map_cons, AllLt] at hit
        have := ih loc it hloc.2 hit.2
        simp only [mShape, List.map_cons, pieceOffsets, flatIndex_cons, prodShape_cons]
        simp only [mShape] at this
        have hb := axis_bound ns b hloc.1
        exact radix_lt (by omega) this

theorem structured_inj (d : List (List Nat)) (loc loc' it it' : List Nat)
    (hloc : AllLt loc (piecesShape d)) (hloc' : AllLt loc' (piecesShape d))
    (hit : AllLt it (pieceShape d loc)) (hit' : AllLt it' (pieceShape d loc'))
    (h : flatIndex (mShape 0 d) (pieceOffsets d loc) it = flatIndex (mShape 0 d) (pieceOffsets d loc') it') :
    loc = loc' ∧ it = it' := by
  induction d generalizing loc loc' it it' with
  | nil =>
    cases loc <;> cases loc' <;> cases it <;> cases it' <;>
      simp_all [piecesShape, pieceShape, AllLt]
  | cons ns d ih =>
    cases loc with
    | nil => simp [piecesShape, AllLt] at hloc
    | cons b loc =>
      cases loc' with
      | nil => simp [piecesShape, AllLt] at hloc'
      | cons b' loc' =>
        cases it with
        | nil => simp [pieceShape, AllLt] at hit
        | cons i it =>
          cases it' with
          | nil => simp [pieceShape, AllLt] at hit'
          | cons i' it' =>
            simp only [piecesShape, List.map_cons, AllLt] at hloc hloc'
            simp only [pieceShape, AllLt] at hit hit'
            simp only [mShape, List.map_cons, pieceOffsets, flatIndex_cons, Nat.add_zero] at h
            have hb := axis_bound ns b hloc.1
            have hb' := axis_bound ns b' hloc'.1
            obtain ⟨h1, h2⟩ := radix_inj (by omega) (by omega) h
            obtain ⟨e1, e2⟩ := axis_inj ns b b' i i' hloc.1 hloc'.1 hit.1 hit'.1 (by omega)
            have h2' : flatIndex (mShape 0 d) (pieceOffsets d loc) it =
                flatIndex (mShape 0 d) (pieceOffsets d loc') it' := by
              simpa [mShape] using h2
            obtain ⟨e3, e4⟩ := ih loc loc' it it' hloc.2 hloc'.2 hit.2 hit'.2 h2'
            subst e1 e2 e3 e4
            exact ⟨rfl, rfl⟩

/-! ### membership in `pieceEntityIndices`, the list of all cell indices -/

theorem mem_pieceEntityIndices (isPoint : Bool) (d : List (List Nat)) (loc : List Nat) (g : Nat) :
    g ∈ pieceEntityIndices isPoint d loc ↔
      ∃ it, AllLt it (eShape (if isPoint then 1 else 0) (pieceShape d loc)) ∧
        flatIndex (mShape (if isPoint then 1 else 0) d) (pieceOffsets d loc) it = g := by
  unfold pieceEntityIndices
  rw [entityShape_eq, mergedShape_eq]
  simp only [List.mem_map, mem_locationsIn]

theorem eShape_zero (cs : List Nat) : eShape 0 cs = cs := by simp [eShape]

theorem locationsIn_nodup (shape : List Nat) : (locationsIn shape).Nodup := by
  induction shape with
  | nil => simp [locationsIn]
  | cons n rest ih =>
    rw [List.nodup_iff_pairwise_ne] at ih ⊢
    simp only [locationsIn]
    rw [List.pairwise_flatMap]
    refine ⟨?_, ?_⟩
    · intro t _
      rw [List.pairwise_map]
      exact (List.nodup_iff_pairwise_ne.mp List.nodup_range).imp (by intro a b hab h; simp at h; exact hab h)
    · refine ih.imp ?_
      intro t1 t2 hne x hx y hy hxy
      simp only [List.mem_map] at hx hy
      obtain ⟨i, _, rfl⟩ := hx
      obtain ⟨j, _, hj⟩ := hy
      rw [← hj] at hxy
      simp only [List.cons.injEq] at hxy
      exact hne hxy.2

/-- all cell indices written by all pieces, in writing order -/
def allCellIndices (d : List (List Nat)) : List Nat :=
  (locationsIn (piecesShape d)).flatMap (pieceEntityIndices false d)

theorem allCellIndices_nodup (d : List (List Nat)) : (allCellIndices d).Nodup := by
  rw [List.nodup_iff_pairwise_ne]
  unfold allCellIndices
  rw [List.pairwise_flatMap]
  refine ⟨?_, ?_⟩
  · intro loc hloc
    unfold pieceEntityIndices
    rw [List.pairwise_map]
    refine List.Pairwise.imp_of_mem ?_ (List.nodup_iff_pairwise_ne.mp (locationsIn_nodup _))
    intro it it' hit hit' hne heq
    rw [entityShape_eq, mem_locationsIn] at hit hit'
    rw [mergedShape_eq] at heq
    simp only [Bool.false_eq_true, if_false, eShape_zero] at hit hit' heq
    exact hne (structured_inj d loc loc it it' ((mem_locationsIn _ _).mp hloc)
      ((mem_locationsIn _ _).mp hloc) hit hit' heq).2
  · refine List.Pairwise.imp_of_mem ?_ (List.nodup_iff_pairwise_ne.mp (locationsIn_nodup _))
    intro loc loc' hloc hloc' hne x hx y hy hxy
    rw [mem_pieceEntityIndices] at hx hy
    obtain ⟨it, hit, rfl⟩ := hx
    obtain ⟨it', hit', hy⟩ := hy
    simp only [Bool.false_eq_true, if_false, eShape_zero] at hit hit' hy hxy
    exact hne (structured_inj d loc loc' it it' ((mem_locationsIn _ _).mp hloc)
      ((mem_locationsIn _ _).mp hloc') hit hit' (hxy.trans hy.symm)).1

theorem mem_allCellIndices (d : List (List Nat)) (g : Nat) :
    g ∈ allCellIndices d ↔ g < prodShape (mergedCellShape d) := by
  have hm : mergedCellShape d = mShape 0 d := by simp [mergedCellShape, mShape]
  unfold allCellIndices
  simp only [List.mem_flatMap, mem_pieceEntityIndices, Bool.false_eq_true, if_false, mem_locationsIn]
  constructor
  · rintro ⟨loc, hloc, it, hit, rfl⟩
    rw [hm]
    exact structured_in_range 0 d loc it hloc hit
  · intro hg
    rw [hm] at hg
    obtain ⟨loc, it, hloc, hit, hflat⟩ := structured_cover 0 d (Or.inl rfl) g hg
    exact ⟨loc, hloc, it, hit, hflat⟩

theorem allCellIndices_perm (d : List (List Nat)) :
    (allCellIndices d).Perm (List.range (prodShape (mergedCellShape d))) := by
  rw [List.perm_iff_count]
  intro g
  rw [(allCellIndices_nodup d).count, List.nodup_range.count]
  simp only [mem_allCellIndices, List.mem_range]

/-! ### `scatter` and the merge loop -/

theorem scatter_cons {α} (acc : List α) (i : Nat) (idx : List Nat) (v : α) (vals : List α) :
    scatter acc (i :: idx) (v :: vals) = scatter (acc.set i v) idx vals := by
  simp [scatter]

theorem scatter_length {α} (acc : List α) (idx : List Nat) (vals : List α) :
    (scatter acc idx vals).length = acc.length := by
  induction idx generalizing acc vals with
  | nil => simp [scatter]
  | cons i idx ih =>
    cases vals with
    | nil => simp [scatter]
    | cons v vals => rw [scatter_cons, ih]; simp

/-- writing values of a global field `G` keeps every position that already agrees with `G` and
    makes every written position agree with `G` -/
theorem scatter_agree {α} (G : Nat → α) (idx : List Nat) (acc : List α) (P : Nat → Prop)
    (hP : ∀ g, P g → acc[g]? = some (G g)) (g : Nat)
    (hg : P g ∨ (g ∈ idx ∧ g < acc.length)) :
    (scatter acc idx (idx.map G))[g]? = some (G g) := by
  induction idx generalizing acc P with
  | nil =>
    rcases hg with hg | hg
    · simpa [scatter] using hP g hg
    · simp at hg
  | cons i idx ih =>
    simp only [List.map_cons, scatter_cons]
    apply ih (acc.set i (G i)) (fun g => P g ∨ (g = i ∧ i < acc.length))
    · intro g' hg'
      rw [List.getElem?_set]
      by_cases hig : i = g'
      · subst hig
        rcases hg' with h | h
        · have := hP i h
          have hi : i < acc.length := by
            cases Nat.lt_or_ge i acc.length with
            | inl h' => exact h'
            | inr h' => rw [List.getElem?_eq_none h'] at this; cases this
          simp [hi]
        · simp [h.2]
      · simp only [hig, if_false]
        rcases hg' with h | h
        · exact hP g' h
        · exact absurd h.1.symm hig
    · rcases hg with hg | ⟨hmem, hlt⟩
      · exact Or.inl (Or.inl hg)
      · rcases List.mem_cons.mp hmem with rfl | h
        · exact Or.inl (Or.inr ⟨rfl, hlt⟩)
        · exact Or.inr ⟨h, by simpa using hlt⟩

theorem mergeLoop_length {α} (idxOf : List Nat → List Nat) (cb : List Nat → List α)
    (locs : List (List Nat)) (acc : List α) :
    (locs.foldl (fun acc loc => scatter acc (idxOf loc) (cb loc)) acc).length = acc.length := by
  induction locs generalizing acc with
  | nil => rfl
  | cons loc locs ih => simp only [List.foldl_cons]; rw [ih, scatter_length]

theorem mergeLoop_agree {α} (G : Nat → α) (idxOf : List Nat → List Nat) (cb : List Nat → List α)
    (locs : List (List Nat)) (hcb : ∀ loc ∈ locs, cb loc = (idxOf loc).map G)
    (acc : List α) (P : Nat → Prop) (hP : ∀ g, P g → acc[g]? = some (G g)) (g : Nat)
    (hg : P g ∨ (g < acc.length ∧ ∃ loc ∈ locs, g ∈ idxOf loc)) :
    (locs.foldl (fun acc loc => scatter acc (idxOf loc) (cb loc)) acc)[g]? = some (G g) ∧
    (locs.foldl (fun acc loc => scatter acc (idxOf loc) (cb loc)) acc).length = acc.length := by
  induction locs generalizing acc P with
  | nil =>
    rcases hg with hg | ⟨_, loc, hloc, _⟩
    · exact ⟨by simpa using hP g hg, rfl⟩
    · simp at hloc
  | cons loc locs ih =>
    simp only [List.foldl_cons]
    have hcb' := hcb loc (List.mem_cons_self ..)
    rw [hcb']
    have hlen := scatter_length acc (idxOf loc) ((idxOf loc).map G)
    have := ih (fun l hl => hcb l (List.mem_cons_of_mem _ hl))
      (scatter acc (idxOf loc) ((idxOf loc).map G))
      (fun g => P g ∨ (g ∈ idxOf loc ∧ g < acc.length))
      (fun g' hg' => scatter_agree G (idxOf loc) acc P hP g' hg')
      (by
        rcases hg with hg | ⟨hlt, l, hl, hgl⟩
        · exact Or.inl (Or.inl hg)
        · rcases List.mem_cons.mp hl with rfl | hl'
          · exact Or.inl (Or.inr ⟨hgl, hlt⟩)
          · exact Or.inr ⟨by rw [hlen]; exact hlt, l, hl', hgl⟩)
    exact ⟨this.1, this.2.trans hlen⟩


/-- pieces carrying restrictions of one global field merge to the whole field -/
theorem mergeStructured_whole {α} (isPoint : Bool) (d : List (List Nat))
    (hne : isPoint = false ∨ ∀ ns ∈ d, ns ≠ []) (G : Nat → α) (cb : List Nat → List α) (zero : α)
    (hcb : ∀ loc ∈ locationsIn (piecesShape d), cb loc = (pieceEntityIndices isPoint d loc).map G) :
    mergeStructured isPoint d cb zero = (List.range (prodShape (mergedShape isPoint d))).map G := by
  apply List.ext_getElem?
  intro g
  unfold mergeStructured
  by_cases hg : g < prodShape (mergedShape isPoint d)
  · have hcov : ∃ loc ∈ locationsIn (piecesShape d), g ∈ pieceEntityIndices isPoint d loc := by
      rw [mergedShape_eq] at hg
      obtain ⟨loc, it, hloc, hit, hflat⟩ := structured_cover (if isPoint then 1 else 0) d
        (hne.elim (fun h => Or.inl (by simp [h])) Or.inr) g hg
      exact ⟨loc, (mem_locationsIn _ _).mpr hloc,
        (mem_pieceEntityIndices isPoint d loc g).mpr ⟨it, hit, hflat⟩⟩
    have := (mergeLoop_agree G (pieceEntityIndices isPoint d) cb (locationsIn (piecesShape d)) hcb
      (List.replicate (prodShape (mergedShape isPoint d)) zero) (fun _ => False)
      (fun _ h => h.elim) g (Or.inr ⟨by simpa using hg, hcov⟩)).1
    rw [this]
    simp [hg]
  · have hlen := mergeLoop_length (pieceEntityIndices isPoint d) cb (locationsIn (piecesShape d))
      (List.replicate (prodShape (mergedShape isPoint d)) zero)
    rw [List.getElem?_eq_none (by rw [hlen]; simpa using hg), List.getElem?_eq_none (by simpa using hg)]

theorem pieceEntityIndices_lt (isPoint : Bool) (d : List (List Nat)) (loc : List Nat)
    (hloc : loc ∈ locationsIn (piecesShape d)) (g : Nat) (hg : g ∈ pieceEntityIndices isPoint d loc) :
    g < prodShape (mergedShape isPoint d) := by
  obtain ⟨it, hit, rfl⟩ := (mem_pieceEntityIndices isPoint d loc g).mp hg
  rw [mergedShape_eq]
  exact structured_in_range _ d loc it ((mem_locationsIn _ _).mp hloc) hit

end Fc.C06
