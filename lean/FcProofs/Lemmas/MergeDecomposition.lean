/-
  Helper lemmas for property C06: `np.unique` as sorted-distinct list, recovery of the pieces per
  axis from the piece extents (one axis).
-/
import FcModel.Spec.C06
import FcProofs.Lemmas.MergeStructured
namespace Fc.C06

theorem mem_insertSortedDistinct (x y : Int) (l : List Int) :
    y ∈ insertSortedDistinct x l ↔ y = x ∨ y ∈ l := by
  induction l with
  | nil => simp [insertSortedDistinct]
  | cons z r ih =>
    simp only [insertSortedDistinct]
    split
    · simp
    · split
      · rename_i h; subst h; simp
      · simp only [List.mem_cons, ih]
        constructor
        · rintro (h | h | h)
          · exact Or.inr (Or.inl h)
          · exact Or.inl h
          · exact Or.inr (Or.inr h)
        · rintro (h | h | h)
          · exact Or.inr (Or.inl h)
          · exact Or.inl h
          · exact Or.inr (Or.inr h)

theorem insertSortedDistinct_sorted (x : Int) (l : List Int) (h : l.Pairwise (· < ·)) :
    (insertSortedDistinct x l).Pairwise (· < ·) := by
  induction l with
  | nil => simp [insertSortedDistinct]
  | cons z r ih =>
    rw [List.pairwise_cons] at h
    simp only [insertSortedDistinct]
    split
    · rename_i hxz
      rw [List.pairwise_cons]
      refine ⟨?_, List.pairwise_cons.mpr h⟩
      intro y hy
      rcases List.mem_cons.mp hy with rfl | hy
      · exact hxz
      · have := h.1 y hy; omega
    · split
      · exact List.pairwise_cons.mpr h
      · rename_i h1 h2
        rw [List.pairwise_cons]
        refine ⟨?_, ih h.2⟩
        intro y hy
        rcases (mem_insertSortedDistinct x y r).mp hy with rfl | hy
        · omega
        · exact h.1 y hy

theorem mem_uniqueSorted (l : List Int) (y : Int) : y ∈ uniqueSorted l ↔ y ∈ l := by
  induction l with
  | nil => simp [uniqueSorted]
  | cons x r ih =>
    simp only [uniqueSorted, List.foldr_cons, mem_insertSortedDistinct, List.mem_cons]
    simp only [uniqueSorted] at ih
    rw [ih]

theorem uniqueSorted_sorted (l : List Int) : (uniqueSorted l).Pairwise (· < ·) := by
  induction l with
  | nil => simp [uniqueSorted]
  | cons x r ih =>
    simp only [uniqueSorted, List.foldr_cons]
    exact insertSortedDistinct_sorted x _ ih

/-- strictly increasing lists with the same members are equal -/
theorem sorted_ext (l1 l2 : List Int) (h1 : l1.Pairwise (· < ·)) (h2 : l2.Pairwise (· < ·))
    (hm : ∀ y, y ∈ l1 ↔ y ∈ l2) : l1 = l2 := by
  induction l1 generalizing l2 with
  | nil =>
    cases l2 with
    | nil => rfl
    | cons y r => exact absurd ((hm y).mpr (List.mem_cons_self ..)) (by simp)
  | cons x r ih =>
    cases l2 with
    | nil => exact absurd ((hm x).mp (List.mem_cons_self ..)) (by simp)
    | cons y s =>
      rw [List.pairwise_cons] at h1 h2
      have hxy : x = y := by
        have hx := (hm x).mp (List.mem_cons_self ..)
        have hy := (hm y).mpr (List.mem_cons_self ..)
        rcases List.mem_cons.mp hx with h | h
        · exact h
        · rcases List.mem_cons.mp hy with h' | h'
          · exact h'.symm
          · have := h2.1 x h; have := h1.1 y h'; omega
      subst hxy
      congr 1
      apply ih s h1.2 h2.2
      intro z
      constructor
      · intro hz
        rcases List.mem_cons.mp ((hm z).mp (List.mem_cons_of_mem _ hz)) with h | h
        · have := h1.1 z hz; omega
        · exact h
      · intro hz
        rcases List.mem_cons.mp ((hm z).mpr (List.mem_cons_of_mem _ hz)) with h | h
        · have := h2.1 z hz; omega
        · exact h

theorem uniqueSorted_eq (l L : List Int) (hL : L.Pairwise (· < ·)) (hm : ∀ y, y ∈ l ↔ y ∈ L) :
    uniqueSorted l = L :=
  sorted_ext _ _ (uniqueSorted_sorted l) hL (fun y => (mem_uniqueSorted l y).trans (hm y))

/-! ### one axis of an axis-aligned decomposition -/

/-- first / one-past-last lattice index of piece `b` along an axis cut into `ns`, grid starting at `o` -/
def axisBegin (o : Int) (ns : List Nat) (b : Nat) : Int := o + (sumList (ns.take b) : Nat)
def axisEnd (o : Int) (ns : List Nat) (b : Nat) : Int := o + (sumList (ns.take (b + 1)) : Nat)

theorem sumList_take_succ (ns : List Nat) (b : Nat) (hb : b < ns.length) :
    sumList (ns.take (b + 1)) = sumList (ns.take b) + ns.getD b 0 := by
  induction ns generalizing b with
  | nil => simp at hb
  | cons n ns ih =>
    cases b with
    | zero => simp [sumList]
    | succ b =>
      simp only [List.take_succ_cons, sumList_cons, List.getD_cons_succ]
      rw [ih b (by simpa using hb)]
      omega

theorem getD_pos (ns : List Nat) (hpos : ∀ n ∈ ns, 0 < n) (b : Nat) (hb : b < ns.length) :
    0 < ns.getD b 0 := by
  rw [List.getD_eq_getElem?_getD, List.getElem?_eq_getElem hb]
  exact hpos _ (List.getElem_mem hb)

theorem sumList_take_strict (ns : List Nat) (hpos : ∀ n ∈ ns, 0 < n) (a b : Nat) (hab : a < b)
    (hb : b ≤ ns.length) : sumList (ns.take a) < sumList (ns.take b) := by
  induction b with
  | zero => omega
  | succ b ih =>
    have hstep := sumList_take_succ ns b (by omega)
    have hp := getD_pos ns hpos b (by omega)
    by_cases h : a = b
    · subst h; omega
    · have := ih (by omega) (by omega); omega

theorem range_map_sorted (f : Nat → Int) (n : Nat) (hf : ∀ a b, a < b → b < n → f a < f b) :
    ((List.range n).map f).Pairwise (· < ·) := by
  rw [List.pairwise_map]
  refine List.Pairwise.imp_of_mem ?_ List.pairwise_lt_range
  intro a b _ hb hab
  exact hf a b hab (by simpa using hb)

theorem idxOf_range_map (f : Nat → Int) (n b : Nat) (hb : b < n)
    (hinj : ∀ a, a < b → f a ≠ f b) : ((List.range n).map f).idxOf (f b) = b := by
  induction n generalizing b f with
  | zero => omega
  | succ n ih =>
    rw [List.range_succ_eq_map, List.map_cons, List.map_map]
    cases b with
    | zero => simp
    | succ b =>
      rw [List.idxOf_cons]
      have : (f 0 == f (b + 1)) = false := by simpa using hinj 0 (by omega)
      rw [this]
      simp only [cond_false]
      have := ih (f ∘ Nat.succ) b (by omega) (fun a ha => hinj (a + 1) (by omega))
      simpa [Function.comp] using this

theorem zipWith_map_same {α β γ δ} (f : β → γ → δ) (g : α → β) (h : α → γ) (l : List α) :
    List.zipWith f (l.map g) (l.map h) = l.map fun x => f (g x) (h x) := by
  induction l with
  | nil => rfl
  | cons x r ih => simp [ih]

theorem range_map_getD (ns : List Nat) :
    (List.range ns.length).map (fun b => ((ns.getD b 0 : Nat) : Int)) = ns.map Int.ofNat := by
  apply List.ext_getElem?
  intro i
  simp only [List.getElem?_map]
  by_cases hi : i < ns.length
  · simp [hi, List.getD_eq_getElem?_getD]
  · simp [hi]

/-- strictly increasing begins / ends along an axis: every piece has at least one cell, or the axis
    has at most one piece (flat direction: the single entry 0) -/
theorem sumList_take_strict' (ns : List Nat) (h : ns.length ≤ 1 ∨ ∀ n ∈ ns, 0 < n) (a b : Nat) (hab : a < b)
    (hb : b < ns.length) :
    sumList (ns.take a) < sumList (ns.take b) ∧ sumList (ns.take (a + 1)) < sumList (ns.take (b + 1)) := by
  rcases h with h | h
  · omega
  · exact ⟨sumList_take_strict ns h a b hab (by omega),
      sumList_take_strict ns h (a + 1) (b + 1) (by omega) (by omega)⟩

/-- recovery of one axis from the multiset of piece extents along it, pieces listed in any order -/
theorem axis_recovery (o : Int) (ns : List Nat) (hpos : ns.length ≤ 1 ∨ ∀ n ∈ ns, 0 < n) (bs : List Nat)
    (hbs : ∀ b, b ∈ bs ↔ b < ns.length) :
    uniqueSorted (bs.map (axisBegin o ns)) = (List.range ns.length).map (axisBegin o ns) ∧
    uniqueSorted (bs.map (axisEnd o ns)) = (List.range ns.length).map (axisEnd o ns) := by
  constructor
  · apply uniqueSorted_eq
    · apply range_map_sorted
      intro a b hab hb
      have := (sumList_take_strict' ns hpos a b hab hb).1
      simp only [axisBegin]; omega
    · intro y
      simp only [List.mem_map, List.mem_range, hbs]
  · apply uniqueSorted_eq
    · apply range_map_sorted
      intro a b hab hb
      have := (sumList_take_strict' ns hpos a b hab hb).2
      simp only [axisEnd]; omega
    · intro y
      simp only [List.mem_map, List.mem_range, hbs]

/-- differences of the recovered ends and begins = the cells per piece; `.index(begin)` = the position -/
theorem axis_sizes_idx (o : Int) (ns : List Nat) (hpos : ns.length ≤ 1 ∨ ∀ n ∈ ns, 0 < n) :
    List.zipWith (fun e b => e - b) ((List.range ns.length).map (axisEnd o ns))
        ((List.range ns.length).map (axisBegin o ns)) = ns.map Int.ofNat ∧
    ∀ b, b < ns.length → ((List.range ns.length).map (axisBegin o ns)).idxOf (axisBegin o ns b) = b := by
  constructor
  · rw [zipWith_map_same, ← range_map_getD]
    apply List.map_congr_left
    intro b hb'
    simp only [List.mem_range] at hb'
    simp only [axisEnd, axisBegin, sumList_take_succ ns b hb']
    omega
  · intro b hb'
    apply idxOf_range_map _ _ _ hb'
    intro a hab
    have := (sumList_take_strict' ns hpos a b hab hb').1
    simp only [axisBegin]; omega

/-! ### assembling the ordinates of one axis (`PVTRReader._make_structured_mesh`) -/

theorem sliceAssign_piece (line W : List Int) (off n : Nat) (hn : 0 < n) (hlen : line.length = W.length)
    (hoff : off + n + 1 ≤ W.length) :
    sliceAssign line off ((W.drop off).take (n + 1)) =
      some (line.take off ++ (W.drop off).take (n + 1) ++ line.drop (off + n + 1)) := by
  have hpl : ((W.drop off).take (n + 1)).length = n + 1 := by
    simp only [List.length_take, List.length_drop]; omega
  unfold sliceAssign
  simp only [hpl]
  have h1 : ¬ (n + 1 = 1) := by omega
  have h2 : min (off + (n + 1)) line.length = off + n + 1 := by omega
  have h3 : min off line.length = off := by omega
  simp only [h1, if_false, h2, h3]
  have h4 : off + n + 1 - off = n + 1 := by omega
  simp [h4]

theorem assembleLineGo_spec (W : List Int) (ns : List Nat) (hpos : ∀ n ∈ ns, 0 < n) (hne : ns ≠ [])
    (line : List Int) (off : Nat) (hlen : line.length = W.length)
    (htake : line.take off = W.take off) (hoff : off + sumList ns + 1 = W.length) :
    assembleLineGo line off (axisPieces W off ns) = some W := by
  induction ns generalizing line off with
  | nil => exact absurd rfl hne
  | cons n rest ih =>
    have hn := hpos n (List.mem_cons_self ..)
    rw [sumList_cons] at hoff
    simp only [axisPieces, assembleLineGo]
    rw [sliceAssign_piece line W off n hn hlen (by omega)]
    simp only
    have hpl : ((W.drop off).take (n + 1)).length = n + 1 := by
      simp only [List.length_take, List.length_drop]; omega
    rw [hpl]
    have hnext : off + (n + 1) - 1 = off + n := by omega
    rw [hnext]
    cases rest with
    | nil =>
      simp only [sumList, List.foldr_nil, Nat.add_zero] at hoff
      simp only [axisPieces, assembleLineGo]
      congr 1
      have hd : line.drop (off + n + 1) = [] := List.drop_eq_nil_of_le (by omega)
      have ht : (W.drop off).take (n + 1) = W.drop off :=
        List.take_of_length_le (by simp only [List.length_drop]; omega)
      rw [htake, hd, List.append_nil, ht]
      exact List.take_append_drop off W
    | cons n' rest' =>
      apply ih (fun m hm => hpos m (List.mem_cons_of_mem _ hm)) (List.cons_ne_nil _ _)
      · simp only [List.length_append, List.length_take, List.length_drop, hpl]; omega
      · -- the first `off + n` entries are now those of `W`
        rw [htake, List.append_assoc, List.take_append]
        have hl : (W.take off).length = off := by simp only [List.length_take]; omega
        rw [hl, List.take_of_length_le (by omega)]
        have : off + n - off = n := by omega
        rw [this, List.take_append_of_le_length (by omega), List.take_take]
        have : min n (n + 1) = n := by omega
        rw [this]
        -- W.take off ++ (W.drop off).take n = W.take (off + n)
        rw [List.take_add]
      · omega


/-- a flat direction of the merged `.pvtr` grid keeps the single ordinate of the first listed piece -/
theorem pvtrLine_flat (sd : StructuredDecomposition) (pieceOrds : List (List (List Int))) (dir : Nat)
    (hm : sd.isMeshed dir = false) (hext : sd.mergedExtents.getD dir 0 = 0) (x : Int)
    (hx : ((pieceOrds.getD 0 []).getD dir []).take 1 = [x]) : pvtrLine sd pieceOrds dir = some [x] := by
  unfold pvtrLine
  simp only [hm, Bool.false_eq_true, if_false]
  rw [hx, hext]
  rfl

/-- a meshed direction: if the consulted pieces are the pieces of that axis in order, the ordinates
    of the whole axis are reproduced -/
theorem pvtrLine_meshed (sd : StructuredDecomposition) (pieceOrds : List (List (List Int))) (dir : Nat)
    (hm : sd.isMeshed dir = true) (W : List Int) (ns : List Nat) (hpos : ∀ n ∈ ns, 0 < n) (hne : ns ≠ [])
    (hlen : W.length = sumList ns + 1) (hext : (sd.mergedExtents.getD dir 0).toNat + 1 = W.length)
    (hcons : ((List.range (sd.cellsPerAxis.getD dir []).length).mapM fun i => do
          let id ← sd.domainIdChecked (pvtrDomainLocation sd (sd.meshedDimensions.idxOf dir) i)
          pure ((pieceOrds.getD id []).getD dir [])) = some (axisPieces W 0 ns)) :
    pvtrLine sd pieceOrds dir = some W := by
  unfold pvtrLine
  simp only [hm, if_true]
  rw [hcons, hext]
  exact assembleLineGo_spec W ns hpos hne _ 0 (by simp) (by simp) (by omega)

end Fc.C06
