/-
  Helper lemmas for property C06: the whole read of a structured parallel file
  (`_merge_structured`): fields with their dtypes, the three mesh variants, composed over the
  recovered decomposition.
-/
import FcProofs.Lemmas.MergeDecomposition3
import FcProofs.Lemmas.MergeStep
namespace Fc.C06
open Fc.C06.Spec

/-! ### `domain_id`, fields as rows -/

theorem domainId_of_checked (sd : StructuredDecomposition) (loc : List Nat) (i : Nat)
    (h : sd.domainIdChecked loc = some i) : sd.domainId loc = i := by
  unfold StructuredDecomposition.domainIdChecked at h
  split at h
  · simpa using h
  · cases h

theorem mergerOf_ne_nil (d3 : List (List Nat)) (hd : decompOk d3 = true) : ∀ ns ∈ mergerOf d3, ns ≠ [] := by
  intro ns hns
  obtain ⟨dir, hdir, rfl⟩ := List.mem_map.mp hns
  exact axisOk_ne_nil _ (decompOk_axis d3 hd dir ((mem_meshedDirs d3 dir).mp hdir).1)

theorem listing_length_pos (d3 : List (List Nat)) (hd : decompOk d3 = true) (L : List (List Nat))
    (hL : L.Perm (locationsIn (piecesShape d3))) : 0 < L.length :=
  List.length_pos_of_mem
    (unit3_mem d3 hd L hL 0 0 (axisOk_length_pos _ (decompOk_axis d3 hd 0 (by omega))))

/-- the callback of the parallel reader hands the merger, at every location, the values of the piece
    that sits there -/
theorem callback_listing {β} (d3 : List (List Nat)) (hd : decompOk d3 = true) (L : List (List Nat))
    (hL : L.Perm (locationsIn (piecesShape d3))) (vals : List β) (dflt : β) (f : List Nat → β)
    (hv : ∀ i, i < L.length → vals.getD i dflt = f (restrictLoc (meshedDirs d3) (L.getD i [])))
    (loc : List Nat) (hloc : loc ∈ locationsIn (piecesShape (mergerOf d3))) :
    vals.getD ((sdOf d3 L).domainId loc) dflt = f loc := by
  obtain ⟨i, hi, hr⟩ := listing_at d3 hd L hL loc hloc
  rw [← hr, domainId_of_checked _ _ _ (sdOf_domainId d3 hd L hL i hi), hv i hi]

theorem pvtkMergeField_listing {α} (isPoint : Bool) (d3 : List (List Nat)) (origin : List Int)
    (hd : decompOk d3 = true) (L : List (List Nat)) (hL : L.Perm (locationsIn (piecesShape d3)))
    (G : Nat → α) (vals : List (List α)) (zero : α)
    (hv : ∀ i, i < L.length → vals.getD i [] =
      restrictField isPoint (mergerOf d3) G (restrictLoc (meshedDirs d3) (L.getD i []))) :
    pvtkMergeField isPoint (L.map (pieceExtent d3 origin)) vals zero =
      wholeField (prodShape (mergedShape isPoint (mergerOf d3))) G := by
  unfold pvtkMergeField
  simp only [structuredDecomposition_listing d3 origin hd L hL, sdOf_mergerDecomposition]
  exact mergeStructured_whole isPoint (mergerOf d3) (Or.inr (mergerOf_ne_nil d3 hd)) G _ zero
    (fun loc hloc => callback_listing d3 hd L hL vals [] _ hv loc hloc)

/-! ### arrays: rows, chunks -/

theorem arrRows_takeRows (a : NdArr) (n : Nat) (idx : List Nat) (ha : a.data.length = n * a.rowSize)
    (hidx : ∀ i ∈ idx, i < n) : arrRows (NdArr.takeRows a idx) = idx.map a.row := by
  unfold arrRows
  have hh : (NdArr.takeRows a idx).shape.headD 0 = idx.length := by simp [NdArr.takeRows]
  rw [hh]
  apply List.ext_getElem
  · simp
  · intro r h1 h2
    simp only [List.length_map, List.length_range] at h1
    simp only [List.getElem_map, List.getElem_range]
    rw [row_takeRows a n idx ha hidx r h1, List.getD_eq_getElem?_getD, List.getElem?_eq_getElem h1]
    rfl

theorem flatMap_chunks (l : List Int) (rs n : Nat) (h : l.length = n * rs) :
    (List.range n).flatMap (fun i => (l.drop (i * rs)).take rs) = l := by
  induction n generalizing l with
  | zero => simp at h; simp [h]
  | succ n ih =>
    rw [List.range_succ_eq_map, List.flatMap_cons, List.flatMap_map]
    have h2 : (l.drop rs).length = n * rs := by
      rw [List.length_drop, h, Nat.add_mul, Nat.one_mul]; omega
    have := ih (l.drop rs) h2
    simp only [List.drop_drop] at this
    simp only [Nat.zero_mul, List.drop_zero]
    have hc : (fun i => List.take rs (List.drop ((i + 1) * rs) l)) =
        (fun i => List.take rs (List.drop (rs + i * rs) l)) := by
      funext i
      rw [Nat.add_mul, Nat.one_mul, Nat.add_comm]
    rw [hc, this, List.take_append_drop]

theorem flatten_rows (a : NdArr) (n : Nat) (ha : a.data.length = n * a.rowSize) :
    ((List.range n).map a.row).flatten = a.data := by
  rw [← List.flatMap_def]
  exact flatMap_chunks a.data a.rowSize n ha

theorem headD_mem {α} (l : List α) (d : α) (h : l ≠ []) : l.headD d ∈ l := by
  cases l with
  | nil => exact absurd rfl h
  | cons x r => simp

theorem arrOk_iff (n : Nat) (a : NdArr) :
    arrOk n a = true ↔ a.shape.head? = some n ∧ a.data.length = n * a.rowSize := by
  simp [arrOk]

/-- one field: pieces carrying their rows of the whole array `a` merge to `a` itself — dtype, shape
    and data -/
theorem pvtkMergeArr_listing (isPoint : Bool) (d3 : List (List Nat)) (origin : List Int)
    (hd : decompOk d3 = true) (L : List (List Nat)) (hL : L.Perm (locationsIn (piecesShape d3)))
    (a : NdArr) (ha : arrOk (prodShape (mergedShape isPoint (mergerOf d3))) a = true) (vals : List NdArr)
    (hv : ∀ i, i < L.length → vals.getD i emptyArr =
      NdArr.takeRows a (pieceEntityIndices isPoint (mergerOf d3) (restrictLoc (meshedDirs d3) (L.getD i [])))) :
    pvtkMergeArr isPoint (L.map (pieceExtent d3 origin)) vals = a := by
  obtain ⟨hshape, hdata⟩ := (arrOk_iff _ a).mp ha
  unfold pvtkMergeArr
  simp only [structuredDecomposition_listing d3 origin hd L hL, sdOf_mergerDecomposition]
  have hcb := callback_listing d3 hd L hL vals emptyArr
    (fun loc => NdArr.takeRows a (pieceEntityIndices isPoint (mergerOf d3) loc)) hv
  -- the first location the merger visits
  have hne : locationsIn (piecesShape (mergerOf d3)) ≠ [] := by
    have h0 := listing_length_pos d3 hd L hL
    have hm : L.getD 0 [] ∈ L := by
      rw [List.getD_eq_getElem?_getD, List.getElem?_eq_getElem h0]; exact List.getElem_mem h0
    have := (mem_locationsIn _ _).mpr (restrict_allLt d3 _
      ((mem_listing d3 (decompOk_length d3 hd) L hL _).mp hm))
    exact List.ne_nil_of_mem this
  have hfirst := hcb _ (headD_mem _ [] hne)
  unfold mergeStructuredArr
  simp only [hfirst]
  have hrows : mergeStructured isPoint (mergerOf d3)
      (fun loc => arrRows (vals.getD ((sdOf d3 L).domainId loc) emptyArr))
      (List.replicate (NdArr.takeRows a (pieceEntityIndices isPoint (mergerOf d3)
        ((locationsIn (piecesShape (mergerOf d3))).headD []))).rowSize 0) =
      (List.range (prodShape (mergedShape isPoint (mergerOf d3)))).map a.row := by
    apply mergeStructured_whole isPoint (mergerOf d3) (Or.inr (mergerOf_ne_nil d3 hd)) a.row
    intro loc hloc
    rw [hcb loc hloc]
    exact arrRows_takeRows a _ _ hdata (pieceEntityIndices_lt isPoint (mergerOf d3) loc hloc)
  rw [hrows, flatten_rows a _ hdata]
  have hs : a.shape = prodShape (mergedShape isPoint (mergerOf d3)) :: a.shape.tail := by
    cases hsh : a.shape with
    | nil => rw [hsh] at hshape; simp at hshape
    | cons x r => rw [hsh] at hshape; simp at hshape; simp [hshape]
  cases a with
  | mk dt sh da =>
    simp only [NdArr.takeRows, NdArr.mk.injEq, true_and, and_true]
    exact hs.symm

/-! ### names -/

theorem dedupNames_filter (l : List String) (p : String → Bool) :
    dedupNames (l.filter p) = (dedupNames l).filter p := by
  induction l with
  | nil => rfl
  | cons x r ih =>
    cases hp : p x with
    | true =>
      simp only [List.filter_cons, hp, if_true, dedupNames, ih, List.filter_filter]
      congr 1
      apply List.filter_congr
      intro y _
      exact Bool.and_comm _ _
    | false =>
      simp only [List.filter_cons, hp, Bool.false_eq_true, if_false, dedupNames, ih, List.filter_filter]
      apply List.filter_congr
      intro y _
      by_cases hy : y = x
      · subst hy; simp [hp]
      · simp [hy]

theorem dedupNames_cons' (x : String) (r : List String) :
    dedupNames (x :: r) = x :: dedupNames (r.filter (· != x)) := by
  rw [dedupNames_filter]; rfl

theorem nodupStrings_iff (l : List String) : nodupStrings l = true ↔ l.Nodup := by
  induction l with
  | nil => simp [nodupStrings]
  | cons x r ih => simp [nodupStrings, ih]

/-- names listed by first occurrence: a duplicate-free list followed by repetitions of its members -/
theorem dedupNames_append (N rest : List String) (hN : N.Nodup) (hr : ∀ x ∈ rest, x ∈ N) :
    dedupNames (N ++ rest) = N := by
  induction N generalizing rest with
  | nil =>
    cases rest with
    | nil => rfl
    | cons x r => exact absurd (hr x (List.mem_cons_self ..)) (by simp)
  | cons n N ih =>
    rw [List.nodup_cons] at hN
    rw [List.cons_append, dedupNames_cons', List.filter_append]
    have hfN : N.filter (· != n) = N := by
      rw [List.filter_eq_self]
      intro y hy
      simp only [bne_iff_ne, ne_eq]
      intro e; subst e; exact hN.1 hy
    rw [hfN, ih (rest.filter (· != n)) hN.2]
    intro x hx
    obtain ⟨hx1, hx2⟩ := List.mem_filter.mp hx
    simp only [bne_iff_ne, ne_eq] at hx2
    rcases List.mem_cons.mp (hr x hx1) with h | h
    · exact absurd h hx2
    · exact h

theorem find_by_name {β} (F : List (String × β)) (hnd : (F.map (·.1)).Nodup) (f : String × β) (hf : f ∈ F) :
    F.find? (·.1 == f.1) = some f := by
  induction F with
  | nil => simp at hf
  | cons g r ih =>
    simp only [List.map_cons, List.nodup_cons] at hnd
    rcases List.mem_cons.mp hf with rfl | hf'
    · simp
    · have hne : (g.1 == f.1) = false := by
        simp only [beq_eq_false_iff_ne, ne_eq]
        intro e
        exact hnd.1 (e ▸ List.mem_map_of_mem hf')
      rw [List.find?_cons, hne]
      exact ih hnd.2 hf'

theorem filterMap_map_some {α β γ} (l : List α) (A : α → β) (B : β → Option γ) (C : α → γ)
    (h : ∀ x ∈ l, B (A x) = some (C x)) : (l.map A).filterMap B = l.map C := by
  induction l with
  | nil => rfl
  | cons x r ih =>
    simp only [List.map_cons, List.filterMap_cons, h x (List.mem_cons_self ..)]
    rw [ih fun y hy => h y (List.mem_cons_of_mem _ hy)]

/-- all fields: every piece carries, for every array of the whole file, its rows of it -/
theorem pvtkMergeFields_listing (isPoint : Bool) (d3 : List (List Nat)) (origin : List Int)
    (hd : decompOk d3 = true) (L : List (List Nat)) (hL : L.Perm (locationsIn (piecesShape d3)))
    (F : List (String × NdArr)) (hnd : nodupStrings (F.map (·.1)) = true)
    (hF : F.all (fun f => arrOk (prodShape (mergedShape isPoint (mergerOf d3))) f.2) = true) :
    pvtkMergeFields isPoint (L.map (pieceExtent d3 origin))
      (L.map fun loc3 => F.map fun f => (f.1, NdArr.takeRows f.2
        (pieceEntityIndices isPoint (mergerOf d3) (restrictLoc (meshedDirs d3) loc3)))) = F := by
  rw [nodupStrings_iff] at hnd
  unfold pvtkMergeFields
  have hnames : dedupNames ((L.map fun loc3 => F.map fun f => (f.1, NdArr.takeRows f.2
      (pieceEntityIndices isPoint (mergerOf d3) (restrictLoc (meshedDirs d3) loc3)))).flatMap
        fun fs => fs.map (·.1)) = F.map (·.1) := by
    have h0 := listing_length_pos d3 hd L hL
    cases L with
    | nil => simp at h0
    | cons l0 Lr =>
      simp only [List.map_cons, List.flatMap_cons, List.map_map]
      apply dedupNames_append _ _ hnd
      intro x hx
      simp only [List.mem_flatMap, List.mem_map] at hx
      obtain ⟨fs, ⟨loc3, _, hfs⟩, g, hg, hgx⟩ := hx
      rw [← hfs] at hg
      obtain ⟨f', hf', hf'g⟩ := List.mem_map.mp hg
      rw [← hgx, ← hf'g]
      exact List.mem_map.mpr ⟨f', hf', rfl⟩
  rw [hnames, List.map_map]
  conv => rhs; rw [← List.map_id F]
  apply List.map_congr_left
  intro f hf
  simp only [Function.comp, id]
  have hvals : (L.map fun loc3 => F.map fun f => (f.1, NdArr.takeRows f.2
      (pieceEntityIndices isPoint (mergerOf d3) (restrictLoc (meshedDirs d3) loc3)))).filterMap
        (fun fs => (fs.find? (·.1 == f.1)).map (·.2)) =
      L.map fun loc3 => NdArr.takeRows f.2
        (pieceEntityIndices isPoint (mergerOf d3) (restrictLoc (meshedDirs d3) loc3)) := by
    apply filterMap_map_some
    intro loc3 _
    have hnd' : ((F.map fun f => (f.1, NdArr.takeRows f.2
        (pieceEntityIndices isPoint (mergerOf d3) (restrictLoc (meshedDirs d3) loc3)))).map (·.1)).Nodup := by
      rw [List.map_map]
      exact hnd
    have := find_by_name _ hnd' (f.1, NdArr.takeRows f.2
        (pieceEntityIndices isPoint (mergerOf d3) (restrictLoc (meshedDirs d3) loc3)))
      (List.mem_map.mpr ⟨f, hf, rfl⟩)
    simp only at this
    rw [this]
    rfl
  rw [hvals]
  have ha := (List.all_eq_true.mp hF) f hf
  rw [pvtkMergeArr_listing isPoint d3 origin hd L hL f.2 ha]
  intro i hi
  simp [List.getD_eq_getElem?_getD, List.getElem?_eq_getElem hi]

/-! ### the three meshes -/

theorem pvtrLine_listing (d3 : List (List Nat)) (hd : decompOk d3 = true) (L : List (List Nat))
    (hL : L.Perm (locationsIn (piecesShape d3))) (W : List Int) (dir : Nat) (hdir : dir < 3)
    (hW : W.length = sumList (d3.getD dir []) + 1) (pieceOrds : List (List (List Int)))
    (hpo : ∀ i, i < L.length → (pieceOrds.getD i []).getD dir [] =
      pieceOrdinates W (d3.getD dir []) ((L.getD i []).getD dir 0)) :
    pvtrLine (sdOf d3 L) pieceOrds dir = some W := by
  have h3 := decompOk_length d3 hd
  have hax := decompOk_axis d3 hd dir hdir
  cases hm : axisMeshed (d3.getD dir []) with
  | true =>
    apply pvtrLine_meshed (sdOf d3 L) pieceOrds dir (by rw [sdOf_isMeshed]; exact hm) W (d3.getD dir [])
      (axisMeshed_true _ hax hm) (axisOk_ne_nil _ hax) hW
    · rw [sdOf_mergedExtents_getD d3 L dir (by omega), hW]
      simp
    · exact consulted_listing d3 hd L hL W dir hdir hm pieceOrds hpo
  | false =>
    have hns := axisMeshed_false _ hax hm
    rw [hns] at hW
    simp only [sumList, List.foldr_cons, List.foldr_nil, Nat.add_zero, Nat.zero_add] at hW
    match W, hW with
    | [x], _ =>
      apply pvtrLine_flat (sdOf d3 L) pieceOrds dir (by rw [sdOf_isMeshed]; exact hm)
      · rw [sdOf_mergedExtents_getD d3 L dir (by omega), hns]; rfl
      · have h0 := listing_length_pos d3 hd L hL
        have hm0 : L.getD 0 [] ∈ L := by
          rw [List.getD_eq_getElem?_getD, List.getElem?_eq_getElem h0]; exact List.getElem_mem h0
        have hb := ((mem_listing d3 h3 L hL _).mp hm0).2 dir hdir
        rw [hns] at hb
        simp only [List.length_cons, List.length_nil] at hb
        have hb0 : (L.getD 0 []).getD dir 0 = 0 := by omega
        rw [hpo 0 h0, hns, hb0]
        rfl

theorem pvtrOrdinates_listing (d3 : List (List Nat)) (hd : decompOk d3 = true) (L : List (List Nat))
    (hL : L.Perm (locationsIn (piecesShape d3))) (W : List (List Int)) (hW3 : W.length = 3)
    (hW : ∀ dir, dir < 3 → (W.getD dir []).length = sumList (d3.getD dir []) + 1)
    (pieceOrds : List (List (List Int)))
    (hpo : ∀ i, i < L.length → ∀ dir, dir < 3 → (pieceOrds.getD i []).getD dir [] =
      pieceOrdinates (W.getD dir []) (d3.getD dir []) ((L.getD i []).getD dir 0)) :
    pvtrOrdinates (sdOf d3 L) pieceOrds = some W := by
  unfold pvtrOrdinates
  rw [mapM_range_some _ (fun dir => W.getD dir []) _ (fun dir hdir =>
    pvtrLine_listing d3 hd L hL (W.getD dir []) dir (List.mem_range.mp hdir) (hW dir (List.mem_range.mp hdir))
      pieceOrds (fun i hi => hpo i hi dir (List.mem_range.mp hdir)))]
  have := range3_map_getD W [] hW3 id
  simp only [id] at this
  rw [this, List.map_id]

theorem range_map_getD_self {α} (p : List α) (d : α) : (List.range p.length).map (p.getD · d) = p := by
  apply List.ext_getElem
  · simp
  · intro i h1 h2
    simp only [List.length_map, List.length_range] at h1
    simp [List.getD_eq_getElem?_getD, List.getElem?_eq_getElem h1]

theorem pvtsPoints_listing (d3 : List (List Nat)) (origin : List Int) (hd : decompOk d3 = true)
    (L : List (List Nat)) (hL : L.Perm (locationsIn (piecesShape d3))) (p : List (List Int))
    (hp : p.length = prodShape (mergedShape true (mergerOf d3))) :
    pvtsPoints (L.map (pieceExtent d3 origin))
      (L.map fun loc3 => (pieceEntityIndices true (mergerOf d3) (restrictLoc (meshedDirs d3) loc3)).map
        (p.getD · [])) = p := by
  unfold pvtsPoints
  rw [pvtkMergeField_listing true d3 origin hd L hL (p.getD · [])]
  · unfold wholeField
    rw [← hp]
    exact range_map_getD_self p []
  · intro i hi
    simp [List.getD_eq_getElem?_getD, List.getElem?_eq_getElem hi, restrictField]

/-! ### the whole read -/

theorem pvtkReadStructured_listing (U : Nat) (w : SFile) (d3 : List (List Nat)) (origin : List Int)
    (hd : decompOk d3 = true) (L : List (List Nat)) (hL : L.Perm (locationsIn (piecesShape d3)))
    (hw : wholeOk w d3 origin = true) :
    pvtkReadStructured U (L.map (pieceFile w d3 origin)) = some (wholeRead U w) := by
  have h3 := decompOk_length d3 hd
  simp only [wholeOk, Bool.and_eq_true, beq_iff_eq] at hw
  obtain ⟨⟨⟨⟨⟨hext, hgeom⟩, hndp⟩, hndc⟩, hpf⟩, hcf⟩ := hw
  have hexts : (L.map (pieceFile w d3 origin)).map (·.extent) = L.map (pieceExtent d3 origin) := by
    rw [List.map_map]; rfl
  have hpfs : (L.map (pieceFile w d3 origin)).map (·.pointFields) =
      L.map fun loc3 => w.pointFields.map fun f => (f.1, NdArr.takeRows f.2
        (pieceEntityIndices true (mergerOf d3) (restrictLoc (meshedDirs d3) loc3))) := by
    rw [List.map_map]; rfl
  have hcfs : (L.map (pieceFile w d3 origin)).map (·.cellFields) =
      L.map fun loc3 => w.cellFields.map fun f => (f.1, NdArr.takeRows f.2
        (pieceEntityIndices false (mergerOf d3) (restrictLoc (meshedDirs d3) loc3))) := by
    rw [List.map_map]; rfl
  unfold pvtkReadStructured
  simp only [hexts, hpfs, hcfs, structuredDecomposition_listing d3 origin hd L hL,
    pvtkMergeFields_listing true d3 origin hd L hL w.pointFields hndp hpf,
    pvtkMergeFields_listing false d3 origin hd L hL w.cellFields hndc hcf]
  have h0 := listing_length_pos d3 hd L hL
  cases hLc : L with
  | nil => rw [hLc] at h0; simp at h0
  | cons l0 Lr =>
    rw [← hLc]
    have hhead : (L.map (pieceFile w d3 origin)).head? = some (pieceFile w d3 origin l0) := by
      rw [hLc]; rfl
    rw [hhead]
    simp only
    cases hg : w.geom with
    | image O S B =>
      have : (pieceFile w d3 origin l0).geom = .image O S B := by simp [pieceFile, hg]
      rw [this]
      simp only [pvtiMesh_listing U d3 origin hd L hL O S B, Option.map_some, wholeRead, hg, hext]
    | rect o =>
      have : (pieceFile w d3 origin l0).geom = .rect ((List.range 3).map fun dir =>
          pieceOrdinates (o.getD dir []) (d3.getD dir []) (l0.getD dir 0)) := by simp [pieceFile, hg]
      rw [this]
      rw [hg] at hgeom
      simp only [Bool.and_eq_true, beq_iff_eq, List.all_eq_true, List.mem_range] at hgeom
      have hords : (L.map (pieceFile w d3 origin)).map (·.geom.ords) =
          L.map fun loc3 => (List.range 3).map fun dir =>
            pieceOrdinates (o.getD dir []) (d3.getD dir []) (loc3.getD dir 0) := by
        rw [List.map_map]
        apply List.map_congr_left
        intro loc3 _
        simp [pieceFile, hg, SGeom.ords]
      simp only [hords]
      rw [pvtrOrdinates_listing d3 hd L hL o hgeom.1 hgeom.2]
      · simp only [Option.map_some, wholeRead, hg, hext, sdOf_mergedExtents, cellsOfExtent_whole d3 origin h3]
      · intro i hi dir hdir
        simp only [List.getD_eq_getElem?_getD, List.getElem?_map, List.getElem?_eq_getElem hi,
          Option.map_some, Option.getD_some]
        rcases lt3_cases hdir with rfl | rfl | rfl <;> rfl
    | struct p =>
      have : (pieceFile w d3 origin l0).geom = .struct ((pieceEntityIndices true (mergerOf d3)
          (restrictLoc (meshedDirs d3) l0)).map (p.getD · [])) := by simp [pieceFile, hg]
      rw [this]
      rw [hg] at hgeom
      simp only [beq_iff_eq] at hgeom
      have hpts : (L.map (pieceFile w d3 origin)).map (·.geom.pts) =
          L.map fun loc3 => (pieceEntityIndices true (mergerOf d3) (restrictLoc (meshedDirs d3) loc3)).map
            (p.getD · []) := by
        rw [List.map_map]
        apply List.map_congr_left
        intro loc3 _
        simp [pieceFile, hg, SGeom.pts]
      simp only [hpts, pvtsPoints_listing d3 origin hd L hL p hgeom, wholeRead, hg, hext, sdOf_mergedExtents,
        cellsOfExtent_whole d3 origin h3]

end Fc.C06
