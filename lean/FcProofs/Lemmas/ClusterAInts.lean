/-
  FcProofs.Lemmas.ClusterAInts — the wrapping integer arithmetic of the slow path
  (`Fc.wrapInt`, `Fc.wrapAbs`, `Fc.fuzzyEqInt1`): identity on the safe range, negation law of the
  signed wrap (⇒ symmetry of the wrapped absolute difference), what the unsigned wrap does to a
  negative difference, int → binary64 conversion of ≤ 64-bit values is total.
-/
import FcModel.Spec.ClusterA
import FcProofs.Lemmas.Laws
namespace Fc
open Spec

/-! ### powers of two -/

theorem two_pow_pos_int (n : Nat) : (0 : Int) < 2 ^ n := Int.pow_pos (by decide)

theorem two_pow_eq_two_half {bits : Nat} (h : 0 < bits) : (2 : Int) ^ bits = 2 * intHalf bits := by
  unfold intHalf
  have : bits = (bits - 1) + 1 := by omega
  conv => lhs; rw [this, Int.pow_succ]
  rw [Int.mul_comm]

theorem intHalf_pos (bits : Nat) : 0 < intHalf bits := two_pow_pos_int _

/-! ### the signed wrap -/

/-- the signed wrap written with the half-range `M`: reduce mod `2M`, subtract `2M` from `M` up -/
theorem wrapInt_signed_def {bits : Nat} (h : 0 < bits) (x : Int) :
    wrapInt true bits x =
      if intHalf bits ≤ x % (2 * intHalf bits) then x % (2 * intHalf bits) - 2 * intHalf bits
      else x % (2 * intHalf bits) := by
  unfold wrapInt
  simp only [two_pow_eq_two_half h, true_and, ge_iff_le]
  have hM := intHalf_pos bits
  have : 2 * intHalf bits / 2 = intHalf bits := by omega
  rw [this]

/-- range and congruence of the signed wrap -/
theorem wrapInt_signed_spec {bits : Nat} (h : 0 < bits) (x : Int) :
    -(intHalf bits) ≤ wrapInt true bits x ∧ wrapInt true bits x < intHalf bits ∧
      (2 * intHalf bits) ∣ (x - wrapInt true bits x) := by
  rw [wrapInt_signed_def h]
  have hM := intHalf_pos bits
  have h0 : 0 ≤ x % (2 * intHalf bits) := Int.emod_nonneg _ (by omega)
  have h1 : x % (2 * intHalf bits) < 2 * intHalf bits := Int.emod_lt_of_pos _ (by omega)
  have hd : x - x % (2 * intHalf bits) = 2 * intHalf bits * (x / (2 * intHalf bits)) := by
    have := Int.emod_add_mul_ediv x (2 * intHalf bits)
    omega
  split
  · refine ⟨by omega, by omega, ?_⟩
    have : x - (x % (2 * intHalf bits) - 2 * intHalf bits)
        = 2 * intHalf bits * (x / (2 * intHalf bits) + 1) := by
      rw [Int.mul_add, ← hd]; omega
    rw [this]; exact Int.dvd_mul_right _ _
  · refine ⟨by omega, by omega, ?_⟩
    rw [hd]; exact Int.dvd_mul_right _ _

/-- … and these two facts determine it -/
theorem wrapInt_signed_unique {bits : Nat} (h : 0 < bits) (x w : Int)
    (h1 : -(intHalf bits) ≤ w) (h2 : w < intHalf bits) (hd : (2 * intHalf bits) ∣ (x - w)) :
    wrapInt true bits x = w := by
  have hM := intHalf_pos bits
  obtain ⟨k, hk⟩ := hd
  have hx : x = w + 2 * intHalf bits * k := by omega
  rw [wrapInt_signed_def h, hx, Int.add_mul_emod_self_left]
  by_cases hneg : w < 0
  · have e : w % (2 * intHalf bits) = w + 2 * intHalf bits := by
      have := Int.add_mul_emod_self_left w (2 * intHalf bits) 1
      rw [Int.mul_one] at this
      rw [← this]
      exact Int.emod_eq_of_lt (by omega) (by omega)
    rw [e]
    have : intHalf bits ≤ w + 2 * intHalf bits := by omega
    rw [if_pos this]; omega
  · have e : w % (2 * intHalf bits) = w := Int.emod_eq_of_lt (by omega) (by omega)
    rw [e]
    have : ¬ intHalf bits ≤ w := by omega
    rw [if_neg this]

/-- identity on the type's range -/
theorem wrapInt_signed_id {bits : Nat} (h : 0 < bits) (x : Int)
    (h1 : -(intHalf bits) ≤ x) (h2 : x < intHalf bits) : wrapInt true bits x = x :=
  wrapInt_signed_unique h x x h1 h2 ⟨0, by omega⟩

/-- negation law of the signed wrap: the wrap of `-x` is the negated wrap of `x`, except that
    the type minimum stays the type minimum -/
theorem wrapInt_signed_neg {bits : Nat} (h : 0 < bits) (x : Int) :
    wrapInt true bits (-x) =
      if wrapInt true bits x = -(intHalf bits) then -(intHalf bits) else -(wrapInt true bits x) := by
  obtain ⟨h1, h2, k, hk⟩ := wrapInt_signed_spec h x
  have hM := intHalf_pos bits
  split
  · rename_i hw
    refine wrapInt_signed_unique h _ _ (by omega) (by omega) ⟨-k + 1, ?_⟩
    rw [Int.mul_add, Int.mul_neg, ← hk, hw]; omega
  · rename_i hw
    refine wrapInt_signed_unique h _ _ (by omega) (by omega) ⟨-k, ?_⟩
    rw [Int.mul_neg, ← hk]; omega

/-- numpy's `abs` on the safe range is the mathematical absolute value -/
theorem wrapAbs_signed_id {bits : Nat} (h : 0 < bits) (x : Int)
    (h1 : -(intHalf bits) < x) (h2 : x < intHalf bits) : wrapAbs true bits x = (x.natAbs : Int) := by
  unfold wrapAbs
  split
  · rw [wrapInt_signed_id h _ (by omega) (by omega)]; omega
  · rw [wrapInt_signed_id h _ (by omega) (by omega)]; omega

/-- … and on the type minimum it is the type minimum again (the root of F13) -/
theorem wrapAbs_signed_min {bits : Nat} (h : 0 < bits) :
    wrapAbs true bits (-(intHalf bits)) = -(intHalf bits) := by
  have hM := intHalf_pos bits
  unfold wrapAbs
  have : -(intHalf bits) < 0 := by omega
  rw [if_pos this, Int.neg_neg]
  refine wrapInt_signed_unique h _ _ (by omega) (by omega) ⟨1, by omega⟩

/-- **symmetry of the wrapped absolute difference for every signed width and ALL operands**
    (in range or not, overflowing difference or not) -/
theorem wrapAbsDiff_signed_symm {bits : Nat} (h : 0 < bits) (a b : Int) :
    wrapAbs true bits (wrapInt true bits (b - a)) = wrapAbs true bits (wrapInt true bits (a - b)) := by
  have e : a - b = -(b - a) := by omega
  rw [e, wrapInt_signed_neg h]
  split
  · rename_i hw; rw [hw]
  · unfold wrapAbs
    rcases Int.lt_trichotomy (wrapInt true bits (b - a)) 0 with hlt | heq | hgt
    · have h1 : ¬ (-(wrapInt true bits (b - a)) < 0) := by omega
      rw [if_pos hlt, if_neg h1]
    · rw [heq]; rfl
    · have h1 : ¬ (wrapInt true bits (b - a) < 0) := by omega
      have h2 : -(wrapInt true bits (b - a)) < 0 := by omega
      rw [if_neg h1, if_pos h2, Int.neg_neg]

/-! ### the unsigned wrap -/

theorem wrapInt_unsigned_def (bits : Nat) (x : Int) : wrapInt false bits x = x % 2 ^ bits := by
  unfold wrapInt
  simp

theorem wrapInt_unsigned_nonneg (bits : Nat) (x : Int) : 0 ≤ wrapInt false bits x := by
  rw [wrapInt_unsigned_def]
  exact Int.emod_nonneg _ (by have := two_pow_pos_int bits; omega)

theorem wrapAbs_unsigned_nonneg (bits : Nat) (x : Int) : 0 ≤ wrapAbs false bits x := by
  unfold wrapAbs; exact wrapInt_unsigned_nonneg _ _

theorem wrapInt_unsigned_id (bits : Nat) (x : Int) (h1 : 0 ≤ x) (h2 : x < 2 ^ bits) :
    wrapInt false bits x = x := by
  rw [wrapInt_unsigned_def]; exact Int.emod_eq_of_lt h1 h2

/-- unsigned subtraction of a larger from a smaller value: `2^bits` is added -/
theorem wrapInt_unsigned_negdiff (bits : Nat) (x : Int) (h1 : -(2 ^ bits) < x) (h2 : x < 0) :
    wrapInt false bits x = x + 2 ^ bits := by
  rw [wrapInt_unsigned_def]
  have := Int.add_mul_emod_self_left x (2 ^ bits) 1
  rw [Int.mul_one] at this
  rw [← this]
  exact Int.emod_eq_of_lt (by omega) (by omega)

/-! ### int → binary64 -/

theorem rndInt_nonneg_cast (F : Fmt) (n s : Nat) :
    rndInt F (n : Int) s = Option.map (fun (r : Nat) => (r : Int)) (rndMag F n s) := by
  unfold rndInt
  have h1 : ((n : Int)).natAbs = n := Int.natAbs_natCast n
  have h2 : ¬ ((n : Int) < 0) := by omega
  rw [h1]
  cases rndMag F n s <;> simp [h2]

/-- conversion of a non-negative integer: its units, rounded once -/
theorem intToF64_nat (n : Nat) :
    intToF64 (n : Int) = Option.map (fun (r : Nat) => (r : Int)) (rndMag f64 (n * 2 ^ UNIT) 0) := by
  unfold intToF64
  have : (n : Int) * 2 ^ UNIT = ((n * 2 ^ UNIT : Nat) : Int) := by
    push_cast; rfl
  rw [this, rndInt_nonneg_cast]

theorem rndMag_two_pow64_lit : rndMag f64 (2 ^ 64 * 2 ^ 1074) 0 = some (2 ^ 64 * 2 ^ 1074) := by
  decide +kernel

theorem rndMag_two_pow64 : rndMag f64 (2 ^ 64 * 2 ^ UNIT) 0 = some (2 ^ 64 * 2 ^ UNIT) := by
  unfold UNIT; exact rndMag_two_pow64_lit

/-- binary64 holds every magnitude up to 2^64 (all values of the ≤ 64-bit integer types) -/
theorem rndMag_int64_finite (n : Nat) (h : n ≤ 2 ^ 64) : ∃ r, rndMag f64 (n * 2 ^ UNIT) 0 = some r := by
  have hm := rndMag_mono f64 0 (Nat.mul_le_mul_right (2 ^ UNIT) h)
  rw [rndMag_two_pow64] at hm
  cases hr : rndMag f64 (n * 2 ^ UNIT) 0 with
  | none => rw [hr] at hm; simp [leInf] at hm
  | some r => exact ⟨r, rfl⟩

theorem intToF64_finite (x : Int) (h : x.natAbs ≤ 2 ^ 64) : ∃ u, intToF64 x = some u := by
  unfold intToF64 rndInt
  have e : (x * 2 ^ UNIT).natAbs = x.natAbs * 2 ^ UNIT := by
    have h2 : (2 : Int).natAbs = 2 := rfl
    rw [Int.natAbs_mul, Int.natAbs_pow, h2]
  rw [e]
  obtain ⟨r, hr⟩ := rndMag_int64_finite _ h
  rw [hr]
  exact ⟨_, rfl⟩

theorem intsToF64_cons_some (x : Int) (xs : List Int) (u : Int) (l : List Int)
    (hu : intToF64 x = some u) (hl : intsToF64 xs = some l) : intsToF64 (x :: xs) = some (u :: l) := by
  unfold intsToF64 at hl ⊢
  rw [List.foldr_cons, hl, hu]

theorem intsToF64_cons_inv (x : Int) (xs : List Int) (L : List Int) (h : intsToF64 (x :: xs) = some L) :
    ∃ u l, intToF64 x = some u ∧ intsToF64 xs = some l ∧ L = u :: l := by
  unfold intsToF64 at h ⊢
  rw [List.foldr_cons] at h
  generalize intToF64 x = ox at h
  generalize List.foldr _ (some []) xs = ol at h
  cases ox with
  | none => simp at h
  | some u =>
    cases ol with
    | none => simp at h
    | some l =>
      simp only [Option.some.injEq] at h
      exact ⟨u, l, rfl, rfl, h.symm⟩

/-- entry-wise conversion is total on ≤ 64-bit values … -/
theorem intsToF64_finite (xs : List Int) (h : ∀ x ∈ xs, x.natAbs ≤ 2 ^ 64) :
    ∃ l, intsToF64 xs = some l := by
  induction xs with
  | nil => exact ⟨[], rfl⟩
  | cons x xs ih =>
    obtain ⟨l, hl⟩ := ih (fun y hy => h y (List.mem_cons_of_mem _ hy))
    obtain ⟨u, hu⟩ := intToF64_finite x (h x List.mem_cons_self)
    exact ⟨u :: l, intsToF64_cons_some x xs u l hu hl⟩

/-- … keeps the length and converts position by position -/
theorem intsToF64_spec (xs l : List Int) (h : intsToF64 xs = some l) :
    l.length = xs.length ∧ ∀ i, i < xs.length → intToF64 (xs.getD i 0) = some (l.getD i 0) := by
  induction xs generalizing l with
  | nil =>
    have : l = [] := by
      have h' : some ([] : List Int) = some l := h
      injection h' with h'; exact h'.symm
    subst this
    exact ⟨rfl, fun i hi => by simp at hi⟩
  | cons x xs ih =>
    obtain ⟨u, l', hu, hl, rfl⟩ := intsToF64_cons_inv x xs l h
    obtain ⟨hlen, hall⟩ := ih l' hl
    refine ⟨by simp [hlen], ?_⟩
    intro i hi
    cases i with
    | zero => simpa using hu
    | succ j =>
      have hj : j < xs.length := by simpa using hi
      simpa using hall j hj

/-! ### the slow-path kernel on the safe range -/

theorem intSafe_iff (bits : Nat) (a b : Int) :
    intSafe bits a b = true ↔
      0 < bits ∧ (-(intHalf bits) < a ∧ a < intHalf bits) ∧ (-(intHalf bits) < b ∧ b < intHalf bits) ∧
        (-(intHalf bits) < b - a ∧ b - a < intHalf bits) := by
  unfold intSafe intNoMin
  simp only [Bool.and_eq_true, decide_eq_true_eq]
  constructor
  · rintro ⟨⟨⟨h0, h1⟩, h2⟩, h3⟩; exact ⟨h0, h1, h2, h3⟩
  · rintro ⟨h0, h1, h2, h3⟩; exact ⟨⟨⟨h0, h1⟩, h2⟩, h3⟩

theorem intSafe_symm (bits : Nat) (a b : Int) : intSafe bits a b = intSafe bits b a := by
  rw [Bool.eq_iff_iff, intSafe_iff, intSafe_iff]
  constructor <;> (rintro ⟨h0, h1, h2, h3, h4⟩; exact ⟨h0, h2, h1, by omega, by omega⟩)

theorem intSafe_refl (bits : Nat) (a : Int) (h0 : 0 < bits)
    (h1 : -(intHalf bits) < a) (h2 : a < intHalf bits) : intSafe bits a a = true := by
  rw [intSafe_iff]
  have := intHalf_pos bits
  exact ⟨h0, ⟨h1, h2⟩, ⟨h1, h2⟩, by omega, by omega⟩

/-- the comparison of the slow path with a non-negative magnitude, on ℕ -/
theorem fuzzyEqInt1_core (sg : Bool) (bits : Nat) (a b : Int) (rel abs m d : Nat)
    (hd : wrapAbs sg bits (wrapInt sg bits (b - a)) = (d : Int))
    (hm : max (wrapAbs sg bits a) (wrapAbs sg bits b) = (m : Int)) :
    fuzzyEqInt1 sg bits a b rel abs = intCore m d rel abs := by
  unfold fuzzyEqInt1 intCore
  simp only []
  rw [hd, hm, intToF64_nat, intToF64_nat]
  cases hmu : rndMag f64 (m * 2 ^ UNIT) 0 with
  | none => rfl
  | some mu =>
    cases hdu : rndMag f64 (d * 2 ^ UNIT) 0 with
    | none => rfl
    | some du =>
      simp only [Option.map_some, intCoreOpt]
      have e : (mu : Int) * (rel : Int) = ((mu * rel : Nat) : Int) := by rw [Int.natCast_mul]
      rw [e, rndInt_nonneg_cast]
      cases hp : rndMag f64 (mu * rel) UNIT with
      | none =>
        have : ¬ ((mu : Int) < 0) := by omega
        simp [this, maxInf, leInf]
      | some p =>
        simp only [Option.map_some, maxInf, leInf]
        rw [decide_eq_decide]
        constructor <;> (intro h; omega)

theorem max_natAbs_cast (a b : Int) :
    max (a.natAbs : Int) (b.natAbs : Int) = ((max a.natAbs b.natAbs : Nat) : Int) := by
  omega

/-- **model = documented integer formula on the safe range** -/
theorem fuzzyEqInt1_safe (bits : Nat) (a b : Int) (rel abs : Nat) (h : intSafe bits a b = true) :
    fuzzyEqInt1 true bits a b rel abs = intFormula a b rel abs := by
  obtain ⟨h0, ⟨ha1, ha2⟩, ⟨hb1, hb2⟩, hd1, hd2⟩ := (intSafe_iff bits a b).mp h
  have hd : wrapAbs true bits (wrapInt true bits (b - a)) = ((b - a).natAbs : Int) := by
    rw [wrapInt_signed_id h0 _ (by omega) hd2, wrapAbs_signed_id h0 _ hd1 hd2]
  have hm : max (wrapAbs true bits a) (wrapAbs true bits b) = ((max a.natAbs b.natAbs : Nat) : Int) := by
    rw [wrapAbs_signed_id h0 _ ha1 ha2, wrapAbs_signed_id h0 _ hb1 hb2, max_natAbs_cast]
  rw [fuzzyEqInt1_core true bits a b rel abs _ _ hd hm]
  rfl

/-! ### laws of the integer formula -/

theorem intFormula_symm (a b : Int) (rel abs : Nat) : intFormula a b rel abs = intFormula b a rel abs := by
  unfold intFormula intCore
  have h1 : (b - a).natAbs = (a - b).natAbs := by omega
  rw [h1, Nat.max_comm]

theorem intCore_mono (m d : Nat) {r1 r2 t1 t2 : Nat} (hr : r1 ≤ r2) (ht : t1 ≤ t2)
    (h : intCore m d r1 t1 = true) : intCore m d r2 t2 = true := by
  unfold intCore at *
  cases hmu : rndMag f64 (m * 2 ^ UNIT) 0 with
  | none => rw [hmu] at h; simp [intCoreOpt] at h
  | some mu =>
    cases hdu : rndMag f64 (d * 2 ^ UNIT) 0 with
    | none => rw [hmu, hdu] at h; simp [intCoreOpt] at h
    | some du =>
      rw [hmu, hdu] at h
      simp only [intCoreOpt] at h ⊢
      refine leInf_trans h (maxInf_mono ?_ ?_)
      · exact rndMag_mono f64 UNIT (Nat.mul_le_mul_left _ hr)
      · simp [leInf, ht]

theorem intFormula_mono (a b : Int) {r1 r2 t1 t2 : Nat} (hr : r1 ≤ r2) (ht : t1 ≤ t2)
    (h : intFormula a b r1 t1 = true) : intFormula a b r2 t2 = true :=
  intCore_mono _ _ hr ht h

/-- reflexive whenever the magnitude converts (always, for ≤ 64-bit values) -/
theorem intFormula_refl (a : Int) (rel abs : Nat) (h : a.natAbs ≤ 2 ^ 64) : intFormula a a rel abs = true := by
  unfold intFormula intCore
  have e : (a - a).natAbs = 0 := by omega
  rw [e, Nat.max_self, Nat.zero_mul, rndMag_zero]
  obtain ⟨r, hr⟩ := rndMag_int64_finite _ h
  rw [hr]
  simp only [intCoreOpt]
  exact leInf_zero _


/-! ### array level -/

theorem all_range_congr (n : Nat) (f g : Nat → Bool) (h : ∀ i, i < n → f i = g i) :
    (List.range n).all f = (List.range n).all g := by
  rw [Bool.eq_iff_iff]
  simp only [List.all_eq_true, List.mem_range]
  constructor
  · intro hf i hi; rw [← h i hi]; exact hf i hi
  · intro hg i hi; rw [h i hi]; exact hg i hi

theorem getD_mem {l : List Int} {i : Nat} (hi : i < l.length) : l.getD i 0 ∈ l := by
  rw [List.getD_eq_getElem?_getD, List.getElem?_eq_getElem hi]
  exact List.getElem_mem hi

theorem intHalf_le_of_bits {bits : Nat} (h : bits ≤ 64) (x : Int)
    (h1 : -(intHalf bits) < x) (h2 : x < intHalf bits) : x.natAbs ≤ 2 ^ 64 := by
  have e : intHalf bits = ((2 ^ (bits - 1) : Nat) : Int) := by
    unfold intHalf; push_cast; rfl
  have hp : 2 ^ (bits - 1) ≤ 2 ^ 64 := Nat.pow_le_pow_right (by decide) (by omega)
  rw [e] at h1 h2
  omega

/-- the integer branch of `fuzzyCheck`, with the shape test expressed by `shapesCompatible` -/
theorem fuzzyCheck_int (rel abs : Tol) (a b : NdArr) (sg : Bool) (bits : Nat)
    (ha : a.dtype = .int sg bits) (hb : b.dtype = .int sg bits) :
    fuzzyCheck rel abs a b =
      if shapesCompatible a.shape b.shape = true then
        match intTolNum rel, intTolNum abs with
        | some r, some t =>
          .ok ((List.range a.data.length).all fun i =>
            fuzzyEqInt1 sg bits (a.data.getD i 0) (b.data.getD i 0) r t)
        | _, _ => .err
      else .ok false := by
  obtain ⟨hiff, _⟩ := reshapePair_spec a.shape b.shape
  unfold fuzzyCheck
  cases hp : reshapePair a.shape b.shape with
  | mk s1 s2 =>
    rw [hp] at hiff
    simp only at hiff ⊢
    by_cases hc : s1 = s2
    · have hcomp : shapesCompatible a.shape b.shape = true := hiff.mp hc
      subst hc
      simp only [ne_eq, not_true_eq_false, if_false, hcomp, if_true]
      rw [ha, hb]
      simp only [not_true_eq_false, or_self, if_false]
      cases rel <;> cases abs <;> simp [intTolNum]
    · have hcomp : ¬ shapesCompatible a.shape b.shape = true := fun hh => hc (hiff.mpr hh)
      simp [hc, hcomp]

end Fc
