/-
  FcProofs.Lemmas.PyLiteC11 — presentation of the C11 model's values (FcModel/Compare.lean) to PyLite.
-/
import FcModel.Compare
import FcProofs.Lemmas.PyLite
namespace Fc.PyLite.C11
open Fc.PyLite

/-- member name of a `FieldComparisonStatus` (the inductive is regenerated from the enum's source) -/
def fstName : FStatus → String
  | .passed => "passed" | .failed => "failed" | .error => "error"
  | .missing_source => "missing_source" | .missing_reference => "missing_reference" | .filtered => "filtered"

def fstVal (s : FStatus) : Val := .enum "FieldComparisonStatus" (fstName s)

/-- a `FieldComparison` -/
def cmpVal (c : Cmp) : Val := .record [("name", .int c.name), ("status", fstVal c.status)]

/-- a `PredicateResult` with the given value: `__bool__` returns `self.value` -/
def predResultVal (b : Bool) : Val := .record [("value", .bool b), ("__bool__", .bool b)]

/-- a `FieldComparisonSuite` object: `_domain_eq_check`, the three lists, and the property
    `num_failed` (= `len(self._failed)`) -/
def suiteVal (s : Suite) : Val :=
  .record [("_domain_eq_check", predResultVal s.domainEq),
           ("_passed", .list (s.passed.map cmpVal)), ("_failed", .list (s.failed.map cmpVal)),
           ("_skipped", .list (s.skipped.map cmpVal)), ("num_failed", .int s.failed.length)]

end Fc.PyLite.C11
