/-
  FcProofs.Lemmas.PyLiteC15 — presentation of the C15 model's values (FcModel/Seq.lean) to PyLite.
-/
import FcModel.Seq
import FcProofs.Lemmas.PyLite
namespace Fc.PyLite.C15
open Fc.PyLite

/-- member name of a `TestStatus` (the inductive is regenerated from the enum's source) -/
def tsName : TStatus → String
  | .passed => "passed" | .failed => "failed" | .error => "error" | .skipped => "skipped"

def tsVal (s : TStatus) : Val := .enum "TestStatus" (tsName s)

/-- `TestStatus | None` -/
def optTsVal : Option TStatus → Val
  | some s => tsVal s
  | none => .none

/-- a `TestResult`, as far as it is read: its `status` -/
def testVal (r : TStatus) : Val := .record [("status", tsVal r)]

/-- a `TestSuite` object: `_tests`, `_status` -/
def suiteVal (s : TSuite) : Val :=
  .record [("_tests", .list (s.tests.map testVal)), ("_status", optTsVal s.status)]

/-- the same object used in a boolean context: its truth value `b` is what `TestSuite.__bool__` returns
    (`C15_source_test_suite_bool`: `s.bool`) -/
def suiteValB (s : TSuite) (b : Bool) : Val :=
  .record [("_tests", .list (s.tests.map testVal)), ("_status", optTsVal s.status), ("__bool__", .bool b)]

end Fc.PyLite.C15
