/-
  FcProofs.Lemmas.PyLiteC15 — presentation of the C15 model's values (FcModel/Seq.lean) to PyLite.
-/
import FcModel.Seq
import FcProofs.Lemmas.PyLite
namespace Fc.PyLite.C15
open Fc.PyLite

/-- member name of a `TestStatus` (the inductive is regenerated from the enum's source) -/
def tsName : TStatus → String
  | .passed => "passed" | .failed => "failed" | .error => "error" | .skipped => "skipped"

def tsVal (s : TStatus) : Val := .enum "TestStatus" (tsName s)

/-- `TestStatus | None` -/
def optTsVal : Option TStatus → Val
  | some s => tsVal s
  | none => .none

/-- a `TestResult`, as far as it is read: its `status` -/
def testVal (r : TStatus) : Val := .record [("status", tsVal r)]

/-- a `TestSuite` object: `_tests`, `_status` -/
def suiteVal (s : TSuite) : Val :=
  .record [("_tests", .list (s.tests.map testVal)), ("_status", optTsVal s.status)]

/-- the same object used in a boolean context: its truth value `b` is what `TestSuite.__bool__` returns
    (`C15_source_test_suite_bool`: `s.bool`) -/
def suiteValB (s : TSuite) (b : Bool) : Val :=
  .record [("_tests", .list (s.tests.map testVal)), ("_status", optTsVal s.status), ("__bool__", .bool b)]

/-! explicit readings of the three rules (the model's versions are built over tables that are themselves
    regenerated from the source; these are not) -/

/-- `failed` and `error` are the statuses that make a suite fail -/
def isBad : TStatus → Bool
  | .failed => true | .error => true | _ => false

def boolSpec (s : TSuite) : Bool :=
  match s.status with
  | some r => !isBad r
  | none => s.tests.all fun t => !isBad t

def statusSpec (s : TSuite) : TStatus :=
  match s.status with
  | some r => r
  | none => if boolSpec s then .passed else .failed

/-- failed beats error beats skipped; otherwise no explicit status -/
def mergedSpec (r1 r2 : Option TStatus) : Option TStatus :=
  if r1 = some .failed ∨ r2 = some .failed then some .failed
  else if r1 = some .error ∨ r2 = some .error then some .error
  else if r1 = some .skipped ∨ r2 = some .skipped then some .skipped
  else none

end Fc.PyLite.C15
