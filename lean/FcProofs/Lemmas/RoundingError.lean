/-
  FcProofs.Lemmas.RoundingError — R5: round-to-nearest error bounds of `Fc.rne / rndRaw`.
-/
import FcProofs.Lemmas.Rounding
namespace Fc

/-- half-ulp property of integer RNE: `|rneP a p · p − a| ≤ p/2` (doubled, in ℕ) -/
theorem rneP_half (a p : Nat) (hp : 0 < p) :
    2 * (rneP a p * p) ≤ 2 * a + p ∧ 2 * a ≤ 2 * (rneP a p * p) + p := by
  have hd := Nat.div_add_mod a p
  have hr := Nat.mod_lt a hp
  unfold rneP
  simp only
  by_cases c1 : 2 * (a % p) < p
  · simp only [c1, if_true]
    rw [Nat.mul_comm (a / p) p]
    omega
  · simp only [c1, if_false]
    have hsucc : (a / p + 1) * p = p * (a / p) + p := by rw [Nat.add_mul, Nat.mul_comm]; simp
    by_cases c2 : p < 2 * (a % p)
    · simp only [c2, if_true]
      rw [hsucc]; omega
    · simp only [c2, if_false]
      by_cases c3 : a / p % 2 = 0
      · simp only [c3, if_true]
        rw [Nat.mul_comm (a / p) p]; omega
      · simp only [c3, if_false]
        rw [hsucc]; omega

/-- the rounded value, re-scaled to the input's scale: `rndRaw F a s · 2^s = rne a sh · 2^sh` -/
theorem rndRaw_rescale (F : Fmt) (a s : Nat) :
    rndRaw F a s * 2 ^ s = rne a (ulpShift F a s) * 2 ^ (ulpShift F a s) := by
  unfold rndRaw
  simp only
  have h := ulpShift_ge F a s
  rw [Nat.mul_assoc, ← Nat.pow_add]
  congr 2
  omega

/-- R5 (absolute form): the rounding error is at most half an ulp `2^sh` -/
theorem rndRaw_error (F : Fmt) (a s : Nat) :
    2 * (rndRaw F a s * 2 ^ s) ≤ 2 * a + 2 ^ ulpShift F a s ∧
    2 * a ≤ 2 * (rndRaw F a s * 2 ^ s) + 2 ^ ulpShift F a s := by
  rw [rndRaw_rescale, rne_eq_rneP]
  exact rneP_half a _ (two_pow_pos' _)

/-- the ulp is either the format's smallest quantum or at most `a · 2^-(prec-1)` -/
theorem ulp_bound (F : Fmt) (a s : Nat) (ha : a ≠ 0) :
    ulpShift F a s = F.q + s ∨ 2 ^ ulpShift F a s * 2 ^ (F.prec - 1) ≤ a := by
  by_cases h : a.log2 - (F.prec - 1) ≤ F.q + s
  · left; unfold ulpShift; omega
  · right
    have hs : ulpShift F a s = a.log2 - (F.prec - 1) := by unfold ulpShift; omega
    rw [hs, ← Nat.pow_add]
    have : a.log2 - (F.prec - 1) + (F.prec - 1) = a.log2 := by omega
    rw [this]
    exact Nat.log2_self_le ha

end Fc
