import FcProofs.Lemmas.Diff
namespace Fc.C14
section Dict
variable {κ : Type} [BEq κ] [LawfulBEq κ] {ν μ : Type}

def keysOf (l : List (κ × ν)) : List κ := l.map (·.1)

theorem dictGet_append (k : κ) (a b : List (κ × ν)) :
    dictGet k (a ++ b) = (dictGet k a).orElse (fun _ => dictGet k b) := by
  induction a with
  | nil => simp [dictGet]
  | cons x xs ih =>
    obtain ⟨k', v'⟩ := x
    simp only [List.cons_append, dictGet]
    split <;> simp [ih]

theorem keysOf_cons (x : κ × ν) (xs : List (κ × ν)) : keysOf (x :: xs) = x.1 :: keysOf xs := rfl
theorem keysOf_nil : keysOf ([] : List (κ × ν)) = [] := rfl
theorem keysOf_append (a b : List (κ × ν)) : keysOf (a ++ b) = keysOf a ++ keysOf b := by
  simp [keysOf]

theorem dictGet_none_iff (k : κ) (l : List (κ × ν)) : dictGet k l = none ↔ k ∉ keysOf l := by
  induction l with
  | nil => simp [dictGet, keysOf_nil]
  | cons x xs ih =>
    obtain ⟨k', v'⟩ := x
    rw [keysOf_cons, List.mem_cons, dictGet]
    by_cases h : k' == k
    · have e := eq_of_beq h
      subst e
      simp
    · have hne : ¬ k = k' := fun e => h (by subst e; simp)
      simp only [h, hne, false_or]
      exact ih

theorem dictGet_map_val (f : ν → μ) (k : κ) (l : List (κ × ν)) :
    dictGet k (l.map (fun kv => (kv.1, f kv.2))) = (dictGet k l).map f := by
  induction l with
  | nil => simp [dictGet]
  | cons x xs ih =>
    obtain ⟨k', v'⟩ := x
    simp only [List.map_cons, dictGet]
    split <;> simp [ih]

theorem dictGet_mem {k : κ} {v : ν} {l : List (κ × ν)} (h : dictGet k l = some v) : (k, v) ∈ l := by
  induction l with
  | nil => simp [dictGet] at h
  | cons x xs ih =>
    obtain ⟨k', v'⟩ := x
    simp only [dictGet] at h
    by_cases hk : k' == k
    · simp [hk] at h; subst h; have := eq_of_beq hk; subst this; simp
    · simp [hk] at h; exact List.mem_cons_of_mem _ (ih h)

theorem dictInsert_notin (k : κ) (v : ν) (d : List (κ × ν)) (h : k ∉ keysOf d) :
    dictInsert k v d = d ++ [(k, v)] := by
  induction d with
  | nil => simp [dictInsert]
  | cons x xs ih =>
    obtain ⟨k', v'⟩ := x
    rw [keysOf_cons, List.mem_cons, not_or] at h
    have hk : (k' == k) = false := by
      cases hkk : k' == k
      · rfl
      · exact absurd (eq_of_beq hkk).symm h.1
    simp only [dictInsert, hk, List.cons_append]
    rw [ih h.2]
    rfl

theorem foldl_dictInsert_nodup (acc l : List (κ × ν)) (h : (keysOf (acc ++ l)).Nodup) :
    l.foldl (fun d kv => dictInsert kv.1 kv.2 d) acc = acc ++ l := by
  induction l generalizing acc with
  | nil => simp
  | cons x xs ih =>
    simp only [List.foldl_cons]
    have hx : x.1 ∉ keysOf acc := by
      rw [keysOf_append, keysOf_cons] at h
      have := List.nodup_append.mp h
      intro hm
      exact this.2.2 _ hm _ (List.mem_cons_self) rfl
    rw [dictInsert_notin _ _ _ hx]
    have : acc ++ [(x.1, x.2)] ++ xs = acc ++ x :: xs := by simp
    rw [ih]
    · exact this
    · rw [this]; exact h

theorem dictFromList_nodup (l : List (κ × ν)) (h : (keysOf l).Nodup) : dictFromList l = l := by
  unfold dictFromList
  have := foldl_dictInsert_nodup [] l (by simpa using h)
  simpa using this

end Dict
end Fc.C14

namespace Fc.C14
section Matching
variable {κ : Type} [BEq κ] [LawfulBEq κ] {ν : Type}

theorem removeFirst_key_none {k : κ} {l : List (κ × ν)} (h : dictGet k l = none) :
    removeFirst (fun t => k == t.1) l = none := by
  induction l with
  | nil => rfl
  | cons x xs ih =>
    obtain ⟨k', v'⟩ := x
    simp only [dictGet] at h
    by_cases hk : k' == k
    · simp [hk] at h
    · simp only [hk] at h
      have hk2 : (k == k') = false := by
        cases e : k == k'
        · rfl
        · exact absurd (by rw [eq_of_beq e]; simp) hk
      simp [removeFirst, hk2, ih h]

theorem removeFirst_key_some {k : κ} {v : ν} {l : List (κ × ν)} (hnd : (keysOf l).Nodup)
    (h : dictGet k l = some v) :
    ∃ l', removeFirst (fun t => k == t.1) l = some ((k, v), l') ∧ (keysOf l').Nodup ∧
      (∀ k', dictGet k' l' = if k' == k then none else dictGet k' l) ∧ l'.Sublist l := by
  induction l with
  | nil => simp [dictGet] at h
  | cons x xs ih =>
    obtain ⟨k', v'⟩ := x
    rw [keysOf_cons, List.nodup_cons] at hnd
    simp only [dictGet] at h
    by_cases hk : k' == k
    · have e := eq_of_beq hk
      subst e
      simp at h
      subst h
      refine ⟨xs, by simp [removeFirst], hnd.2, ?_, List.sublist_cons_self _ _⟩
      intro k''
      by_cases h2 : k'' == k'
      · have e := eq_of_beq h2
        subst e
        simp
        exact (dictGet_none_iff _ _).mpr hnd.1
      · have h3 : (k' == k'') = false := by
          cases e : k' == k''
          · rfl
          · exact absurd (by rw [eq_of_beq e]; simp) h2
        simp [h2, dictGet, h3]
    · simp only [hk] at h
      have hk2 : (k == k') = false := by
        cases e : k == k'
        · rfl
        · exact absurd (by rw [eq_of_beq e]; simp) hk
      obtain ⟨l', hr, hn, hl, hs⟩ := ih hnd.2 h
      refine ⟨(k', v') :: l', by simp [removeFirst, hk2, hr], ?_, ?_, List.Sublist.cons₂ _ hs⟩
      · rw [keysOf_cons, List.nodup_cons]
        refine ⟨?_, hn⟩
        intro hm
        have : k' ∈ keysOf xs := (List.Sublist.map (·.1) hs).subset hm
        exact hnd.1 this
      · intro k''
        simp only [dictGet]
        by_cases h4 : k' == k''
        · have e := eq_of_beq h4
          subst e
          simp [hk]
        · simp only [h4]
          exact hl k''

end Matching
end Fc.C14

namespace Fc.C14
section Matching2
variable {κ : Type} [BEq κ] [LawfulBEq κ] {ν : Type}

def matchedKV (m : MatchResult (κ × ν) (κ × ν)) : List (κ × (ν × ν)) :=
  m.matched.map fun p => (p.1.1, (p.1.2, p.2.2))

theorem beq_false_symm {a b : κ} (h : (a == b) = false) : (b == a) = false := by
  cases e : b == a
  · rfl
  · rw [eq_of_beq e] at h; simp at h

/-- `find_matches` on name-keyed lists with distinct names, characterised by lookups -/
theorem findMatches_spec (l1 l2 : List (κ × ν)) (h1 : (keysOf l1).Nodup) (h2 : (keysOf l2).Nodup) :
    let m := findMatches (fun (a b : κ × ν) => a.1 == b.1) l1 l2
    (∀ k, dictGet k (matchedKV m) = (dictGet k l1).bind fun a1 => (dictGet k l2).map fun a2 => (a1, a2)) ∧
    (∀ k, dictGet k m.orphansSource = if (dictGet k l2).isSome then none else dictGet k l1) ∧
    (∀ k, dictGet k m.orphansReference = if (dictGet k l1).isSome then none else dictGet k l2) ∧
    (keysOf (matchedKV m) ++ keysOf m.orphansSource).Perm (keysOf l1) ∧
    m.orphansReference.Sublist l2 := by
  induction l1 generalizing l2 with
  | nil =>
    simp [findMatches, matchedKV, dictGet, keysOf_nil]
  | cons s ss ih =>
    obtain ⟨ks, a1⟩ := s
    rw [keysOf_cons, List.nodup_cons] at h1
    have hks : dictGet ks ss = none := (dictGet_none_iff _ _).mpr h1.1
    rcases hg : dictGet ks l2 with _ | a2
    · -- no partner: `s` is an orphan
      have hr := removeFirst_key_none hg
      obtain ⟨iha, ihb, ihc, ihp, ihs⟩ := ih l2 h1.2 h2
      simp only [findMatches, hr]
      refine ⟨?_, ?_, ?_, ?_, ihs⟩
      · intro k
        simp only [matchedKV] at iha ⊢
        rw [iha k]
        simp only [dictGet]
        by_cases hk : ks == k
        · have e := eq_of_beq hk; subst e
          simp [hks, hg]
        · simp [hk]
      · intro k
        simp only [dictGet]
        by_cases hk : ks == k
        · have e := eq_of_beq hk; subst e
          simp [hg]
        · simp only [hk]
          exact ihb k
      · intro k
        rw [ihc k]
        simp only [dictGet]
        by_cases hk : ks == k
        · have e := eq_of_beq hk; subst e
          simp [hks, hg]
        · simp [hk]
      · simp only [matchedKV, keysOf_cons] at ihp ⊢
        exact (List.perm_middle).trans (List.Perm.cons _ ihp)
    · -- partner found and removed from the reference list
      obtain ⟨l2', hr, hn', hl', hs'⟩ := removeFirst_key_some h2 hg
      obtain ⟨iha, ihb, ihc, ihp, ihs⟩ := ih l2' h1.2 hn'
      simp only [findMatches, hr]
      refine ⟨?_, ?_, ?_, ?_, ihs.trans hs'⟩
      · intro k
        simp only [matchedKV, List.map_cons, dictGet] at iha ⊢
        by_cases hk : ks == k
        · have e := eq_of_beq hk; subst e
          simp [hg]
        · simp only [hk]
          rw [iha k, hl' k]
          have : (k == ks) = false := beq_false_symm (by simpa using hk)
          simp [this]
      · intro k
        rw [ihb k, hl' k]
        simp only [dictGet]
        by_cases hk : ks == k
        · have e := eq_of_beq hk; subst e
          simp [hg, hks]
        · have : (k == ks) = false := beq_false_symm (by simpa using hk)
          simp [hk, this]
      · intro k
        rw [ihc k, hl' k]
        simp only [dictGet]
        by_cases hk : ks == k
        · have e := eq_of_beq hk; subst e
          simp [hks]
        · have : (k == ks) = false := beq_false_symm (by simpa using hk)
          simp [hk, this]
      · simp only [matchedKV, List.map_cons, keysOf_cons, List.cons_append] at ihp ⊢
        exact List.Perm.cons _ ihp

end Matching2
end Fc.C14

namespace Fc.C14
section Entries
variable {κ : Type} [BEq κ] [LawfulBEq κ]

theorem dictGet_of_mem_nodup {ν : Type} {k : κ} {v : ν} {l : List (κ × ν)} (hnd : (keysOf l).Nodup)
    (hm : (k, v) ∈ l) : dictGet k l = some v := by
  induction l with
  | nil => simp at hm
  | cons x xs ih =>
    obtain ⟨k', v'⟩ := x
    rw [keysOf_cons, List.nodup_cons] at hnd
    simp only [dictGet]
    rcases List.mem_cons.mp hm with e | hm'
    · cases e; simp
    · have hk : (k' == k) = false := by
        cases e : k' == k
        · rfl
        · have := eq_of_beq e
          subst this
          exact absurd (List.mem_map_of_mem (f := (·.1)) hm') hnd.1
      simp only [hk]
      exact ih hnd.2 hm'

/-- what C14 demands for one key, given the lookups on the reference (`r`) and the source (`s`) side -/
def specEntry (r s : Option NdArr) : Option DArr :=
  match r, s with
  | some a1, some a2 => subArr a1 a2
  | some a1, none => some (nanLike a1)
  | none, some a2 => some (nanLike a2)
  | none, none => none

/-- hypothesis on two keyed field lists: distinct keys; common keys have equal shapes and a defined difference -/
structure ListsOk (l1 l2 : List (κ × NdArr)) : Prop where
  nd1 : (keysOf l1).Nodup
  nd2 : (keysOf l2).Nodup
  common : ∀ k a1 a2, dictGet k l1 = some a1 → dictGet k l2 = some a2 →
    a1.shape = a2.shape ∧ (subArr a1 a2).isSome = true

theorem subMatches_spec (L : List ((κ × NdArr) × (κ × NdArr)))
    (h : ∀ p ∈ L, p.1.2.shape = p.2.2.shape ∧ (subArr p.1.2 p.2.2).isSome = true) :
    ∃ ds, subMatches L = some ds ∧ keysOf ds = L.map (·.1.1) ∧
      ∀ k, dictGet k ds =
        (dictGet k (L.map fun p => (p.1.1, (p.1.2, p.2.2)))).bind (fun aa => subArr aa.1 aa.2) := by
  induction L with
  | nil => exact ⟨[], rfl, rfl, fun k => by simp [dictGet]⟩
  | cons p ps ih =>
    obtain ⟨⟨k1, a1⟩, ⟨k2, a2⟩⟩ := p
    obtain ⟨ds, hds, hk, hl⟩ := ih (fun q hq => h q (List.mem_cons_of_mem _ hq))
    have hp := h ((k1, a1), (k2, a2)) List.mem_cons_self
    simp only at hp
    rcases hsub : subArr a1 a2 with _ | d
    · rw [hsub] at hp; simp at hp
    · refine ⟨(k1, d) :: ds, ?_, ?_, ?_⟩
      · simp [subMatches, hp.1, hsub, hds]
      · simp [keysOf_cons, hk]
      · intro k
        simp only [List.map_cons, dictGet]
        by_cases e : k1 == k
        · simp [e, hsub]
        · simp only [e]
          exact hl k

theorem diffEntries_spec (l1 l2 : List (κ × NdArr)) (ok : ListsOk l1 l2) :
    ∃ es, diffEntries l1 l2 = some es ∧ (keysOf es).Nodup ∧
      ∀ k, dictGet k es = specEntry (dictGet k l1) (dictGet k l2) := by
  obtain ⟨ha, hb, hc, hp, hs⟩ := findMatches_spec l1 l2 ok.nd1 ok.nd2
  generalize hm : findMatches (fun (a b : κ × NdArr) => a.1 == b.1) l1 l2 = m at ha hb hc hp hs
  have hnd12 : (keysOf (matchedKV m) ++ keysOf m.orphansSource).Nodup := (List.Perm.nodup_iff hp).mpr ok.nd1
  have hndM : (keysOf (matchedKV m)).Nodup := (List.nodup_append.mp hnd12).1
  -- every matched pair is a pair of lookups
  have hpairs : ∀ p ∈ m.matched, p.1.2.shape = p.2.2.shape ∧ (subArr p.1.2 p.2.2).isSome = true := by
    intro p hpm
    have hmem : (p.1.1, (p.1.2, p.2.2)) ∈ matchedKV m := by
      simp only [matchedKV]
      exact List.mem_map_of_mem (f := fun p : (κ × NdArr) × (κ × NdArr) => (p.1.1, (p.1.2, p.2.2))) hpm
    have hg := dictGet_of_mem_nodup hndM hmem
    rw [ha] at hg
    rcases h1 : dictGet p.1.1 l1 with _ | a1
    · rw [h1] at hg; simp at hg
    · rcases h2 : dictGet p.1.1 l2 with _ | a2
      · rw [h1, h2] at hg; simp at hg
      · rw [h1, h2] at hg
        simp at hg
        rw [← hg.1, ← hg.2]
        exact ok.common _ _ _ h1 h2
  obtain ⟨ds, hds, hkds, hlds⟩ := subMatches_spec m.matched hpairs
  refine ⟨ds ++ m.orphansSource.map (fun f => (f.1, nanLike f.2)) ++ m.orphansReference.map (fun f => (f.1, nanLike f.2)),
    ?_, ?_, ?_⟩
  · simp only [diffEntries, hm, hds]
  · -- distinct keys
    have hk1 : keysOf (m.orphansSource.map (fun f => (f.1, nanLike f.2))) = keysOf m.orphansSource := by
      simp [keysOf]
    have hk2 : keysOf (m.orphansReference.map (fun f => (f.1, nanLike f.2))) = keysOf m.orphansReference := by
      simp [keysOf]
    have hkM : keysOf ds = keysOf (matchedKV m) := by
      rw [hkds]; simp [keysOf, matchedKV]
    rw [keysOf_append, keysOf_append, hk1, hk2, hkM]
    refine List.nodup_append.mpr ⟨hnd12, ?_, ?_⟩
    · have hsub : (keysOf m.orphansReference).Sublist (keysOf l2) := List.Sublist.map (fun x : κ × NdArr => x.1) hs
      exact hsub.nodup ok.nd2
    · intro a ha1 b hb1 hab
      subst hab
      -- `a` is a key of an orphan of the reference list: then it is not a key of `l1`
      have h3 : dictGet a m.orphansReference ≠ none := by
        intro hnone
        exact ((dictGet_none_iff _ _).mp hnone) hb1
      rw [hc] at h3
      have h4 : dictGet a l1 = none := by
        rcases hx : dictGet a l1 with _ | y
        · rfl
        · rw [hx] at h3; simp at h3
      have : a ∉ keysOf l1 := (dictGet_none_iff _ _).mp h4
      exact this ((List.Perm.mem_iff hp).mp ha1)
  · intro k
    rw [dictGet_append, dictGet_append, hlds k]
    have e1 := dictGet_map_val (fun a : NdArr => nanLike a) k m.orphansSource
    have e2 := dictGet_map_val (fun a : NdArr => nanLike a) k m.orphansReference
    rw [e1, e2, hb k, hc k]
    have hak := ha k
    simp only [matchedKV] at hak
    rw [hak]
    rcases h1 : dictGet k l1 with _ | a1 <;> rcases h2 : dictGet k l2 with _ | a2 <;> simp [specEntry]

end Entries
end Fc.C14
