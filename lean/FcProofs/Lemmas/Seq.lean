/-
  Lemmas for C15: closed forms of the iteration loop and of the generator machine, zip of two iterations,
  truth value of merged suites.
-/
import FcModel.Spec.C15
namespace Fc

/-! ### iteration -/

theorem iterLoop_closed (k : Nat) : ∀ (n c : Nat), n - c = k →
    iterLoop ⟨n, c⟩ = ((List.range' (c + 1) (n - (c + 1))).map some, ⟨n, max (c + 1) n⟩) := by
  induction k with
  | zero =>
    intro n c h
    unfold iterLoop
    have : ¬ (c + 1 < n) := by omega
    simp only [this, dite_false, Src.step]
    have h0 : n - (c + 1) = 0 := by omega
    have h1 : max (c + 1) n = c + 1 := by omega
    simp [h0, h1]
  | succ k ih =>
    intro n c h
    unfold iterLoop
    by_cases hc : c + 1 < n
    · simp only [hc, dite_true, Src.step]
      rw [ih n (c + 1) (by omega)]
      have hg : Src.get ⟨n, c + 1⟩ = some (c + 1) := by simp [Src.get, hc]
      have hl : n - (c + 1) = (n - (c + 1 + 1)) + 1 := by omega
      have hm : max (c + 1 + 1) n = max (c + 1) n := by omega
      rw [hg, hm]
      conv => rhs; rw [hl, List.range'_succ]
      simp
    · simp only [hc, dite_false, Src.step]
      have h0 : n - (c + 1) = 0 := by omega
      have h1 : max (c + 1) n = c + 1 := by omega
      simp [h0, h1]

theorem iterSeq_closed (n c : Nat) (hn : 1 ≤ n) :
    iterSeq ⟨n, c⟩ = ((List.range n).map some, ⟨n, n⟩) := by
  obtain ⟨m, rfl⟩ : ∃ m, n = m + 1 := ⟨n - 1, by omega⟩
  unfold iterSeq
  simp only [Src.reset]
  rw [iterLoop_closed (m + 1 - 0) (m + 1) 0 rfl]
  have hg : Src.get ⟨m + 1, 0⟩ = some 0 := by simp [Src.get]
  have hm : max (0 + 1) (m + 1) = m + 1 := by omega
  rw [hg, hm, List.range_eq_range', List.range'_succ]
  simp

/-- what a caller sees from ONE generator over `k` calls of `next`: the (q+1)-th call yields step q while
    q < n, afterwards StopIteration -/
def expectedEvents (n k : Nat) : List Ev :=
  (List.range k).map (fun q => if q < n then Ev.yield q else Ev.stop)

theorem genRun_n (k : Nat) : ∀ (s : Src) (g : GenSt), (genRun s g k).2.1.n = s.n := by
  induction k with
  | zero => intro s g; rfl
  | succ k ih =>
    intro s g
    simp only [genRun]
    rw [ih]
    cases g with
    | fresh =>
      simp only [genNext, Src.reset]
      cases h : Src.get ⟨s.n, 0⟩ <;> rfl
    | running =>
      simp only [genNext, Src.step]
      by_cases hc : s.cur + 1 < s.n
      · simp only [hc, decide_true, if_true]
        cases h : Src.get ⟨s.n, s.cur + 1⟩ <;> rfl
      · simp [hc]
    | done => rfl

theorem genRun_done (k : Nat) (s : Src) : (genRun s .done k).1 = (List.range k).map (fun _ => Ev.stop) := by
  induction k with
  | zero => rfl
  | succ k ih =>
    simp only [genRun, genNext, ih, List.range_succ_eq_map, List.map_cons, List.map_map]
    rfl

/-- a running generator that last yielded step `i` (cursor = i) -/
theorem genRun_running (k : Nat) : ∀ (n i : Nat),
    (genRun ⟨n, i⟩ .running k).1 =
      (List.range k).map (fun q => if i + 1 + q < n then Ev.yield (i + 1 + q) else Ev.stop) := by
  induction k with
  | zero => intro n i; rfl
  | succ k ih =>
    intro n i
    rw [List.range_succ_eq_map, List.map_cons, List.map_map]
    by_cases hc : i + 1 < n
    · simp only [genRun, genNext, Src.step, hc, decide_true, if_true, Src.get, Nat.add_zero]
      rw [ih n (i + 1)]
      congr 1
      apply List.map_congr_left
      intro q _
      simp only [Function.comp, Nat.succ_eq_add_one]
      rw [show i + 1 + 1 + q = i + 1 + (q + 1) by omega]
    · simp only [genRun, genNext, Src.step, hc, decide_false, Bool.false_eq_true, if_false, Nat.add_zero]
      rw [genRun_done]
      congr 1
      apply List.map_congr_left
      intro q _
      have : ¬ (i + 1 + (q + 1) < n) := by omega
      simp [Function.comp, this]

theorem genRun_fresh (n c k : Nat) (hn : 1 ≤ n) : (genRun ⟨n, c⟩ .fresh k).1 = expectedEvents n k := by
  cases k with
  | zero => rfl
  | succ k =>
    have hg : Src.get ⟨n, 0⟩ = some 0 := by simp [Src.get]; omega
    simp only [genRun, genNext, Src.reset, hg, expectedEvents]
    rw [genRun_running, List.range_succ_eq_map, List.map_cons, List.map_map]
    have h0 : (0 : Nat) < n := by omega
    simp only [h0, if_true]
    congr 1
    apply List.map_congr_left
    intro q _
    simp only [Function.comp, Nat.succ_eq_add_one]
    rw [show 0 + 1 + q = q + 1 by omega]

/-! ### the driver's history function restricted to one generator is `genRun` -/

theorem setAt_get {α} (l : List α) (g : Nat) (v w : α) (h : l[g]? = some w) : (setAt l g v)[g]? = some v := by
  induction l generalizing g with
  | nil => simp at h
  | cons x xs ih =>
    cases g with
    | zero => simp [setAt]
    | succ g =>
      simp only [setAt, List.getElem?_cons_succ] at h ⊢
      exact ih g h

theorem runHist_replicate (k : Nat) : ∀ (s : Src) (gens : List GenSt) (g : Nat) (st : GenSt),
    gens[g]? = some st →
    (runHist s gens (List.replicate k g)).1.map (fun e => e.2.1) = (genRun s st k).1 := by
  induction k with
  | zero => intro s gens g st _; rfl
  | succ k ih =>
    intro s gens g st h
    simp only [List.replicate_succ, runHist, h, genRun, List.map_cons]
    congr 1
    exact ih _ _ g _ (setAt_get gens g _ st h)

/-! ### zip of two complete iterations -/

theorem zipOpt_some : ∀ (l1 l2 : List Nat), zipOpt (l1.map some) (l2.map some) = some (List.zip l1 l2) := by
  intro l1
  induction l1 with
  | nil => intro l2; simp [zipOpt]
  | cons a as ih =>
    intro l2
    cases l2 with
    | nil => simp [zipOpt]
    | cons b bs => simp [zipOpt, ih bs]

theorem zip_range (a b : Nat) : List.zip (List.range a) (List.range b) = (List.range (min a b)).map (fun i => (i, i)) := by
  apply List.ext_getElem
  · simp
  · intro i h1 h2
    simp

/-! ### truth value of suites and merges -/

theorem bool_eq_tsTrue_statusProp (s : TSuite) : s.bool = tsTrue s.statusProp := by
  obtain ⟨tests, status⟩ := s
  cases status with
  | some r => rfl
  | none =>
    simp only [TSuite.statusProp, TSuite.bool]
    by_cases h : tests.all tsTrue = true
    · simp only [h, if_true]; decide
    · simp only [h, Bool.false_eq_true, if_false]
      decide

/-- a failing operand makes the merged status a failing status -/
theorem mergedResult_sticky (a b : TStatus) (h : tsTrue a = false ∨ tsTrue b = false) :
    (mergedResult (some a) (some b)).map tsTrue = some false := by
  cases a <;> cases b <;> simp [tsTrue, Gen.testSuiteFalsy] at h <;> decide

/-- two passing operands merge to `skipped` or to no status at all -/
theorem mergedResult_pass (a b : TStatus) (ha : tsTrue a = true) (hb : tsTrue b = true) :
    mergedResult (some a) (some b) = some .skipped ∨ mergedResult (some a) (some b) = none := by
  cases a <;> cases b <;> simp [tsTrue, Gen.testSuiteFalsy] at ha hb <;> decide

theorem merge_sticky (s1 s2 : TSuite) (h : s1.bool = false ∨ s2.bool = false) :
    (mergeSuites s1 s2).bool = false := by
  rw [bool_eq_tsTrue_statusProp s1, bool_eq_tsTrue_statusProp s2] at h
  have hm := mergedResult_sticky _ _ h
  cases hr : mergedResult (some s1.statusProp) (some s2.statusProp) with
  | none => rw [hr] at hm; simp at hm
  | some r =>
    rw [hr] at hm
    simp only [Option.map_some, Option.some.injEq] at hm
    simp [mergeSuites, TSuite.bool, hr, hm]

theorem merge_bool (s1 s2 : TSuite) (c1 : Spec.consistent s1 = true) (c2 : Spec.consistent s2 = true) :
    (mergeSuites s1 s2).bool = (s1.bool && s2.bool) ∧ Spec.consistent (mergeSuites s1 s2) = true := by
  by_cases h1 : s1.bool = true
  · by_cases h2 : s2.bool = true
    · have t1 : s1.tests.all tsTrue = true := by simpa [Spec.consistent, h1] using c1
      have t2 : s2.tests.all tsTrue = true := by simpa [Spec.consistent, h2] using c2
      have tt : (s1.tests ++ s2.tests).all tsTrue = true := by simp [List.all_append, t1, t2]
      have hb : (mergeSuites s1 s2).bool = true := by
        rcases mergedResult_pass s1.statusProp s2.statusProp
          (by rw [← bool_eq_tsTrue_statusProp]; exact h1) (by rw [← bool_eq_tsTrue_statusProp]; exact h2) with h | h
        · simp [mergeSuites, TSuite.bool, h, tsTrue, Gen.testSuiteFalsy]
        · simp [mergeSuites, TSuite.bool, h, tt]
      refine ⟨by rw [hb, h1, h2]; rfl, ?_⟩
      simp [Spec.consistent, mergeSuites, tt]
    · have hb := merge_sticky s1 s2 (Or.inr (by simpa using h2))
      refine ⟨by rw [hb]; simp [Bool.not_eq_true] at h2; simp [h2], by simp [Spec.consistent, hb]⟩
  · have hb := merge_sticky s1 s2 (Or.inl (by simpa using h1))
    refine ⟨by rw [hb]; simp [Bool.not_eq_true] at h1; simp [h1], by simp [Spec.consistent, hb]⟩

/-- the merge loop of `_compare_field_sequences` -/
def foldMerge (step : Nat → Nat → TSuite) (init : TSuite) (l : List (Nat × Nat)) : TSuite :=
  l.foldl (fun acc p => mergeSuites acc (step p.1 p.2)) init

theorem foldMerge_bool (step : Nat → Nat → TSuite) (l : List (Nat × Nat)) : ∀ (init : TSuite),
    Spec.consistent init = true → (∀ p ∈ l, Spec.consistent (step p.1 p.2) = true) →
    (foldMerge step init l).bool = (init.bool && l.all (fun p => (step p.1 p.2).bool)) := by
  induction l with
  | nil => intro init _ _; simp [foldMerge]
  | cons p ps ih =>
    intro init hi hl
    have hm := merge_bool init (step p.1 p.2) hi (hl p (List.mem_cons_self))
    have := ih (mergeSuites init (step p.1 p.2)) hm.2 (fun q hq => hl q (List.mem_cons_of_mem _ hq))
    simp only [foldMerge, List.foldl_cons] at this ⊢
    rw [this, hm.1, List.all_cons, Bool.and_assoc]

/-- once the running suite is failing it stays failing, whatever the later steps return -/
theorem foldMerge_sticky (step : Nat → Nat → TSuite) (l : List (Nat × Nat)) : ∀ (init : TSuite),
    init.bool = false → (foldMerge step init l).bool = false := by
  induction l with
  | nil => intro init h; simpa [foldMerge] using h
  | cons p ps ih =>
    intro init h
    simp only [foldMerge, List.foldl_cons]
    exact ih _ (merge_sticky _ _ (Or.inl h))

/-- `compareSequences` for non-empty sequences without the well-founded iteration (kernel-evaluable) -/
def compareClosed (o : SeqOpts) (nRes nRef : Nat) (step : Nat → Nat → TSuite) : SeqResult :=
  let mismatch := nRes != nRef
  let check : Option TStatus := if mismatch && !o.ignoreMissing then some .failed else none
  if mismatch && !o.ignoreMissing && !o.force then .suite ⟨[], some .failed⟩ []
  else
    let pairs := (List.range (min nRes nRef)).map (fun i => (i, i))
    .suite (foldMerge step ⟨[], check⟩ pairs) pairs

theorem compareSequences_closed (o : SeqOpts) (nRes cRes nRef cRef : Nat) (h1 : 1 ≤ nRes) (h2 : 1 ≤ nRef)
    (step : Nat → Nat → TSuite) :
    compareSequences o ⟨nRes, cRes⟩ ⟨nRef, cRef⟩ step = compareClosed o nRes nRef step := by
  unfold compareSequences compareClosed
  rw [iterSeq_closed nRes cRes h1, iterSeq_closed nRef cRef h2]
  simp only [zipOpt_some, zip_range, foldMerge]

theorem iterSeq_empty (c : Nat) : (iterSeq ⟨0, c⟩).1 = [none] := by
  unfold iterSeq
  simp only [Src.reset]
  rw [iterLoop_closed 0 0 0 rfl]
  rfl

end Fc
