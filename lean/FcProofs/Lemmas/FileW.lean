/-
  Lemmas.FileW — from `writeVtu id F = some file` to the single elements of the file.
-/
import FcProofs.Lemmas.BytesW
namespace Fc.W

theorem mapM'_map_eq {α β γ} (f : α → Option β) (g : β → γ) (h : α → γ) :
    ∀ (l : List α) (l' : List β), mapM' f l = some l' → (∀ x ∈ l, ∀ y, f x = some y → g y = h x) →
      l'.map g = l.map h
  | [], l', hm, _ => by simp only [mapM', Option.some.injEq] at hm; subst hm; rfl
  | x :: r, l', hm, hx => by
    unfold mapM' at hm
    cases hfx : f x with
    | none => simp [hfx] at hm
    | some y =>
      cases hr : mapM' f r with
      | none => simp [hfx, hr] at hm
      | some ys =>
        simp only [hfx, hr, Option.some.injEq] at hm
        subst hm
        simp only [List.map_cons]
        rw [hx x (by simp) y hfx, mapM'_map_eq f g h r ys hr (fun z hz => hx z (by simp [hz]))]

theorem mapM'_all_some {α β} (f : α → Option β) : ∀ (l : List α) (l' : List β), mapM' f l = some l' →
    l.map f = l'.map some
  | [], l', hm => by simp only [mapM', Option.some.injEq] at hm; subst hm; rfl
  | x :: r, l', hm => by
    unfold mapM' at hm
    cases hfx : f x with
    | none => simp [hfx] at hm
    | some y =>
      cases hr : mapM' f r with
      | none => simp [hfx, hr] at hm
      | some ys =>
        simp only [hfx, hr, Option.some.injEq] at hm
        subst hm
        simp only [List.map_cons, hfx, mapM'_all_some f r ys hr]

/-- the components of a successfully written file -/
theorem writeVtu_parts (F : WFields) (file : VtuFile) (h : writeVtu id F = some file) :
    mapM' (fun (f : String × WArr) => makeDataArray f.1 f.2 none) F.pf = some file.pointData ∧
    makeDataArray "Coordinates" (pointArray id F) none = some file.points ∧
    cellsArray (!(allCells F.cells).isEmpty) "connectivity" F.conntype ((allCells F.cells).flatMap (·.2)) = some file.conn ∧
    cellsArray (!(allCells F.cells).isEmpty) "offsets" "int64"
        (runningSums 0 ((allCells F.cells).map (·.2.length))) = some file.offsets ∧
    (∃ tys, mapM' (fun (c : String × List Nat) => cellTypeIndex c.1) (allCells F.cells) = some tys ∧
        cellsArray (!(allCells F.cells).isEmpty) "types" "int64" tys = some file.types) ∧
    file.numPoints = F.points.length := by
  unfold writeVtu at h
  simp only at h
  split at h
  · rename_i pd cd pts conn offs tys h1 h2 h3 h4 h5 h6
    split at h
    · rename_i types h7
      simp only [Option.some.injEq] at h
      subst h
      exact ⟨h1, h3, h4, h5, ⟨tys, h6, h7⟩, rfl⟩
    · cases h
  · cases h

/-- an array the round trip is claimed for: well-formed (`WArr.wf`: registered item size, `rows·∏tail` items, every
    bit pattern fits the item size), one of the ten numeric dtypes, fewer than 2^64 payload bytes -/
structure ArrOk (a : WArr) : Prop where
  wf : a.wf = true
  small : a.items.length * dtypeSize a.dt < 256 ^ 8
  reg : a.dt ∈ ["int8", "int16", "int32", "int64", "uint8", "uint16", "uint32", "uint64", "float32", "float64"]

end Fc.W
