/-
  Lemmas.FileW — from `writeVtu id F = some file` to the single elements of the file.
-/
import FcProofs.Lemmas.BytesW
namespace Fc.W

theorem mapM'_map_eq {α β γ} (f : α → Option β) (g : β → γ) (h : α → γ) :
    ∀ (l : List α) (l' : List β), mapM' f l = some l' → (∀ x ∈ l, ∀ y, f x = some y → g y = h x) →
      l'.map g = l.map h
  | [], l', hm, _ => by simp only [mapM', Option.some.injEq] at hm; subst hm; rfl
  | x :: r, l', hm, hx => by
    unfold mapM' at hm
    cases hfx : f x with
    | none => simp [hfx] at hm
    | some y =>
      cases hr : mapM' f r with
      | none => simp [hfx, hr] at hm
      | some ys =>
        simp only [hfx, hr, Option.some.injEq] at hm
        subst hm
        simp only [List.map_cons]
        rw [hx x (by simp) y hfx, mapM'_map_eq f g h r ys hr (fun z hz => hx z (by simp [hz]))]

theorem mapM'_all_some {α β} (f : α → Option β) : ∀ (l : List α) (l' : List β), mapM' f l = some l' →
    l.map f = l'.map some
  | [], l', hm => by simp only [mapM', Option.some.injEq] at hm; subst hm; rfl
  | x :: r, l', hm => by
    unfold mapM' at hm
    cases hfx : f x with
    | none => simp [hfx] at hm
    | some y =>
      cases hr : mapM' f r with
      | none => simp [hfx, hr] at hm
      | some ys =>
        simp only [hfx, hr, Option.some.injEq] at hm
        subst hm
        simp only [List.map_cons, hfx, mapM'_all_some f r ys hr]

/-- the components of a successfully written file -/
theorem writeVtu_parts (F : WFields) (file : VtuFile) (h : writeVtu id F = some file) :
    mapM' (fun (f : String × WArr) => makeDataArray f.1 f.2 none) F.pf = some file.pointData ∧
    makeDataArray "Coordinates" (pointArray id F) none = some file.points ∧
    cellsArray (!(allCells F.cells).isEmpty) "connectivity" F.conntype ((allCells F.cells).flatMap (·.2)) = some file.conn ∧
    cellsArray (!(allCells F.cells).isEmpty) "offsets" "int64"
        (runningSums 0 ((allCells F.cells).map (·.2.length))) = some file.offsets ∧
    (∃ tys, mapM' (fun (c : String × List Nat) => cellTypeIndex c.1) (allCells F.cells) = some tys ∧
        cellsArray (!(allCells F.cells).isEmpty) "types" "int64" tys = some file.types) ∧
    file.numPoints = F.points.length := by
  unfold writeVtu at h
  simp only at h
  split at h
  · rename_i pd cd pts conn offs tys h1 h2 h3 h4 h5 h6
    split at h
    · rename_i types h7
      simp only [Option.some.injEq] at h
      subst h
      exact ⟨h1, h3, h4, h5, ⟨tys, h6, h7⟩, rfl⟩
    · cases h
  · cases h

/-- an array the round trip is claimed for: well-formed (`WArr.wf`: registered item size, `rows·∏tail` items, every
    bit pattern fits the item size), one of the ten numeric dtypes, fewer than 2^64 payload bytes -/
structure ArrOk (a : WArr) : Prop where
  wf : a.wf = true
  small : a.items.length * dtypeSize a.dt < 256 ^ 8
  reg : a.dt ∈ ["int8", "int16", "int32", "int64", "uint8", "uint16", "uint32", "uint64", "float32", "float64"]

/-- reading a written element back: dtype and exact bit patterns, name and component count preserved
    (this is `C13_dataarray_roundtrip`) -/
theorem readItems_makeDataArray (name : String) (a : WArr) (given : Option Nat) (e : DataArr)
    (hw : a.wf = true) (hn : a.items.length * dtypeSize a.dt < 256 ^ 8)
    (hg : ∀ k, given = some k → k = prod a.tail)
    (hty : ∀ v, dtypeToVtk a.dt = some v → vtkToDtype v = some a.dt)
    (he : makeDataArray name a given = some e) :
    readItems e = some (a.dt, a.items) ∧ e.name = name ∧ e.ncomps = prod a.tail := by
  unfold WArr.wf at hw
  simp only [Bool.and_eq_true, beq_iff_eq, List.all_eq_true, decide_eq_true_eq, ne_eq] at hw
  obtain ⟨⟨hsz, hlen⟩, hit⟩ := hw
  unfold makeDataArray at he
  -- the component count
  have hnc : ∀ nc, numComps a given = some nc → nc = prod a.tail := by
    intro nc h
    unfold numComps at h
    cases given with
    | some k => simp only [Option.some.injEq] at h; subst h; exact hg k rfl
    | none =>
      by_cases h0 : a.rows = 0
      · simp [h0] at h
      · simp only [h0, if_false, Option.some.injEq] at h; exact h.symm
  cases hc : numComps a given with
  | none => simp [hc] at he
  | some nc =>
    have hnc2 := hnc nc hc
    cases hv : dtypeToVtk a.dt with
    | none => simp [hc, hv] at he
    | some v =>
      simp only [hc, hv, Option.some.injEq] at he
      subst he
      refine ⟨?_, rfl, hnc2⟩
      unfold readItems
      simp only [hty v hv]
      have hbytes : a.rows * nc * dtypeSize a.dt = (itemsToBytes (dtypeSize a.dt) a.items).length := by
        rw [itemsToBytes_length, hlen, hnc2]
      rw [hbytes, noCompRead_encodeText _ (itemsToBytes_lt _ _) (by rw [itemsToBytes_length]; exact hn)]
      simp only
      rw [frombuffer_itemsToBytes hsz a.items hit]

theorem all_dtypes_registered :
    ∀ d ∈ ["int8", "int16", "int32", "int64", "uint8", "uint16", "uint32", "uint64", "float32", "float64"],
      ∃ v, dtypeToVtk d = some v ∧ vtkToDtype v = some d := by
  decide

theorem dtypeSize_reg (d : String) (h : dtypeSize d ≠ 0) :
    d ∈ ["int8", "int16", "int32", "int64", "uint8", "uint16", "uint32", "uint64", "float32", "float64"] := by
  unfold dtypeSize at h
  split at h <;> first | (exfalso; exact h rfl) | simp

theorem dtypeSize_le (d : String) : dtypeSize d ≤ 8 := by
  unfold dtypeSize
  split <;> omega

/-- `ArrOk` from well-formedness and a bound on the number of scalars -/
theorem ArrOk.of_wf {a : WArr} (hw : a.wf = true) (hs : a.items.length * 8 < 256 ^ 8) : ArrOk a := by
  refine ⟨hw, Nat.lt_of_le_of_lt (Nat.mul_le_mul_left _ (dtypeSize_le a.dt)) hs, dtypeSize_reg a.dt ?_⟩
  unfold WArr.wf at hw
  simp only [Bool.and_eq_true, decide_eq_true_eq, ne_eq] at hw
  exact hw.1.1

/-- one written array, read back -/
theorem ArrOk.read {a : WArr} (hok : ArrOk a) (name : String) (given : Option Nat) (e : DataArr)
    (hg : ∀ k, given = some k → k = prod a.tail) (he : makeDataArray name a given = some e) :
    readItems e = some (a.dt, a.items) ∧ e.name = name ∧ e.ncomps = prod a.tail := by
  refine readItems_makeDataArray name a given e hok.wf hok.small hg ?_ he
  intro v hv
  obtain ⟨v', hv1, hv2⟩ := all_dtypes_registered a.dt hok.reg
  rw [hv1] at hv
  cases hv
  exact hv2

/-- an array that is `ArrOk` is written whenever its component count can be determined -/
theorem ArrOk.write {a : WArr} (hok : ArrOk a) (name : String) (given : Option Nat)
    (hr : given = none → a.rows ≠ 0) : ∃ e, makeDataArray name a given = some e := by
  obtain ⟨v, hv, _⟩ := all_dtypes_registered a.dt hok.reg
  unfold makeDataArray numComps
  cases given with
  | some k => simp only [hv]; exact ⟨_, rfl⟩
  | none => simp only [hr rfl, if_false, hv]; exact ⟨_, rfl⟩

end Fc.W
