/-
  FcProofs.Lemmas.PyLiteC02 — the loop of `walk_adjacent_true_index_ranges` as run by the PyLite
  interpreter simulates the model's `walkRunsAux` (FcModel/Lexsort.lean).
-/
import FcModel.Lexsort
import FcProofs.Lemmas.PyLite
namespace Fc.PyLite.C02
open Fc.PyLite Fc.C02

/-- a yielded pair `(begin, end)` -/
def pairVal (p : Nat × Nat) : Val := .list [.int (p.1 : Int), .int (p.2 : Int)]

/-- a boolean numpy array -/
def boolList (m : List Bool) : Val := .list (m.map .bool)

/-- If one iteration of the loop body `f`, started with index `i` in a state satisfying the invariant
    `Inv begin in_true_block`, does what one step of `walkRunsAux` does (new `begin` / flag, one pair
    yielded when a block closes), then the whole `for i in range(i, i + len(rest))` loop yields
    `walkRunsAux rest i begin in_true_block`. -/
theorem forLoop_walkRuns (f : Val → St → Flow) (mask : List Bool) (Inv : Nat → Bool → St → Prop)
    (hstep : ∀ (i : Nat) (b : Bool) (bg : Nat) (inb : Bool) (st : St), mask[i]? = some b → Inv bg inb st →
      ∃ st', f (.int (i : Int)) st = .next st' ∧
        Inv (if b && !inb then i else bg) (if b && !inb then true else if !b && inb then false else inb) st' ∧
        st'.out = st.out ++ (if !b && inb then [pairVal (bg, i + 1)] else [])) :
    ∀ (rest : List Bool) (i bg : Nat) (inb : Bool) (st : St), mask.drop i = rest → Inv bg inb st →
      ∃ st', forLoop f ((List.range' i rest.length).map fun (k : Nat) => Val.int (k : Int)) st = .next st' ∧
        st'.out = st.out ++ (walkRunsAux rest i bg inb).map pairVal := by
  intro rest
  induction rest with
  | nil =>
    intro i bg inb st _ _
    exact ⟨st, by simp [forLoop], by simp [walkRunsAux]⟩
  | cons b t ih =>
    intro i bg inb st hdrop hinv
    have hb : mask[i]? = some b := by
      have := congrArg (fun l => l[0]?) hdrop
      simpa using this
    have ht : mask.drop (i + 1) = t := by
      have := congrArg List.tail hdrop
      simpa using this
    obtain ⟨st1, h1, hinv1, hout1⟩ := hstep i b bg inb st hb hinv
    obtain ⟨st2, h2, hout2⟩ := ih (i + 1) _ _ st1 ht hinv1
    refine ⟨st2, ?_, ?_⟩
    · simp only [List.length_cons, List.range'_succ, List.map_cons, forLoop, h1]
      exact h2
    · rw [hout2, hout1]
      cases b <;> cases inb <;> simp [walkRunsAux]

/-- the same for the whole loop `for i in range(len(mask))`, in the form used by the theorem: `r` is
    whatever the loop evaluates to -/
theorem forLoop_walkRuns_all (mask : List Bool) (Inv : Nat → Bool → St → Prop) {f : Val → St → Flow} {st : St}
    {r : Flow} (hr : forLoop f ((List.range mask.length).map fun (k : Nat) => Val.int (k : Int)) st = r)
    (hinv : Inv 0 false st)
    (hstep : ∀ (i : Nat) (b : Bool) (bg : Nat) (inb : Bool) (st : St), mask[i]? = some b → Inv bg inb st →
      ∃ st', f (.int (i : Int)) st = .next st' ∧
        Inv (if b && !inb then i else bg) (if b && !inb then true else if !b && inb then false else inb) st' ∧
        st'.out = st.out ++ (if !b && inb then [pairVal (bg, i + 1)] else [])) :
    ∃ st', r = .next st' ∧ st'.out = st.out ++ (walkRuns mask).map pairVal := by
  rw [List.range_eq_range'] at hr
  obtain ⟨st', h1, h2⟩ := forLoop_walkRuns f mask Inv hstep mask 0 0 false st (by simp) hinv
  exact ⟨st', by rw [← hr, h1], h2⟩

end Fc.PyLite.C02
