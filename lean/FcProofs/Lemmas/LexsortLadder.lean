/-
  FcProofs.Lemmas.LexsortLadder — the comparator ladder (model `Fc.ladder`):

  * `runComparison_self`: comparing a view with itself (any tolerances) reports equal domains and
    every field `passed` (reflexivity of `mesh_equal` and of `DefaultEquality` on finite values);
  * `ladder_default_cases`: with the default flags and equal space dimensions the ladder returns the
    outcome of the FIRST rung whose domain check passes (as is → sorted points → sorted cells),
    otherwise that of the last rung; it raises only if a point sort raises.
  * canonical order of the cells of one type (`cells_canonical`).
-/
import FcProofs.Lemmas.LexsortPoints
namespace Fc.C02
open Fc.C02.Spec

/-! ### reflexivity of the predicates -/

theorem leInf_zero (y : Option Nat) : leInf (some 0) y = true := by
  cases y <;> simp [leInf]

theorem fuzzyEq1_self (F : Fmt) (a : Int) (rel : Nat) (rw : Bool) (abs : Nat) (aw : Bool) :
    fuzzyEq1 F a a rel rw abs aw = true := by
  unfold fuzzyEq1
  simp only [Int.sub_self, Int.natAbs_zero, rndMag_zero]
  exact leInf_zero _

theorem allFuzzy_self (F : Fmt) (a : List Int) (rs : Nat) (r t : RTol) : allFuzzy F a a rs r t = true := by
  unfold allFuzzy
  simp only [List.all_eq_true]
  intro i _
  exact fuzzyEq1_self ..

theorem reshapePair_self (s : List Nat) : reshapePair s s = (s, s) := by
  unfold reshapePair
  simp

theorem fuzzyCheck_num_self (F : Fmt) (rel abs : Nat) (a : NdArr) (h : a.dtype = .flt F) :
    fuzzyCheck (.num rel) (.num abs) a a = .ok true := by
  unfold fuzzyCheck
  simp only [reshapePair_self, ne_eq, not_true_eq_false, if_false, h, resolveTol]
  unfold findFuzzy
  simp [tolShapeOk, allFuzzy_self]

theorem defaultCheck_self (a : NdArr) : defaultCheck .dflt (.num 0) a a = .ok true := by
  unfold defaultCheck
  cases hd : a.dtype with
  | flt F =>
    simp only [DType.hasFloats, or_self, if_true]
    unfold fuzzyCheck
    simp only [reshapePair_self, ne_eq, not_true_eq_false, if_false, hd, resolveTol]
    unfold findFuzzy
    simp [tolShapeOk, allFuzzy_self]
  | int sg bits =>
    simp only [DType.hasFloats, Bool.false_eq_true, or_self, if_false]
    unfold exactCheck
    simp [reshapePair_self]
  | str =>
    simp only [DType.hasFloats, Bool.false_eq_true, or_self, if_false]
    unfold exactCheck
    simp [reshapePair_self]

/-! ### a view compared with itself -/

theorem typeSetsDiffer_self (s : List String) : typeSetsDiffer s s = false := by
  unfold typeSetsDiffer
  simp only [Bool.or_eq_false_iff, List.any_eq_false, List.mem_filter, Bool.not_eq_eq_eq_not,
    Bool.not_true, List.contains_eq_mem, decide_eq_false_iff_not, and_imp]
  exact ⟨fun x hx hnx => absurd hx hnx, fun x hx hnx => absurd hx hnx⟩

theorem meshEqual_self (t : MeshTol) (m : Mesh) (hnd : (m.cells.map (·.1)).Nodup) : meshEqual t m m = true := by
  unfold meshEqual
  have hp : fuzzyCheck (.num t.rtol) (.num t.atol) (pointsArr m) (pointsArr m) = .ok true :=
    fuzzyCheck_num_self f64 _ _ _ rfl
  simp only [hp, beq_self_eq_true, typeSetsDiffer_self, Bool.not_false, Bool.true_and, List.all_eq_true]
  intro b hb
  have hc : m.cellTypes.contains b.1 = true := by
    simp only [Mesh.cellTypes, List.contains_eq_mem, List.mem_map, decide_eq_true_eq]
    exact ⟨b, hb, rfl⟩
  simp only [hc, if_true]
  -- the lookup of the block's own type returns the block
  have hfind : m.cellsOf b.1 = b.2 := by
    unfold Mesh.cellsOf
    have : m.cells.find? (fun x => x.1 == b.1) = some b := by
      have key : ∀ (cells : List (String × List (List Nat))), (cells.map (·.1)).Nodup → b ∈ cells →
          cells.find? (fun x => x.1 == b.1) = some b := by
        intro cells
        induction cells with
        | nil => intro _ h; simp at h
        | cons c cs ih =>
          intro hn hm
          simp only [List.map_cons, List.nodup_cons] at hn
          rcases List.mem_cons.mp hm with rfl | hm'
          · simp
          · have hne : (c.1 == b.1) = false := by
              simp only [beq_eq_false_iff_ne, ne_eq]
              intro e
              exact hn.1 (by rw [e]; exact List.mem_map_of_mem (f := (·.1)) hm')
            rw [List.find?_cons, hne]
            exact ih hn.2 hm'
      exact key m.cells hnd hb
    rw [this]
  rw [hfind]
  simp

theorem compareNamed_self : ∀ l : List NamedArr,
    (compareNamed l l).all (fun s => s.2.2 == .passed) = true
  | [] => by simp [compareNamed]
  | s :: ss => by
    have ih := compareNamed_self ss
    unfold compareNamed
    simp only [List.find?_cons, beq_self_eq_true, Bool.and_self, defaultCheck_self, statusOf,
      List.erase_cons_head, List.all_cons, Bool.true_and]
    exact ih

/-- comparing a view with itself: equal domains, every field passed — for either kind of domain
    object and any tolerances on either side -/
theorem runComparison_self (f : MeshFields) (t1 t2 : MeshTol) (p1 p2 : Bool)
    (hnd : (f.mesh.cells.map (·.1)).Nodup) :
    allPassed (runComparison ⟨f, t1, p1⟩ ⟨f, t2, p2⟩) = true := by
  unfold runComparison
  simp only [meshEqual_self _ _ hnd, if_true, allPassed, Bool.true_and]
  exact compareNamed_self _

/-! ### the ladder, default configuration -/

/-- the three comparisons the default ladder can make, for the two sides after `_permute` -/
theorem ladder_default_cases (asS asR : List Int → List Nat) (h : List Nat → Int) (srcF refF : MeshFields)
    (hdim : srcF.mesh.dim = refF.mesh.dim) :
    let src : Side := ⟨srcF, meshTolOf srcF.mesh, false⟩
    let ref : Side := ⟨refF, meshTolOf refF.mesh, false⟩
    let o0 := runComparison src ref
    ladder asS asR h {} srcF refF =
      if o0.domainEq then .done 0 o0 else
      match permuteSide asS {} src, permuteSide asR {} ref with
      | some s2, some r2 =>
        let o2 := runComparison s2 r2
        if o2.domainEq then .done 2 o2 else
        .done 3 (runComparison { s2 with f := sortCells asS h s2.f } { r2 with f := sortCells asR h r2.f })
      | _, _ => .raised := by
  intro src ref o0
  unfold ladder
  simp only [hdim, ne_eq, not_true_eq_false, decide_false, Bool.false_and, Bool.false_eq_true, if_false]
  unfold ladderReorder
  simp only [Bool.false_eq_true, if_false]
  rfl

/-- the point sort inside `_permute` does not raise under `PointHypP` of the stripped mesh -/
theorem permuteSide_isSome {as : List Int → List Nat} (has : IsArgsort as) (s : Side) {A B M : Nat}
    {cands : List (List Int)} (hyp : PointHypP s.tol A B M (stripOrphans as s.f).mesh cands) :
    ∃ s2, permuteSide as {} s = some s2 := by
  unfold permuteSide sortPoints sortPointsIdx
  simp only [Bool.false_eq_true, if_false]
  by_cases hne : (stripOrphans as s.f).mesh.points = []
  · have : sortPointsItems as s.tol (stripOrphans as s.f).mesh = some [] := by
      unfold sortPointsItems; simp [hne]
    rw [this]
    exact ⟨_, rfl⟩
  · obtain ⟨L, e, _, _⟩ := sortPointsItems_spec has hyp hne
    rw [e]
    exact ⟨_, rfl⟩

/-! ### canonical order of the cells of one type -/

theorem map_getD_eq_filterMap {α : Type} (l : List α) (d : α) :
    ∀ idx : List Nat, (∀ i ∈ idx, i < l.length) → idx.map (fun i => l.getD i d) = idx.filterMap (fun i => l[i]?)
  | [], _ => rfl
  | i :: idx, h => by
    have hi := h i (List.mem_cons_self ..)
    have ih := map_getD_eq_filterMap l d idx (fun j hj => h j (List.mem_cons_of_mem _ hj))
    rw [List.map_cons, List.filterMap_cons, ih]
    simp [List.getD_eq_getElem?_getD, List.getElem?_eq_getElem hi]

/-- the rows of one cell-type block, taken in the order of `_get_cell_corners_sorting_index_map` -/
def sortedCellRows (as : List Int → List Nat) (h : List Nat → Int) (rows : List (List Nat)) : List (List Nat) :=
  (cellSortMap as h rows).map fun c => rows.getD c []

theorem sortedCellRows_eq (as : List Int → List Nat) (has : IsArgsort as) (h : List Nat → Int)
    (rows : List (List Nat)) :
    sortedCellRows as h rows = sorterOf as (fun r => h (sortNat r)) rows := by
  unfold sortedCellRows cellSortMap sorterOf
  apply map_getD_eq_filterMap
  intro i hi
  have := (has.perm (rows.map fun r => h (sortNat r))).mem_iff.mp hi
  simpa using this

/-- **canonical cells.**  Two blocks holding the same cells in a different order, no two cells with
    the same hashed vertex set: both `argsort` routines put the cells into the same order. -/
theorem cells_canonical {as1 as2 : List Int → List Nat} (h1 : IsArgsort as1) (h2 : IsArgsort as2)
    (h : List Nat → Int) (rows1 rows2 : List (List Nat)) (hperm : rows1.Perm rows2)
    (hinj : ∀ a ∈ rows1, ∀ b ∈ rows1, h (sortNat a) = h (sortNat b) → a = b) :
    sortedCellRows as1 h rows1 = sortedCellRows as2 h rows2 := by
  rw [sortedCellRows_eq as1 h1, sortedCellRows_eq as2 h2]
  have p1 := sorterOf_perm h1 (fun r => h (sortNat r)) rows1
  have p2 := sorterOf_perm h2 (fun r => h (sortNat r)) rows2
  refine List.Perm.eq_of_pairwise ?_ (sorterOf_sorted h1 _ rows1) (sorterOf_sorted h2 _ rows2)
    ((p1.trans hperm).trans p2.symm)
  intro a b ha hb hab hba
  exact hinj a (p1.mem_iff.mp ha) b (hperm.mem_iff.mpr (p2.mem_iff.mp hb)) (le_antisymm hab hba)

end Fc.C02
