/-
  Lemmas about the base64 model (FcModel/Base64.lean): alphabet inversion, one-quad decoding step,
  round trip through the LENIENT decoder with arbitrary trailing text, length, aligned prefix.
-/
import FcModel.Base64
namespace Fc

/-- a list of bytes -/
def IsBytes (l : List Nat) : Prop := ∀ b ∈ l, b < 256

theorem IsBytes.nil : IsBytes [] := by intro b h; cases h

theorem IsBytes.cons {a : Nat} {l : List Nat} (ha : a < 256) (hl : IsBytes l) : IsBytes (a :: l) := by
  intro b h
  cases h with
  | head => exact ha
  | tail _ h => exact hl b h

theorem IsBytes.head {a : Nat} {l : List Nat} (h : IsBytes (a :: l)) : a < 256 := h a (List.mem_cons_self)

theorem IsBytes.tail {a : Nat} {l : List Nat} (h : IsBytes (a :: l)) : IsBytes l :=
  fun b hb => h b (List.mem_cons_of_mem _ hb)

theorem IsBytes.append {x y : List Nat} (hx : IsBytes x) (hy : IsBytes y) : IsBytes (x ++ y) := by
  intro b h
  rcases List.mem_append.mp h with h | h
  · exact hx b h
  · exact hy b h

theorem IsBytes.left {x y : List Nat} (h : IsBytes (x ++ y)) : IsBytes x :=
  fun b hb => h b (List.mem_append.mpr (Or.inl hb))

theorem IsBytes.right {x y : List Nat} (h : IsBytes (x ++ y)) : IsBytes y :=
  fun b hb => h b (List.mem_append.mpr (Or.inr hb))

theorem b64val_chr : ∀ s, s < 64 → b64val (b64chr s) = some s := by decide

theorem b64chr_ne_pad : ∀ s, s < 64 → b64chr s ≠ b64pad := by decide

/-- decoding one alphabet character, by position in the quad -/
theorem b64decLoop_chr0 (s : Nat) (hs : s < 64) (cs : List Nat) (left pads : Nat) :
    b64decLoop (b64chr s :: cs) 0 left pads = b64decLoop cs 1 s 0 := by
  rw [b64decLoop]
  simp only [b64chr_ne_pad s hs, if_false, b64val_chr s hs]

theorem b64decLoop_chr1 (s : Nat) (hs : s < 64) (cs : List Nat) (left pads : Nat) :
    b64decLoop (b64chr s :: cs) 1 left pads
      = (b64decLoop cs 2 (s % 16) 0).map ((left * 4 + s / 16) :: ·) := by
  rw [b64decLoop]
  simp only [b64chr_ne_pad s hs, if_false, b64val_chr s hs]

theorem b64decLoop_chr2 (s : Nat) (hs : s < 64) (cs : List Nat) (left pads : Nat) :
    b64decLoop (b64chr s :: cs) 2 left pads
      = (b64decLoop cs 3 (s % 4) 0).map ((left * 16 + s / 4) :: ·) := by
  rw [b64decLoop]
  simp only [b64chr_ne_pad s hs, if_false, b64val_chr s hs]

theorem b64decLoop_chr3 (s : Nat) (hs : s < 64) (cs : List Nat) (left pads : Nat) :
    b64decLoop (b64chr s :: cs) 3 left pads
      = (b64decLoop cs 0 0 0).map ((left * 64 + s) :: ·) := by
  rw [b64decLoop]
  simp only [b64chr_ne_pad s hs, if_false, b64val_chr s hs]

/-- a full quad of the encoder is decoded to its three bytes, whatever follows -/
theorem b64decLoop_quad (a b c : Nat) (ha : a < 256) (hb : b < 256) (hc : c < 256) (cs : List Nat) :
    b64decLoop (b64chr (a / 4) :: b64chr ((a % 4) * 16 + b / 16) :: b64chr ((b % 16) * 4 + c / 64)
        :: b64chr (c % 64) :: cs) 0 0 0
      = (b64decLoop cs 0 0 0).map (fun r => a :: b :: c :: r) := by
  rw [b64decLoop_chr0 _ (by omega), b64decLoop_chr1 _ (by omega), b64decLoop_chr2 _ (by omega),
    b64decLoop_chr3 _ (by omega)]
  simp only [Option.map_map]
  have e1 : a / 4 * 4 + (a % 4 * 16 + b / 16) / 16 = a := by omega
  have e2 : (a % 4 * 16 + b / 16) % 16 * 16 + (b % 16 * 4 + c / 64) / 4 = b := by omega
  have e3 : (b % 16 * 4 + c / 64) % 4 * 64 + c % 64 = c := by omega
  rw [e1, e2, e3]
  rfl

/-- the two padded tails: decoding stops at the completed padding and ignores the rest -/
theorem b64decLoop_tail1 (a : Nat) (ha : a < 256) (cs : List Nat) :
    b64decLoop (b64chr (a / 4) :: b64chr ((a % 4) * 16) :: b64pad :: b64pad :: cs) 0 0 0 = some [a] := by
  rw [b64decLoop_chr0 _ (by omega), b64decLoop_chr1 _ (by omega)]
  have e1 : a / 4 * 4 + a % 4 * 16 / 16 = a := by omega
  rw [e1]
  simp [b64decLoop]

theorem b64decLoop_tail2 (a b : Nat) (ha : a < 256) (hb : b < 256) (cs : List Nat) :
    b64decLoop (b64chr (a / 4) :: b64chr ((a % 4) * 16 + b / 16) :: b64chr ((b % 16) * 4) :: b64pad :: cs) 0 0 0
      = some [a, b] := by
  rw [b64decLoop_chr0 _ (by omega), b64decLoop_chr1 _ (by omega), b64decLoop_chr2 _ (by omega)]
  have e1 : a / 4 * 4 + (a % 4 * 16 + b / 16) / 16 = a := by omega
  have e2 : (a % 4 * 16 + b / 16) % 16 * 16 + b % 16 * 4 / 4 = b := by omega
  rw [e1, e2]
  simp [b64decLoop]

/-- **Round trip through the lenient decoder, with arbitrary following text.**
    If `x` is not a multiple of three bytes long its encoding ends in padding and the decoder stops
    there; otherwise the decoder continues with whatever follows. -/
theorem b64_roundtrip_loop (x : List Nat) (hx : IsBytes x) (rest : List Nat) :
    b64decLoop (b64encode x ++ rest) 0 0 0 =
      if x.length % 3 = 0 then (b64decLoop rest 0 0 0).map (x ++ ·) else some x := by
  induction x using b64encode.induct with
  | case1 a b c r ih =>
    have ha := hx a (by simp)
    have hb := hx b (by simp)
    have hc := hx c (by simp)
    have hr : IsBytes r := fun y hy => hx y (by simp [hy])
    simp only [b64encode, List.cons_append]
    rw [b64decLoop_quad a b c ha hb hc, ih hr]
    have hl : (a :: b :: c :: r).length % 3 = r.length % 3 := by simp; omega
    rw [hl]
    by_cases h : r.length % 3 = 0
    · simp only [h, if_true, Option.map_map]
      rfl
    · simp only [h, if_false, Option.map_some]
  | case2 a b =>
    have ha := hx a (by simp)
    have hb := hx b (by simp)
    simp only [b64encode, List.cons_append, List.nil_append]
    rw [b64decLoop_tail2 a b ha hb]
    simp
  | case3 a =>
    have ha := hx a (by simp)
    simp only [b64encode, List.cons_append, List.nil_append]
    rw [b64decLoop_tail1 a ha]
    simp
  | case4 =>
    simp [b64encode]

theorem b64encode_length (x : List Nat) : (b64encode x).length = 4 * ((x.length + 2) / 3) := by
  induction x using b64encode.induct with
  | case1 a b c r ih => simp only [b64encode, List.length_cons, ih]; omega
  | case2 a b => simp [b64encode]
  | case3 a => simp [b64encode]
  | case4 => simp [b64encode]

/-- encoding distributes over `++` when the first part is a whole number of triples -/
theorem b64encode_append (x y : List Nat) (h : x.length % 3 = 0) :
    b64encode (x ++ y) = b64encode x ++ b64encode y := by
  induction x using b64encode.induct with
  | case1 a b c r ih =>
    have hl : r.length % 3 = 0 := by simp at h; omega
    simp only [List.cons_append, b64encode, ih hl]
  | case2 a b => simp at h
  | case3 a => simp at h
  | case4 => simp [b64encode]

end Fc
