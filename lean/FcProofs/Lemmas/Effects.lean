/-
  FcProofs.Lemmas.Effects — every array an operation of the current code writes is one it allocated itself.
-/
import FcModel.Spec.C19
namespace Fc.C19

theorem mem_range'_ge {s n i : Nat} (h : i ∈ List.range' s n) : s ≤ i := by
  rw [List.mem_range'_1] at h
  exact h.1

theorem access_spec (w : World) (s : Slot) :
    w.next ≤ (w.access s).1.next ∧ (w.access s).1.written = w.written := by
  cases s <;> simp [World.access]

theorem accessMany_spec {α} (slotOf : α → Slot) (mk : α → Nat → α) (w : World) (l : List α) :
    w.next ≤ (accessMany w slotOf mk l).1.next ∧ (accessMany w slotOf mk l).1.written = w.written := by
  induction l generalizing w with
  | nil => simp [accessMany]
  | cons x xs ih =>
    have h1 := access_spec w (slotOf x)
    have h2 := ih (w.access (slotOf x)).1
    simp only [accessMany]
    exact ⟨Nat.le_trans h1.1 h2.1, h2.2.trans h1.2⟩

theorem freshMany_spec {α} (slotOf : α → Slot) (mk : α → Nat → α) (hmk : ∀ x i, slotOf (mk x i) = .stored i)
    (w : World) (l : List α) :
    w.next ≤ (freshMany w mk l).1.next ∧ (freshMany w mk l).1.written = w.written ∧
      ∀ y ∈ (freshMany w mk l).2, ∀ i ∈ (slotOf y).ids, w.next ≤ i := by
  induction l generalizing w with
  | nil => simp [freshMany]
  | cons x xs ih =>
    have h2 := ih { w with next := w.next + 1 }
    simp only [freshMany]
    refine ⟨by have := h2.1; simp at this; omega, h2.2.1, ?_⟩
    intro y hy i hi
    rcases List.mem_cons.mp hy with e | hy'
    · subst e
      rw [hmk] at hi
      simp [Slot.ids] at hi
      omega
    · have := h2.2.2 y hy' i hi
      simp at this
      omega

theorem extendMany_spec {α} (n : Nat) (tailOf : α → List Nat) (slotOf : α → Slot) (mk : α → List Nat → Nat → α)
    (grows : List Nat → Bool) (w : World) (l : List α) :
    w.next ≤ (extendMany n tailOf slotOf mk grows w l).1.next ∧
      (extendMany n tailOf slotOf mk grows w l).1.written = w.written ∧
      ∀ i ∈ (extendMany n tailOf slotOf mk grows w l).2.2, w.next ≤ i := by
  induction l generalizing w with
  | nil => simp [extendMany]
  | cons x xs ih =>
    simp only [extendMany]
    split
    · have h2 := ih { w with next := w.next + 1 }
      refine ⟨by have := h2.1; simp at this ⊢; omega, h2.2.1, ?_⟩
      intro i hi
      rcases List.mem_cons.mp hi with e | hi'
      · omega
      · have := h2.2.2 i hi'
        simp at this
        omega
    · have h1 := access_spec w (slotOf x)
      have h2 := ih (w.access (slotOf x)).1
      refine ⟨Nat.le_trans h1.1 h2.1, h2.2.1.trans h1.2, ?_⟩
      intro i hi
      exact Nat.le_trans h1.1 (h2.2.2 i hi)

theorem mergeMany_spec {α} (slotOf : α → Slot) (mk : α → Nat → α) (both : α → Bool) (w : World) (l : List α) :
    w.next ≤ (mergeMany slotOf mk both w l).1.next ∧ (mergeMany slotOf mk both w l).1.written = w.written := by
  induction l generalizing w with
  | nil => simp [mergeMany]
  | cons x xs ih =>
    simp only [mergeMany]
    split
    · have h2 := ih { w with next := w.next + 1 }
      exact ⟨by have := h2.1; simp at this ⊢; omega, h2.2⟩
    · have h1 := access_spec w (slotOf x)
      have h2 := ih (w.access (slotOf x)).1
      exact ⟨Nat.le_trans h1.1 h2.1, h2.2.trans h1.2⟩

theorem alloc_spec (w : World) (k : Nat) :
    (w.alloc k).1.next = w.next + k ∧ (w.alloc k).1.written = w.written ∧ (w.alloc k).1.objs = w.objs ∧
      (w.alloc k).2 = List.range' w.next k := by
  simp [World.alloc]

/-- the result construction of every operation of the current code: the allocation counter only grows, the
    written set is untouched here, and the arrays filled in place are new ones -/
theorem resultOf_spec (w : World) (op : EOp) :
    w.next ≤ (resultOf w op).1.next ∧ (resultOf w op).1.written = w.written ∧
      (op.isCurrent = true → ∀ i ∈ (resultOf w op).2.2, w.next ≤ i) := by
  cases op with
  | compare s r => simp [resultOf]
  | equals a b => simp [resultOf]
  | predEval a b => simp [resultOf]
  | write o => simp [resultOf]
  | view k o => simp [resultOf]
  | fromMeshio o =>
    simp only [resultOf]
    have h1 := access_spec w (getObj w o).points
    have h2 := accessMany_spec (·.2) (fun (c : String × Slot) i => (c.1, Slot.stored i)) (w.access (getObj w o).points).1 (getObj w o).conn
    have h3 := accessMany_spec (·.slot) (fun (f : EField) i => { f with slot := .stored i })
      (accessMany (w.access (getObj w o).points).1 (·.2) (fun (c : String × Slot) i => (c.1, Slot.stored i)) (getObj w o).conn).1 (getObj w o).pf
    have h4 := accessMany_spec (·.slot) (fun (f : ECellField) i => { f with slot := .stored i })
      (accessMany (accessMany (w.access (getObj w o).points).1 (·.2) (fun (c : String × Slot) i => (c.1, Slot.stored i)) (getObj w o).conn).1
        (·.slot) (fun (f : EField) i => { f with slot := .stored i }) (getObj w o).pf).1 (getObj w o).cf
    refine ⟨?_, ?_, by simp⟩
    · exact Nat.le_trans h1.1 (Nat.le_trans h2.1 (Nat.le_trans h3.1 h4.1))
    · exact h4.2.trans (h3.2.trans (h2.2.trans h1.2))
  | toMeshio o =>
    simp only [resultOf]
    have h1 := access_spec w (getObj w o).points
    have h2 := freshMany_spec (·.2) (fun (c : String × Slot) i => (meshioTypeName c.1, Slot.stored i)) (fun _ _ => rfl)
      (w.access (getObj w o).points).1 (getObj w o).conn
    have h3 := accessMany_spec (·.slot) (fun (f : EField) i => { f with slot := .stored i })
      (freshMany (w.access (getObj w o).points).1 (fun (c : String × Slot) i => (meshioTypeName c.1, Slot.stored i)) (getObj w o).conn).1 (getObj w o).pf
    have h4 := freshMany_spec (·.slot) (fun (f : ECellField) i => { f with ctype := meshioTypeName f.ctype, slot := .stored i }) (fun _ _ => rfl)
      (accessMany (freshMany (w.access (getObj w o).points).1 (fun (c : String × Slot) i => (meshioTypeName c.1, Slot.stored i)) (getObj w o).conn).1
        (·.slot) (fun (f : EField) i => { f with slot := .stored i }) (getObj w o).pf).1 (getObj w o).cf
    refine ⟨?_, ?_, ?_⟩
    · exact Nat.le_trans h1.1 (Nat.le_trans h2.1 (Nat.le_trans h3.1 h4.1))
    · exact h4.2.1.trans (h3.2.trans (h2.2.1.trans h1.2))
    · intro _ i hi
      simp only [List.mem_flatMap, List.mem_filter] at hi
      obtain ⟨p, ⟨hp, _⟩, hi⟩ := hi
      have := h2.2.2 p.2 (List.of_mem_zip hp).2 i hi
      omega
  | toMeshioInPlace o =>
    simp only [resultOf]
    have h1 := access_spec w (getObj w o).points
    have h2 := accessMany_spec (·.2) (fun (c : String × Slot) i => (meshioTypeName c.1, Slot.stored i)) (w.access (getObj w o).points).1 (getObj w o).conn
    have h3 := accessMany_spec (·.slot) (fun (f : EField) i => { f with slot := .stored i })
      (accessMany (w.access (getObj w o).points).1 (·.2) (fun (c : String × Slot) i => (meshioTypeName c.1, Slot.stored i)) (getObj w o).conn).1 (getObj w o).pf
    have h4 := freshMany_spec (·.slot) (fun (f : ECellField) i => { f with ctype := meshioTypeName f.ctype, slot := .stored i }) (fun _ _ => rfl)
      (accessMany (accessMany (w.access (getObj w o).points).1 (·.2) (fun (c : String × Slot) i => (meshioTypeName c.1, Slot.stored i)) (getObj w o).conn).1
        (·.slot) (fun (f : EField) i => { f with slot := .stored i }) (getObj w o).pf).1 (getObj w o).cf
    refine ⟨?_, ?_, by simp [EOp.isCurrent]⟩
    · exact Nat.le_trans h1.1 (Nat.le_trans h2.1 (Nat.le_trans h3.1 h4.1))
    · exact h4.2.1.trans (h3.2.trans (h2.2.trans h1.2))
  | extend o n =>
    simp only [resultOf]
    split
    · simp
    · have h1 := alloc_spec w 1
      have h2 := accessMany_spec (·.2) (fun (c : String × Slot) i => (c.1, Slot.stored i)) (w.alloc 1).1 (getObj w o).conn
      have h3 := extendMany_spec n (·.tail) (·.slot) (fun (f : EField) t i => { f with tail := t, slot := .stored i })
        (fun t => (extendsField n t).getD false)
        (accessMany (w.alloc 1).1 (·.2) (fun (c : String × Slot) i => (c.1, Slot.stored i)) (getObj w o).conn).1 (getObj w o).pf
      have h4 := extendMany_spec n (·.tail) (·.slot) (fun (f : ECellField) t i => { f with tail := t, slot := .stored i })
        (fun t => (extendsField n t).getD false)
        (extendMany n (·.tail) (·.slot) (fun (f : EField) t i => { f with tail := t, slot := .stored i })
          (fun t => (extendsField n t).getD false)
          (accessMany (w.alloc 1).1 (·.2) (fun (c : String × Slot) i => (c.1, Slot.stored i)) (getObj w o).conn).1 (getObj w o).pf).1 (getObj w o).cf
      refine ⟨?_, ?_, ?_⟩
      · exact Nat.le_trans (by have := h1.1; omega) (Nat.le_trans h2.1 (Nat.le_trans h3.1 h4.1))
      · exact h4.2.1.trans (h3.2.1.trans (h2.2.trans h1.2.1))
      · intro _ i hi
        simp only [List.mem_append] at hi
        rcases hi with (hi | hi) | hi
        · rw [h1.2.2.2] at hi; exact mem_range'_ge hi
        · have := h3.2.2 i hi; have := h1.1; have := h2.1; omega
        · have := h4.2.2 i hi; have := h1.1; have := h2.1; have := h3.1; omega
  | merge a b allDup =>
    simp only [resultOf]
    split
    · simp
    · have h1 := alloc_spec w 1
      generalize hty : ((getObj w a).conn.map (·.1) ++ ((getObj w b).conn.map (·.1)).filter
        (fun t => !((getObj w a).conn.map (·.1)).contains t)).map (fun t => (t, Slot.computed)) = tys
      have h2 := freshMany_spec (·.2) (fun (t : String × Slot) i => (t.1, Slot.stored i)) (fun _ _ => rfl) (w.alloc 1).1 tys
      generalize hpn : (getObj w a).pf ++ (getObj w b).pf.filter (fun f => !((getObj w a).pf.any (·.name == f.name))) = pn
      have h3 := freshMany_spec (·.slot) (fun (f : EField) i => { f with slot := .stored i }) (fun _ _ => rfl)
        (freshMany (w.alloc 1).1 (fun (t : String × Slot) i => (t.1, Slot.stored i)) tys).1 pn
      generalize hcn : (getObj w a).cf ++ (getObj w b).cf.filter
        (fun f => !((getObj w a).cf.any fun g => g.name == f.name && g.ctype == f.ctype)) = cn
      have h4 := mergeMany_spec (·.slot) (fun (f : ECellField) i => { f with slot := .stored i })
        (fun f => ((getObj w a).cf.any fun g => g.name == f.name && g.ctype == f.ctype) &&
          ((getObj w b).cf.any fun g => g.name == f.name && g.ctype == f.ctype))
        (freshMany (freshMany (w.alloc 1).1 (fun (t : String × Slot) i => (t.1, Slot.stored i)) tys).1
          (fun (f : EField) i => { f with slot := .stored i }) pn).1 cn
      refine ⟨?_, ?_, ?_⟩
      · exact Nat.le_trans (by have := h1.1; omega) (Nat.le_trans h2.1 (Nat.le_trans h3.1 h4.1))
      · exact h4.2.trans (h3.2.1.trans (h2.2.1.trans h1.2.1))
      · intro _ i hi
        simp only [List.mem_flatMap] at hi
        obtain ⟨c, hc, hi⟩ := hi
        have := h2.2.2 c hc i hi
        have := h1.1
        omega
  | diff s r =>
    simp only [resultOf]
    generalize hpn : (getObj w r).pf ++ (getObj w s).pf.filter (fun f => !((getObj w r).pf.any (·.name == f.name))) = pn
    generalize hcn : ((getObj w r).cf ++ (getObj w s).cf.filter
      (fun f => !((getObj w r).cf.any fun g => g.name == f.name && g.ctype == f.ctype))).filter
      (fun f => ((getObj w r).conn.map (·.1)).contains f.ctype) = cn
    have h1 := freshMany_spec (·.slot) (fun (f : EField) i => { f with slot := .stored i }) (fun _ _ => rfl) w pn
    have h2 := freshMany_spec (·.slot) (fun (f : ECellField) i => { f with slot := .stored i }) (fun _ _ => rfl)
      (freshMany w (fun (f : EField) i => { f with slot := .stored i }) pn).1 cn
    refine ⟨Nat.le_trans h1.1 h2.1, h2.2.1.trans h1.2.1, ?_⟩
    intro _ i hi
    simp only [List.mem_append, List.mem_flatMap] at hi
    rcases hi with ⟨f, hf, hi⟩ | ⟨f, hf, hi⟩
    · exact h1.2.2 f hf i hi
    · exact Nat.le_trans h1.1 (h2.2.2 f hf i hi)

/-- one step: the counter grows; what a step of the current code writes is new -/
theorem stepEffect_spec (w : World) (s : EStep) :
    w.next ≤ (stepEffect w s).1.next ∧
      (s.op.isCurrent = true →
        (∀ i ∈ (stepEffect w s).2.writes, w.next ≤ i) ∧
        (∀ i ∈ (stepEffect w s).1.written, i ∈ w.written ∨ w.next ≤ i)) := by
  have ha := alloc_spec w (tempsOf w s.op)
  have hr := resultOf_spec (w.alloc (tempsOf w s.op)).1 s.op
  simp only [stepEffect]
  by_cases hok : s.ok = true
  · simp only [hok, Bool.not_true, Bool.false_eq_true, if_false]
    refine ⟨by have := ha.1; have := hr.1; omega, ?_⟩
    intro hc
    have hfill := hr.2.2 hc
    have hw : ∀ i ∈ (w.alloc (tempsOf w s.op)).2 ++ (resultOf (w.alloc (tempsOf w s.op)).1 s.op).2.2, w.next ≤ i := by
      intro i hi
      rcases List.mem_append.mp hi with h | h
      · rw [ha.2.2.2] at h; exact mem_range'_ge h
      · have := hfill i h; have := ha.1; omega
    refine ⟨hw, ?_⟩
    intro i hi
    simp only [List.append_assoc, List.mem_append] at hi
    rcases hi with h | h | h
    · left; rw [hr.2.1, ha.2.1] at h; exact h
    · right; exact hw i (List.mem_append_left _ h)
    · right; exact hw i (List.mem_append_right _ h)
  · have hok' : s.ok = false := by simpa using hok
    simp only [hok', Bool.not_false, if_true]
    refine ⟨by have := ha.1; omega, ?_⟩
    intro _
    have hw : ∀ i ∈ (w.alloc (tempsOf w s.op)).2, w.next ≤ i := by
      intro i h; rw [ha.2.2.2] at h; exact mem_range'_ge h
    refine ⟨hw, ?_⟩
    intro i hi
    rcases List.mem_append.mp hi with h | h
    · left; rw [ha.2.1] at h; exact h
    · right; exact hw i h

end Fc.C19
