/-
  FcProofs.Lemmas.PyLiteC06 — presentation of the C06 model's duplicate map (`List (Option Nat)`,
  FcModel/Merge.lean) as a PyLite dict, key lookup / membership in it, and the simulation of the loop of
  `_map_external_indices` by the model's `mapExternalGo`.
-/
import FcModel.Merge
import FcProofs.Lemmas.PyLite
namespace Fc.PyLite.C06
open Fc.PyLite Fc.C06

/-- entries `k: j` of the Python dict for the slots `dups[k - i] = some j`, in increasing key order -/
def entries : List (Option Nat) → Nat → List (Val × Val)
  | [], _ => []
  | some j :: r, i => (.int (i : Int), .int (j : Int)) :: entries r (i + 1)
  | none :: r, i => entries r (i + 1)

/-- the dict `duplicate_point_idx_map` (index in the later piece -> index in the earlier mesh) -/
def dupsDict (dups : List (Option Nat)) : Val := .dict (entries dups 0)

theorem lookup_entries (dups : List (Option Nat)) (i k : Nat) :
    dictLookup (.int (k : Int)) (entries dups i) =
      .ok (if k < i then none else (dups.getD (k - i) none).map fun (j : Nat) => Val.int (j : Int)) := by
  induction dups generalizing i with
  | nil => simp [entries, dictLookup]
  | cons o r ih =>
    cases o with
    | none =>
      simp only [entries, ih]
      by_cases h1 : k < i
      · simp [h1, show k < i + 1 by omega]
      · by_cases h2 : k = i
        · subst h2; simp
        · have : k - i = (k - (i + 1)) + 1 := by omega
          simp [h1, show ¬ k < i + 1 by omega, this]
    | some j =>
      simp only [entries, dictLookup, Val.eqv, ih]
      by_cases h2 : k = i
      · subst h2; simp
      · have hne : ((k : Int) == (i : Int)) = false := by simp; omega
        simp only [hne]
        by_cases h1 : k < i
        · simp [h1, show k < i + 1 by omega]
        · have : k - i = (k - (i + 1)) + 1 := by omega
          simp [h1, show ¬ k < i + 1 by omega, this]

theorem mem_entries (dups : List (Option Nat)) (i k : Nat) :
    memOf (.int (k : Int)) ((entries dups i).map (·.1)) =
      .ok (if k < i then false else (dups.getD (k - i) none).isSome) := by
  induction dups generalizing i with
  | nil => simp [entries, memOf]
  | cons o r ih =>
    cases o with
    | none =>
      simp only [entries, ih]
      by_cases h1 : k < i
      · simp [h1, show k < i + 1 by omega]
      · by_cases h2 : k = i
        · subst h2; simp
        · have : k - i = (k - (i + 1)) + 1 := by omega
          simp [h1, show ¬ k < i + 1 by omega, this]
    | some j =>
      simp only [entries, List.map_cons, memOf, Val.eqv, ih]
      by_cases h2 : k = i
      · subst h2; simp
      · have hne : ((k : Int) == (i : Int)) = false := by simp; omega
        simp only [hne]
        by_cases h1 : k < i
        · simp [h1, show k < i + 1 by omega]
        · have : k - i = (k - (i + 1)) + 1 := by omega
          simp [h1, show ¬ k < i + 1 by omega, this]

/-- `k in duplicate_point_idx_map` -/
theorem mem_dupsDict (dups : List (Option Nat)) (k : Nat) :
    memOf (.int (k : Int)) ((entries dups 0).map (·.1)) = .ok (dups.getD k none).isSome := by
  simpa using mem_entries dups 0 k

/-- `duplicate_point_idx_map[k]` -/
theorem lookup_dupsDict (dups : List (Option Nat)) (k : Nat) :
    dictLookup (.int (k : Int)) (entries dups 0) = .ok ((dups.getD k none).map fun (j : Nat) => Val.int (j : Int)) := by
  simpa using lookup_entries dups 0 k

theorem filterMap_ite_map {α β : Type} (p : α → Bool) (f : α → β) (l : List α) :
    l.filterMap (fun a => if p a then some (f a) else none) = (l.filter p).map f := by
  induction l with
  | nil => rfl
  | cons a r ih => by_cases h : p a <;> simp [h, ih]

/-- The loop `for i in range(i, i + len(rest))` of `_map_external_indices`: if one iteration of the body `f`
    with `dups[i] = o`, `result[i] = i` and counter `m ≤ i` stores `j` (for `o = some j`, counter + 1) resp.
    `i + offset - m` at `result[i]`, then the loop turns `done ++ [i, i+1, …]` into
    `done ++ mapExternalGo offset rest i m`. -/
theorem forLoop_mapExternal (f : Val → St → Flow) (dups : List (Option Nat)) (offset : Nat)
    (Inv : List Nat → Nat → St → Prop)
    (hstep : ∀ (i : Nat) (o : Option Nat) (res : List Nat) (m : Nat) (st : St), dups[i]? = some o →
      res[i]? = some i → m ≤ i → Inv res m st →
      ∃ st', f (.int (i : Int)) st = .next st' ∧
        Inv (res.set i (match o with | some j => j | none => i + offset - m))
            (match o with | some _ => m + 1 | none => m) st') :
    ∀ (rest : List (Option Nat)) (i : Nat) (done : List Nat) (m : Nat) (st : St), dups.drop i = rest →
      done.length = i → m ≤ i → Inv (done ++ List.range' i rest.length) m st →
      ∃ st' m', forLoop f ((List.range' i rest.length).map fun (k : Nat) => Val.int (k : Int)) st = .next st' ∧
        Inv (done ++ mapExternalGo offset rest i m) m' st' := by
  intro rest
  induction rest with
  | nil =>
    intro i done m st _ _ _ hinv
    exact ⟨st, m, by simp [forLoop], by simpa [mapExternalGo] using hinv⟩
  | cons o t ih =>
    intro i done m st hdrop hlen hm hinv
    have ho : dups[i]? = some o := by
      have := congrArg (fun l => l[0]?) hdrop
      simpa using this
    have ht : dups.drop (i + 1) = t := by
      have := congrArg List.tail hdrop
      simpa using this
    have hres : (done ++ List.range' i (o :: t).length)[i]? = some i := by
      rw [List.getElem?_append_right (by omega)]
      simp [hlen, List.range'_succ]
    obtain ⟨st1, h1, hinv1⟩ := hstep i o _ m st ho hres hm hinv
    have hset : ∀ x : Nat, (done ++ List.range' i (o :: t).length).set i x
        = (done ++ [x]) ++ List.range' (i + 1) t.length := by
      intro x
      rw [List.set_append_right _ _ (by omega)]
      simp [hlen, List.range'_succ]
    rw [hset] at hinv1
    obtain ⟨st2, m2, h2, hinv2⟩ := ih (i + 1) (done ++ [_]) _ st1 ht (by simp [hlen])
      (by cases o <;> simp <;> omega) hinv1
    refine ⟨st2, m2, ?_, ?_⟩
    · simp only [List.length_cons, List.range'_succ, List.map_cons, forLoop, h1]
      exact h2
    · cases o <;> simpa [mapExternalGo] using hinv2

/-- the same for the whole loop `for i in range(len(dups))`, in the form used by the theorem: `r` is whatever
    the loop evaluates to -/
theorem forLoop_mapExternal_all (dups : List (Option Nat)) (offset : Nat) (Inv : List Nat → Nat → St → Prop)
    {f : Val → St → Flow} {st : St} {r : Flow}
    (hr : forLoop f ((List.range dups.length).map fun (k : Nat) => Val.int (k : Int)) st = r)
    (hinv : Inv (List.range dups.length) 0 st)
    (hstep : ∀ (i : Nat) (o : Option Nat) (res : List Nat) (m : Nat) (st : St), dups[i]? = some o →
      res[i]? = some i → m ≤ i → Inv res m st →
      ∃ st', f (.int (i : Int)) st = .next st' ∧
        Inv (res.set i (match o with | some j => j | none => i + offset - m))
            (match o with | some _ => m + 1 | none => m) st') :
    ∃ st' m', r = .next st' ∧ Inv (mapExternal dups offset) m' st' := by
  rw [List.range_eq_range'] at hr hinv
  obtain ⟨st', m', h1, h2⟩ := forLoop_mapExternal f dups offset Inv hstep dups 0 [] 0 st (by simp) rfl
    (Nat.le_refl 0) (by simpa using hinv)
  exact ⟨st', m', by rw [← hr, h1], by simpa [mapExternal] using h2⟩

end Fc.PyLite.C06
