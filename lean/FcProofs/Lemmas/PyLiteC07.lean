/-
  FcProofs.Lemmas.PyLiteC07 — helper lemmas for the C07 source-translation theorems: products.
-/
import FcModel.Structured
import FcProofs.Lemmas.PyLite
namespace Fc.PyLite.C07
open Fc.PyLite Fc.C07

/-- `reduce(mul, xs, init)` on integers that are casts of naturals -/
theorem foldl_mul_cast (l : List Nat) (init : Int) :
    (l.map fun (n : Nat) => (n : Int)).foldl (· * ·) init = init * (prodNat l : Nat) := by
  induction l generalizing init with
  | nil => simp [prodNat]
  | cons a r ih =>
    simp only [List.map_cons, List.foldl_cons, ih, prodNat, Int.natCast_mul, Int.mul_assoc]

theorem foldl_mul_cast_map (g : Nat → Nat) (l : List Nat) (init : Int) :
    (l.map fun (n : Nat) => ((g n : Nat) : Int)).foldl (· * ·) init = init * (prodNat (l.map g) : Nat) := by
  rw [← foldl_mul_cast, List.map_map]
  rfl

end Fc.PyLite.C07
