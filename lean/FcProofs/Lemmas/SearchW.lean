/-
  Lemmas.SearchW — facts about the Python byte-search model (`findFrom`, `pyFind`) and what a successful
  run of the fallback parser implies about the content.
-/
import FcModel.Truncation
namespace Fc.W

/-- `pat` occurs in `s` at position `i` -/
def occAt (pat s : List Nat) (i : Nat) : Prop := pat.isPrefixOf (s.drop i) = true

instance (pat s : List Nat) (i : Nat) : Decidable (occAt pat s i) := by unfold occAt; infer_instance

theorem findFrom_spec (pat : List Nat) (hp : pat ≠ []) : ∀ (l : List Nat) (i : Nat) (r : Int),
    findFrom pat l i = r → r ≠ -1 → ∃ j : Nat, r = ((i + j : Nat) : Int) ∧ pat.isPrefixOf (l.drop j) = true
  | [], i, r, h, hr => by
    have : pat.isEmpty = false := by cases pat with | nil => exact absurd rfl hp | cons _ _ => rfl
    simp only [findFrom, this, Bool.false_eq_true, if_false] at h
    exact absurd h.symm hr
  | c :: l, i, r, h, hr => by
    unfold findFrom at h
    by_cases hpre : pat.isPrefixOf (c :: l) = true
    · rw [if_pos hpre] at h
      exact ⟨0, by simpa using h.symm, by simpa using hpre⟩
    · rw [if_neg hpre] at h
      obtain ⟨j, hj, hocc⟩ := findFrom_spec pat hp l (i + 1) r h hr
      exact ⟨j + 1, by rw [hj]; congr 1; omega, by simpa using hocc⟩

/-- a successful `s.find(pat, start)` returns a position where `pat` occurs -/
theorem pyFind_spec (pat s : List Nat) (hp : pat ≠ []) (start r : Int) (h : pyFind pat s start = r) (hr : r ≠ -1) :
    ∃ p : Nat, r = (p : Int) ∧ occAt pat s p := by
  unfold pyFind at h
  simp only at h
  by_cases hst : normIdx s.length start > s.length
  · rw [if_pos hst] at h; exact absurd h.symm hr
  · rw [if_neg hst] at h
    obtain ⟨j, hj, hocc⟩ := findFrom_spec pat hp _ _ r h hr
    refine ⟨normIdx s.length start + j, hj, ?_⟩
    unfold occAt
    rw [← List.drop_drop]
    exact hocc

theorem tagAppended_ne : tagAppended ≠ [] := by decide
theorem tagAppendedEnd_ne : tagAppendedEnd ≠ [] := by decide

/-- what a successful `_find_appendix_positions` implies -/
theorem appendixPositions_spec (s : List Nat) (b e : Int) (h : appendixPositions s = some (b, e)) :
    ∃ i u k : Nat, occAt tagAppended s i ∧ occAt [95] s u ∧ occAt tagAppendedEnd s k ∧
      b = ((u + 1 : Nat) : Int) ∧ e = (k : Int) := by
  unfold appendixPositions at h
  simp only at h
  by_cases h1 : pyFind tagAppended s 0 = -1
  · rw [if_pos h1] at h; cases h
  · rw [if_neg h1] at h
    obtain ⟨i, _, hi⟩ := pyFind_spec tagAppended s tagAppended_ne 0 _ rfl h1
    cases henc : findEnclosed s (pyFind tagAppended s 0) 60 62 with
    | none => rw [henc] at h; cases h
    | some pr =>
      obtain ⟨st, close⟩ := pr
      rw [henc] at h
      simp only at h
      by_cases h2 : pyFind [95] s (close + 1) = -1
      · rw [if_pos h2] at h; cases h
      · rw [if_neg h2] at h
        obtain ⟨u, hu, hocc⟩ := pyFind_spec [95] s (by decide) _ _ rfl h2
        by_cases h3 : pyFind tagAppendedEnd s 0 = -1
        · rw [if_pos h3] at h; cases h
        · rw [if_neg h3] at h
          obtain ⟨k, hk, hocck⟩ := pyFind_spec tagAppendedEnd s tagAppendedEnd_ne 0 _ rfl h3
          simp only [Option.some.injEq, Prod.mk.injEq] at h
          refine ⟨i, u, k, hi, hocc, hocck, ?_, ?_⟩
          · rw [← h.1, hu]; simp
          · rw [← h.2, hk]

/-- an occurrence inside a prefix is an occurrence in the whole, and it ends inside the prefix -/
theorem occAt_take (pat s : List Nat) (hp : pat ≠ []) (n i : Nat) (h : occAt pat (s.take n) i) :
    occAt pat s i ∧ i + pat.length ≤ n := by
  unfold occAt at h ⊢
  rw [List.isPrefixOf_iff_prefix] at h ⊢
  obtain ⟨t, ht⟩ := h
  have hlen : pat.length ≤ ((s.take n).drop i).length := by rw [← ht]; simp
  have hposlen : 0 < pat.length := by cases pat with | nil => exact absurd rfl hp | cons _ _ => simp
  simp only [List.length_drop, List.length_take] at hlen
  have hin : i + pat.length ≤ n := by omega
  refine ⟨?_, hin⟩
  -- (s.take n).drop i is a prefix of s.drop i
  have hpre : (s.take n).drop i <+: s.drop i := by
    rw [List.drop_take]
    exact List.take_prefix _ _
  exact List.IsPrefix.trans ⟨t, ht⟩ hpre

end Fc.W
