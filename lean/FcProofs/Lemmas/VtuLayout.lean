/-
  Lemmas for the VTU cell layout (FcModel/VtuLayout.lean vs Spec.vtuArrays / vtuContent) and the
  ascii token round trip.
-/
import FcProofs.Lemmas.VtkBytes
namespace Fc
open Spec

/-! ### ascii tokens -/

theorem asciiRead_asciiTokens (signed : Bool) (sz : Nat) (hsz : 0 < sz) (items : List Nat) (hb : IsBytes items)
    (hd : items.length % sz = 0) : asciiRead sz (asciiTokens signed sz items) = items := by
  unfold asciiRead asciiTokens
  rw [List.map_map]
  have hall := chunks_all_length sz hsz items hd
  have hbytes := chunks_isBytes sz hsz items hb
  have : (chunks sz items).map ((fun v => leBytes sz (v % ((256 ^ sz : Nat) : Int)).toNat) ∘
      (fun it => if signed = true ∧ 2 * leVal it ≥ 256 ^ sz then (leVal it : Int) - ((256 ^ sz : Nat) : Int)
        else (leVal it : Int))) = chunks sz items := by
    conv => rhs; rw [← List.map_id (chunks sz items)]
    apply List.map_congr_left
    intro it hit
    have hl := hall it hit
    have hlt : leVal it < 256 ^ sz := by rw [← hl]; exact leVal_lt it (hbytes it hit)
    have hmod : ∀ v : Int, v = (leVal it : Int) ∨ v = (leVal it : Int) - ((256 ^ sz : Nat) : Int) →
        (v % ((256 ^ sz : Nat) : Int)).toNat = leVal it := by
      intro v hv
      have h0 : ((leVal it : Int) % ((256 ^ sz : Nat) : Int)) = (leVal it : Int) :=
        Int.emod_eq_of_lt (Int.natCast_nonneg _) (by exact_mod_cast hlt)
      rcases hv with hv | hv
      · rw [hv, h0, Int.toNat_natCast]
      · rw [hv, Int.sub_emod_right, h0, Int.toNat_natCast]
    simp only [Function.comp, id]
    split
    · rw [hmod _ (Or.inr rfl), ← hl, leBytes_leVal it (hbytes it hit)]
    · rw [hmod _ (Or.inl rfl), ← hl, leBytes_leVal it (hbytes it hit)]
  rw [this, chunks_flatten sz hsz]

/-! ### generic -/

theorem mapM_option_eq_map {α β} (f : α → Option β) (g : α → β) (l : List α)
    (h : ∀ x ∈ l, f x = some (g x)) : l.mapM f = some (l.map g) := by
  induction l with
  | nil => rfl
  | cons a l ih =>
    rw [List.mapM_cons, h a (by simp), ih (fun x hx => h x (by simp [hx]))]
    rfl

theorem mem_insertUniq (x a : Nat) (l : List Nat) : x ∈ insertUniq a l → x = a ∨ x ∈ l := by
  induction l with
  | nil => intro h; simp [insertUniq] at h; exact Or.inl h
  | cons y ys ih =>
    intro h
    unfold insertUniq at h
    split at h
    · rcases List.mem_cons.mp h with h | h
      · exact Or.inl h
      · exact Or.inr h
    · split at h
      · exact Or.inr h
      · rcases List.mem_cons.mp h with h | h
        · exact Or.inr (by simp [h])
        · rcases ih h with h | h
          · exact Or.inl h
          · exact Or.inr (by simp [h])

theorem mem_uniqueSorted (x : Nat) (l : List Nat) : x ∈ uniqueSorted l → x ∈ l := by
  induction l with
  | nil => intro h; simp [uniqueSorted] at h
  | cons a l ih =>
    intro h
    rcases mem_insertUniq x a _ h with h | h
    · simp [h]
    · simp [ih h]

/-- fancy indexing with a contiguous index range is a slice -/
theorem gather_range {α} (l : List α) (n s : Nat) (h : ((l.drop s).take n).length = n) :
    gather l ((List.range n).map (s + ·)) = some ((l.drop s).take n) := by
  induction n generalizing s with
  | zero => simp [gather]
  | succ n ih =>
    have hs : s < l.length := by
      rw [List.length_take, List.length_drop] at h; omega
    have h' : ((l.drop (s + 1)).take n).length = n := by
      rw [List.length_take, List.length_drop] at h ⊢; omega
    have hr : (List.range (n + 1)).map (s + ·) = s :: (List.range n).map ((s + 1) + ·) := by
      rw [List.range_succ_eq_map, List.map_cons, List.map_map]
      congr 1
      apply List.map_congr_left
      intro j _
      simp only [Function.comp, Nat.succ_eq_add_one]; omega
    have ih' := ih (s + 1) h'
    unfold gather at ih' ⊢
    rw [hr, List.mapM_cons, List.getElem?_eq_getElem hs, ih', List.drop_eq_getElem_cons hs, List.take_succ_cons]
    rfl

/-! ### offsets and corner slices -/

/-- number of corners before cell `i` -/
def startOf (cs : List (Nat × List Nat)) (i : Nat) : Nat := ((cs.take i).map (fun c => c.2.length)).sum

theorem startOf_succ (cs : List (Nat × List Nat)) (i : Nat) (h : i < cs.length) :
    startOf cs (i + 1) = startOf cs i + cs[i].2.length := by
  induction cs generalizing i with
  | nil => simp at h
  | cons c cs ih =>
    cases i with
    | zero => simp [startOf]
    | succ j =>
      have := ih j (by simpa using h)
      simp only [startOf, List.take_succ_cons, List.map_cons, List.sum_cons, List.getElem_cons_succ] at this ⊢
      omega

theorem offsets_get (cs : List (Nat × List Nat)) (acc i : Nat) (h : i ≤ cs.length) :
    (acc :: cellOffsetsFrom cs acc)[i]? = some (acc + startOf cs i) := by
  induction cs generalizing acc i with
  | nil =>
    have : i = 0 := by simpa using h
    subst this; simp [startOf]
  | cons c cs ih =>
    cases i with
    | zero => simp [startOf]
    | succ j =>
      have := ih (acc + c.2.length) j (by simpa using h)
      simp only [cellOffsetsFrom, List.getElem?_cons_succ]
      rw [this]
      simp [startOf]; omega

theorem corners_slice (cs : List (Nat × List Nat)) (i : Nat) (h : i < cs.length) :
    (((cs.map (·.2)).flatten).drop (startOf cs i)).take cs[i].2.length = cs[i].2 := by
  induction cs generalizing i with
  | nil => simp at h
  | cons c cs ih =>
    cases i with
    | zero => simp [startOf]
    | succ j =>
      have hj : j < cs.length := by simpa using h
      have hs : startOf (c :: cs) (j + 1) = c.2.length + startOf cs j := by simp [startOf]
      simp only [List.map_cons, List.flatten_cons, List.getElem_cons_succ]
      rw [hs, ← List.drop_drop, List.drop_left' rfl]
      exact ih j hj

/-! ### indices of a type -/

theorem indicesOfFrom_mem (t : Nat) (cs : List (Nat × List Nat)) (k i : Nat) :
    i ∈ indicesOfFrom t (cs.map (·.1)) k → ∃ j, ∃ hj : j < cs.length, i = k + j ∧ cs[j].1 = t := by
  induction cs generalizing k with
  | nil => intro h; simp [indicesOfFrom] at h
  | cons c cs ih =>
    intro h
    simp only [List.map_cons, indicesOfFrom] at h
    split at h
    next hc =>
      rcases List.mem_cons.mp h with h | h
      · exact ⟨0, by simp, by omega, by simpa using hc⟩
      · obtain ⟨j, hj, e, ht⟩ := ih (k + 1) h
        exact ⟨j + 1, by simpa using hj, by omega, by simpa using ht⟩
    next =>
      obtain ⟨j, hj, e, ht⟩ := ih (k + 1) h
      exact ⟨j + 1, by simpa using hj, by omega, by simpa using ht⟩

theorem indicesOfFrom_ne_nil (t : Nat) (l : List Nat) (k : Nat) (h : t ∈ l) : indicesOfFrom t l k ≠ [] := by
  induction l generalizing k with
  | nil => cases h
  | cons x xs ih =>
    simp only [indicesOfFrom]
    split
    · simp
    next hx =>
      rcases List.mem_cons.mp h with h | h
      · exact absurd h.symm hx
      · exact ih (k + 1) h

/-- mapping a partial function that succeeds on the cells of type `t` over the indices of type `t`
    collects the cells of type `t` in file order -/
theorem mapM_indicesOfFrom {β} (t : Nat) (cs : List (Nat × List Nat)) (k : Nat) (F : Nat → Option β)
    (G : (Nat × List Nat) → β)
    (h : ∀ j (hj : j < cs.length), cs[j].1 = t → F (k + j) = some (G cs[j])) :
    (indicesOfFrom t (cs.map (·.1)) k).mapM F = some ((cs.filter (·.1 = t)).map G) := by
  induction cs generalizing k with
  | nil => rfl
  | cons c cs ih =>
    have hrec := ih (k + 1) (fun j hj ht => by
      have := h (j + 1) (by simpa using hj) (by simpa using ht)
      simpa [Nat.add_assoc, Nat.add_comm 1 j] using this)
    simp only [List.map_cons, indicesOfFrom]
    by_cases hc : c.1 = t
    · have h0 := h 0 (by simp) (by simpa using hc)
      simp only [hc, if_true, List.mapM_cons]
      simp only [Nat.add_zero, List.getElem_cons_zero] at h0
      rw [h0, hrec]
      simp [hc]
    · simp only [hc, if_false]
      rw [hrec]
      simp [hc]

/-! ### the layout theorem -/

theorem vtuCornerRows_type (cs : List (Nat × List Nat))
    (hom : ∀ a ∈ cs, ∀ b ∈ cs, a.1 = b.1 → a.2.length = b.2.length) (t : Nat) (ht : t ∈ cs.map (·.1)) :
    vtuCornerRows ((cs.map (·.2)).flatten) (cellOffsetsFrom cs 0) (indicesOf t (cs.map (·.1)))
      = some ((cs.filter (·.1 = t)).map (·.2)) := by
  unfold vtuCornerRows indicesOf
  have hne := indicesOfFrom_ne_nil t (cs.map (·.1)) 0 ht
  obtain ⟨i0, rest, hidx⟩ := List.exists_cons_of_ne_nil hne
  have hmem : i0 ∈ indicesOfFrom t (cs.map (·.1)) 0 := by rw [hidx]; simp
  obtain ⟨j0, hj0, e0, ht0⟩ := indicesOfFrom_mem t cs 0 i0 hmem
  have e0' : i0 = j0 := by omega
  subst e0'
  have ha := offsets_get cs 0 i0 (Nat.le_of_lt hj0)
  have hb := offsets_get cs 0 (i0 + 1) hj0
  rw [startOf_succ cs i0 hj0] at hb
  simp only [Nat.zero_add] at ha hb
  have hget0 : (indicesOfFrom t (cs.map (·.1)) 0)[0]? = some i0 := by rw [hidx]; rfl
  simp only [hget0, ha, hb, Option.bind_eq_bind, Option.bind_some]
  have hnc : startOf cs i0 + cs[i0].2.length - startOf cs i0 = cs[i0].2.length := by omega
  rw [hnc]
  apply mapM_indicesOfFrom t cs 0 _ (·.2)
  intro j hj htj
  have hoff := offsets_get cs 0 j (Nat.le_of_lt hj)
  simp only [Nat.zero_add] at hoff ⊢
  rw [hoff]
  simp only [Option.bind_some]
  have hlen : cs[i0].2.length = cs[j].2.length :=
    hom _ (List.getElem_mem hj0) _ (List.getElem_mem hj) (by rw [ht0, htj])
  rw [hlen]
  have hsl := corners_slice cs j hj
  rw [gather_range _ _ _ (by rw [hsl]), hsl]

theorem vtuLayout_vtuArrays (cs : List (Nat × List Nat))
    (hom : ∀ a ∈ cs, ∀ b ∈ cs, a.1 = b.1 → a.2.length = b.2.length) :
    vtuLayout (vtuArrays cs).1 (vtuArrays cs).2.1 (vtuArrays cs).2.2 = some (vtuContent cs) := by
  unfold vtuLayout vtuArrays vtuContent
  simp only
  apply mapM_option_eq_map
  intro t ht
  have htm : t ∈ cs.map (·.1) := mem_uniqueSorted t _ ht
  rw [vtuCornerRows_type cs hom t htm]
  rfl

/-! ### cell data -/

theorem gather_indicesOfFrom {α} (t : Nat) (cs : List (Nat × List Nat)) (pre vals : List α)
    (hl : vals.length = cs.length) :
    gather (pre ++ vals) (indicesOfFrom t (cs.map (·.1)) pre.length)
      = some (((cs.zip vals).filter (·.1.1 = t)).map (·.2)) := by
  induction cs generalizing pre vals with
  | nil => rfl
  | cons c cs ih =>
    cases vals with
    | nil => simp at hl
    | cons v vs =>
      have hl' : vs.length = cs.length := by simpa using hl
      have hrec := ih (pre ++ [v]) vs hl'
      simp only [List.length_append, List.length_cons, List.length_nil, Nat.zero_add, List.append_assoc,
        List.cons_append, List.nil_append] at hrec
      unfold gather at hrec ⊢
      simp only [List.map_cons, indicesOfFrom, List.zip_cons_cons]
      by_cases hc : c.1 = t
      · simp only [hc, if_true, List.mapM_cons]
        rw [hrec]
        simp [hc]
      · simp only [hc, if_false]
        rw [hrec]
        simp [hc]

theorem splitCellData_content {α} (cs : List (Nat × List Nat)) (vals : List α) (hl : vals.length = cs.length) :
    splitCellData vals (vtuContent cs) = some (cellDataContent cs vals) := by
  unfold splitCellData vtuContent cellDataContent
  rw [List.mapM_map]
  apply mapM_option_eq_map
  intro t _
  have := gather_indicesOfFrom t cs [] vals hl
  simp only [List.nil_append, List.length_nil] at this
  simp only [Function.comp, indicesOf]
  rw [this]
  rfl

/-! ### VTP: row slicing, index ranges, cell data -/

theorem vtpRowsFrom_flatten (pre : List Nat) (rows : List (List Nat)) :
    vtpRowsFrom (pre ++ rows.flatten) (rowOffsetsFrom rows pre.length) pre.length = rows := by
  induction rows generalizing pre with
  | nil => rfl
  | cons r rs ih =>
    have h := ih (pre ++ r)
    simp only [List.length_append, List.append_assoc] at h
    simp only [rowOffsetsFrom, vtpRowsFrom, List.flatten_cons, h, Nat.add_sub_cancel_left]
    rw [List.drop_left' rfl, List.take_left' rfl]

theorem vtpRows_flatten (rows : List (List Nat)) : vtpRows rows.flatten (rowOffsetsFrom rows 0) = rows := by
  have := vtpRowsFrom_flatten [] rows
  simpa [vtpRows] using this

theorem vtpLayout_from (secs : List (Nat × List (List Nat))) (start : Nat) :
    ((((vtpArrays secs).filter (fun s => 0 < s.2.1)).zip
        (vtpIndexRanges (((vtpArrays secs).filter (fun s => 0 < s.2.1)).map (·.2.1)) start)).map
      (fun sr => (sr.1.1, vtpRows sr.1.2.2.1 sr.1.2.2.2, sr.2))) = vtpContentFrom secs start := by
  induction secs generalizing start with
  | nil => rfl
  | cons s ss ih =>
    by_cases h0 : s.2.length = 0
    · have := ih start
      simp only [vtpArrays, List.map_cons, vtpContentFrom, h0, if_true] at this ⊢
      simpa [List.filter_cons, h0] using this
    · have hpos : 0 < s.2.length := Nat.pos_of_ne_zero h0
      have := ih (start + s.2.length)
      simp only [vtpArrays, List.map_cons, vtpContentFrom, h0, if_false] at this ⊢
      simp only [List.filter_cons, hpos, decide_true, if_true, List.map_cons, vtpIndexRanges,
        List.zip_cons_cons, vtpRows_flatten]
      rw [this]

theorem gather_append_range {α} (pre vals : List α) (n : Nat) (h : n ≤ vals.length) :
    gather (pre ++ vals) ((List.range n).map (pre.length + ·)) = some (vals.take n) := by
  have := gather_range (pre ++ vals) n pre.length (by
    rw [List.drop_left' rfl, List.length_take]; omega)
  rw [this, List.drop_left' rfl]

theorem splitCellData_vtpContentFrom {α} (secs : List (Nat × List (List Nat))) (pre vals : List α)
    (hl : vals.length = (secs.map (·.2.length)).sum) :
    splitCellData (pre ++ vals) (vtpContentFrom secs pre.length) = some (vtpCellDataContent secs vals) := by
  induction secs generalizing pre vals with
  | nil => rfl
  | cons s ss ih =>
    simp only [List.map_cons, List.sum_cons] at hl
    by_cases h0 : s.2.length = 0
    · simp only [vtpContentFrom, vtpCellDataContent, h0, if_true]
      exact ih pre vals (by omega)
    · have hn : s.2.length ≤ vals.length := by omega
      have hrec := ih (pre ++ vals.take s.2.length) (vals.drop s.2.length) (by
        rw [List.length_drop]; omega)
      have hlen : (pre ++ vals.take s.2.length).length = pre.length + s.2.length := by
        rw [List.length_append, List.length_take]; omega
      rw [hlen, List.append_assoc, List.take_append_drop] at hrec
      unfold splitCellData at hrec ⊢
      simp only [Option.bind_eq_bind] at hrec
      simp only [vtpContentFrom, vtpCellDataContent, h0, if_false, List.mapM_cons,
        gather_append_range pre vals _ hn, Option.bind_eq_bind, Option.bind_some, hrec]
      rfl

end Fc
