/-
  FcProofs.Lemmas.DirMode — helper lemmas for property C12:
  Python-set operations on lists, `find_matches` on duplicate-free lists, membership and
  duplicate-freeness of every category of `_categorize_files`.
-/
import FcModel.Spec.C12
namespace Fc.DirMode
variable {α : Type} [DecidableEq α]

/-! ### dedup / setDiff / setUnion -/

theorem mem_dedup {x : α} {xs : List α} : x ∈ dedup xs ↔ x ∈ xs := by
  induction xs with
  | nil => simp [dedup]
  | cons y ys ih =>
    unfold dedup
    split
    · rename_i h
      constructor
      · intro hx; exact List.mem_cons_of_mem _ (ih.mp hx)
      · intro hx
        rcases List.mem_cons.mp hx with rfl | hx
        · exact ih.mpr h
        · exact ih.mpr hx
    · simp [ih]

theorem nodup_dedup (xs : List α) : (dedup xs).Nodup := by
  induction xs with
  | nil => simp [dedup]
  | cons y ys ih =>
    unfold dedup
    split
    · exact ih
    · rename_i h
      exact List.nodup_cons.mpr ⟨fun hm => h (mem_dedup.mp hm), ih⟩

theorem dedup_eq_self {xs : List α} (h : xs.Nodup) : dedup xs = xs := by
  induction xs with
  | nil => rfl
  | cons y ys ih =>
    have ⟨hy, hys⟩ := List.nodup_cons.mp h
    simp [dedup, hy, ih hys]

theorem mem_setDiff {x : α} {xs ys : List α} : x ∈ setDiff xs ys ↔ x ∈ xs ∧ x ∉ ys := by
  simp [setDiff, mem_dedup]

theorem nodup_setDiff (xs ys : List α) : (setDiff xs ys).Nodup := nodup_dedup _

theorem mem_setUnion {x : α} {xs ys : List α} : x ∈ setUnion xs ys ↔ x ∈ xs ∨ x ∈ ys := by
  simp [setUnion, mem_dedup]

theorem nodup_setUnion (xs ys : List α) : (setUnion xs ys).Nodup := nodup_dedup _

omit [DecidableEq α] in
theorem nodup_filter {xs : List α} (p : α → Bool) (h : xs.Nodup) : (xs.filter p).Nodup :=
  List.Nodup.sublist List.filter_sublist h

/-! ### find_matches -/

/-- membership in `matches` needs no hypothesis: a name is matched iff it occurs on both sides -/
theorem mem_matched {p : α} (src ref : List α) :
    p ∈ (findMatches src ref).matched ↔ p ∈ src ∧ p ∈ ref := by
  induction src generalizing ref with
  | nil => simp [findMatches]
  | cons s src ih =>
    unfold findMatches
    split
    · rename_i hs
      simp only [List.mem_cons, ih]
      by_cases hp : p = s
      · subst hp; simp [hs]
      · simp [hp, List.mem_erase_of_ne hp]
    · rename_i hs
      simp only [List.mem_cons, ih]
      by_cases hp : p = s
      · subst hp; simp [hs]
      · simp [hp]

/-- on duplicate-free lists first-match-and-remove is intersection / the two differences -/
theorem findMatches_nodup {src ref : List α} (hs : src.Nodup) (hr : ref.Nodup) :
    (findMatches src ref).matched = src.filter (fun p => decide (p ∈ ref))
    ∧ (findMatches src ref).orphansSource = src.filter (fun p => !decide (p ∈ ref))
    ∧ (findMatches src ref).orphansReference = ref.filter (fun p => !decide (p ∈ src)) := by
  induction src generalizing ref with
  | nil =>
    simp only [findMatches, List.filter_nil, List.not_mem_nil, decide_false, Bool.not_false, true_and]
    exact (List.filter_eq_self.mpr (fun _ _ => rfl)).symm
  | cons s src ih =>
    have ⟨hs1, hs2⟩ := List.nodup_cons.mp hs
    unfold findMatches
    split
    · rename_i hmem
      have hr' : (ref.erase s).Nodup := hr.erase s
      obtain ⟨h1, h2, h3⟩ := ih hs2 hr'
      have hne : ∀ x ∈ src, x ≠ s := fun x hx h => hs1 (h ▸ hx)
      have hcongr : ∀ x ∈ src, decide (x ∈ ref.erase s) = decide (x ∈ ref) := by
        intro x hx
        simp [List.mem_erase_of_ne (hne x hx)]
      refine ⟨?_, ?_, ?_⟩
      · simp only [h1, List.filter_cons, hmem, decide_true, if_true]
        congr 1
        exact List.filter_congr hcongr
      · simp only [h2, List.filter_cons, hmem, decide_true, Bool.not_true]
        simp only [Bool.false_eq_true, if_false]
        apply List.filter_congr
        intro x hx; simp [hcongr x hx]
      · simp only [h3]
        rw [hr.erase_eq_filter s, List.filter_filter]
        apply List.filter_congr
        intro x _
        by_cases hx : x = s
        · subst hx; simp
        · simp [hx]
    · rename_i hmem
      obtain ⟨h1, h2, h3⟩ := ih hs2 hr
      refine ⟨?_, ?_, ?_⟩
      · simp [h1, hmem]
      · simp [h2, hmem]
      · simp only [h3]
        apply List.filter_congr
        intro x hx
        have : x ≠ s := fun h => hmem (h ▸ hx)
        simp [this]


theorem matched_sublist (src ref : List α) : ((findMatches src ref).matched).Sublist src := by
  induction src generalizing ref with
  | nil => simp [findMatches]
  | cons s src ih =>
    unfold findMatches
    split
    · exact (ih _).cons_cons s
    · exact (ih _).cons s

theorem orphansSource_sublist (src ref : List α) : ((findMatches src ref).orphansSource).Sublist src := by
  induction src generalizing ref with
  | nil => simp [findMatches]
  | cons s src ih =>
    unfold findMatches
    split
    · exact (ih _).cons s
    · exact (ih _).cons_cons s

theorem orphansReference_sublist (src ref : List α) : ((findMatches src ref).orphansReference).Sublist ref := by
  induction src generalizing ref with
  | nil => simp [findMatches]
  | cons s src ih =>
    unfold findMatches
    split
    · exact (ih _).trans List.erase_sublist
    · exact ih _

theorem mem_orphansSource {src ref : List α} (hs : src.Nodup) (hr : ref.Nodup) {p : α} :
    p ∈ (findMatches src ref).orphansSource ↔ p ∈ src ∧ p ∉ ref := by
  rw [(findMatches_nodup hs hr).2.1]; simp

theorem mem_orphansReference {src ref : List α} (hs : src.Nodup) (hr : ref.Nodup) {p : α} :
    p ∈ (findMatches src ref).orphansReference ↔ p ∈ ref ∧ p ∉ src := by
  rw [(findMatches_nodup hs hr).2.2]; simp

/-! ### the six categories: membership -/

section categories
variable (res ref : List α) (incl excl supported mapped : α → Bool)

theorem mem_filesToCompare {p : α} :
    p ∈ (categorize res ref incl excl supported mapped).filesToCompare
      ↔ p ∈ res ∧ p ∈ ref ∧ consider incl excl p = true ∧ (supported p = true ∨ mapped p = true) := by
  simp only [categorize, List.mem_append, List.mem_filter, mem_setDiff, mem_matched]
  by_cases h : supported p = true <;> simp [h] <;> grind

theorem mem_discardedFiles {p : α} :
    p ∈ (categorize res ref incl excl supported mapped).discardedFiles
      ↔ p ∈ res ∧ p ∈ ref ∧ consider incl excl p = false := by
  simp only [categorize, List.mem_filter, mem_setDiff, mem_matched]
  by_cases h : consider incl excl p = true <;> simp [h]

theorem mem_unsupportedFiles {p : α} :
    p ∈ (categorize res ref incl excl supported mapped).unsupportedFiles
      ↔ p ∈ res ∧ p ∈ ref ∧ consider incl excl p = true ∧ supported p = false ∧ mapped p = false := by
  simp only [categorize, List.mem_filter, mem_setDiff, mem_matched]
  by_cases h : supported p = true <;> by_cases h2 : mapped p = true <;> simp [h, h2] <;> grind

variable {res ref}

theorem mem_missingSources (hs : res.Nodup) (hr : ref.Nodup) {p : α} :
    p ∈ (categorize res ref incl excl supported mapped).missingSources
      ↔ p ∈ ref ∧ p ∉ res ∧ consider incl excl p = true := by
  simp only [categorize, List.mem_filter, mem_orphansReference hs hr]
  grind

theorem mem_missingReferences (hs : res.Nodup) (hr : ref.Nodup) {p : α} :
    p ∈ (categorize res ref incl excl supported mapped).missingReferences
      ↔ p ∈ res ∧ p ∉ ref ∧ consider incl excl p = true := by
  simp only [categorize, List.mem_filter, mem_orphansSource hs hr]
  grind

theorem mem_discardedOrphanFiles (hs : res.Nodup) (hr : ref.Nodup) {p : α} :
    p ∈ (categorize res ref incl excl supported mapped).discardedOrphanFiles
      ↔ ((p ∈ res ∧ p ∉ ref) ∨ (p ∈ ref ∧ p ∉ res)) ∧ consider incl excl p = false := by
  simp only [categorize, mem_setUnion, mem_setDiff, List.mem_filter, mem_orphansReference hs hr,
    mem_orphansSource hs hr]
  by_cases h : consider incl excl p = true <;> simp [h] <;> grind

/-! ### the six categories: duplicate-freeness -/

theorem nodup_filesToCompare (hs : res.Nodup) :
    (categorize res ref incl excl supported mapped).filesToCompare.Nodup := by
  have hm : ((findMatches res ref).matched).Nodup := (matched_sublist res ref).nodup hs
  simp only [categorize]
  refine List.nodup_append.mpr ⟨nodup_filter _ (nodup_filter _ hm), nodup_filter _ (nodup_setDiff _ _), ?_⟩
  intro a ha b hb hab
  subst hab
  simp only [List.mem_filter, mem_setDiff] at ha hb
  exact hb.1.2 ⟨ha.1, ha.2⟩

theorem nodup_missingSources (hr : ref.Nodup) :
    (categorize res ref incl excl supported mapped).missingSources.Nodup :=
  nodup_filter _ ((orphansReference_sublist res ref).nodup hr)

theorem nodup_missingReferences (hs : res.Nodup) :
    (categorize res ref incl excl supported mapped).missingReferences.Nodup :=
  nodup_filter _ ((orphansSource_sublist res ref).nodup hs)

theorem nodup_discardedFiles : (categorize res ref incl excl supported mapped).discardedFiles.Nodup :=
  nodup_setDiff _ _

theorem nodup_unsupportedFiles : (categorize res ref incl excl supported mapped).unsupportedFiles.Nodup :=
  nodup_setDiff _ _

theorem nodup_discardedOrphanFiles :
    (categorize res ref incl excl supported mapped).discardedOrphanFiles.Nodup :=
  nodup_setUnion _ _


/-! ### categories = classes of the per-path specification -/

open Spec in
theorem mem_filesToCompare_iff_class {p : α} :
    p ∈ (categorize res ref incl excl supported mapped).filesToCompare
      ↔ classify res ref incl excl supported mapped p = .compared := by
  rw [mem_filesToCompare]; unfold classify
  by_cases h1 : p ∈ res <;> by_cases h2 : p ∈ ref <;> by_cases h3 : consider incl excl p = true <;>
    by_cases h4 : supported p = true <;> by_cases h5 : mapped p = true <;> simp [h1, h2, h3, h4, h5]

open Spec in
theorem mem_discardedFiles_iff_class {p : α} :
    p ∈ (categorize res ref incl excl supported mapped).discardedFiles
      ↔ classify res ref incl excl supported mapped p = .filtered := by
  rw [mem_discardedFiles]; unfold classify
  by_cases h1 : p ∈ res <;> by_cases h2 : p ∈ ref <;> by_cases h3 : consider incl excl p = true <;>
    by_cases h4 : supported p = true <;> by_cases h5 : mapped p = true <;> simp [h1, h2, h3, h4, h5]

open Spec in
theorem mem_unsupportedFiles_iff_class {p : α} :
    p ∈ (categorize res ref incl excl supported mapped).unsupportedFiles
      ↔ classify res ref incl excl supported mapped p = .unsupported := by
  rw [mem_unsupportedFiles]; unfold classify
  by_cases h1 : p ∈ res <;> by_cases h2 : p ∈ ref <;> by_cases h3 : consider incl excl p = true <;>
    by_cases h4 : supported p = true <;> by_cases h5 : mapped p = true <;> simp [h1, h2, h3, h4, h5]

open Spec in
theorem mem_missingSources_iff_class (hs : res.Nodup) (hr : ref.Nodup) {p : α} :
    p ∈ (categorize res ref incl excl supported mapped).missingSources
      ↔ classify res ref incl excl supported mapped p = .missingSource := by
  rw [mem_missingSources incl excl supported mapped hs hr]; unfold classify
  by_cases h1 : p ∈ res <;> by_cases h2 : p ∈ ref <;> by_cases h3 : consider incl excl p = true <;>
    by_cases h4 : supported p = true <;> by_cases h5 : mapped p = true <;> simp [h1, h2, h3, h4, h5]

open Spec in
theorem mem_missingReferences_iff_class (hs : res.Nodup) (hr : ref.Nodup) {p : α} :
    p ∈ (categorize res ref incl excl supported mapped).missingReferences
      ↔ classify res ref incl excl supported mapped p = .missingReference := by
  rw [mem_missingReferences incl excl supported mapped hs hr]; unfold classify
  by_cases h1 : p ∈ res <;> by_cases h2 : p ∈ ref <;> by_cases h3 : consider incl excl p = true <;>
    by_cases h4 : supported p = true <;> by_cases h5 : mapped p = true <;> simp [h1, h2, h3, h4, h5]

open Spec in
theorem mem_discardedOrphanFiles_iff_class (hs : res.Nodup) (hr : ref.Nodup) {p : α} :
    p ∈ (categorize res ref incl excl supported mapped).discardedOrphanFiles
      ↔ classify res ref incl excl supported mapped p = .orphanFiltered := by
  rw [mem_discardedOrphanFiles incl excl supported mapped hs hr]; unfold classify
  by_cases h1 : p ∈ res <;> by_cases h2 : p ∈ ref <;> by_cases h3 : consider incl excl p = true <;>
    by_cases h4 : supported p = true <;> by_cases h5 : mapped p = true <;> simp [h1, h2, h3, h4, h5]

open Spec in
theorem classify_absent_iff {p : α} :
    classify res ref incl excl supported mapped p = .absent ↔ p ∉ res ∧ p ∉ ref := by
  unfold classify
  by_cases h1 : p ∈ res <;> by_cases h2 : p ∈ ref <;> by_cases h3 : consider incl excl p = true <;>
    by_cases h4 : supported p = true <;> by_cases h5 : mapped p = true <;> simp [h1, h2, h3, h4, h5]

/-! ### the partition -/

theorem mem_distinctPaths {p : α} : p ∈ Spec.distinctPaths res ref ↔ p ∈ res ∨ p ∈ ref := by
  simp only [Spec.distinctPaths, List.mem_append, List.mem_filter]
  by_cases h : p ∈ res <;> simp [h]

theorem nodup_distinctPaths (hs : res.Nodup) (hr : ref.Nodup) : (Spec.distinctPaths res ref).Nodup := by
  refine List.nodup_append.mpr ⟨hs, nodup_filter _ hr, ?_⟩
  intro a ha b hb hab
  subst hab
  simp only [List.mem_filter] at hb
  simp [ha] at hb

theorem mem_all (hs : res.Nodup) (hr : ref.Nodup) {p : α} :
    p ∈ (categorize res ref incl excl supported mapped).all ↔ p ∈ res ∨ p ∈ ref := by
  simp only [Categories.all, Categories.reported, List.mem_append,
    mem_filesToCompare, mem_discardedFiles, mem_unsupportedFiles,
    mem_missingSources incl excl supported mapped hs hr, mem_missingReferences incl excl supported mapped hs hr,
    mem_discardedOrphanFiles incl excl supported mapped hs hr]
  by_cases h1 : p ∈ res <;> by_cases h2 : p ∈ ref <;> by_cases h3 : consider incl excl p = true <;>
    by_cases h4 : supported p = true <;> by_cases h5 : mapped p = true <;> simp [h1, h2, h3, h4, h5]

theorem nodup_all (hs : res.Nodup) (hr : ref.Nodup) :
    (categorize res ref incl excl supported mapped).all.Nodup := by
  have e1 := @mem_filesToCompare_iff_class α _ res ref incl excl supported mapped
  have e2 := @mem_missingSources_iff_class α _ res ref incl excl supported mapped hs hr
  have e3 := @mem_missingReferences_iff_class α _ res ref incl excl supported mapped hs hr
  have e4 := @mem_unsupportedFiles_iff_class α _ res ref incl excl supported mapped
  have e5 := @mem_discardedFiles_iff_class α _ res ref incl excl supported mapped
  have e6 := @mem_discardedOrphanFiles_iff_class α _ res ref incl excl supported mapped hs hr
  simp only [Categories.all, Categories.reported]
  refine List.nodup_append.mpr ⟨List.nodup_append.mpr ⟨List.nodup_append.mpr ⟨List.nodup_append.mpr
    ⟨List.nodup_append.mpr ⟨nodup_filesToCompare incl excl supported mapped hs,
      nodup_missingSources incl excl supported mapped hr, ?_⟩,
      nodup_missingReferences incl excl supported mapped hs, ?_⟩,
      nodup_unsupportedFiles incl excl supported mapped, ?_⟩,
      nodup_discardedFiles incl excl supported mapped, ?_⟩,
      nodup_discardedOrphanFiles incl excl supported mapped, ?_⟩
  all_goals
    intro a ha b hb hab
    subst hab
    simp only [List.mem_append, e1, e2, e3, e4, e5, e6] at ha hb
    grind

/-- the six categories, put together, are a rearrangement of the distinct paths of the two trees -/
theorem all_perm (hs : res.Nodup) (hr : ref.Nodup) :
    ((categorize res ref incl excl supported mapped).all).Perm (Spec.distinctPaths res ref) :=
  (List.perm_ext_iff_of_nodup (nodup_all incl excl supported mapped hs hr) (nodup_distinctPaths hs hr)).mpr
    (fun p => by rw [mem_all incl excl supported mapped hs hr, mem_distinctPaths])

end categories


/-! ### suites, count, exit code against the per-path specification -/

section run
variable {res ref : List α} (incl excl supported mapped : α → Bool) (fileOutcome : α → Outcome) (flags : Flags)

theorem suites_eq (res ref : List α) :
    (run res ref incl excl supported mapped fileOutcome flags).suites
      = let c := categorize res ref incl excl supported mapped
        c.filesToCompare.map (fun p => (⟨p, .compared (fileOutcome p), (fileOutcome p).status⟩ : Suite α))
        ++ c.missingSources.map
            (fun p => ⟨p, .missingSource, if !flags.ignoreMissingSource then .failed else .skipped⟩)
        ++ c.missingReferences.map
            (fun p => ⟨p, .missingReference, if !flags.ignoreMissingReference then .failed else .skipped⟩)
        ++ c.unsupportedFiles.map (fun p => ⟨p, .unsupported, .skipped⟩)
        ++ c.discardedFiles.map (fun p => ⟨p, .filtered, .skipped⟩) := by
  simp [run, addUnhandled, addSkipped, doFileComparisons]

theorem suites_paths (res ref : List α) :
    (run res ref incl excl supported mapped fileOutcome flags).suites.map (·.path)
      = (categorize res ref incl excl supported mapped).reported := by
  rw [suites_eq]
  simp [Categories.reported, List.map_append, List.map_map, Function.comp_def]

omit [DecidableEq α] in
private theorem filterMap_of_forall_some {β} (L : List α) (g : α → Option β) (f : α → β)
    (h : ∀ p ∈ L, g p = some (f p)) : L.filterMap g = L.map f := by
  induction L with
  | nil => rfl
  | cons x xs ih =>
    have hx := h x (List.mem_cons_self)
    have hxs := ih (fun p hp => h p (List.mem_cons_of_mem _ hp))
    simp [hx, hxs]

omit [DecidableEq α] in
private theorem filterMap_of_forall_none {β} (L : List α) (g : α → Option β)
    (h : ∀ p ∈ L, g p = none) : L.filterMap g = [] := by
  induction L with
  | nil => rfl
  | cons x xs ih =>
    have hx := h x (List.mem_cons_self)
    have hxs := ih (fun p hp => h p (List.mem_cons_of_mem _ hp))
    simp [hx, hxs]

theorem suites_perm_spec (hs : res.Nodup) (hr : ref.Nodup) :
    ((run res ref incl excl supported mapped fileOutcome flags).suites).Perm
      (Spec.suites res ref incl excl supported mapped fileOutcome flags) := by
  have e1 := @mem_filesToCompare_iff_class α _ res ref incl excl supported mapped
  have e2 := @mem_missingSources_iff_class α _ res ref incl excl supported mapped hs hr
  have e3 := @mem_missingReferences_iff_class α _ res ref incl excl supported mapped hs hr
  have e4 := @mem_unsupportedFiles_iff_class α _ res ref incl excl supported mapped
  have e5 := @mem_discardedFiles_iff_class α _ res ref incl excl supported mapped
  have e6 := @mem_discardedOrphanFiles_iff_class α _ res ref incl excl supported mapped hs hr
  let g : α → Option (Suite α) :=
    fun p => Spec.suiteOf fileOutcome flags p (Spec.classify res ref incl excl supported mapped p)
  have hperm := (all_perm incl excl supported mapped hs hr).filterMap g
  have hsplit : (categorize res ref incl excl supported mapped).all.filterMap g
      = (run res ref incl excl supported mapped fileOutcome flags).suites := by
    rw [suites_eq]
    simp only [Categories.all, Categories.reported, List.filterMap_append]
    rw [filterMap_of_forall_none (categorize res ref incl excl supported mapped).discardedOrphanFiles g
      (fun p hp => by simp [g, e6.mp hp, Spec.suiteOf]), List.append_nil]
    congr 1
    · congr 1
      · congr 1
        · congr 1
          · exact filterMap_of_forall_some _ g _ (fun p hp => by simp [g, e1.mp hp, Spec.suiteOf])
          · exact filterMap_of_forall_some _ g _ (fun p hp => by
              cases h : flags.ignoreMissingSource <;> simp [g, e2.mp hp, Spec.suiteOf, h])
        · exact filterMap_of_forall_some _ g _ (fun p hp => by
            cases h : flags.ignoreMissingReference <;> simp [g, e3.mp hp, Spec.suiteOf, h])
      · exact filterMap_of_forall_some _ g _ (fun p hp => by simp [g, e4.mp hp, Spec.suiteOf])
    · exact filterMap_of_forall_some _ g _ (fun p hp => by simp [g, e5.mp hp, Spec.suiteOf])
  rw [← hsplit]
  exact hperm

theorem orphanCount_eq_spec (hs : res.Nodup) (hr : ref.Nodup) :
    (run res ref incl excl supported mapped fileOutcome flags).discardedOrphanCount
      = Spec.orphanCount res ref incl excl supported mapped := by
  have e1 := @mem_filesToCompare_iff_class α _ res ref incl excl supported mapped
  have e2 := @mem_missingSources_iff_class α _ res ref incl excl supported mapped hs hr
  have e3 := @mem_missingReferences_iff_class α _ res ref incl excl supported mapped hs hr
  have e4 := @mem_unsupportedFiles_iff_class α _ res ref incl excl supported mapped
  have e5 := @mem_discardedFiles_iff_class α _ res ref incl excl supported mapped
  have e6 := @mem_discardedOrphanFiles_iff_class α _ res ref incl excl supported mapped hs hr
  unfold Spec.orphanCount
  rw [← (all_perm incl excl supported mapped hs hr).countP_eq]
  simp only [Categories.all, Categories.reported, List.countP_append]
  have z : ∀ (L : List α) (k : Spec.Class), k ≠ .orphanFiltered →
      (∀ p ∈ L, Spec.classify res ref incl excl supported mapped p = k) →
      L.countP (fun p => Spec.classify res ref incl excl supported mapped p == .orphanFiltered) = 0 := by
    intro L k hk hL
    apply List.countP_eq_zero.mpr
    intro p hp
    simp [hL p hp, hk]
  rw [z _ .compared (by decide) (fun p hp => e1.mp hp), z _ .missingSource (by decide) (fun p hp => e2.mp hp),
    z _ .missingReference (by decide) (fun p hp => e3.mp hp), z _ .unsupported (by decide) (fun p hp => e4.mp hp),
    z _ .filtered (by decide) (fun p hp => e5.mp hp)]
  have l : (categorize res ref incl excl supported mapped).discardedOrphanFiles.countP
      (fun p => Spec.classify res ref incl excl supported mapped p == .orphanFiltered)
      = (categorize res ref incl excl supported mapped).discardedOrphanFiles.length := by
    apply List.countP_eq_length.mpr
    intro p hp
    simp [e6.mp hp]
  simp [l, run]

theorem all_suites_iff (res ref : List α) :
    (run res ref incl excl supported mapped fileOutcome flags).suites.all (fun s => s.status.toBool) = true
      ↔ (∀ p ∈ (categorize res ref incl excl supported mapped).filesToCompare, fileOutcome p = .pass)
        ∧ (flags.ignoreMissingSource = true ∨ (categorize res ref incl excl supported mapped).missingSources = [])
        ∧ (flags.ignoreMissingReference = true
            ∨ (categorize res ref incl excl supported mapped).missingReferences = []) := by
  rw [suites_eq]
  simp only [List.all_append, List.all_map, Bool.and_eq_true, List.all_eq_true, Function.comp_def]
  have hst : ∀ o : Outcome, o.status.toBool = true ↔ o = .pass := by
    intro o; cases o <;> simp [Outcome.status, Status.toBool]
  have hfl : ∀ (b : Bool) (L : List α),
      (∀ x ∈ L, (if (!b) = true then Status.failed else Status.skipped).toBool = true) ↔ (b = true ∨ L = []) := by
    intro b L
    cases b
    · cases L with
      | nil => simp
      | cons x xs =>
        constructor
        · intro h
          have := h x List.mem_cons_self
          simp [Status.toBool] at this
        · intro h
          simp at h
    · simp [Status.toBool]
  constructor
  · rintro ⟨⟨⟨⟨hA, hB⟩, hC⟩, _⟩, _⟩
    exact ⟨fun p hp => (hst _).mp (hA p hp), (hfl _ _).mp hB, (hfl _ _).mp hC⟩
  · rintro ⟨hA, hB, hC⟩
    exact ⟨⟨⟨⟨fun p hp => (hst _).mpr (hA p hp), (hfl _ _).mpr hB⟩, (hfl _ _).mpr hC⟩,
      fun _ _ => rfl⟩, fun _ _ => rfl⟩

end run

end Fc.DirMode
