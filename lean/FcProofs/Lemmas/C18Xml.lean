/-
  Lemmas.C18Xml — the `XmlLite` scanner on serialized documents: while a tag is being read the scanner is not in
  text mode, while the children of an element at depth d are being read the depth stays ≥ d + 1, and after a
  complete node the scanner is back in the state it started from (induction over the document tree).
-/
import FcModel.C18XmlLite
namespace Fc.XmlLite

theorem run_nil (s : St) : run s [] = s := rfl
theorem run_cons (s : St) (c : Nat) (cs : List Nat) : run s (c :: cs) = run (step s c) cs := rfl
theorem run_append (s : St) (a b : List Nat) : run s (a ++ b) = run (run s a) b := List.foldl_append ..

/-- every state visited while reading `cs` (the start state excluded) satisfies `P` -/
def AllSt (P : St → Prop) : St → List Nat → Prop
  | _, [] => True
  | s, c :: cs => P (step s c) ∧ AllSt P (step s c) cs

theorem AllSt_append (P : St → Prop) : ∀ (a b : List Nat) (s : St),
    AllSt P s (a ++ b) ↔ AllSt P s a ∧ AllSt P (run s a) b
  | [], b, s => by simp [AllSt, run_nil]
  | c :: a, b, s => by
    simp only [List.cons_append, AllSt, run_cons, AllSt_append P a b, and_assoc]

theorem AllSt_mono {P Q : St → Prop} (h : ∀ s, P s → Q s) : ∀ (cs : List Nat) (s : St), AllSt P s cs → AllSt Q s cs
  | [], _, _ => trivial
  | _ :: cs, _, hp => ⟨h _ hp.1, AllSt_mono h cs _ hp.2⟩

theorem AllSt_take {P : St → Prop} : ∀ (cs : List Nat) (s : St), P s → AllSt P s cs → ∀ n, P (run s (cs.take n))
  | [], s, h0, _, n => by simpa [run_nil] using h0
  | _ :: _, s, h0, _, 0 => by simpa [run_nil] using h0
  | c :: cs, s, _, h, n + 1 => by
    simp only [List.take_succ_cons, run_cons]
    exact AllSt_take cs _ h.1 h.2 n

/-- characters that leave the state unchanged -/
theorem stay {P : St → Prop} (s : St) (hP : P s) : ∀ (cs : List Nat), (∀ c ∈ cs, step s c = s) →
    run s cs = s ∧ AllSt P s cs
  | [], _ => ⟨rfl, trivial⟩
  | c :: cs, h => by
    have hc : step s c = s := h c (by simp)
    have ih := stay (P := P) s hP cs (fun x hx => h x (by simp [hx]))
    refine ⟨by rw [run_cons, hc]; exact ih.1, ?_⟩
    simp only [AllSt, hc]
    exact ⟨hP, ih.2⟩

/-! ### character classes -/

theorem nameStart_nameChar {c : Nat} (h : isNameStart c = true) : isNameChar c = true := by
  simp [isNameChar, h]

theorem nameChar_ne {c : Nat} (h : isNameChar c = true) : c ≠ 34 ∧ c ≠ 47 ∧ c ≠ 62 ∧ c ≠ 60 ∧ c ≠ 63 := by
  simp only [isNameChar, isNameStart, Bool.or_eq_true, Bool.and_eq_true, decide_eq_true_eq, beq_iff_eq] at h
  omega

/-- inside a tag of an element that is opened at depth `d` -/
def InTag (d : Nat) (b : Bool) (st : St) : Prop := st.depth = d ∧ st.seen = b ∧ st.mode ≠ .text

theorem stag_stay (d : Nat) (b : Bool) {c : Nat} (h : c ≠ 34 ∧ c ≠ 47 ∧ c ≠ 62 ∧ c ≠ 60) :
    step ⟨.stag, d, b⟩ c = ⟨.stag, d, b⟩ := by
  simp [step, h.1, h.2.1, h.2.2.1, h.2.2.2]

theorem name_run (d : Nat) (b : Bool) (r : List Nat) (hr : r.all isNameChar = true) :
    run ⟨.stag, d, b⟩ r = ⟨.stag, d, b⟩ ∧ AllSt (InTag d b) ⟨.stag, d, b⟩ r := by
  apply stay
  · exact ⟨rfl, rfl, by simp⟩
  · intro c hc
    have := nameChar_ne (List.all_eq_true.mp hr c hc)
    exact stag_stay d b ⟨this.1, this.2.1, this.2.2.1, this.2.2.2.1⟩

theorem nameOk_all {n : List Nat} (h : nameOk n = true) : n.all isNameChar = true := by
  match n, h with
  | c :: r, h =>
    simp only [nameOk, Bool.and_eq_true] at h
    simp only [List.all_cons, Bool.and_eq_true]
    exact ⟨nameStart_nameChar h.1, h.2⟩

/-- the attributes of a tag: the scanner is back outside the quotes behind every attribute -/
theorem attrs_run (d : Nat) (b : Bool) : ∀ (a : Attrs), attrsOk a = true →
    run ⟨.stag, d, b⟩ (serAttrs a) = ⟨.stag, d, b⟩ ∧ AllSt (InTag d b) ⟨.stag, d, b⟩ (serAttrs a)
  | [], _ => ⟨rfl, trivial⟩
  | kv :: a, h => by
    simp only [attrsOk, List.all_cons, Bool.and_eq_true] at h
    obtain ⟨⟨hk, hv⟩, ha⟩ := h
    have ih := attrs_run d b a (by simpa [attrsOk] using ha)
    have e : serAttrs (kv :: a) = [32] ++ (kv.1 ++ ([61, 34] ++ (kv.2 ++ ([34] ++ serAttrs a)))) := by
      simp [serAttrs]
    rw [e]
    have hin : InTag d b ⟨.stag, d, b⟩ := ⟨rfl, rfl, by simp⟩
    have hq : InTag d b ⟨.quot, d, b⟩ := ⟨rfl, rfl, by simp⟩
    have s1 : step ⟨.stag, d, b⟩ 32 = ⟨.stag, d, b⟩ := stag_stay d b (by omega)
    have s2 := name_run d b kv.1 (nameOk_all hk)
    have s3 : step ⟨.stag, d, b⟩ 61 = ⟨.stag, d, b⟩ := stag_stay d b (by omega)
    have s4 : step ⟨.stag, d, b⟩ 34 = ⟨.quot, d, b⟩ := by simp [step]
    have s5 : run ⟨.quot, d, b⟩ kv.2 = ⟨.quot, d, b⟩ ∧ AllSt (InTag d b) ⟨.quot, d, b⟩ kv.2 := by
      apply stay _ hq
      intro c hc
      have := List.all_eq_true.mp hv c hc
      simp only [Bool.and_eq_true, bne_iff_ne, ne_eq] at this
      simp [step, this.1.1, this.1.2]
    have s6 : step ⟨.quot, d, b⟩ 34 = ⟨.stag, d, b⟩ := by simp [step]
    constructor
    · simp only [run_append, run_cons, run_nil, s1, s2.1, s3, s4, s5.1, s6, ih.1]
    · simp only [AllSt_append, AllSt, run_cons, run_nil, s1, s2.1, s3, s4, s5.1, s6]
      exact ⟨⟨hin, trivial⟩, s2.2, ⟨hin, hq, trivial⟩, s5.2, ⟨hin, trivial⟩, ih.2⟩

/-- `<name attrs` read from text mode (`d = 0` only before the root element has been seen) -/
theorem open_tag (d : Nat) (b : Bool) (hdb : d = 0 → b = false) (n : List Nat) (a : Attrs)
    (hn : nameOk n = true) (ha : attrsOk a = true) :
    run ⟨.text, d, b⟩ (60 :: n ++ serAttrs a) = ⟨.stag, d, b⟩ ∧
      AllSt (InTag d b) ⟨.text, d, b⟩ (60 :: n ++ serAttrs a) := by
  match n, hn with
  | c :: r, hn =>
    simp only [nameOk, Bool.and_eq_true] at hn
    have hc := nameChar_ne (nameStart_nameChar hn.1)
    have s0 : step ⟨.text, d, b⟩ 60 = ⟨.lt, d, b⟩ := by simp [step]
    have s1 : step ⟨.lt, d, b⟩ c = ⟨.stag, d, b⟩ := by
      have : ¬ (d = 0 ∧ b = true) := by
        intro ⟨h1, h2⟩; have := hdb h1; rw [this] at h2; cases h2
      simp [step, hc.2.2.2.2, hc.2.1, hn.1, this]
    have s2 := name_run d b r hn.2
    have s3 := attrs_run d b a ha
    have e : 60 :: (c :: r) ++ serAttrs a = [60] ++ ([c] ++ (r ++ serAttrs a)) := by simp
    rw [e]
    constructor
    · simp only [run_append, run_cons, run_nil, s0, s1, s2.1, s3.1]
    · simp only [AllSt_append, AllSt, run_cons, run_nil, s0, s1, s2.1]
      exact ⟨⟨⟨rfl, rfl, by simp⟩, trivial⟩, ⟨⟨rfl, rfl, by simp⟩, trivial⟩, s2.2, s3.2⟩

/-- `</name` read from text mode at depth `d` -/
theorem close_tag (d : Nat) (b : Bool) (n : List Nat) (hn : nameOk n = true) :
    run ⟨.text, d, b⟩ ([60, 47] ++ n) = ⟨.etag, d, b⟩ ∧ AllSt (InTag d b) ⟨.text, d, b⟩ ([60, 47] ++ n) := by
  have s0 : step ⟨.text, d, b⟩ 60 = ⟨.lt, d, b⟩ := by simp [step]
  have s1 : step ⟨.lt, d, b⟩ 47 = ⟨.etag, d, b⟩ := by simp [step]
  have s2 : run ⟨.etag, d, b⟩ n = ⟨.etag, d, b⟩ ∧ AllSt (InTag d b) ⟨.etag, d, b⟩ n := by
    apply stay _ ⟨rfl, rfl, by simp⟩
    intro c hc
    have := nameChar_ne (List.all_eq_true.mp (nameOk_all hn) c hc)
    simp [step, this.2.2.1, this.2.2.2.1]
  have e : [60, 47] ++ n = [60] ++ ([47] ++ n) := rfl
  rw [e]
  constructor
  · simp only [run_append, run_cons, run_nil, s0, s1, s2.1]
  · simp only [AllSt_append, AllSt, run_cons, run_nil, s0, s1]
    exact ⟨⟨⟨rfl, rfl, by simp⟩, trivial⟩, ⟨⟨rfl, rfl, by simp⟩, trivial⟩, s2.2⟩

/-- **the tree induction**: a well-formed forest read inside an element (depth `d + 1`) brings the scanner back to
    the state it started from, and the depth never drops below `d + 1` on the way -/
theorem forest_run : ∀ (f : Forest), f.wf = true → ∀ (d : Nat),
    run ⟨.text, d + 1, true⟩ f.ser = ⟨.text, d + 1, true⟩ ∧
      AllSt (fun st => d + 1 ≤ st.depth) ⟨.text, d + 1, true⟩ f.ser := by
  intro f
  induction f with
  | nil => intro _ d; exact ⟨rfl, trivial⟩
  | text t r ih =>
    intro h d
    simp only [Forest.wf, Bool.and_eq_true] at h
    have s1 : run ⟨.text, d + 1, true⟩ t = ⟨.text, d + 1, true⟩ ∧
        AllSt (fun st => d + 1 ≤ st.depth) ⟨.text, d + 1, true⟩ t := by
      apply stay (P := fun st => d + 1 ≤ st.depth) _ (Nat.le_refl _)
      intro c hc
      have := List.all_eq_true.mp h.1 c hc
      simp only [Bool.and_eq_true, bne_iff_ne, ne_eq] at this
      simp [step, this.1]
    have ih := ih h.2 d
    simp only [Forest.ser, run_append, AllSt_append, s1.1]
    exact ⟨ih.1, s1.2, ih.2⟩
  | empty n a r ih =>
    intro h d
    simp only [Forest.wf, Bool.and_eq_true] at h
    obtain ⟨⟨hn, ha⟩, hr⟩ := h
    have o := open_tag (d + 1) true (by omega) n a hn ha
    have ih := ih hr d
    have e : (Forest.empty n a r).ser = (60 :: n ++ serAttrs a) ++ ([47] ++ ([62] ++ r.ser)) := by
      simp [Forest.ser]
    have s1 : step ⟨.stag, d + 1, true⟩ 47 = ⟨.slash, d + 1, true⟩ := by simp [step]
    have s2 : step ⟨.slash, d + 1, true⟩ 62 = ⟨.text, d + 1, true⟩ := by simp [step]
    rw [e]
    have o2 : AllSt (fun st => d + 1 ≤ st.depth) ⟨.text, d + 1, true⟩ (60 :: n ++ serAttrs a) :=
      AllSt_mono (fun s (hs : InTag (d + 1) true s) => by rw [hs.1]; exact Nat.le_refl _) _ _ o.2
    have o1 := o.1
    generalize (60 :: n ++ serAttrs a) = T at o1 o2 ⊢
    constructor
    · simp only [run_append, run_cons, run_nil, o1, s1, s2, ih.1]
    · simp only [AllSt_append, AllSt, run_cons, run_nil, o1, s1, s2]
      exact ⟨o2, ⟨Nat.le_refl _, trivial⟩, ⟨Nat.le_refl _, trivial⟩, ih.2⟩
  | elem n a ch r ihc ihr =>
    intro h d
    simp only [Forest.wf, Bool.and_eq_true] at h
    obtain ⟨⟨⟨hn, ha⟩, hc⟩, hr⟩ := h
    have o := open_tag (d + 1) true (by omega) n a hn ha
    have ic := ihc hc (d + 1)
    have cl := close_tag (d + 1 + 1) true n hn
    have ir := ihr hr d
    have e : (Forest.elem n a ch r).ser =
        (60 :: n ++ serAttrs a) ++ ([62] ++ (ch.ser ++ (([60, 47] ++ n) ++ ([62] ++ r.ser)))) := by
      simp [Forest.ser]
    have s1 : step ⟨.stag, d + 1, true⟩ 62 = ⟨.text, d + 1 + 1, true⟩ := by simp [step]
    have s2 : step ⟨.etag, d + 1 + 1, true⟩ 62 = ⟨.text, d + 1, true⟩ := by simp [step]
    rw [e]
    have o2 : AllSt (fun st => d + 1 ≤ st.depth) ⟨.text, d + 1, true⟩ (60 :: n ++ serAttrs a) :=
      AllSt_mono (fun s (hs : InTag (d + 1) true s) => by rw [hs.1]; exact Nat.le_refl _) _ _ o.2
    have o1 := o.1
    have c2 : AllSt (fun st => d + 1 ≤ st.depth) ⟨.text, d + 1 + 1, true⟩ ([60, 47] ++ n) :=
      AllSt_mono (fun s (hs : InTag (d + 1 + 1) true s) => by rw [hs.1]; omega) _ _ cl.2
    have c1 := cl.1
    have i2 : AllSt (fun st => d + 1 ≤ st.depth) ⟨.text, d + 1 + 1, true⟩ ch.ser :=
      AllSt_mono (fun s (hs : d + 1 + 1 ≤ s.depth) => by omega) _ _ ic.2
    generalize (60 :: n ++ serAttrs a) = T at o1 o2 ⊢
    generalize ([60, 47] ++ n) = U at c1 c2 ⊢
    constructor
    · simp only [run_append, run_cons, run_nil, o1, s1, ic.1, c1, s2, ir.1]
    · simp only [AllSt_append, AllSt, run_cons, run_nil, o1, s1, ic.1, c1, s2]
      exact ⟨o2, ⟨by simp, trivial⟩, i2, c2, ⟨Nat.le_refl _, trivial⟩, ir.2⟩

/-! ### whole documents -/

theorem acc_of_not_seen {st : St} (h : st.seen = false) : accept st = false := by simp [accept, h]
theorem acc_of_inTag {d : Nat} {b : Bool} {st : St} (h : InTag d b st) : accept st = false := by
  have := h.2.2
  simp [accept, this]
theorem acc_of_depth {st : St} (h : 0 + 1 ≤ st.depth) : accept st = false := by
  have : st.depth ≠ 0 := by omega
  simp [accept, this]

theorem ws_ne_lt {c : Nat} (h : isWs c = true) : c ≠ 60 := by
  simp only [isWs, Bool.or_eq_true, beq_iff_eq] at h
  omega

theorem ws_run (b : Bool) (P : St → Prop) (hP : P ⟨.text, 0, b⟩) (ws : List Nat) (h : ws.all isWs = true) :
    run ⟨.text, 0, b⟩ ws = ⟨.text, 0, b⟩ ∧ AllSt P ⟨.text, 0, b⟩ ws := by
  apply stay _ hP
  intro c hc
  have hw := List.all_eq_true.mp h c hc
  simp [step, ws_ne_lt hw, hw]

theorem prolog_run (d : Doc) (h : d.wf = true) :
    run init d.prolog = init ∧ AllSt (fun st => accept st = false) init d.prolog := by
  simp only [Doc.wf, Bool.and_eq_true] at h
  obtain ⟨⟨⟨⟨⟨hd, hw1⟩, _⟩, _⟩, _⟩, _⟩ := h
  have w := ws_run false (fun st => accept st = false) (by simp [accept]) d.ws1 hw1
  unfold Doc.prolog init
  cases hdecl : d.decl with
  | none => simpa using w
  | some t =>
    rw [hdecl] at hd
    simp only at hd
    have s0 : step ⟨.text, 0, false⟩ 60 = ⟨.lt, 0, false⟩ := by simp [step]
    have s1 : step ⟨.lt, 0, false⟩ 63 = ⟨.decl, 0, false⟩ := by simp [step]
    have s2 : run ⟨.decl, 0, false⟩ t = ⟨.decl, 0, false⟩ ∧
        AllSt (fun st => accept st = false) ⟨.decl, 0, false⟩ t := by
      apply stay _ (by simp [accept])
      intro c hc
      have := List.all_eq_true.mp hd c hc
      simp only [bne_iff_ne, ne_eq] at this
      simp [step, this]
    have s3 : step ⟨.decl, 0, false⟩ 63 = ⟨.declQ, 0, false⟩ := by simp [step]
    have s4 : step ⟨.declQ, 0, false⟩ 62 = ⟨.text, 0, false⟩ := by simp [step]
    have e : [60, 63] ++ t ++ [63, 62] ++ d.ws1 = [60] ++ ([63] ++ (t ++ ([63] ++ ([62] ++ d.ws1)))) := by simp
    simp only [e]
    constructor
    · simp only [run_append, run_cons, run_nil, s0, s1, s2.1, s3, s4, w.1]
    · simp only [AllSt_append, AllSt, run_cons, run_nil, s0, s1, s2.1, s3, s4]
      exact ⟨⟨by simp [accept], trivial⟩, ⟨by simp [accept], trivial⟩, s2.2, ⟨by simp [accept], trivial⟩,
        ⟨by simp [accept], trivial⟩, w.2⟩

/-- the root element up to (excluding) its last byte: never accepted; the last byte `>` completes it -/
theorem root_run (d : Doc) (h : d.wf = true) :
    AllSt (fun st => accept st = false) init d.rootInit ∧ step (run init d.rootInit) 62 = ⟨.text, 0, true⟩ := by
  simp only [Doc.wf, Bool.and_eq_true] at h
  obtain ⟨⟨⟨⟨_, _⟩, hn⟩, ha⟩, hb⟩ := h
  have o := open_tag 0 false (fun _ => rfl) d.name d.attrs hn ha
  have o2 : AllSt (fun st => accept st = false) ⟨.text, 0, false⟩ (60 :: d.name ++ serAttrs d.attrs) :=
    AllSt_mono (fun s (hs : InTag 0 false s) => acc_of_inTag hs) _ _ o.2
  have o1 := o.1
  unfold Doc.rootInit init
  cases hbody : d.body with
  | none =>
    have s1 : step ⟨.stag, 0, false⟩ 47 = ⟨.slash, 0, false⟩ := by simp [step]
    have s2 : step ⟨.slash, 0, false⟩ 62 = ⟨.text, 0, true⟩ := by simp [step]
    generalize (60 :: d.name ++ serAttrs d.attrs) = T at o1 o2 ⊢
    simp only [AllSt_append, AllSt, run_append, run_cons, run_nil, o1, s1, s2]
    exact ⟨⟨o2, by simp [accept], trivial⟩, trivial⟩
  | some f =>
    rw [hbody] at hb
    simp only at hb
    have fr := forest_run f hb 0
    have f2 : AllSt (fun st => accept st = false) ⟨.text, 0 + 1, true⟩ f.ser :=
      AllSt_mono (fun s hs => acc_of_depth hs) _ _ fr.2
    have f1 := fr.1
    have cl := close_tag (0 + 1) true d.name hn
    have c2 : AllSt (fun st => accept st = false) ⟨.text, 0 + 1, true⟩ ([60, 47] ++ d.name) :=
      AllSt_mono (fun s (hs : InTag (0 + 1) true s) => acc_of_inTag hs) _ _ cl.2
    have c1 := cl.1
    have s1 : step ⟨.stag, 0, false⟩ 62 = ⟨.text, 0 + 1, true⟩ := by simp [step]
    have s2 : step ⟨.etag, 0 + 1, true⟩ 62 = ⟨.text, 0, true⟩ := by simp [step]
    have e : 60 :: d.name ++ serAttrs d.attrs ++ [62] ++ f.ser ++ [60, 47] ++ d.name =
        (60 :: d.name ++ serAttrs d.attrs) ++ ([62] ++ (f.ser ++ ([60, 47] ++ d.name))) := by simp
    simp only [e]
    generalize (60 :: d.name ++ serAttrs d.attrs) = T at o1 o2 ⊢
    generalize ([60, 47] ++ d.name) = U at c1 c2 ⊢
    simp only [AllSt_append, AllSt, run_append, run_cons, run_nil, o1, s1, f1, c1, s2]
    exact ⟨⟨o2, ⟨by simp [accept], trivial⟩, f2, c2⟩, trivial⟩

/-- **the prefix theorem**: a prefix of a serialized document is accepted exactly if it contains the last byte
    of the root element -/
theorem scan_take_iff (d : Doc) (h : d.wf = true) (n : Nat) :
    scan ((d.ser).take n) = true ↔ (d.prolog ++ d.rootInit).length < n := by
  have p := prolog_run d h
  have r := root_run d h
  have hw2 : d.ws2.all isWs = true := by
    simp only [Doc.wf, Bool.and_eq_true] at h
    exact h.1.1.1.2
  have hall : AllSt (fun st => accept st = false) init (d.prolog ++ d.rootInit) := by
    rw [AllSt_append, p.1]; exact ⟨p.2, r.1⟩
  have hlast : step (run init (d.prolog ++ d.rootInit)) 62 = ⟨.text, 0, true⟩ := by
    rw [run_append, p.1]; exact r.2
  have e : d.ser = (d.prolog ++ d.rootInit) ++ (62 :: d.ws2) := by simp [Doc.ser]
  unfold scan
  rw [e]
  generalize (d.prolog ++ d.rootInit) = A at hall hlast ⊢
  constructor
  · intro hacc
    apply Classical.byContradiction
    intro hn
    have hle : n ≤ A.length := by omega
    rw [List.take_append_of_le_length hle] at hacc
    have := AllSt_take A init (by simp [accept, init]) hall n
    rw [this] at hacc
    cases hacc
  · intro hn
    obtain ⟨k, hk⟩ : ∃ k, n - A.length = k + 1 := ⟨n - A.length - 1, by omega⟩
    rw [List.take_append, List.take_of_length_le (by omega), hk, List.take_succ_cons, run_append, run_cons, hlast]
    have hw : (d.ws2.take k).all isWs = true := by
      rw [List.all_eq_true] at hw2 ⊢
      intro c hc
      exact hw2 c (List.mem_of_mem_take hc)
    rw [(ws_run true (fun _ => True) trivial _ hw).1]
    rfl

end Fc.XmlLite
